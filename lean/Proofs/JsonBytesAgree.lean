/-
TREE AGREEMENT of the byte-level filters (`filterA`, Martian/JsonBytes.lean) with the tree-level
model (`TypesR.filter`, Martian/Types.lean): whenever the byte-level filter does not fail fatally,
the tree of the bytes it returns is the tree the tree-level model computes, as a decode into maps
sees it (`EqL`: per key last wins; member order and shadowed duplicates are invisible).
Core Lean only.
-/
import Martian.JsonBytes
import Proofs.JsonBytes
import Proofs.JsonBytesFilter
import Proofs.Types
import Proofs.TypesRound
namespace Martian.JsonBytes
open Martian.Json (J Num getKey)
open Martian.Lexer (Bytes)
open Martian.Types (Ty Fields Base FErr canFilter worstF)

/-! ### equality of trees as a `map` decode sees them: member order and shadowed duplicates
are invisible, every key is looked up last-wins -/
mutual
inductive EqL : J → J → Prop where
  | null : EqL .null .null
  | bool (b : Bool) : EqL (.bool b) (.bool b)
  | num (n : Num) : EqL (.num n) (.num n)
  | str (s : Bytes) : EqL (.str s) (.str s)
  | arr {xs ys : List J} : EqLs xs ys → EqL (.arr xs) (.arr ys)
  | obj {k1 k2 : List (Bytes × J)} :
      (∀ k, (getKey k k1).isSome = (getKey k k2).isSome) →
      (∀ k v1 v2, getKey k k1 = some v1 → getKey k k2 = some v2 → EqL v1 v2) → EqL (.obj k1) (.obj k2)
inductive EqLs : List J → List J → Prop where
  | nil : EqLs [] []
  | cons {x y : J} {xs ys : List J} : EqL x y → EqLs xs ys → EqLs (x :: xs) (y :: ys)
end

theorem getKey_mem_sizeOf {k : Bytes} {v : J} : ∀ {kvs : List (Bytes × J)}, getKey k kvs = some v →
    sizeOf v < sizeOf kvs := by
  intro kvs h
  have hm := Martian.Json.getKey_mem h
  have := List.sizeOf_lt_of_mem hm
  simp only [Prod.mk.sizeOf_spec] at this
  omega

mutual
theorem EqL.refl : ∀ j : J, EqL j j
  | .null => .null
  | .bool b => .bool b
  | .num n => .num n
  | .str s => .str s
  | .arr xs => .arr (EqLs.refl xs)
  | .obj kvs => .obj (fun _ => rfl) (fun k v1 v2 h1 h2 => by
      rw [h1] at h2; injection h2 with h2; subst h2
      have := getKey_mem_sizeOf h1
      exact EqL.refl v1)
theorem EqLs.refl : ∀ xs : List J, EqLs xs xs
  | [] => .nil
  | x :: r => .cons (EqL.refl x) (EqLs.refl r)
end


/-! ### lookups through the byte-level model's list operations -/

theorem getKey_toJKvs (k : Bytes) : ∀ (m : List (Bytes × A)), getKey k (toJKvs m) = (getKeyG k m).map A.toJ
  | [] => rfl
  | (k', v) :: r => by
    simp only [toJKvs, getKey, getKeyG, getKey_toJKvs k r]
    cases getKeyG k r with
    | some w => rfl
    | none => by_cases h : k' = k <;> simp [h]

theorem getKeyG_none_iff {α : Type} {k : Bytes} : ∀ {l : List (Bytes × α)},
    getKeyG k l = none ↔ k ∉ l.map Prod.fst
  | [] => by simp [getKeyG]
  | (k', v) :: r => by
    have ih := @getKeyG_none_iff α k r
    simp only [getKeyG, List.map_cons, List.mem_cons, not_or]
    cases hg : getKeyG k r with
    | some w =>
      have : ¬ (k ∉ r.map Prod.fst) := fun hh => by rw [ih.mpr hh] at hg; cases hg
      constructor
      · intro h; cases h
      · intro hh; exact absurd hh.2 this
    | none =>
      have hn := ih.mp hg
      by_cases h : k' = k
      · simp [h]
      · have h' : ¬ k = k' := fun e => h e.symm
        simp [h, h', hn]

theorem getKeyG_dedupLastG {α : Type} (k : Bytes) : ∀ (l : List (Bytes × α)),
    getKeyG k (dedupLastG l) = getKeyG k l
  | [] => rfl
  | (k', v) :: r => by
    have ih := getKeyG_dedupLastG k r
    simp only [dedupLastG]
    by_cases hc : (r.map Prod.fst).contains k' = true
    · simp only [hc, ↓reduceIte, ih, getKeyG]
      cases hg : getKeyG k r with
      | some w => rfl
      | none =>
        have hk : k ∉ r.map Prod.fst := getKeyG_none_iff.mp hg
        have : k' ≠ k := by
          rintro rfl
          exact hk (by simpa using hc)
        simp [this]
    · simp only [hc, Bool.false_eq_true, ↓reduceIte, getKeyG, ih]

theorem keys_dedupLastG_nodup {α : Type} : ∀ (l : List (Bytes × α)), ((dedupLastG l).map Prod.fst).Nodup
  | [] => by simp [dedupLastG]
  | (k', v) :: r => by
    have ih := keys_dedupLastG_nodup r
    simp only [dedupLastG]
    by_cases hc : (r.map Prod.fst).contains k' = true
    · simp only [hc, ↓reduceIte]; exact ih
    · simp only [hc, Bool.false_eq_true, ↓reduceIte, List.map_cons, List.nodup_cons]
      refine ⟨?_, ih⟩
      intro hm
      obtain ⟨⟨k, w⟩, hkv, hk⟩ := List.mem_map.mp hm
      simp only at hk; subst hk
      apply hc
      have hmem : k ∈ r.map Prod.fst := (List.mem_map (f := Prod.fst)).mpr ⟨(k, w), mem_dedupLastG hkv, rfl⟩
      simpa using hmem

theorem getKeyG_insertByKey {α : Type} (k : Bytes) (x : Bytes × α) : ∀ (l : List (Bytes × α)),
    x.1 ∉ l.map Prod.fst → getKeyG k (insertByKey x l) = if x.1 = k then some x.2 else getKeyG k l
  | [], _ => by
    obtain ⟨xk, xv⟩ := x
    by_cases h : xk = k <;> simp [insertByKey, getKeyG, h]
  | y :: r, hx => by
    obtain ⟨xk, xv⟩ := x
    obtain ⟨yk, yv⟩ := y
    simp only [List.map_cons, List.mem_cons, not_or] at hx
    simp only [insertByKey]
    split
    · -- x in front
      simp only [getKeyG]
      by_cases h : xk = k
      · subst h
        have h1 : getKeyG xk r = none := getKeyG_none_iff.mpr hx.2
        have h2 : ¬ yk = xk := fun e => hx.1 e.symm
        simp [h1, h2]
      · simp only [h, ↓reduceIte]
        cases getKeyG k r with
        | some w => rfl
        | none => by_cases hy : yk = k <;> simp [hy]
    · have ih := getKeyG_insertByKey k (xk, xv) r hx.2
      simp only [getKeyG, ih]
      by_cases h : xk = k
      · subst h
        have h2 : ¬ yk = xk := fun e => hx.1 e.symm
        simp
      · simp only [h, ↓reduceIte]

theorem keys_sortByKey_subset {α : Type} {k : Bytes} {l : List (Bytes × α)}
    (h : k ∈ (sortByKey l).map Prod.fst) : k ∈ l.map Prod.fst := by
  obtain ⟨⟨k', v⟩, hm, hk⟩ := List.mem_map.mp h
  simp only at hk; subst hk
  exact List.mem_map.mpr ⟨(k', v), mem_sortByKey hm, rfl⟩

theorem getKeyG_sortByKey {α : Type} (k : Bytes) : ∀ (l : List (Bytes × α)), (l.map Prod.fst).Nodup →
    getKeyG k (sortByKey l) = getKeyG k l
  | [], _ => rfl
  | (xk, xv) :: r, hn => by
    simp only [List.map_cons, List.nodup_cons] at hn
    have ih := getKeyG_sortByKey k r hn.2
    have hx : xk ∉ (sortByKey r).map Prod.fst := fun hh => hn.1 (keys_sortByKey_subset hh)
    have hs : sortByKey ((xk, xv) :: r) = insertByKey (xk, xv) (sortByKey r) := rfl
    rw [hs, getKeyG_insertByKey k (xk, xv) _ hx, ih]
    simp only [getKeyG]
    by_cases h : xk = k
    · subst h
      have : getKeyG xk r = none := getKeyG_none_iff.mpr hn.1
      simp [this]
    · simp only [h, ↓reduceIte]
      cases getKeyG k r <;> simp

/-- looking a key up in what the typed-map filter iterates over = looking it up (last wins) in the members -/
theorem getKeyG_sorted_dedup {α : Type} (k : Bytes) (l : List (Bytes × α)) :
    getKeyG k (sortByKey (dedupLastG l)) = getKeyG k l := by
  rw [getKeyG_sortByKey k _ (keys_dedupLastG_nodup l), getKeyG_dedupLastG]


/-! ### the fast path returns the input -/

theorem filterBaseA_same (b : Base) (a : A) (h : (filterBaseA b a).same = true) : (filterBaseA b a).out = a := by
  unfold filterBaseA at h ⊢
  split
  · rename_i heq; simp [heq] at h
  · rfl

theorem filterA_same (t : Ty) (a : A) (h : (filterA t a).same = true) : (filterA t a).out = a := by
  cases t with
  | base b => simp only [filterA] at h ⊢; exact filterBaseA_same b a h
  | user n => simp only [filterA]; split <;> rfl
  | arr t =>
    simp only [filterA] at h ⊢
    split
    · rfl
    · rename_i hc
      simp only [hc, Bool.false_eq_true, ↓reduceIte] at h
      cases a with
      | arr raw xs =>
        simp only at h ⊢
        split
        · rfl
        · rename_i he
          simp only [he, Bool.false_eq_true, ↓reduceIte] at h
          split
          · rfl
          · rename_i hs; simp [hs] at h
      | lit raw j => rfl
      | obj raw kvs => rfl
  | tmap t =>
    simp only [filterA] at h ⊢
    split
    · rfl
    · rename_i hc
      simp only [hc, Bool.false_eq_true, ↓reduceIte] at h
      cases a with
      | obj raw kvs =>
        simp only at h ⊢
        split
        · rfl
        · rename_i he
          simp only [he, Bool.false_eq_true, ↓reduceIte] at h
          split
          · rfl
          · rename_i hs; simp [hs] at h
      | lit raw j => rfl
      | arr raw xs => rfl
  | struct n fs =>
    simp only [filterA] at h ⊢
    split
    · rfl
    · rename_i hc
      simp only [hc, Bool.false_eq_true, ↓reduceIte] at h
      cases a with
      | obj raw kvs =>
        simp only at h ⊢
        split
        · rfl
        · rename_i hs; simp [hs] at h
      | lit raw j => rfl
      | arr raw xs => rfl

/-- what the struct member loop writes for one member -/
def fieldOutA (t : Ty) : Option A → A
  | none => nullA
  | some v => if canFilter t then (filterA t v).out else v

theorem filterFieldsA_fst : ∀ (fs : Fields) (m : List (Bytes × A)),
    (filterFieldsA fs m).1 = fs.toList.map (fun kt => (kt.1, fieldOutA kt.2 (getKeyG kt.1 m)))
  | .nil, m => by simp [filterFieldsA, Fields.toList]
  | .cons k t r, m => by
    have ih := filterFieldsA_fst r m
    simp only [filterFieldsA, Fields.toList, List.map_cons]
    cases hg : getKeyG k m with
    | none => simp [fieldOutA, ih]
    | some v =>
      by_cases hc : canFilter t = true
      · simp [fieldOutA, hc, ih]
      · have hc' : canFilter t = false := by simpa using hc
        simp [fieldOutA, hc', ih]

/-- a non-fatal member loop found every member, and no member filter was fatal; `different` is
exactly "some filtered member changed" -/
theorem filterFieldsA_ne_fatal : ∀ (fs : Fields) (m : List (Bytes × A)), (filterFieldsA fs m).2.2 ≠ .fatal →
    ∀ k t, (k, t) ∈ fs.toList → ∃ v, getKeyG k m = some v ∧ (canFilter t = true → (filterA t v).err ≠ .fatal) ∧
      ((filterFieldsA fs m).2.1 = false → canFilter t = true → (filterA t v).same = true)
  | .nil, m, _ => by simp [Fields.toList]
  | .cons k t r, m, h => by
    intro k' t' hm
    simp only [Fields.toList, List.mem_cons, Prod.mk.injEq] at hm
    simp only [filterFieldsA] at h ⊢
    cases hg : getKeyG k m with
    | none => simp [hg] at h
    | some v =>
      simp only [hg] at h ⊢
      by_cases hc : canFilter t = true
      · simp only [hc, ↓reduceIte] at h ⊢
        rw [Martian.Types.FErr.max_ne_fatal] at h
        rcases hm with ⟨rfl, rfl⟩ | hm
        · refine ⟨v, hg, fun _ => h.1, ?_⟩
          intro hd _
          simp only [Bool.or_eq_false_iff, Bool.not_eq_false'] at hd
          exact hd.2
        · obtain ⟨v', h1, h2, h3⟩ := filterFieldsA_ne_fatal r m h.2 k' t' hm
          refine ⟨v', h1, h2, ?_⟩
          intro hd
          simp only [Bool.or_eq_false_iff] at hd
          exact h3 hd.1
      · have hc' : canFilter t = false := by simpa using hc
        simp only [hc', Bool.false_eq_true, ↓reduceIte] at h ⊢
        rcases hm with ⟨rfl, rfl⟩ | hm
        · exact ⟨v, hg, fun hcc => by simp [hc'] at hcc, fun _ hcc => by simp [hc'] at hcc⟩
        · exact filterFieldsA_ne_fatal r m h k' t' hm


theorem pigeon {α : Type} [DecidableEq α] : ∀ (l2 l1 : List α), l2.Nodup → l1.Nodup → l2 ⊆ l1 →
    l1.length ≤ l2.length → l1 ⊆ l2
  | [], l1, _, _, _, hl => by
    have : l1 = [] := List.eq_nil_of_length_eq_zero (by simpa using hl)
    subst this; exact List.Subset.refl _
  | x :: r, l1, h2, h1, hs, hl => by
    simp only [List.nodup_cons] at h2
    have hx : x ∈ l1 := hs (by simp)
    have hr : r ⊆ l1.erase x := by
      intro y hy
      have hne : y ≠ x := by rintro rfl; exact h2.1 hy
      exact (List.mem_erase_of_ne hne).mpr (hs (by simp [hy]))
    have hlen : (l1.erase x).length ≤ r.length := by
      rw [List.length_erase_of_mem hx]; simp at hl; omega
    have ih := pigeon r (l1.erase x) h2.2 (h1.erase x) hr hlen
    intro y hy
    by_cases hyx : y = x
    · simp [hyx]
    · exact List.mem_cons_of_mem _ (ih ((List.mem_erase_of_ne hyx).mpr hy))

/-! ### the tree returned by the byte-level filter is the tree-level model's, as a map decode sees it -/

theorem toJs_eq_map : ∀ xs : List A, toJs xs = xs.map A.toJ
  | [] => rfl
  | x :: r => by simp [toJs, toJs_eq_map r]

theorem toJKvs_eq_map : ∀ kvs : List (Bytes × A), toJKvs kvs = kvs.map fun kv => (kv.1, kv.2.toJ)
  | [] => rfl
  | (k, v) :: r => by simp [toJKvs, toJKvs_eq_map r]

theorem eqLs_map {α : Type} (f g : α → J) : ∀ (l : List α), (∀ x, x ∈ l → EqL (f x) (g x)) → EqLs (l.map f) (l.map g)
  | [], _ => .nil
  | x :: r, h => .cons (h x (by simp)) (eqLs_map f g r (fun y hy => h y (by simp [hy])))

theorem getKeyG_mapVal {α β : Type} (g : α → β) (k : Bytes) : ∀ (l : List (Bytes × α)),
    getKeyG k (l.map fun kv => (kv.1, g kv.2)) = (getKeyG k l).map g
  | [] => rfl
  | (k', v) :: r => by
    simp only [List.map_cons, getKeyG, getKeyG_mapVal g k r]
    cases getKeyG k r with
    | some w => rfl
    | none => by_cases h : k' = k <;> simp [h]

theorem getKey_eq_getKeyG (k : Bytes) : ∀ (l : List (Bytes × J)), getKey k l = getKeyG k l
  | [] => rfl
  | (k', v) :: r => by
    simp only [getKey, getKeyG, getKey_eq_getKeyG k r]
    cases getKeyG k r <;> rfl

/-- objects with related last-wins lookups are `EqL` -/
theorem eqL_obj_of_lookup {α : Type} (l1 l2 : List (Bytes × J)) (src : Bytes → Option α) (f g : α → J)
    (h1 : ∀ k, getKey k l1 = (src k).map f) (h2 : ∀ k, getKey k l2 = (src k).map g)
    (h : ∀ k v, src k = some v → EqL (f v) (g v)) : EqL (.obj l1) (.obj l2) := by
  refine .obj ?_ ?_
  · intro k; rw [h1, h2]; cases src k <;> rfl
  · intro k v1 v2 e1 e2
    rw [h1] at e1; rw [h2] at e2
    cases hs : src k with
    | none => simp [hs] at e1
    | some v =>
      simp only [hs, Option.map_some, Option.some.injEq] at e1 e2
      subst e1; subst e2
      exact h k v hs

theorem filterBaseR_fst (b : Base) (v : J) :
    (Martian.TypesR.filterBase b v).1 = v ∨ ∃ i, Martian.TypesR.filterBase b v = (.num (.int i), .soft) := by
  cases b <;> cases v <;> try (left; rfl)
  case int.num n =>
    cases n with
    | int i =>
      simp only [Martian.TypesR.filterBase]
      split
      · left; rfl
      · split
        · right; exact ⟨_, rfl⟩
        · left; rfl
    | flt m e =>
      simp only [Martian.TypesR.filterBase]
      split
      · right; exact ⟨_, rfl⟩
      · left; rfl
  all_goals (simp only [Martian.TypesR.filterBase]; left; rfl)


theorem agree_base (b : Base) (a : A) :
    EqL (filterBaseA b a).out.toJ (Martian.TypesR.filterBase b a.toJ).1 := by
  rcases filterBaseR_fst b a.toJ with h | ⟨i, h⟩
  · unfold filterBaseA
    split
    · rename_i i heq; rw [heq]; exact EqL.refl _
    · rw [h]; exact EqL.refl _
  · simp only [filterBaseA, h, A.toJ]; exact EqL.refl _

/-- TREE AGREEMENT: whenever the byte-level filter does not fail fatally, the tree of the bytes it
returns is the tree the tree-level model `TypesR.filter` computes – as a decode into Go maps (or a
Python dict) sees it: per key, last wins; member order and shadowed duplicates are invisible. -/
theorem filterA_agrees (t : Ty) : t.wf = true → ∀ a, (filterA t a).err ≠ .fatal →
    EqL (filterA t a).out.toJ (Martian.TypesR.filter t a.toJ).1 := by
  induction t using Martian.Types.Ty.induct' with
  | base b => intro _ a _; simp only [filterA, Martian.TypesR.filter]; exact agree_base b a
  | user n =>
    intro _ a _
    have h1 : (filterA (.user n) a).out = a := by simp only [filterA]; split <;> rfl
    have h2 : (Martian.TypesR.filter (.user n) a.toJ).1 = a.toJ := by
      simp only [Martian.TypesR.filter]; split <;> rfl
    rw [h1, h2]; exact EqL.refl _
  | arr t ih =>
    intro hwf a h
    simp only [Ty.wf] at hwf
    by_cases hcf : canFilter t = true
    · cases a with
      | arr raw xs =>
        simp only [filterA, A.isNull, hcf, Bool.not_true, Bool.or_self, Bool.false_eq_true, ↓reduceIte] at h ⊢
        simp only [Martian.TypesR.filter, hcf, Bool.not_true, Bool.false_eq_true, ↓reduceIte, A.toJ, toJs_eq_map,
          List.map_map]
        by_cases he : xs.isEmpty = true
        · simp only [he, ↓reduceIte, A.toJ, toJs_eq_map]
          have : xs = [] := by simpa using he
          subst this; exact EqL.refl _
        · simp only [he, Bool.false_eq_true, ↓reduceIte] at h ⊢
          have herr : ∀ x, x ∈ xs → (filterA t x).err ≠ .fatal := by
            intro x hx
            have hw : worstF ((xs.map fun x => filterA t x).map (·.err)) ≠ .fatal := by
              split at h <;> exact h
            rw [Martian.Types.worstF_ne_fatal] at hw
            exact hw _ (by simp only [List.map_map, List.mem_map]; exact ⟨x, hx, rfl⟩)
          split
          · rename_i hs
            simp only [A.toJ, toJs_eq_map]
            refine .arr (eqLs_map _ _ xs ?_)
            intro x hx
            have hsame : (filterA t x).same = true := by
              have := List.all_eq_true.mp hs (filterA t x) (by simp only [List.mem_map]; exact ⟨x, hx, rfl⟩)
              exact this
            have := ih hwf x (herr x hx)
            rw [filterA_same t x hsame] at this
            exact this
          · simp only [A.toJ, toJs_eq_map, List.map_map]
            exact .arr (eqLs_map _ _ xs (fun x hx => ih hwf x (herr x hx)))
      | lit raw j =>
        cases j with
        | null =>
          simp only [filterA, A.isNull, Bool.true_or, ↓reduceIte, A.toJ, Martian.TypesR.filter, hcf, Bool.not_true,
            Bool.false_eq_true]
          exact EqL.refl _
        | _ => simp [filterA, A.isNull, hcf] at h
      | obj raw kvs => simp [filterA, A.isNull, hcf] at h
    · have hcf' : canFilter t = false := by simpa using hcf
      simp only [filterA, hcf', Bool.not_false, Bool.or_true, ↓reduceIte, Martian.TypesR.filter]
      exact EqL.refl _
  | tmap t ih =>
    intro hwf a h
    simp only [Ty.wf] at hwf
    by_cases hcf : canFilter t = true
    · cases a with
      | obj raw kvs =>
        simp only [filterA, A.isNull, hcf, Bool.not_true, Bool.or_self, Bool.false_eq_true, ↓reduceIte] at h ⊢
        simp only [Martian.TypesR.filter, hcf, Bool.not_true, Bool.false_eq_true, ↓reduceIte, A.toJ]
        -- lookups on the model side
        have hR : ∀ k, getKey k ((toJKvs kvs).map fun kv => (kv.1, (Martian.TypesR.filter t kv.2).1))
            = (getKeyG k kvs).map fun v => (Martian.TypesR.filter t v.toJ).1 := by
          intro k
          rw [Martian.Json.getKey_mapVal (fun v => (Martian.TypesR.filter t v).1), getKey_toJKvs]
          cases getKeyG k kvs <;> rfl
        by_cases he : (sortByKey (dedupLastG kvs)).isEmpty = true
        · simp only [he, ↓reduceIte, A.toJ]
          have hm : sortByKey (dedupLastG kvs) = [] := by simpa using he
          have hnone : ∀ k, getKeyG k kvs = none := by
            intro k; rw [← getKeyG_sorted_dedup k kvs, hm]; rfl
          refine eqL_obj_of_lookup _ _ (fun k => getKeyG k kvs) A.toJ
            (fun v => (Martian.TypesR.filter t v.toJ).1) (fun k => getKey_toJKvs k kvs) hR ?_
          intro k v hk; rw [hnone k] at hk; cases hk
        · simp only [he, Bool.false_eq_true, ↓reduceIte] at h ⊢
          have herr : ∀ k v, getKeyG k kvs = some v → (filterA t v).err ≠ .fatal := by
            intro k v hk
            have hw : worstF (((sortByKey (dedupLastG kvs)).map fun kv => (kv.1, filterA t kv.2)).map (·.2.err))
                ≠ .fatal := by
              split at h <;> exact h
            rw [Martian.Types.worstF_ne_fatal] at hw
            rw [← getKeyG_sorted_dedup k kvs] at hk
            have hm := getKeyG_mem hk
            exact hw _ (by simp only [List.map_map, List.mem_map]; exact ⟨(k, v), hm, rfl⟩)
          split
          · rename_i hs
            simp only [A.toJ]
            refine eqL_obj_of_lookup _ _ (fun k => getKeyG k kvs) A.toJ
              (fun v => (Martian.TypesR.filter t v.toJ).1) (fun k => getKey_toJKvs k kvs) hR ?_
            intro k v hk
            have hk' := hk
            rw [← getKeyG_sorted_dedup k kvs] at hk'
            have hm := getKeyG_mem hk'
            have hsame : (filterA t v).same = true := by
              have := List.all_eq_true.mp hs (k, filterA t v)
                (by simp only [List.mem_map]; exact ⟨(k, v), hm, rfl⟩)
              exact this
            have := ih hwf v (herr k v hk)
            rw [filterA_same t v hsame] at this
            exact this
          · simp only [A.toJ]
            refine eqL_obj_of_lookup _ _ (fun k => getKeyG k kvs) (fun v => (filterA t v).out.toJ)
              (fun v => (Martian.TypesR.filter t v.toJ).1) ?_ hR (fun k v hk => ih hwf v (herr k v hk))
            intro k
            rw [getKey_toJKvs, List.map_map]
            have : (fun r : Bytes × FRes => (r.1, r.2.out)) ∘ (fun kv : Bytes × A => (kv.1, filterA t kv.2))
                = fun kv => (kv.1, (fun v => (filterA t v).out) kv.2) := rfl
            rw [this, getKeyG_mapVal (fun v => (filterA t v).out), getKeyG_sorted_dedup]
            cases getKeyG k kvs <;> rfl
      | lit raw j =>
        cases j with
        | null =>
          simp only [filterA, A.isNull, Bool.true_or, ↓reduceIte, A.toJ, Martian.TypesR.filter, hcf, Bool.not_true,
            Bool.false_eq_true]
          exact EqL.refl _
        | _ => simp [filterA, A.isNull, hcf] at h
      | arr raw xs => simp [filterA, A.isNull, hcf] at h
    · have hcf' : canFilter t = false := by simpa using hcf
      simp only [filterA, hcf', Bool.not_false, Bool.or_true, ↓reduceIte, Martian.TypesR.filter]
      exact EqL.refl _
  | struct n fs ih =>
    intro hwf a h
    simp only [Ty.wf] at hwf
    obtain ⟨hnd, hwfm⟩ := Martian.Types.Fields.wf_iff.mp hwf
    cases a with
    | obj raw kvs =>
      simp only [filterA, A.isNull, Bool.false_eq_true, ↓reduceIte] at h ⊢
      simp only [Martian.TypesR.filter, A.toJ, Martian.TypesR.filterFields_fst]
      have herr : (filterFieldsA fs (dedupLastG kvs)).2.2 ≠ .fatal := by split at h <;> exact h
      have hmem := filterFieldsA_ne_fatal fs (dedupLastG kvs) herr
      -- per declared member: what both sides hold
      have hfield : ∀ k t, (k, t) ∈ fs.toList → ∃ v, getKeyG k kvs = some v ∧
          EqL (fieldOutA t (some v)).toJ (Martian.TypesR.fieldOut t (some v.toJ)) ∧
          ((filterFieldsA fs (dedupLastG kvs)).2.1 = false →
            EqL v.toJ (Martian.TypesR.fieldOut t (some v.toJ))) := by
        intro k t hkt
        obtain ⟨v, hv, he, hsm⟩ := hmem k t hkt
        rw [getKeyG_dedupLastG] at hv
        refine ⟨v, hv, ?_, ?_⟩
        · by_cases hc : canFilter t = true
          · simp only [fieldOutA, hc, ↓reduceIte, Martian.TypesR.fieldOut]
            exact ih k t hkt (hwfm k t hkt) v (he hc)
          · have hc' : canFilter t = false := by simpa using hc
            simp only [fieldOutA, hc', Bool.false_eq_true, ↓reduceIte, Martian.TypesR.fieldOut,
              Martian.TypesR.filter_fst_of_not_canFilter t _ hc']
            exact EqL.refl _
        · intro hd
          by_cases hc : canFilter t = true
          · have := ih k t hkt (hwfm k t hkt) v (he hc)
            rw [filterA_same t v (hsm hd hc)] at this
            simpa [Martian.TypesR.fieldOut] using this
          · have hc' : canFilter t = false := by simpa using hc
            simp only [Martian.TypesR.fieldOut, Martian.TypesR.filter_fst_of_not_canFilter t _ hc']
            exact EqL.refl _
      -- the declared members as a lookup table
      let L' : List (Bytes × (Bytes × Ty)) := fs.toList.map fun kt => (kt.1, kt)
      have hmapF : ∀ (F : Bytes × Ty → J) k, getKey k (fs.toList.map fun kt => (kt.1, F kt)) = (getKeyG k L').map F := by
        intro F k
        rw [getKey_eq_getKeyG]
        have : (fs.toList.map fun kt => (kt.1, F kt)) = L'.map fun kv => (kv.1, F kv.2) := by
          simp only [L', List.map_map]; rfl
        rw [this, getKeyG_mapVal]
      have hsrc : ∀ k kt, getKeyG k L' = some kt → kt ∈ fs.toList ∧ kt.1 = k := by
        intro k kt hk
        have := getKeyG_mem hk
        simp only [L', List.mem_map, Prod.mk.injEq] at this
        obtain ⟨kt', hm, h1, h2⟩ := this
        subst h2; exact ⟨hm, h1⟩
      by_cases hd : ((dedupLastG kvs).length != fs.toList.length || (filterFieldsA fs (dedupLastG kvs)).2.1) = true
      · -- re-encoded
        have hL : toJKvs (filterFieldsA fs (dedupLastG kvs)).1 = fs.toList.map fun kt =>
            (kt.1, (fieldOutA kt.2 (getKeyG kt.1 (dedupLastG kvs))).toJ) := by
          rw [filterFieldsA_fst, toJKvs_eq_map, List.map_map]; rfl
        simp only [hd, Bool.not_true, Bool.false_eq_true, ↓reduceIte, A.toJ, hL]
        refine eqL_obj_of_lookup _ _ (fun k => getKeyG k L')
          (fun kt => (fieldOutA kt.2 (getKeyG kt.1 (dedupLastG kvs))).toJ)
          (fun kt => Martian.TypesR.fieldOut kt.2 (getKey kt.1 (toJKvs kvs))) (hmapF _) (hmapF _) ?_
        · intro k kt hk
          obtain ⟨hm, _⟩ := hsrc k kt hk
          obtain ⟨v, hv, h1, _⟩ := hfield kt.1 kt.2 hm
          simp only [getKeyG_dedupLastG, hv, getKey_toJKvs, Option.map_some]
          exact h1
      · -- input returned
        have hd' : ((dedupLastG kvs).length != fs.toList.length || (filterFieldsA fs (dedupLastG kvs)).2.1) = false := by
          simpa using hd
        simp only [hd', Bool.not_false, ↓reduceIte, A.toJ]
        simp only [Bool.or_eq_false_iff, bne_eq_false_iff_eq] at hd'
        obtain ⟨hlen, hdiff⟩ := hd'
        -- no undeclared member: as many distinct keys as declared members, all of which are present
        have hsub : ∀ k, k ∈ (dedupLastG kvs).map Prod.fst → k ∈ fs.toList.map Prod.fst := by
          have hpig := pigeon (fs.toList.map Prod.fst) ((dedupLastG kvs).map Prod.fst) hnd (keys_dedupLastG_nodup kvs)
            (by
              intro k hk
              obtain ⟨⟨k', t⟩, hm, rfl⟩ := List.mem_map.mp hk
              obtain ⟨v, hv, _, _⟩ := hmem k' t hm
              cases hg : getKeyG k' (dedupLastG kvs) with
              | none => rw [hg] at hv; cases hv
              | some w =>
                by_cases hin : k' ∈ (dedupLastG kvs).map Prod.fst
                · exact hin
                · rw [getKeyG_none_iff.mpr hin] at hg; cases hg)
            (by simp [hlen])
          exact fun k hk => hpig hk
        refine eqL_obj_of_lookup _ _ (fun k => getKeyG k L')
          (fun kt => ((getKeyG kt.1 kvs).map A.toJ).getD .null)
          (fun kt => Martian.TypesR.fieldOut kt.2 (getKey kt.1 (toJKvs kvs))) ?_ (hmapF _) ?_
        · intro k
          rw [getKey_toJKvs]
          cases hs : getKeyG k L' with
          | some kt =>
            obtain ⟨hm, hk1⟩ := hsrc k kt hs
            obtain ⟨v, hv, _, _⟩ := hfield kt.1 kt.2 hm
            subst hk1
            simp [hv]
          | none =>
            have hnot : k ∉ fs.toList.map Prod.fst := by
              have := getKeyG_none_iff.mp hs
              simpa [L', List.map_map, Function.comp_def] using this
            have : k ∉ (dedupLastG kvs).map Prod.fst := fun hh => hnot (hsub k hh)
            have hnone := getKeyG_none_iff.mpr this
            rw [getKeyG_dedupLastG] at hnone
            simp [hnone]
        · intro k kt hk
          obtain ⟨hm, _⟩ := hsrc k kt hk
          obtain ⟨v, hv, _, h2⟩ := hfield kt.1 kt.2 hm
          simp only [hv, Option.map_some, Option.getD_some, getKey_toJKvs]
          exact h2 hdiff
    | lit raw j =>
      cases j with
      | null =>
        simp only [filterA, A.isNull, ↓reduceIte, A.toJ, Martian.TypesR.filter]
        exact EqL.refl _
      | _ => simp [filterA, A.isNull] at h
    | arr raw xs => simp [filterA, A.isNull] at h

end Martian.JsonBytes
