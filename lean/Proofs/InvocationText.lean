/-
C16, the text leg is the real printer ∘ lexer ∘ parser: `Martian.Invocation.reparse` is what
`parseValExp (fmt [] ·)` / `parseCall (fmtCall ·)` of C09's byte-exact models return (through the
translation `toF` / `ofF`), for every expression the formatter can print and the grammar accepts
back, given strconv's float text as an oracle satisfying `floatsOk`.  Core Lean only.
-/
import Martian.InvocationText
import Proofs.Invocation
import Proofs.FormatExpLex
import Proofs.FormatExpRound
import Proofs.FormatCallLex
namespace Martian.InvocationText
open Martian.Invocation
open Martian.Lexer (Bytes parseInt)

theorem isVal_toF (g : G) (e : Exp) : Martian.FormatExp.isVal (toF g e) = true := by
  cases e with
  | lit l => cases l <;> rfl
  | arr xs => rfl
  | map k kvs => cases k <;> rfl

mutual
/-- the documented normal form of C09 (`norm`: integral float texts read back as ints, `{}` reads
back as a map), pulled back along the translation, is `reparse` -/
theorem ofF_norm_toF (g : G) : ∀ (e : Exp), floatsOk g e = true →
    ofF g (Martian.FormatExp.norm (toF g e)) = reparse e
  | .lit .null, _ => rfl
  | .lit (.bool _), _ => rfl
  | .lit (.int _), _ => rfl
  | .lit (.str _), _ => rfl
  | .lit (.flt f), h => by
    simp only [floatsOk, floatOk] at h
    simp only [toF, Martian.FormatExp.norm, reparse, textLit]
    by_cases hi : f.textAsInt = true
    · simp only [hi, ↓reduceIte, Bool.and_eq_true, Bool.not_eq_true', beq_iff_eq] at h ⊢
      simp [h.1, h.2, ofF]
    · have hi' : f.textAsInt = false := by simpa using hi
      simp only [hi', Bool.false_eq_true, ↓reduceIte, Bool.and_eq_true, beq_iff_eq] at h ⊢
      simp [h.1, h.2, ofF]
  | .arr xs, h => by
    simp only [floatsOk] at h
    simp [toF, Martian.FormatExp.norm, ofF, reparse, ofFList_normL_toFList g xs h]
  | .map false kvs, h => by
    simp only [floatsOk] at h
    have := ofFKvs_normKV_toFKvs g kvs h
    cases kvs with
    | nil => rfl
    | cons k e r => simp [toF, Martian.FormatExp.norm, ofF, reparse, this]
  | .map true kvs, h => by
    simp only [floatsOk] at h
    have := ofFKvs_normKV_toFKvs g kvs h
    cases kvs with
    | nil => rfl
    | cons k e r =>
      simp only [toF, toFKvs] at this ⊢
      simp [Martian.FormatExp.norm, ofF, reparse, this]
theorem ofFList_normL_toFList (g : G) : ∀ (xs : EList), floatsOkList g xs = true →
    ofFList g (Martian.FormatExp.normL (toFList g xs)) = reparseList xs
  | .nil, _ => rfl
  | .cons e r, h => by
    simp only [floatsOkList, Bool.and_eq_true] at h
    simp [toFList, Martian.FormatExp.normL, ofFList, reparseList, ofF_norm_toF g e h.1,
      ofFList_normL_toFList g r h.2]
theorem ofFKvs_normKV_toFKvs (g : G) : ∀ (kvs : EKvs), floatsOkKvs g kvs = true →
    ofFKvs g (Martian.FormatExp.normKV (toFKvs g kvs)) = reparseKvs kvs
  | .nil, _ => rfl
  | .cons k e r, h => by
    simp only [floatsOkKvs, Bool.and_eq_true] at h
    simp [toFKvs, Martian.FormatExp.normKV, ofFKvs, reparseKvs, ofF_norm_toF g e h.1,
      ofFKvs_normKV_toFKvs g r h.2]
end

/-- THE TEXT LEG, expression level: print with the formatter, lex, parse with `ParseValExp` –
the result is `reparse e` -/
theorem text_leg_exp (g : G) (e : Exp) (hw : wfText g e = true) (hf : floatsOk g e = true) :
    textLeg g e = some (reparse e) := by
  have h1 := Martian.FormatExp.lexAll_fmt_top (toF g e) hw
  have h2 := Martian.FormatExp.parseToks_toks (toF g e) hw (isVal_toF g e)
  simp only [textLeg, printExp, Martian.FormatExp.parseValExp, h1, Option.bind_some, h2, Option.map_some,
    ofF_norm_toF g e hf]

theorem ofFBind_norm_toFBind (g : G) (b : Str × Arg) (hf : floatsOk g b.2.value = true) :
    ofFBind g (Martian.FormatCall.normBind (toFBind g b)) = (b.1, b.2.reparse) := by
  obtain ⟨k, a⟩ := b
  cases a with
  | plain e => simp [toFBind, Martian.FormatCall.normBind, ofFBind, Arg.isSplit, Arg.value, Arg.reparse,
      ofF_norm_toF g e hf]
  | split e => simp [toFBind, Martian.FormatCall.normBind, ofFBind, Arg.isSplit, Arg.value, Arg.reparse,
      ofF_norm_toF g e hf]

/-- THE TEXT LEG, call level: `Ast.Format()` of the call `BuildCallAst` built, lexed and parsed as
a `call_stm`, gives the same callable and the bindings with every value `reparse`d and every split
status kept -/
theorem text_leg_call (g : G) (name : Str) (bs : List (Str × Arg)) (hw : wfCallText g name bs = true)
    (hf : floatsOkBinds g bs = true) :
    callTextLeg g name bs = some (name, bs.map fun b => (b.1, b.2.reparse)) := by
  have h := Martian.FormatCall.parseCall_fmtCall (toFCall g name bs) hw
  unfold callTextLeg printCall
  rw [h]
  simp only [Option.map_some, Martian.FormatCall.normCall, toFCall, List.map_map, Option.some.injEq,
    Prod.mk.injEq, true_and]
  apply List.map_congr_left
  intro b hb
  simp only [Function.comp]
  exact ofFBind_norm_toFBind g b (by
    simp only [floatsOkBinds, List.all_eq_true] at hf
    exact hf b hb)

end Martian.InvocationText
