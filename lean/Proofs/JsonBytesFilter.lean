/-
Splice correctness of the byte-level filters (`filterA`, Martian/JsonBytes.lean): the bytes a
filter returns denote the tree it returns, at every node, whichever path (input slice returned /
container re-encoded from member slices) was taken.  Core Lean only.
-/
import Martian.JsonBytes
import Proofs.JsonBytes
import Proofs.Types

namespace Martian.JsonBytes
open Martian.Json (J Num)
open Martian.Lexer (Bytes)
open Martian.Types (Ty Fields Base FErr canFilter worstF)
open Martian.InvocationStr (jsonEncodeString)
open Martian.ShellQuote (validUtf8)

/-- every node's raw bytes denote the node's tree; object keys are valid UTF-8 -/
inductive ASound : A → Prop where
  | lit (raw : Bytes) (j : J) : Den raw j → ASound (.lit raw j)
  | arr (raw : Bytes) (xs : List A) : Den raw (.arr (toJs xs)) → (∀ x, x ∈ xs → ASound x) → ASound (.arr raw xs)
  | obj (raw : Bytes) (kvs : List (Bytes × A)) : Den raw (.obj (toJKvs kvs)) →
      (∀ kv, kv ∈ kvs → ASound kv.2) → (∀ kv, kv ∈ kvs → validUtf8 kv.1 = true) → ASound (.obj raw kvs)

theorem ASound.den {a : A} (h : ASound a) : Den a.raw a.toJ := by
  cases h with
  | lit raw j h => exact h
  | arr raw xs h _ => simpa [A.raw, A.toJ] using h
  | obj raw kvs h _ _ => simpa [A.raw, A.toJ] using h

theorem all2_den_of_sound : ∀ (xs : List A), (∀ x, x ∈ xs → ASound x) → All2 Den (xs.map A.raw) (toJs xs)
  | [], _ => .nil
  | x :: r, h => by
    simp only [List.map_cons, toJs]
    exact .cons (h x (by simp)).den (all2_den_of_sound r (fun y hy => h y (by simp [hy])))

theorem all2_denM_of_sound : ∀ (kvs : List (Bytes × A)),
    (∀ kv, kv ∈ kvs → ASound kv.2 ∧ validUtf8 kv.1 = true) →
    All2 DenM (kvs.map fun kv => (jsonEncodeString true kv.1, kv.2.raw)) (toJKvs kvs)
  | [], _ => .nil
  | (k, v) :: r, h => by
    simp only [List.map_cons, toJKvs]
    have := h (k, v) (by simp)
    exact .cons ⟨strTok_encode true k this.2, this.1.den⟩
      (all2_denM_of_sound r (fun y hy => h y (by simp [hy])))

/-- a re-encoded array of sound members is sound -/
theorem sound_spliceArr (xs : List A) (h : ∀ x, x ∈ xs → ASound x) :
    ASound (.arr (spliceArr (xs.map A.raw)) xs) :=
  .arr _ _ (den_spliceArr _ _ (all2_den_of_sound xs h)) h

/-- a re-encoded object of sound members with valid keys is sound -/
theorem sound_spliceObj (kvs : List (Bytes × A)) (h : ∀ kv, kv ∈ kvs → ASound kv.2 ∧ validUtf8 kv.1 = true) :
    ASound (.obj (spliceObj (kvs.map fun kv => (jsonEncodeString true kv.1, kv.2.raw))) kvs) :=
  .obj _ _ (den_spliceObj _ _ (all2_denM_of_sound kvs h)) (fun kv hkv => (h kv hkv).1) (fun kv hkv => (h kv hkv).2)

theorem mem_dedupLastG {α : Type} {kv : Bytes × α} : ∀ {l : List (Bytes × α)}, kv ∈ dedupLastG l → kv ∈ l
  | [], h => by simp [dedupLastG] at h
  | x :: r, h => by
    simp only [dedupLastG] at h
    split at h
    · exact List.mem_cons_of_mem _ (mem_dedupLastG h)
    · rcases List.mem_cons.mp h with h | h
      · subst h; exact List.mem_cons_self
      · exact List.mem_cons_of_mem _ (mem_dedupLastG h)

theorem mem_insertByKey {α : Type} {kv x : Bytes × α} : ∀ {l : List (Bytes × α)},
    kv ∈ insertByKey x l → kv = x ∨ kv ∈ l
  | [], h => by simp [insertByKey] at h; exact Or.inl h
  | y :: r, h => by
    simp only [insertByKey] at h
    split at h
    · rcases List.mem_cons.mp h with h | h
      · exact Or.inl h
      · exact Or.inr h
    · rcases List.mem_cons.mp h with h | h
      · exact Or.inr (by simp [h])
      · rcases mem_insertByKey h with h | h
        · exact Or.inl h
        · exact Or.inr (List.mem_cons_of_mem _ h)

theorem mem_sortByKey {α : Type} {kv : Bytes × α} : ∀ {l : List (Bytes × α)}, kv ∈ sortByKey l → kv ∈ l
  | [], h => by simp [sortByKey] at h
  | x :: r, h => by
    simp only [sortByKey, List.foldr_cons] at h
    rcases mem_insertByKey h with h | h
    · simp [h]
    · exact List.mem_cons_of_mem _ (mem_sortByKey (l := r) h)

theorem getKeyG_mem {α : Type} {k : Bytes} {v : α} : ∀ {l : List (Bytes × α)}, getKeyG k l = some v → (k, v) ∈ l
  | [], h => by simp [getKeyG] at h
  | (k', v') :: r, h => by
    simp only [getKeyG] at h
    cases hr : getKeyG k r with
    | some w =>
      rw [hr] at h; cases h
      exact List.mem_cons_of_mem _ (getKeyG_mem hr)
    | none =>
      rw [hr] at h
      by_cases hk : k' = k
      · simp [hk] at h; subst hk; subst h; exact List.mem_cons_self
      · simp [hk] at h

mutual
/-- struct member names are valid UTF-8 (identifiers) -/
def tyKeysOk : Ty → Bool
  | .base _ => true
  | .user _ => true
  | .arr t => tyKeysOk t
  | .tmap t => tyKeysOk t
  | .struct _ fs => fieldsKeysOk fs
def fieldsKeysOk : Fields → Bool
  | .nil => true
  | .cons k t r => validUtf8 k && tyKeysOk t && fieldsKeysOk r
end

theorem sound_nullA : ASound nullA := .lit _ _ den_null

theorem den_printInt (i : Int) : Den (printInt i) (.num (.int i)) := den_num (.int i)

theorem sound_filterBaseA (b : Base) (a : A) (h : ASound a) : ASound (filterBaseA b a).out := by
  unfold filterBaseA
  split
  · exact .lit _ _ (den_printInt _)
  · exact h

theorem sound_filterFieldsA (m : List (Bytes × A)) (hm : ∀ kv, kv ∈ m → ASound kv.2 ∧ validUtf8 kv.1 = true) :
    ∀ (fs : Fields), fieldsKeysOk fs = true →
    (∀ k t, (k, t) ∈ fs.toList → tyKeysOk t = true → ∀ a, ASound a → ASound (filterA t a).out) →
    ∀ y, y ∈ (filterFieldsA fs m).1 → ASound y.2 ∧ validUtf8 y.1 = true
  | .nil, _, _, y, hy => by simp [filterFieldsA] at hy
  | .cons k t r, hkk, ihf, y, hy => by
    simp only [fieldsKeysOk, Bool.and_eq_true] at hkk
    have ihr' := sound_filterFieldsA m hm r hkk.2 (fun k' t' hm' => ihf k' t' (by simp [Fields.toList, hm']))
    simp only [filterFieldsA] at hy
    cases hg : getKeyG k m with
    | none =>
      simp only [hg, List.mem_cons] at hy
      rcases hy with rfl | hy
      · exact ⟨sound_nullA, hkk.1.1⟩
      · exact ihr' y hy
    | some v =>
      have hv := hm (k, v) (getKeyG_mem hg)
      simp only [hg] at hy
      split at hy
      · simp only [List.mem_cons] at hy
        rcases hy with rfl | hy
        · exact ⟨ihf k t (by simp [Fields.toList]) hkk.1.2 v hv.1, hkk.1.1⟩
        · exact ihr' y hy
      · simp only [List.mem_cons] at hy
        rcases hy with rfl | hy
        · exact ⟨hv.1, hkk.1.1⟩
        · exact ihr' y hy

/-- SPLICE CORRECTNESS: whatever path a filter takes (input slice returned, or a container
re-encoded from member slices), the bytes it returns denote the tree it returns, at every node. -/
theorem sound_filterA (t : Ty) : tyKeysOk t = true → ∀ a, ASound a → ASound (filterA t a).out := by
  induction t using Martian.Types.Ty.induct' with
  | base b => intro _ a h; simp only [filterA]; exact sound_filterBaseA b a h
  | user n =>
    intro _ a h
    simp only [filterA]
    split <;> exact h
  | arr t ih =>
    intro hk a h
    simp only [tyKeysOk] at hk
    simp only [filterA]
    split
    · exact h
    · cases a with
      | arr raw xs =>
        simp only
        split
        · exact h
        · split
          · exact h
          · have hx : ∀ x, x ∈ xs → ASound x := by cases h with | arr _ _ _ hx => exact hx
            have hs : ∀ y, y ∈ (xs.map fun x => filterA t x).map (·.out) → ASound y := by
              intro y hy
              simp only [List.mem_map] at hy
              obtain ⟨r, ⟨x, hxm, rfl⟩, rfl⟩ := hy
              exact ih hk x (hx x hxm)
            have := sound_spliceArr _ hs
            simpa [List.map_map, Function.comp_def] using this
      | lit raw j => exact h
      | obj raw kvs => exact h
  | tmap t ih =>
    intro hk a h
    simp only [tyKeysOk] at hk
    simp only [filterA]
    split
    · exact h
    · cases a with
      | obj raw kvs =>
        simp only
        split
        · exact h
        · split
          · exact h
          · have hx : ∀ kv, kv ∈ kvs → ASound kv.2 ∧ validUtf8 kv.1 = true := by
              cases h with | obj _ _ _ h1 h2 => exact fun kv hkv => ⟨h1 kv hkv, h2 kv hkv⟩
            have hs : ∀ y, y ∈ ((sortByKey (dedupLastG kvs)).map fun kv => (kv.1, filterA t kv.2)).map
                (fun r => (r.1, r.2.out)) → ASound y.2 ∧ validUtf8 y.1 = true := by
              intro y hy
              simp only [List.mem_map] at hy
              obtain ⟨r, ⟨kv, hkm, rfl⟩, rfl⟩ := hy
              have hm := mem_dedupLastG (mem_sortByKey hkm)
              exact ⟨ih hk kv.2 (hx kv hm).1, (hx kv hm).2⟩
            have := sound_spliceObj _ hs
            simpa [List.map_map, Function.comp_def] using this
      | lit raw j => exact h
      | arr raw xs => exact h
  | struct n fs ih =>
    intro hk a h
    simp only [tyKeysOk] at hk
    simp only [filterA]
    split
    · exact h
    · cases a with
      | obj raw kvs =>
        simp only
        split
        · exact h
        · have hx : ∀ kv, kv ∈ kvs → ASound kv.2 ∧ validUtf8 kv.1 = true := by
            cases h with | obj _ _ _ h1 h2 => exact fun kv hkv => ⟨h1 kv hkv, h2 kv hkv⟩
          have hm : ∀ kv, kv ∈ dedupLastG kvs → ASound kv.2 ∧ validUtf8 kv.1 = true :=
            fun kv hkv => hx kv (mem_dedupLastG hkv)
          exact sound_spliceObj _ (sound_filterFieldsA (dedupLastG kvs) hm fs hk ih)
      | lit raw j => exact h
      | arr raw xs => exact h


/-! ### the sorted-key writers -/

theorem all2_denM_map (html : Bool) (tree : Bytes × Bytes → J) : ∀ (l : List (Bytes × Bytes)),
    (∀ kv, kv ∈ l → validUtf8 kv.1 = true ∧ Den kv.2 (tree kv)) →
    All2 DenM (l.map fun kv => (jsonEncodeString html kv.1, kv.2)) (l.map fun kv => (kv.1, tree kv))
  | [], _ => .nil
  | kv :: r, h => by
    have := h kv (by simp)
    exact .cons ⟨strTok_encode html kv.1 this.1, this.2⟩ (all2_denM_map html tree r (fun y hy => h y (by simp [hy])))

/-- `LazyArgumentMap` / `MarshalerMap` / `MapExp` / `ResolvedBindingMap` `encodeJSON`: a map of raw
messages, each of which denotes a tree, written with sorted keys, denotes the object of those trees. -/
theorem den_encodeRawMap (html : Bool) (m : List (Bytes × Bytes)) (tree : Bytes × Bytes → J)
    (h : ∀ kv, kv ∈ m → validUtf8 kv.1 = true ∧ Den kv.2 (tree kv)) :
    Den (encodeRawMap html m) (.obj ((sortByKey m).map fun kv => (kv.1, tree kv))) :=
  den_spliceObj _ _ (all2_denM_map html tree (sortByKey m) (fun kv hkv => h kv (mem_sortByKey hkv)))

theorem all2_den_map (tree : Bytes → J) : ∀ (l : List Bytes), (∀ p, p ∈ l → Den p (tree p)) →
    All2 Den l (l.map tree)
  | [], _ => .nil
  | p :: r, h => .cons (h p (by simp)) (all2_den_map tree r (fun y hy => h y (by simp [hy])))

/-- `marshallerArray.encodeJSON`, `ArrayExp.encodeJSON` -/
theorem den_encodeRawArr (xs : List Bytes) (tree : Bytes → J) (h : ∀ p, p ∈ xs → Den p (tree p)) :
    Den (encodeRawArr xs) (.arr (xs.map tree)) :=
  den_spliceArr _ _ (all2_den_map tree xs h)

/-- a denotation is what `json.Unmarshal` / `parseTop` of the bytes alone yields -/
theorem parseTop_of_den {p : Bytes} {j : J} (h : Den p j) : parseTop p = some j := by
  have := h [] (p.length + 1) rfl (by omega)
  simp only [List.append_nil] at this
  simp [parseTop, this, skipWs]

end Martian.JsonBytes
