import Proofs.SchedProgress
import Proofs.SchedRestart

/-! A failed job object blocks its fork for as long as it is not reset
(C06 `failed_job_never_reports_success`, `failed_block_never_reports_success`). -/
namespace Martian.Sched

/-- how a sentinel becomes visible in a fork's own metadata: mrp writes it (the fork's directory
is written by mrp only, cache = directory) -/
theorem fork_seen_origin {s : State} {e : Ev} {o : Obj} {y : Sentinel} (hinv : ObjsInv s)
    (hen : enabled s e = true) (hr : o.r = .fork)
    (h : ((apply s e).m o).seen.has y = true) :
    (s.m o).seen.has y = true ∨ (e = .W o y ∧ mrpWriteOk s o y = true) := by
  have hfe := (hinv o).forkEq hr y
  rw [apply_m] at h
  cases e <;> simp only [] at h <;> try exact Or.inl h
  case W o' x =>
    split at h
    · rename_i heq; subst heq
      simp only [put, has_add, Bool.or_eq_true, decide_eq_true_eq] at h
      rcases h with rfl | h
      · rcases (en_W hen).2.2 with hd | hw
        · exact Or.inl (hfe hd)
        · exact Or.inr ⟨rfl, hw⟩
      · exact Or.inl h
    · exact Or.inl h
  case R o' x =>
    split at h
    · rename_i heq; subst heq
      simp only [see, has_add, Bool.or_eq_true, decide_eq_true_eq] at h
      rcases h with rfl | h
      · exact Or.inl (hfe (en_R hen).2.2)
      · exact Or.inl h
    · exact Or.inl h
  case D o' x =>
    split at h
    · rename_i heq; subst heq
      simp only [see, has_add, Bool.or_eq_true, decide_eq_true_eq] at h
      rcases h with rfl | h
      · exact Or.inl (hfe (en_D hen).2.2)
      · exact Or.inl h
    · exact Or.inl h
  case U o' x =>
    split at h
    · rename_i heq; subst heq
      simp only [unq, has_del, Bool.and_eq_true] at h; exact Or.inl h.2
    · exact Or.inl h
  case launch o' =>
    split at h
    · rename_i heq; subst heq
      have := (launchOk_facts (en_launch hen)).1; simp [hr, Role.isJob] at this
    · exact Or.inl h
  case joblog o' =>
    split at h
    · rename_i heq; subst heq
      have := (en_joblog hen).1; simp [hr, Role.isJob] at this
    · exact Or.inl h
  case jobend o' x =>
    split at h
    · rename_i heq; subst heq
      have := (en_jobend hen).1; simp [hr, Role.isJob] at this
    · exact Or.inl h
  case silentfail o' =>
    split at h
    · rename_i heq; subst heq
      have := (en_silentfail hen).2.1; simp [hr, Role.isJob] at this
    · exact Or.inl h
  case reset o' =>
    split at h
    · simp at h
    · exact Or.inl h
  case restart => exact Or.inl (hfe h)

/-- a fork becomes finished only by mrp writing its `_complete` or `_disabled` -/
theorem fmDone_origin {s : State} {e : Ev} {n f : Nat} (hinv : ObjsInv s)
    (hen : enabled s e = true) (h0 : fmDone s n f = false) (h1 : fmDone (apply s e) n f = true) :
    (e = .W ⟨n, f, .fork⟩ .complete ∧ mrpWriteOk s ⟨n, f, .fork⟩ .complete = true) ∨
    (e = .W ⟨n, f, .fork⟩ .disabled ∧ mrpWriteOk s ⟨n, f, .fork⟩ .disabled = true) := by
  rw [fmDone_iff] at h1
  obtain ⟨he, ha, hcd⟩ := h1
  have hold : ¬ ((s.m ⟨n, f, .fork⟩).seen.has .complete = true ∨
      (s.m ⟨n, f, .fork⟩).seen.has .disabled = true) ∨
      (s.m ⟨n, f, .fork⟩).seen.has .errors = true ∨ (s.m ⟨n, f, .fork⟩).seen.has .assert = true := by
    cases h2 : (s.m ⟨n, f, .fork⟩).seen.has .errors
    · cases h3 : (s.m ⟨n, f, .fork⟩).seen.has .assert
      · left
        intro hc
        have := fmDone_iff.mpr ⟨h2, h3, hc⟩
        rw [h0] at this; cases this
      · exact Or.inr (Or.inr rfl)
    · exact Or.inr (Or.inl rfl)
  rcases hold with hold | hold
  · rcases hcd with hc | hd
    · rcases fork_seen_origin (o := ⟨n, f, .fork⟩) hinv hen rfl hc with h | h
      · exact absurd (Or.inl h) hold
      · exact Or.inl h
    · rcases fork_seen_origin (o := ⟨n, f, .fork⟩) hinv hen rfl hd with h | h
      · exact absurd (Or.inr h) hold
      · exact Or.inr h
  · -- a failure marker in the fork's own metadata never disappears (default reset mode: `e` is not
    -- a reset of the fork's metadata, or else it was absent afterwards as well)
    exfalso
    have hne : e ≠ .reset ⟨n, f, .fork⟩ := by
      intro h; subst h
      rw [apply_m] at hcd; simp at hcd
    rcases hold with h | h
    · have := seen_mono hinv hne (by simp) h; rw [he] at this; cases this
    · have := seen_mono hinv hne (by simp) h; rw [ha] at this; cases this

def joinEmpty (s : State) (n f : Nat) : Prop :=
  (s.m ⟨n, f, .join⟩).disk.has .jobinfo = false ∧ (s.m ⟨n, f, .join⟩).disk.has .complete = false

/-- where the failed object sits, and what is known about the rest of the fork at that moment -/
inductive FailSite (s : State) (n f : Nat) : Obj → Prop where
  | join : FailSite s n f ⟨n, f, .join⟩
  | chunk (i : Nat) : i < s.nch n f → joinEmpty s n f → FailSite s n f ⟨n, f, .chunk i⟩
  | split : joinEmpty s n f → (∀ i, (s.m ⟨n, f, .chunk i⟩).disk.has .jobinfo = false) →
      FailSite s n f ⟨n, f, .split⟩

/-- job object `o` of the unfinished stage fork (n, f) is seen failed -/
structure FailedBlock (s : State) (n f : Nat) (o : Obj) : Prop where
  kind : s.kind n ≠ .pipeline
  failed : s.st o = some .failed
  unfinished : fmDone s n f = false
  site : FailSite s n f o

theorem joinEmpty_step {s : State} {e : Ev} {n f : Nat} (hobj : ObjsInv s)
    (hen : enabled s e = true) (h : joinEmpty s n f)
    (hnolaunch : launchOk s ⟨n, f, .join⟩ = false)
    (hnostub : mrpWriteOk s ⟨n, f, .join⟩ .complete = false) : joinEmpty (apply s e) n f := by
  obtain ⟨hj, hc⟩ := h
  constructor
  · cases hx : ((apply s e).m ⟨n, f, .join⟩).disk.has .jobinfo
    · rfl
    · rcases disk_origin hen hj hx with ⟨_, hw⟩ | he | ⟨he, _⟩ | ⟨_, he⟩ | ⟨_, he⟩
      · rw [mrpWriteOk_jobinfo] at hw; cases hw
      · subst he; have := (en_jobend hen).2.1; simp at this
      · subst he; rw [en_launch hen] at hnolaunch; cases hnolaunch
      · cases he
      · cases he
  · cases hx : ((apply s e).m ⟨n, f, .join⟩).disk.has .complete
    · rfl
    · rcases disk_origin hen hc hx with ⟨_, hw⟩ | he | ⟨_, he⟩ | ⟨_, he⟩ | ⟨_, he⟩
      · rw [hnostub] at hw; cases hw
      · subst he; have := (en_jobend hen).2.2.1; rw [hj] at this; cases this
      · rcases he with he | he <;> cases he
      · cases he
      · cases he

/-- a chunk that is seen failed keeps the join from being submitted / stubbed -/
theorem failed_chunk_blocks_join {s : State} {n f i : Nat} (hi : i < s.nch n f)
    (hf : s.st ⟨n, f, .chunk i⟩ = some .failed) :
    launchOk s ⟨n, f, .join⟩ = false ∧ mrpWriteOk s ⟨n, f, .join⟩ .complete = false := by
  have hacc : allChunksComplete s n f = false := by
    cases h : allChunksComplete s n f
    · rfl
    · have := allChunksComplete_iff.mp h i hi; rw [hf] at this; cases this
  have hz : ¬ s.nch n f = 0 := by omega
  constructor
  · cases h : launchOk s ⟨n, f, .join⟩
    · rfl
    · have hz' : (s.nch n f == 0) = false := by simpa using hz
      unfold launchOk at h
      simp only [Bool.and_eq_true, hz', Bool.false_eq_true, if_false, hacc] at h
      exact absurd h.2.2 (by simp)
  · cases h : mrpWriteOk s ⟨n, f, .join⟩ .complete
    · rfl
    · unfold mrpWriteOk at h
      simp only [Bool.and_eq_true, hacc] at h
      exact absurd h.2 (by simp)

theorem failed_chunk_fails_fork' {s : State} {n f i : Nat} (hi : i < s.nch n f)
    (hc : s.st ⟨n, f, .chunk i⟩ = some .failed) (hfm : fmDone s n f = false)
    (hj : s.st ⟨n, f, .join⟩ = none) : forkState s n f = .failed := by
  have hany : (chunkStates s n f).any (· == some .failed) = true := by
    simp only [chunkStates, List.any_map, List.any_eq_true, List.mem_range]
    exact ⟨i, hi, by simp [chunkState, hc]⟩
  have hne : (chunkStates s n f).isEmpty = false := by
    cases hcs : chunkStates s n f
    · rw [hcs] at hany; simp at hany
    · rfl
  have hsum : chunkSum (chunkStates s n f) = .failed := by simp [chunkSum, hne, hany]
  unfold fmDone at hfm
  simp only [Bool.or_eq_false_iff, beq_eq_false_iff_ne] at hfm
  unfold forkState forkStateOf
  rw [hj, hsum]
  split <;> simp_all

theorem failedBlock_step {g : List NodeInfo} {s : State} {e : Ev} {n f : Nat} {o : Obj}
    (hr : Reach g s) (hen : enabled s e = true) (hne : e ≠ .reset o)
    (h : FailedBlock s n f o) : FailedBlock (apply s e) n f o := by
  have hobj := reach_objsInv hr
  have hrole := reach_roleInv hr
  obtain ⟨hk, hfail, hopen, hsite⟩ := h
  have hfail' : (apply s e).st o = some .failed := by
    unfold State.st at hfail ⊢
    rw [metaState_failed] at hfail ⊢
    rcases hfail with h | h
    · exact Or.inl (seen_mono hobj hne (by simp) h)
    · exact Or.inr (seen_mono hobj hne (by simp) h)
  have hk' : (apply s e).kind n ≠ .pipeline := by rw [apply_kind]; exact hk
  -- the fork stays unfinished, given what blocks `_complete` and `_disabled`
  have stays : (mrpWriteOk s ⟨n, f, .fork⟩ .complete = false) →
      (forkState s n f ≠ .ready) → fmDone (apply s e) n f = false := by
    intro h1 h2
    cases hx : fmDone (apply s e) n f
    · rfl
    · rcases fmDone_origin hobj hen hopen hx with ⟨_, hw⟩ | ⟨_, hw⟩
      · rw [h1] at hw; cases hw
      · unfold mrpWriteOk at hw
        simp only [Bool.or_eq_true, beq_iff_eq, decide_eq_true_eq] at hw
        rcases hw with hw | hw
        · exact absurd hw hk
        · exact absurd hw h2
  have nocomplete_of_join : s.st ⟨n, f, .join⟩ ≠ some .complete →
      mrpWriteOk s ⟨n, f, .fork⟩ .complete = false := by
    intro hj
    cases hx : mrpWriteOk s ⟨n, f, .fork⟩ .complete
    · rfl
    · unfold mrpWriteOk at hx
      simp only [Bool.and_eq_true, Bool.or_eq_true, beq_iff_eq] at hx
      rcases hx.2 with h' | h'
      · exact absurd h' hk
      · exact absurd h' hj
  have st_join_of_empty : joinEmpty s n f → s.st ⟨n, f, .join⟩ ≠ some .complete := by
    intro hje hc
    have := (hobj _).sub _ (metaState_complete hc).2.2
    rw [hje.2] at this; cases this
  cases hsite with
  | join =>
    refine ⟨hk', hfail', ?_, .join⟩
    apply stays
    · apply nocomplete_of_join; rw [hfail]; simp
    · intro hready
      have := forkState_ready_join hready
      rw [hfail] at this; cases this
  | chunk i hi hje =>
    obtain ⟨hnl, hns⟩ := failed_chunk_blocks_join hi hfail
    have hje' := joinEmpty_step hobj hen hje hnl hns
    -- the chunk stays in range
    have hi' : i < (apply s e).nch n f := by
      rw [apply_nch]
      cases e <;> simp only [] <;> try exact hi
      case mkchunks n' f' k =>
        split
        · rename_i heq
          simp only [Prod.mk.injEq] at heq
          obtain ⟨rfl, rfl⟩ := heq
          simp only [enabled, guards, List.all_cons, List.all_nil, Bool.and_true, Bool.and_eq_true,
            Bool.or_eq_true, bne_iff_ne, ne_eq, beq_iff_eq, decide_eq_true_eq, List.all_eq_true,
            List.mem_range] at hen
          obtain ⟨_, _, _, hg, hload⟩ := hen
          rcases hload with hp | ⟨hdrop, _⟩
          · -- normal phase: chunks are defined only once
            rcases hg with hg | hg
            · exact absurd hp hg
            · have := hg.1.1.1.1.1; omega
          · rcases hdrop i hi with h' | h'
            · exact h'
            · -- the failed chunk's directory is not empty
              exfalso
              have hs := metaState_failed.mp hfail
              have : (s.m ⟨n', f', .chunk i⟩).disk.has .errors = true ∨
                  (s.m ⟨n', f', .chunk i⟩).disk.has .assert = true := by
                rcases hs with hs | hs
                · exact Or.inl ((hobj _).sub _ hs)
                · exact Or.inr ((hobj _).sub _ hs)
              rw [h'] at this
              simp at this
        · exact hi
    refine ⟨hk', hfail', ?_, .chunk i hi' hje'⟩
    apply stays
    · exact nocomplete_of_join (st_join_of_empty hje)
    · intro hready
      have := failed_chunk_fails_fork' hi hfail hopen
        (by
          cases hx : s.st ⟨n, f, .join⟩ with
          | none => rfl
          | some m =>
            exfalso
            have := forkState_ready_join hready
            rw [hx] at this; cases this)
      rw [hready] at this; cases this
  | split hje hnc =>
    -- no chunk can be submitted, hence no chunk is ever complete, hence no join
    have hnochunk : ∀ i, launchOk s ⟨n, f, .chunk i⟩ = false := by
      intro i
      cases h : launchOk s ⟨n, f, .chunk i⟩
      · rfl
      · unfold launchOk at h
        simp only [Bool.and_eq_true, beq_iff_eq] at h
        have := h.2.1.2
        rw [hfail] at this; cases this
    have hnc' : ∀ i, ((apply s e).m ⟨n, f, .chunk i⟩).disk.has .jobinfo = false := by
      intro i
      cases hx : ((apply s e).m ⟨n, f, .chunk i⟩).disk.has .jobinfo
      · rfl
      · rcases disk_origin hen (hnc i) hx with ⟨_, hw⟩ | he | ⟨he, _⟩ | ⟨_, he⟩ | ⟨_, he⟩
        · rw [mrpWriteOk_jobinfo] at hw; cases hw
        · subst he; have := (en_jobend hen).2.1; simp at this
        · subst he; have := hnochunk i; rw [en_launch hen] at this; cases this
        · cases he
        · cases he
    have hchunk_nc : ∀ i, s.st ⟨n, f, .chunk i⟩ ≠ some .complete := by
      intro i hc
      have h1 := (hobj _).sub _ (metaState_complete hc).2.2
      have := (hobj ⟨n, f, .chunk i⟩).kk rfl (Or.inr (Or.inl h1))
      rw [hnc i] at this; cases this
    have hnl : launchOk s ⟨n, f, .join⟩ = false := by
      cases h : launchOk s ⟨n, f, .join⟩
      · rfl
      · unfold launchOk at h
        simp only [Bool.and_eq_true, beq_iff_eq] at h
        have hg := h.2.2
        by_cases hz : s.nch n f = 0
        · simp only [hz, if_true, beq_iff_eq] at hg
          rw [hfail] at hg; cases hg
        · simp only [hz, if_false] at hg
          exact absurd (allChunksComplete_iff.mp hg 0 (by omega)) (hchunk_nc 0)
    have hns : mrpWriteOk s ⟨n, f, .join⟩ .complete = false := by
      cases h : mrpWriteOk s ⟨n, f, .join⟩ .complete
      · rfl
      · unfold mrpWriteOk at h
        simp only [Bool.and_eq_true, decide_eq_true_eq] at h
        exact absurd (allChunksComplete_iff.mp h.2 0 h.1.2) (hchunk_nc 0)
    have hje' := joinEmpty_step hobj hen hje hnl hns
    refine ⟨hk', hfail', ?_, .split hje' hnc'⟩
    apply stays
    · exact nocomplete_of_join (st_join_of_empty hje)
    · intro hready
      have := forkState_ready_split hready
      rw [hfail] at this; cases this

/-- the directory of a failed object is not empty -/
theorem failed_disk_nonempty {s : State} (hobj : ObjsInv s) {o : Obj} (h : s.st o = some .failed) :
    ((s.m o).disk == {}) = false := by
  have hs := metaState_failed.mp h
  cases hx : ((s.m o).disk == {})
  · rfl
  · exfalso
    have he : (s.m o).disk = {} := by simpa using hx
    rcases hs with hs | hs
    · have := (hobj o).sub _ hs; rw [he] at this; simp at this
    · have := (hobj o).sub _ hs; rw [he] at this; simp at this

/-- the fork of a failed, un-reset job object stays in its node's fork list: re-attaching only drops
forks whose directories are empty -/
theorem failedBlock_listed {g : List NodeInfo} {s : State} {e : Ev} {n f : Nat} {o : Obj}
    (hr : Reach g s) (hen : enabled s e = true) (h : FailedBlock s n f o) (hf : f ∈ s.forksOf n) :
    f ∈ (apply s e).forksOf n := by
  have hobj := reach_objsInv hr
  rw [apply_forksOf]
  cases e <;> simp only [] <;> try exact hf
  case fork n' f' =>
    split
    · rename_i heq; subst heq; exact List.mem_append_left _ hf
    · exact hf
  case forkorder n' l =>
    split
    · rename_i heq; subst heq
      rcases (en_forkorder' hen).2.2 f hf with h' | h'
      · exact h'
      · exfalso
        have hne := failed_disk_nonempty hobj h.failed
        simp only [forkEmpty, Bool.and_eq_true, List.all_eq_true, List.mem_range] at h'
        obtain ⟨⟨⟨_, hs⟩, hj⟩, hc⟩ := h'
        cases h.site with
        | join => rw [hj] at hne; cases hne
        | chunk i hi _ => rw [hc i hi] at hne; cases hne
        | split _ _ => rw [hs] at hne; cases hne
    · exact hf

end Martian.Sched
