import Proofs.Sched

/-! Failure-free histories: every job object that is complete was submitted,
and the completion chain fork ⇒ join ⇒ chunks ⇒ split (for C03
`exactly_once_at_complete`). -/
namespace Martian.Sched

/-- events of a run without failures and without interruption -/
def Ev.failureFree : Ev → Bool
  | .jobend _ x => x == .complete
  | .silentfail _ => false
  | .W _ x => x != Sentinel.errors && x != Sentinel.assert
  | .crash => false
  | .restart => false
  | .reset _ => false
  | _ => true

def FailureFree (h : List Ev) : Prop := ∀ e ∈ h, e.failureFree = true

theorem apply_nch (s : State) (e : Ev) (n f : Nat) : (apply s e).nch n f =
    match e with
    | .mkchunks n' f' k => if (n', f') = (n, f) then k else s.nch n f
    | _ => s.nch n f := by
  cases e <;> simp [apply, State.nch, State.updMeta, aget_aset]

theorem mrpWriteOk_jobinfo (s : State) (o : Obj) : mrpWriteOk s o .jobinfo = false := by
  unfold mrpWriteOk; cases o.r <;> rfl

/-- every way a sentinel file can come into existence -/
theorem disk_origin {s : State} {e : Ev} {o : Obj} {y : Sentinel} (hen : enabled s e = true)
    (h0 : (s.m o).disk.has y = false) (h1 : ((apply s e).m o).disk.has y = true) :
    (e = .W o y ∧ mrpWriteOk s o y = true) ∨ e = .jobend o y ∨
    (e = .launch o ∧ (y = .jobinfo ∨ y = .queuedLocally)) ∨ (e = .joblog o ∧ y = .log) ∨
    (e = .silentfail o ∧ y = .errors) := by
  rw [apply_m] at h1
  cases e <;> simp only [] at h1 <;> try (simp [h0] at h1; done)
  case W o' x =>
    split at h1
    · rename_i heq; subst heq
      simp only [put, has_add, h0, Bool.or_false, decide_eq_true_eq] at h1
      subst h1
      rcases (en_W hen).2.2 with hd | hw
      · simp [h0] at hd
      · exact Or.inl ⟨rfl, hw⟩
    · simp [h0] at h1
  case R o' x => split at h1 <;> simp_all [see]
  case D o' x => split at h1 <;> simp_all [see]
  case U o' x => split at h1 <;> simp_all [unq, has_del]
  case launch o' =>
    split at h1
    · rename_i heq; subst heq
      simp only [put, has_add, h0, Bool.or_false, Bool.or_eq_true, decide_eq_true_eq] at h1
      rcases h1 with h | h
      · exact Or.inr (Or.inr (Or.inl ⟨rfl, Or.inr h.symm⟩))
      · exact Or.inr (Or.inr (Or.inl ⟨rfl, Or.inl h.symm⟩))
    · simp [h0] at h1
  case joblog o' =>
    split at h1
    · rename_i heq; subst heq
      simp only [toDisk, unq, has_add, has_del, h0, Bool.and_false, Bool.or_false,
        decide_eq_true_eq] at h1
      exact Or.inr (Or.inr (Or.inr (Or.inl ⟨rfl, h1.symm⟩)))
    · simp [h0] at h1
  case jobend o' x =>
    split at h1
    · rename_i heq; subst heq
      simp only [toDisk, has_add, h0, Bool.or_false, decide_eq_true_eq] at h1
      subst h1; exact Or.inr (Or.inl rfl)
    · simp [h0] at h1
  case silentfail o' =>
    split at h1
    · rename_i heq; subst heq
      simp only [put, has_add, h0, Bool.or_false, decide_eq_true_eq] at h1
      exact Or.inr (Or.inr (Or.inr (Or.inr ⟨rfl, h1.symm⟩)))
    · simp [h0] at h1
  case reset o' => split at h1 <;> simp_all
  case restart => simp_all [reload]

end Martian.Sched
