import Proofs.Sched

/-! Failure-free histories: every job object that is complete was submitted,
and the completion chain fork ⇒ join ⇒ chunks ⇒ split (for C03
`exactly_once_at_complete`). -/
namespace Martian.Sched

theorem apply_nch (s : State) (e : Ev) (n f : Nat) : (apply s e).nch n f =
    match e with
    | .mkchunks n' f' k => if (n', f') = (n, f) then k else s.nch n f
    | _ => s.nch n f := by
  cases e <;> simp [apply, State.nch, State.updMeta, aget_aset]

theorem mrpWriteOk_jobinfo (s : State) (o : Obj) : mrpWriteOk s o .jobinfo = false := by
  unfold mrpWriteOk; cases o.r <;> rfl

/-- every way a sentinel file can come into existence -/
theorem disk_origin {s : State} {e : Ev} {o : Obj} {y : Sentinel} (hen : enabled s e = true)
    (h0 : (s.m o).disk.has y = false) (h1 : ((apply s e).m o).disk.has y = true) :
    (e = .W o y ∧ mrpWriteOk s o y = true) ∨ e = .jobend o y ∨
    (e = .launch o ∧ (y = .jobinfo ∨ y = .queuedLocally)) ∨ (e = .joblog o ∧ y = .log) ∨
    (e = .silentfail o ∧ y = .errors) := by
  rw [apply_m] at h1
  cases e <;> simp only [] at h1 <;> try (simp [h0] at h1; done)
  case W o' x =>
    split at h1
    · rename_i heq; subst heq
      simp only [put, has_add, h0, Bool.or_false, decide_eq_true_eq] at h1
      subst h1
      rcases (en_W hen).2.2 with hd | hw
      · simp [h0] at hd
      · exact Or.inl ⟨rfl, hw⟩
    · simp [h0] at h1
  case R o' x => split at h1 <;> simp_all [see]
  case D o' x => split at h1 <;> simp_all [see]
  case U o' x => split at h1 <;> simp_all [unq, has_del]
  case launch o' =>
    split at h1
    · rename_i heq; subst heq
      simp only [put, has_add, h0, Bool.or_false, Bool.or_eq_true, decide_eq_true_eq] at h1
      rcases h1 with h | h
      · exact Or.inr (Or.inr (Or.inl ⟨rfl, Or.inr h.symm⟩))
      · exact Or.inr (Or.inr (Or.inl ⟨rfl, Or.inl h.symm⟩))
    · simp [h0] at h1
  case joblog o' =>
    split at h1
    · rename_i heq; subst heq
      simp only [toDisk, unq, has_add, has_del, h0, Bool.and_false, Bool.or_false,
        decide_eq_true_eq] at h1
      exact Or.inr (Or.inr (Or.inr (Or.inl ⟨rfl, h1.symm⟩)))
    · simp [h0] at h1
  case jobend o' x =>
    split at h1
    · rename_i heq; subst heq
      simp only [toDisk, has_add, h0, Bool.or_false, decide_eq_true_eq] at h1
      subst h1; exact Or.inr (Or.inl rfl)
    · simp [h0] at h1
  case silentfail o' =>
    split at h1
    · rename_i heq; subst heq
      simp only [put, has_add, h0, Bool.or_false, decide_eq_true_eq] at h1
      exact Or.inr (Or.inr (Or.inr (Or.inr ⟨rfl, h1.symm⟩)))
    · simp [h0] at h1
  case reset o' => split at h1 <;> simp_all
  case restart => simp_all [reload]


/-! ### per-object part of the failure-free invariant -/

structure FFObj (k : Kind) (r : Role) (m : Meta) : Prop where
  clean : m.disk.has .errors = false ∧ m.disk.has .assert = false
  nj : jobObj k r = false →
    (∀ y, m.disk.has y = true → m.seen.has y = true) ∧ m.disk.has .jobinfo = false

theorem ffObj_empty (k r) : FFObj k r {} := by constructor <;> simp

theorem ffObj_see {k r m x} (h : FFObj k r m) : FFObj k r (see x m) := by
  obtain ⟨h1, h2⟩ := h
  constructor <;> simp only [see, has_add] <;> grind

theorem ffObj_put {k r m x} (h : FFObj k r m) (hx1 : x ≠ .errors) (hx2 : x ≠ .assert)
    (hx3 : x = .jobinfo → m.disk.has .jobinfo = true) : FFObj k r (put x m) := by
  obtain ⟨h1, h2⟩ := h
  constructor <;> simp only [put, has_add] <;> grind

theorem ffObj_unq {k r m} (h : FFObj k r m) : FFObj k r (unq m) := by
  obtain ⟨h1, h2⟩ := h
  constructor <;> simp only [unq, has_del] <;> grind

theorem ffObj_launch {k r m} (h : FFObj k r m) (hj : jobObj k r = true) :
    FFObj k r (put .queuedLocally (put .jobinfo m)) := by
  obtain ⟨h1, h2⟩ := h
  constructor <;> simp only [put, has_add] <;> grind

theorem ffObj_joblog {k r m} (h : FFObj k r m) (hj : m.disk.has .jobinfo = true) :
    FFObj k r (toDisk .log m) := by
  obtain ⟨h1, h2⟩ := h
  constructor <;> simp only [toDisk, has_add] <;> grind

theorem ffObj_jobend {k r m} (h : FFObj k r m) (hj : m.disk.has .jobinfo = true) :
    FFObj k r (toDisk .complete m) := by
  obtain ⟨h1, h2⟩ := h
  constructor <;> simp only [toDisk, has_add] <;> grind


/-! ### the failure-free invariant -/

structure FFInv (s : State) : Prop where
  inc0 : s.inc = 0
  alive : s.phase ≠ .crashed
  noReset : s.resets = []
  obj : ∀ o : Obj, FFObj (s.kind o.n) o.r (s.m o)
  ld : s.phase = .loading → ∀ o : Obj,
    (s.m o).disk.has .jobinfo = false ∧ (s.m o).disk.has .complete = false
  launched : ∀ o : Obj, (s.m o).disk.has .jobinfo = true → (o, 0) ∈ s.launches
  c1 : ∀ n f, s.kind n ≠ .pipeline → (s.m ⟨n, f, .fork⟩).disk.has .complete = true →
    (s.m ⟨n, f, .join⟩).disk.has .complete = true
  c2 : ∀ n f, ((s.m ⟨n, f, .join⟩).disk.has .jobinfo = true ∨
      (s.m ⟨n, f, .join⟩).disk.has .complete = true) →
    (∀ i, i < s.nch n f → (s.m ⟨n, f, .chunk i⟩).disk.has .complete = true) ∧
    (s.nch n f = 0 → (s.m ⟨n, f, .split⟩).disk.has .complete = true)
  c3 : ∀ n f i, (s.m ⟨n, f, .chunk i⟩).disk.has .jobinfo = true →
    (s.m ⟨n, f, .split⟩).seen.has .complete = true
  dis : ∀ n f, s.kind n ≠ .pipeline → (s.m ⟨n, f, .fork⟩).disk.has .disabled = true →
    ∀ r i, (⟨n, f, r⟩, i) ∉ s.launches
  inRange : ∀ n f i, (s.m ⟨n, f, .chunk i⟩).disk.has .jobinfo = true → i < s.nch n f

theorem ff_ne_reset {e : Ev} (he : e.failureFree = true) (o : Obj) : e ≠ .reset o := by
  intro h; subst h; simp [Ev.failureFree] at he

theorem mrpWriteOk_complete_phase {s : State} {o : Obj} (h : mrpWriteOk s o .complete = true) :
    s.phase = .normal := by
  unfold mrpWriteOk at h
  cases hr : o.r <;> simp only [hr, Bool.and_eq_true, beq_iff_eq] at h
  · exact h.1.1.1
  · simp at h
  · exact h.1.1.1.1.1.1
  · exact h.1.1.1

theorem forkState_ready_join {s : State} {n f : Nat} (h : forkState s n f = .ready) :
    s.st ⟨n, f, .join⟩ = none := by
  unfold forkState forkStateOf at h
  split at h <;> try contradiction
  split at h <;> first | contradiction | assumption

theorem st_ne_none_of_seen {s : State} {o : Obj} {y : Sentinel}
    (hy : y = .jobinfo ∨ y = .complete) (h : (s.m o).seen.has y = true) : s.st o ≠ none := by
  intro hn
  obtain ⟨_, _, a, _, _, b⟩ := metaState_none hn
  rcases hy with rfl | rfl <;> simp_all

/-- phase after a failure-free step: `loading` only if it was `loading` -/
theorem ff_phase_loading {s : State} {e : Ev} (he : e.failureFree = true)
    (h : (apply s e).phase = .loading) : s.phase = .loading := by
  rw [apply_phase] at h
  cases e <;> simp_all [Ev.failureFree]

theorem ff_launches_mono {s : State} {e : Ev} {p : Obj × Nat} (h : p ∈ s.launches) :
    p ∈ (apply s e).launches := by
  rw [apply_launches]; cases e <;> simp_all


theorem ffObj_step {s : State} {e : Ev} (hff : FFInv s) (hen : enabled s e = true)
    (he : e.failureFree = true) (o' : Obj) :
    FFObj ((apply s e).kind o'.n) o'.r ((apply s e).m o') := by
  have h := hff.obj
  rw [apply_kind, apply_m]
  cases e <;> simp only [] <;> try exact h o'
  case W o x =>
    split
    · rename_i heq; subst heq
      simp only [Ev.failureFree, Bool.and_eq_true, bne_iff_ne, ne_eq] at he
      refine ffObj_put (h o) he.1 he.2 ?_
      rintro rfl
      rcases (en_W hen).2.2 with hd | hw
      · exact hd
      · rw [mrpWriteOk_jobinfo] at hw; cases hw
    · exact h o'
  case R o x => split; (rename_i heq; subst heq; exact ffObj_see (h o)); exact h o'
  case D o x => split; (rename_i heq; subst heq; exact ffObj_see (h o)); exact h o'
  case U o x => split; (rename_i heq; subst heq; exact ffObj_unq (h o)); exact h o'
  case launch o =>
    split
    · rename_i heq; subst heq
      exact ffObj_launch (h o) (launchOk_facts (en_launch hen)).2.1
    · exact h o'
  case joblog o =>
    split
    · rename_i heq; subst heq; exact ffObj_joblog (h o) (en_joblog hen).2
    · exact h o'
  case jobend o x =>
    split
    · rename_i heq; subst heq
      have : x = .complete := by simpa [Ev.failureFree] using he
      subst this
      exact ffObj_jobend (h o) (en_jobend hen).2.2.1
    · exact h o'
  case silentfail o => simp [Ev.failureFree] at he
  case reset o => simp [Ev.failureFree] at he
  case restart => simp [Ev.failureFree] at he


/-- in a live failure-free state, an object whose disk has `_jobinfo` or `_complete`
is not in state "none" for mrp -/
theorem ff_st_ne_none {s : State} (hobj : ObjsInv s) (hff : FFInv s) {o : Obj}
    (h : (s.m o).disk.has .jobinfo = true ∨ (s.m o).disk.has .complete = true) :
    s.st o ≠ none := by
  rcases h with h | h
  · exact st_ne_none_of_seen (Or.inl rfl) ((hobj o).ji h)
  · cases hj : jobObj (s.kind o.n) o.r
    · exact st_ne_none_of_seen (Or.inr rfl) (((hff.obj o).nj hj).1 _ h)
    · exact st_ne_none_of_seen (Or.inl rfl) ((hobj o).ji ((hobj o).kk hj (Or.inr (Or.inl h))))

/-- `mkchunks n f _` is impossible once the join of the fork is submitted or complete,
or a chunk of it is submitted -/
theorem ff_no_mkchunks {s : State} (hobj : ObjsInv s) (hff : FFInv s) {n f k : Nat}
    (hen : enabled s (.mkchunks n f k) = true) :
    ((s.m ⟨n, f, .join⟩).disk.has .jobinfo = false ∧ (s.m ⟨n, f, .join⟩).disk.has .complete = false) ∧
    ∀ i, (s.m ⟨n, f, .chunk i⟩).disk.has .jobinfo = false := by
  have hg : s.phase ≠ .normal ∨ (s.nch n f = 0 ∧ s.st ⟨n, f, .join⟩ = none) := by
    simp only [enabled, guards, List.all_cons, List.all_nil, Bool.and_true, Bool.and_eq_true,
      Bool.or_eq_true, bne_iff_ne, ne_eq, beq_iff_eq] at hen
    rcases hen.2.2.2 with h | h
    · exact Or.inl h
    · exact Or.inr ⟨h.1.1.1.1.1, h.2⟩
  rcases hg with hp | ⟨hz, hj⟩
  · have hl : s.phase = .loading := by
      cases hq : s.phase
      · rfl
      · exact absurd hq hp
      · exact absurd hq hff.alive
    exact ⟨hff.ld hl _, fun i => (hff.ld hl _).1⟩
  · refine ⟨?_, ?_⟩
    · constructor
      · cases hc : (s.m ⟨n, f, .join⟩).disk.has .jobinfo
        · rfl
        · exact absurd hj (ff_st_ne_none hobj hff (Or.inl hc))
      · cases hc : (s.m ⟨n, f, .join⟩).disk.has .complete
        · rfl
        · exact absurd hj (ff_st_ne_none hobj hff (Or.inr hc))
    · intro i
      cases hc : (s.m ⟨n, f, .chunk i⟩).disk.has .jobinfo
      · rfl
      · have := hff.inRange n f i hc; omega

theorem ffInv_step {s : State} {e : Ev} (hobj : ObjsInv s) (hl : LaunchInv s) (hff : FFInv s)
    (hen : enabled s e = true) (he : e.failureFree = true) : FFInv (apply s e) := by
  have dmono : ∀ (o : Obj) (y : Sentinel), y ≠ .queuedLocally → (s.m o).disk.has y = true →
      ((apply s e).m o).disk.has y = true := fun o y hy => disk_mono (ff_ne_reset he o) hy
  have smono : ∀ (o : Obj) (y : Sentinel), y ≠ .queuedLocally → (s.m o).seen.has y = true →
      ((apply s e).m o).seen.has y = true := fun o y hy => seen_mono hobj (ff_ne_reset he o) hy
  -- the number of chunks of a fork does not change once something of it is submitted
  have nch_same : ∀ n f, (((s.m ⟨n, f, .join⟩).disk.has .jobinfo = true ∨
        (s.m ⟨n, f, .join⟩).disk.has .complete = true) ∨
        ∃ i, (s.m ⟨n, f, .chunk i⟩).disk.has .jobinfo = true) →
      (apply s e).nch n f = s.nch n f := by
    intro n f hp
    rw [apply_nch]
    cases e <;> simp only []
    case mkchunks n' f' k =>
      split
      · rename_i heq
        simp only [Prod.mk.injEq] at heq
        obtain ⟨rfl, rfl⟩ := heq
        obtain ⟨⟨a, b⟩, c⟩ := ff_no_mkchunks hobj hff hen
        rcases hp with (hp | hp) | ⟨i, hp⟩
        · rw [a] at hp; cases hp
        · rw [b] at hp; cases hp
        · rw [c i] at hp; cases hp
      · rfl
  refine ⟨?_, ?_, ?_, ffObj_step hff hen he, ?_, ?_, ?_, ?_, ?_, ?_, ?_⟩
  · -- inc0
    rw [apply_inc]; cases e <;> simp_all [Ev.failureFree, hff.inc0]
  · -- alive
    rw [apply_phase]; cases e <;> simp_all [Ev.failureFree, hff.alive]
  · -- noReset
    rw [apply_resets]; cases e <;> simp_all [Ev.failureFree, hff.noReset]
  · -- ld
    intro hp o
    have hp0 := ff_phase_loading he hp
    obtain ⟨a, b⟩ := hff.ld hp0 o
    constructor
    · cases hc : ((apply s e).m o).disk.has .jobinfo
      · rfl
      · rcases disk_origin hen a hc with ⟨_, hw⟩ | h | ⟨h, _⟩ | ⟨_, h⟩ | ⟨_, h⟩
        · rw [mrpWriteOk_jobinfo] at hw; cases hw
        · subst h; have := (en_jobend hen).2.1; simp at this
        · subst h
          have := (launchOk_phase (en_launch hen)).1
          rw [hp0] at this; cases this
        · cases h
        · cases h
    · cases hc : ((apply s e).m o).disk.has .complete
      · rfl
      · rcases disk_origin hen b hc with ⟨_, hw⟩ | h | ⟨_, h⟩ | ⟨_, h⟩ | ⟨_, h⟩
        · have := mrpWriteOk_complete_phase hw; rw [hp0] at this; cases this
        · subst h; have := (en_jobend hen).2.2.1; rw [a] at this; cases this
        · rcases h with h | h <;> cases h
        · cases h
        · cases h
  · -- launched
    intro o hj
    cases hc : (s.m o).disk.has .jobinfo
    · rcases disk_origin hen hc hj with ⟨_, hw⟩ | h | ⟨h, _⟩ | ⟨_, h⟩ | ⟨_, h⟩
      · rw [mrpWriteOk_jobinfo] at hw; cases hw
      · subst h; have := (en_jobend hen).2.1; simp at this
      · subst h; simp [apply_launches, hff.inc0]
      · cases h
      · cases h
    · exact ff_launches_mono (hff.launched o hc)
  · -- c1
    intro n f hk hfc
    rw [apply_kind] at hk
    cases hc : (s.m ⟨n, f, .fork⟩).disk.has .complete
    · rcases disk_origin hen hc hfc with ⟨h, hw⟩ | h | ⟨_, h⟩ | ⟨_, h⟩ | ⟨_, h⟩
      · apply dmono _ _ (by simp)
        unfold mrpWriteOk at hw
        simp only [Bool.and_eq_true, Bool.or_eq_true, beq_iff_eq] at hw
        rcases hw.2 with hw | hw
        · exact absurd hw hk
        · exact (hobj _).sub _ (metaState_complete hw).2.2
      · subst h; have := (en_jobend hen).1; simp [Role.isJob] at this
      · rcases h with h | h <;> cases h
      · cases h
      · cases h
    · exact dmono _ _ (by simp) (hff.c1 n f hk hc)
  · -- c2
    intro n f hp
    by_cases hold : (s.m ⟨n, f, .join⟩).disk.has .jobinfo = true ∨
        (s.m ⟨n, f, .join⟩).disk.has .complete = true
    · rw [nch_same n f (Or.inl hold)]
      obtain ⟨a, b⟩ := hff.c2 n f hold
      exact ⟨fun i hi => dmono _ _ (by simp) (a i hi), fun hz => dmono _ _ (by simp) (b hz)⟩
    · have hji : (s.m ⟨n, f, .join⟩).disk.has .jobinfo = false := by
        cases hc : (s.m ⟨n, f, .join⟩).disk.has .jobinfo
        · rfl
        · exact absurd (Or.inl hc) hold
      have hco : (s.m ⟨n, f, .join⟩).disk.has .complete = false := by
        cases hc : (s.m ⟨n, f, .join⟩).disk.has .complete
        · rfl
        · exact absurd (Or.inr hc) hold
      rcases hp with hp | hp
      · rcases disk_origin hen hji hp with ⟨_, hw⟩ | h | ⟨h, _⟩ | ⟨_, h⟩ | ⟨_, h⟩
        · rw [mrpWriteOk_jobinfo] at hw; cases hw
        · subst h; have := (en_jobend hen).2.1; simp at this
        · subst h
          have hlo := en_launch hen
          unfold launchOk at hlo
          simp only [Bool.and_eq_true, beq_iff_eq] at hlo
          have hg := hlo.2.2
          have hn : (apply s (.launch ⟨n, f, .join⟩)).nch n f = s.nch n f := by simp [apply_nch]
          rw [hn]
          constructor
          · intro i hi
            have hz : ¬ s.nch n f = 0 := by omega
            simp only [hz, if_false] at hg
            have := allChunksComplete_iff.mp hg i hi
            exact dmono _ _ (by simp) ((hobj _).sub _ (metaState_complete this).2.2)
          · intro hz
            simp only [hz, if_true, beq_iff_eq] at hg
            exact dmono _ _ (by simp) ((hobj _).sub _ (metaState_complete hg).2.2)
        · cases h
        · cases h
      · rcases disk_origin hen hco hp with ⟨h, hw⟩ | h | ⟨_, h⟩ | ⟨_, h⟩ | ⟨_, h⟩
        · subst h
          unfold mrpWriteOk at hw
          simp only [Bool.and_eq_true, beq_iff_eq, decide_eq_true_eq] at hw
          have hn : (apply s (.W ⟨n, f, .join⟩ .complete)).nch n f = s.nch n f := by
            simp [apply_nch]
          rw [hn]
          constructor
          · intro i hi
            have := allChunksComplete_iff.mp hw.2 i hi
            exact dmono _ _ (by simp) ((hobj _).sub _ (metaState_complete this).2.2)
          · intro hz; have := hw.1.2; omega
        · subst h; have := (en_jobend hen).2.2.1; rw [hji] at this; cases this
        · rcases h with h | h <;> cases h
        · cases h
        · cases h
  · -- c3
    intro n f i hj
    cases hc : (s.m ⟨n, f, .chunk i⟩).disk.has .jobinfo
    · rcases disk_origin hen hc hj with ⟨_, hw⟩ | h | ⟨h, _⟩ | ⟨_, h⟩ | ⟨_, h⟩
      · rw [mrpWriteOk_jobinfo] at hw; cases hw
      · subst h; have := (en_jobend hen).2.1; simp at this
      · subst h
        have hlo := en_launch hen
        unfold launchOk at hlo
        simp only [Bool.and_eq_true, beq_iff_eq] at hlo
        exact smono _ _ (by simp) (metaState_complete hlo.2.1.2).2.2
      · cases h
      · cases h
    · exact smono _ _ (by simp) (hff.c3 n f i hc)
  · -- dis
    intro n f hk hd r i hm
    rw [apply_kind] at hk
    cases hc : (s.m ⟨n, f, .fork⟩).disk.has .disabled
    · -- newly disabled: the fork was `ready`, nothing of it had been submitted
      rcases disk_origin hen hc hd with ⟨h, hw⟩ | h | ⟨_, h⟩ | ⟨_, h⟩ | ⟨_, h⟩
      · subst h
        unfold mrpWriteOk at hw
        simp only [Bool.and_eq_true, Bool.or_eq_true, beq_iff_eq] at hw
        have hready : forkState s n f = .ready := by
          rcases hw with h | h
          · exact absurd h hk
          · exact h
        simp only [apply_launches] at hm
        have hji : (s.m ⟨n, f, r⟩).disk.has .jobinfo = true := by
          rcases hl.alive _ _ hm with a | ⟨k, _, _, c⟩
          · exact a
          · rw [hff.noReset] at c; cases c
        cases r
        · exact ff_st_ne_none hobj hff (Or.inl hji) (forkState_ready_split hready)
        · rename_i j
          exact st_ne_none_of_seen (Or.inr rfl) (hff.c3 n f j hji) (forkState_ready_split hready)
        · exact ff_st_ne_none hobj hff (Or.inl hji) (forkState_ready_join hready)
        · have := ((hff.obj ⟨n, f, .fork⟩).nj rfl).2; rw [this] at hji; cases hji
      · subst h; have := (en_jobend hen).1; simp [Role.isJob] at this
      · rcases h with h | h <;> cases h
      · cases h
      · cases h
    · -- already disabled: a finished fork is never submitted
      rw [apply_launches] at hm
      cases e <;> simp only [] at hm <;> try exact hff.dis n f hk hc r i hm
      case launch o =>
        rcases List.mem_cons.mp hm with h | h
        · simp only [Prod.mk.injEq] at h
          obtain ⟨h, _⟩ := h; subst h
          have hnd := (launchOk_phase (en_launch hen)).2.2.1
          have hcl := (hff.obj ⟨n, f, .fork⟩).clean
          have hdone : fmDone s n f = true := by
            rw [fmDone_iff]
            refine ⟨?_, ?_, Or.inr ((hobj ⟨n, f, .fork⟩).forkEq rfl _ hc)⟩
            · cases hx : (s.m ⟨n, f, .fork⟩).seen.has .errors
              · rfl
              · have := (hobj ⟨n, f, .fork⟩).sub _ hx; rw [hcl.1] at this; cases this
            · cases hx : (s.m ⟨n, f, .fork⟩).seen.has .assert
              · rfl
              · have := (hobj ⟨n, f, .fork⟩).sub _ hx; rw [hcl.2] at this; cases this
          rw [hdone] at hnd; cases hnd
        · exact hff.dis n f hk hc r i h
  · -- inRange
    intro n f i hj
    cases hc : (s.m ⟨n, f, .chunk i⟩).disk.has .jobinfo
    · rcases disk_origin hen hc hj with ⟨_, hw⟩ | h | ⟨h, _⟩ | ⟨_, h⟩ | ⟨_, h⟩
      · rw [mrpWriteOk_jobinfo] at hw; cases hw
      · subst h; have := (en_jobend hen).2.1; simp at this
      · subst h
        have hh := (launchOk_phase (en_launch hen)).2.2.2.2
        have hn : (apply s (.launch ⟨n, f, .chunk i⟩)).nch n f = s.nch n f := by simp [apply_nch]
        rw [hn]
        simp only [State.hasObj, Bool.and_eq_true, decide_eq_true_eq] at hh
        exact hh.2
      · cases h
      · cases h
    · rw [nch_same n f (Or.inr ⟨i, hc⟩)]; exact hff.inRange n f i hc


theorem ffInv_init (g : List NodeInfo) : FFInv (init g) := by
  have hm : ∀ o, (init g).m o = {} := fun o => rfl
  constructor <;> first | (simp [hm, ffObj_empty]; done) | simp [init]

theorem ff_replayFrom {g : List NodeInfo} {evs : List Ev} {i : Nat} {s0 s : State}
    (h0 : Reach g s0) (hff0 : FFInv s0) (hfe : FailureFree evs)
    (h : replayFrom i s0 evs = .ok s) : FFInv s := by
  induction evs generalizing i s0 with
  | nil => simp [replayFrom] at h; subst h; exact hff0
  | cons e r ih =>
    simp only [replayFrom] at h
    split at h
    · rename_i hen
      exact ih (Reach.step h0 hen)
        (ffInv_step (reach_objsInv h0) (reach_launchInv h0) hff0 hen (hfe e (List.mem_cons_self ..)))
        (fun e' he' => hfe e' (List.mem_cons_of_mem _ he')) h
    · cases h

/-- number of submissions of an object in the whole history -/
def launchCount (s : State) (o : Obj) : Nat := (s.launches.filter (fun p => p.1 == o)).length

theorem filter_fst_length_one {o : Obj} : ∀ (l : List (Obj × Nat)), l.Nodup →
    (∀ p ∈ l, p.1 = o → p.2 = 0) → (o, 0) ∈ l → (l.filter (fun p => p.1 == o)).length = 1
  | [], _, _, h => by cases h
  | p :: r, hn, hz, hm => by
    obtain ⟨hpr, hnr⟩ := List.nodup_cons.mp hn
    by_cases hp : p.1 = o
    · have hp0 : p = (o, 0) := by
        have := hz p (List.mem_cons_self ..) hp
        cases p; simp_all
      have hr : r.filter (fun p => p.1 == o) = [] := by
        rw [List.filter_eq_nil_iff]
        intro q hq hqo
        have hqo' : q.1 = o := by simpa using hqo
        have : q = (o, 0) := by
          have := hz q (List.mem_cons_of_mem _ hq) hqo'
          cases q; simp_all
        rw [this, ← hp0] at hq; exact hpr hq
      simp [hp, hr]
    · have hm' : (o, 0) ∈ r := by
        rcases List.mem_cons.mp hm with h | h
        · rw [← h] at hp; exact absurd rfl hp
        · exact h
      have := filter_fst_length_one r hnr (fun q hq => hz q (List.mem_cons_of_mem _ hq)) hm'
      simpa [List.filter_cons, hp] using this

theorem launchCount_eq {s : State} (hl : LaunchInv s) (hff : FFInv s) (o : Obj) :
    launchCount s o = if (s.m o).disk.has .jobinfo = true then 1 else 0 := by
  have hz : ∀ p ∈ s.launches, p.1 = o → p.2 = 0 := by
    intro p hp _
    have := hl.le p.1 p.2 hp
    rw [hff.inc0] at this; omega
  split
  · rename_i hj
    exact filter_fst_length_one _ hl.nodup hz (hff.launched o hj)
  · rename_i hj
    unfold launchCount
    rw [List.length_eq_zero_iff, List.filter_eq_nil_iff]
    intro p hp hpo
    have hpo' : p.1 = o := by simpa using hpo
    apply hj
    rcases hl.alive p.1 p.2 hp with a | ⟨k, _, _, c⟩
    · rw [← hpo']; exact a
    · rw [hff.noReset] at c; cases c

theorem metaState_disabled {x : SSet} (h : metaState x = some .disabled) :
    x.has .disabled = true := by
  rw [metaState_eq] at h
  cases h1 : x.has .errors <;> cases h2 : x.has .assert <;> cases h3 : x.has .complete <;>
    cases h4 : x.has .disabled <;> cases h5 : x.has .log <;> cases h6 : x.has .jobinfo <;> simp_all

/-- the counting statement, for any state satisfying the invariants -/
theorem exactly_once_of_inv {s : State} (hobj : ObjsInv s) (hl : LaunchInv s) (hff : FFInv s)
    (n f : Nat) (hk : s.kind n ≠ .pipeline) :
    (s.st ⟨n, f, .fork⟩ = some .complete →
      (∀ i, i < s.nch n f → launchCount s ⟨n, f, .chunk i⟩ = 1) ∧
      (∀ i, s.nch n f ≤ i → launchCount s ⟨n, f, .chunk i⟩ = 0) ∧
      (s.kind n = .splitstage →
        launchCount s ⟨n, f, .split⟩ = 1 ∧ launchCount s ⟨n, f, .join⟩ = 1) ∧
      (s.kind n = .stage →
        launchCount s ⟨n, f, .split⟩ = 0 ∧ launchCount s ⟨n, f, .join⟩ = 0)) ∧
    (s.st ⟨n, f, .fork⟩ = some .disabled → ∀ r, launchCount s ⟨n, f, r⟩ = 0) := by
  constructor
  · intro hc
    have hfc := (hobj _).sub _ (metaState_complete hc).2.2
    have hjc := hff.c1 n f hk hfc
    obtain ⟨hch, hsp0⟩ := hff.c2 n f (Or.inr hjc)
    have hchunk : ∀ i, i < s.nch n f → (s.m ⟨n, f, .chunk i⟩).disk.has .jobinfo = true :=
      fun i hi => (hobj ⟨n, f, .chunk i⟩).kk rfl (Or.inr (Or.inl (hch i hi)))
    refine ⟨?_, ?_, ?_, ?_⟩
    · intro i hi; rw [launchCount_eq hl hff]; simp [hchunk i hi]
    · intro i hi
      rw [launchCount_eq hl hff]
      split
      · rename_i hj; have := hff.inRange n f i hj; omega
      · rfl
    · intro hks
      have hjob : ∀ r, r = Role.split ∨ r = Role.join → jobObj (s.kind n) r = true := by
        rintro r (rfl | rfl) <;> simp [jobObj, hks]
      have hsplitc : (s.m ⟨n, f, .split⟩).disk.has .complete = true := by
        by_cases hz : s.nch n f = 0
        · exact hsp0 hz
        · exact (hobj _).sub _ (hff.c3 n f 0 (hchunk 0 (by omega)))
      constructor
      · rw [launchCount_eq hl hff]
        simp [(hobj ⟨n, f, .split⟩).kk (hjob _ (Or.inl rfl)) (Or.inr (Or.inl hsplitc))]
      · rw [launchCount_eq hl hff]
        simp [(hobj ⟨n, f, .join⟩).kk (hjob _ (Or.inr rfl)) (Or.inr (Or.inl hjc))]
    · intro hks
      constructor
      · rw [launchCount_eq hl hff]
        simp [((hff.obj ⟨n, f, .split⟩).nj (by simp [jobObj, hks])).2]
      · rw [launchCount_eq hl hff]
        simp [((hff.obj ⟨n, f, .join⟩).nj (by simp [jobObj, hks])).2]
  · intro hd r
    have hdd := (hobj _).sub _ (metaState_disabled hd)
    rw [launchCount_eq hl hff]
    split
    · rename_i hj
      exact absurd (hff.launched _ hj) (hff.dis n f hk hdd r 0)
    · rfl

end Martian.Sched
