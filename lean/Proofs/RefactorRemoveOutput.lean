import Martian.Refactor
namespace Proofs.Refactor
open Martian.Refactor

theorem foldl_fixed {α β} (f : β → α → β) (s : β) (l : List α)
    (h : ∀ a ∈ l, f s a = s) : l.foldl f s = s := by
  induction l with
  | nil => rfl
  | cons a l ih =>
    simp only [List.foldl_cons]
    rw [h a (by simp)]
    exact ih (fun b hb => h b (by simp [hb]))

theorem set_self {α} {l : List α} {i : Nat} {a : α} (h : l[i]? = some a) : l.set i a = l := by
  induction l generalizing i with
  | nil => rfl
  | cons b l ih =>
    cases i with
    | zero => simp at h; simp [h]
    | succ i => simp at h; simp [ih h]

theorem noRef_all (isRef : Ref → Bool) (e : Exp) :
    (∀ r ∈ refs e, isRef r = false) →
      shouldRemove isRef e = false ∧ removeRefExp isRef e = e ∧
      (∀ st, removeRefElems isRef st e = e) ∧
      (∀ k h t, e = .cons k h t → shouldRemove isRef h = false) := by
  induction e with
  | lit s => intro _; simp [shouldRemove, removeRefExp, removeRefElems]
  | ref r => intro h; simp [refs] at h; simp [shouldRemove, removeRefExp, removeRefElems, h]
  | split e ih =>
    intro h
    obtain ⟨h1, h2, _, _⟩ := ih (by simpa [refs] using h)
    simp [shouldRemove, removeRefExp, removeRefElems, h1, h2]
  | arr es ih =>
    intro h
    obtain ⟨h1, h2, h3, h4⟩ := ih (by simpa [refs] using h)
    have hs : shouldRemove isRef (.arr es) = false := by
      cases es with
      | cons k a t =>
        cases t <;> simp [shouldRemove]
        exact h4 _ _ _ rfl
      | _ => simp [shouldRemove]
    simp [removeRefExp, removeRefElems, hs, h3]
  | map st es ih =>
    intro h
    obtain ⟨h1, h2, h3, h4⟩ := ih (by simpa [refs] using h)
    have hs : shouldRemove isRef (.map st es) = false := by
      cases st
      · cases es with
        | cons k a t =>
          cases t <;> simp [shouldRemove]
          exact h4 _ _ _ rfl
        | _ => simp [shouldRemove]
      · simp [shouldRemove]
    simp [removeRefExp, removeRefElems, hs, h3]
  | nil => intro _; simp [shouldRemove, removeRefExp, removeRefElems]
  | cons k a t iha iht =>
    intro h
    have ha : ∀ r ∈ refs a, isRef r = false := fun r hr => h r (by simp [refs, hr])
    have ht : ∀ r ∈ refs t, isRef r = false := fun r hr => h r (by simp [refs, hr])
    obtain ⟨a1, a2, _, _⟩ := iha ha
    obtain ⟨_, _, t3, _⟩ := iht ht
    refine ⟨by simp [shouldRemove], by simp [removeRefExp, a2, t3], ?_, ?_⟩
    · intro st; simp [removeRefElems, a1, a2, t3]
    · intro k' h' t' he
      cases he
      exact a1

theorem mapUntilStar_id (f : Bind → Bind) (bs : List Bind) (h : ∀ b ∈ bs, f b = b) :
    mapUntilStar f bs = bs := by
  induction bs with
  | nil => rfl
  | cons b bs ih =>
    simp only [mapUntilStar]
    split
    · rfl
    · rw [h b (by simp), ih (fun c hc => h c (by simp [hc]))]

theorem unref_pipe {x o : String} {p : Program} (h : outputUnreferenced x o p = true)
    (pipe : Callable) (hm : pipe ∈ p.callables) (hp : pipe.isPipe = true) :
    (∀ k ∈ pipe.calls, (∀ b ∈ k.binds, ∀ r ∈ refs b.exp, isCallRefTo pipe x o r = false) ∧
        (∀ b ∈ k.mods, ∀ r ∈ refs b.exp, isCallRefTo pipe x o r = false)) ∧
    (∀ b ∈ pipe.ret, ∀ r ∈ refs b.exp, isCallRefTo pipe x o r = false) ∧
    (∀ r ∈ pipe.retain, isCallRefTo pipe x o r = false) := by
  simp only [outputUnreferenced, List.all_eq_true] at h
  have := h pipe hm
  simp only [hp, Bool.not_true, Bool.false_or, Bool.and_eq_true, List.all_eq_true,
    Bool.not_eq_true'] at this
  obtain ⟨⟨h1, h2⟩, h3⟩ := this
  exact ⟨h1, h2, h3⟩

theorem walk_unref (n : Nat) (x o : String) (p : Program) (acts : List OutAction)
    (h : outputUnreferenced x o p = true) (xc : Callable) (hx : p.find? x = some xc) :
    removeOutputWalk (n+1) x o (p, acts) = (p,
      if xc.isPipe then
          acts ++ [OutAction.pipeOut x o,
                   OutAction.inputs (removeInputClosure p (closureFuel p)
                     ((unboundInputs p xc [o] []).map (fun i => (x, i))) [])]
        else acts ++ [OutAction.stageOut x o]) := by
  rw [removeOutputWalk]
  simp only [hx]
  apply foldl_fixed
  intro i _
  simp only []
  split
  · rfl
  · rename_i pipe hi
    have hm : pipe ∈ p.callables := List.mem_of_getElem? hi
    by_cases hp : pipe.isPipe = true
    · obtain ⟨h1, h2, h3⟩ := unref_pipe h pipe hm hp
      rw [if_neg (show ¬ ((!pipe.isPipe) = true) by simp [hp])]
      have hret : pipe.retain.filter (isCallRefTo pipe x o) = [] := by
        simpa [List.filter_eq_nil_iff] using h3
      have hcalls : pipe.calls.map (fun k =>
            { k with binds := mapUntilStar (fun b => { b with exp := removeRefExp (isCallRefTo pipe x o) b.exp }) k.binds })
            = pipe.calls := by
        rw [List.map_congr_left (g := id)]
        · simp
        · intro k hk
          rw [mapUntilStar_id]
          · rfl
          · intro b hb
            rw [(noRef_all _ b.exp ((h1 k hk).1 b hb)).2.1]
      have hp1 : setCallable p i { pipe with calls := pipe.calls } = p := by
        simp only [setCallable]
        rw [set_self hi]
      simp only [hret, hcalls, hp1, List.map_nil, List.append_nil]
      rw [List.flatMap_eq_nil_iff.mpr]
      · simp only [List.append_nil]
        apply foldl_fixed
        intro j _
        simp only [hi]
        split
        · rfl
        · rename_i b hj
          have hb : b ∈ pipe.ret := List.mem_of_getElem? hj
          obtain ⟨s1, s2, _, _⟩ := noRef_all _ b.exp (h2 b hb)
          split
          · rfl
          · simp only [s1, s2]
            have : pipe.ret.set j { b with exp := b.exp } = pipe.ret := set_self hj
            rw [this]
            exact congrArg (·, _) hp1
      · intro k hk
        rw [List.filterMap_eq_nil_iff]
        intro b hb
        have := (h1 k hk).2 b hb
        split
        · rename_i r hr
          rw [hr] at this
          simp [refs] at this
          simp [this]
        · rfl
    · simp [hp]

theorem foldl_ge (l : List Callable) (a : Nat) :
    a ≤ l.foldl (fun n c => n + c.outs.length + 1) a := by
  induction l generalizing a with
  | nil => exact Nat.le_refl _
  | cons c l ih =>
    simp only [List.foldl_cons]
    exact Nat.le_trans (by omega) (ih _)

theorem outFuel_succ (p : Program) : ∃ k, outFuel p = k + 1 := by
  have := foldl_ge p.callables 1
  exact ⟨outFuel p - 1, by unfold outFuel; omega⟩

theorem remove_output_unused (p : Program) (x o : String)
    (h : outputUnreferenced x o p = true) :
    removeOutput x o p = removeOutputPlain x o p := by
  unfold removeOutput removeOutputPlain
  cases hx : p.find? x with
  | none => rfl
  | some xc =>
    obtain ⟨k, hk⟩ := outFuel_succ p
    simp only [hk, walk_unref k x o p [] h xc hx]
    cases xc.isPipe <;> simp [List.foldl]

end Proofs.Refactor
