import Martian.Refactor
namespace Proofs.Refactor
open Martian.Refactor

theorem remove_output_unused (p : Program) (x o : String)
    (h : outputUnreferenced x o p = true) :
    removeOutput x o p = removeOutputPlain x o p := by
  sorry

end Proofs.Refactor
