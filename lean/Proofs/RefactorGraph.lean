/-
C19 — lemmas about the resolved call graph (Martian/RefactorGraph.lean).

Generic part: an invariant principle for `callOutputs` (`callOutputs_inv`) and
a simulation principle (`sim_outputs`, `sim_nodes`, `sim_graph`): if an edit
maps callables by `F` (calls by `G`, callable names by `N`) such that the
resolved inputs of a call and the resolved outputs of a pipeline commute with
the edit up to `S` (on input environments) and `O` (on outputs) — two LOCAL
obligations, stated for arbitrary sibling outputs — then the whole resolved
call graph commutes with the edit.
-/
import Martian.RefactorGraph

namespace Proofs.RefactorGraph
open Martian.Refactor

theorem find_map_id (g : Call → Call) (hg : ∀ k, (g k).id = k.id) (id : String) (l : List Call) :
    (l.map g).find? (·.id == id) = (l.find? (·.id == id)).map g := by
  induction l with
  | nil => rfl
  | cons a t ih =>
    simp only [List.map_cons, List.find?_cons, hg]
    cases h : (a.id == id) <;> simp [ih]

theorem find_name (p : Program) (n : String) (d : Callable) (h : p.find? n = some d) : d.name = n := by
  unfold Program.find? at h
  have := List.find?_some h
  simpa using this

theorem find_mem (p : Program) (n : String) (d : Callable) (h : p.find? n = some d) : d ∈ p.callables := by
  unfold Program.find? at h
  exact List.mem_of_find?_eq_some h

theorem call_mem (pipe : Callable) (id : String) (k : Call) (h : pipe.calls.find? (·.id == id) = some k) :
    k ∈ pipe.calls ∧ k.id = id := by
  refine ⟨List.mem_of_find?_eq_some h, ?_⟩
  have := List.find?_some h
  simpa using this

theorem flatMap_congr' {α β : Type} {l : List α} {f g : α → List β} (h : ∀ a ∈ l, f a = g a) :
    l.flatMap f = l.flatMap g := by
  induction l with
  | nil => rfl
  | cons a t ih =>
    simp only [List.flatMap_cons]
    rw [h a (List.mem_cons_self ..), ih (fun b hb => h b (List.mem_cons_of_mem _ hb))]

/-! ## invariants of the resolution -/

section Inv
variable (ti : TypeInfo) (p : Program)
variable (good : Callable → Prop) (Ienv : Callable → Env → Prop) (Jo : Callable → RExp → Prop)

/-- the resolved outputs of every call of `pipe` satisfy `Jo` of its callee -/
def SibOK (pipe : Callable) (sib : String → RExp) : Prop :=
  ∀ id k d, pipe.calls.find? (·.id == id) = some k → p.find? k.decId = some d → Jo d (sib id)

theorem callOutputs_inv
    (hgood : ∀ n d, p.find? n = some d → good d)
    (o0 : ∀ d, Jo d rnull)
    (o0s : ∀ d fq, d.isPipe = false → Jo d (.sref fq d.name []))
    (o1 : ∀ pipe self sib k d id, good pipe → Ienv pipe self → SibOK p Jo pipe sib →
      pipe.calls.find? (·.id == id) = some k → p.find? k.decId = some d →
      Ienv d (callIns ti pipe self sib d k))
    (o2 : ∀ d ins sib, good d → d.isPipe = true → Ienv d ins → SibOK p Jo d sib →
      Jo d (pipeOuts ti d ins sib)) :
    ∀ fuel pipe self pre, good pipe → Ienv pipe self →
      SibOK p Jo pipe (callOutputs ti p fuel pipe self pre) := by
  intro fuel
  induction fuel with
  | zero => intro pipe self pre _ _ id k d _ _; simp only [callOutputs]; exact o0 d
  | succ fuel ih =>
    intro pipe self pre hg hi id k d hk hd
    simp only [callOutputs, hk, hd]
    cases hp : d.isPipe with
    | false =>
      simp only [Bool.not_false, if_true]
      split
      · exact o0 d
      · have := call_mem pipe id k hk
        exact o0s d _ hp
    | true =>
      simp only [Bool.not_true, Bool.false_eq_true, if_false]
      split
      · exact o0 d
      · have hgd := hgood _ _ hd
        have hsib := ih pipe self pre hg hi
        have hid := o1 pipe self _ k d id hg hi hsib hk hd
        exact o2 d _ _ hgd hp hid (ih d _ _ hgd hid)

end Inv

/-! ## simulation -/

theorem find_filter_map_id (g : Call → Call) (hg : ∀ k, (g k).id = k.id) (kp : String → Bool)
    (id : String) (hid : kp id = true) (l : List Call) :
    ((l.filter (fun k => kp k.id)).map g).find? (·.id == id) = (l.find? (·.id == id)).map g := by
  induction l with
  | nil => rfl
  | cons a t ih =>
    by_cases ha : a.id = id
    · have hka : kp a.id = true := ha ▸ hid
      have hga : ((g a).id == id) = true := by simp [hg, ha]
      have haa : (a.id == id) = true := by simp [ha]
      rw [List.filter_cons, if_pos hka, List.map_cons, List.find?_cons, hga, List.find?_cons, haa]
      rfl
    · have hne : (a.id == id) = false := by simpa using ha
      cases hk : kp a.id
      · simp [List.filter_cons, hk, hne, ih]
      · simp [List.filter_cons, hk, hg, hne, ih]

section Sim
variable (ti ti' : TypeInfo) (p p' : Program)
variable (N : String → String) (F : Callable → Callable) (G : Callable → Call → Call)
variable (S : String → Env → Env) (O : String → Bool → RExp → RExp) (R : RExp → RExp)
variable (good : Callable → Prop) (Ienv : Callable → Env → Prop) (Jo : Callable → RExp → Prop)
variable (relN : String → Prop) (keep : Callable → String → Bool)

/-- the callee (name, kind) of call `id` of `pipe`; `("", false)` when there is none -/
def calleeOf (pipe : Callable) (id : String) : String × Bool :=
  match pipe.calls.find? (·.id == id) with
  | some k =>
    match p.find? k.decId with
    | some d => (d.name, d.isPipe)
    | none => ("", false)
  | none => ("", false)

/-- how the resolved outputs of the calls of `pipe` change: by `O` of the callee -/
def Osib (pipe : Callable) (sib : String → RExp) : String → RExp := fun id =>
  O (calleeOf p pipe id).1 (calleeOf p pipe id).2 (sib id)

/-- `sib'` (outputs of the calls of the edited pipeline) is the image of `sib` on the kept calls -/
def SibAgree (pipe : Callable) (sib sib' : String → RExp) : Prop :=
  ∀ i, keep pipe i = true → sib' i = Osib p O pipe sib i

structure SimHyp : Prop where
  hfind1 : ∀ n d, p.find? n = some d → p'.find? (N n) = some (F d) ∧ good d
  hfind0 : ∀ n, relN n → p.find? n = none → p'.find? (N n) = none
  hrel : ∀ pipe, good pipe → ∀ k ∈ pipe.calls, relN k.decId
  hF : ∀ c, good c → (F c).isPipe = c.isPipe ∧ (F c).name = N c.name ∧
        (F c).outs.isEmpty = c.outs.isEmpty ∧ (F c).ret.isEmpty = c.ret.isEmpty
  hcalls : ∀ pipe, good pipe →
        (F pipe).calls = (pipe.calls.filter (fun k => keep pipe k.id)).map (G pipe)
  hGid : ∀ pipe k, (G pipe k).id = k.id
  hGdec : ∀ pipe, good pipe → ∀ k ∈ pipe.calls, (G pipe k).decId = N k.decId
  hfirst : ∀ pipe, good pipe → ∀ k ∈ pipe.calls, pipe.calls.find? (·.id == k.id) = some k
  hO0 : ∀ n b, O n b rnull = rnull
  hOs : ∀ d fq, good d → d.isPipe = false → O d.name false (.sref fq d.name []) = .sref fq (N d.name) []
  o0 : ∀ d, Jo d rnull
  o0s : ∀ d fq, d.isPipe = false → Jo d (.sref fq d.name [])
  o1 : ∀ pipe self sib k d id, good pipe → Ienv pipe self → SibOK p Jo pipe sib →
      pipe.calls.find? (·.id == id) = some k → p.find? k.decId = some d →
      Ienv d (callIns ti pipe self sib d k)
  o2 : ∀ d ins sib, good d → d.isPipe = true → Ienv d ins → SibOK p Jo d sib →
      Jo d (pipeOuts ti d ins sib)
  c5 : ∀ pipe self sib sib' k d id, good pipe → Ienv pipe self → SibOK p Jo pipe sib →
      SibAgree p O keep pipe sib sib' → keep pipe id = true →
      pipe.calls.find? (·.id == id) = some k → p.find? k.decId = some d →
      callIns ti' (F pipe) (S pipe.name self) sib' (F d) (G pipe k)
        = S d.name (callIns ti pipe self sib d k)
  c6 : ∀ d ins sib sib', good d → d.isPipe = true → Ienv d ins → SibOK p Jo d sib →
      SibAgree p O keep d sib sib' →
      pipeOuts ti' (F d) (S d.name ins) sib' = O d.name true (pipeOuts ti d ins sib)
  c7 : ∀ d ins sib sib', good d → d.isPipe = true → Ienv d ins → SibOK p Jo d sib →
      SibAgree p O keep d sib sib' →
      pipeRetained (F d) (S d.name ins) sib' = (pipeRetained d ins sib).map R

variable {ti ti' p p' N F G S O R good Ienv Jo relN keep}

theorem SimHyp.sibOK (h : SimHyp ti ti' p p' N F G S O R good Ienv Jo relN keep) :
    ∀ fuel pipe self pre, good pipe → Ienv pipe self →
      SibOK p Jo pipe (callOutputs ti p fuel pipe self pre) :=
  callOutputs_inv ti p good Ienv Jo (fun n d hd => (h.hfind1 n d hd).2) h.o0 h.o0s h.o1 h.o2

theorem sim_outputs (h : SimHyp ti ti' p p' N F G S O R good Ienv Jo relN keep) :
    ∀ fuel pipe self pre, good pipe → Ienv pipe self →
      SibAgree p O keep pipe (callOutputs ti p fuel pipe self pre)
        (callOutputs ti' p' fuel (F pipe) (S pipe.name self) pre) := by
  intro fuel
  induction fuel with
  | zero =>
    intro pipe self pre _ _ id _
    simp only [callOutputs, Osib, h.hO0]
  | succ fuel ih =>
    intro pipe self pre hg hi id hkeep
    have hsib := h.sibOK fuel pipe self pre hg hi
    simp only [Osib, calleeOf]
    rw [callOutputs, h.hcalls pipe hg,
      find_filter_map_id (G pipe) (fun k => h.hGid pipe k) (keep pipe) id hkeep]
    cases hk : pipe.calls.find? (·.id == id) with
    | none => simp [callOutputs, hk, h.hO0]
    | some k =>
      have hkm := (call_mem pipe id k hk).1
      simp only [Option.map_some, h.hGdec pipe hg k hkm]
      cases hd : p.find? k.decId with
      | none => simp [callOutputs, hk, hd, h.hfind0 _ (h.hrel pipe hg k hkm) hd, h.hO0]
      | some d =>
        have ⟨hd', hgd⟩ := h.hfind1 _ _ hd
        have hF := h.hF d hgd
        simp only [hd', hF.1, hF.2.1, hF.2.2.1, hF.2.2.2]
        rw [callOutputs]
        simp only [hk, hd]
        cases hp : d.isPipe with
        | false =>
          simp only [Bool.not_false, if_true]
          split
          · simp [h.hO0]
          · rw [h.hOs d _ hgd hp]
        | true =>
          simp only [Bool.not_true, Bool.false_eq_true, if_false]
          split
          · simp [h.hO0]
          · have hid := h.o1 pipe self _ k d id hg hi hsib hk hd
            rw [h.c5 pipe self _ _ k d id hg hi hsib (ih pipe self pre hg hi) hkeep hk hd]
            exact h.c6 d _ _ _ hgd hp hid (h.sibOK fuel d _ _ hgd hid) (ih d _ _ hgd hid)

/-- the image of a node under the edit -/
def nodeMap (N : String → String) (S : String → Env → Env) (O : String → Bool → RExp → RExp)
    (R : RExp → RExp) (n : Node) : Node :=
  { fqid := n.fqid, callable := N n.callable, isPipe := n.isPipe,
    inputs := S n.callable n.inputs, outputs := O n.callable n.isPipe n.outputs,
    retained := n.retained.map R }

theorem sim_nodes (h : SimHyp ti ti' p p' N F G S O R good Ienv Jo relN keep) (big : Nat) :
    ∀ fuel pipe self pre k, good pipe → Ienv pipe self → k ∈ pipe.calls → keep pipe k.id = true →
      pipe.calls.find? (·.id == k.id) = some k →
      nodesOf ti' p' big fuel (F pipe) (S pipe.name self) pre (G pipe k)
        = (nodesOfKeep keep ti p big fuel pipe self pre k).map (nodeMap N S O R) := by
  intro fuel
  induction fuel with
  | zero => intros; rfl
  | succ fuel ih =>
    intro pipe self pre k hg hi hmem hkeep hk
    rw [nodesOf, nodesOfKeep]
    simp only [h.hGdec pipe hg k hmem, h.hGid pipe k]
    cases hd : p.find? k.decId with
    | none => simp [h.hfind0 _ (h.hrel pipe hg k hmem) hd]
    | some d =>
      have ⟨hd', hgd⟩ := h.hfind1 _ _ hd
      have hF := h.hF d hgd
      have hsib := h.sibOK big pipe self pre hg hi
      have hid := h.o1 pipe self _ k d k.id hg hi hsib hk hd
      simp only [hd', hF.1, hF.2.1]
      rw [h.c5 pipe self _ _ k d k.id hg hi hsib (sim_outputs h big pipe self pre hg hi) hkeep hk hd,
          sim_outputs h (big + 1) pipe self pre hg hi k.id hkeep]
      simp only [List.map_cons, nodeMap]
      congr 1
      · -- the node itself
        have hout : Osib p O pipe (callOutputs ti p (big + 1) pipe self pre) k.id
            = O d.name d.isPipe (callOutputs ti p (big + 1) pipe self pre k.id) := by
          simp [Osib, calleeOf, hk, hd]
        rw [hout]
        cases hp : d.isPipe with
        | false => simp
        | true =>
          simp only [if_true]
          rw [h.c7 d _ _ _ hgd hp hid (h.sibOK big d _ _ hgd hid) (sim_outputs h big d _ _ hgd hid)]
      · cases hp : d.isPipe with
        | false => simp
        | true =>
          simp only [if_true]
          rw [h.hcalls d hgd, List.flatMap_map, List.map_flatMap]
          apply flatMap_congr'
          intro k' hk'
          have hk'' := List.mem_filter.mp hk'
          exact ih d _ _ k' hgd hid hk''.1 (by simpa using hk''.2) (h.hfirst d hgd k' hk''.1)

/-- the resolved call graph at an explicit unfolding budget -/
theorem sim_graph_at (h : SimHyp ti ti' p p' N F G S O R good Ienv Jo relN keep) (big fuel : Nat)
    (t : Call) (hgt : good (topPipe t)) (hit : Ienv (topPipe t) []) (hkt : keep (topPipe t) t.id = true)
    (hFt : F (topPipe t) = topPipe (G (topPipe t) t)) (hS : S "" [] = []) :
    nodesOf ti' p' big fuel (topPipe (G (topPipe t) t)) [] [] (G (topPipe t) t)
      = (nodesOfKeep keep ti p big fuel (topPipe t) [] [] t).map (nodeMap N S O R) := by
  have := sim_nodes h big fuel (topPipe t) [] [] t hgt hit (by simp [topPipe]) hkt (by simp [topPipe])
  rw [hFt] at this
  simpa [topPipe, hS] using this

theorem sim_graph (h : SimHyp ti ti' p p' N F G S O R good Ienv Jo relN keep)
    (htop : ∀ t, p.top = some t → p'.top = some (G (topPipe t) t) ∧ F (topPipe t) = topPipe (G (topPipe t) t)
        ∧ good (topPipe t) ∧ Ienv (topPipe t) [] ∧ keep (topPipe t) t.id = true)
    (htop0 : p.top = none → p'.top = none)
    (hS : S "" [] = []) (hfuel : graphFuel p' = graphFuel p) :
    deepGraph ti' p' = (deepGraphKeep keep ti p).map (nodeMap N S O R) := by
  unfold deepGraph deepGraphKeep
  cases ht : p.top with
  | none => simp [htop0 ht]
  | some t =>
    obtain ⟨ht', hFt, hgt, hit, hkt⟩ := htop t ht
    simp only [ht', hfuel]
    exact sim_graph_at h _ _ t hgt hit hkt hFt hS

theorem filter_keepK (G : Call → Call) (hG : ∀ k, (G k).id = k.id) (kp kq : String → Bool) (l : List Call) :
    ((l.filter (fun k => kp k.id)).map G).filter (fun k => kq k.id)
      = (l.filter (fun k => kp k.id && kq k.id)).map G := by
  induction l with
  | nil => rfl
  | cons a t ih =>
    cases h1 : kp a.id <;> cases h2 : kq a.id <;> simp [List.filter_cons, h1, h2, hG, ih]

/-- `sim_nodes` for a restricted graph of the edited program: when the restriction `K`
does not distinguish a callable from its image, the `K`-restricted graph after the edit
is the image of the (`keep` ∧ `K`)-restricted graph before it -/
theorem sim_nodesK (h : SimHyp ti ti' p p' N F G S O R good Ienv Jo relN keep)
    (K : Callable → String → Bool) (hK : ∀ c, good c → ∀ i, K (F c) i = K c i) (big : Nat) :
    ∀ fuel pipe self pre k, good pipe → Ienv pipe self → k ∈ pipe.calls → keep pipe k.id = true →
      pipe.calls.find? (·.id == k.id) = some k →
      nodesOfKeep K ti' p' big fuel (F pipe) (S pipe.name self) pre (G pipe k)
        = (nodesOfKeep (fun c i => keep c i && K c i) ti p big fuel pipe self pre k).map (nodeMap N S O R) := by
  intro fuel
  induction fuel with
  | zero => intros; rfl
  | succ fuel ih =>
    intro pipe self pre k hg hi hmem hkeep hk
    rw [nodesOfKeep, nodesOfKeep]
    simp only [h.hGdec pipe hg k hmem, h.hGid pipe k]
    cases hd : p.find? k.decId with
    | none => simp [h.hfind0 _ (h.hrel pipe hg k hmem) hd]
    | some d =>
      have ⟨hd', hgd⟩ := h.hfind1 _ _ hd
      have hF := h.hF d hgd
      have hsib := h.sibOK big pipe self pre hg hi
      have hid := h.o1 pipe self _ k d k.id hg hi hsib hk hd
      simp only [hd', hF.1, hF.2.1]
      rw [h.c5 pipe self _ _ k d k.id hg hi hsib (sim_outputs h big pipe self pre hg hi) hkeep hk hd,
          sim_outputs h (big + 1) pipe self pre hg hi k.id hkeep]
      simp only [List.map_cons, nodeMap]
      congr 1
      · -- the node itself
        have hout : Osib p O pipe (callOutputs ti p (big + 1) pipe self pre) k.id
            = O d.name d.isPipe (callOutputs ti p (big + 1) pipe self pre k.id) := by
          simp [Osib, calleeOf, hk, hd]
        rw [hout]
        cases hp : d.isPipe with
        | false => simp
        | true =>
          simp only [if_true]
          rw [h.c7 d _ _ _ hgd hp hid (h.sibOK big d _ _ hgd hid) (sim_outputs h big d _ _ hgd hid)]
      · cases hp : d.isPipe with
        | false => simp
        | true =>
          simp only [if_true]
          have hKd : (fun k' : Call => K (F d) k'.id) = (fun k' : Call => K d k'.id) := by
            funext k'; exact hK d hgd k'.id
          rw [h.hcalls d hgd, hKd, filter_keepK (G d) (h.hGid d) (keep d) (K d), List.flatMap_map, List.map_flatMap]
          apply flatMap_congr'
          intro k' hk'
          have hk'' := List.mem_filter.mp hk'
          have hkk : keep d k'.id = true := by
            have := hk''.2
            simp only [Bool.and_eq_true] at this
            exact this.1
          exact ih d _ _ k' hgd hid hk''.1 hkk (h.hfirst d hgd k' hk''.1)

theorem sim_graph_atK (h : SimHyp ti ti' p p' N F G S O R good Ienv Jo relN keep)
    (K : Callable → String → Bool) (hK : ∀ c, good c → ∀ i, K (F c) i = K c i) (big fuel : Nat)
    (t : Call) (hgt : good (topPipe t)) (hit : Ienv (topPipe t) []) (hkt : keep (topPipe t) t.id = true)
    (hFt : F (topPipe t) = topPipe (G (topPipe t) t)) (hS : S "" [] = []) :
    nodesOfKeep K ti' p' big fuel (topPipe (G (topPipe t) t)) [] [] (G (topPipe t) t)
      = (nodesOfKeep (fun c i => keep c i && K c i) ti p big fuel (topPipe t) [] [] t).map (nodeMap N S O R) := by
  have := sim_nodesK h K hK big fuel (topPipe t) [] [] t hgt hit (by simp [topPipe]) hkt (by simp [topPipe])
  rw [hFt] at this
  simpa [topPipe, hS] using this

end Sim

theorem filter_true' (l : List Call) : l.filter (fun _ => true) = l := by
  induction l with
  | nil => rfl
  | cons a t ih' => simp [List.filter_cons]

theorem sibAgree_true {p : Program} {O : String → Bool → RExp → RExp} {pipe : Callable}
    {sib sib' : String → RExp} (h : SibAgree p O (fun _ _ => true) pipe sib sib') :
    sib' = Osib p O pipe sib := funext fun i => h i rfl

theorem nodesOfKeep_true (ti : TypeInfo) (p : Program) (big : Nat) :
    ∀ fuel pipe self pre k,
      nodesOfKeep (fun _ _ => true) ti p big fuel pipe self pre k = nodesOf ti p big fuel pipe self pre k := by
  intro fuel
  induction fuel with
  | zero => intros; rfl
  | succ fuel ih =>
    intro pipe self pre k
    rw [nodesOfKeep, nodesOf]
    cases hd : p.find? k.decId with
    | none => rfl
    | some d =>
      have hft : ∀ l : List Call, l.filter (fun _ => true) = l := by
        intro l
        induction l with
        | nil => rfl
        | cons a t ih' => simp [List.filter_cons]
      simp only [hft]
      congr 1
      split
      · apply flatMap_congr'
        intro k' _
        exact ih d _ _ k'
      · rfl

theorem deepGraphKeep_true (ti : TypeInfo) (p : Program) :
    deepGraphKeep (fun _ _ => true) ti p = deepGraph ti p := by
  unfold deepGraphKeep deepGraph
  cases p.top with
  | none => rfl
  | some t => exact nodesOfKeep_true ti p _ _ _ _ _ _

end Proofs.RefactorGraph
