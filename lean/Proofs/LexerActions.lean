/-
C08, action level: every token-consuming grammar action, on every token the
tokenizer model can emit for the token kind the action receives, yields a value
or a located error — never a panic.  Lemmas and the theorems the builder
restates in Props/C08.lean.
-/
import Martian.LexerActions
import Proofs.Lexer
import Proofs.Tokenizer

namespace Martian.LexerActions
open Martian.Lexer Martian.Tokenizer

/-! ## inverting `nextToken`: which rule produced a token with a given id -/

/-- no keyword of the switch table carries the token id `n` -/
def kwFree (T : Tables) (n : Nat) : Bool :=
  T.sw.all fun cl => cl.2.2.all fun p => lookupId T.ids p.2 != n

theorem keywordMatch_id (T : Tables) (b : Bytes) : ∀ kws, 0 < (keywordMatch T b kws).1.length →
    ∃ p ∈ kws, (keywordMatch T b kws).2 = lookupId T.ids p.2
  | [], h => by simp [keywordMatch] at h
  | (kw, tok) :: rest, h => by
    unfold keywordMatch at h ⊢
    simp only at h ⊢
    split
    · exact ⟨(kw, tok), by simp, rfl⟩
    · rename_i hn
      rw [if_neg hn] at h
      obtain ⟨p, hp, e⟩ := keywordMatch_id T b rest h
      exact ⟨p, by simp [hp], e⟩

theorem findClause_mem : ∀ (sw : SwitchTable) (c : Nat) (kind : String) (kws : List (String × String)),
    findClause sw c = some (kind, kws) → ∃ bs, (bs, kind, kws) ∈ sw
  | [], _, _, _, h => by simp [findClause] at h
  | (bs, kd, ks) :: rest, c, kind, kws, h => by
    unfold findClause at h
    split at h
    · cases h; exact ⟨bs, by simp⟩
    · obtain ⟨bs', hm⟩ := findClause_mem rest c kind kws h
      exact ⟨bs', by simp [hm]⟩

theorem kwFree_clause {T : Tables} {n : Nat} (hkw : kwFree T n = true) {bs : List Nat} {kind : String}
    {kws : List (String × String)} (hm : (bs, kind, kws) ∈ T.sw) {p : String × String} (hp : p ∈ kws) :
    lookupId T.ids p.2 ≠ n := by
  unfold kwFree at hkw
  rw [List.all_eq_true] at hkw
  have h1 := hkw _ hm
  rw [List.all_eq_true] at h1
  have h2 := h1 _ hp
  simpa using h2

theorem stringRule_snd (T : Tables) (b : Bytes) : (stringRule T b).2 = lookupId T.ids "LITSTRING" := by
  unfold stringRule; split <;> rfl

theorem idRule_snd (T : Tables) (b : Bytes) : (idRule T b).2 = lookupId T.ids "ID" := by
  unfold idRule
  split
  · rfl
  · split <;> rfl

theorem commentRule_snd (T : Tables) (b : Bytes) (h : 0 < (commentRule T b).1.length) :
    (commentRule T b).2 = invalidId T ∨ (commentRule T b).2 = commentId T := by
  unfold commentRule at h ⊢
  split
  · simp at h
  · split
    · exact .inl rfl
    · exact .inr rfl

/-- the side conditions on a token id `n` under which only the string rule or
the numeric clause can have produced it -/
structure RuleId (T : Tables) (n : Nat) : Prop where
  big : 256 ≤ n
  skip : skipId T ≠ n
  comment : commentId T ≠ n
  invalid : invalidId T ≠ n
  ident : lookupId T.ids "ID" ≠ n
  kw : kwFree T n = true

theorem keywordTokenT_class (T : Tables) (n : Nat) (R : RuleId T n) (b t : Bytes)
    (h : keywordTokenT T b = (t, n)) (hl : 0 < t.length) :
    stringRule T b = (t, n) ∨ numberRule T b = (t, n) := by
  unfold keywordTokenT at h
  split at h
  · cases h; simp at hl
  · rename_i c r
    split at h
    · rename_i kind kws hf
      obtain ⟨bs, hm⟩ := findClause_mem _ _ _ _ hf
      unfold clauseResult at h
      split at h
      · -- punct
        have e := congrArg Prod.snd h
        simp only at e
        have := c.toNat_lt
        have := R.big
        omega
      · split at h
        · exact .inl h
        · split at h
          · -- comment
            have e1 : (commentRule T (c :: r)).1 = t := congrArg Prod.fst h
            have e2 : (commentRule T (c :: r)).2 = n := congrArg Prod.snd h
            rcases commentRule_snd T (c :: r) (by rw [e1]; exact hl) with e | e
            · exact absurd (e ▸ e2) R.invalid
            · exact absurd (e ▸ e2) R.comment
          · split at h
            · exact absurd (congrArg Prod.snd h) R.skip
            · split at h
              · exact .inr h
              · split at h
                · have e2 : (idRule T (c :: r)).2 = n := congrArg Prod.snd h
                  rw [idRule_snd] at e2
                  exact absurd e2 R.ident
                · split at h
                  · have e1 : (keywordMatch T (c :: r) kws).1 = t := congrArg Prod.fst h
                    have e2 : (keywordMatch T (c :: r) kws).2 = n := congrArg Prod.snd h
                    obtain ⟨p, hp, e⟩ := keywordMatch_id T (c :: r) kws (by rw [e1]; exact hl)
                    exact absurd (e ▸ e2) (kwFree_clause R.kw hm hp)
                  · cases h; simp at hl
    · split at h
      · exact absurd (congrArg Prod.snd h) R.skip
      · cases h; simp at hl

theorem nextTokenT_class (T : Tables) (n : Nat) (R : RuleId T n) (head t : Bytes)
    (h : nextTokenT T head = (n, t)) :
    (stringRule T head = (t, n) ∨ numberRule T head = (t, n)) ∧ 0 < t.length := by
  unfold nextTokenT at h
  simp only at h
  split at h
  · rename_i hl
    have e1 : (keywordTokenT T head).2 = n := congrArg Prod.fst h
    have e2 : (keywordTokenT T head).1 = t := congrArg Prod.snd h
    have hk : keywordTokenT T head = (t, n) := by rw [← e1, ← e2]
    have hl' : 0 < t.length := by rw [← e2]; exact hl
    exact ⟨keywordTokenT_class T n R head t hk hl', hl'⟩
  · split at h
    · have e1 : (idRule T head).2 = n := congrArg Prod.fst h
      rw [idRule_snd] at e1
      exact absurd e1 R.ident
    · exact absurd (congrArg Prod.fst h) R.invalid

/-! ## the regenerated tables -/

theorem gen_ruleId_float : RuleId genTables (lookupId Gen.tokIds "NUM_FLOAT") := by
  constructor <;> decide
theorem gen_ruleId_int : RuleId genTables (lookupId Gen.tokIds "NUM_INT") := by
  constructor <;> decide
theorem gen_ruleId_string : RuleId genTables (lookupId Gen.tokIds "LITSTRING") := by
  constructor <;> decide

theorem gen_ids_distinct :
    lookupId Gen.tokIds "NUM_FLOAT" ≠ lookupId Gen.tokIds "NUM_INT" ∧
    lookupId Gen.tokIds "NUM_FLOAT" ≠ lookupId Gen.tokIds "LITSTRING" ∧
    lookupId Gen.tokIds "NUM_INT" ≠ lookupId Gen.tokIds "LITSTRING" ∧
    lookupId Gen.tokIds "NUM_FLOAT" ≠ invalidId genTables ∧
    lookupId Gen.tokIds "NUM_INT" ≠ invalidId genTables := by decide

/-- a NUM_FLOAT token of `nextToken` is a `.float` result of the numeric clause -/
theorem emits_float {head t : Bytes} (h : emits .numFloat head t) : numTok false head = .float t := by
  obtain ⟨hc, hl⟩ := nextTokenT_class genTables _ gen_ruleId_float head t h
  obtain ⟨d1, d2, _, d4, _⟩ := gen_ids_distinct
  rcases hc with hs | hn
  · have := congrArg Prod.snd hs
    rw [stringRule_snd] at this
    exact absurd this.symm d2
  · unfold numberRule at hn
    split at hn
    · cases hn; assumption
    · exact absurd (congrArg Prod.snd hn).symm d1
    · exact absurd (congrArg Prod.snd hn).symm d4
    · have := congrArg Prod.fst hn; simp only at this; subst this; simp at hl

/-- a NUM_INT token of `nextToken` is an `.int` result of the numeric clause -/
theorem emits_int {head t : Bytes} (h : emits .numInt head t) : numTok false head = .int t := by
  obtain ⟨hc, hl⟩ := nextTokenT_class genTables _ gen_ruleId_int head t h
  obtain ⟨d1, _, d3, _, d5⟩ := gen_ids_distinct
  rcases hc with hs | hn
  · have := congrArg Prod.snd hs
    rw [stringRule_snd] at this
    exact absurd this.symm d3
  · unfold numberRule at hn
    split at hn
    · exact absurd (congrArg Prod.snd hn) d1
    · cases hn; assumption
    · exact absurd (congrArg Prod.snd hn).symm d5
    · have := congrArg Prod.fst hn; simp only at this; subst this; simp at hl

/-- a LITSTRING token of `nextToken` is a match of the string rule -/
theorem emits_string {head t : Bytes} (h : emits .litString head t) : matchString head = some t := by
  obtain ⟨hc, hl⟩ := nextTokenT_class genTables _ gen_ruleId_string head t h
  obtain ⟨_, d2, d3, _, _⟩ := gen_ids_distinct
  have dinv : invalidId genTables ≠ lookupId Gen.tokIds "LITSTRING" := by decide
  rcases hc with hs | hn
  · unfold stringRule at hs
    split at hs
    · rename_i t' ht; cases hs; exact ht
    · have := congrArg Prod.fst hs; simp only at this; subst this; simp at hl
  · unfold numberRule at hn
    split at hn
    · exact absurd (congrArg Prod.snd hn) d2
    · exact absurd (congrArg Prod.snd hn) d3
    · exact absurd (congrArg Prod.snd hn) dinv
    · have := congrArg Prod.fst hn; simp only at this; subst this; simp at hl

/-! ## the converters on emitted tokens (from `numTok`'s range checks and
`matchString_unquote`) -/

theorem numTok_float_parse {b t : Bytes} (h : numTok false b = .float t) : (parseFloat false t).isSome = true := by
  unfold numTok at h
  split at h
  · split at h
    · rename_i hok; cases h; exact hok
    · cases h
  · split at h
    · split at h <;> cases h
    · cases h

theorem numTok_int_parse {b t : Bytes} (h : numTok false b = .int t) : (parseInt t).isSome = true := by
  unfold numTok at h
  split at h
  · split at h <;> cases h
  · split at h
    · split at h
      · rename_i hok; cases h; exact hok
      · cases h
    · cases h

theorem emitted_int_parses {head t : Bytes} (h : emits .numInt head t) : ∃ i, parseInt t = some i := by
  have := numTok_int_parse (emits_int h)
  cases hp : parseInt t with
  | none => simp [hp] at this
  | some i => exact ⟨i, rfl⟩

theorem emitted_float_parses {head t : Bytes} (h : emits .numFloat head t) : ∃ l, parseFloat false t = some l := by
  have := numTok_float_parse (emits_float h)
  cases hp : parseFloat false t with
  | none => simp [hp] at this
  | some l => exact ⟨l, rfl⟩

theorem emitted_string_unquotes {head t : Bytes} (h : emits .litString head t) : ∃ out, unquoteBytes t = some out :=
  matchString_unquote (emits_string h)

/-! ## the individual actions -/

/-- `float_32: NUM_FLOAT` never panics, on ANY text (the error of
`tryParseFloat32` is checked) -/
theorem float32Float_no_panic (t : Bytes) : float32Float t ≠ .panic := by
  unfold float32Float; split <;> simp

/-- … and it is a located error exactly when `strconv.ParseFloat(·, 32)` fails -/
theorem float32Float_error_iff (t : Bytes) : float32Float t = .error ↔ parseFloat true t = none := by
  unfold float32Float; split <;> simp_all

/-- `float_32: NUM_INT` is total on emitted tokens: NUM_INT is emitted only
when `tryParseInt` succeeded -/
theorem float32Int_total {head t : Bytes} (h : emits .numInt head t) : ∃ v, float32Int t = .ok v := by
  obtain ⟨i, hi⟩ := emitted_int_parses h
  exact ⟨f32OfInt i, by simp [float32Int, hi]⟩

theorem float32Action_no_panic {k : Kind} {head t : Bytes} (h : emits k head t) : float32Action k t ≠ .panic := by
  cases k with
  | numInt =>
    obtain ⟨v, hv⟩ := float32Int_total h
    simp [float32Action, hv, Action.map]
  | numFloat =>
    have := float32Float_no_panic t
    unfold float32Action
    simp only
    cases hf : float32Float t <;> simp_all [Action.map]
  | litString => simp [float32Action]

theorem resourceAction_no_panic (g : Nat) {k : Kind} {head t : Bytes} (h : emits k head t) :
    resourceAction g k t ≠ .panic := by
  have := float32Action_no_panic h
  unfold resourceAction
  split <;> simp_all

/-- the resource actions fail exactly when `float_32` does -/
theorem resourceAction_error_iff (g : Nat) (k : Kind) (t : Bytes) :
    resourceAction g k t = .error ↔ float32Action k t = .error := by
  unfold resourceAction
  split <;> simp_all

theorem unquoteAction_no_panic {k : Kind} {head t : Bytes} (h : emits k head t) : unquoteAction k t ≠ .panic := by
  cases k with
  | litString =>
    obtain ⟨out, ho⟩ := emitted_string_unquotes h
    simp [unquoteAction, ho]
  | numInt => simp [unquoteAction]
  | numFloat => simp [unquoteAction]

/-- on a LITSTRING the unquoting sites always succeed -/
theorem unquoteAction_ok {head t : Bytes} (h : emits .litString head t) : ∃ b, unquoteAction .litString t = .ok (.str b) := by
  obtain ⟨out, ho⟩ := emitted_string_unquotes h
  exact ⟨out, by simp [unquoteAction, ho]⟩

theorem srcSiteAction_no_panic {k : Kind} {head t : Bytes} (h : emits k head t) : srcSiteAction k t ≠ .panic := by
  cases k with
  | litString =>
    obtain ⟨out, ho⟩ := emitted_string_unquotes h
    have := srcAction_no_panic out
    unfold srcSiteAction
    simp only [ho]
    split <;> simp_all
  | numInt => simp [srcSiteAction]
  | numFloat => simp [srcSiteAction]

/-- `val_exp` on an emitted token always yields a value (neither error nor panic) -/
theorem valAction_ok {k : Kind} {head t : Bytes} (h : emits k head t) : ∃ v, valAction k t = .ok v := by
  cases k with
  | numInt =>
    obtain ⟨i, hi⟩ := emitted_int_parses h
    exact ⟨.int i, by simp [valAction, hi]⟩
  | numFloat =>
    obtain ⟨l, hl⟩ := emitted_float_parses h
    exact ⟨.float l, by simp [valAction, hl]⟩
  | litString =>
    obtain ⟨b, hb⟩ := unquoteAction_ok h
    exact ⟨.str b, by simp [valAction, hb]⟩

/-- `val_exp: NUM_INT` yields the exact value of the numeral -/
theorem valAction_int_exact {head t : Bytes} (h : emits .numInt head t) :
    valAction .numInt t = .ok (.int (intTokVal t)) ∧ inInt64 (intTokVal t) = true := by
  have hn := emits_int h
  obtain ⟨i, hi⟩ := emitted_int_parses h
  have hm : ∃ b, matchInt b = some t := by
    unfold numTok at hn
    split at hn
    · split at hn <;> cases hn
    · split at hn
      · rename_i t' hm'
        split at hn
        · cases hn; exact ⟨_, hm'⟩
        · cases hn
      · cases hn
  obtain ⟨b, hb⟩ := hm
  have he := parseInt_exact hb
  rw [hi] at he
  by_cases hv : inInt64 (intTokVal t) = true
  · simp only [hv, if_true] at he
    cases he
    exact ⟨by simp [valAction, hi], hv⟩
  · simp [hv] at he

/-- SUMMARY: every modelled token-consuming action, on every token the
tokenizer model emits for any of the three converted token kinds, yields a
value or a located error, never a panic. -/
theorem actions_total (s : Site) (k : Kind) (head t : Bytes) (h : emits k head t) : act s k t ≠ .panic := by
  cases s with
  | float32 => exact float32Action_no_panic h
  | threads => exact resourceAction_no_panic 100 h
  | memGb => exact resourceAction_no_panic 1024 h
  | vmemGb => exact resourceAction_no_panic 1024 h
  | special => exact unquoteAction_no_panic h
  | incl => exact unquoteAction_no_panic h
  | help => exact unquoteAction_no_panic h
  | outName => exact unquoteAction_no_panic h
  | mapKey => exact unquoteAction_no_panic h
  | src => exact srcSiteAction_no_panic h
  | valExp =>
    obtain ⟨v, hv⟩ := valAction_ok h
    simp [act, hv]

/-- where the action can fail at all: only `float_32` on a NUM_FLOAT outside
the float32 range, and `src_stm` on a blank command; every other accepted
(site, kind) pair always yields a value -/
theorem actions_error_only (s : Site) (k : Kind) (head t : Bytes) (h : emits k head t)
    (ha : s.accepts k = true) (he : act s k t = .error) :
    (k = .numFloat ∧ (s = .float32 ∨ s = .threads ∨ s = .memGb ∨ s = .vmemGb) ∧ parseFloat true t = none) ∨
    (s = .src ∧ k = .litString) := by
  cases s <;> cases k <;> simp [Site.accepts] at ha <;> simp only [act] at he
  all_goals first
    | (right; exact ⟨rfl, rfl⟩)
    | (left
       first
         | (have he' := (resourceAction_error_iff _ _ _).mp he
            simp only [float32Action] at he'
            cases hf : float32Float t <;> simp [hf, Action.map] at he'
            exact ⟨rfl, by simp, (float32Float_error_iff t).mp hf⟩)
         | (simp only [float32Action] at he
            cases hf : float32Float t <;> simp [hf, Action.map] at he
            exact ⟨rfl, by simp, (float32Float_error_iff t).mp hf⟩))
    | (exfalso
       first
         | (obtain ⟨v, hv⟩ := valAction_ok h; simp [hv] at he)
         | (obtain ⟨b, hb⟩ := unquoteAction_ok h; simp [hb] at he)
         | (have he' := (resourceAction_error_iff _ _ _).mp he
            obtain ⟨v, hv⟩ := float32Int_total h
            simp [float32Action, hv, Action.map] at he')
         | (obtain ⟨v, hv⟩ := float32Int_total h
            simp [float32Action, hv, Action.map] at he))

/-! ## arr_list -/

theorem wrap16_id {n : Int} (h0 : -32768 ≤ n) (h1 : n < 32768) : wrap16 n = n := by
  unfold wrap16; omega

/-- the counter after `k` pairs: `k` itself while `k ≤ 32767`, a located error
from the 32768th pair on -/
theorem arrList_spec : ∀ k : Nat, arrList k = if k ≤ 32767 then .ok (k : Int) else .error
  | 0 => by simp [arrList]
  | k + 1 => by
    rw [arrList, arrList_spec k]
    by_cases h : k ≤ 32767
    · simp only [h, if_true]
      unfold arrStep maxDim
      by_cases h2 : k = 32767
      · subst h2; simp
      · have h3 : ((k : Int) == 2 ^ 15 - 1) = false := by
          simp only [beq_eq_false_iff_ne, ne_eq]; omega
        have h4 : k + 1 ≤ 32767 := by omega
        simp only [h3, h4, if_true, Bool.false_eq_true, if_false]
        rw [wrap16_id (by omega) (by omega)]
        simp
    · have h4 : ¬ (k + 1 ≤ 32767) := by omega
      simp [h, h4]

/-- for every number of `[]` pairs the action sequence yields a count in
`[0, 2^15)` — the count itself, no wrap — or a located error; never a panic -/
theorem arrList_total (k : Nat) :
    (∃ n : Int, arrList k = .ok n ∧ 0 ≤ n ∧ n < 2 ^ 15 ∧ n = k) ∨ (arrList k = .error ∧ 32767 < k) := by
  rw [arrList_spec]
  by_cases h : k ≤ 32767
  · left; exact ⟨k, by simp [h], by omega, by omega, rfl⟩
  · right; exact ⟨by simp [h], by omega⟩

theorem arrList_no_panic (k : Nat) : arrList k ≠ .panic := by
  rw [arrList_spec]; split <;> simp

/-- without the guard the counter is `wrap16 k`: … -/
theorem arrListUnguarded_spec : ∀ k : Nat, arrListUnguarded k = .ok (wrap16 k)
  | 0 => by simp [arrListUnguarded, wrap16]
  | k + 1 => by
    rw [arrListUnguarded, arrListUnguarded_spec k]
    simp only [arrStepUnguarded, Action.ok.injEq]
    unfold wrap16
    push_cast
    omega

/-- … negative witness: 32768 pairs would give −32768 -/
theorem arrListUnguarded_wraps : arrListUnguarded 32768 = .ok (-32768) ∧ arrStepUnguarded 32767 = .ok (-32768) ∧
    arrStep 32767 = .error := by
  refine ⟨?_, by decide, by decide⟩
  rw [arrListUnguarded_spec]; decide

/-- before the repair: `MapDim: 1 + $4` had no guard; 32767 inner dimensions
wrapped it to −32768 -/
theorem mapDimUnguarded_wraps : mapDimUnguarded 32767 = -32768 ∧
    (∀ n : Int, 0 ≤ n → n < 32767 → mapDimUnguarded n = n + 1) := by
  refine ⟨by decide, ?_⟩
  intro n h0 h1
  unfold mapDimUnguarded
  rw [wrap16_id (by omega) (by omega)]
  omega

/-- the guarded action: for every inner dimension count the `arr_list` counter
can deliver (0 … 32767) the map dimension is exact and below 2^15, or a
located error -/
theorem mapDim_total (n : Int) (h0 : 0 ≤ n) (h1 : n ≤ 32767) :
    (mapDim n = .ok (n + 1) ∧ n + 1 < 2 ^ 15) ∨ (mapDim n = .error ∧ n = 32767) := by
  unfold mapDim maxDim
  by_cases h : n = 32767
  · right; subst h; exact ⟨by decide, rfl⟩
  · left
    have hne : (n == (2 : Int) ^ 15 - 1) = false := by
      simp only [beq_eq_false_iff_ne, ne_eq]; omega
    rw [hne]
    simp only [Bool.false_eq_true, if_false]
    rw [wrap16_id (by omega) (by omega)]
    exact ⟨by rw [Int.add_comm], by omega⟩

theorem idSliceAction_id (t : Bytes) : idSliceAction t = .ok t := by simp [idSliceAction]

/-! ## non-vacuity and negative witnesses -/

-- the hypotheses are satisfiable: tokens of all three kinds are emitted
set_option exponentiation.threshold 1100 in
set_option maxRecDepth 4000 in
example : emits .numInt [0x2D, 0x34, 0x32, 0x2C] [0x2D, 0x34, 0x32] ∧
    emits .numFloat [0x31, 0x65, 0x33, 0x39, 0x2C] [0x31, 0x65, 0x33, 0x39] ∧
    emits .litString [0x22, 0x61, 0x22, 0x2C] [0x22, 0x61, 0x22] := by
  unfold emits; decide

-- each outcome class is reachable: `4`, `1.5`, `16.0` → ok; `1e39` (a NUM_FLOAT) → error at float_32
set_option exponentiation.threshold 1100 in
example : act .threads .numInt [0x34] = .ok (.f32 (some 4)) ∧
    act .memGb .numFloat [0x31, 0x2E, 0x35] = .ok (.f32 none) ∧
    act .vmemGb .numFloat [0x31, 0x36, 0x2E, 0x30] = .ok (.f32 (some 16)) ∧
    act .memGb .numFloat [0x31, 0x65, 0x33, 0x39] = .error ∧
    act .valExp .numFloat [0x31, 0x65, 0x33, 0x39] = .ok (.float ⟨false, 1, 39⟩) ∧
    act .src .litString [0x22, 0x20, 0x22] = .error ∧
    act .src .litString [0x22, 0x61, 0x20, 0x62, 0x22] = .ok (.src [0x61] [[0x62]]) ∧
    act .help .litString [0x22, 0x5C, 0x6E, 0x22] = .ok (.str [0x0A]) ∧
    act .help .numInt [0x34] = .error := by decide

/-- Negative witness: `1e39` is a NUM_FLOAT of the tokenizer (it passed the
float64 range check) on which the panicking converter `parseFloat32` panics:
without the error check the float_32 action would crash. -/
theorem float32_unchecked_panics :
    numTok false [0x31, 0x65, 0x33, 0x39] = .float [0x31, 0x65, 0x33, 0x39] ∧
    float32FloatUnchecked [0x31, 0x65, 0x33, 0x39] = .panic ∧
    float32Float [0x31, 0x65, 0x33, 0x39] = .error := by
  set_option exponentiation.threshold 1100 in decide

/-- Negative witnesses: the actions DO panic on texts the tokenizer does not
emit for that kind (`2^63` as NUM_INT, `"\x1"` as LITSTRING, `1e999` as
NUM_FLOAT in `val_exp`) -/
theorem actions_panic_outside_tokens :
    float32Int [0x39,0x32,0x32,0x33,0x33,0x37,0x32,0x30,0x33,0x36,0x38,0x35,0x34,0x37,0x37,0x35,0x38,0x30,0x38] = .panic ∧
    unquoteAction .litString [0x22, 0x5C, 0x78, 0x31, 0x22] = .panic ∧
    valAction .numFloat [0x31, 0x65, 0x39, 0x39, 0x39] = .panic := by
  set_option exponentiation.threshold 4000 in decide

end Martian.LexerActions
