/-
C19 — removing an input parameter leaves the resolved inputs of every call
unchanged (the nodes of calls of `x` lose the key `q`, nothing else).
-/
import Proofs.RefactorGraphLemmas
import Proofs.RefactorGraphOut

namespace Proofs.RefactorGraph
open Martian.Refactor

section Rem
variable (x q : String)

def dropB (c : Call) : Call :=
  if c.decId = x then { c with binds := removeFirstBind q c.binds } else c

def FRem (c : Callable) : Callable :=
  { c with ins := if c.name = x then removeFirstStr q c.ins else c.ins,
           calls := if c.isPipe then c.calls.map (dropB x q) else c.calls }

def SRem (name : String) (env : Env) : Env := if name = x then dropKeyEnv q env else env

theorem FRem_name (c : Callable) : (FRem x q c).name = c.name := rfl

theorem removeInputOne_eq (p : Program) :
    removeInputOne x q p = ⟨p.callables.map (FRem x q), p.top.map (dropB x q)⟩ := by
  have hd : (fun c : Call => if c.decId = x then { c with binds := removeFirstBind q c.binds } else c)
      = dropB x q := rfl
  show Program.mk _ _ = _
  congr 1
  apply List.map_congr_left
  intro c _
  unfold FRem
  by_cases hn : c.name = x <;> cases hp : c.isPipe <;> simp [hn, hp, hd] <;> (cases c; simp_all)

theorem lookup_dropKeyM_other (n : String) (l : Members) (h : n ≠ q) :
    (dropKeyM q l).lookup n = l.lookup n := by
  induction l with
  | nil => rfl
  | cons e t ih =>
    obtain ⟨k, v⟩ := e
    simp only [dropKeyM]
    split
    · rename_i hk
      have : (n == k) = false := by simpa [hk] using h
      simp [List.lookup_cons, this]
    · cases hnk : (n == k) <;> simp [List.lookup_cons, hnk, ih]

theorem envGet_dropKey_other (n : String) (env : Env) (h : n ≠ q) :
    envGet (dropKeyEnv q env) n = envGet env n := by
  unfold envGet
  congr 1
  induction env with
  | nil => rfl
  | cons e t ih =>
    obtain ⟨k, v⟩ := e
    simp only [dropKeyEnv]
    split
    · rename_i hk
      have : (n == k) = false := by simpa [hk] using h
      simp [List.lookup_cons, this]
    · cases hnk : (n == k) <;> simp [List.lookup_cons, hnk, ih]

theorem resolveBinds_removeFirst (ti : TypeInfo) (tys : Members) (f : Ref → RExp) (bs : List Bind)
    (hnd : (bs.map (·.name)).Nodup) :
    resolveBinds ti (dropKeyM q tys) f (removeFirstBind q bs) = dropKeyEnv q (resolveBinds ti tys f bs) := by
  induction bs with
  | nil => rfl
  | cons bd t ih =>
    simp only [List.map_cons, List.nodup_cons] at hnd
    simp only [removeFirstBind]
    split
    · rename_i hk
      have htail : ∀ bd' ∈ t, bd'.name ≠ q := fun bd' hbd' h =>
        hnd.1 (hk ▸ List.mem_map.mpr ⟨bd', hbd', h⟩)
      simp only [resolveBinds, List.map_cons, dropKeyEnv, hk, if_true]
      apply List.map_congr_left
      intro bd' hbd'
      rw [lookup_dropKeyM_other q bd'.name tys (htail bd' hbd')]
    · rename_i hk
      have := ih hnd.2
      simp only [resolveBinds, List.map_cons] at this ⊢
      rw [this]
      simp [dropKeyEnv, hk, lookup_dropKeyM_other q bd.name tys hk]

theorem mem_removeFirstBind (bs : List Bind) (bd : Bind) (h : bd ∈ removeFirstBind q bs) : bd ∈ bs := by
  induction bs with
  | nil => cases h
  | cons e t ih =>
    simp only [removeFirstBind] at h
    split at h
    · exact List.mem_cons_of_mem _ h
    · cases h with
      | head => exact List.mem_cons_self ..
      | tail _ h => exact List.mem_cons_of_mem _ (ih h)

theorem noStar_removeFirst (bs : List Bind) (h : noStar bs = true) : noStar (removeFirstBind q bs) = true := by
  simp only [noStar, List.all_eq_true] at h ⊢
  intro bd hbd
  exact h bd (mem_removeFirstBind q bs bd hbd)

theorem pipeOKRem_parts {c : Callable} (h : pipeOKRem x q c = true) :
    (c.isPipe = true ∨ c.calls = [])
    ∧ (callIds c).Nodup
    ∧ (∀ k ∈ c.calls, noStar k.binds = true)
    ∧ noStar c.ret = true
    ∧ (c.name = x → ∀ r ∈ graphRefs c, selfRefTo q r = false)
    ∧ (∀ k ∈ c.calls, k.decId = x → (k.binds.map (·.name)).Nodup) := by
  simp only [pipeOKRem, Bool.and_eq_true, Bool.or_eq_true, List.all_eq_true, decide_eq_true_eq,
    bne_iff_ne, ne_eq, List.isEmpty_iff, Bool.not_eq_true'] at h
  obtain ⟨⟨⟨⟨⟨h1, h2⟩, h3⟩, h4⟩, h5⟩, h6⟩ := h
  refine ⟨h1, h2, h3, h4, ?_, ?_⟩
  · intro hn
    cases h5 with
    | inl h => exact absurd hn h
    | inr h => exact h
  · intro k hk hd
    cases h6 k hk with
    | inl h => exact absurd hd h
    | inr h => exact h

theorem lookupRef_rem (pipe : Callable) (self : Env) (sib : String → RExp) (r : Ref)
    (h : pipe.name = x → selfRefTo q r = false) :
    lookupRef (SRem x q pipe.name self) sib r = lookupRef self sib r := by
  unfold SRem
  split
  · rename_i hn
    unfold lookupRef
    cases hk : r.kind with
    | call => rfl
    | self =>
      simp only
      have : r.id ≠ q := by
        intro e
        have := h hn
        simp [selfRefTo, hk, e] at this
      rw [envGet_dropKey_other q r.id self this]
  · rfl

theorem remove_input_graph_both (ti : TypeInfo) (p : Program) (hok : RemInOK x q p = true) :
    deepGraph (ti.removeInput x q) (removeInputOne x q p) = (deepGraph ti p).map (remNodeIn x q)
    ∧ (∀ big fuel, deepGraphAt big fuel (ti.removeInput x q) (removeInputOne x q p)
        = (deepGraphAt big fuel ti p).map (remNodeIn x q))
    ∧ (∀ (κ : String → Bool → String → Bool) big fuel,
        deepGraphKeepAt (fun c i => κ c.name c.isPipe i) big fuel (ti.removeInput x q) (removeInputOne x q p)
          = (deepGraphKeepAt (fun c i => κ c.name c.isPipe i) big fuel ti p).map (remNodeIn x q)) := by
  simp only [RemInOK, Bool.and_eq_true, bne_iff_ne, ne_eq, List.all_eq_true] at hok
  obtain ⟨⟨hx, hall⟩, htopok⟩ := hok
  have hmo : membersOf (ti.removeInput x q) = membersOf ti := rfl
  have hp' := removeInputOne_eq x q p
  have H : SimHyp ti (ti.removeInput x q) p (removeInputOne x q p) id (FRem x q) (fun _ k => dropB x q k)
      (SRem x q) (fun _ _ v => v) id (fun c => pipeOKRem x q c = true) (fun _ _ => True)
      (fun _ _ => True) (fun _ => True) (fun _ _ => true) := by
    refine { hfind1 := ?_, hfind0 := ?_, hrel := fun _ _ _ _ => trivial, hF := ?_, hcalls := ?_,
             hGid := ?_, hGdec := ?_, hfirst := ?_, hO0 := ?_, hOs := ?_, o0 := ?_, o0s := ?_,
             o1 := ?_, o2 := ?_, c5 := ?_, c6 := ?_, c7 := ?_ }
    · intro n d hd
      refine ⟨?_, hall d (find_mem p n d hd)⟩
      rw [hp']
      unfold Program.find? at hd ⊢
      simp only [id]
      rw [find_map_name _ (FRem_name x q), hd]; rfl
    · intro n _ hd
      rw [hp']
      unfold Program.find? at hd ⊢
      simp only [id]
      rw [find_map_name _ (FRem_name x q), hd]; rfl
    · intro c _
      exact ⟨rfl, rfl, rfl, rfl⟩
    · intro pipe hg
      have hparts := pipeOKRem_parts x q hg
      rw [show (pipe.calls.filter (fun k => (fun (_ : Callable) (_ : String) => true) pipe k.id)) = pipe.calls from filter_true' _]
      unfold FRem
      cases hparts.1 with
      | inl h => simp [h]
      | inr h => simp only [h]; split <;> rfl
    · intro pipe k; unfold dropB; split <;> rfl
    · intro pipe _ k _; unfold dropB; split <;> rfl
    · intro pipe hg
      exact first_of_nodup pipe (pipeOKRem_parts x q hg).2.1
    · intros; rfl
    · intros; rfl
    · intros; trivial
    · intros; trivial
    · intros; trivial
    · intros; trivial
    · -- c5
      intro pipe self sib sib' k d id hg _ _ hag _ hk hd
      have hs' := sibAgree_true hag
      subst hs'
      have hparts := pipeOKRem_parts x q hg
      have hkm := (call_mem pipe id k hk).1
      have hdname := find_name p _ d hd
      have hns := hparts.2.2.1 k hkm
      have hOsib : Osib p (fun _ _ v => v) pipe sib = sib := by funext i; rfl
      have hper : ∀ bd ∈ k.binds, ∀ r ∈ refs bd.exp,
          lookupRef (SRem x q pipe.name self) sib r = lookupRef self sib r := by
        intro bd hbd r hr
        exact lookupRef_rem x q pipe self sib r
          (fun hn => hparts.2.2.2.2.1 hn r (mem_graphRefs_bind pipe k hkm bd hbd r hr))
      rw [hOsib]
      unfold callIns
      rw [FRem_name, resolveBinds_ti _ _ hmo, expandWild_noStar _ _ _ _ hns]
      by_cases hdx : k.decId = x
      · have hdn : d.name = x := hdname.trans hdx
        have hb : (dropB x q k).binds = removeFirstBind q k.binds := by simp [dropB, hdx]
        rw [hb, expandWild_noStar _ _ _ _ (noStar_removeFirst q _ hns)]
        have : insOf (ti.removeInput x q) d.name = dropKeyM q (insOf ti d.name) := by
          simp only [insOf, TypeInfo.removeInput, hdn, lookup_onKey_self]
          cases ti.ins.lookup x <;> rfl
        rw [this]
        rw [resolveBinds_congr _ _ _ (lookupRef self sib) _
          (fun bd hbd r hr => hper bd (mem_removeFirstBind q _ bd hbd) r hr)]
        rw [resolveBinds_removeFirst q ti _ _ _ (hparts.2.2.2.2.2 k hkm hdx)]
        simp [SRem, hdn]
      · have hdn : d.name ≠ x := hdname ▸ hdx
        have hb : (dropB x q k).binds = k.binds := by simp [dropB, hdx]
        rw [hb, expandWild_noStar _ _ _ _ hns]
        have : insOf (ti.removeInput x q) d.name = insOf ti d.name := by
          simp [insOf, TypeInfo.removeInput, lookup_onKey_ne x d.name _ _ hdn]
        rw [this, resolveBinds_congr _ _ _ (lookupRef self sib) _ hper]
        simp [SRem, hdn]
    · -- c6
      intro d ins sib sib' hg hp _ _ hag
      have hs' := sibAgree_true hag
      subst hs'
      have hparts := pipeOKRem_parts x q hg
      have hOsib : Osib p (fun _ _ v => v) d sib = sib := by funext i; rfl
      have hret : (FRem x q d).ret = d.ret := rfl
      rw [hOsib]
      unfold pipeOuts
      rw [FRem_name, resolveBinds_ti _ _ hmo, hret, expandWild_noStar _ _ _ _ hparts.2.2.2.1,
          expandWild_noStar _ _ _ _ hparts.2.2.2.1]
      have houts : outsOf (ti.removeInput x q) d.name = outsOf ti d.name := rfl
      rw [houts]
      congr 2
      apply resolveBinds_congr
      intro bd hbd r hr
      exact lookupRef_rem x q d ins sib r
        (fun hn => hparts.2.2.2.2.1 hn r (mem_graphRefs_ret d bd hbd r hr))
    · -- c7
      intro d ins sib sib' hg hp _ _ hag
      have hs' := sibAgree_true hag
      subst hs'
      have hparts := pipeOKRem_parts x q hg
      have hOsib : Osib p (fun _ _ v => v) d sib = sib := by funext i; rfl
      have hret : (FRem x q d).retain = d.retain := rfl
      rw [hOsib, List.map_id]
      unfold pipeRetained
      rw [hret]
      apply flatMap_congr'
      intro r hr
      rw [lookupRef_rem x q d ins sib r (fun hn => hparts.2.2.2.2.1 hn r (mem_graphRefs_retain d r hr))]
  have hmap : nodeMap id (SRem x q) (fun _ _ v => v) id = remNodeIn x q := by
    funext n
    simp only [nodeMap, remNodeIn, SRem, id, List.map_id]
    split <;> rfl
  refine ⟨?_, ?_, ?_⟩
  · rw [← deepGraphKeep_true ti p, ← hmap]
    apply sim_graph H
    · intro t ht
      have htop := by simpa [ht] using htopok
      refine ⟨?_, ?_, htop, trivial, rfl⟩
      · rw [hp']; simp [ht]
      · simp [FRem, topPipe, Ne.symm hx]
    · intro ht; rw [hp']; simp [ht]
    · simp [SRem, Ne.symm hx]
    · rw [hp']
      simp only [graphFuel, List.map_map]
      congr 2
      apply List.map_congr_left
      intro c _
      simp only [Function.comp, FRem]
      split <;> simp
  · intro big fuel
    unfold deepGraphAt
    cases ht : p.top with
    | none =>
      have htop' : (removeInputOne x q p).top = none := by rw [hp']; simp [ht]
      simp [htop']
    | some t =>
      have htop : pipeOKRem x q (topPipe t) = true := by simpa [ht] using htopok
      have hFt : FRem x q (topPipe t) = topPipe (dropB x q t) := by simp [FRem, topPipe, Ne.symm hx]
      have := sim_graph_at H big fuel t htop trivial rfl hFt (by simp [SRem, Ne.symm hx])
      have htop' : (removeInputOne x q p).top = some (dropB x q t) := by rw [hp']; simp [ht]
      simp only [htop']
      rw [this, hmap]
      congr 1
      exact nodesOfKeep_true ti p big fuel _ _ _ _
  · intro κ big fuel
    unfold deepGraphKeepAt
    cases ht : p.top with
    | none =>
      have htop' : (removeInputOne x q p).top = none := by rw [hp']; simp [ht]
      simp [htop']
    | some t =>
      have htop : pipeOKRem x q (topPipe t) = true := by simpa [ht] using htopok
      have hFt : FRem x q (topPipe t) = topPipe (dropB x q t) := by simp [FRem, topPipe, Ne.symm hx]
      have := sim_graph_atK H (fun c i => κ c.name c.isPipe i)
        (fun c _ i => by
          have hn : (FRem x q c).name = c.name := FRem_name x q c
          have hpp : (FRem x q c).isPipe = c.isPipe := by unfold FRem; split <;> rfl
          simp only [hn, hpp]) big fuel t htop trivial rfl hFt (by simp [SRem, Ne.symm hx])
      have htop' : (removeInputOne x q p).top = some (dropB x q t) := by rw [hp']; simp [ht]
      simp only [htop']
      rw [this, hmap]
      simp only [Bool.true_and]

theorem remove_input_graph (ti : TypeInfo) (p : Program) (hok : RemInOK x q p = true) :
    deepGraph (ti.removeInput x q) (removeInputOne x q p) = (deepGraph ti p).map (remNodeIn x q) :=
  (remove_input_graph_both x q ti p hok).1

end Rem

/-- a whole sequence of input removals (the closure `removeInput` computes, the
cascade of the remove-unused loop): the nodes lose exactly the removed keys -/
theorem remove_inputs_graph (pairs : List (String × String)) (ti : TypeInfo) (p : Program)
    (hok : RemInsOK pairs p = true) :
    deepGraph (ti.removeInputs pairs) (removeInputs pairs p)
      = pairs.foldl (fun g xq => g.map (remNodeIn xq.1 xq.2)) (deepGraph ti p) := by
  induction pairs generalizing ti p with
  | nil => rfl
  | cons xq rest ih =>
    obtain ⟨x, q⟩ := xq
    simp only [RemInsOK, Bool.and_eq_true] at hok
    simp only [removeInputs, TypeInfo.removeInputs, List.foldl_cons]
    have := ih (ti.removeInput x q) (removeInputOne x q p) hok.2
    simp only [removeInputs, TypeInfo.removeInputs] at this
    rw [this, remove_input_graph x q ti p hok.1]

theorem remove_inputs_graph_at (pairs : List (String × String)) (ti : TypeInfo) (p : Program)
    (hok : RemInsOK pairs p = true) (big fuel : Nat) :
    deepGraphAt big fuel (ti.removeInputs pairs) (removeInputs pairs p)
      = pairs.foldl (fun g xq => g.map (remNodeIn xq.1 xq.2)) (deepGraphAt big fuel ti p) := by
  induction pairs generalizing ti p with
  | nil => rfl
  | cons xq rest ih =>
    obtain ⟨x, q⟩ := xq
    simp only [RemInsOK, Bool.and_eq_true] at hok
    simp only [removeInputs, TypeInfo.removeInputs, List.foldl_cons]
    have := ih (ti.removeInput x q) (removeInputOne x q p) hok.2
    simp only [removeInputs, TypeInfo.removeInputs] at this
    rw [this, (remove_input_graph_both x q ti p hok.1).2.1 big fuel]

/-- the cascade on a restricted graph (`κ` reads the callable's name and kind only) -/
theorem remove_inputs_graph_atK (pairs : List (String × String)) (ti : TypeInfo) (p : Program)
    (hok : RemInsOK pairs p = true) (κ : String → Bool → String → Bool) (big fuel : Nat) :
    deepGraphKeepAt (fun c i => κ c.name c.isPipe i) big fuel (ti.removeInputs pairs) (removeInputs pairs p)
      = pairs.foldl (fun g xq => g.map (remNodeIn xq.1 xq.2))
          (deepGraphKeepAt (fun c i => κ c.name c.isPipe i) big fuel ti p) := by
  induction pairs generalizing ti p with
  | nil => rfl
  | cons xq rest ih =>
    obtain ⟨x, q⟩ := xq
    simp only [RemInsOK, Bool.and_eq_true] at hok
    simp only [removeInputs, TypeInfo.removeInputs, List.foldl_cons]
    have := ih (ti.removeInput x q) (removeInputOne x q p) hok.2
    simp only [removeInputs, TypeInfo.removeInputs] at this
    rw [this, (remove_input_graph_both x q ti p hok.1).2.2 κ big fuel]

end Proofs.RefactorGraph
