import Proofs.FormatStageRangeRead
import Proofs.FormatDeclLex
import Proofs.FormatStageLex

/-!
C09, accepted declaration texts: from the range of the readers to the text-side
statements.

* `wfStage_canon`: `HOK h`, `stageRaw s`, valid strings and `mem_gb`/`vmem_gb` below
  256 GB in magnitude (`stageMB32Valid`, i.e. `wfMB`) give `wfStage (canonStage h s)`;
* `canonStage_fixed`: canonicalising the threads text of a canonicalised stage
  changes nothing (clause `fixed` of `HOK`);
* `parseStageH_fmtStage`: for every text the real parser accepts, the printed
  form is accepted, reads as the same stage and is a fixed point.

Core Lean only.
-/

namespace Martian.FormatStage
open Martian.Lexer (Bytes)
open Martian.FormatExp
open Martian.FormatDecl (Param paramsStrsValid paramRaw all_wfParam_of_raw)
open Martian.FormatRes (Res wfRes wfMB wfThreads wfSrc wfField)

theorem parseStageH_inv {h : Bytes → Bytes} {src : Bytes} {s : Stage} (hp : parseStageH h src = some s) :
    ∃ s0, parseStage src = some s0 ∧ s = canonStage h s0 := by
  unfold parseStageH at hp
  cases h0 : parseStage src with
  | none => simp [h0] at hp
  | some s0 =>
    simp only [h0, Option.map_some, Option.some.injEq] at hp
    exact ⟨s0, rfl, hp.symm⟩

theorem wfRes_canon (h : Bytes → Bytes) (hh : HOK h) (r : Res) (hr : resRaw r = true)
    (hm : (wfMB r.mem && wfMB r.vmem) = true)
    (hs : (match r.special with | some x => Martian.ShellQuote.validUtf8 x | none => true) = true) :
    wfRes (canonRes h r) = true := by
  obtain ⟨mem, special, threads, vmem, vol⟩ := r
  simp only [Bool.and_eq_true] at hm
  simp only [wfRes, canonRes, hm.1, hm.2, Bool.true_and, Bool.and_eq_true]
  refine ⟨hs, ?_⟩
  cases threads with
  | none => rfl
  | some t => exact hh.range t hr

theorem canonRes_fixed (h : Bytes → Bytes) (hh : HOK h) (r : Res) (hr : resRaw r = true) :
    canonRes h (canonRes h r) = canonRes h r := by
  obtain ⟨mem, special, threads, vmem, vol⟩ := r
  cases threads with
  | none => rfl
  | some t =>
    simp only [canonRes, Option.map_some]
    rw [hh.fixed t hr]

/-- from the range of the reader to `wfStage`, for the stage as Go holds it -/
theorem wfStage_canon (h : Bytes → Bytes) (hh : HOK h) (s : Stage) (hr : stageRaw s = true)
    (hs : stageStrsValid (canonStage h s) = true) (hm : stageMB32Valid (canonStage h s) = true) :
    wfStage (canonStage h s) = true := by
  obtain ⟨id, ins, outs, lang, path, args, split, ci, co, res, ret⟩ := s
  simp only [stageRaw, Bool.and_eq_true] at hr
  obtain ⟨⟨⟨⟨⟨⟨⟨⟨⟨⟨⟨⟨⟨r1, r2⟩, r3⟩, r4⟩, r5⟩, r6⟩, r7⟩, r8⟩, r9⟩, r10⟩, r11⟩, r12⟩, r13⟩, r14⟩ := hr
  simp only [stageStrsValid, canonStage, Bool.and_eq_true] at hs
  obtain ⟨⟨⟨⟨⟨s1, s2⟩, s3⟩, s4⟩, s5⟩, s6⟩ := hs
  simp only [wfStage, canonStage, Bool.and_eq_true]
  refine ⟨⟨⟨⟨⟨⟨⟨⟨⟨⟨⟨⟨r1, all_wfParam_of_raw ins r2 s1⟩, r3⟩, all_wfParam_of_raw outs r4 s2⟩, r5⟩,
    all_wfParam_of_raw ci r6 s3⟩, r7⟩, all_wfParam_of_raw co r8 s4⟩, r9⟩, r10⟩, ?_⟩, ?_⟩, r14⟩
  · simp [wfSrc, r11, r12, s5]
  · cases res with
    | none => rfl
    | some r =>
      simp only [stageMB32Valid, canonStage, Option.map_some] at hm
      exact wfRes_canon h hh r r13 hm s6

theorem canonStage_fixed (h : Bytes → Bytes) (hh : HOK h) (s : Stage) (hr : stageRaw s = true) :
    canonStage h (canonStage h s) = canonStage h s := by
  obtain ⟨id, ins, outs, lang, path, args, split, ci, co, res, ret⟩ := s
  cases res with
  | none => rfl
  | some r =>
    have h13 : resRaw r = true := by
      simp only [stageRaw, Bool.and_eq_true] at hr
      exact hr.1.2
    simp only [canonStage, Option.map_some]
    rw [canonRes_fixed h hh r h13]

/-- **The parser produces well-formed stages**, up to F6b and resources of 256 GB and more (F29's
range, `wfMB`; F25 is subsumed) -/
theorem parseStageH_wf (h : Bytes → Bytes) (hh : HOK h) (src : Bytes) (s : Stage)
    (hp : parseStageH h src = some s) (hs : stageStrsValid s = true) (hm : stageMB32Valid s = true) :
    wfStage s = true := by
  obtain ⟨s0, h0, rfl⟩ := parseStageH_inv hp
  exact wfStage_canon h hh s0 (parseStage_range src s0 h0) hs hm

/-- **Formatting preserves every accepted stage text**, up to F6b and F29's range (F25 subsumed) -/
theorem parseStageH_fmtStage (h : Bytes → Bytes) (hh : HOK h) (src : Bytes) (s : Stage)
    (hp : parseStageH h src = some s) (hs : stageStrsValid s = true) (hm : stageMB32Valid s = true) :
    parseStageH h (fmtStage s) = some s ∧
    ∀ s', parseStageH h (fmtStage s) = some s' → fmtStage s' = fmtStage s := by
  obtain ⟨s0, h0, rfl⟩ := parseStageH_inv hp
  have hr := parseStage_range src s0 h0
  have hw := wfStage_canon h hh s0 hr hs hm
  have h1 : parseStageH h (fmtStage (canonStage h s0)) = some (canonStage h s0) := by
    simp only [parseStageH, parseStage_fmtStage _ hw, Option.map_some, canonStage_fixed h hh s0 hr]
  refine ⟨h1, ?_⟩
  intro s' h2
  rw [h1] at h2
  injection h2 with h2
  rw [h2]

/-! ## instances of `HOK` -/

theorem hok_hSample : HOK hSample := by
  have key : ∀ t, wfThreads (hSample t) = true ∧ hSample (hSample t) = hSample t := by
    intro t
    unfold hSample
    by_cases h1 : t = [0x30, 0x2E, 0x35, 0x30]
    · simp only [h1, ↓reduceIte]; decide +kernel
    by_cases h2 : t = [0x31, 0x65, 0x30]
    · simp only [h2, ↓reduceIte]; decide +kernel
    by_cases h3 : t = [0x30, 0x30, 0x37]
    · simp only [h3, ↓reduceIte]; decide +kernel
    by_cases h4 : wfThreads t = true
    · simp only [h1, h2, h3, h4, ↓reduceIte]; exact ⟨trivial, trivial⟩
    · have h4' : wfThreads t = false := by simpa using h4
      simp only [h1, h2, h3, h4', Bool.false_eq_true, ↓reduceIte]; decide +kernel
  exact ⟨fun t _ => (key t).1, fun t _ => (key t).2⟩

end Martian.FormatStage

namespace Martian.FormatDecl
open Martian.Lexer (Bytes)
open Martian.FormatExp

/-- **Formatting preserves every accepted `filetype` text** -/
theorem parseFiletype_fmt_accepted (src : Bytes) (t : Filetype) (h : parseFiletype src = some t) :
    parseFiletype (fmtFiletype t) = some t :=
  parseFiletype_fmtFiletype t (parseFiletype_range src t h)

/-- **Formatting preserves every accepted `struct` text**, up to F6b -/
theorem parseStruct_fmt_accepted (src : Bytes) (s : Struct) (h : parseStruct src = some s)
    (hs : declStrsValid s = true) : parseStruct (fmtStruct s) = some s :=
  parseStruct_fmtStruct s (parseStruct_range src s h hs)

/-- **Formatting preserves every accepted parameter block**, up to F6b, with ANY column widths -/
theorem parseParams_fmt_accepted (src : Bytes) (ps : List Param) (h : parseParams src = some ps)
    (hs : paramsStrsValid ps = true) (mw tw iw hw : Nat) :
    parseParams (fmtParams mw tw iw hw ps) = some ps := by
  obtain ⟨ins, outs, rfl, h1, h2, h3, h4⟩ := parseParams_range src ps h hs
  exact parseParams_fmtParams mw tw iw hw ins outs h1 h2 h3 h4

end Martian.FormatDecl
