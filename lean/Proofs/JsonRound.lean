/-
Numerals as Go reads them (Martian/Json.lean, `Num.round64` …): on a literal
that IS a float64 value (`Num.exact64`) the decision of the code (`goInt?`,
made on the rounded value) is the decision of exact decimal arithmetic
(`intValue?`).  Core Lean only.
-/
import Martian.Json
namespace Martian.Json.Num

/-- `± M` -/
def sgn (neg : Bool) (M : Nat) : Int := if neg then -(M : Int) else (M : Int)

theorem pow_pos2 (j : Nat) : (0 : Int) < 2 ^ j := Int.pow_pos (by decide)
theorem pow_pos10 (j : Nat) : (0 : Int) < 10 ^ j := Int.pow_pos (by decide)

theorem cancel_iff (x i m P T : Int) (hP : 0 < P) (hT : 0 < T) (hx : x * T = m * P) :
    (x = i * P ↔ m = i * T) := by
  constructor
  · intro h; subst h
    have : (i * T) * P = m * P := by rw [← hx]; ac_rfl
    exact (Int.eq_of_mul_eq_mul_right (Int.ne_of_gt hP) this).symm
  · intro h; subst h
    have : x * T = (i * P) * T := by rw [hx]; ac_rfl
    exact Int.eq_of_mul_eq_mul_right (Int.ne_of_gt hT) this

theorem int?_pos (neg : Bool) (M : Nat) (s : Int) (hs : 0 ≤ s) :
    (F64.fin neg M s).int? = some (sgn neg M * 2 ^ s.toNat) := by
  cases neg <;> simp [F64.int?, hs, sgn, Int.natCast_mul, Int.natCast_pow, Int.neg_mul]

theorem int?_neg_div (neg : Bool) (M : Nat) (s : Int) (hs : ¬ 0 ≤ s) (hm : M % 2 ^ (-s).toNat = 0) :
    (F64.fin neg M s).int? = some (sgn neg (M / 2 ^ (-s).toNat)) := by
  cases neg <;> simp [F64.int?, hs, hm, sgn]

theorem int?_neg_none (neg : Bool) (M : Nat) (s : Int) (hs : ¬ 0 ≤ s) (hm : ¬ M % 2 ^ (-s).toNat = 0) :
    (F64.fin neg M s).int? = none := by
  simp [F64.int?, hs, hm]

theorem sgn_mul (neg : Bool) (a b : Nat) : sgn neg (a * b) = sgn neg a * (b : Int) := by
  cases neg <;> simp [sgn, Int.natCast_mul, Int.neg_mul]

theorem int?_iff (neg : Bool) (M : Nat) (s : Int) (i : Int) :
    (F64.fin neg M s).int? = some i ↔
      (if 0 ≤ s then i = sgn neg M * 2 ^ s.toNat else sgn neg M = i * 2 ^ (-s).toNat) := by
  by_cases hs : 0 ≤ s
  · rw [int?_pos neg M s hs]; simp only [hs, ↓reduceIte, Option.some.injEq]; exact eq_comm
  · simp only [hs, ↓reduceIte]
    have hP : 0 < 2 ^ (-s).toNat := Nat.pow_pos (by decide)
    have hPi : (0 : Int) < 2 ^ (-s).toNat := pow_pos2 _
    by_cases hm : M % 2 ^ (-s).toNat = 0
    · rw [int?_neg_div neg M s hs hm, Option.some.injEq]
      have hM : M = M / 2 ^ (-s).toNat * 2 ^ (-s).toNat :=
        (Nat.div_mul_cancel (Nat.dvd_of_mod_eq_zero hm)).symm
      have hS : sgn neg M = sgn neg (M / 2 ^ (-s).toNat) * 2 ^ (-s).toNat := by
        conv => lhs; rw [hM]
        rw [sgn_mul]; simp [Int.natCast_pow]
      constructor
      · intro h; rw [← h]; exact hS
      · intro h
        rw [hS] at h
        exact Int.eq_of_mul_eq_mul_right (Int.ne_of_gt hPi) h
    · rw [int?_neg_none neg M s hs hm]
      constructor
      · intro h; cases h
      · intro h
        exfalso; apply hm
        have := congrArg Int.natAbs h
        have habs : (sgn neg M).natAbs = M := by cases neg <;> simp [sgn]
        rw [habs, Int.natAbs_mul, Int.natAbs_pow] at this
        rw [this]; exact Nat.mul_mod_left _ _
/-- the integer a decimal literal is: `m·10^e = i` -/
theorem intValue?_iff (m e i : Int) :
    (Num.flt m e).intValue? = some i ↔
      (if 0 ≤ e then i = m * 10 ^ e.toNat else m = i * 10 ^ (-e).toNat) := by
  unfold intValue?
  by_cases he : 0 ≤ e
  · simp [he, eq_comm]
  · simp only [he, ↓reduceIte]
    generalize (-e).toNat = k
    have hT : (0 : Int) < 10 ^ k := pow_pos10 k
    constructor
    · intro h
      split at h
      · rename_i hm
        simp only [Option.some.injEq] at h
        rw [← h]
        exact (Int.ediv_mul_cancel (Int.dvd_of_emod_eq_zero hm)).symm
      · cases h
    · intro h
      have hm : m % 10 ^ k = 0 := by rw [h]; exact Int.mul_emod_left _ _
      simp only [hm, ↓reduceIte, Option.some.injEq]
      rw [h]; exact Int.mul_ediv_cancel _ (Int.ne_of_gt hT)

/-- On a float-syntax literal that is exactly a float64 value, the integer the
code tests (rounded value) is the integer the literal is (exact decimal). -/
theorem int?_eq_intValue?_of_exact (m e : Int) (h : exact64 (.flt m e) = true) :
    (toF64 (.flt m e)).int? = (Num.flt m e).intValue? := by
  unfold exact64 at h
  cases hf : toF64 (.flt m e) with
  | inf => simp [hf] at h
  | fin neg M s =>
    simp only [hf] at h
    apply Option.ext
    intro i
    rw [int?_iff, intValue?_iff]
    have hsg : (if neg = true then -(M : Int) else (M : Int)) = sgn neg M := rfl
    rw [hsg] at h
    by_cases hs : 0 ≤ s <;> by_cases he : 0 ≤ e <;> simp only [hs, he, ↓reduceIte, beq_iff_eq] at h ⊢
    · -- σ·P = m·T
      rw [h]
    · -- σ·P·T = m
      have hT := pow_pos10 (-e).toNat
      constructor
      · intro hi; rw [hi]; exact h.symm
      · intro hm
        rw [hm] at h
        exact (Int.eq_of_mul_eq_mul_right (Int.ne_of_gt hT) h).symm
    · -- σ = m·P·T   (stored as  σ = (m·P)·T)
      have hP := pow_pos2 (-s).toNat
      constructor
      · intro hi
        rw [hi] at h
        have : i * 2 ^ (-s).toNat = (m * 10 ^ e.toNat) * 2 ^ (-s).toNat := by rw [h]; ac_rfl
        exact Int.eq_of_mul_eq_mul_right (Int.ne_of_gt hP) this
      · intro hi; rw [h, hi]; ac_rfl
    · -- σ·T = m·P
      exact cancel_iff _ i m _ _ (pow_pos2 _) (pow_pos10 _) h

/-- … and an integer-syntax literal that is exactly a float64 value is that integer. -/
theorem int?_of_exact_int (v : Int) (h : exact64 (.int v) = true) : (toF64 (.int v)).int? = some v := by
  unfold exact64 at h
  cases hf : toF64 (.int v) with
  | inf => simp [hf] at h
  | fin neg M s =>
    simp only [hf] at h
    rw [int?_iff]
    have hsg : (if neg = true then -(M : Int) else (M : Int)) = sgn neg M := rfl
    by_cases hs : 0 ≤ s
    · simp only [hs, ↓reduceIte, beq_iff_eq] at h ⊢
      rw [← h]
      cases neg <;> simp [sgn, Int.natCast_mul, Int.natCast_pow, Int.neg_mul]
    · simp only [hs, ↓reduceIte, beq_iff_eq] at h ⊢
      rw [hsg] at h; exact h

/-- the code's decision on an exactly representable literal is the exact-decimal decision -/
theorem goInt?_of_exact_flt (m e : Int) (h : exact64 (.flt m e) = true) :
    goInt? (.flt m e) = match (Num.flt m e).intValue? with
      | some i => if inInt64 i then some i else none
      | none => none := by
  unfold goInt?
  rw [int?_eq_intValue?_of_exact m e h]
  cases (Num.flt m e).intValue? with
  | none => rfl
  | some i =>
    simp only [inInt64, Bool.and_eq_true, decide_eq_true_eq]

theorem goInt?_of_exact_int (v : Int) (h : exact64 (.int v) = true) (hr : inInt64 v = false) :
    goInt? (.int v) = none := by
  unfold goInt?
  rw [int?_of_exact_int v h]
  simp only [inInt64, Bool.and_eq_false_iff, decide_eq_false_iff_not] at hr
  have : ¬ (minInt64 ≤ v ∧ v ≤ maxInt64) := by
    intro hh; rcases hr with hr | hr
    · exact hr hh.1
    · exact hr hh.2
  simp [this]

theorem finite64_of_exact (n : Num) (h : exact64 n = true) : finite64 n = true := by
  cases n with
  | int v =>
    unfold exact64 at h
    simp only [finite64, Bool.or_eq_true, bne_iff_ne, ne_eq]
    right
    intro hinf
    simp [toF64, hinf] at h
  | flt m e =>
    unfold exact64 at h
    simp only [finite64, bne_iff_ne, ne_eq]
    intro hinf
    simp [toF64, hinf] at h

end Martian.Json.Num
