/-
C13: the file leaves of a traversal as a flat list, and the refinement
"the file-system effect of the (dimension-aware) recursion is the left fold of
`moveOutFile` over that list".  Basis of the global `dest_injective` and
`content_preserved`.
-/
import Martian.PostProcess
import Martian.PostProcessDefs
import Proofs.PostProcess

namespace Martian.PostProcess

theorem runLeaves_append (ps : Path) (a b : List Leaf) (fs : FS) :
    runLeaves ps (a ++ b) fs = runLeaves ps b (runLeaves ps a fs) := by
  simp [runLeaves, List.foldl_append]

theorem runLeaves_nil (ps : Path) (fs : FS) : runLeaves ps [] fs = fs := rfl

theorem runLeaves_cons (ps : Path) (l : Leaf) (ls : List Leaf) (fs : FS) :
    runLeaves ps (l :: ls) fs = runLeaves ps ls (runLeaf ps fs l) := rfl

/-! ## refinement -/

theorem mapIdx_run (ps : Path) (f : Nat → J → FS → J × FS) (g : Nat → J → List Leaf)
    (h : ∀ i x fs, (f i x fs).2 = runLeaves ps (g i x) fs) (i : Nat) (xs : List J) (fs : FS) :
    (mapIdx f i xs fs).2 = runLeaves ps (leavesIdx g i xs) fs := by
  induction xs generalizing i fs with
  | nil => rfl
  | cons x xs ih => simp [mapIdx, leavesIdx, runLeaves_append, ih, h]

theorem mapKeys_run (ps : Path) (f : String → FS → J × FS) (g : String → List Leaf)
    (h : ∀ k fs, (f k fs).2 = runLeaves ps (g k) fs) (ks : List String) (fs : FS) :
    (mapKeys f ks fs).2 = runLeaves ps (leavesKeys g ks) fs := by
  induction ks generalizing fs with
  | nil => rfl
  | cons k ks ih => simp [mapKeys, leavesKeys, runLeaves_append, ih, h]

theorem arrLevel_run (ps : Path) (h : Handler) (g : LeafFn)
    (hg : ∀ id on v o fs, (h id on v o fs).2 = runLeaves ps (g id on v o) fs)
    (k : Nat) (v : J) (o : Path) (fs : FS) :
    (arrLevel true h k v o fs).2 = runLeaves ps (arrLeaves g k v o) fs := by
  induction k generalizing v o fs with
  | zero =>
    cases v with
    | arr xs =>
      simp only [arrLevel, arrLeaves]
      apply mapIdx_run
      intro i x fs
      exact hg _ _ _ _ _
    | null => rfl
    | lit s => rfl
    | str s => rfl
    | obj kvs => rfl
  | succ k ih =>
    cases v with
    | arr xs =>
      simp only [arrLevel, arrLeaves]
      apply mapIdx_run
      intro i x fs
      cases x with
      | null => simp [arrElemLeaves, runLeaves_nil]
      | arr ys => simpa [arrElemLeaves] using ih _ _ _
      | lit s => simpa [arrElemLeaves] using ih _ _ _
      | str s => simpa [arrElemLeaves] using ih _ _ _
      | obj kvs => simpa [arrElemLeaves] using ih _ _ _
    | null => rfl
    | lit s => rfl
    | str s => rfl
    | obj kvs => rfl

theorem mapLevel_run (ps : Path) (h : Handler) (g : LeafFn)
    (hg : ∀ id on v o fs, (h id on v o fs).2 = runLeaves ps (g id on v o) fs)
    (v : J) (o : Path) (fs : FS) :
    (mapLevel h v o fs).2 = runLeaves ps (mapLeaves g v o) fs := by
  cases v with
  | obj kvs =>
    simp only [mapLevel, mapLeaves]
    apply mapKeys_run
    intro k fs
    exact hg _ _ _ _ _
  | null => rfl
  | lit s => rfl
  | str s => rfl
  | arr xs => rfl

theorem memberHandler_run (ps : Path) (hs : MemberHandlers) (gs : MemberLeaves)
    (hkeys : hs.map Prod.fst = gs.map Prod.fst)
    (hg : ∀ k v o fs, (memberHandler hs k v o fs).2 = runLeaves ps (memberLeaves gs k v o) fs)
    (v : J) (o : Path) (fs : FS) :
    (structLevel hs v o fs).2 = runLeaves ps (structLeaves gs v o) fs := by
  cases v with
  | obj kvs =>
    cases kvs with
    | nil => rfl
    | cons kv kvs =>
      simp only [structLevel, structLeaves]
      rw [hkeys]
      apply mapKeys_run
      intro k fs
      exact hg _ _ _ _
  | null => rfl
  | lit s => rfl
  | str s => rfl
  | arr xs => rfl

theorem leavesMs_keys (ms : List (String × String × Ty)) :
    (leavesMs ms).map Prod.fst = ms.map (·.1) := by
  induction ms with
  | nil => simp [leavesMs]
  | cons m ms ih =>
    obtain ⟨id, on, t⟩ := m
    simp [leavesMs, ih]

mutual
theorem handler_run (ps : Path) (ty : Ty) (id on : String) (v : J) (outs : Path) (fs : FS) :
    (handler true ps ty id on v outs fs).2 = runLeaves ps (leavesOf ty id on v outs) fs := by
  cases ty with
  | scalar => simp [handler, leavesOf, runLeaves_nil]
  | file ext =>
    cases v <;> simp [handler, leavesOf, runLeaves, runLeaf]
  | arr e k =>
    cases he : hasFile e with
    | false => simp [handler, leavesOf, he, runLeaves_nil]
    | true =>
      have hR := fun id on v o fs => handler_run ps e id on v o fs
      have := fun v => arrLevel_run ps (handler true ps e) (leavesOf e) hR k v
        (outs ++ [outFilename (.arr e k) id on]) fs
      cases v with
      | null => simp [handler, leavesOf, he, runLeaves_nil]
      | lit s => simpa [handler, leavesOf, he] using this (.lit s)
      | str s => simpa [handler, leavesOf, he] using this (.str s)
      | arr xs => simpa [handler, leavesOf, he] using this (.arr xs)
      | obj kvs => simpa [handler, leavesOf, he] using this (.obj kvs)
  | tmap e =>
    cases he : hasFile e with
    | false => simp [handler, leavesOf, he, runLeaves_nil]
    | true =>
      have hR := fun id on v o fs => handler_run ps e id on v o fs
      have := fun v => mapLevel_run ps (handler true ps e) (leavesOf e) hR v
        (outs ++ [outFilename (.tmap e) id on]) fs
      cases v with
      | null => simp [handler, leavesOf, he, runLeaves_nil]
      | lit s => simpa [handler, leavesOf, he] using this (.lit s)
      | str s => simpa [handler, leavesOf, he] using this (.str s)
      | arr xs => simpa [handler, leavesOf, he] using this (.arr xs)
      | obj kvs => simpa [handler, leavesOf, he] using this (.obj kvs)
  | struct ms =>
    cases he : hasFileMs ms with
    | false => simp [handler, leavesOf, he, runLeaves_nil]
    | true =>
      have hR := fun k v o fs => handlersMs_run ps ms k v o fs
      have := fun v => memberHandler_run ps (handlersMs true ps ms) (leavesMs ms)
        (by rw [handlersMs_keys, leavesMs_keys]) hR v (outs ++ [outFilename (.struct ms) id on]) fs
      cases v with
      | null => simp [handler, leavesOf, he, runLeaves_nil]
      | lit s => simpa [handler, leavesOf, he] using this (.lit s)
      | str s => simpa [handler, leavesOf, he] using this (.str s)
      | arr xs => simpa [handler, leavesOf, he] using this (.arr xs)
      | obj kvs => simpa [handler, leavesOf, he] using this (.obj kvs)
theorem handlersMs_run (ps : Path) (ms : List (String × String × Ty)) (k : String) (v : J) (o : Path)
    (fs : FS) :
    (memberHandler (handlersMs true ps ms) k v o fs).2 =
      runLeaves ps (memberLeaves (leavesMs ms) k v o) fs := by
  cases ms with
  | nil => simp [handlersMs, memberHandler, leavesMs, memberLeaves, runLeaves_nil]
  | cons m ms =>
    obtain ⟨id, on, t⟩ := m
    simp only [handlersMs, memberHandler, leavesMs, memberLeaves]
    by_cases hk : id = k
    · simp only [hk, if_true]
      exact handler_run ps t k on v o fs
    · simp only [hk, if_false]
      exact handlersMs_run ps ms k v o fs
end

/-- the file-system effect of `handleOuts` is the fold over the record's leaves -/
theorem handleOuts_run (ps : Path) (params : List (String × String × Ty)) (outs : List (String × J))
    (outsPath : Path) (fs : FS) :
    (handleOuts true ps params outs outsPath fs).2 =
      runLeaves ps (leavesRec params outs outsPath) fs := by
  induction params generalizing fs with
  | nil => rfl
  | cons m rest ih =>
    obtain ⟨id, on, ty⟩ := m
    simp only [handleOuts, leavesRec]
    cases lookupLast outs id with
    | none => exact ih fs
    | some v =>
      simp only [runLeaves_append]
      rw [ih, moveOut, handler_run]

end Martian.PostProcess
