/-
Soundness of the compile-time binding checker against the run-time resolver AS
THE CODE DOES IT (Martian/TypingRun.lean: `pathVal`, `wholeRT`, `evalT`).
Core Lean only.
-/
import Martian.TypingRun
import Proofs.Typing
import Proofs.TypingPipeline

namespace Martian.Typing
open Martian.Json Martian.Types

/-! ### filtering a conforming value to an assignable type reports no error -/

theorem filterBase_ok_of_assignable (d : Base) (s : Ty) (v : J) (hs : Shape s v)
    (ha : assignable (.base d) s = true) : (filterBase d v).2 = .ok := by
  cases s with
  | base s' =>
    cases d <;> cases s' <;> simp [assignable, assignableBase] at ha <;> cases hs <;>
      simp [filterBase, *]
  | user n =>
    simp [assignable] at ha
    rcases ha with rfl | rfl <;> cases hs <;> simp [filterBase]
  | struct n fs =>
    simp [assignable] at ha; subst ha
    cases hs <;> simp [filterBase]
  | tmap t =>
    simp [assignable] at ha; subst ha
    cases hs <;> simp [filterBase]
  | arr t => simp [assignable] at ha

theorem filter_ok_of_assignable (d : Ty) : d.wf = true → ∀ (s : Ty) (v : J), Shape s v →
    assignable d s = true → noHole d s = true → (filter d v).2 = .ok := by
  induction d using Ty.induct' with
  | base b =>
    intro _ s v hs ha _
    simp only [filter]
    exact filterBase_ok_of_assignable b s v hs ha
  | user n =>
    intro _ s v hs ha _
    cases s with
    | base s' =>
      simp [assignable] at ha
      rcases ha with rfl | rfl <;> cases hs <;> simp [filter]
    | user m => cases hs <;> simp [filter]
    | _ => simp [assignable] at ha
  | arr d ih =>
    intro hwf s v hs ha hn
    have ih := ih (by simpa [Ty.wf] using hwf)
    cases s with
    | arr s' =>
      simp only [assignable] at ha
      simp only [noHole] at hn
      by_cases hc : canFilter d = true
      · cases hs with
        | null => rw [filter_null]
        | arr _ xs hx =>
          simp only [filter, hc, Bool.not_true, Bool.false_eq_true, if_false]
          apply worstF_eq_ok
          intro e he
          obtain ⟨x, hxm, rfl⟩ := List.mem_map.mp he
          exact ih s' x (hx x hxm) ha hn
      · simp [filter, hc]
    | _ => simp [assignable] at ha
  | tmap d ih =>
    intro hwf s v hs ha hn
    have ih := ih (by simpa [Ty.wf] using hwf)
    cases s with
    | tmap s' =>
      simp only [assignable] at ha
      simp only [noHole, Bool.and_eq_true] at hn
      by_cases hc : canFilter d = true
      · cases hs with
        | null => rw [filter_null]
        | tmap _ kvs h1 _ =>
          simp only [filter, hc, Bool.not_true, Bool.false_eq_true, if_false]
          apply worstF_eq_ok
          intro e he
          obtain ⟨kv, hkv, rfl⟩ := List.mem_map.mp he
          exact ih s' kv.2 (h1 kv hkv) ha hn.2
      · simp [filter, hc]
    | struct n fs => simp [noHole] at hn
    | _ => simp [assignable] at ha
  | struct n fs ih =>
    intro hwf s v hs ha hn
    have hwf' := Fields.wf_iff.mp (by simpa [Ty.wf] using hwf)
    cases s with
    | struct n' fs' =>
      simp only [assignable, assignableFields_iff] at ha
      simp only [noHole, noHoleFields_iff] at hn
      cases hs with
      | null => rw [filter_null]
      | struct _ _ kvs h1 h2 =>
        simp only [filter]
        apply filterFields_ok
        intro k t hkt
        obtain ⟨t', hg, _, hat⟩ := ha k t hkt
        have hkt' := Fields.get_mem hg
        have hsome := h1 k t' hkt'
        cases hgk : getKey k kvs with
        | none => simp [hgk] at hsome
        | some x =>
          exact ⟨x, rfl, ih k t hkt (hwf'.2 k t hkt) t' x (h2 k t' x hkt' hgk) hat (hn k t t' hkt hg)⟩
    | _ => simp [assignable] at ha

/-! ### `Path` -/

theorem pathFG_eq (pm : Option Ty → Option Ty) (dest : Option Ty) : ∀ (fs : Fields) (k : Bytes) (w : J) (p : List Bytes),
    pathFG pm dest fs k w p =
      match fs.get k with
      | some t => (match p with | [] => leafRT dest t w | _ :: _ => pathValG pm dest t w p)
      | none => none
  | .nil, k, w, p => by simp [pathFG, Fields.get]
  | .cons k' t r, k, w, p => by
    by_cases h : k' = k
    · subst h
      cases p <;> simp [pathFG, Fields.get]
    · simp [pathFG, Fields.get, h, pathFG_eq pm dest r k w p]

/-- a conforming value, no destination: every leaf is filtered with its own type, no error -/
theorem leafRT_none_ok (t : Ty) (w : J) (hs : Shape t w) : ∃ w', leafRT none t w = some w' := by
  have := filter_ok_of_valid t w (valid_of_shape t w hs)
  exact ⟨(filter t w).1, by simp [leafRT, this]⟩

theorem pathVal_none_ok (pm : Option Ty → Option Ty) (hpm : pm none = none) (src : Ty) :
    ∀ (v : J) (p : List Bytes) (s : Ty), Shape src v → fieldType src p = some s →
      ∃ w, pathValG pm none src v p = some w := by
  induction src using Ty.induct' with
  | base b =>
    intro v p s hs h
    cases p with
    | nil => simp only [pathValG]; exact leafRT_none_ok _ _ hs
    | cons k p => simp [fieldType] at h
  | user n =>
    intro v p s hs h
    cases p with
    | nil => simp only [pathValG]; exact leafRT_none_ok _ _ hs
    | cons k p => simp [fieldType] at h
  | arr e ih =>
    intro v p s hs h
    cases p with
    | nil => simp only [pathValG]; exact leafRT_none_ok _ _ hs
    | cons k p =>
      simp only [fieldType, Option.map_eq_some_iff] at h
      obtain ⟨r, hr, rfl⟩ := h
      cases hs with
      | null => exact ⟨.null, by simp [pathValG]⟩
      | arr _ xs hx =>
        obtain ⟨ws, hws, _⟩ := allSome_map (fun x => pathValG pm none e x (k :: p)) (fun _ _ => True) xs
          (fun x hxm => by obtain ⟨w, hw⟩ := ih x (k :: p) r (hx x hxm) hr; exact ⟨w, hw, trivial⟩)
        exact ⟨.arr ws, by simp [pathValG, peelArrD, hws]⟩
  | tmap e ih =>
    intro v p s hs h
    cases p with
    | nil => simp only [pathValG]; exact leafRT_none_ok _ _ hs
    | cons k p =>
      simp only [fieldType] at h
      cases hr : fieldType e (k :: p) with
      | none => simp [hr] at h
      | some r =>
        cases hs with
        | null => exact ⟨.null, by simp [pathValG]⟩
        | tmap _ kvs h1 _ =>
          obtain ⟨ws, hws, _⟩ := allSome_map
            (fun kv : Bytes × J => (pathValG pm none e kv.2 (k :: p)).map (fun w => (kv.1, w)))
            (fun _ _ => True) kvs
            (fun kv hkv => by
              obtain ⟨w, hw⟩ := ih kv.2 (k :: p) r (h1 kv hkv) hr
              exact ⟨(kv.1, w), by simp [hw], trivial⟩)
          exact ⟨.obj ws, by simp [pathValG, hpm, hws]⟩
  | struct n fs ih =>
    intro v p s hs h
    cases p with
    | nil => simp only [pathValG]; exact leafRT_none_ok _ _ hs
    | cons k p =>
      simp only [fieldType, fieldTypeF_eq] at h
      cases hg : fs.get k with
      | none => simp [hg] at h
      | some t =>
        simp only [hg] at h
        have hm := Fields.get_mem hg
        cases hs with
        | null => exact ⟨.null, by simp [pathValG]⟩
        | struct _ _ kvs h1 h2 =>
          have hsome := h1 k t hm
          cases hgk : getKey k kvs with
          | none => simp [hgk] at hsome
          | some w =>
            have hsw := h2 k t w hm hgk
            cases p with
            | nil =>
              obtain ⟨w', hw'⟩ := leafRT_none_ok t w hsw
              exact ⟨w', by simp [pathValG, hgk, pathFG_eq, hg, hw']⟩
            | cons k' p' =>
              obtain ⟨w', hw'⟩ := ih k t hm w (k' :: p') s hsw h
              exact ⟨w', by simp [pathValG, hgk, pathFG_eq, hg, hw']⟩

/-- the leaf with a destination assignable from the member's type -/
theorem leafRT_sound (t mt : Ty) (w : J) (ht : t.wf = true) (hs : Shape mt w)
    (ha : assignable t mt = true) (hn : noHole t mt = true) :
    ∃ w', leafRT (some t) mt w = some w' ∧ Shape t w' := by
  have hok := filter_ok_of_assignable t ht mt w hs ha hn
  exact ⟨(filter t w).1, by simp [leafRT, hok], shape_filter_of_assignable t ht mt w hs ha hn⟩

/-- `LazyArgumentMap.Path` is sound for the binding checker: a conforming
value, a non-empty path whose compile-time type `s` is assignable (outside the
two C17 holes) to the destination type `t` – the walk with the destination
peeled in lock-step succeeds and delivers a value of the destination type. -/
theorem pathVal_sound (src : Ty) : ∀ (v : J) (p : List Bytes) (s t : Ty), p ≠ [] →
    Shape src v → fieldType src p = some s → t.wf = true → assignable t s = true → noHole t s = true →
      ∃ w, pathVal (some t) src v p = some w ∧ Shape t w := by
  unfold pathVal
  induction src using Ty.induct' with
  | base b =>
    intro v p s t hp _ h
    cases p with
    | nil => exact absurd rfl hp
    | cons k p => simp [fieldType] at h
  | user n =>
    intro v p s t hp _ h
    cases p with
    | nil => exact absurd rfl hp
    | cons k p => simp [fieldType] at h
  | arr e ih =>
    intro v p s t hp hs h ht ha hn
    cases p with
    | nil => exact absurd rfl hp
    | cons k p =>
      simp only [fieldType, Option.map_eq_some_iff] at h
      obtain ⟨r, hr, rfl⟩ := h
      cases t with
      | arr t' =>
        simp only [assignable] at ha
        simp only [noHole] at hn
        have ht' : t'.wf = true := by simpa [Ty.wf] using ht
        cases hs with
        | null => exact ⟨.null, by simp [pathValG], Shape.null _⟩
        | arr _ xs hx =>
          obtain ⟨ws, hws, hall⟩ := allSome_map (fun x => pathValG peelMapD (some t') e x (k :: p))
            (fun _ w => Shape t' w) xs
            (fun x hxm => ih x (k :: p) r t' (by simp) (hx x hxm) hr ht' ha hn)
          refine ⟨.arr ws, by simp [pathValG, peelArrD, hws], Shape.arr _ _ ?_⟩
          intro w hw
          obtain ⟨_, _, h'⟩ := hall w hw
          exact h'
      | base b => simp [assignable] at ha
      | user n => simp [assignable] at ha
      | tmap d => simp [assignable] at ha
      | struct n fs => simp [assignable] at ha
  | tmap e ih =>
    intro v p s t hp hs h ht ha hn
    cases p with
    | nil => exact absurd rfl hp
    | cons k p =>
      simp only [fieldType] at h
      cases hr : fieldType e (k :: p) with
      | none => simp [hr] at h
      | some r =>
        simp only [hr] at h
        split at h
        · cases h
          cases t with
          | tmap t' =>
            simp only [assignable] at ha
            simp only [noHole, Bool.and_eq_true, Bool.or_eq_true, Bool.not_eq_true'] at hn
            have ht' : t'.wf = true := by simpa [Ty.wf] using ht
            cases hs with
            | null => exact ⟨.null, by simp [pathValG], Shape.null _⟩
            | tmap _ kvs h1 h2 =>
              obtain ⟨ws, hws, hall⟩ := allSome_map
                (fun kv : Bytes × J => (pathValG peelMapD (some t') e kv.2 (k :: p)).map (fun w => (kv.1, w)))
                (fun kv w => w.1 = kv.1 ∧ Shape t' w.2) kvs
                (fun kv hkv => by
                  obtain ⟨w, hw, hsw⟩ := ih kv.2 (k :: p) r t' (by simp) (h1 kv hkv) hr ht' ha hn.2
                  exact ⟨(kv.1, w), by simp [hw], rfl, hsw⟩)
              refine ⟨.obj ws, by simp [pathValG, peelMapD, hws], Shape.tmap _ _ ?_ ?_⟩
              · intro w hw
                obtain ⟨_, _, _, h'⟩ := hall w hw
                exact h'
              · intro hd w hw
                obtain ⟨kv, hkv, hk, _⟩ := hall w hw
                rw [hk]
                have hr' : isDirMap r = true := by
                  rcases hn.1 with h' | h'
                  · rw [hd] at h'; cases h'
                  · exact h'
                have : isDirMap e = true := by
                  rw [isDirMap_eq] at hr' ⊢
                  exact filey_of_fieldType e _ _ hr hr'
                exact h2 this kv hkv
          | base b =>
            simp only [assignable, beq_iff_eq] at ha
            subst ha
            cases hs with
            | null => exact ⟨.null, by simp [pathValG], Shape.null _⟩
            | tmap _ kvs h1 _ =>
              obtain ⟨ws, hws, _⟩ := allSome_map
                (fun kv : Bytes × J => (pathValG peelMapD none e kv.2 (k :: p)).map (fun w => (kv.1, w)))
                (fun _ _ => True) kvs
                (fun kv hkv => by
                  obtain ⟨w, hw⟩ := pathVal_none_ok peelMapD rfl e kv.2 (k :: p) r (h1 kv hkv) hr
                  exact ⟨(kv.1, w), by simp [hw], trivial⟩)
              exact ⟨.obj ws, by simp [pathValG, peelMapD, hws], Shape.map _⟩
          | user n => simp [assignable] at ha
          | arr d => simp [assignable] at ha
          | struct n fs => simp [assignable] at ha
        · cases h
  | struct n fs ih =>
    intro v p s t hp hs h ht ha hn
    cases p with
    | nil => exact absurd rfl hp
    | cons k p =>
      simp only [fieldType, fieldTypeF_eq] at h
      cases hg : fs.get k with
      | none => simp [hg] at h
      | some mt =>
        simp only [hg] at h
        have hm := Fields.get_mem hg
        cases hs with
        | null => exact ⟨.null, by simp [pathValG], Shape.null _⟩
        | struct _ _ kvs h1 h2 =>
          have hsome := h1 k mt hm
          cases hgk : getKey k kvs with
          | none => simp [hgk] at hsome
          | some w =>
            have hsw := h2 k mt w hm hgk
            cases p with
            | nil =>
              rw [fieldType_nil] at h
              cases h
              obtain ⟨w', hw', hsw'⟩ := leafRT_sound t s w ht hsw ha hn
              exact ⟨w', by simp [pathValG, hgk, pathFG_eq, hg, hw'], hsw'⟩
            | cons k' p' =>
              obtain ⟨w', hw', hsw'⟩ := ih k mt hm w (k' :: p') s t (by simp) hsw h ht ha hn
              exact ⟨w', by simp [pathValG, hgk, pathFG_eq, hg, hw'], hsw'⟩

/-- a reference to the whole value: `LazyArgumentMap.filter` reports no error -/
theorem wholeRT_sound (t s : Ty) (v : J) (ht : t.wf = true) (hs : Shape s v)
    (ha : assignable t s = true) (hn : noHole t s = true) :
    ∃ w, wholeRT t v = some w ∧ Shape t w := by
  have hok := filter_ok_of_assignable t ht s v hs ha hn
  exact ⟨(filter t v).1, by simp [wholeRT, hok], shape_filter_of_assignable t ht s v hs ha hn⟩

theorem refRT_sound (t s0 : Ty) (v : J) (p : List Bytes) (s : Ty) (ht : t.wf = true) (hs : Shape s0 v)
    (hf : fieldType s0 p = some s) (ha : assignable t s = true) (hn : noHole t s = true) :
    ∃ w, refRT t s0 v p = some w ∧ Shape t w := by
  cases p with
  | nil =>
    rw [fieldType_nil] at hf
    cases hf
    exact wholeRT_sound t s0 v ht hs ha hn
  | cons k p => exact pathVal_sound s0 v (k :: p) s t (by simp) hs hf ht ha hn

/-- an accepted reference, in a conforming store: the run-time resolution
succeeds and delivers a valid value of the parameter type -/
theorem refOk_sound_rt (Γ : Env) (ρ : Store) (hρ : StoreOk Γ ρ) (t : Ty) (hwf : t.wf = true) (e : Exp)
    (he : ∃ id p, e = .self id p ∨ e = .call id p)
    (hv : refOk Γ t e = true) (hh : refHoleFree Γ t e = true) :
    ∃ v, evalLeaf Γ ρ t e = some v ∧ valid t v = true := by
  simp only [refOk] at hv
  simp only [refHoleFree] at hh
  cases hr : refType Γ e with
  | none => simp [hr] at hv
  | some s =>
    simp only [hr, Bool.and_eq_true] at hv hh
    obtain ⟨id, p, rfl | rfl⟩ := he
    · simp only [refType] at hr
      cases hl : Γ.self.lookup id with
      | none => simp [hl] at hr
      | some s0 =>
        simp only [hl] at hr
        obtain ⟨v, hv0, hval⟩ := hρ.1 id s0 hl
        obtain ⟨w, hw, hsw⟩ := refRT_sound t s0 v p s hwf (shape_of_valid s0 v hval) hr hv.2 hh
        exact ⟨w, by simp [evalLeaf, hl, hv0, hw], valid_of_shape _ _ hsw⟩
    · cases hl : Γ.calls.lookup id with
      | none => simp [refType, hl] at hr
      | some sig =>
        obtain ⟨v, hv0, hval⟩ := hρ.2 id sig hl
        have hf : fieldType sig.whole p = some s := by
          cases p with
          | nil =>
            simp only [refType, hl] at hr
            rw [fieldType_nil]
            cases ho : sig.outs <;> simp [ho] at hr <;> rw [hr]
          | cons o p => rw [← refType_call_eq Γ id o p sig hl]; exact hr
        obtain ⟨w, hw, hsw⟩ := refRT_sound t sig.whole v p s hwf (shape_of_valid _ v hval) hf hv.2 hh
        exact ⟨w, by simp [evalLeaf, hl, hv0, hw], valid_of_shape _ _ hsw⟩

end Martian.Typing

namespace Martian.Typing
open Martian.Json Martian.Types

/-! ### `evalT`: literals element-wise at the element type, references through `Path` -/

theorem evalLeaf_of_noRef (Γ : Env) (ρ : Store) (t : Ty) (e : Exp) (h : ∀ id p, e ≠ .self id p ∧ e ≠ .call id p) :
    evalLeaf Γ ρ t e = eval Γ ρ e := by
  cases e <;> simp [evalLeaf] <;> first | exact absurd rfl (h _ _).1 | exact absurd rfl (h _ _).2

theorem evalTF_spec (Γ : Env) (ρ : Store) (kvs : KVs) (Q : Bytes → Ty → J → Prop) : ∀ (fs : Fields),
    (∀ k t, (k, t) ∈ fs.toList → ∃ e v, kvs.get k = some e ∧ evalT Γ ρ t e = some v ∧ Q k t v) →
    ∃ vs, evalTF Γ ρ fs kvs = some vs ∧ vs.map Prod.fst = fs.toList.map Prod.fst ∧
      ∀ k t, (k, t) ∈ fs.toList → ∃ v, (k, v) ∈ vs ∧ Q k t v
  | .nil, _ => ⟨[], by simp [evalTF], by simp [Fields.toList], by simp [Fields.toList]⟩
  | .cons k t r, h => by
    obtain ⟨e, v, he, hev, hq⟩ := h k t (by simp [Fields.toList])
    obtain ⟨vs, hvs, hkeys, hall⟩ := evalTF_spec Γ ρ kvs Q r (fun k' t' hm => h k' t' (by simp [Fields.toList, hm]))
    refine ⟨(k, v) :: vs, by simp [evalTF, he, hev, hvs], by simp [Fields.toList, hkeys], ?_⟩
    intro k' t' hm
    simp only [Fields.toList, List.mem_cons, Prod.mk.injEq] at hm
    rcases hm with ⟨rfl, rfl⟩ | hm
    · exact ⟨v, List.mem_cons_self, hq⟩
    · obtain ⟨w, hw, hqw⟩ := hall k' t' hm
      exact ⟨w, List.mem_cons_of_mem _ hw, hqw⟩

/-- SOUNDNESS against the run time as the code does it: an accepted binding
expression, in a conforming store, is resolved without error (`evalT … = some v`)
to a value that validates cleanly against the parameter type.  (Hypothesis
`holeFree`: C17's `noHole` at every reference.) -/
theorem validExp_sound_rt (Γ : Env) (ρ : Store) (hρ : StoreOk Γ ρ) (t : Ty) :
    t.wf = true → ∀ (e : Exp), e.wf = true → validExp Γ t e = true → holeFree Γ t e = true →
      ∃ v, evalT Γ ρ t e = some v ∧ valid t v = true := by
  induction t using Ty.induct' with
  | base b =>
    intro hwf e hwe hv hh
    simp only [validExp] at hv
    simp only [holeFree] at hh
    simp only [evalT]
    cases e with
    | null => exact ⟨.null, rfl, valid_null _⟩
    | int v =>
      refine ⟨_, rfl, ?_⟩
      simp only [Exp.wf] at hwe
      cases b <;> simp [validBase] at hv <;> simp [valid, check, checkBase, hwe]
    | float m x =>
      refine ⟨_, rfl, ?_⟩
      cases b <;> simp [validBase] at hv
      · simp only [floatIsInt64] at hv
        cases hi : (Num.flt m x).intValue? with
        | none => simp [hi] at hv
        | some i =>
          simp only [hi] at hv
          simp [litFloat, hi, hv, valid, check, checkBase]
      · simp [valid, check, checkBase]
    | str s =>
      refine ⟨_, rfl, ?_⟩
      cases b <;> simp [validBase] at hv <;> simp [valid, check, checkBase]
    | bool x =>
      refine ⟨_, rfl, ?_⟩
      cases b <;> simp [validBase] at hv <;> simp [valid, check, checkBase]
    | arr xs => simp [validBase] at hv
    | map isStruct kvs =>
      simp only [validBase, Bool.and_eq_true, beq_iff_eq, Bool.not_eq_true'] at hv
      obtain ⟨⟨rfl, _⟩, hnr'⟩ := hv
      obtain ⟨vs, hvs⟩ := evalKV_of_noRef Γ ρ kvs hnr'
      exact ⟨.obj vs, by simp [evalLeaf, eval, hvs], by simp [valid, check, checkBase]⟩
    | self id p => exact refOk_sound_rt Γ ρ hρ _ hwf _ ⟨id, p, Or.inl rfl⟩ (by simpa [validBase] using hv) hh
    | call id p => exact refOk_sound_rt Γ ρ hρ _ hwf _ ⟨id, p, Or.inr rfl⟩ (by simpa [validBase] using hv) hh
  | user n =>
    intro hwf e hwe hv hh
    simp only [evalT]
    cases e with
    | null => exact ⟨.null, rfl, valid_null _⟩
    | str s => exact ⟨_, rfl, by simp [valid, check]⟩
    | self id p => exact refOk_sound_rt Γ ρ hρ _ hwf _ ⟨id, p, Or.inl rfl⟩ (by simpa [validExp] using hv) (by simpa [holeFree] using hh)
    | call id p => exact refOk_sound_rt Γ ρ hρ _ hwf _ ⟨id, p, Or.inr rfl⟩ (by simpa [validExp] using hv) (by simpa [holeFree] using hh)
    | _ => simp [validExp] at hv
  | arr t ih =>
    intro hwf e hwe hv hh
    have ih := ih (by simpa [Ty.wf] using hwf)
    cases e with
    | null => exact ⟨.null, by simp [evalT, evalLeaf, eval], valid_null _⟩
    | arr xs =>
      simp only [validExp, List.all_eq_true] at hv
      simp only [holeFree, List.all_eq_true] at hh
      simp only [Exp.wf] at hwe
      obtain ⟨ws, hws, hall⟩ := allSome_map (fun x => evalT Γ ρ t x) (fun _ w => valid t w = true) xs.toList
        (fun x hx => ih x (Exps.wf_mem hwe x hx) (hv x hx) (hh x hx))
      refine ⟨.arr ws, by simp [evalT, hws], valid_of_shape _ _ (Shape.arr _ _ ?_)⟩
      intro w hw
      obtain ⟨_, _, h'⟩ := hall w hw
      exact shape_of_valid _ _ h'
    | self id p => exact refOk_sound_rt Γ ρ hρ _ hwf _ ⟨id, p, Or.inl rfl⟩ (by simpa [validExp] using hv) (by simpa [holeFree] using hh)
    | call id p => exact refOk_sound_rt Γ ρ hρ _ hwf _ ⟨id, p, Or.inr rfl⟩ (by simpa [validExp] using hv) (by simpa [holeFree] using hh)
    | _ => simp [validExp] at hv
  | tmap t ih =>
    intro hwf e hwe hv hh
    have ih := ih (by simpa [Ty.wf] using hwf)
    cases e with
    | null => exact ⟨.null, by simp [evalT, evalLeaf, eval], valid_null _⟩
    | map isStruct kvs =>
      cases isStruct with
      | true => simp [validExp] at hv
      | false =>
        simp only [validExp, List.all_eq_true, Bool.and_eq_true] at hv
        simp only [holeFree, List.all_eq_true] at hh
        simp only [Exp.wf, Bool.and_eq_true] at hwe
        obtain ⟨ws, hws, hall⟩ := allSome_map
          (fun kv : Bytes × Exp => (evalT Γ ρ t kv.2).map (fun w => (kv.1, w)))
          (fun kv w => w.1 = kv.1 ∧ valid t w.2 = true) kvs.toList
          (fun kv hkv => by
            obtain ⟨w, hw, hvw⟩ := ih kv.2 (KVs.wf_mem hwe.1 kv hkv) (hv kv hkv).1 (hh kv hkv)
            exact ⟨(kv.1, w), by simp [hw], rfl, hvw⟩)
        refine ⟨.obj ws, by simp [evalT, hws], valid_of_shape _ _ (Shape.tmap _ _ ?_ ?_)⟩
        · intro w hw
          obtain ⟨_, _, _, h'⟩ := hall w hw
          exact shape_of_valid _ _ h'
        · intro hd w hw
          obtain ⟨kv, hkv, hk, _⟩ := hall w hw
          rw [hk]
          have := (hv kv hkv).2
          simpa [hd] using this
    | self id p => exact refOk_sound_rt Γ ρ hρ _ hwf _ ⟨id, p, Or.inl rfl⟩ (by simpa [validExp] using hv) (by simpa [holeFree] using hh)
    | call id p => exact refOk_sound_rt Γ ρ hρ _ hwf _ ⟨id, p, Or.inr rfl⟩ (by simpa [validExp] using hv) (by simpa [holeFree] using hh)
    | _ => simp [validExp] at hv
  | struct n fs ih =>
    intro hwf e hwe hv hh
    have hwf' := Fields.wf_iff.mp (by simpa [Ty.wf] using hwf)
    cases e with
    | null => exact ⟨.null, by simp [evalT, evalLeaf, eval], valid_null _⟩
    | map isStruct kvs =>
      simp only [validExp, Bool.and_eq_true, Bool.not_eq_true'] at hv
      simp only [holeFree] at hh
      simp only [Exp.wf, Bool.and_eq_true, decide_eq_true_eq] at hwe
      have hvf := (validFields_iff Γ fs kvs).mp hv.1
      have hhf := (holeFreeFields_iff Γ fs kvs).mp hh
      obtain ⟨vs, hvs, hkeys, hvals⟩ := evalTF_spec Γ ρ kvs (fun _ t v => valid t v = true) fs (by
        intro k t hkt
        obtain ⟨e, he, hve⟩ := hvf k t hkt
        obtain ⟨v, h1, h2⟩ := ih k t hkt (hwf'.2 k t hkt) e (KVs.wf_mem hwe.1 (k, e) (KVs.get_mem he))
          hve (hhf k t hkt e he)
        exact ⟨e, v, he, h1, h2⟩)
      refine ⟨.obj vs, by simp [evalT, hvs], ?_⟩
      simp only [valid, check, beq_iff_eq, checkFields_ok_iff]
      intro k t hkt
      obtain ⟨v, hmem, hv'⟩ := hvals k t hkt
      exact ⟨v, getKey_of_mem_nodup (by rw [hkeys]; exact hwf'.1) hmem, by simpa [valid] using hv'⟩
    | self id p => exact refOk_sound_rt Γ ρ hρ _ hwf _ ⟨id, p, Or.inl rfl⟩ (by simpa [validExp] using hv) (by simpa [holeFree] using hh)
    | call id p => exact refOk_sound_rt Γ ρ hρ _ hwf _ ⟨id, p, Or.inr rfl⟩ (by simpa [validExp] using hv) (by simpa [holeFree] using hh)
    | _ => simp [validExp] at hv

end Martian.Typing

namespace Martian.Typing
open Martian.Json Martian.Types

/-! ### bindings, calls, return statements -/

theorem evalT_self (Γ : Env) (ρ : Store) (t : Ty) (id : Bytes) (p : List Bytes) :
    evalT Γ ρ t (.self id p) = evalLeaf Γ ρ t (.self id p) := by
  cases t <;> simp [evalT]

theorem evalT_call (Γ : Env) (ρ : Store) (t : Ty) (id : Bytes) (p : List Bytes) :
    evalT Γ ρ t (.call id p) = evalLeaf Γ ρ t (.call id p) := by
  cases t <;> simp [evalT]

/-- a reference whose compile-time type is assignable to `t` (whatever the
`(ArrayDim, MapDim)` pre-check says) resolves to a valid value of `t` -/
theorem ref_sound_rt (Γ : Env) (ρ : Store) (hρ : StoreOk Γ ρ) (t : Ty) (hwf : t.wf = true) (e : Exp) (s : Ty)
    (he : ∃ id p, e = .self id p ∨ e = .call id p) (hr : refType Γ e = some s)
    (ha : assignable t s = true) (hn : noHole t s = true) :
    ∃ v, evalT Γ ρ t e = some v ∧ valid t v = true := by
  obtain ⟨id, p, rfl | rfl⟩ := he
  · rw [evalT_self]
    simp only [refType] at hr
    cases hl : Γ.self.lookup id with
    | none => simp [hl] at hr
    | some s0 =>
      simp only [hl] at hr
      obtain ⟨v, hv0, hval⟩ := hρ.1 id s0 hl
      obtain ⟨w, hw, hsw⟩ := refRT_sound t s0 v p s hwf (shape_of_valid s0 v hval) hr ha hn
      exact ⟨w, by simp [evalLeaf, hl, hv0, hw], valid_of_shape _ _ hsw⟩
  · rw [evalT_call]
    cases hl : Γ.calls.lookup id with
    | none => simp [refType, hl] at hr
    | some sig =>
      obtain ⟨v, hv0, hval⟩ := hρ.2 id sig hl
      have hf : fieldType sig.whole p = some s := by
        cases p with
        | nil =>
          simp only [refType, hl] at hr
          rw [fieldType_nil]
          cases ho : sig.outs <;> simp [ho] at hr <;> rw [hr]
        | cons o p => rw [← refType_call_eq Γ id o p sig hl]; exact hr
      obtain ⟨w, hw, hsw⟩ := refRT_sound t sig.whole v p s hwf (shape_of_valid _ v hval) hf ha hn
      exact ⟨w, by simp [evalLeaf, hl, hv0, hw], valid_of_shape _ _ hsw⟩

theorem plain_sound_rt (Γ : Env) (ρ : Store) (hρ : StoreOk Γ ρ) (t : Ty) (ht : t.wf = true) (e : Exp)
    (he : e.wf = true) (hv : validBind Γ t (.plain e) = true)
    (hh : holeFree Γ t (bindExp Γ t e) = true) :
    ∃ v, evalT Γ ρ t (bindExp Γ t e) = some v ∧ valid t v = true := by
  simp only [validBind, Bool.or_eq_true] at hv
  by_cases hve : validExp Γ t e = true
  · have hb : bindExp Γ t e = e := by
      cases e with
      | call id p => cases p <;> simp [bindExp, hve]
      | _ => simp [bindExp]
    rw [hb] at hh ⊢
    exact validExp_sound_rt Γ ρ hρ t ht e he hve hh
  · have hd : defaultRewrite Γ t e = true := by
      rcases hv with h | h
      · exact absurd h hve
      · exact h
    cases e with
    | call id p =>
      cases p with
      | nil =>
        have hb : bindExp Γ t (.call id []) = .call id [defaultName] := by simp [bindExp, hve]
        rw [hb] at hh ⊢
        rw [holeFree_call] at hh
        simp only [defaultRewrite, Bool.and_eq_true] at hd
        simp only [refHoleFree] at hh
        cases hr : refType Γ (.call id [defaultName]) with
        | none => simp [hr] at hd
        | some s =>
          simp only [hr, Bool.and_eq_true] at hd hh
          exact ref_sound_rt Γ ρ hρ t ht _ s ⟨id, [defaultName], Or.inr rfl⟩ hr hd.2.2 hh
      | cons o p => simp [defaultRewrite] at hd
    | _ => simp [defaultRewrite] at hd

theorem elems_shape_arr (t : Ty) (v : J) (h : valid (.arr t) v = true) :
    ∃ xs, elems v = some xs ∧ ∀ x ∈ xs, valid t x = true := by
  cases shape_of_valid _ _ h with
  | null => exact ⟨[], rfl, by simp⟩
  | arr _ xs hx => exact ⟨xs, rfl, fun x hxm => valid_of_shape _ _ (hx x hxm)⟩

theorem elems_shape_tmap (t : Ty) (v : J) (h : valid (.tmap t) v = true) :
    ∃ xs, elems v = some xs ∧ ∀ x ∈ xs, valid t x = true := by
  cases shape_of_valid _ _ h with
  | null => exact ⟨[], rfl, by simp⟩
  | tmap _ kvs h1 _ =>
    refine ⟨kvs.map Prod.snd, rfl, ?_⟩
    intro x hxm
    obtain ⟨kv, hkv, rfl⟩ := List.mem_map.mp hxm
    exact valid_of_shape _ _ (h1 kv hkv)

/-! ### a typed map that is only split over: its elements, not its keys -/

/-- `null`, or an object all of whose values have the shape of `t` -/
def ElemsOk (t : Ty) (w : J) : Prop := w = .null ∨ ∃ kvs, w = .obj kvs ∧ ∀ kv ∈ kvs, Shape t kv.2

theorem filter_tmap_elems (t s : Ty) (v : J) (ht : t.wf = true) (hs : Shape (.tmap s) v)
    (ha : assignable t s = true) (hn : noHole t s = true) :
    (filter (.tmap t) v).2 = .ok ∧ ElemsOk t (filter (.tmap t) v).1 := by
  cases hs with
  | null => rw [filter_null]; exact ⟨rfl, Or.inl rfl⟩
  | tmap _ kvs h1 _ =>
    by_cases hc : canFilter t = true
    · simp only [filter, hc, Bool.not_true, Bool.false_eq_true, if_false]
      refine ⟨?_, Or.inr ⟨_, rfl, ?_⟩⟩
      · apply worstF_eq_ok
        intro e he
        obtain ⟨kv, hkv, rfl⟩ := List.mem_map.mp he
        exact filter_ok_of_assignable t ht s kv.2 (h1 kv hkv) ha hn
      · intro y hy
        obtain ⟨kv, hkv, rfl⟩ := List.mem_map.mp hy
        exact shape_filter_of_assignable t ht s kv.2 (h1 kv hkv) ha hn
    · have hc' : canFilter t = false := by simpa using hc
      simp only [filter, hc', Bool.not_false, if_true]
      refine ⟨trivial, Or.inr ⟨kvs, rfl, ?_⟩⟩
      intro kv hkv
      have := shape_filter_of_assignable t ht s kv.2 (h1 kv hkv) ha hn
      rwa [filter_fst_of_not_canFilter t kv.2 hc'] at this

theorem pathVal_tmap_elems (src : Ty) : ∀ (v : J) (p : List Bytes) (s t : Ty), p ≠ [] →
    Shape src v → fieldType src p = some (.tmap s) → t.wf = true → assignable t s = true → noHole t s = true →
      ∃ w, pathVal (some (.tmap t)) src v p = some w ∧ ElemsOk t w := by
  unfold pathVal
  induction src using Ty.induct' with
  | base b =>
    intro v p s t hp _ h
    cases p with
    | nil => exact absurd rfl hp
    | cons k p => simp [fieldType] at h
  | user n =>
    intro v p s t hp _ h
    cases p with
    | nil => exact absurd rfl hp
    | cons k p => simp [fieldType] at h
  | arr e _ =>
    intro v p s t hp _ h
    cases p with
    | nil => exact absurd rfl hp
    | cons k p =>
      simp only [fieldType, Option.map_eq_some_iff] at h
      obtain ⟨r, _, hr⟩ := h
      cases hr
  | tmap e _ =>
    intro v p s t hp hs h ht ha hn
    cases p with
    | nil => exact absurd rfl hp
    | cons k p =>
      simp only [fieldType] at h
      cases hr : fieldType e (k :: p) with
      | none => simp [hr] at h
      | some r =>
        simp only [hr] at h
        split at h
        · simp only [Option.some.injEq, Ty.tmap.injEq] at h
          subst h
          cases hs with
          | null => exact ⟨.null, by simp [pathValG], Or.inl rfl⟩
          | tmap _ kvs h1 _ =>
            obtain ⟨ws, hws, hall⟩ := allSome_map
              (fun kv : Bytes × J => (pathValG peelMapD (some t) e kv.2 (k :: p)).map (fun w => (kv.1, w)))
              (fun _ w => Shape t w.2) kvs
              (fun kv hkv => by
                obtain ⟨w, hw, hsw⟩ := pathVal_sound e kv.2 (k :: p) r t (by simp) (h1 kv hkv) hr ht ha hn
                exact ⟨(kv.1, w), by simp [pathVal] at hw; simp [hw], hsw⟩)
            refine ⟨.obj ws, by simp [pathValG, peelMapD, hws], Or.inr ⟨ws, rfl, ?_⟩⟩
            intro w hw
            obtain ⟨_, _, h'⟩ := hall w hw
            exact h'
        · cases h
  | struct n fs ih =>
    intro v p s t hp hs h ht ha hn
    cases p with
    | nil => exact absurd rfl hp
    | cons k p =>
      simp only [fieldType, fieldTypeF_eq] at h
      cases hg : fs.get k with
      | none => simp [hg] at h
      | some mt =>
        simp only [hg] at h
        have hm := Fields.get_mem hg
        cases hs with
        | null => exact ⟨.null, by simp [pathValG], Or.inl rfl⟩
        | struct _ _ kvs h1 h2 =>
          have hsome := h1 k mt hm
          cases hgk : getKey k kvs with
          | none => simp [hgk] at hsome
          | some w =>
            have hsw := h2 k mt w hm hgk
            cases p with
            | nil =>
              rw [fieldType_nil] at h
              cases h
              obtain ⟨hok, hel⟩ := filter_tmap_elems t s w ht hsw ha hn
              exact ⟨(filter (.tmap t) w).1, by simp [pathValG, hgk, pathFG_eq, hg, leafRT, hok], hel⟩
            | cons k' p' =>
              obtain ⟨w', hw', hel⟩ := ih k mt hm w (k' :: p') s t (by simp) hsw h ht ha hn
              exact ⟨w', by simp [pathValG, hgk, pathFG_eq, hg, hw'], hel⟩

theorem refRT_tmap_elems (t s0 : Ty) (v : J) (p : List Bytes) (s : Ty) (ht : t.wf = true) (hs : Shape s0 v)
    (hf : fieldType s0 p = some (.tmap s)) (ha : assignable t s = true) (hn : noHole t s = true) :
    ∃ w, refRT (.tmap t) s0 v p = some w ∧ ElemsOk t w := by
  cases p with
  | nil =>
    rw [fieldType_nil] at hf
    cases hf
    obtain ⟨hok, hel⟩ := filter_tmap_elems t s v ht hs ha hn
    exact ⟨_, by simp [refRT, wholeRT, hok], hel⟩
  | cons k p => exact pathVal_tmap_elems s0 v (k :: p) s t (by simp) hs hf ht ha hn

theorem elems_of_elemsOk (t : Ty) (w : J) (h : ElemsOk t w) :
    ∃ xs, elems w = some xs ∧ ∀ x ∈ xs, valid t x = true := by
  rcases h with rfl | ⟨kvs, rfl, hk⟩
  · exact ⟨[], rfl, by simp⟩
  · refine ⟨kvs.map Prod.snd, rfl, ?_⟩
    intro x hx
    obtain ⟨kv, hkv, rfl⟩ := List.mem_map.mp hx
    exact valid_of_shape _ _ (hk kv hkv)

theorem split_arr_rt (Γ : Env) (ρ : Store) (hρ : StoreOk Γ ρ) (t : Ty) (ht : t.wf = true) (e : Exp) (s0 : Ty)
    (he : ∃ id p, e = .self id p ∨ e = .call id p) (hr : refType Γ e = some (.arr s0))
    (ha : assignable t s0 = true) (hn : noHole t s0 = true) :
    ∃ vs, (evalT Γ ρ (.arr t) e).bind elems = some vs ∧ ∀ v ∈ vs, valid t v = true := by
  obtain ⟨v, hev, hval⟩ := ref_sound_rt Γ ρ hρ (.arr t) (by simpa [Ty.wf] using ht) e (.arr s0)
    he hr (by simpa [assignable] using ha) (by simpa [noHole] using hn)
  obtain ⟨xs, hxs, hall⟩ := elems_shape_arr t v hval
  exact ⟨xs, by simp [hev, hxs], hall⟩

theorem split_tmap_rt (Γ : Env) (ρ : Store) (hρ : StoreOk Γ ρ) (t : Ty) (ht : t.wf = true) (e : Exp) (s0 : Ty)
    (he : ∃ id p, e = .self id p ∨ e = .call id p) (hr : refType Γ e = some (.tmap s0))
    (ha : assignable t s0 = true) (hn : noHole t s0 = true) :
    ∃ vs, (evalT Γ ρ (.tmap t) e).bind elems = some vs ∧ ∀ v ∈ vs, valid t v = true := by
  obtain ⟨id, p, rfl | rfl⟩ := he
  · rw [evalT_self]
    simp only [refType] at hr
    cases hl : Γ.self.lookup id with
    | none => simp [hl] at hr
    | some sd =>
      simp only [hl] at hr
      obtain ⟨v, hv0, hval⟩ := hρ.1 id sd hl
      obtain ⟨w, hw, hel⟩ := refRT_tmap_elems t sd v p s0 ht (shape_of_valid sd v hval) hr ha hn
      obtain ⟨xs, hxs, hall⟩ := elems_of_elemsOk t w hel
      exact ⟨xs, by simp [evalLeaf, hl, hv0, hw, hxs], hall⟩
  · rw [evalT_call]
    cases hl : Γ.calls.lookup id with
    | none => simp [refType, hl] at hr
    | some sig =>
      obtain ⟨v, hv0, hval⟩ := hρ.2 id sig hl
      have hf : fieldType sig.whole p = some (.tmap s0) := by
        cases p with
        | nil =>
          simp only [refType, hl] at hr
          rw [fieldType_nil]
          cases ho : sig.outs <;> simp [ho] at hr <;> rw [hr]
        | cons o p => rw [← refType_call_eq Γ id o p sig hl]; exact hr
      obtain ⟨w, hw, hel⟩ := refRT_tmap_elems t sig.whole v p s0 ht (shape_of_valid _ v hval) hf ha hn
      obtain ⟨xs, hxs, hall⟩ := elems_of_elemsOk t w hel
      exact ⟨xs, by simp [evalLeaf, hl, hv0, hw, hxs], hall⟩

theorem split_ref_sound_rt (Γ : Env) (ρ : Store) (hρ : StoreOk Γ ρ) (t : Ty) (ht : t.wf = true) (e : Exp)
    (he : ∃ id p, e = .self id p ∨ e = .call id p)
    (hv : validBind Γ t (.split e) = true) (hh : bindHoleFreeT Γ t (.split e) = true) :
    ∃ vs, deliveredT Γ ρ t (.split e) = some vs ∧ ∀ v ∈ vs, valid t v = true := by
  obtain ⟨id, p, rfl | rfl⟩ := he
  · simp only [validBind] at hv
    simp only [bindHoleFreeT] at hh
    simp only [deliveredT]
    cases hr : refType Γ (.self id p) with
    | none => simp [hr] at hv
    | some s =>
      cases s with
      | arr s0 =>
        simp only [hr, peel] at hv hh ⊢
        exact split_arr_rt Γ ρ hρ t ht _ s0 ⟨id, p, Or.inl rfl⟩ hr hv hh
      | tmap s0 =>
        simp only [hr, peel] at hv hh ⊢
        exact split_tmap_rt Γ ρ hρ t ht _ s0 ⟨id, p, Or.inl rfl⟩ hr hv hh
      | base b => simp [hr, peel] at hv
      | user n => simp [hr, peel] at hv
      | struct n fs => simp [hr, peel] at hv
  · simp only [validBind] at hv
    simp only [bindHoleFreeT] at hh
    simp only [deliveredT]
    cases hr : refType Γ (.call id p) with
    | none => simp [hr] at hv
    | some s =>
      cases s with
      | arr s0 =>
        simp only [hr, peel] at hv hh ⊢
        exact split_arr_rt Γ ρ hρ t ht _ s0 ⟨id, p, Or.inr rfl⟩ hr hv hh
      | tmap s0 =>
        simp only [hr, peel] at hv hh ⊢
        exact split_tmap_rt Γ ρ hρ t ht _ s0 ⟨id, p, Or.inr rfl⟩ hr hv hh
      | base b => simp [hr, peel] at hv
      | user n => simp [hr, peel] at hv
      | struct n fs => simp [hr, peel] at hv

/-- every element a binding hands to the callee, as the run time resolves it,
conforms to the parameter type -/
theorem bind_sound_rt (Γ : Env) (ρ : Store) (hρ : StoreOk Γ ρ) (t : Ty) (ht : t.wf = true) (b : Bind)
    (hb : b.wf = true) (hv : validBind Γ t b = true) (hh : bindHoleFreeT Γ t b = true) :
    ∃ vs, deliveredT Γ ρ t b = some vs ∧ ∀ v ∈ vs, valid t v = true := by
  cases b with
  | plain e =>
    obtain ⟨v, hev, hval⟩ := plain_sound_rt Γ ρ hρ t ht e hb hv hh
    exact ⟨[v], by simp [deliveredT, hev], by simpa using hval⟩
  | split e =>
    cases e with
    | arr xs =>
      simp only [validBind, Bool.and_eq_true, List.all_eq_true] at hv
      simp only [bindHoleFreeT, List.all_eq_true] at hh
      simp only [Bind.wf, Exp.wf] at hb
      obtain ⟨ws, hws, hall⟩ := allSome_map (fun x => evalT Γ ρ t x) (fun _ w => valid t w = true) xs.toList
        (fun x hx => validExp_sound_rt Γ ρ hρ t ht x (Exps.wf_mem hb x hx) (hv.2 x hx) (hh x hx))
      refine ⟨ws, by simp [deliveredT, hws], ?_⟩
      intro w hw
      obtain ⟨_, _, h'⟩ := hall w hw
      exact h'
    | map isStruct kvs =>
      cases isStruct with
      | true => simp [validBind] at hv
      | false =>
        simp only [validBind, Bool.and_eq_true, List.all_eq_true] at hv
        simp only [bindHoleFreeT, List.all_eq_true] at hh
        simp only [Bind.wf, Exp.wf, Bool.and_eq_true] at hb
        obtain ⟨ws, hws, hall⟩ := allSome_map (fun kv : Bytes × Exp => evalT Γ ρ t kv.2)
          (fun _ w => valid t w = true) kvs.toList
          (fun kv hkv => validExp_sound_rt Γ ρ hρ t ht kv.2 (KVs.wf_mem hb.1 kv hkv) (hv.2 kv hkv) (hh kv hkv))
        refine ⟨ws, by simp [deliveredT, hws], ?_⟩
        intro w hw
        obtain ⟨_, _, h'⟩ := hall w hw
        exact h'
    | self id p => exact split_ref_sound_rt Γ ρ hρ t ht _ ⟨id, p, Or.inl rfl⟩ hv hh
    | call id p => exact split_ref_sound_rt Γ ρ hρ t ht _ ⟨id, p, Or.inr rfl⟩ hv hh
    | _ => simp [validBind] at hv

theorem retValueT_sound (Γ : Env) (ρ : Store) (hρ : StoreOk Γ ρ) (bs : List (Bytes × Bind)) :
    ∀ (fs : Fields),
      (∀ k t, (k, t) ∈ fs.toList → t.wf = true ∧ ∃ e, bs.lookup k = some (.plain e) ∧ e.wf = true ∧
          validBind Γ t (.plain e) = true ∧ holeFree Γ t (bindExp Γ t e) = true) →
      ∃ vs, retValueT Γ ρ bs fs = some vs ∧ vs.map Prod.fst = fs.toList.map Prod.fst ∧
        ∀ k t, (k, t) ∈ fs.toList → ∃ v, (k, v) ∈ vs ∧ valid t v = true
  | .nil, _ => ⟨[], by simp [retValueT], by simp [Fields.toList], by simp [Fields.toList]⟩
  | .cons k t r, h => by
    obtain ⟨htw, e, hl, hew, hvb, hhf⟩ := h k t (by simp [Fields.toList])
    obtain ⟨v, hev, hval⟩ := plain_sound_rt Γ ρ hρ t htw e hew hvb hhf
    obtain ⟨vs, hvs, hkeys, hall⟩ := retValueT_sound Γ ρ hρ bs r
      (fun k' t' hm => h k' t' (by simp [Fields.toList, hm]))
    refine ⟨(k, v) :: vs, by simp [retValueT, hl, hev, hvs], by simp [Fields.toList, hkeys], ?_⟩
    intro k' t' hm
    simp only [Fields.toList, List.mem_cons, Prod.mk.injEq] at hm
    rcases hm with ⟨rfl, rfl⟩ | hm
    · exact ⟨_, List.mem_cons_self, hval⟩
    · obtain ⟨w, hw, hvw⟩ := hall k' t' hm
      exact ⟨w, List.mem_cons_of_mem _ hw, hvw⟩

end Martian.Typing
