/-
C19 — fuel stability of the resolved-call-graph model: when the resolution with
explicit fuel exhaustion (`deepGraphO`) succeeds at a budget, the fuelled
`deepGraphAt` gives the same graph at that and at every larger budget.
-/
import Martian.RefactorGraph
import Proofs.RefactorGraph

namespace Proofs.RefactorGraph
open Martian.Refactor

def Agree {α β : Type} (fO : α → Option β) (f : α → β) : Prop := ∀ a v, fO a = some v → f a = v
def LeO {α β : Type} (fO fO' : α → Option β) : Prop := ∀ a v, fO a = some v → fO' a = some v

theorem substRefsO_sound (fO : Ref → Option RExp) (f : Ref → RExp) (h : Agree fO f) :
    ∀ (e : Exp) (w : RExp), substRefsO fO e = some w → substRefs f e = w := by
  intro e
  induction e with
  | lit s => intro w hw; simp [substRefsO] at hw; simp [substRefs, hw]
  | ref r => intro w hw; exact h r w hw
  | split e ih =>
    intro w hw
    simp only [substRefsO, Option.map_eq_some_iff] at hw
    obtain ⟨v, hv, rfl⟩ := hw
    simp [substRefs, ih v hv]
  | arr es ih =>
    intro w hw
    simp only [substRefsO, Option.map_eq_some_iff] at hw
    obtain ⟨v, hv, rfl⟩ := hw
    simp [substRefs, ih v hv]
  | map b es ih =>
    intro w hw
    simp only [substRefsO, Option.map_eq_some_iff] at hw
    obtain ⟨v, hv, rfl⟩ := hw
    simp [substRefs, ih v hv]
  | nil => intro w hw; simp [substRefsO] at hw; simp [substRefs, hw]
  | cons k hd tl ih1 ih2 =>
    intro w hw
    simp only [substRefsO] at hw
    cases h1 : substRefsO fO hd with
    | none => simp [h1] at hw
    | some a =>
      cases h2 : substRefsO fO tl with
      | none => simp [h1, h2] at hw
      | some b =>
        simp only [h1, h2, Option.some.injEq] at hw
        subst hw
        simp [substRefs, ih1 a h1, ih2 b h2]

theorem substRefsO_mono (fO fO' : Ref → Option RExp) (h : LeO fO fO') :
    ∀ (e : Exp) (w : RExp), substRefsO fO e = some w → substRefsO fO' e = some w := by
  intro e
  induction e with
  | lit s => intro w hw; simpa [substRefsO] using hw
  | ref r => intro w hw; exact h r w hw
  | split e ih =>
    intro w hw
    simp only [substRefsO, Option.map_eq_some_iff] at hw ⊢
    obtain ⟨v, hv, rfl⟩ := hw
    exact ⟨v, ih v hv, rfl⟩
  | arr es ih =>
    intro w hw
    simp only [substRefsO, Option.map_eq_some_iff] at hw ⊢
    obtain ⟨v, hv, rfl⟩ := hw
    exact ⟨v, ih v hv, rfl⟩
  | map b es ih =>
    intro w hw
    simp only [substRefsO, Option.map_eq_some_iff] at hw ⊢
    obtain ⟨v, hv, rfl⟩ := hw
    exact ⟨v, ih v hv, rfl⟩
  | nil => intro w hw; simpa [substRefsO] using hw
  | cons k hd tl ih1 ih2 =>
    intro w hw
    simp only [substRefsO] at hw ⊢
    cases h1 : substRefsO fO hd with
    | none => simp [h1] at hw
    | some a =>
      cases h2 : substRefsO fO tl with
      | none => simp [h1, h2] at hw
      | some b =>
        simp only [h1, h2] at hw
        simp only [ih1 a h1, ih2 b h2]
        exact hw

theorem lookupRefO_agree (self : Env) (oO : String → Option RExp) (o : String → RExp) (h : Agree oO o) :
    Agree (lookupRefO self oO) (lookupRef self o) := by
  intro r v hv
  unfold lookupRefO at hv
  unfold lookupRef
  cases hk : r.kind with
  | self => simp only [hk, Option.map_some, Option.some.injEq] at hv; simpa [hk] using hv
  | call =>
    simp only [hk, Option.map_eq_some_iff] at hv
    obtain ⟨u, hu, rfl⟩ := hv
    simp [h r.id u hu]

theorem lookupRefO_le (self : Env) (oO oO' : String → Option RExp) (h : LeO oO oO') :
    LeO (lookupRefO self oO) (lookupRefO self oO') := by
  intro r v hv
  unfold lookupRefO at hv ⊢
  cases hk : r.kind with
  | self => simpa [hk] using hv
  | call =>
    simp only [hk, Option.map_eq_some_iff] at hv ⊢
    obtain ⟨u, hu, rfl⟩ := hv
    exact ⟨u, h r.id u hu, rfl⟩

theorem resolveBindsO_sound (ti : TypeInfo) (tys : Members) (fO : Ref → Option RExp) (f : Ref → RExp)
    (h : Agree fO f) : ∀ (bs : List Bind) (env : Env), resolveBindsO ti tys fO bs = some env →
      resolveBinds ti tys f bs = env := by
  intro bs
  induction bs with
  | nil => intro env he; simp [resolveBindsO] at he; simp [resolveBinds, he]
  | cons b t ih =>
    intro env he
    simp only [resolveBindsO] at he
    cases h1 : substRefsO fO b.exp with
    | none => simp [h1] at he
    | some v =>
      cases h2 : resolveBindsO ti tys fO t with
      | none => simp [h1, h2] at he
      | some rest =>
        simp only [h1, h2, Option.some.injEq] at he
        subst he
        have := ih rest h2
        simp only [resolveBinds] at this ⊢
        simp [List.map_cons, this, substRefsO_sound fO f h b.exp v h1]

theorem resolveBindsO_mono (ti : TypeInfo) (tys : Members) (fO fO' : Ref → Option RExp)
    (h : LeO fO fO') : ∀ (bs : List Bind) (env : Env), resolveBindsO ti tys fO bs = some env →
      resolveBindsO ti tys fO' bs = some env := by
  intro bs
  induction bs with
  | nil => intro env he; simpa [resolveBindsO] using he
  | cons b t ih =>
    intro env he
    simp only [resolveBindsO] at he ⊢
    cases h1 : substRefsO fO b.exp with
    | none => simp [h1] at he
    | some v =>
      cases h2 : resolveBindsO ti tys fO t with
      | none => simp [h1, h2] at he
      | some rest =>
        simp only [h1, h2] at he
        simp only [substRefsO_mono fO fO' h b.exp v h1, ih rest h2]
        exact he

section Out
variable (ti : TypeInfo) (p : Program)

theorem callOutputsO_sound : ∀ n pipe self pre,
    Agree (callOutputsO ti p n pipe self pre) (callOutputs ti p n pipe self pre) := by
  intro n
  induction n with
  | zero => intro pipe self pre id v hv; simp [callOutputsO] at hv
  | succ n ih =>
    intro pipe self pre id v hv
    rw [callOutputsO] at hv
    rw [callOutputs]
    cases hk : pipe.calls.find? (·.id == id) with
    | none => simp only [hk, Option.some.injEq] at hv; simpa [hk] using hv
    | some k =>
      simp only [hk] at hv ⊢
      cases hd : p.find? k.decId with
      | none => simp only [hd, Option.some.injEq] at hv; simpa [hd] using hv
      | some d =>
        simp only [hd] at hv ⊢
        cases hp : d.isPipe with
        | false => simp only [hp, Bool.not_false, if_true, Option.some.injEq] at hv; simpa [hp] using hv
        | true =>
          simp only [hp, Bool.not_true, Bool.false_eq_true, if_false] at hv ⊢
          cases hr : d.ret.isEmpty with
          | true => simp only [hr, if_true, Option.some.injEq] at hv; simpa [hr] using hv
          | false =>
            simp only [hr, Bool.false_eq_true, if_false] at hv ⊢
            cases hi : resolveBindsO ti (insOf ti d.name) (lookupRefO self (callOutputsO ti p n pipe self pre))
                (expandWild ti pipe d.ins k.binds) with
            | none => simp [hi] at hv
            | some ins =>
              simp only [hi] at hv
              cases henv : resolveBindsO ti (outsOf ti d.name) (lookupRefO ins (callOutputsO ti p n d ins (pre ++ [id])))
                  (expandWild ti d (outNames d) d.ret) with
              | none => simp [henv] at hv
              | some env =>
              simp only [henv, Option.map_some, Option.some.injEq] at hv
              subst hv
              have h1 := resolveBindsO_sound ti _ _ _ (lookupRefO_agree self _ _ (ih pipe self pre)) _ ins hi
              unfold callIns pipeOuts
              rw [h1]
              have h2 := resolveBindsO_sound ti _ _ _ (lookupRefO_agree ins _ _ (ih d ins (pre ++ [id]))) _ env henv
              rw [h2]

theorem callOutputsO_mono : ∀ n pipe self pre,
    LeO (callOutputsO ti p n pipe self pre) (callOutputsO ti p (n + 1) pipe self pre) := by
  intro n
  induction n with
  | zero => intro pipe self pre id v hv; simp [callOutputsO] at hv
  | succ n ih =>
    intro pipe self pre id v hv
    rw [callOutputsO] at hv ⊢
    cases hk : pipe.calls.find? (·.id == id) with
    | none => simpa [hk] using hv
    | some k =>
      simp only [hk] at hv ⊢
      cases hd : p.find? k.decId with
      | none => simpa [hd] using hv
      | some d =>
        simp only [hd] at hv ⊢
        cases hp : d.isPipe with
        | false => simpa [hp] using hv
        | true =>
          simp only [hp, Bool.not_true, Bool.false_eq_true, if_false] at hv ⊢
          cases hr : d.ret.isEmpty with
          | true => simpa [hr] using hv
          | false =>
            simp only [hr, Bool.false_eq_true, if_false] at hv ⊢
            cases hi : resolveBindsO ti (insOf ti d.name) (lookupRefO self (callOutputsO ti p n pipe self pre))
                (expandWild ti pipe d.ins k.binds) with
            | none => simp [hi] at hv
            | some ins =>
              simp only [hi] at hv
              cases henv : resolveBindsO ti (outsOf ti d.name) (lookupRefO ins (callOutputsO ti p n d ins (pre ++ [id])))
                  (expandWild ti d (outNames d) d.ret) with
              | none => simp [henv] at hv
              | some env =>
              simp only [henv, Option.map_some, Option.some.injEq] at hv
              subst hv
              rw [resolveBindsO_mono ti _ _ _ (lookupRefO_le self _ _ (ih pipe self pre)) _ ins hi]
              simp only [Option.map_eq_some_iff]
              exact ⟨env, resolveBindsO_mono ti _ _ _ (lookupRefO_le ins _ _ (ih d ins (pre ++ [id]))) _ env henv, rfl⟩

theorem callOutputsO_mono_add (n j : Nat) (pipe : Callable) (self : Env) (pre : List String) :
    LeO (callOutputsO ti p n pipe self pre) (callOutputsO ti p (n + j) pipe self pre) := by
  induction j with
  | zero => intro a v h; exact h
  | succ j ih =>
    intro a v h
    exact callOutputsO_mono ti p (n + j) pipe self pre a v (ih a v h)

/-- the fuelled run at any larger budget agrees with a successful explicit run -/
theorem callOutputs_stable (n j : Nat) (pipe : Callable) (self : Env) (pre : List String) :
    Agree (callOutputsO ti p n pipe self pre) (callOutputs ti p (n + j) pipe self pre) := by
  intro a v h
  exact callOutputsO_sound ti p (n + j) pipe self pre a v (callOutputsO_mono_add ti p n j pipe self pre a v h)

theorem retainedO_sound (d : Callable) (ins : Env) (oO : String → Option RExp) (o : String → RExp)
    (h : Agree oO o) : ∀ (rs : List Ref) (l : List RExp), retainedO d ins oO rs = some l →
      rs.flatMap (fun r => rrefs (lookupRef ins o r)) = l := by
  intro rs
  induction rs with
  | nil => intro l hl; simp [retainedO] at hl; simp [hl]
  | cons r t ih =>
    intro l hl
    simp only [retainedO] at hl
    cases h1 : lookupRefO ins oO r with
    | none => simp [h1] at hl
    | some v =>
      cases h2 : retainedO d ins oO t with
      | none => simp [h1, h2] at hl
      | some rest =>
        simp only [h1, h2, Option.some.injEq] at hl
        subst hl
        simp [List.flatMap_cons, lookupRefO_agree ins oO o h r v h1, ih rest h2]

theorem allSome_flatMap {α β : Type} (f : α → List β) (fO : α → Option (List β)) :
    ∀ (l : List α) (g : List β), (∀ a ∈ l, ∀ v, fO a = some v → f a = v) →
      allSome (l.map fO) = some g → l.flatMap f = g := by
  intro l
  induction l with
  | nil => intro g _ hg; simp [allSome] at hg; simp [hg]
  | cons a t ih =>
    intro g h hg
    simp only [List.map_cons] at hg
    cases ha : fO a with
    | none => simp [allSome, ha] at hg
    | some v =>
      simp only [ha, allSome, Option.map_eq_some_iff] at hg
      obtain ⟨rest, hrest, rfl⟩ := hg
      simp [List.flatMap_cons, h a (List.mem_cons_self ..) v ha,
        ih rest (fun b hb => h b (List.mem_cons_of_mem _ hb)) hrest]

theorem nodesOf_stable (big : Nat) : ∀ fuel pipe self pre k g,
    nodesOfO ti p big fuel pipe self pre k = some g →
    ∀ j i, nodesOf ti p (big + j) (fuel + i) pipe self pre k = g := by
  intro fuel
  induction fuel with
  | zero => intro pipe self pre k g hg; simp [nodesOfO] at hg
  | succ fuel ih =>
    intro pipe self pre k g hg j i
    rw [nodesOfO] at hg
    have hfu : fuel + 1 + i = (fuel + i) + 1 := by omega
    rw [hfu, nodesOf]
    cases hd : p.find? k.decId with
    | none => simp only [hd, Option.some.injEq] at hg; simpa [hd] using hg
    | some d =>
      simp only [hd] at hg ⊢
      cases hi : resolveBindsO ti (insOf ti d.name) (lookupRefO self (callOutputsO ti p big pipe self pre))
          (expandWild ti pipe d.ins k.binds) with
      | none => simp [hi] at hg
      | some ins =>
        cases ho : callOutputsO ti p (big + 1) pipe self pre k.id with
        | none => simp [hi, ho] at hg
        | some out =>
          simp only [hi, ho] at hg
          have hins : callIns ti pipe self (callOutputs ti p (big + j) pipe self pre) d k = ins := by
            unfold callIns
            exact resolveBindsO_sound ti _ _ _ (lookupRefO_agree self _ _ (callOutputs_stable ti p big j pipe self pre)) _ ins hi
          have hout : callOutputs ti p (big + j + 1) pipe self pre k.id = out := by
            have : big + j + 1 = (big + 1) + j := by omega
            rw [this]
            exact callOutputs_stable ti p (big + 1) j pipe self pre k.id out ho
          rw [hins, hout]
          cases hp : d.isPipe with
          | false =>
            simp only [hp, Bool.false_eq_true, if_false, Option.some.injEq] at hg
            simp [hp, ← hg]
          | true =>
            simp only [hp, if_true] at hg ⊢
            cases hr : retainedO d ins (callOutputsO ti p big d ins (pre ++ [k.id])) d.retain with
            | none => simp [hr] at hg
            | some ret =>
              cases hkids : allSome (d.calls.map (nodesOfO ti p big fuel d ins (pre ++ [k.id]))) with
              | none => simp [hr, hkids] at hg
              | some kids =>
                simp only [hr, hkids, Option.some.injEq] at hg
                subst hg
                have hret : pipeRetained d ins (callOutputs ti p (big + j) d ins (pre ++ [k.id])) = ret := by
                  unfold pipeRetained
                  exact retainedO_sound d ins _ _ (callOutputs_stable ti p big j d ins (pre ++ [k.id])) _ ret hr
                have hk : d.calls.flatMap (nodesOf ti p (big + j) (fuel + i) d ins (pre ++ [k.id])) = kids :=
                  allSome_flatMap _ _ d.calls kids
                    (fun a _ v hv => ih d ins (pre ++ [k.id]) a v hv j i) hkids
                rw [hret, hk]

end Out

/-- **fuel stability**: when the resolution with explicit fuel exhaustion succeeds at the
budget `(big, fuel)`, the fuelled graph is that graph at `(big + j, fuel + i)` for all `j`, `i` -/
theorem deepGraph_stable (ti : TypeInfo) (p : Program) (big fuel : Nat) (g : List Node)
    (h : deepGraphO big fuel ti p = some g) (j i : Nat) :
    deepGraphAt (big + j) (fuel + i) ti p = g := by
  unfold deepGraphO at h
  unfold deepGraphAt
  cases ht : p.top with
  | none => simp only [ht, Option.some.injEq] at h; simpa [ht] using h
  | some t =>
    simp only [ht] at h ⊢
    exact nodesOf_stable ti p big fuel _ _ _ t g h j i

end Proofs.RefactorGraph
