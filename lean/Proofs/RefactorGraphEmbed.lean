/-
C19 — on programs without `disabled` modifiers the extended model `deepGraphD`
(RefactorGraphD.lean) is exactly the embedding of `deepGraph`.
-/
import Martian.RefactorGraphD
import Proofs.RefactorGraphLemmas

namespace Proofs.RefactorGraph
open Martian.Refactor

theorem toD_rnull : RExp.toD rnull = dnull := rfl

theorem bindingPathD_toD_all (v : RExp) :
    (∀ path, bindingPathD path v.toD = (bindingPath path v).toD)
    ∧ (∀ path, bindingPathElemsD path v.toD = (bindingPathElems path v).toD)
    ∧ (∀ h t, projectMemberD h t v.toD = (projectMember h t v).toD) := by
  induction v with
  | lit s => simp [RExp.toD, bindingPathD, bindingPathElemsD, projectMemberD, bindingPath, bindingPathElems, projectMember, rnull, dnull]
  | sref fq c p => simp [RExp.toD, bindingPathD, bindingPathElemsD, projectMemberD, bindingPath, bindingPathElems, projectMember, rnull, dnull]
  | split e _ => simp [RExp.toD, bindingPathD, bindingPathElemsD, projectMemberD, bindingPath, bindingPathElems, projectMember, rnull, dnull]
  | arr es ih =>
    refine ⟨?_, ?_, ?_⟩
    · intro path; simp [RExp.toD, bindingPathD, bindingPath, ih.2.1]
    · intro path; simp [RExp.toD, bindingPathElemsD, bindingPathElems]
    · intro h t; simp [RExp.toD, projectMemberD, projectMember, rnull, dnull]
  | map st es ih =>
    refine ⟨?_, ?_, ?_⟩
    · intro path
      cases st with
      | false => simp [RExp.toD, bindingPathD, bindingPath, ih.2.1]
      | true =>
        cases path with
        | nil => simp [RExp.toD, bindingPathD, bindingPath]
        | cons h t => simp [RExp.toD, bindingPathD, bindingPath, ih.2.2]
    · intro path; simp [RExp.toD, bindingPathElemsD, bindingPathElems]
    · intro h t; simp [RExp.toD, projectMemberD, projectMember, rnull, dnull]
  | nil => simp [RExp.toD, bindingPathD, bindingPathElemsD, projectMemberD, bindingPath, bindingPathElems, projectMember, rnull, dnull]
  | cons k hd tl ih1 ih2 =>
    refine ⟨?_, ?_, ?_⟩
    · intro path; simp [RExp.toD, bindingPathD, bindingPath]
    · intro path; simp [RExp.toD, bindingPathElemsD, bindingPathElems, ih1.1, ih2.2.1]
    · intro h t
      simp only [RExp.toD, projectMemberD, projectMember]
      split
      · exact ih1.1 t
      · exact ih2.2.2 h t

theorem filterD_toD_all (mo : String → Option Members) (v : RExp) :
    (∀ ty, filterD mo ty v.toD = (filterExp mo ty v).toD)
    ∧ (∀ ty, filterElemsD mo ty v.toD = (filterElems mo ty v).toD)
    ∧ (∀ ms, filterMembersD mo ms v.toD = (filterMembers mo ms v).toD) := by
  induction v with
  | lit s => simp [RExp.toD, filterD, filterElemsD, filterMembersD, filterExp, filterElems, filterMembers]
  | sref fq c p => simp [RExp.toD, filterD, filterElemsD, filterMembersD, filterExp, filterElems, filterMembers]
  | split e _ => simp [RExp.toD, filterD, filterElemsD, filterMembersD, filterExp, filterElems, filterMembers]
  | arr es ih =>
    refine ⟨?_, ?_, ?_⟩
    · intro ty
      simp only [RExp.toD, filterD, filterExp]
      cases hm : mo ty.base with
      | none => simp [RExp.toD]
      | some ms => by_cases h0 : ty.arrayDim = 0 <;> simp [h0, RExp.toD, ih.2.1]
    · intro ty; simp [RExp.toD, filterElemsD, filterElems]
    · intro ms; simp [RExp.toD, filterMembersD, filterMembers]
  | map st es ih =>
    refine ⟨?_, ?_, ?_⟩
    · intro ty
      simp only [RExp.toD, filterD, filterExp]
      cases hm : mo ty.base with
      | none => simp [RExp.toD]
      | some ms =>
        by_cases h0 : ty.arrayDim = 0 <;> by_cases h1 : ty.mapDim = 0 <;>
          simp [h0, h1, RExp.toD, ih.2.1, ih.2.2]
    · intro ty; simp [RExp.toD, filterElemsD, filterElems]
    · intro ms; simp [RExp.toD, filterMembersD, filterMembers]
  | nil => simp [RExp.toD, filterD, filterElemsD, filterMembersD, filterExp, filterElems, filterMembers]
  | cons k hd tl ih1 ih2 =>
    refine ⟨?_, ?_, ?_⟩
    · intro ty; simp [RExp.toD, filterD, filterExp]
    · intro ty; simp [RExp.toD, filterElemsD, filterElems, ih1.1, ih2.2.1]
    · intro ms
      simp only [RExp.toD, filterMembersD, filterMembers]
      cases hl : ms.lookup k with
      | some mty => simp [RExp.toD, ih1.1, ih2.2.2]
      | none => simpa using ih2.2.2 ms

theorem substRefsD_toD (f : Ref → RExp) (e : Exp) :
    substRefsD (fun r => (f r).toD) e = (substRefs f e).toD := by
  induction e with
  | lit s => rfl
  | ref r => rfl
  | split e ih => simp [substRefsD, substRefs, RExp.toD, ih]
  | arr es ih => simp [substRefsD, substRefs, RExp.toD, ih]
  | map b es ih => simp [substRefsD, substRefs, RExp.toD, ih]
  | nil => rfl
  | cons k h t ih1 ih2 => simp [substRefsD, substRefs, RExp.toD, ih1, ih2]

def envD (env : Env) : DEnv := env.map (fun kv => (kv.1, kv.2.toD))

theorem denvGet_envD (env : Env) (k : String) : denvGet (envD env) k = (envGet env k).toD := by
  unfold denvGet envGet envD
  induction env with
  | nil => rfl
  | cons e t ih =>
    obtain ⟨k', v⟩ := e
    simp only [List.map_cons, List.lookup_cons]
    cases h : (k == k') <;> simp [ih]

theorem denvEntries_envD (env : Env) : denvEntries (envD env) = (envEntries env).toD := by
  induction env with
  | nil => rfl
  | cons e t ih =>
    obtain ⟨k, v⟩ := e
    simp only [envD, List.map_cons, denvEntries, envEntries, RExp.toD] at ih ⊢
    rw [ih]

theorem lookupRefD_toD (self : Env) (sib : String → RExp) (r : Ref) :
    lookupRefD (envD self) (fun i => (sib i).toD) r = (lookupRef self sib r).toD := by
  unfold lookupRefD lookupRef
  cases r.kind with
  | self => simp only; rw [denvGet_envD, (bindingPathD_toD_all _).1]
  | call => simp only; rw [(bindingPathD_toD_all _).1]

theorem resolveBindsD_toD (ti : TypeInfo) (tys : Members) (f : Ref → RExp) (bs : List Bind) :
    resolveBindsD ti tys (fun r => (f r).toD) bs = envD (resolveBinds ti tys f bs) := by
  unfold resolveBindsD resolveBinds envD
  rw [List.map_map]
  apply List.map_congr_left
  intro b _
  simp only [Function.comp, substRefsD_toD]
  cases hl : tys.lookup b.name with
  | some ty => simp [(filterD_toD_all _ _).1]
  | none => rfl

theorem rrefsD_toD (v : RExp) : rrefsD v.toD = (rrefs v).map RExp.toD := by
  induction v with
  | lit s => rfl
  | sref fq c p => rfl
  | split e ih => simpa [rrefsD, rrefs, RExp.toD] using ih
  | arr es ih => simpa [rrefsD, rrefs, RExp.toD] using ih
  | map st es ih => simpa [rrefsD, rrefs, RExp.toD] using ih
  | nil => rfl
  | cons k h t ih1 ih2 => simp [rrefsD, rrefs, RExp.toD, ih1, ih2]

/-- a pipeline none of whose calls has a `disabled` binding -/
def noDisC (c : Callable) : Prop := ∀ k ∈ c.calls, ∀ b ∈ k.mods, b.name ≠ "disabled"

theorem nodeDisable_nil (k : Call) (f : Ref → DExp) (h : ∀ b ∈ k.mods, b.name ≠ "disabled") :
    nodeDisable [] k f = [] := by
  unfold nodeDisable
  simp only [alwaysDisabledD, Bool.false_eq_true, if_false]
  have : k.mods.find? (·.name == "disabled") = none := by
    rw [List.find?_eq_none]
    intro b hb
    simpa using h b hb
  rw [this]

theorem callInsD_toD (ti : TypeInfo) (pipe : Callable) (self : Env) (sib : String → RExp) (d : Callable) (k : Call) :
    callInsD ti pipe (envD self) (fun i => (sib i).toD) d k = envD (callIns ti pipe self sib d k) := by
  unfold callInsD callIns
  have : lookupRefD (envD self) (fun i => (sib i).toD) = fun r => (lookupRef self sib r).toD := by
    funext r; exact lookupRefD_toD self sib r
  rw [this, resolveBindsD_toD]

theorem callOutputsD_toD (ti : TypeInfo) (p : Program) (hp : ∀ n d, p.find? n = some d → noDisC d) :
    ∀ fuel pipe self pre, noDisC pipe →
      callOutputsD ti p fuel pipe (envD self) [] pre = fun id => (callOutputs ti p fuel pipe self pre id).toD := by
  intro fuel
  induction fuel with
  | zero => intro pipe self pre _; funext id; rfl
  | succ fuel ih =>
    intro pipe self pre hpipe
    funext id
    rw [callOutputsD, callOutputs]
    cases hk : pipe.calls.find? (·.id == id) with
    | none => rfl
    | some k =>
      simp only
      cases hd : p.find? k.decId with
      | none => rfl
      | some d =>
        simp only
        have hkm := (call_mem pipe id k hk).1
        rw [nodeDisable_nil k _ (hpipe k hkm)]
        simp only [alwaysDisabledD, Bool.false_eq_true, if_false, List.drop_nil, List.length_nil]
        cases hpp : d.isPipe with
        | false =>
          simp only [Bool.not_false, if_true]
          split
          · rfl
          · simp [wrapOwn, RExp.toD]
        | true =>
          simp only [Bool.not_true, Bool.false_eq_true, if_false]
          split
          · rfl
          · rw [ih pipe self pre hpipe, callInsD_toD]
            rw [ih d _ _ (hp _ d hd)]
            simp only [Nat.lt_irrefl, if_false]
            unfold pipeOuts
            have : lookupRefD (envD (callIns ti pipe self (callOutputs ti p fuel pipe self pre) d k))
                (fun i => (callOutputs ti p fuel d (callIns ti pipe self (callOutputs ti p fuel pipe self pre) d k) (pre ++ [id]) i).toD)
                = fun r => (lookupRef (callIns ti pipe self (callOutputs ti p fuel pipe self pre) d k)
                    (callOutputs ti p fuel d (callIns ti pipe self (callOutputs ti p fuel pipe self pre) d k) (pre ++ [id])) r).toD := by
              funext r; exact lookupRefD_toD _ _ r
            rw [this, resolveBindsD_toD, denvEntries_envD]
            rfl

theorem nodesOfD_toD (ti : TypeInfo) (p : Program) (hp : ∀ n d, p.find? n = some d → noDisC d) (big : Nat) :
    ∀ fuel pipe self pre k, noDisC pipe → k ∈ pipe.calls →
      nodesOfD ti p big fuel pipe (envD self) [] pre k = (nodesOf ti p big fuel pipe self pre k).map Node.toD := by
  intro fuel
  induction fuel with
  | zero => intros; rfl
  | succ fuel ih =>
    intro pipe self pre k hpipe hk
    rw [nodesOfD, nodesOf]
    cases hd : p.find? k.decId with
    | none => rfl
    | some d =>
      simp only
      rw [nodeDisable_nil k _ (hpipe k hk), callOutputsD_toD ti p hp big pipe self pre hpipe, callInsD_toD,
          callOutputsD_toD ti p hp big d _ _ (hp _ d hd), callOutputsD_toD ti p hp (big + 1) pipe self pre hpipe]
      simp only [alwaysDisabledD, Bool.not_false, Bool.and_true, List.map_cons, List.take_nil]
      congr 1
      · simp only [Node.toD, envD]
        congr 1
        cases hpp : d.isPipe with
        | false => simp
        | true =>
          simp only [if_true, pipeRetained, List.map_flatMap]
          apply flatMap_congr'
          intro r _
          have := lookupRefD_toD (callIns ti pipe self (callOutputs ti p big pipe self pre) d k)
            (callOutputs ti p big d (callIns ti pipe self (callOutputs ti p big pipe self pre) d k) (pre ++ [k.id])) r
          simp only [envD] at this
          rw [this]
          exact rrefsD_toD _
      · cases hpp : d.isPipe with
        | false => simp
        | true =>
          simp only [if_true, List.map_flatMap]
          apply flatMap_congr'
          intro k' hk'
          exact ih d _ _ k' (hp _ d hd) hk'

/-- **the embedding**: without `disabled` modifiers the extended model is the plain one -/
theorem deepGraphD_eq_embed (ti : TypeInfo) (p : Program) (h : noDisabledMods p = true) :
    deepGraphD ti p = (deepGraph ti p).map Node.toD := by
  simp only [noDisabledMods, Bool.and_eq_true, List.all_eq_true, bne_iff_ne, ne_eq] at h
  have hp : ∀ n d, p.find? n = some d → noDisC d := by
    intro n d hd k hk b hb
    exact h.1 d (find_mem p n d hd) k hk b hb
  unfold deepGraphD deepGraph
  cases ht : p.top with
  | none => rfl
  | some t =>
    have htop : noDisC (topPipe t) := by
      intro k hk b hb
      simp only [topPipe, List.mem_singleton] at hk
      subst hk
      have := h.2
      simp only [ht, List.all_eq_true, bne_iff_ne, ne_eq] at this
      exact this b hb
    have := nodesOfD_toD ti p hp (graphFuel p) (graphFuel p) (topPipe t) [] [] t htop (by simp [topPipe])
    simpa [envD] using this

end Proofs.RefactorGraph
