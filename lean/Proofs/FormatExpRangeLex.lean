import Proofs.FormatExpRangeNum
import Proofs.FormatExpLex

/-!
C09, accepted texts: the RANGE of the tokenizer.

`lexAll_tokOK`: every token `lexAll` returns for ANY input satisfies `tokOK`
(a NUM_INT text is one NUM_INT token with an `int64` value, a NUM_FLOAT text one
NUM_FLOAT token within range, a LITSTRING text is unquoted without a panic, an
`id` text is an identifier).

Core Lean only.
-/

namespace Martian.FormatExp
open Martian.Lexer

/-- the tokens a run of word characters can become -/
theorem wordLexeme_cases {w : Bytes} {k : Tok} (h : wordLexeme w = .tok k) :
    k = .id w ∨ k = .kTrue ∨ k = .kFalse ∨ k = .kNull ∨ k = .kSelf ∨ k = .kDefault ∨ k = .reserved w := by
  unfold wordLexeme at h
  split at h
  · split at h
    · cases h; simp
    split at h
    · cases h; simp
    split at h
    · cases h; simp
    split at h
    · cases h; simp
    split at h
    · cases h; simp
    split at h
    · cases h; simp
    · cases h; simp
  · split at h
    · split at h
      · cases h; simp
      · cases h
    · split at h
      · cases h; simp
      · cases h
    · cases h

theorem all_takeWhile_isWord : ∀ b : Bytes, (b.takeWhile isWord).all isWord = true
  | [] => rfl
  | x :: r => by
    by_cases hx : isWord x = true
    · simp only [List.takeWhile_cons, hx, ↓reduceIte, List.all_cons, Bool.true_and]
      exact all_takeWhile_isWord r
    · simp [hx]

theorem wordLexeme_tokOK {w : Bytes} {k : Tok} (hw : w.all isWord = true) (h : wordLexeme w = .tok k) :
    tokOK k = true := by
  rcases wordLexeme_cases h with rfl | rfl | rfl | rfl | rfl | rfl | rfl
  · simp [tokOK, isIdent, hw, h]
  all_goals rfl

/-- the token at the head of any input is in the range `tokOK` -/
theorem nextLex_tokOK {b : Bytes} {k : Tok} {n : Nat} (h : nextLex b = (.tok k, n)) : tokOK k = true := by
  cases b with
  | nil => simp [nextLex] at h
  | cons c r =>
    simp only [nextLex] at h
    split at h
    · rename_i hp
      injection h with h1 _; injection h1 with h1; subst h1; exact hp
    split at h
    · injection h with h1 _; cases h1
    split at h
    · injection h with h1 _; cases h1
    split at h
    · split at h
      · rename_i t hm
        injection h with h1 _; injection h1 with h1; subst h1
        obtain ⟨out, ho⟩ := matchString_unquote hm
        simp [tokOK, ho]
      · injection h with h1 _; cases h1
    split at h
    · split at h
      · rename_i t hm
        injection h with h1 _; injection h1 with h1; subst h1
        simp [tokOK, isFloatTok, numTok_prefix_float hm]
      · rename_i t hm
        injection h with h1 _; injection h1 with h1; subst h1
        simp [tokOK, numTok_prefix_int hm]
      · injection h with h1 _; cases h1
    split at h
    · injection h with h1 _
      exact wordLexeme_tokOK (all_takeWhile_isWord _) h1
    split at h
    · split at h
      · injection h with h1 _; injection h1 with h1; subst h1; rfl
      · injection h with h1 _; cases h1
    split at h
    · injection h with h1 _; cases h1
    · injection h with h1 _; cases h1

/-- **Range of the tokenizer.**  Whatever the input, every token of an accepted text is in
`tokOK`. -/
theorem lexAll_tokOK : ∀ (n : Nat) (src : Bytes) (ts : List Tok), src.length ≤ n →
    lexAll src = some ts → ∀ tok ∈ ts, tokOK tok = true
  | _, [], ts, _, h => by
    rw [lexAll_nil] at h; injection h with h; subst h
    intro tok ht; cases ht
  | 0, c :: r, _, hl, _ => by simp at hl
  | n + 1, c :: r, ts, hl, h => by
    rw [lexAll_cons] at h
    have hlen : ∀ m, (List.drop (m - 1) r).length ≤ n := by
      intro m; simp only [List.length_drop, List.length_cons] at hl ⊢; omega
    split at h
    · rename_i k m hnl
      cases hrest : lexAll (List.drop (m - 1) r) with
      | none => simp [hrest] at h
      | some ts' =>
        simp only [hrest, Option.map_some, Option.some.injEq] at h
        subst h
        intro tok ht
        simp only [List.mem_cons] at ht
        rcases ht with rfl | ht
        · exact nextLex_tokOK hnl
        · exact lexAll_tokOK n _ ts' (hlen m) hrest tok ht
    · rename_i m hnl
      exact lexAll_tokOK n _ ts (hlen m) h
    · cases h

theorem range_lexAll (src : Bytes) (ts : List Tok) (h : lexAll src = some ts) :
    ∀ tok ∈ ts, tokOK tok = true :=
  lexAll_tokOK src.length src ts (Nat.le_refl _) h

end Martian.FormatExp
