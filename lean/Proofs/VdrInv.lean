import Martian.Vdr
import Proofs.VdrPath

/-! The safety invariant of the VDR bookkeeping model, preserved by every event. -/
namespace Martian.Vdr

def InDom (s : St) (a : Arg) : Prop := ∃ hs, (a, hs) ∈ s.fileArgs
def Holds (s : St) (a : Arg) (h : Holder) : Prop := ∃ hs, (a, hs) ∈ s.fileArgs ∧ h ∈ hs

theorem Holds.inDom {s : St} {a : Arg} {h : Holder} (x : Holds s a h) : InDom s a := by
  obtain ⟨hs, hm, _⟩ := x; exact ⟨hs, hm⟩

theorem mem_dom_iff (s : St) (a : Arg) : a ∈ s.dom ↔ InDom s a := by
  unfold St.dom InDom
  simp only [List.mem_map]
  constructor
  · rintro ⟨p, hp, rfl⟩; exact ⟨p.2, hp⟩
  · rintro ⟨hs, hm⟩; exact ⟨(a, hs), hm, rfl⟩

/-- everything but the bookkeeping maps is untouched and no argument appears -/
structure Frame (s s' : St) : Prop where
  disk : s'.disk = s.disk
  removed : s'.removed = s.removed
  cache : s'.cache = s.cache
  done : s'.doneNodes = s.doneNodes
  report : s'.report = s.report
  final : s'.final = s.final
  ran : s'.ran = s.ran
  dom : ∀ a, InDom s' a → InDom s a

/-- a holder is lost only for a reason `P` -/
def Keeps (P : Arg → Holder → Prop) (s s' : St) : Prop := ∀ a h, Holds s a h → Holds s' a h ∨ P a h

theorem Frame.refl (s : St) : Frame s s := ⟨rfl, rfl, rfl, rfl, rfl, rfl, rfl, fun _ h => h⟩
theorem Frame.trans {a b c : St} (x : Frame a b) (y : Frame b c) : Frame a c :=
  ⟨y.disk.trans x.disk, y.removed.trans x.removed, y.cache.trans x.cache, y.done.trans x.done,
   y.report.trans x.report, y.final.trans x.final, y.ran.trans x.ran, fun a h => x.dom a (y.dom a h)⟩
theorem Keeps.refl (P) (s : St) : Keeps P s s := fun _ _ h => Or.inl h
theorem Keeps.trans {P} {a b c : St} (x : Keeps P a b) (y : Keeps P b c) : Keeps P a c := by
  intro ar h hh
  rcases x ar h hh with h1 | h1
  · exact y ar h h1
  · exact Or.inr h1

theorem removeFileArg_frame (s : St) (b : Arg) : Frame s (removeFileArg s b) := by
  unfold removeFileArg
  split
  · exact Frame.refl s
  · refine ⟨rfl, rfl, rfl, rfl, rfl, rfl, rfl, ?_⟩
    rintro a ⟨hs, hm⟩
    exact ⟨hs, (List.mem_filter.mp hm).1⟩

theorem removeFileArg_keeps (s : St) (b : Arg) : Keeps (fun a _ => a = b) s (removeFileArg s b) := by
  unfold removeFileArg
  split
  · exact Keeps.refl _ s
  · rintro a h ⟨hs, hm, hh⟩
    by_cases e : a = b
    · exact Or.inr e
    · left
      refine ⟨hs, ?_, hh⟩
      simp only [List.mem_filter]
      exact ⟨hm, by simpa using e⟩

theorem removePostNode_frame (s : St) (n : Node) : Frame s (removePostNode s n) := by
  unfold removePostNode
  split
  · exact Frame.refl s
  · refine ⟨rfl, rfl, rfl, rfl, rfl, rfl, rfl, ?_⟩
    rintro a ⟨hs, hm⟩
    simp only [List.mem_filterMap] at hm
    obtain ⟨p, hp, hq⟩ := hm
    split at hq
    · split at hq
      · cases hq
      · cases hq; exact ⟨p.2, hp⟩
    · cases hq; exact ⟨hs, hp⟩

theorem removePostNode_keeps (s : St) (n : Node) : Keeps (fun _ h => h = some n) s (removePostNode s n) := by
  unfold removePostNode
  split
  · exact Keeps.refl _ s
  · rename_i as _
    rintro a h ⟨hs, hm, hh⟩
    by_cases e : h = some n
    · exact Or.inr e
    · left
      by_cases hc : as.contains a = true
      · refine ⟨hs.filter (· != some n), ?_, ?_⟩
        · simp only [List.mem_filterMap]
          refine ⟨(a, hs), hm, ?_⟩
          have hne : (hs.filter (· != some n)).isEmpty = false := by
            rw [List.isEmpty_eq_false_iff_exists_mem]
            exact ⟨h, List.mem_filter.mpr ⟨hh, by simpa using e⟩⟩
          have hc' : a ∈ as := by simpa using hc
          simp [hc', hne]
        · exact List.mem_filter.mpr ⟨hh, by simpa using e⟩
      · refine ⟨hs, ?_, hh⟩
        simp only [List.mem_filterMap]
        have hc' : ¬ a ∈ as := by simpa using hc
        exact ⟨(a, hs), hm, by simp [hc']⟩

theorem removePostNodes_frame (ns : List Node) (s : St) : Frame s (removePostNodes s ns) := by
  unfold removePostNodes
  induction ns generalizing s with
  | nil => exact Frame.refl s
  | cons n r ih => exact (removePostNode_frame s n).trans (ih _)

theorem removePostNodes_keeps (ns : List Node) (s : St) :
    Keeps (fun _ h => ∃ n ∈ ns, h = some n) s (removePostNodes s ns) := by
  unfold removePostNodes
  induction ns generalizing s with
  | nil => exact Keeps.refl _ s
  | cons n r ih =>
    intro a h hh
    rcases removePostNode_keeps s n a h hh with h1 | h1
    · rcases ih (removePostNode s n) a h h1 with h2 | ⟨m, hm, e⟩
      · exact Or.inl h2
      · exact Or.inr ⟨m, List.mem_cons_of_mem _ hm, e⟩
    · exact Or.inr ⟨n, List.mem_cons_self, h1⟩

/-- conditional removal of a list of arguments -/
theorem foldRemove_frame (cond : Arg → Bool) (l : List Arg) (s : St) :
    Frame s (l.foldl (fun s a => if cond a then removeFileArg s a else s) s) := by
  induction l generalizing s with
  | nil => exact Frame.refl s
  | cons a r ih =>
    simp only [List.foldl_cons]
    by_cases hc : cond a = true
    · simp only [hc, if_true]; exact (removeFileArg_frame s a).trans (ih _)
    · simp only [hc]; exact ih s

theorem foldRemove_keeps (cond : Arg → Bool) (l : List Arg) (s : St) :
    Keeps (fun a _ => cond a = true) s (l.foldl (fun s a => if cond a then removeFileArg s a else s) s) := by
  induction l generalizing s with
  | nil => exact Keeps.refl _ s
  | cons a r ih =>
    simp only [List.foldl_cons]
    by_cases hc : cond a = true
    · simp only [hc, if_true]
      intro b h hh
      rcases removeFileArg_keeps s a b h hh with h1 | h1
      · exact ih _ b h h1
      · exact Or.inr (h1 ▸ hc)
    · simp only [hc]; exact ih s

/-! ### the invariant -/

def Unref (c : Cfg) (disk : List DiskEnt) (a : Arg) : Prop :=
  ∀ d ∈ disk, isTmp d.kind = false → refs c a d.path = false

def DoneH (s : St) (h : Holder) : Prop := ∃ n, h = some n ∧ n ∈ s.doneNodes

structure Inv (c : Cfg) (s0 s : St) : Prop where
  held : ∀ a h, Holds s0 a h → DoneH s h ∨ Holds s a h ∨ Unref c s.disk a
  cache : ∀ es, s.cache = some es → ∀ e ∈ es,
    (∃ d ∈ s0.disk, d.path = e.path) ∧ ∀ a, InDom s a → refs c a e.path = true → a ∈ e.args
  safe : ∀ d ∈ s.removed, isTmp d.kind = false → ∀ a h, Holds s0 a h → refs c a d.path = true → DoneH s h
  sub : ∀ d ∈ s.disk, d ∈ s0.disk
  split : ∀ d ∈ s0.disk, d ∈ s.disk ∨ d ∈ s.removed
  rsub : ∀ d ∈ s.removed, d ∈ s0.disk

theorem unref_of_nofiles (c : Cfg) (disk : List DiskEnt) (a : Arg) (h : (c.filesOf a).isEmpty = true) :
    Unref c disk a := by
  intro d _ _
  unfold refs anyOverlap
  simp [h]

theorem Inv.frame {c : Cfg} {s0 s s' : St} {P : Arg → Holder → Prop} (i : Inv c s0 s)
    (f : Frame s s') (k : Keeps P s s')
    (hp : ∀ a h, Holds s a h → P a h → DoneH s h ∨ Unref c s.disk a) : Inv c s0 s' := by
  have hd : ∀ h, DoneH s h → DoneH s' h := by
    rintro h ⟨n, e, m⟩; exact ⟨n, e, f.done ▸ m⟩
  refine ⟨?_, ?_, ?_, ?_, ?_, ?_⟩
  · intro a h hh
    rcases i.held a h hh with h1 | h1 | h1
    · exact Or.inl (hd h h1)
    · rcases k a h h1 with h2 | h2
      · exact Or.inr (Or.inl h2)
      · rcases hp a h h1 h2 with h3 | h3
        · exact Or.inl (hd h h3)
        · exact Or.inr (Or.inr (f.disk ▸ h3))
    · exact Or.inr (Or.inr (f.disk ▸ h1))
  · intro es he e hm
    rw [f.cache] at he
    obtain ⟨h1, h2⟩ := i.cache es he e hm
    exact ⟨h1, fun a ha => h2 a (f.dom a ha)⟩
  · intro d hm ht a h hh hr
    rw [f.removed] at hm
    exact hd h (i.safe d hm ht a h hh hr)
  · intro d hm; rw [f.disk] at hm; exact i.sub d hm
  · intro d hm
    rw [f.disk, f.removed]; exact i.split d hm
  · intro d hm; rw [f.removed] at hm; exact i.rsub d hm


/-- the assumptions about the static data: names come before files, paths are clean -/
structure CfgOK (c : Cfg) (s0 : St) : Prop where
  names : ∀ a, (c.namesOf a).isEmpty = true → (c.filesOf a).isEmpty = true
  /-- the names an argument refers to do not end in a separator, except that the raw spelling
  `g/` of an output may stand next to its cleaned form `g` (what `getLogicalFileNames` returns) -/
  cleanF : ∀ a, FilesWF (c.filesOf a)
  cleanD : ∀ d ∈ s0.disk, NoTrailingSlash d.path
  /-- walked paths have no doubled separator -/
  noDbl : ∀ d ∈ s0.disk, NoDbl d.path
  /-- a restart rebuilds the tables the fork started with -/
  init : c.initArgs = s0.fileArgs ∧ c.initPost = s0.postNodes

theorem refs_nonempty {c : Cfg} {a : Arg} {p : Path} (h : refs c a p = true) : (c.filesOf a).isEmpty = false := by
  cases hf : (c.filesOf a).isEmpty with
  | false => rfl
  | true =>
    unfold refs anyOverlap at h
    simp [hf] at h

theorem refs_mono {c : Cfg} {a : Arg} {d k : Path} (hd : NoTrailingSlash d) (hk : NoTrailingSlash k)
    (hdd : NoDbl d) (hkd : NoDbl k)
    (hf : FilesWF (c.filesOf a)) (hin : pathIsInside d k = true)
    (hr : refs c a d = true) : refs c a k = true := by
  unfold refs at *
  rw [refsWF_iff hd hdd hf] at hr
  rw [refsWF_iff hk hkd hf]
  obtain ⟨f, hfm, hc, hrel⟩ := hr
  exact ⟨f, hfm, hc, related_mono hin hrel⟩

theorem Unref.mono {c : Cfg} {a : Arg} {d1 d2 : List DiskEnt} (h : Unref c d1 a) (hs : ∀ d ∈ d2, d ∈ d1) :
    Unref c d2 a := fun d hm ht => h d (hs d hm) ht

theorem Inv.nodeDone {c : Cfg} {s0 s : St} (i : Inv c s0 s) (n : Node) :
    Inv c s0 { s with doneNodes := n :: s.doneNodes } := by
  have hd : ∀ h, DoneH s h → DoneH { s with doneNodes := n :: s.doneNodes } h := by
    rintro h ⟨m, e, hm⟩; exact ⟨m, e, List.mem_cons_of_mem _ hm⟩
  refine ⟨?_, i.cache, ?_, i.sub, i.split, i.rsub⟩
  · intro a h hh
    rcases i.held a h hh with h1 | h1 | h1
    · exact Or.inl (hd h h1)
    · exact Or.inr (Or.inl h1)
    · exact Or.inr (Or.inr h1)
  · intro d hm ht a h hh hr
    exact hd h (i.safe d hm ht a h hh hr)

theorem Inv.setFinal {c : Cfg} {s0 s : St} (i : Inv c s0 s) (b : Bool) : Inv c s0 { s with final := b } :=
  ⟨i.held, i.cache, i.safe, i.sub, i.split, i.rsub⟩

theorem Inv.removeEmpty {c : Cfg} {s0 s : St} (ok : CfgOK c s0) (i : Inv c s0 s) : Inv c s0 (removeEmpty c s) := by
  unfold Martian.Vdr.removeEmpty
  refine i.frame (foldRemove_frame (fun a => (c.namesOf a).isEmpty) _ s)
    (foldRemove_keeps (fun a => (c.namesOf a).isEmpty) _ s) ?_
  intro a h _ hp
  exact Or.inr (unref_of_nofiles c _ a (ok.names a hp))

theorem Inv.setCache {c : Cfg} {s0 s : St} (i : Inv c s0 s) (es : List Entry)
    (h : ∀ e ∈ es, (∃ d ∈ s0.disk, d.path = e.path) ∧ ∀ a, InDom s a → refs c a e.path = true → a ∈ e.args) :
    Inv c s0 { s with cache := some es } := by
  refine ⟨i.held, ?_, i.safe, i.sub, i.split, i.rsub⟩
  intro es' he e hm
  simp at he
  subst he
  exact h e hm

theorem Inv.cacheMap {c : Cfg} {s0 s : St} (i : Inv c s0 s) : Inv c s0 (cacheMap c s) := by
  unfold Martian.Vdr.cacheMap
  have f1 : Frame s (dropNoFiles c s) := foldRemove_frame (fun a => (c.filesOf a).isEmpty) s.dom s
  have k1 := foldRemove_keeps (fun a => (c.filesOf a).isEmpty) s.dom s
  have i1 : Inv c s0 (dropNoFiles c s) :=
    i.frame f1 k1 (fun a h _ hp => Or.inr (unref_of_nofiles c _ a hp))
  have f2 : Frame (dropNoFiles c s) (dropUnused (cacheEntries c s) (dropNoFiles c s)) :=
    foldRemove_frame (fun a => !((cacheEntries c s).any (fun e => e.args.contains a))) _ _
  have k2 := foldRemove_keeps (fun a => !((cacheEntries c s).any (fun e => e.args.contains a)))
    (dropNoFiles c s).dom (dropNoFiles c s)
  have i2 : Inv c s0 (dropUnused (cacheEntries c s) (dropNoFiles c s)) := by
    refine i1.frame f2 k2 ?_
    intro a h hh hp
    right
    intro d hd ht
    rw [f1.disk] at hd
    -- the entry of d does not list a
    cases hr : refs c a d.path with
    | false => rfl
    | true =>
      exfalso
      have hdom : a ∈ s.dom := (mem_dom_iff s a).mpr (f1.dom a hh.inDom)
      have hne := refs_nonempty hr
      simp only [Bool.not_eq_true', List.any_eq_false] at hp
      have := hp { path := d.path
                   args := (s.dom.filter fun a => !(c.filesOf a).isEmpty).filter (fun a => refsN c a (d.path :: d.alts))
                   size := d.size, count := 1, names := d.path :: d.alts } (by
        unfold cacheEntries
        simp only [List.mem_map, List.mem_filter]
        exact ⟨d, ⟨hd, by simp [ht]⟩, rfl⟩)
      apply this
      simp only [List.contains_iff_mem, List.mem_filter]
      exact ⟨⟨hdom, by simp [hne]⟩, anyOverlap_cons_mono _ _ _ hr⟩
  refine i2.setCache _ ?_
  intro e he
  unfold cacheEntries at he
  simp only [List.mem_map, List.mem_filter] at he
  obtain ⟨d, ⟨hd, _⟩, rfl⟩ := he
  refine ⟨⟨d, i.sub d hd, rfl⟩, ?_⟩
  intro a ha hr
  have hdom : a ∈ s.dom := (mem_dom_iff s a).mpr (f1.dom a (f2.dom a ha))
  simp only [List.mem_filter]
  exact ⟨⟨hdom, by simp [refs_nonempty hr]⟩, anyOverlap_cons_mono _ _ _ hr⟩


/-- one phase of temp cleaning -/
def cleanPhase (c : Cfg) (s : St) (ph : Nat) : St :=
  if s.ran.contains ph || (ph == 0 && !c.splits) then s else
  let gone := s.disk.filter (fun d => d.kind == .tmp ph)
  { s with
    disk := s.disk.filter (fun d => !(d.kind == .tmp ph))
    removed := s.removed ++ gone
    ran := ph :: s.ran
    report := { paths := if sumSize gone = 0 then s.report.paths
                         else s.report.paths ++ topLevel (gone.map (·.path))
                count := s.report.count + gone.length
                size := s.report.size + sumSize gone
                deltas := if sumSize gone = 0 then s.report.deltas
                          else s.report.deltas ++ [-(Int.ofNat (sumSize gone))] } }

theorem cleanTmp_eq (c : Cfg) (s : St) (upto : Nat) :
    cleanTmp c s upto = (List.range upto).foldl (cleanPhase c) s := rfl

theorem Inv.cleanPhase {c : Cfg} {s0 s : St} (i : Inv c s0 s) (ph : Nat) : Inv c s0 (cleanPhase c s ph) := by
  unfold Martian.Vdr.cleanPhase
  split
  · exact i
  · refine ⟨?_, ?_, ?_, ?_, ?_, ?_⟩
    · intro a h hh
      rcases i.held a h hh with h1 | h1 | h1
      · exact Or.inl h1
      · exact Or.inr (Or.inl h1)
      · exact Or.inr (Or.inr (h1.mono (fun d hd => (List.mem_filter.mp hd).1)))
    · exact i.cache
    · intro d hm ht a h hh hr
      simp only [List.mem_append, List.mem_filter] at hm
      rcases hm with hm | ⟨_, hk⟩
      · exact i.safe d hm ht a h hh hr
      · exfalso
        have : d.kind = .tmp ph := by simpa using hk
        rw [this] at ht
        simp [isTmp] at ht
    · intro d hd; exact i.sub d (List.mem_filter.mp hd).1
    · intro d hd
      simp only [List.mem_append, List.mem_filter]
      rcases i.split d hd with h1 | h1
      · by_cases hk : (d.kind == Kind.tmp ph) = true
        · exact Or.inr (Or.inr ⟨h1, hk⟩)
        · exact Or.inl ⟨h1, by simpa using hk⟩
      · exact Or.inr (Or.inl h1)
    · intro d hd
      simp only [List.mem_append, List.mem_filter] at hd
      rcases hd with hd | ⟨hd, _⟩
      · exact i.rsub d hd
      · exact i.sub d hd

theorem Inv.cleanTmp {c : Cfg} {s0 s : St} (i : Inv c s0 s) (upto : Nat) : Inv c s0 (cleanTmp c s upto) := by
  rw [cleanTmp_eq]
  generalize List.range upto = l
  induction l generalizing s with
  | nil => exact i
  | cons x r ih => exact ih (i.cleanPhase x)

theorem Inv.normCache {c : Cfg} {s0 s : St} (i : Inv c s0 s) : Inv c s0 (normCache c s) := by
  unfold Martian.Vdr.normCache
  split
  · exact i.cacheMap
  · rename_i es he
    refine i.setCache _ ?_
    intro e hm
    unfold updateCache at hm
    simp only [List.mem_map] at hm
    obtain ⟨e0, he0, rfl⟩ := hm
    obtain ⟨h1, h2⟩ := i.cache es he e0 he0
    refine ⟨h1, ?_⟩
    intro a ha hr
    simp only [List.mem_filter, List.contains_iff_mem]
    exact ⟨h2 a ha hr, (mem_dom_iff s a).mpr ha⟩

theorem Inv.killCore {c : Cfg} {s0 s : St} (ok : CfgOK c s0) (i : Inv c s0 s) (es : List Entry)
    (he : s.cache = some es) : Inv c s0 (killCore s es) := by
  unfold Martian.Vdr.killCore
  refine ⟨?_, ?_, ?_, ?_, ?_, ?_⟩
  · intro a h hh
    rcases i.held a h hh with h1 | h1 | h1
    · exact Or.inl h1
    · exact Or.inr (Or.inl h1)
    · exact Or.inr (Or.inr (h1.mono (fun d hd => (List.mem_filter.mp hd).1)))
  · intro es' he' e hm
    simp only [Option.some.injEq] at he'
    subst he'
    exact i.cache es he e (List.mem_filter.mp hm).1
  · intro d hm ht a h hh hr
    simp only [List.mem_append, List.mem_filter] at hm
    rcases hm with hm | ⟨hd, hk⟩
    · exact i.safe d hm ht a h hh hr
    · simp only [List.any_eq_true, List.mem_map, List.mem_filter] at hk
      obtain ⟨k, ⟨e, ⟨hes, hempty⟩, rfl⟩, hin⟩ := hk
      obtain ⟨⟨d', hd', hp'⟩, hargs⟩ := i.cache es he e hes
      have hrk : refs c a e.path = true :=
        refs_mono (ok.cleanD d (i.sub d hd)) (hp' ▸ ok.cleanD d' hd') (ok.noDbl d (i.sub d hd)) (hp' ▸ ok.noDbl d' hd') (ok.cleanF a) hin hr
      have hnd : ¬ InDom s a := by
        intro hdm
        have := hargs a hdm hrk
        have hnil : e.args = [] := by simpa using hempty
        rw [hnil] at this
        simp at this
      rcases i.held a h hh with h1 | h1 | h1
      · exact h1
      · exact absurd h1.inDom hnd
      · have := h1 d hd ht
        rw [hr] at this
        cases this
  · intro d hd; exact i.sub d (List.mem_filter.mp hd).1
  · intro d hd
    simp only [List.mem_append, List.mem_filter]
    rcases i.split d hd with h1 | h1
    · by_cases hk : (((es.filter (fun e => e.args.isEmpty)).map (·.path)).any (fun k => pathIsInside d.path k)) = true
      · exact Or.inr (Or.inr ⟨h1, hk⟩)
      · exact Or.inl ⟨h1, by simpa using hk⟩
    · exact Or.inr (Or.inl h1)
  · intro d hd
    simp only [List.mem_append, List.mem_filter] at hd
    rcases hd with hd | ⟨hd, _⟩
    · exact i.rsub d hd
    · exact i.sub d hd

theorem normCache_cache (c : Cfg) (s : St) : ∃ es, (normCache c s).cache = some es := by
  unfold normCache
  split
  · exact ⟨_, rfl⟩
  · exact ⟨_, rfl⟩

theorem Inv.vdrKillSome {c : Cfg} {s0 s : St} (ok : CfgOK c s0) (i : Inv c s0 s) (done : Bool) :
    Inv c s0 (vdrKillSome c s done) := by
  unfold Martian.Vdr.vdrKillSome
  simp only
  have i1 := i.normCache (c := c)
  obtain ⟨es, hes⟩ := normCache_cache c s
  generalize Martian.Vdr.normCache c s = s1 at *
  have hget : s1.cache.getD [] = es := by rw [hes]; rfl
  rw [hget]
  split
  · split
    · exact i1.setFinal true
    · exact i1
  · have i2 := i1.killCore ok es hes
    split
    · exact i2.setFinal true
    · exact i2


theorem Inv.vdrKill {c : Cfg} {s0 s : St} (ok : CfgOK c s0) (hv : c.volatile = true) (i : Inv c s0 s) :
    Inv c s0 (vdrKill c s) := by
  unfold Martian.Vdr.vdrKill
  split
  · exact i
  · exact i.vdrKillSome ok true

theorem Inv.removeDone {c : Cfg} {s0 s : St} (i : Inv c s0 s) :
    Inv c s0 (removePostNodes s ((s.postNodes.map (·.1)).filter (fun n => s.doneNodes.contains n))) := by
  refine i.frame (removePostNodes_frame _ s) (removePostNodes_keeps _ s) ?_
  rintro a h _ ⟨n, hn, rfl⟩
  left
  exact ⟨n, rfl, by simpa using (List.mem_filter.mp hn).2⟩

theorem Inv.kill {c : Cfg} {s0 s : St} (ok : CfgOK c s0) (hv : c.volatile = true) (i : Inv c s0 s) :
    Inv c s0 (kill c s) := by
  unfold Martian.Vdr.kill
  split
  · exact i
  · dsimp only
    have i1 := i.cleanTmp (c := c) 3
    generalize Martian.Vdr.cleanTmp c s 3 = s1 at *
    have i2 := i1.removeDone
    generalize removePostNodes s1 _ = s2 at *
    split
    · split
      · exact i2.vdrKillSome ok true
      · exact i2.vdrKill ok hv
    · split
      · exact i2.vdrKillSome ok false
      · exact i2

theorem Inv.step {c : Cfg} {s0 s : St} (ok : CfgOK c s0) (hv : c.volatile = true) (i : Inv c s0 s) (e : Ev) :
    Inv c s0 (step c s e) := by
  cases e with
  | nodeDone n => exact i.nodeDone n
  | nodeFailed n => exact i
  | nodeReset n => exact i
  | restart =>
    refine ⟨?_, ?_, i.safe, i.sub, i.split, i.rsub⟩
    · intro a h hh
      refine Or.inr (Or.inl ?_)
      obtain ⟨hs, hm, hin⟩ := hh
      exact ⟨hs, by show (a, hs) ∈ c.initArgs; rw [ok.init.1]; exact hm, hin⟩
    · intro es he; cases he
  | removeEmpty => exact i.removeEmpty ok
  | cacheMap => exact i.cacheMap
  | early upto =>
    show Inv c s0 (if s.final then s else Martian.Vdr.cleanTmp c s (min upto 3))
    split
    · exact i
    · exact i.cleanTmp _
  | kill => exact i.kill ok hv

theorem Inv.run {c : Cfg} {s0 s : St} (ok : CfgOK c s0) (hv : c.volatile = true) (i : Inv c s0 s) (evs : List Ev) :
    Inv c s0 (run c s evs) := by
  unfold Martian.Vdr.run
  induction evs generalizing s with
  | nil => exact i
  | cons e r ih => exact ih (i.step ok hv e)

/-- a fresh fork: nothing removed yet, no cache -/
structure Fresh (s0 : St) : Prop where
  removed : s0.removed = []
  cache : s0.cache = none

theorem Inv.init (c : Cfg) (s0 : St) (f : Fresh s0) : Inv c s0 s0 := by
  refine ⟨fun a h hh => Or.inr (Or.inl hh), ?_, ?_, fun d h => h, fun d h => Or.inl h, ?_⟩
  · intro es he; rw [f.cache] at he; cases he
  · intro d hm; rw [f.removed] at hm; cases hm
  · intro d hm; rw [f.removed] at hm; cases hm

end Martian.Vdr
