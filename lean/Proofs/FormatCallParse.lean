import Martian.FormatCall
import Proofs.FormatExpRound

/-!
C09: the token layer of the round trip of the call-statement printer:
`toksCall c`, and `parseCallToks (toksCall c) = some (normCall c)` for a
well-formed call.

Core Lean only.
-/

namespace Martian.FormatCall
open Martian.Lexer (Bytes)
open Martian.FormatExp

abbrev tLP : Tok := .punct 0x28
abbrev tRP : Tok := .punct 0x29
abbrev tEq : Tok := .punct 0x3D

def toksBindPre (b : Bind) : List Tok :=
  .id b.id :: tEq :: (if b.split then [.id sSplit] else [])

def toksBinds : List Bind → List Tok
  | [] => []
  | b :: r => toksBindPre b ++ toks b.exp ++ tComma :: toksBinds r

def toksCall (c : Call) : List Tok :=
  (if isMap c then [.reserved sMap] else []) ++ .reserved sCall :: .id c.decId ::
    ((if c.id = c.decId then [] else [.reserved sAs, .id c.id]) ++ tLP :: (toksBinds c.binds ++ [tRP]))

/-! ## the SPLIT keyword is recognised exactly where it was printed -/

theorem splitKw_toksDots (s : Bytes) (out : List Bytes) (rest : List Tok) :
    splitKw (.id s :: (toksDots out ++ tComma :: rest)) = none := by
  cases out <;> simp [splitKw, toksDots, splitAhead]

/-- a printed expression followed by a comma is never taken for `split …` -/
theorem splitKw_toks (e : Exp) (rest : List Tok) : splitKw (toks e ++ tComma :: rest) = none := by
  cases e with
  | null => simp [toks, splitKw]
  | nilArr => simp [toks, splitKw]
  | bool b => cases b <;> simp [toks, splitKw]
  | int i => simp [toks, splitKw]
  | float t => by_cases h : isFloatTok t = true <;> simp [toks, splitKw, h]
  | str s => simp [toks, splitKw]
  | arr xs =>
    match xs with
    | [] => simp [toks, splitKw]
    | [x] => by_cases h : single x = true <;> simp [toks, splitKw, h]
    | x :: y :: r => simp [toks, splitKw]
  | map kvs => cases kvs <;> simp [toks, splitKw]
  | struct kvs => cases kvs <;> simp [toks, splitKw]
  | ref self id out =>
    simp only [toks, toksRef]
    cases self with
    | true => simp [splitKw]
    | false =>
      by_cases hd : out = [sDefault]
      · simp [hd, splitKw, splitAhead]
      · simp only [Bool.false_eq_true, ↓reduceIte, hd, List.cons_append]
        exact splitKw_toksDots id out rest

/-- the value of a split binding starts with a token the automaton shifts on -/
theorem splitAhead_toks (e : Exp) (rest : List Tok) (h : isSplitVal e = true) :
    splitAhead (toks e ++ rest) = true := by
  cases e with
  | arr xs =>
    match xs with
    | [] => simp [isSplitVal] at h
    | [x] => by_cases hs : single x = true <;> simp [toks, splitAhead, hs]
    | x :: y :: r => simp [toks, splitAhead]
  | map kvs =>
    cases kvs with
    | nil => simp [isSplitVal] at h
    | cons kv r => simp [toks, splitAhead]
  | ref self id out =>
    simp only [toks, toksRef]
    cases self with
    | true => simp [splitAhead]
    | false => by_cases hd : out = [sDefault] <;> simp [hd, splitAhead]
  | _ => simp [isSplitVal] at h

theorem isSplitVal_norm (e : Exp) : isSplitVal (norm e) = isSplitVal e := by
  cases e with
  | arr xs => cases xs <;> simp [norm, normL, isSplitVal]
  | map kvs =>
    cases kvs with
    | nil => simp [norm, normKV, isSplitVal]
    | cons kv r => obtain ⟨k, v⟩ := kv; simp [norm, normKV, isSplitVal]
  | struct kvs => cases kvs <;> simp [norm, isSplitVal]
  | float t =>
    simp only [norm]
    split
    · rfl
    · split <;> rfl
  | _ => simp [norm, isSplitVal]

/-! ## one binding -/

theorem pBind_toks (m : Bool) (fe : Nat) (b : Bind) (rest : List Tok) (hw : wfBind b = true)
    (hm : b.split = true → m = true) (hf : cost b.exp ≤ fe) :
    pBind m fe (toksBindPre b ++ toks b.exp ++ tComma :: rest) = some (normBind b, rest) := by
  obtain ⟨x, sp, e⟩ := b
  simp only [wfBind, Bool.and_eq_true, Bool.or_eq_true, Bool.not_eq_true'] at hw
  obtain ⟨⟨_, hwe⟩, hsv⟩ := hw
  have hp := pExp_toks e fe (tComma :: rest) hwe hf (noDot_comma rest)
  cases sp with
  | false =>
    have hk : (if m = true then splitKw (toks e ++ tComma :: rest) else none) = none := by
      rw [splitKw_toks]; simp
    simp only [toksBindPre, Bool.false_eq_true, ↓reduceIte, List.cons_append, List.nil_append,
      pBind, hk, hp, normBind]
  | true =>
    have hm' : m = true := hm rfl
    have hsv' : isSplitVal e = true := by
      rcases hsv with h | h
      · exact absurd h (by simp)
      · exact h
    have hk : (if m = true then splitKw (.id sSplit :: (toks e ++ tComma :: rest)) else none) =
        some (toks e ++ tComma :: rest) := by
      simp [hm', splitKw, splitAhead_toks e _ hsv']
    simp only [toksBindPre, ↓reduceIte, List.cons_append, List.nil_append,
      pBind, hk, hp, normBind, isSplitVal_norm, hsv']

/-! ## the binding list -/

theorem pBinds_toks (m : Bool) (fe : Nat) : ∀ (bs : List Bind) (f : Nat),
    bs.all wfBind = true → (∀ b ∈ bs, b.split = true → m = true) →
    (∀ b ∈ bs, cost b.exp ≤ fe) → bs.length < f →
    pBinds m fe f (toksBinds bs ++ [tRP]) = some (bs.map normBind, [tRP])
  | [], f, _, _, _, hf => by
    obtain ⟨f, rfl⟩ : ∃ g, f = g + 1 := ⟨f - 1, by simp at hf; omega⟩
    simp [toksBinds, pBinds]
  | b :: bs, f, hw, hm, hc, hf => by
    obtain ⟨f, rfl⟩ : ∃ g, f = g + 1 := ⟨f - 1, by simp at hf; omega⟩
    simp only [List.all_cons, Bool.and_eq_true] at hw
    have h1 := pBind_toks m fe b (toksBinds bs ++ [tRP]) hw.1
      (hm b (List.mem_cons_self ..)) (hc b (List.mem_cons_self ..))
    have ih := pBinds_toks m fe bs f hw.2 (fun b' hb' => hm b' (List.mem_cons_of_mem _ hb'))
      (fun b' hb' => hc b' (List.mem_cons_of_mem _ hb')) (by simp at hf; omega)
    have hshape : toksBinds (b :: bs) ++ [tRP] =
        toksBindPre b ++ toks b.exp ++ tComma :: (toksBinds bs ++ [tRP]) := by
      simp [toksBinds]
    rw [hshape]
    have hhead : toksBindPre b ++ toks b.exp ++ tComma :: (toksBinds bs ++ [tRP]) =
        .id b.id :: tEq :: ((if b.split then [.id sSplit] else []) ++ toks b.exp ++
          tComma :: (toksBinds bs ++ [tRP])) := by
      simp [toksBindPre]
    rw [pBinds, ← hhead] at *
    · simp only [h1, ih, Option.map_some, List.map_cons]
    · rw [hhead]; intro r h; cases h

/-! ## the statement -/

theorem toksBinds_length_le (bs : List Bind) : ∀ b ∈ bs, (toks b.exp).length ≤ (toksBinds bs).length := by
  induction bs with
  | nil => intro b hb; cases hb
  | cons a bs ih =>
    intro b hb
    simp only [toksBinds, List.length_append, List.length_cons]
    rcases List.mem_cons.1 hb with rfl | hb
    · omega
    · have := ih b hb; omega

theorem toksBinds_length_ge (bs : List Bind) : bs.length ≤ (toksBinds bs).length := by
  induction bs with
  | nil => simp
  | cons a bs ih => simp only [toksBinds, List.length_append, List.length_cons]; omega

theorem any_split_norm (bs : List Bind) : (bs.map normBind).any (·.split) = bs.any (·.split) := by
  induction bs with
  | nil => rfl
  | cons a bs ih => simp [normBind, ih]

theorem sMap_ne_sCall : sCall ≠ sMap := by decide

/-- **Token layer.**  The reader accepts the token sequence of a well-formed call and returns
the call with every binding expression normalised. -/
theorem parseCallToks_toks (c : Call) (hw : wfCall c = true) :
    parseCallToks (toksCall c) = some (normCall c) := by
  obtain ⟨d, i, bs⟩ := c
  simp only [wfCall, Bool.and_eq_true] at hw
  have hlenB : (toksBinds bs).length + 1 ≤ (toksCall ⟨d, i, bs⟩).length := by
    simp only [toksCall, List.length_append, List.length_cons]; omega
  have hb := pBinds_toks (isMap ⟨d, i, bs⟩) (2 * (toksCall ⟨d, i, bs⟩).length + 1) bs
    ((toksCall ⟨d, i, bs⟩).length + 1) hw.2
    (fun b hb hs => by
      simp only [isMap, List.any_eq_true]; exact ⟨b, hb, hs⟩)
    (fun b hb => by
      have h1 := cost_le b.exp
      have h2 := toksBinds_length_le bs b hb
      omega)
    (by have := toksBinds_length_ge bs; omega)
  have hmk : pMapKw (toksCall ⟨d, i, bs⟩) = (isMap ⟨d, i, bs⟩, .reserved sCall :: .id d ::
      ((if i = d then [] else [.reserved sAs, .id i]) ++ tLP :: (toksBinds bs ++ [tRP]))) := by
    cases hm : isMap ⟨d, i, bs⟩ with
    | true => simp [toksCall, hm, pMapKw]
    | false => simp [toksCall, hm, pMapKw, sMap_ne_sCall]
  have hh : pHead (.reserved sCall :: .id d ::
      ((if i = d then [] else [.reserved sAs, .id i]) ++ tLP :: (toksBinds bs ++ [tRP]))) =
      some (d, i, toksBinds bs ++ [tRP]) := by
    by_cases hid : i = d
    · simp [hid, pHead]
    · simp [hid, pHead]
  unfold parseCallToks
  rw [hmk]
  simp only [hh, hb, any_split_norm, normCall]
  simp [isMap]

end Martian.FormatCall
