/-
C01 — the refinement "two-phase resolver = den" for PLAIN programs (no map call,
no `disabled` modifier): E (`eval_resolveRefs`) and the induction over the call
graph (`refine_callable`, `refine_calls`, `twoPhase_eq_den`).
-/
import Proofs.ResolverStaticExp2

namespace Proofs.ResolverStatic
open Martian.Dataflow Martian.Resolver Martian.ResolverForks Martian.ResolverStatic Proofs.Dataflow
  Proofs.ResolverForks

/-! ## typing of source expressions -/

def selfTyOf (pins : List Param) (p : String) : Ty :=
  ((pins.find? (fun q => q.name == p)).map (·.ty)).getD badTy

def callTyOf (L : List (String × Ty)) (c : String) : Ty := (L.lookup c).getD badTy

mutual
/-- the source expression `e` may be bound where `t` is expected (`sT` / `cT`: types
of the enclosing pipeline's inputs / of the earlier calls' output structs) -/
def HasTy (st : StructTable) (sT cT : String → Ty) : Ty → Exp → Prop
  | t, .lit j => LitOk st t j
  | t, .arr xs => t.arrDim ≠ 0 ∧ HasTyList st sT cT { t with arrDim := t.arrDim - 1 } xs
  | t, .map kvs =>
    (t.arrDim = 0 ∧ t.mapDim ≠ 0 ∧ HasTyFields st sT cT ⟨t.base, 0, t.mapDim - 1⟩ kvs) ∨
    -- a reference-free literal where an untyped `map` is expected
    (t.arrDim = 0 ∧ t.mapDim = 0 ∧ st.lookup t.base = none ∧ Exp.isJsonFields kvs = true)
  | t, .struct kvs => t.arrDim = 0 ∧ t.mapDim = 0 ∧
      ∃ ps, st.lookup t.base = some ps ∧ HasTyMembers st sT cT ps kvs ∧ ∀ p ∈ ps, (kvs.lookup p.name).isSome
  | t, .self p path => PathOk st (sT p) path ∧ Sub st (pathTy st (sT p) path) t
  | t, .ref c path => PathOk st (cT c) path ∧ Sub st (pathTy st (cT c) path) t
def HasTyList (st : StructTable) (sT cT : String → Ty) : Ty → List Exp → Prop
  | _, [] => True
  | t, e :: es => HasTy st sT cT t e ∧ HasTyList st sT cT t es
def HasTyFields (st : StructTable) (sT cT : String → Ty) : Ty → List (String × Exp) → Prop
  | _, [] => True
  | t, (_, e) :: es => HasTy st sT cT t e ∧ HasTyFields st sT cT t es
def HasTyMembers (st : StructTable) (sT cT : String → Ty) : List Param → List (String × Exp) → Prop
  | _, [] => True
  | ps, (k, e) :: es =>
    ((ps.find? fun p => p.name == k).isSome → HasTy st sT cT (memberTy ps k) e) ∧ HasTyMembers st sT cT ps es
end

/-! ## the environment relation -/

def σexp (m : RBMap) (k : String) : RExp :=
  match m.lookup k with
  | some rb => rb.exp
  | none => .lit .null

/-- den's environment (values) against the static environment (resolved expressions):
every value is the run-time evaluation of the resolved expression at its declared type, in
every fork assignment of the set `Fs` (plain programs: only the empty one; with map calls:
all — the resolved expressions of an environment are closed: every reference to a forked
node stands below the `fork` annotation that selects its fork) -/
structure EnvRel (st : StructTable) (F : Nat) (ρ : Store) (Fs : ForkAssign → Prop) (env : Env)
    (sf sb : RBMap) : Prop where
  hself : ∀ p, HasTyR st (env.selfTy p) (σexp sf p) ∧
    ∀ f, Fs f → env.selfVal.field p = evalRT st F ρ f (env.selfTy p) (σexp sf p)
  hcall : ∀ c, HasTyR st (env.callTy c) (σexp sb c) ∧
    ∀ f, Fs f → env.callVal c = evalRT st F ρ f (env.callTy c) (σexp sb c)
  hdom : ∀ c, (env.calls.lookup c).isSome = (sb.lookup c).isSome

theorem bpR_lit_null (fld : String) (j : J) : bpR fld (.lit j) = .lit .null := by simp [bpR]

theorem bpPath_lit_null : ∀ (path : List String), bpPath path (.lit .null) = .lit .null
  | [] => rfl
  | g :: r => by simp [bpPath, bpR, bpPath_lit_null r]

theorem resolveRefs_self (self sib : RBMap) (p : String) (path : List String) :
    resolveRefs self sib (.self p path) = bpPath path (σexp self p) := by
  simp only [resolveRefs, σexp]
  cases self.lookup p <;> simp [bpPath_lit_null]

theorem resolveRefs_ref (self sib : RBMap) (c : String) (path : List String) :
    resolveRefs self sib (.ref c path) = bpPath path (σexp sib c) := by
  simp only [resolveRefs, σexp]
  cases sib.lookup c <;> simp [bpPath_lit_null]

theorem mem_resolveRefsFields (self sib : RBMap) :
    ∀ (kvs : List (String × Exp)) (k : String) (e' : RExp), (k, e') ∈ resolveRefsFields self sib kvs →
      ∃ e, (k, e) ∈ kvs ∧ e' = resolveRefs self sib e
  | [], _, _, h => by simp [resolveRefsFields] at h
  | (k', e0) :: es, k, e', h => by
    simp only [resolveRefsFields, List.mem_cons, Prod.mk.injEq] at h
    cases h with
    | inl h => exact ⟨e0, by simp [h.1], h.2⟩
    | inr h =>
      obtain ⟨e, he, hr⟩ := mem_resolveRefsFields self sib es k e' h
      exact ⟨e, by simp [he], hr⟩

/-! ## reference-free literals -/

mutual
theorem resolveRefs_json (st : StructTable) (env : Env) (ρ : Store) (f : ForkAssign) (self sib : RBMap) :
    ∀ e : Exp, Exp.isJson e = true →
      jsonR (resolveRefs self sib e) = true ∧ evalR st ρ f (resolveRefs self sib e) = eval st env e
  | .lit j, _ => by simp [resolveRefs, jsonR, evalR, eval]
  | .arr xs, h => by
    simp only [Exp.isJson] at h
    have := resolveRefs_jsonList st env ρ f self sib xs h
    simp only [resolveRefs, jsonR, evalR, eval, this.1, this.2, and_self]
  | .map kvs, h => by
    simp only [Exp.isJson] at h
    have := resolveRefs_jsonFields st env ρ f self sib kvs h
    simp only [resolveRefs, jsonR, evalR, eval, this.1, this.2, and_self]
  | .struct _, h => by simp [Exp.isJson] at h
  | .self _ _, h => by simp [Exp.isJson] at h
  | .ref _ _, h => by simp [Exp.isJson] at h
theorem resolveRefs_jsonList (st : StructTable) (env : Env) (ρ : Store) (f : ForkAssign) (self sib : RBMap) :
    ∀ es : List Exp, Exp.isJsonList es = true →
      jsonRList (resolveRefsList self sib es) = true ∧
      evalRList st ρ f (resolveRefsList self sib es) = evalList st env es
  | [], _ => by simp [resolveRefsList, jsonRList, evalRList, evalList]
  | e :: es, h => by
    simp only [Exp.isJsonList, Bool.and_eq_true] at h
    have h1 := resolveRefs_json st env ρ f self sib e h.1
    have h2 := resolveRefs_jsonList st env ρ f self sib es h.2
    simp only [resolveRefsList, jsonRList, evalRList, evalList, h1.1, h1.2, h2.1, h2.2, Bool.and_self, and_self]
theorem resolveRefs_jsonFields (st : StructTable) (env : Env) (ρ : Store) (f : ForkAssign) (self sib : RBMap) :
    ∀ es : List (String × Exp), Exp.isJsonFields es = true →
      jsonRFields (resolveRefsFields self sib es) = true ∧
      evalRFields st ρ f (resolveRefsFields self sib es) = evalFields st env es
  | [], _ => by simp [resolveRefsFields, jsonRFields, evalRFields, evalFields]
  | (k, e) :: es, h => by
    simp only [Exp.isJsonFields, Bool.and_eq_true] at h
    have h1 := resolveRefs_json st env ρ f self sib e h.1
    have h2 := resolveRefs_jsonFields st env ρ f self sib es h.2
    simp only [resolveRefsFields, jsonRFields, evalRFields, evalFields, h1.1, h1.2, h2.1, h2.2, Bool.and_self,
      and_self]
end

/-! ## E -/

section E
variable (st : StructTable) (hst : StructsOk st) (F : Nat) (hF : NarrowFix st F) (ρ : Store)
  (Fs : ForkAssign → Prop) (env : Env) (self sib : RBMap) (hrel : EnvRel st F ρ Fs env self sib)
  (f : ForkAssign) (hf : Fs f)
include hst hF hrel hf

mutual
theorem eval_resolveRefs :
    ∀ (e : Exp) (t : Ty), HasTy st env.selfTy env.callTy t e →
      narrow st F t (eval st env e) = evalRT st F ρ f t (resolveRefs self sib e) ∧
      HasTyR st t (resolveRefs self sib e)
  | .lit j, t, h => by
    simp only [HasTy] at h
    simp only [eval, resolveRefs]
    have := narrow_evalRT st hst F hF ρ (.lit j) t t f (by simpa [HasTyR] using h) (Sub.refl t)
    simpa [evalRT] using this
  | .arr xs, t, h => by
    obtain ⟨b, m, a⟩ := t
    simp only [HasTy] at h
    cases a with
    | zero => exact absurd rfl h.1
    | succ n =>
      have ih := eval_resolveRefsList xs ⟨b, m, n⟩ h.2
      simp only [eval, resolveRefs, evalRT, Nat.add_sub_cancel, narrow_arr hF, ih.1, HasTyR]
      exact ⟨trivial, by simp, ih.2⟩
  | .map kvs, t, h => by
    obtain ⟨b, m, a⟩ := t
    simp only [HasTy] at h
    rcases h with ⟨ha, hm, hk⟩ | ⟨ha, hm, hl, hj⟩
    · try simp only at ha hm
      subst ha
      cases m with
      | zero => exact absurd rfl hm
      | succ k =>
        have ih := eval_resolveRefsFields kvs ⟨b, 0, k⟩ hk
        have c : ((0 : Nat) == 0 && (k + 1 != 0)) = true := by simp
        simp only [eval, resolveRefs, evalRT, c, if_true, Nat.add_sub_cancel, narrow_obj hF, ih.1, HasTyR]
        exact ⟨trivial, Or.inl ⟨trivial, by simp, ih.2⟩⟩
    · -- a reference-free literal where an untyped `map` is expected: it is delivered as it stands
      try simp only at ha hm hl
      subst ha; subst hm
      have hj' : Exp.isJson (.map kvs) = true := by simpa [Exp.isJson] using hj
      obtain ⟨j1, j2⟩ := resolveRefs_json st env ρ f self sib (.map kvs) hj'
      refine ⟨?_, ?_⟩
      · rw [narrow_scalar hF b hl, evalRT_json st F ρ _ ⟨b, 0, 0⟩ f j1 rfl hl, j2]
      · simp only [resolveRefs, jsonR] at j1
        simp only [resolveRefs, HasTyR]
        exact Or.inr ⟨trivial, trivial, hl, j1⟩
  | .struct kvs, t, h => by
    obtain ⟨b, m, a⟩ := t
    simp only [HasTy] at h
    obtain ⟨ha, hm, ps, hl, hmem, hall⟩ := h
    try simp only at ha hm hl
    subst ha; subst hm
    have hn := hst _ _ hl
    have c2 : ((0 : Nat) == 0 && (0 : Nat) != 0) = false := by decide
    constructor
    · simp only [eval, resolveRefs, evalRT, c2, Bool.false_eq_true, if_false, hl]
      rw [narrow_struct hF b ps hl]
      simp only [J.obj.injEq]
      apply List.map_congr_left
      intro p hp
      simp only [Prod.mk.injEq, true_and]
      have hfind := find_name_of_nodup ps hn p hp
      rw [lookup_evalRTMembers, lookup_resolveRefsFields, memberTy_find ps p.name p hfind]
      simp only [J.field, lookup_evalFields]
      have hsome := hall p hp
      cases he : kvs.lookup p.name with
      | none => simp [he] at hsome
      | some e =>
        simp only [Option.map_some, Option.getD_some]
        exact (eval_resolveRefsMembers ps kvs hmem p.name e (mem_of_lookup kvs _ _ he) p hfind).1
    · simp only [resolveRefs, HasTyR]
      refine ⟨trivial, trivial, ps, hl, ?_, ?_⟩
      · apply HasTyRMembers_of_mem
        intro k e' hke hsome
        obtain ⟨e, he, hr⟩ := mem_resolveRefsFields self sib kvs k e' hke
        subst hr
        cases hf' : ps.find? (fun q => q.name == k) with
        | none => simp [hf'] at hsome
        | some p =>
          rw [memberTy_find ps k p hf']
          exact (eval_resolveRefsMembers ps kvs hmem k e he p hf').2
      · intro p hp
        rw [lookup_resolveRefsFields]
        have := hall p hp
        cases he : kvs.lookup p.name with
        | none => simp [he] at this
        | some e => simp
  | .self p path, t, h => by
    simp only [HasTy] at h
    obtain ⟨hp, hs⟩ := h
    obtain ⟨hty, hval⟩ := hrel.hself p
    have h1 := projPath_evalRT st hst F hF ρ f path (σexp self p) (env.selfTy p) hty hp
    have h2 := narrow_evalRT st hst F hF ρ _ _ t f h1.2 hs
    rw [resolveRefs_self]
    simp only [eval, hval f hf, h1.1]
    exact h2
  | .ref c path, t, h => by
    simp only [HasTy] at h
    obtain ⟨hp, hs⟩ := h
    obtain ⟨hty, hval⟩ := hrel.hcall c
    have h1 := projPath_evalRT st hst F hF ρ f path (σexp sib c) (env.callTy c) hty hp
    have h2 := narrow_evalRT st hst F hF ρ _ _ t f h1.2 hs
    rw [resolveRefs_ref]
    simp only [eval, hval f hf, h1.1]
    exact h2
theorem eval_resolveRefsList :
    ∀ (es : List Exp) (t : Ty), HasTyList st env.selfTy env.callTy t es →
      (evalList st env es).map (narrow st F t) = evalRTList st F ρ f t (resolveRefsList self sib es) ∧
      HasTyRList st t (resolveRefsList self sib es)
  | [], _, _ => by simp [evalList, resolveRefsList, evalRTList, HasTyRList]
  | e :: es, t, h => by
    simp only [HasTyList] at h
    have h1 := eval_resolveRefs e t h.1
    have h2 := eval_resolveRefsList es t h.2
    simp only [evalList, resolveRefsList, evalRTList, List.map_cons, h1.1, h2.1, HasTyRList]
    exact ⟨trivial, h1.2, h2.2⟩
theorem eval_resolveRefsFields :
    ∀ (kvs : List (String × Exp)) (t : Ty), HasTyFields st env.selfTy env.callTy t kvs →
      (evalFields st env kvs).map (fun kv => (kv.1, narrow st F t kv.2))
        = evalRTFields st F ρ f t (resolveRefsFields self sib kvs) ∧
      HasTyRFields st t (resolveRefsFields self sib kvs)
  | [], _, _ => by simp [evalFields, resolveRefsFields, evalRTFields, HasTyRFields]
  | (k, e) :: es, t, h => by
    simp only [HasTyFields] at h
    have h1 := eval_resolveRefs e t h.1
    have h2 := eval_resolveRefsFields es t h.2
    simp only [evalFields, resolveRefsFields, evalRTFields, List.map_cons, h1.1, h2.1, HasTyRFields]
    exact ⟨trivial, h1.2, h2.2⟩
theorem eval_resolveRefsMembers (ps : List Param) :
    ∀ (kvs : List (String × Exp)), HasTyMembers st env.selfTy env.callTy ps kvs →
      ∀ (k : String) (e : Exp), (k, e) ∈ kvs → ∀ (p : Param), ps.find? (fun q => q.name == k) = some p →
        narrow st F p.ty (eval st env e) = evalRT st F ρ f p.ty (resolveRefs self sib e) ∧
        HasTyR st p.ty (resolveRefs self sib e)
  | [], _, _, _, h, _, _ => by simp at h
  | (k', e') :: es, hm, k, e, h, p, hf => by
    simp only [HasTyMembers] at hm
    simp only [List.mem_cons, Prod.mk.injEq] at h
    cases h with
    | inl h =>
      obtain ⟨rfl, rfl⟩ := h
      have hty := hm.1 (by simp [hf])
      rw [memberTy_find ps k p hf] at hty
      exact eval_resolveRefs e p.ty hty
    | inr h => exact eval_resolveRefsMembers ps es hm.2 k e h p hf
end

/-- E followed by L0: what `resolveExp` (resolveRefs, then filter) produces -/
theorem eval_resolveExp (e : Exp) (t : Ty) (h : HasTy st env.selfTy env.callTy t e) :
    narrow st F t (eval st env e) = evalRT st F ρ f t (filterR st t (resolveRefs self sib e)) ∧
    HasTyR st t (filterR st t (resolveRefs self sib e)) := by
  have h1 := eval_resolveRefs st hst F hF ρ Fs env self sib hrel f hf e t h
  have h2 := evalRT_filterR st hst F ρ f (resolveRefs self sib e) t h1.2
  exact ⟨h1.1.trans h2.1.symm, h2.2⟩

end E

end Proofs.ResolverStatic
