/-
JSON values at byte level (Martian/JsonBytes.lean): numbers, strings and whole values written by
the canonical printer are read back by the parser; the splice lemmas (`den_spliceArr`,
`den_spliceObj`: a container written from pieces that denote trees denotes the tree of those
trees) on which every statement about martian's raw-message writers rests.  Core Lean only.
-/
import Martian.JsonBytes
import Proofs.InvocationStr

namespace Martian.JsonBytes
open Martian.Json (J Num)
open Martian.Lexer (Bytes)

/-- what may follow a value: end of input, `,`, `]`, `}`, white space -/
def delim : Bytes → Bool
  | [] => true
  | c :: _ => c == 0x2C || c == 0x5D || c == 0x7D || isWs c

theorem digitChar_isDigit (d : Nat) (h : d < 10) : isDigit (digitChar d) = true := by
  have : ∀ d, d < 10 → isDigit (digitChar d) = true := by decide
  exact this d h

theorem digitChar_val (d : Nat) (h : d < 10) : (digitChar d).toNat - 48 = d := by
  have : ∀ d, d < 10 → (digitChar d).toNat - 48 = d := by decide
  exact this d h

theorem digitChar_ne0 (d : Nat) (h : d < 10) (h0 : 0 < d) : digitChar d ≠ 0x30 := by
  have : ∀ d, d < 10 → 0 < d → digitChar d ≠ 0x30 := by decide
  exact this d h h0

theorem decValFrom_append (a : Nat) (xs ys : Bytes) :
    decValFrom a (xs ++ ys) = decValFrom (decValFrom a xs) ys := by
  simp [decValFrom, List.foldl_append]

/-- the digits `natDigitsAux` puts in front of the accumulator -/
theorem natDigitsAux_spec : ∀ (f n : Nat) (acc : Bytes), n < f →
    ∃ ds : Bytes, natDigitsAux f n acc = ds ++ acc ∧ ds ≠ [] ∧ (∀ c ∈ ds, isDigit c = true) ∧
      (∀ a, decValFrom a ds = a * 10 ^ ds.length + n) ∧ (0 < n → ds.head? ≠ some 0x30) ∧
      (n = 0 → ds = [0x30]) := by
  intro f
  induction f with
  | zero => intro n acc h; omega
  | succ f ih =>
    intro n acc h
    by_cases hn : n < 10
    · refine ⟨[digitChar n], by simp [natDigitsAux, hn], by simp, ?_, ?_, ?_, ?_⟩
      · intro c hc; simp at hc; subst hc; exact digitChar_isDigit n hn
      · intro a; simp [decValFrom, digitChar_val n hn]; omega
      · intro h0; simp; exact digitChar_ne0 n hn h0
      · intro h0; subst h0; rfl
    · obtain ⟨ds', he, hne, hd, hv, hh, _⟩ := ih (n / 10) (digitChar (n % 10) :: acc) (by omega)
      refine ⟨ds' ++ [digitChar (n % 10)], ?_, by simp, ?_, ?_, ?_, ?_⟩
      · simp [natDigitsAux, hn, he]
      · intro c hc
        simp only [List.mem_append, List.mem_singleton] at hc
        rcases hc with hc | rfl
        · exact hd c hc
        · exact digitChar_isDigit _ (by omega)
      · intro a
        rw [decValFrom_append, hv a]
        simp only [decValFrom, List.foldl_cons, List.foldl_nil, List.length_append, List.length_singleton,
          digitChar_val (n % 10) (by omega)]
        rw [Nat.pow_succ]
        have := Nat.div_add_mod n 10
        calc 10 * (a * 10 ^ ds'.length + n / 10) + n % 10
            = a * (10 ^ ds'.length * 10) + (10 * (n / 10) + n % 10) := by
              rw [Nat.mul_add, Nat.add_assoc]; congr 1
              rw [← Nat.mul_assoc, Nat.mul_comm 10 a, Nat.mul_assoc, Nat.mul_comm 10]
          _ = a * (10 ^ ds'.length * 10) + n := by rw [this]
      · intro _
        have h1 := hh (by omega)
        cases ds' with
        | nil => exact absurd rfl hne
        | cons c t => simpa using h1
      · intro h0; omega

theorem natDigits_spec (n : Nat) :
    natDigits n ≠ [] ∧ (∀ c ∈ natDigits n, isDigit c = true) ∧ decVal (natDigits n) = n ∧
      (0 < n → (natDigits n).head? ≠ some 0x30) ∧ (n = 0 → natDigits n = [0x30]) := by
  obtain ⟨ds, he, hne, hd, hv, hh, h0⟩ := natDigitsAux_spec (n + 1) n [] (by omega)
  have : natDigits n = ds := by simp [natDigits, he]
  rw [this]
  refine ⟨hne, hd, ?_, hh, h0⟩
  have := hv 0
  simpa [decVal] using this

theorem spanDigits_append (ds rest : Bytes) (hd : ∀ c ∈ ds, isDigit c = true)
    (hr : ∀ c t, rest = c :: t → isDigit c = false) : spanDigits (ds ++ rest) = (ds, rest) := by
  induction ds with
  | nil =>
    cases rest with
    | nil => rfl
    | cons c t => simp [spanDigits, hr c t rfl]
  | cons d ds ih =>
    have hd' : isDigit d = true := hd d (by simp)
    have := ih (fun c hc => hd c (by simp [hc]))
    simp [spanDigits, hd', this]


theorem delim_head {c : UInt8} {t : Bytes} (h : delim (c :: t) = true) :
    isDigit c = false ∧ (c == 0x2E) = false ∧ (c == 0x65 || c == 0x45) = false ∧ (c == 0x2D) = false
      ∧ (c == 0x2B) = false := by
  simp only [delim, isWs, Bool.or_eq_true, beq_iff_eq] at h
  rcases h with ((h | h) | h) | (((h | h) | h) | h) <;> subst h <;> decide

theorem natDigits_head (n : Nat) : ∃ d t, natDigits n = d :: t ∧ isDigit d = true := by
  obtain ⟨hne, hd, _⟩ := natDigits_spec n
  cases h : natDigits n with
  | nil => exact absurd h hne
  | cons d t => exact ⟨d, t, rfl, hd d (by simp [h])⟩

theorem digit_ne {d : UInt8} (h : isDigit d = true) : (d == 0x2D) = false ∧ (d == 0x2B) = false := by
  simp only [isDigit, Bool.and_eq_true, decide_eq_true_eq, UInt8.le_iff_toNat_le] at h
  have e1 : (0x30 : UInt8).toNat = 48 := rfl
  rw [e1] at h
  constructor <;> (apply Bool.eq_false_iff.mpr; intro hh; have := eq_of_beq hh; subst this; revert h; decide)

theorem splitMinus_printInt (v : Int) (T : Bytes) :
    splitMinus (printInt v ++ T) = (decide (v < 0), natDigits v.natAbs ++ T) := by
  obtain ⟨d, t, hd, hdig⟩ := natDigits_head v.natAbs
  unfold printInt
  by_cases hv : v < 0
  · simp [hv, splitMinus]
  · simp [hv, splitMinus, hd, (digit_ne hdig).1]

theorem splitSign_printInt (v : Int) (T : Bytes) :
    splitSign (printInt v ++ T) = (decide (v < 0), natDigits v.natAbs ++ T) := by
  obtain ⟨d, t, hd, hdig⟩ := natDigits_head v.natAbs
  unfold printInt
  by_cases hv : v < 0
  · simp [hv, splitSign]
  · simp [hv, splitSign, hd, (digit_ne hdig).1, (digit_ne hdig).2]

theorem signed_natAbs (v : Int) : signed (decide (v < 0)) v.natAbs = v := by
  unfold signed
  by_cases hv : v < 0 <;> simp [hv] <;> omega

theorem leading_ok (n : Nat) : ((natDigits n).length > 1 && (natDigits n).head? == some 0x30) = false := by
  obtain ⟨_, _, _, hh, h0⟩ := natDigits_spec n
  by_cases hn : n = 0
  · rw [h0 hn]; rfl
  · have := hh (by omega)
    cases h : (natDigits n).head? with
    | none => simp
    | some c =>
      have : c ≠ 0x30 := by intro hc; subst hc; exact this h
      simp [this]

/-- numbers: the parser reads back what the printer writes, before any delimiter -/
theorem parseNum_printNum (n : Num) (rest : Bytes) (hr : delim rest = true) :
    parseNum (printNum n ++ rest) = some (n, rest) := by
  have hrest : ∀ c t, rest = c :: t → isDigit c = false := fun c t h => by
    subst h; exact (delim_head hr).1
  cases n with
  | int v =>
    obtain ⟨hne, hd, hval, _, _⟩ := natDigits_spec v.natAbs
    have hspan := spanDigits_append (natDigits v.natAbs) rest hd hrest
    have hfrac : parseFrac rest = some ([], rest) := by
      cases rest with
      | nil => rfl
      | cons c t => simp [parseFrac, (delim_head hr).2.1]
    have hexp : parseExp rest = some (none, rest) := by
      cases rest with
      | nil => rfl
      | cons c t => simp [parseExp, (delim_head hr).2.2.1]
    simp only [parseNum, printNum, splitMinus_printInt, hspan, hne, ↓reduceIte, leading_ok,
      Bool.false_eq_true, hfrac, hexp, hval, signed_natAbs]
    simp
  | flt m e =>
    obtain ⟨hne, hd, hval, _, _⟩ := natDigits_spec m.natAbs
    obtain ⟨hne2, hd2, hval2, _, _⟩ := natDigits_spec e.natAbs
    have hspan := spanDigits_append (natDigits m.natAbs) (0x65 :: (printInt e ++ rest)) hd
      (fun c t h => by injection h with h1 _; subst h1; decide)
    have hspan2 := spanDigits_append (natDigits e.natAbs) rest hd2 hrest
    have hfrac : parseFrac (0x65 :: (printInt e ++ rest)) = some ([], 0x65 :: (printInt e ++ rest)) := by
      simp [parseFrac]
    have hexp : parseExp (0x65 :: (printInt e ++ rest)) = some (some e, rest) := by
      simp only [parseExp, beq_self_eq_true, Bool.true_or, ↓reduceIte, splitSign_printInt, hspan2, hne2, hval2,
        signed_natAbs]
    simp only [parseNum, printNum, List.append_assoc, List.cons_append, splitMinus_printInt, hspan, hne,
      ↓reduceIte, leading_ok, Bool.false_eq_true, hfrac, hexp, List.append_nil, hval, signed_natAbs]
    simp

end Martian.JsonBytes

namespace Martian.JsonBytes
open Martian.Json (J Num)
open Martian.Lexer (Bytes)
open Martian.Format (Pend escAscii escFFFD esc2028 esc2029 hexDigit)
open Martian.InvocationStr (encFrom jsonEsc escU00 jsonEncodeString jsonDecLoop dec_encFrom dec_jsonEsc jsonEsc_len pendK)
open Martian.ShellQuote (runeWidth validUtf8)

/-- a chunk of string body the scanner passes over as a whole -/
def Safe (B : Bytes) : Prop := ∀ Y, strEnd (B ++ Y) = (strEnd Y).map fun p => (B ++ p.1, p.2)

theorem Safe.nil : Safe [] := by
  intro Y; cases h : strEnd Y <;> simp [h]

theorem Safe.append {A B : Bytes} (ha : Safe A) (hb : Safe B) : Safe (A ++ B) := by
  intro Y
  rw [List.append_assoc, ha (B ++ Y), hb Y]
  cases h : strEnd Y <;> simp

theorem Safe.plain (c : UInt8) (h1 : (c == 0x22) = false) (h2 : (c == 0x5C) = false) : Safe [c] := by
  intro Y
  show strEnd (c :: Y) = _
  simp [strEnd, strEndAux, h1, h2]

theorem Safe.esc (c : UInt8) : Safe [0x5C, c] := by
  intro Y
  cases h : strEndAux false Y <;> simp [strEnd, strEndAux, h]

theorem hexDigit_plain (n : Nat) (h : n < 16) :
    (hexDigit n == 0x22) = false ∧ (hexDigit n == 0x5C) = false := by
  have : ∀ n, n < 16 → (hexDigit n == 0x22) = false ∧ (hexDigit n == 0x5C) = false := by decide
  exact this n h

theorem Safe.u4 (a b c d : UInt8) (ha : (a == 0x22) = false ∧ (a == 0x5C) = false)
    (hb : (b == 0x22) = false ∧ (b == 0x5C) = false) (hc : (c == 0x22) = false ∧ (c == 0x5C) = false)
    (hd : (d == 0x22) = false ∧ (d == 0x5C) = false) : Safe [0x5C, 0x75, a, b, c, d] := by
  have := Safe.append (Safe.esc 0x75) (Safe.append (Safe.plain a ha.1 ha.2)
    (Safe.append (Safe.plain b hb.1 hb.2) (Safe.append (Safe.plain c hc.1 hc.2) (Safe.plain d hd.1 hd.2))))
  simpa using this

theorem safe_escU00 (b : UInt8) : Safe (escU00 b) := by
  unfold escU00
  exact Safe.u4 _ _ _ _ (by decide) (by decide) (hexDigit_plain _ (by have := b.toNat_lt; omega))
    (hexDigit_plain _ (by omega))

theorem safe_escAscii (b : UInt8) : Safe (escAscii b) := by
  unfold escAscii
  split
  · exact Safe.esc b
  · rename_i h
    simp only [Bool.or_eq_true, not_or, Bool.not_eq_true] at h
    split
    · exact Safe.plain b h.2 h.1
    · repeat' split
      all_goals first
        | exact Safe.esc _
        | exact Safe.u4 _ _ _ _ (by decide) (by decide) (hexDigit_plain _ (by have := b.toNat_lt; omega))
            (hexDigit_plain _ (by omega))

theorem safe_jsonEsc (html : Bool) (b : UInt8) : Safe (jsonEsc html b) := by
  unfold jsonEsc
  split
  · exact safe_escU00 b
  · exact safe_escAscii b

theorem ge80_plain (b : UInt8) (h : ¬ b < 0x80) : (b == 0x22) = false ∧ (b == 0x5C) = false := by
  obtain ⟨h1, _, _, h2⟩ := Martian.ShellQuote.ge80_not_special b h
  exact ⟨h1, h2⟩

/-- the encoder loop emits only chunks the scanner passes over -/
theorem safe_encFrom (esc : UInt8 → Bytes) (hesc : ∀ b, Safe (esc b)) :
    ∀ (s : Bytes) (p : Pend), (∀ k, p = .copy k → ∀ x ∈ s.take k, ¬ x < 0x80) → Safe (encFrom esc s p) := by
  intro s
  induction s with
  | nil => intro p _; cases p <;> simp [encFrom] <;> exact Safe.nil
  | cons b r ih =>
    intro p hp
    have generic : Safe (if b < 0x80 then esc b ++ encFrom esc r .none
          else match runeWidth (b :: r) with
            | some w =>
              if b == 0xE2 && r.take 2 == [0x80, 0xA8] then esc2028 ++ encFrom esc r (.drop 2)
              else if b == 0xE2 && r.take 2 == [0x80, 0xA9] then esc2029 ++ encFrom esc r (.drop 2)
              else b :: encFrom esc r (if w ≤ 1 then .none else .copy (w - 1))
            | none => escFFFD ++ encFrom esc r .none) := by
      by_cases hb : b < 0x80
      · simp only [hb, ↓reduceIte]
        exact Safe.append (hesc b) (ih .none (by intro k hk; cases hk))
      · simp only [hb, ↓reduceIte]
        cases hw : runeWidth (b :: r) with
        | none =>
          simp only
          exact Safe.append (Safe.u4 _ _ _ _ (by decide) (by decide) (by decide) (by decide))
            (ih .none (by intro k hk; cases hk))
        | some w =>
          simp only
          split
          · exact Safe.append (Safe.u4 _ _ _ _ (by decide) (by decide) (by decide) (by decide))
              (ih (.drop 2) (by intro k hk; cases hk))
          · split
            · exact Safe.append (Safe.u4 _ _ _ _ (by decide) (by decide) (by decide) (by decide))
                (ih (.drop 2) (by intro k hk; cases hk))
            · have hc := Martian.ShellQuote.runeWidth_cont b r w hb hw
              have hs : Safe (encFrom esc r (if w ≤ 1 then .none else .copy (w - 1))) := by
                apply ih
                intro k hk
                split at hk
                · cases hk
                · injection hk with hk; subst hk; exact hc
              have := Safe.append (Safe.plain b (ge80_plain b hb).1 (ge80_plain b hb).2) hs
              simpa using this
    cases p with
    | none => exact generic
    | copy k =>
      cases k with
      | zero => exact generic
      | succ k =>
        have hb : ¬ b < 0x80 := hp (k + 1) rfl b (by simp)
        simp only [encFrom]
        have hs : Safe (encFrom esc r (if k = 0 then .none else .copy k)) := by
          apply ih
          intro k' hk'
          split at hk'
          · cases hk'
          · injection hk' with hk'; subst hk'
            intro x hx; exact hp (k + 1) rfl x (by simp [List.take_succ_cons, hx])
        have := Safe.append (Safe.plain b (ge80_plain b hb).1 (ge80_plain b hb).2) hs
        simpa using this
    | drop k =>
      cases k with
      | zero => exact generic
      | succ k =>
        simp only [encFrom]
        apply ih
        intro k' hk'
        split at hk' <;> cases hk'

/-- strings: the parser reads back what `encoding/json` (either mode) and `quoteString` write -/
theorem parseStr_encode (html : Bool) (s rest : Bytes) (h : validUtf8 s = true) :
    parseStr (jsonEncodeString html s ++ rest) = some (s, rest) := by
  have hs := safe_encFrom (jsonEsc html) (safe_jsonEsc html) s .none (by intro k hk; cases hk) (0x22 :: rest)
  have he : strEnd (0x22 :: rest) = some ([], rest) := by simp [strEnd, strEndAux]
  rw [he] at hs
  simp only [Option.map_some, List.append_nil] at hs
  have hd := dec_encFrom (jsonEsc html) (dec_jsonEsc html) (jsonEsc_len html) s .none
    ((encFrom (jsonEsc html) s .none).length + 1) (by simp) h
  have hd' : jsonDecLoop ((encFrom (jsonEsc html) s .none).length + 1) (encFrom (jsonEsc html) s .none) 0 = some s := hd
  simp only [jsonEncodeString, List.cons_append, List.append_assoc, List.singleton_append, parseStr,
    List.nil_append, hs, hd', Option.map_some]

end Martian.JsonBytes

namespace Martian.JsonBytes
open Martian.Json (J Num)
open Martian.Lexer (Bytes)
open Martian.ShellQuote (validUtf8)
open Martian.InvocationStr (jsonEncodeString)

/-! ### white space -/
theorem skipWs_cons (c : UInt8) (r : Bytes) (h : isWs c = false) : skipWs (c :: r) = c :: r := by
  simp [skipWs, h]

theorem skipWs_idem : ∀ b, skipWs (skipWs b) = skipWs b
  | [] => rfl
  | c :: r => by
    by_cases h : isWs c = true
    · simp [skipWs, h, skipWs_idem r]
    · have h' : isWs c = false := by simpa using h
      simp [skipWs, h']

theorem parseV_skipWs (f : Nat) (b : Bytes) : parseV f (skipWs b) = parseV f b := by
  cases f with
  | zero => simp [parseV]
  | succ f => simp only [parseV, skipWs_idem]

theorem parseElems_skipWs (f : Nat) (b : Bytes) : parseElems f (skipWs b) = parseElems f b := by
  cases f with
  | zero => simp [parseElems]
  | succ f => simp only [parseElems, parseV_skipWs]

theorem parseMembers_skipWs (f : Nat) (b : Bytes) : parseMembers f (skipWs b) = parseMembers f b := by
  cases f with
  | zero => simp [parseMembers]
  | succ f => simp only [parseMembers, skipWs_idem]

/-- pointwise relation of two lists (core has no `Forall₂`) -/
inductive All2 {α β : Type} (R : α → β → Prop) : List α → List β → Prop where
  | nil : All2 R [] []
  | cons {a : α} {b : β} {as : List α} {bs : List β} : R a b → All2 R as bs → All2 R (a :: as) (b :: bs)

/-! ### denotation -/

/-- the bytes `p`, followed by anything that may follow a value, are read as the tree `j`
(and nothing more is consumed) -/
def Den (p : Bytes) (j : J) : Prop :=
  ∀ (rest : Bytes) (f : Nat), delim rest = true → p.length < f → parseV f (p ++ rest) = some (j, rest)

/-- the bytes `tok`, followed by anything, are read as the string `k` -/
def StrTok (tok k : Bytes) : Prop := ∀ rest, parseStr (tok ++ rest) = some (k, rest)

theorem StrTok.head {tok k : Bytes} (h : StrTok tok k) : ∃ t, tok = 0x22 :: t := by
  have := h []
  simp only [List.append_nil] at this
  unfold parseStr at this
  split at this
  · exact ⟨_, rfl⟩
  · cases this

theorem strTok_encode (html : Bool) (s : Bytes) (h : validUtf8 s = true) :
    StrTok (jsonEncodeString html s) s := fun rest => parseStr_encode html s rest h

/-- a successfully parsed value does not start (after white space) with `]`, `}`, `,` or `:` -/
theorem parseV_starter (f : Nat) (b : Bytes) (j : J) (r : Bytes) (h : parseV f b = some (j, r)) :
    ∃ c t, skipWs b = c :: t ∧ (c == 0x5D) = false ∧ (c == 0x7D) = false := by
  cases f with
  | zero => simp [parseV] at h
  | succ f =>
    simp only [parseV] at h
    cases hs : skipWs b with
    | nil => simp [hs] at h
    | cons c t =>
      refine ⟨c, t, rfl, ?_, ?_⟩
      · apply Bool.eq_false_iff.mpr; intro hc; have := eq_of_beq hc; subst this
        simp [hs, isDigit] at h
      · apply Bool.eq_false_iff.mpr; intro hc; have := eq_of_beq hc; subst this
        simp [hs, isDigit] at h

/-! ### splicing: arrays -/

theorem elems_splice : ∀ (ps : List Bytes) (js : List J), All2 Den ps js → ps ≠ [] →
    ∀ (rest : Bytes) (f : Nat), (joinComma ps).length + 1 < f →
    parseElems f (joinComma ps ++ 0x5D :: rest) = some (js, rest) := by
  intro ps js h
  induction h with
  | nil => intro h; exact absurd rfl h
  | @cons p j ps' js' hp hrest ih =>
    intro _ rest f hf
    obtain ⟨f', rfl⟩ : ∃ f', f = f' + 1 := ⟨f - 1, by omega⟩
    cases ps' with
    | nil =>
      cases hrest
      simp only [joinComma] at hf ⊢
      have := hp (0x5D :: rest) f' (by simp [delim]) (by omega)
      simp only [parseElems, this, skipWs_cons 0x5D rest (by decide)]
      simp
    | cons q qs =>
      simp only [joinComma, List.length_append, List.length_cons] at hf
      have hv := hp (0x2C :: (joinComma (q :: qs) ++ 0x5D :: rest)) f' (by simp [delim]) (by omega)
      have hi := ih (by simp) rest f' (by omega)
      simp only [joinComma, List.append_assoc, List.cons_append, parseElems, hv,
        skipWs_cons 0x2C _ (by decide), hi]
      simp

theorem den_spliceArr (ps : List Bytes) (js : List J) (h : All2 Den ps js) :
    Den (spliceArr ps) (.arr js) := by
  intro rest f hr hf
  obtain ⟨f', rfl⟩ : ∃ f', f = f' + 1 := ⟨f - 1, by omega⟩
  cases h with
  | nil =>
    simp only [spliceArr, joinComma, List.nil_append, List.cons_append, parseV,
      skipWs_cons 0x5B _ (by decide), skipWs_cons 0x5D _ (by decide)]
    simp
  | @cons p j ps' js' hp hrest =>
    have hall : All2 Den (p :: ps') (j :: js') := .cons hp hrest
    simp only [spliceArr, List.length_cons, List.length_append, List.length_nil] at hf
    have he := elems_splice (p :: ps') (j :: js') hall (by simp) rest f' (by omega)
    -- the first element does not start with `]`
    obtain ⟨f'', rfl⟩ : ∃ f'', f' = f'' + 1 := ⟨f' - 1, by omega⟩
    have hfirst : ∃ x r, parseV f'' (joinComma (p :: ps') ++ 0x5D :: rest) = some (x, r) := by
      simp only [parseElems] at he
      cases hv : parseV f'' (joinComma (p :: ps') ++ 0x5D :: rest) with
      | none => simp [hv] at he
      | some xr => exact ⟨xr.1, xr.2, rfl⟩
    obtain ⟨x, r, hx⟩ := hfirst
    obtain ⟨c, t, hs, hc, _⟩ := parseV_starter _ _ _ _ hx
    have he' := he
    rw [← parseElems_skipWs, hs] at he'
    simp only [spliceArr, List.cons_append, List.append_assoc, List.nil_append, parseV,
      skipWs_cons 0x5B _ (by decide)]
    simp only [show ((0x5B : UInt8) == 0x7B) = false from by decide, Bool.false_eq_true, ↓reduceIte,
      beq_self_eq_true, hs]
    have hne : c ≠ 0x5D := by intro hh; subst hh; simp at hc
    split
    · rename_i heq; injection heq with h1 _; exact absurd h1 hne
    · simp [he']


/-! ### splicing: objects -/

/-- a member piece: key token and value piece denote key and value -/
def DenM (m : Bytes × Bytes) (kv : Bytes × J) : Prop := StrTok m.1 kv.1 ∧ Den m.2 kv.2

def memberBytes (m : Bytes × Bytes) : Bytes := m.1 ++ 0x3A :: m.2

theorem members_splice : ∀ (ms : List (Bytes × Bytes)) (kvs : List (Bytes × J)), All2 DenM ms kvs → ms ≠ [] →
    ∀ (rest : Bytes) (f : Nat), (joinComma (ms.map memberBytes)).length + 1 < f →
    parseMembers f (joinComma (ms.map memberBytes) ++ 0x7D :: rest) = some (kvs, rest) := by
  intro ms kvs h
  induction h with
  | nil => intro h; exact absurd rfl h
  | @cons m kv ms' kvs' hm hrest ih =>
    intro _ rest f hf
    obtain ⟨f', rfl⟩ : ∃ f', f = f' + 1 := ⟨f - 1, by omega⟩
    obtain ⟨tok, val⟩ := m
    obtain ⟨k, v⟩ := kv
    obtain ⟨hk, hv⟩ := hm
    simp only at hk hv
    obtain ⟨tt, rfl⟩ := hk.head
    cases ms' with
    | nil =>
      cases hrest
      simp only [List.map_cons, List.map_nil, joinComma, memberBytes, List.length_append, List.length_cons] at hf
      have h1 := hk (0x3A :: (val ++ 0x7D :: rest))
      have h2 := hv (0x7D :: rest) f' (by simp [delim]) (by omega)
      simp only [List.map_cons, List.map_nil, joinComma, memberBytes, List.append_assoc, List.cons_append,
        parseMembers, skipWs_cons 0x22 _ (by decide)]
      try simp only [List.cons_append] at h1
      simp only [h1, skipWs_cons 0x3A _ (by decide), beq_self_eq_true, ↓reduceIte, h2,
        skipWs_cons 0x7D _ (by decide)]
      simp
    | cons q qs =>
      simp only [List.map_cons, joinComma, memberBytes, List.length_append, List.length_cons] at hf
      have h1 := hk (0x3A :: (val ++ 0x2C :: (joinComma ((q :: qs).map memberBytes) ++ 0x7D :: rest)))
      have h2 := hv (0x2C :: (joinComma ((q :: qs).map memberBytes) ++ 0x7D :: rest)) f' (by simp [delim])
        (by omega)
      have hi := ih (by simp) rest f' (by simp only [List.map_cons, memberBytes]; omega)
      simp only [List.map_cons, joinComma, memberBytes, List.append_assoc, List.cons_append,
        parseMembers, skipWs_cons 0x22 _ (by decide)]
      try simp only [List.cons_append] at h1
      try simp only [List.map_cons, memberBytes] at hi
      simp only [List.map_cons, memberBytes] at h1 h2
      simp only [h1, skipWs_cons 0x3A _ (by decide), beq_self_eq_true, ↓reduceIte, h2,
        skipWs_cons 0x2C _ (by decide), hi]
      simp

theorem den_spliceObj (ms : List (Bytes × Bytes)) (kvs : List (Bytes × J)) (h : All2 DenM ms kvs) :
    Den (spliceObj ms) (.obj kvs) := by
  intro rest f hr hf
  obtain ⟨f', rfl⟩ : ∃ f', f = f' + 1 := ⟨f - 1, by omega⟩
  cases h with
  | nil =>
    simp only [spliceObj, List.map_nil, joinComma, List.nil_append, List.cons_append, parseV,
      skipWs_cons 0x7B _ (by decide), skipWs_cons 0x7D _ (by decide)]
    simp
  | @cons m kv ms' kvs' hm hrest =>
    have hall : All2 DenM (m :: ms') (kv :: kvs') := .cons hm hrest
    simp only [spliceObj, List.length_cons, List.length_append, List.length_nil] at hf
    have he := members_splice (m :: ms') (kv :: kvs') hall (by simp) rest f'
      (by have : ((m :: ms').map memberBytes) = (m :: ms').map (fun m => m.1 ++ 0x3A :: m.2) := rfl
          rw [this]; omega)
    obtain ⟨tt, htok⟩ := hm.1.head
    have hhead : ∃ t, joinComma ((m :: ms').map memberBytes) ++ 0x7D :: rest = 0x22 :: t := by
      cases ms' with
      | nil => exact ⟨tt ++ 0x3A :: (m.2 ++ 0x7D :: rest), by simp [joinComma, memberBytes, htok]⟩
      | cons q qs =>
        exact ⟨tt ++ 0x3A :: (m.2 ++ 0x2C :: (joinComma ((q :: qs).map memberBytes) ++ 0x7D :: rest)),
          by simp [joinComma, memberBytes, htok]⟩
    obtain ⟨t, ht⟩ := hhead
    simp only [spliceObj, List.cons_append, List.append_assoc, List.nil_append, parseV,
      skipWs_cons 0x7B _ (by decide), beq_self_eq_true, ↓reduceIte]
    have hmb : (List.map (fun m => m.1 ++ 0x3A :: m.2) (m :: ms')) = (m :: ms').map memberBytes := rfl
    rw [hmb, ht, skipWs_cons 0x22 _ (by decide)]
    rw [ht] at he
    simp [he]

/-! ### scalars -/

theorem stripPrefix_append (p rest : Bytes) : stripPrefix p (p ++ rest) = some rest := by
  induction p with
  | nil => rfl
  | cons c t ih => simp [stripPrefix, ih]

theorem den_null : Den [0x6E, 0x75, 0x6C, 0x6C] .null := by
  intro rest f _ hf
  obtain ⟨f', rfl⟩ : ∃ f', f = f' + 1 := ⟨f - 1, by omega⟩
  have := stripPrefix_append [0x75, 0x6C, 0x6C] rest
  simp only [List.cons_append, List.nil_append] at this
  simp [parseV, skipWs_cons 0x6E _ (by decide), this]

theorem den_true : Den [0x74, 0x72, 0x75, 0x65] (.bool true) := by
  intro rest f _ hf
  obtain ⟨f', rfl⟩ : ∃ f', f = f' + 1 := ⟨f - 1, by omega⟩
  have := stripPrefix_append [0x72, 0x75, 0x65] rest
  simp only [List.cons_append, List.nil_append] at this
  simp [parseV, skipWs_cons 0x74 _ (by decide), this]

theorem den_false : Den [0x66, 0x61, 0x6C, 0x73, 0x65] (.bool false) := by
  intro rest f _ hf
  obtain ⟨f', rfl⟩ : ∃ f', f = f' + 1 := ⟨f - 1, by omega⟩
  have := stripPrefix_append [0x61, 0x6C, 0x73, 0x65] rest
  simp only [List.cons_append, List.nil_append] at this
  simp [parseV, skipWs_cons 0x66 _ (by decide), this]

/-- a string token denotes the string value -/
theorem den_strTok (tok s : Bytes) (h : StrTok tok s) : Den tok (.str s) := by
  intro rest f _ hf
  obtain ⟨t, rfl⟩ := h.head
  have hf' : 0 < f := by simp at hf; omega
  obtain ⟨f', rfl⟩ : ∃ f', f = f' + 1 := ⟨f - 1, by omega⟩
  have := h rest
  simp only [List.cons_append] at this
  simp [parseV, skipWs_cons 0x22 _ (by decide), this]

theorem num_starter {c : UInt8} (h : (c == 0x2D || isDigit c) = true) :
    isWs c = false ∧ (c == 0x7B) = false ∧ (c == 0x5B) = false ∧ (c == 0x22) = false ∧ (c == 0x74) = false
      ∧ (c == 0x66) = false ∧ (c == 0x6E) = false := by
  refine ⟨?_, ?_, ?_, ?_, ?_, ?_, ?_⟩ <;>
    (apply Bool.eq_false_iff.mpr; intro hh
     first
      | (have := eq_of_beq hh; subst this; revert h; decide)
      | (simp only [isWs, Bool.or_eq_true, beq_iff_eq] at hh
         rcases hh with ((hh | hh) | hh) | hh <;> subst hh <;> revert h <;> decide))

theorem printNum_head (n : Num) : ∃ c t, printNum n = c :: t ∧ (c == 0x2D || isDigit c) = true := by
  have hi : ∀ v : Int, ∃ c t, printInt v = c :: t ∧ (c == 0x2D || isDigit c) = true := by
    intro v
    obtain ⟨d, t, hd, hdig⟩ := natDigits_head v.natAbs
    unfold printInt
    by_cases hv : v < 0
    · exact ⟨0x2D, natDigits v.natAbs, by simp [hv], by decide⟩
    · exact ⟨d, t, by simp [hv, hd], by simp [hdig]⟩
  cases n with
  | int v => exact hi v
  | flt m e =>
    obtain ⟨c, t, hc, hd⟩ := hi m
    exact ⟨c, t ++ 0x65 :: printInt e, by simp [printNum, hc], hd⟩

theorem den_num (n : Num) : Den (printNum n) (.num n) := by
  intro rest f hr hf
  obtain ⟨c, t, hc, hd⟩ := printNum_head n
  have hf' : 0 < f := by omega
  obtain ⟨f', rfl⟩ : ∃ f', f = f' + 1 := ⟨f - 1, by omega⟩
  obtain ⟨h0, h1, h2, h3, h4, h5, h6⟩ := num_starter hd
  have hp := parseNum_printNum n rest hr
  rw [hc] at hp ⊢
  simp only [List.cons_append] at hp ⊢
  simp only [parseV, skipWs_cons c _ h0, h1, h2, h3, h4, h5, h6, Bool.false_eq_true, ↓reduceIte, hd, hp]
  simp

/-! ### the canonical printer is read back -/

theorem printJs_eq : ∀ xs : List J, printJs xs = joinComma (xs.map printJ)
  | [] => rfl
  | [x] => rfl
  | x :: y :: r => by
    have := printJs_eq (y :: r)
    simp only [printJs, List.map_cons, joinComma] at this ⊢
    rw [this]

theorem printKvs_eq : ∀ kvs : List (Bytes × J),
    printKvs kvs = joinComma ((kvs.map fun kv => (printStr kv.1, printJ kv.2)).map memberBytes)
  | [] => rfl
  | [(k, v)] => rfl
  | (k, v) :: kv :: r => by
    have := printKvs_eq (kv :: r)
    simp only [printKvs, List.map_cons, joinComma, memberBytes] at this ⊢
    rw [this]
    simp

mutual
theorem den_printJ : ∀ j : J, wfJ j = true → Den (printJ j) j
  | .null, _ => den_null
  | .bool true, _ => den_true
  | .bool false, _ => den_false
  | .num n, _ => den_num n
  | .str s, h => den_strTok _ s (strTok_encode false s (by simpa [wfJ] using h))
  | .arr xs, h => by
    have := den_spliceArr (xs.map printJ) xs (den_printJs xs (by simpa [wfJ] using h))
    simpa [printJ, spliceArr, printJs_eq] using this
  | .obj kvs, h => by
    have := den_spliceObj (kvs.map fun kv => (printStr kv.1, printJ kv.2)) kvs
      (den_printKvs kvs (by simpa [wfJ] using h))
    simp only [printJ, printKvs_eq]
    exact this
theorem den_printJs : ∀ xs : List J, wfJs xs = true → All2 Den (xs.map printJ) xs
  | [], _ => .nil
  | x :: r, h => by
    simp only [wfJs, Bool.and_eq_true] at h
    exact .cons (den_printJ x h.1) (den_printJs r h.2)
theorem den_printKvs : ∀ kvs : List (Bytes × J), wfKvs kvs = true →
    All2 DenM (kvs.map fun kv => (printStr kv.1, printJ kv.2)) kvs
  | [], _ => .nil
  | (k, v) :: r, h => by
    simp only [wfKvs, Bool.and_eq_true] at h
    exact .cons ⟨strTok_encode false k h.1.1, den_printJ v h.1.2⟩ (den_printKvs r h.2)
end

/-- `parseTop (printJ j) = some j`: the whole-document parser reads the canonical text back -/
theorem parseTop_printJ (j : J) (h : wfJ j = true) : parseTop (printJ j) = some j := by
  have := den_printJ j h [] ((printJ j).length + 1) rfl (by omega)
  simp only [List.append_nil] at this
  simp [parseTop, this, skipWs]

/-- printing is injective on well-formed trees -/
theorem printJ_injective (j1 j2 : J) (h1 : wfJ j1 = true) (h2 : wfJ j2 = true)
    (h : printJ j1 = printJ j2) : j1 = j2 := by
  have a := parseTop_printJ j1 h1
  have b := parseTop_printJ j2 h2
  rw [h] at a
  rw [a] at b
  exact Option.some.inj b

end Martian.JsonBytes
