import Martian.Semaphore
import Proofs.Semaphore
import Proofs.SemaphoreRun

/-! C12: the callers of `UpdateSize`, and what an availability drop below the
reservation means (transient over-commitment that can only shrink). -/
namespace Martian.Semaphore

theorem sizeOK_of_not_updSize (m : Int) (op : COp) (h : op.isUpdSize = false) : op.sizeOK m := by
  cases op <;> simp [COp.isUpdSize] at h <;> simp [COp.sizeOK]

/-- `rlim_cur ≤ rlim_max` as unsigned values (what `getrlimit` returns) survives
the conversion to `int64` whenever both pass the `> startingThreadCount` guard. -/
theorem toInt64_le (c m : Nat) (hcm : c ≤ m) (hm64 : m < 2 ^ 64)
    (gc : startingThreadCount < toInt64 c) (gm : startingThreadCount < toInt64 m) :
    toInt64 c ≤ toInt64 m := by
  unfold toInt64 startingThreadCount at *
  by_cases hc : c < 2 ^ 63 <;> by_cases hm : m < 2 ^ 63 <;>
    simp only [hc, hm, if_true, if_false] at gc gm ⊢ <;> omega

theorem procsSetup_ok (rcur rmax : Nat) (u : Option Int) (hcm : rcur ≤ rmax) (h64 : rmax < 2 ^ 64)
    (m : Int) (pre : List COp) (h : procsSetup rcur rmax u = some (m, pre)) :
    0 ≤ m ∧ (∀ op ∈ pre, op.reqNonneg) ∧ (∀ op ∈ pre, op.sizeOK m) := by
  unfold procsSetup at h
  split at h
  · rename_i hg
    simp only [Option.some.injEq, Prod.mk.injEq] at h
    obtain ⟨hm, hp⟩ := h
    subst hm; subst hp
    have hle := toInt64_le rcur rmax hcm h64 hg.2 hg.1
    refine ⟨by unfold startingThreadCount at hg; omega, ?_, ?_⟩
    · intro op hop
      simp only [List.mem_cons, List.not_mem_nil, or_false] at hop
      rcases hop with h | h
      · subst h; simp [COp.reqNonneg, startingThreadCount]
      · subst h; cases u <;> simp [COp.reqNonneg]
    · intro op hop
      simp only [List.mem_cons, List.not_mem_nil, or_false] at hop
      rcases hop with h | h
      · subst h; simp [COp.sizeOK]
      · subst h; cases u <;> simp [COp.sizeOK, hle]
  · simp at h

/-! ### over-commitment after an availability drop -/

def SemOp.relNonneg : SemOp → Prop
  | .release n => 0 ≤ n
  | _ => True

/-- `reserved` never rises above max(previous reserved, availability after the call) -/
theorem step_reserved_le (s : Sem) (op : SemOp) (h : op.relNonneg) :
    (step s op).1.reserved ≤ s.reserved ∨ (step s op).1.reserved ≤ (step s op).1.cur := by
  by_cases hg : grantsOf (step s op).2 = []
  · left
    have := step_reserved s op
    rw [hg] at this; simp only [sumAmt] at this
    cases op with
    | release n =>
      have hn : 0 ≤ n := h
      simp [releasedBy] at this; omega
    | acquire id n => simp [releasedBy] at this; omega
    | updActual n => simp [releasedBy] at this; omega
    | updSize n => simp [releasedBy] at this; omega
    | updFreeUsed f u => simp [releasedBy] at this; omega
  · right; exact step_fits s op hg

def SemOp.isAcqRel : SemOp → Bool
  | .acquire .. => true
  | .release _ => true
  | _ => false

theorem step_cur_acqrel (s : Sem) (op : SemOp) (h : op.isAcqRel = true) : (step s op).1.cur = s.cur := by
  cases op with
  | acquire id n => simp only [step]; split; rfl; split <;> rfl
  | release n => simp only [step]; split; rfl; exact (wake_cur _).1
  | updActual n => simp [SemOp.isAcqRel] at h
  | updSize n => simp [SemOp.isAcqRel] at h
  | updFreeUsed f u => simp [SemOp.isAcqRel] at h

/-- Between two availability updates (only Acquire/Release calls, releases
non-negative) the reservation stays below max(reservation at the start, curSize):
an over-commitment left by a drop of the availability never grows, and
nothing is granted until it is gone (`grant_fits`). -/
theorem run_overcommit_transient (s : Sem) (ops : List SemOp)
    (h1 : ∀ op ∈ ops, op.isAcqRel = true) (h2 : ∀ op ∈ ops, op.relNonneg) :
    (run s ops).1.cur = s.cur ∧
    ((run s ops).1.reserved ≤ s.reserved ∨ (run s ops).1.reserved ≤ s.cur) := by
  induction ops generalizing s with
  | nil => exact ⟨rfl, Or.inl (Int.le_refl _)⟩
  | cons op ops ih =>
    rw [run_cons]
    have hc := step_cur_acqrel s op (h1 op (by simp))
    have hs := step_reserved_le s op (h2 op (by simp))
    obtain ⟨ic, ir⟩ := ih (step s op).1 (fun o ho => h1 o (by simp [ho])) (fun o ho => h2 o (by simp [ho]))
    simp only
    refine ⟨by rw [ic, hc], ?_⟩
    rw [hc] at ir hs
    rcases ir with a | a <;> rcases hs with b | b <;> first | (left; omega) | (right; omega)

end Martian.Semaphore

namespace Martian.Semaphore

theorem run_waitersLeMax (s : Sem) (ops : List SemOp) (h : WaitersLeMax s) :
    WaitersLeMax (run s ops).1 := by
  induction ops generalizing s with
  | nil => exact h
  | cons op ops ih => rw [run_cons]; exact ih _ (step_waitersLeMax s op h)

/-- sum of holdings ≤ size for client runs whose `UpdateSize` calls stay within the size -/
theorem grun_held_le (size : Int) (hs : 0 ≤ size) (ops : List COp)
    (hop : ∀ op ∈ ops, op.reqNonneg) (hsz : ∀ op ∈ ops, op.sizeOK size) :
    sumAmt (grun (G.init size) ops).1.held ≤ size ∧
    (grun (G.init size) ops).1.sem.reserved ≤ size ∧ (grun (G.init size) ops).1.sem.cur ≤ size := by
  have hb := grun_bounded (G.init size) ops (good_init size)
    ⟨by simp [G.init, Sem.init], by simpa [G.init, Sem.init] using hs⟩ hop
    (by simpa [G.init, Sem.init] using hsz)
  obtain ⟨hg, _, hm⟩ := grun_inv (G.init size) ops (good_init size) hop
  have hbook := hg.book
  simp only at hbook
  have h1 := hb.1
  have h2 := hb.2
  rw [hm] at h1 h2
  simp only [G.init, Sem.init] at h1 h2
  refine ⟨?_, h2, h1⟩
  rw [← hbook]; exact h2

end Martian.Semaphore
