/-
C11: the journal parser only accepts what `render` produces (soundness), the
routing round trip and its converse, and the attempt model.  Core Lean only.
-/
import Martian.ForkName
import Proofs.ForkName

namespace Martian.ForkName

/-! ## `parseRun s = some x → x.render = s` -/

theorem startsWith_eq : ∀ (p s : Bytes), startsWith p s = true → s = p ++ s.drop p.length := by
  intro p
  induction p with
  | nil => intro s _; simp
  | cons c r ih =>
    intro s h
    cases s with
    | nil => simp [startsWith] at h
    | cons d t =>
      simp only [startsWith, Bool.and_eq_true, beq_iff_eq] at h
      simp only [List.cons_append, List.length_cons, List.drop_succ_cons]
      rw [h.1, ← ih t h.2]

theorem spanB_eq (p : UInt8 → Bool) : ∀ (s a b : Bytes), spanB p s = (a, b) →
    s = a ++ b ∧ (∀ c r, b = c :: r → p c = false) := by
  intro s
  induction s with
  | nil => intro a b h; simp only [spanB, Prod.mk.injEq] at h; obtain ⟨rfl, rfl⟩ := h; simp
  | cons c r ih =>
    intro a b h
    simp only [spanB] at h
    by_cases hc : p c = true
    · simp only [hc, if_true] at h
      cases hsp : spanB p r with
      | mk a' b' =>
        rw [hsp] at h
        simp only [Prod.mk.injEq] at h
        obtain ⟨rfl, rfl⟩ := h
        obtain ⟨e, hb⟩ := ih a' b' hsp
        exact ⟨by rw [e]; rfl, hb⟩
    · simp only [hc, Bool.false_eq_true, if_false, Prod.mk.injEq] at h
      obtain ⟨rfl, rfl⟩ := h
      refine ⟨rfl, ?_⟩
      intro c' r' e
      simp only [List.cons.injEq] at e
      rw [← e.1]; simpa using hc

theorem takeChunk_sound (s : Bytes) (ch : Option Bytes) (rest : Bytes) (h : takeChunk s = (ch, rest))
    (hs : startsWith [cDot] s = true) : s = chunkStr ch ++ rest ∧ startsWith [cDot] rest = true := by
  unfold takeChunk at h
  by_cases hp : startsWith sDotChnk s = true
  · simp only [hp, if_true] at h
    cases hsp : spanB isDigit (s.drop 5) with
    | mk d r =>
      simp only [hsp] at h
      by_cases hc : (!d.isEmpty && startsWith [cDot] r) = true
      · simp only [hc, if_true, Prod.mk.injEq] at h
        obtain ⟨rfl, rfl⟩ := h
        have e1 := startsWith_eq _ _ hp
        have e2 := (spanB_eq isDigit _ _ _ hsp).1
        simp only [Bool.and_eq_true] at hc
        refine ⟨?_, hc.2⟩
        have : sDotChnk.length = 5 := rfl
        rw [this, e2] at e1
        simpa [chunkStr, List.append_assoc] using e1
      · simp only [hc, Bool.false_eq_true, if_false, Prod.mk.injEq] at h
        obtain ⟨rfl, rfl⟩ := h
        exact ⟨by simp [chunkStr], hs⟩
  · simp only [hp, Bool.false_eq_true, if_false, Prod.mk.injEq] at h
    obtain ⟨rfl, rfl⟩ := h
    exact ⟨by simp [chunkStr], hs⟩

theorem takeUniq_sound (s : Bytes) (u : Option Bytes) (rest : Bytes) (h : takeUniq s = (u, rest))
    (hs : startsWith [cDot] s = true) : s = uniqStr u ++ rest ∧ startsWith [cDot] rest = true := by
  unfold takeUniq at h
  by_cases hp : startsWith sDotU s = true
  · simp only [hp, if_true] at h
    by_cases hc : (((s.drop 2).take 10).length == 10 && ((s.drop 2).take 10).all isLowerHex &&
        startsWith [cDot] (s.drop 12)) = true
    · simp only [hc, if_true, Prod.mk.injEq] at h
      obtain ⟨rfl, rfl⟩ := h
      have e1 := startsWith_eq _ _ hp
      have : sDotU.length = 2 := rfl
      rw [this] at e1
      simp only [Bool.and_eq_true] at hc
      refine ⟨?_, hc.2⟩
      have e3 : s.drop 2 = (s.drop 2).take 10 ++ s.drop 12 := by
        have := (List.take_append_drop 10 (s.drop 2)).symm
        simpa [List.drop_drop] using this
      have : s = sDotU ++ ((s.drop 2).take 10 ++ s.drop 12) := by rw [← e3]; exact e1
      simpa [uniqStr, List.append_assoc] using this
    · simp only [hc, Bool.false_eq_true, if_false, Prod.mk.injEq] at h
      obtain ⟨rfl, rfl⟩ := h
      exact ⟨by simp [uniqStr], hs⟩
  · simp only [hp, Bool.false_eq_true, if_false, Prod.mk.injEq] at h
    obtain ⟨rfl, rfl⟩ := h
    exact ⟨by simp [uniqStr], hs⟩

theorem tailMatch_sound (s : Bytes) (t : Tail) (h : tailMatch s = some t) :
    s = sDotFork ++ (t.forkPart ++ (chunkStr t.chunk ++ (uniqStr t.uniq ++ cDot :: t.file))) ∧
    t.forkPart ≠ [] ∧ (∀ c ∈ t.forkPart, c ≠ cDot) := by
  unfold tailMatch at h
  by_cases hp : startsWith sDotFork s = true
  · simp only [hp, if_true] at h
    cases hsp : spanB (fun c => c != cDot) (s.drop 5) with
    | mk fp rest =>
      simp only [hsp] at h
      by_cases he : (fp.isEmpty || rest.isEmpty) = true
      · simp [he] at h
      · simp only [he, Bool.false_eq_true, if_false] at h
        cases hch : takeChunk rest with
        | mk ch r1 =>
          cases huq : takeUniq r1 with
          | mk u r2 =>
            simp only [hch, huq, Option.some.injEq] at h
            subst h
            simp only [Bool.or_eq_true, not_or, Bool.not_eq_true] at he
            obtain ⟨e2, hhead⟩ := spanB_eq _ _ _ _ hsp
            -- rest starts with a dot
            have hrest : startsWith [cDot] rest = true := by
              cases rest with
              | nil => simp at he
              | cons c r =>
                have := hhead c r rfl
                have hc : c = cDot := by simpa using this
                subst hc; cases r <;> simp [startsWith]
            obtain ⟨e3, hr1⟩ := takeChunk_sound rest ch r1 hch hrest
            obtain ⟨e4, hr2⟩ := takeUniq_sound r1 u r2 huq hr1
            have e5 : r2 = cDot :: r2.drop 1 := by
              cases r2 with
              | nil => simp [startsWith] at hr2
              | cons c r =>
                have : c = cDot := by
                  cases r <;> simp_all [startsWith]
                subst this; rfl
            have e1 := startsWith_eq _ _ hp
            have : sDotFork.length = 5 := rfl
            rw [this, e2, e3, e4] at e1
            refine ⟨?_, ?_, ?_⟩
            · simp only
              rw [← e5]; exact e1
            · simp only; intro hfp; rw [hfp] at he; simp at he
            · simp only
              -- every byte of the span satisfies the predicate
              have hall : ∀ (x : Bytes) (a b : Bytes), spanB (fun c => c != cDot) x = (a, b) → ∀ c ∈ a, c ≠ cDot := by
                intro x
                induction x with
                | nil => intro a b hx c hc; simp only [spanB, Prod.mk.injEq] at hx; rw [← hx.1] at hc; simp at hc
                | cons y ys ih =>
                  intro a b hx c hc
                  simp only [spanB] at hx
                  by_cases hy : (y != cDot) = true
                  · simp only [hy, if_true] at hx
                    cases hs2 : spanB (fun c => c != cDot) ys with
                    | mk a' b' =>
                      rw [hs2] at hx
                      simp only [Prod.mk.injEq] at hx
                      rw [← hx.1] at hc
                      rcases List.mem_cons.mp hc with e | e
                      · rw [e]; simpa using hy
                      · exact ih a' b' hs2 c e
                  · simp only [hy, Bool.false_eq_true, if_false, Prod.mk.injEq] at hx
                    rw [← hx.1] at hc; simp at hc
              exact hall _ _ _ hsp
  · simp [hp] at h

theorem findLast_sound : ∀ (s pre : Bytes) (t : Tail), findLast s = some (pre, t) →
    s = pre ++ (sDotFork ++ (t.forkPart ++ (chunkStr t.chunk ++ (uniqStr t.uniq ++ cDot :: t.file)))) ∧
    t.forkPart ≠ [] ∧ (∀ c ∈ t.forkPart, c ≠ cDot) := by
  intro s
  induction s with
  | nil => intro _ _ h; simp [findLast] at h
  | cons c r ih =>
    intro pre t h
    simp only [findLast] at h
    cases hr : findLast r with
    | some pt =>
      obtain ⟨p', t'⟩ := pt
      rw [hr] at h
      simp only [Option.some.injEq, Prod.mk.injEq] at h
      obtain ⟨rfl, rfl⟩ := h
      obtain ⟨e, h2, h3⟩ := ih p' t' hr
      exact ⟨by rw [e]; rfl, h2, h3⟩
    | none =>
      rw [hr] at h
      cases ht : tailMatch (c :: r) with
      | none => rw [ht] at h; simp at h
      | some t' =>
        rw [ht] at h
        simp only [Option.some.injEq, Prod.mk.injEq] at h
        obtain ⟨rfl, rfl⟩ := h
        simpa using tailMatch_sound _ _ ht

theorem parseRun_sound (s : Bytes) (x : JName) (h : parseRun s = some x) :
    x.render = s ∧ x.forkPart ≠ [] ∧ (∀ c ∈ x.forkPart, c ≠ cDot) := by
  unfold parseRun at h
  cases hf : findLast s with
  | none => rw [hf] at h; simp at h
  | some pt =>
    obtain ⟨pre, t⟩ := pt
    rw [hf] at h
    simp only [Option.some.injEq] at h
    subst h
    obtain ⟨e, h2, h3⟩ := findLast_sound s pre t hf
    refine ⟨?_, h2, h3⟩
    rw [render_eq]
    simp only
    rw [e]
    simp [sDotFork, sFork, cDot]

/-! ## Routing -/

theorem route_of_render (top : Bytes) (nodes : List NodeM) (n f : Nat) (nd : NodeM) (p nm : Bytes)
    (chunk uniq : Option Bytes) (file : Bytes)
    (hnd : (nodes.map (·.fqid)).Nodup) (hn : nodes[n]? = some nd) (hfq : nd.fqid = top ++ cDot :: p)
    (hp : p ≠ []) (hno : ∀ m ∈ nodes, m.fqid ≠ p)
    (hfnd : nd.forks.Nodup) (hf : nd.forks[f]? = some nm)
    (wf : WellFormed ⟨p, nm, chunk, uniq, file⟩) :
    route top nodes (JName.render ⟨p, nm, chunk, uniq, file⟩) = some (n, f, chunk, uniq, file) := by
  unfold route
  rw [parseRun_render _ wf]
  have hpe : p.isEmpty = false := by cases p <;> simp_all
  simp only [hpe, Bool.false_eq_true, if_false]
  have hfind : findNode top (nodes.map (·.fqid)) p = some n := by
    apply findNode_routes top _ n p hnd
    · simp [hn, hfq]
    · intro g hg
      obtain ⟨m, hm, rfl⟩ := List.mem_map.mp hg
      exact hno m hm
  have hget : nodes.getD n ⟨[], []⟩ = nd := by simp [List.getD, hn]
  simp only [hfind, hget]
  rw [getForkNew_routes nd.forks f nm hfnd hf wf.fork_ne]

theorem route_sound (top : Bytes) (nodes : List NodeM) (s : Bytes) (n f : Nat)
    (chunk uniq : Option Bytes) (file : Bytes)
    (h : route top nodes s = some (n, f, chunk, uniq, file)) :
    ∃ nd p nm, nodes[n]? = some nd ∧ (nd.fqid = top ++ cDot :: p ∨ nd.fqid = p) ∧ p ≠ [] ∧
      nd.forks[f]? = some nm ∧ s = JName.render ⟨p, nm, chunk, uniq, file⟩ := by
  unfold route at h
  cases hp : parseRun s with
  | none => rw [hp] at h; simp at h
  | some x =>
    rw [hp] at h
    simp only at h
    by_cases he : x.fqid.isEmpty = true
    · simp [he] at h
    · simp only [he, Bool.false_eq_true, if_false] at h
      cases hfn : findNode top (nodes.map (·.fqid)) x.fqid with
      | none => rw [hfn] at h; simp at h
      | some n' =>
        rw [hfn] at h
        simp only at h
        cases hg : getForkNew ((nodes.getD n' ⟨[], []⟩).forks) x.forkPart with
        | none => rw [hg] at h; simp at h
        | some f' =>
          rw [hg] at h
          simp only [Option.some.injEq, Prod.mk.injEq] at h
          obtain ⟨rfl, rfl, hc, hu, hfl⟩ := h
          obtain ⟨fq, hfq, hm⟩ := findNode_sound top _ x.fqid n' hfn
          obtain ⟨hnm, _⟩ := getForkNew_sound _ _ _ hg
          have hnode : ∃ nd, nodes[n']? = some nd ∧ nd.fqid = fq := by
            simp only [List.getElem?_map] at hfq
            cases hx : nodes[n']? with
            | none => simp [hx] at hfq
            | some nd => exact ⟨nd, rfl, by simpa [hx] using hfq⟩
          obtain ⟨nd, hnd, hndfq⟩ := hnode
          have hget : nodes.getD n' ⟨[], []⟩ = nd := by simp [List.getD, hnd]
          rw [hget] at hnm
          refine ⟨nd, x.fqid, x.forkPart, hnd, ?_, ?_, hnm, ?_⟩
          · rw [hndfq]; simpa [nodeMatches] using hm
          · intro e; rw [e] at he; simp at he
          · have := (parseRun_sound s x hp).1
            rw [← this, ← hc, ← hu, ← hfl]

/-! ## Attempts -/

theorem jobRun_exact {U : Type} [DecidableEq U] (draw : Nat → U) (hinj : ∀ a b, draw a = draw b → a = b) :
    ∀ (evs : List JobEv) (s : JobState U), s.uniq = draw s.attempt →
    (∀ q ∈ s.recorded, q.1 = s.attempt) →
    ∀ q ∈ (jobRun draw s evs).recorded,
      q.1 = (jobRun draw s evs).attempt ∧ (JobEv.notify q.1 q.2 ∈ evs ∨ q ∈ s.recorded) := by
  intro evs
  induction evs with
  | nil => intro s _ hrec q hq; exact ⟨hrec q hq, Or.inr hq⟩
  | cons e es ih =>
    intro s hu hrec q hq
    simp only [jobRun] at hq ⊢
    cases e with
    | reset =>
      have := ih ⟨s.attempt + 1, draw (s.attempt + 1), []⟩ rfl (by simp) q (by simpa [jobStep] using hq)
      simp only [jobStep]
      refine ⟨this.1, ?_⟩
      rcases this.2 with h | h
      · exact Or.inl (List.mem_cons_of_mem _ h)
      · simp at h
    | notify k file =>
      by_cases hk : s.uniq = draw k
      · have hka : k = s.attempt := (hinj _ _ (hu ▸ hk)).symm
        have hstep : jobStep draw s (.notify k file) = ⟨s.attempt, s.uniq, (s.attempt, file) :: s.recorded⟩ := by
          simp [jobStep, hk]
        rw [hstep] at hq ⊢
        have := ih ⟨s.attempt, s.uniq, (s.attempt, file) :: s.recorded⟩ hu
          (by intro q' hq'; rcases List.mem_cons.mp hq' with e | e
              · rw [e]
              · exact hrec q' e) q hq
        refine ⟨this.1, ?_⟩
        rcases this.2 with h | h
        · exact Or.inl (List.mem_cons_of_mem _ h)
        · rcases List.mem_cons.mp h with e | e
          · left; rw [e, hka]; exact List.mem_cons_self
          · exact Or.inr e
      · have hstep : jobStep draw s (.notify k file) = s := by simp [jobStep, hk]
        rw [hstep] at hq ⊢
        have := ih s hu hrec q hq
        refine ⟨this.1, ?_⟩
        rcases this.2 with h | h
        · exact Or.inl (List.mem_cons_of_mem _ h)
        · exact Or.inr h

theorem nextTime_gt (old now : Nat) : old < nextTime old now := by
  unfold nextTime; split <;> omega

theorem attemptTime_strict (now : Nat → Nat) : ∀ a b, a < b → attemptTime now a < attemptTime now b := by
  intro a b h
  induction b with
  | zero => omega
  | succ k ih =>
    have hk := nextTime_gt (attemptTime now k) (now (k + 1))
    by_cases e : a = k
    · subst e; exact hk
    · have := ih (by omega)
      simp only [attemptTime]; omega

theorem attemptTime_inj (now : Nat → Nat) (a b : Nat) (h : attemptTime now a = attemptTime now b) : a = b := by
  rcases Nat.lt_trichotomy a b with hl | he | hg
  · have := attemptTime_strict now a b hl; omega
  · exact he
  · have := attemptTime_strict now b a hg; omega

end Martian.ForkName
