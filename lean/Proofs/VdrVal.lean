import Martian.VdrVal

/-! A value of a type that cannot name files names no files. -/
namespace Martian.Vdr

theorem member_notFile {ms : Ty} {k : String} {t : Ty} (h : ms.isFile = false) (hm : ms.member k = some t) :
    t.isFile = false := by
  induction ms with
  | mcons n t' r _ ihr =>
    simp only [Ty.isFile, Bool.or_eq_false_iff] at h
    simp only [Ty.member] at hm
    split at hm
    · cases hm; exact h.1
    · exact ihr h.2 hm
  | struct m ih =>
    simp only [Ty.isFile] at h
    simp only [Ty.member] at hm
    exact ih h hm
  | _ => simp [Ty.member] at hm

theorem notFile_names (v : Val) :
    (∀ t, conforms v t = true → t.isFile = false → v.names = []) ∧
    (∀ e, allElems v e = true → v.keysOk = true → e.isFile = false → v.names = []) ∧
    (∀ ms, allMembers v ms = true → ms.isFile = false → v.names = []) := by
  induction v with
  | null => exact ⟨fun _ _ _ => rfl, fun _ _ _ _ => rfl, fun _ _ _ => rfl⟩
  | atom => exact ⟨fun _ _ _ => rfl, fun _ _ _ _ => rfl, fun _ _ _ => rfl⟩
  | vnil => exact ⟨fun _ _ _ => rfl, fun _ _ _ _ => rfl, fun _ _ _ => rfl⟩
  | str s =>
    refine ⟨?_, fun _ h _ _ => ?_, fun _ h _ => ?_⟩
    · intro t hc hf
      cases t <;> simp_all [conforms, Ty.isFile]
    · simp [allElems] at h
    · simp [allMembers] at h
  | vcons k v r ihv ihr =>
    refine ⟨?_, ?_, ?_⟩
    · intro t hc; simp [conforms] at hc
    · intro e he hk hf
      simp only [allElems, Bool.and_eq_true] at he
      simp only [Val.keysOk, Bool.and_eq_true, Bool.not_eq_true'] at hk
      simp only [Val.names, hk.1]
      rw [ihv.1 e he.1 hf, ihr.2.1 e he.2 hk.2 hf]
      rfl
    · intro ms hm hf
      simp only [allMembers, Bool.and_eq_true, Bool.not_eq_true'] at hm
      obtain ⟨⟨h1, h2⟩, h3⟩ := hm
      simp only [Val.names, h2]
      split at h1
      · rename_i t ht
        rw [ihv.1 t h1 (member_notFile hf ht), ihr.2.2 ms h3 hf]
        rfl
      · cases h1
  | arr es ih =>
    refine ⟨?_, fun _ h _ _ => (by simp [allElems] at h), fun _ h _ => (by simp [allMembers] at h)⟩
    · intro t hc hf
      cases t with
      | arr e =>
        simp only [conforms, Bool.and_eq_true] at hc
        simp only [Ty.isFile] at hf
        simp only [Val.names]
        exact ih.2.1 e hc.1 hc.2 hf
      | umap => simp [Ty.isFile] at hf
      | _ => simp [conforms] at hc
  | obj es ih =>
    refine ⟨?_, fun _ h _ _ => (by simp [allElems] at h), fun _ h _ => (by simp [allMembers] at h)⟩
    · intro t hc hf
      cases t with
      | tmap e =>
        simp only [conforms, Bool.and_eq_true, Bool.or_eq_true] at hc
        simp only [Ty.isFile] at hf
        simp only [Val.names]
        rcases hc.2 with h | h
        · rw [hf] at h; cases h
        · exact ih.2.1 e hc.1 h hf
      | struct ms =>
        simp only [conforms] at hc
        simp only [Ty.isFile] at hf
        simp only [Val.names]
        exact ih.2.2 ms hc hf
      | umap => simp [Ty.isFile] at hf
      | prim b =>
        simp only [conforms] at hc
        simp only [Ty.isFile] at hf
        rw [hf] at hc; cases hc
      | _ => simp [conforms] at hc

/-! ### the typed walk reaches every value reference -/

/-- every reference of `rs` occurs among the typed references `ts` -/
def Cover (rs : List (Node × Arg)) (ts : List TRef) : Prop := ∀ r ∈ rs, ∃ b, (r.1, r.2, b) ∈ ts

theorem Cover.nil (ts : List TRef) : Cover [] ts := fun _ h => by cases h

theorem Cover.append {a b : List (Node × Arg)} {x y : List TRef} (h1 : Cover a x) (h2 : Cover b y) :
    Cover (a ++ b) (x ++ y) := by
  intro r hr
  rcases List.mem_append.mp hr with h | h
  · obtain ⟨b, hb⟩ := h1 r h; exact ⟨b, List.mem_append_left _ hb⟩
  · obtain ⟨b, hb⟩ := h2 r h; exact ⟨b, List.mem_append_right _ hb⟩

theorem Cover.left {a : List (Node × Arg)} {x y : List TRef} (h1 : Cover a x) : Cover a (x ++ y) := by
  intro r hr
  obtain ⟨b, hb⟩ := h1 r hr; exact ⟨b, List.mem_append_left _ hb⟩

theorem walk_covers (e : BExp) :
    (∀ t, wellTyped e t = true → Cover e.valueRefs (typedRefs e t)) ∧
    (∀ t, wtElems e t = true → Cover e.valueRefs (elemRefs e t)) ∧
    (∀ ms, wtMembers e ms = true → Cover e.valueRefs (memberRefs e ms)) ∧
    (∀ mode t, wtSplit mode e t = true → Cover e.valueRefs (splitRefs mode e t)) := by
  induction e with
  | const =>
    exact ⟨fun _ _ => Cover.nil _, fun _ _ => Cover.nil _, fun _ _ => Cover.nil _, fun _ _ _ => Cover.nil _⟩
  | nil =>
    exact ⟨fun _ _ => Cover.nil _, fun _ _ => Cover.nil _, fun _ _ => Cover.nil _, fun _ _ _ => Cover.nil _⟩
  | ref n o =>
    refine ⟨?_, fun _ h => (by simp [wtElems] at h), fun _ h => (by simp [wtMembers] at h), ?_⟩
    · intro t _ r hr
      simp only [BExp.valueRefs, List.mem_singleton] at hr
      subst hr
      exact ⟨t.isFile, by simp [typedRefs]⟩
    · intro mode t _ r hr
      simp only [BExp.valueRefs, List.mem_singleton] at hr
      subst hr
      exact ⟨t.isFile, by simp [splitRefs]⟩
  | cons k e r ihe ihr =>
    refine ⟨fun _ h => (by simp [wellTyped] at h), ?_, ?_, fun _ _ h => (by simp [wtSplit] at h)⟩
    · intro t h
      simp only [wtElems, Bool.and_eq_true] at h
      simp only [BExp.valueRefs, elemRefs]
      exact (ihe.1 t h.1).append (ihr.2.1 t h.2)
    · intro ms h
      simp only [wtMembers, Bool.and_eq_true] at h
      simp only [BExp.valueRefs, memberRefs]
      obtain ⟨h1, h2⟩ := h
      split at h1
      · rename_i t ht
        simp only [ht]
        exact (ihe.1 t h1).append (ihr.2.2.1 ms h2)
      · cases h1
  | arr es ih =>
    refine ⟨?_, fun _ h => (by simp [wtElems] at h), fun _ h => (by simp [wtMembers] at h), ?_⟩
    · intro t h
      cases t with
      | arr e =>
        simp only [wellTyped] at h
        simp only [BExp.valueRefs, typedRefs]
        exact ih.2.1 e h
      | _ => simp [wellTyped] at h
    · intro mode t h
      simp only [wtSplit] at h
      simp only [BExp.valueRefs, splitRefs]
      exact ih.2.1 t h
  | map es ih =>
    refine ⟨?_, fun _ h => (by simp [wtElems] at h), fun _ h => (by simp [wtMembers] at h), ?_⟩
    · intro t h
      cases t with
      | tmap e =>
        simp only [wellTyped] at h
        simp only [BExp.valueRefs, typedRefs]
        exact ih.2.1 e h
      | struct ms =>
        simp only [wellTyped] at h
        simp only [BExp.valueRefs, typedRefs]
        exact ih.2.2.1 ms h
      | umap =>
        intro r hr
        simp only [BExp.valueRefs] at hr
        refine ⟨true, ?_⟩
        simp only [typedRefs, List.mem_map]
        exact ⟨r, hr, rfl⟩
      | _ => simp [wellTyped] at h
    · intro mode t h
      simp only [wtSplit] at h
      simp only [BExp.valueRefs, splitRefs]
      exact ih.2.1 t h
  | split m2 v ih =>
    refine ⟨?_, fun _ h => (by simp [wtElems] at h), fun _ h => (by simp [wtMembers] at h), ?_⟩
    · intro t h
      simp only [wellTyped] at h
      simp only [BExp.valueRefs, typedRefs]
      exact ih.2.2.2 m2 t h
    · intro mode t h
      simp only [wtSplit] at h
      simp only [BExp.valueRefs, splitRefs]
      exact ih.2.2.2 m2 _ h
  | merge v ih =>
    refine ⟨?_, fun _ h => (by simp [wtElems] at h), fun _ h => (by simp [wtMembers] at h), ?_⟩
    · intro t h
      cases t with
      | arr el =>
        simp only [wellTyped] at h
        simp only [BExp.valueRefs, typedRefs]
        exact ih.1 el h
      | tmap el =>
        simp only [wellTyped] at h
        simp only [BExp.valueRefs, typedRefs]
        exact ih.1 el h
      | _ => simp [wellTyped] at h
    · intro mode t h
      simp only [wtSplit] at h
      simp only [BExp.valueRefs, splitRefs]
      exact ih.1 _ h
  | disabled v d ihv _ =>
    refine ⟨?_, fun _ h => (by simp [wtElems] at h), fun _ h => (by simp [wtMembers] at h), ?_⟩
    · intro t h
      simp only [wellTyped, Bool.and_eq_true] at h
      simp only [BExp.valueRefs, typedRefs]
      exact (ihv.1 t h.1).left
    · intro mode t h
      simp only [wtSplit, Bool.and_eq_true] at h
      simp only [BExp.valueRefs, splitRefs]
      exact (ihv.2.2.2 mode t h.1).left

end Martian.Vdr
