import Martian.Refactor
namespace Proofs.Refactor
open Martian.Refactor

/-! ## generic list facts -/

theorem map_eq_self {α : Type} {f : α → α} : ∀ {l : List α}, (∀ a ∈ l, f a = a) → l.map f = l
  | [], _ => rfl
  | a :: l, h => by
    simp only [List.map_cons]
    rw [h a (by simp), map_eq_self (fun b hb => h b (by simp [hb]))]

theorem nodup_map_inj {α β : Type} {f : α → β} : ∀ {l : List α}, (l.map f).Nodup →
    ∀ a ∈ l, ∀ b ∈ l, f a = f b → a = b
  | [], _, a, ha, _, _, _ => by cases ha
  | c :: l, h, a, ha, b, hb, hab => by
    simp only [List.map_cons, List.nodup_cons, List.mem_map, not_exists, not_and] at h
    simp only [List.mem_cons] at ha hb
    rcases ha with rfl | ha <;> rcases hb with rfl | hb
    · rfl
    · exact absurd hab.symm (h.1 b hb)
    · exact absurd hab (h.1 a ha)
    · exact nodup_map_inj h.2 a ha b hb hab

/-! ## expressions -/

theorem mapRefs_comp (f g : Ref → Ref) (e : Exp) :
    mapRefs f (mapRefs g e) = mapRefs (fun r => f (g r)) e := by
  induction e <;> simp_all [mapRefs]

theorem mapRefs_congr {f g : Ref → Ref} (e : Exp) (h : ∀ r ∈ refs e, f r = g r) :
    mapRefs f e = mapRefs g e := by
  induction e with
  | lit s => rfl
  | ref r => simp [mapRefs, h r (by simp [refs])]
  | split e ih => simp only [mapRefs]; rw [ih (fun r hr => h r (by simpa [refs] using hr))]
  | arr e ih => simp only [mapRefs]; rw [ih (fun r hr => h r (by simpa [refs] using hr))]
  | map b e ih => simp only [mapRefs]; rw [ih (fun r hr => h r (by simpa [refs] using hr))]
  | nil => rfl
  | cons k a b iha ihb =>
    simp only [mapRefs]
    rw [iha (fun r hr => h r (by simp [refs, hr])), ihb (fun r hr => h r (by simp [refs, hr]))]

theorem mapRefs_self {f : Ref → Ref} (e : Exp) (h : ∀ r ∈ refs e, f r = r) : mapRefs f e = e := by
  induction e with
  | lit s => rfl
  | ref r => simp [mapRefs, h r (by simp [refs])]
  | split e ih => simp only [mapRefs]; rw [ih (fun r hr => h r (by simpa [refs] using hr))]
  | arr e ih => simp only [mapRefs]; rw [ih (fun r hr => h r (by simpa [refs] using hr))]
  | map b e ih => simp only [mapRefs]; rw [ih (fun r hr => h r (by simpa [refs] using hr))]
  | nil => rfl
  | cons k a b iha ihb =>
    simp only [mapRefs]
    rw [iha (fun r hr => h r (by simp [refs, hr])), ihb (fun r hr => h r (by simp [refs, hr]))]

/-- all references of a list of bindings satisfy `P` -/
def BindsAll (P : Ref → Prop) (bs : List Bind) : Prop := ∀ b ∈ bs, ∀ r ∈ refs b.exp, P r

theorem bindsMap_comp (f g : Ref → Ref) (bs : List Bind) :
    (bs.map (Bind.mapRefs g)).map (Bind.mapRefs f) = bs.map (Bind.mapRefs (fun r => f (g r))) := by
  simp only [List.map_map]
  apply List.map_congr_left
  intro b _
  simp [Bind.mapRefs, mapRefs_comp]

theorem bindsMap_congr {f g : Ref → Ref} {bs : List Bind} (h : BindsAll (fun r => f r = g r) bs) :
    bs.map (Bind.mapRefs f) = bs.map (Bind.mapRefs g) := by
  apply List.map_congr_left
  intro b hb
  simp only [Bind.mapRefs]
  rw [mapRefs_congr b.exp (h b hb)]

theorem bindsMap_self {f : Ref → Ref} {bs : List Bind} (h : BindsAll (fun r => f r = r) bs) :
    bs.map (Bind.mapRefs f) = bs := by
  apply map_eq_self
  intro b hb
  simp only [Bind.mapRefs]
  rw [mapRefs_self b.exp (h b hb)]

/-! ## well-formedness as propositions -/

/-- closedness: a call reference names one of `ids` -/
def RefOK (ids : List String) (r : Ref) : Prop := r.kind = RefKind.call → r.id ∈ ids

structure PipeWF (c : Callable) : Prop where
  nodup : (callIds c).Nodup
  ret : BindsAll (RefOK (callIds c)) c.ret
  retain : ∀ r ∈ c.retain, RefOK (callIds c) r
  binds : ∀ k ∈ c.calls, BindsAll (RefOK (callIds c)) k.binds
  mods : ∀ k ∈ c.calls, BindsAll (RefOK (callIds c)) k.mods

theorem mem_bindsRefIds {kd : RefKind} {bs : List Bind} {b : Bind} {r : Ref}
    (hb : b ∈ bs) (hr : r ∈ refs b.exp) (hk : r.kind = kd) : r.id ∈ bindsRefIds kd bs := by
  simp only [bindsRefIds, refIds, List.mem_flatMap, List.mem_map, List.mem_filter, beq_iff_eq]
  exact ⟨b, hb, r, ⟨hr, hk⟩, rfl⟩

theorem pipeWF_of {c : Callable} (hp : c.isPipe = true) (h : wfCallable c = true) : PipeWF c := by
  simp only [wfCallable, hp, if_true, Bool.and_eq_true, decide_eq_true_eq, List.all_eq_true,
    List.contains_iff_mem] at h
  obtain ⟨hn, hall⟩ := h
  refine ⟨hn, ?_, ?_, ?_, ?_⟩
  · intro b hb r hr hk
    apply hall
    simp only [callRefIdsOf, List.mem_append]
    exact Or.inl (Or.inl (mem_bindsRefIds hb hr hk))
  · intro r hr hk
    apply hall
    simp only [callRefIdsOf, List.mem_append, List.mem_map, List.mem_filter, beq_iff_eq]
    exact Or.inl (Or.inr ⟨r, ⟨hr, hk⟩, rfl⟩)
  · intro k hkm b hb r hr hk
    apply hall
    simp only [callRefIdsOf, List.mem_append, List.mem_flatMap]
    exact Or.inr ⟨k, hkm, Or.inl (mem_bindsRefIds hb hr hk)⟩
  · intro k hkm b hb r hr hk
    apply hall
    simp only [callRefIdsOf, List.mem_append, List.mem_flatMap]
    exact Or.inr ⟨k, hkm, Or.inr (mem_bindsRefIds hb hr hk)⟩

/-! ## one call -/

/-- `FreshFor` seen from one call -/
def CallFresh (x y : String) (k : Call) : Prop := k.decId ≠ y ∧ ¬(k.decId = x ∧ k.id = y)

/-- the `ren` of `renameDec` -/
def renDec (x y : String) (k : Call) : Call := if k.decId = x then { k with decId := y } else k

def rho (x y : String) (i : String) : String := if i = x then y else i

theorem renameCallOf_ne {x n : String} {ids : List String} {k : Call} (h : k.decId ≠ x) :
    renameCallOf x n ids k = k := by
  unfold renameCallOf; rw [if_neg h]

theorem renameCallOf_alias {x n : String} {ids : List String} {k : Call} (h : k.decId = x)
    (h2 : k.id ≠ x ∨ n ∈ ids) : renameCallOf x n ids k = { k with decId := n } := by
  have h3 : k.id ≠ k.decId ∨ n ∈ ids := by rw [h]; exact h2
  unfold renameCallOf; rw [if_pos h, if_pos h3]

theorem renameCallOf_take {x n : String} {ids : List String} {k : Call} (h : k.decId = x)
    (h2 : k.id = x) (h3 : n ∉ ids) : renameCallOf x n ids k = { k with id := n, decId := n } := by
  have h4 : ¬(k.id ≠ k.decId ∨ n ∈ ids) := by
    rw [h, h2]; intro h; rcases h with h | h
    · exact h rfl
    · exact h3 h
  unfold renameCallOf; rw [if_pos h, if_neg h4]

theorem renameCallOf_mapRefs (x n : String) (ids : List String) (f : Ref → Ref) (k : Call) :
    renameCallOf x n ids (Call.mapRefs f k) = Call.mapRefs f (renameCallOf x n ids k) := by
  by_cases hd : k.decId = x
  · by_cases h2 : k.id ≠ x ∨ n ∈ ids
    · rw [renameCallOf_alias hd h2, renameCallOf_alias (k := Call.mapRefs f k) hd h2]; rfl
    · have h2' : k.id = x ∧ n ∉ ids := by
        simp only [not_or, Decidable.not_not] at h2; exact h2
      rw [renameCallOf_take hd h2'.1 h2'.2, renameCallOf_take (k := Call.mapRefs f k) hd h2'.1 h2'.2]; rfl
  · rw [renameCallOf_ne hd, renameCallOf_ne (k := Call.mapRefs f k) hd]

theorem renameCallOf_roundtrip {x y : String} {ids ids' : List String} {k : Call}
    (hxy : x ≠ y) (hk : CallFresh x y k)
    (h : k.decId = x → k.id = x → y ∉ ids → x ∉ ids') :
    renameCallOf y x ids' (renameCallOf x y ids k) = k := by
  obtain ⟨hk1, hk2⟩ := hk
  by_cases hd : k.decId = x
  · have hid : k.id ≠ y := fun e => hk2 ⟨hd, e⟩
    by_cases h2 : k.id ≠ x ∨ y ∈ ids
    · rw [renameCallOf_alias hd h2]
      rw [renameCallOf_alias (k := { k with decId := y }) rfl (Or.inl hid)]
      cases k; simp only at hd; subst hd; rfl
    · have h2' : k.id = x ∧ y ∉ ids := by
        simp only [not_or, Decidable.not_not] at h2; exact h2
      rw [renameCallOf_take hd h2'.1 h2'.2]
      rw [renameCallOf_take (k := { k with id := y, decId := y }) rfl rfl (h hd h2'.1 h2'.2)]
      cases k; simp only at hd h2'; subst hd; rw [h2'.1]
  · rw [renameCallOf_ne hd, renameCallOf_ne hk1]

theorem renameCallOf_id_takes {x y : String} {ids : List String} {k : Call}
    (hy : y ∉ ids) (h : k.id = x → k.decId = x) :
    (renameCallOf x y ids k).id = rho x y k.id := by
  by_cases hd : k.decId = x
  · by_cases hi : k.id = x
    · rw [renameCallOf_take hd hi hy]; simp [rho, hi]
    · rw [renameCallOf_alias hd (Or.inl hi)]; simp [rho, hi]
  · have hi : k.id ≠ x := fun e => hd (h e)
    rw [renameCallOf_ne hd]; simp [rho, hi]

theorem renameCallOf_notakes {x y : String} {ids : List String} {k : Call}
    (h : ¬(k.decId = x ∧ k.id = x) ∨ y ∈ ids) :
    renameCallOf x y ids k = renDec x y k := by
  by_cases hd : k.decId = x
  · have : k.id ≠ x ∨ y ∈ ids := by
      rcases h with h | h
      · left; exact fun e => h ⟨hd, e⟩
      · right; exact h
    rw [renameCallOf_alias hd this]; simp [renDec, hd]
  · rw [renameCallOf_ne hd]; simp [renDec, hd]

/-! ## one pipeline -/

theorem takes_spec {x n : String} {c : Callable} :
    takesNewName x n c = true ↔ (∃ k ∈ c.calls, k.decId = x ∧ k.id = x) ∧ n ∉ callIds c := by
  simp [takesNewName]

theorem rIn_takes {x n : String} {c : Callable} (hn : c.name ≠ x) (hp : c.isPipe = true)
    (ht : takesNewName x n c = true) :
    renameCallableIn x n c =
      { c with
        calls := c.calls.map (fun k => Call.mapRefs (renRefId RefKind.call x n) (renameCallOf x n (callIds c) k)),
        ret := c.ret.map (Bind.mapRefs (renRefId RefKind.call x n)),
        retain := c.retain.map (renRefId RefKind.call x n) } := by
  simp [renameCallableIn, hn, hp, ht, List.map_map, Function.comp_def]

theorem rIn_notakes {x n : String} {c : Callable} (hn : c.name ≠ x) (hp : c.isPipe = true)
    (ht : takesNewName x n c = false) :
    renameCallableIn x n c = { c with calls := c.calls.map (renameCallOf x n (callIds c)) } := by
  simp [renameCallableIn, hn, hp, ht]

theorem callable_ext {a b : Callable} (h1 : a.isPipe = b.isPipe) (h2 : a.name = b.name)
    (h3 : a.keep = b.keep) (h4 : a.ins = b.ins) (h5 : a.outs = b.outs)
    (h6 : a.sretain = b.sretain) (h7 : a.calls = b.calls) (h8 : a.ret = b.ret)
    (h9 : a.retain = b.retain) : a = b := by
  cases a; cases b; simp_all

theorem takes_facts {x y : String} {c : Callable} (hnd : (callIds c).Nodup)
    (ht : takesNewName x y c = true) :
    (∀ k ∈ c.calls, k.id = x → k.decId = x) ∧ y ∉ callIds c := by
  obtain ⟨⟨k0, hk0, hd0, hi0⟩, hy⟩ := takes_spec.1 ht
  refine ⟨?_, hy⟩
  intro k hk hi
  have : k = k0 := nodup_map_inj (f := fun k : Call => k.id) hnd k hk k0 hk0 (by rw [hi, hi0])
  rw [this]; exact hd0

theorem callIds_takes {x y : String} {c : Callable} (f : Ref → Ref) (hnd : (callIds c).Nodup)
    (ht : takesNewName x y c = true) :
    (c.calls.map (fun k => Call.mapRefs f (renameCallOf x y (callIds c) k))).map (fun k => k.id)
      = (callIds c).map (rho x y) := by
  obtain ⟨ha, hy⟩ := takes_facts hnd ht
  simp only [callIds, List.map_map]
  apply List.map_congr_left
  intro k hk
  exact renameCallOf_id_takes hy (ha k hk)

theorem not_mem_map_rho {x y : String} (hxy : x ≠ y) (ids : List String) :
    x ∉ ids.map (rho x y) := by
  intro h
  obtain ⟨i, _, hi⟩ := List.mem_map.1 h
  unfold rho at hi
  split at hi
  · exact hxy hi.symm
  · rename_i h'; exact h' hi

theorem renRefId_roundtrip {x y : String} {r : Ref} (hr : r.kind = RefKind.call → r.id ≠ y) :
    renRefId RefKind.call y x (renRefId RefKind.call x y r) = r := by
  by_cases h : r.kind = RefKind.call ∧ r.id = x
  · have h1 : renRefId RefKind.call x y r = { r with id := y } := by
      unfold renRefId; rw [if_pos h]
    rw [h1]
    have h2 : ({ r with id := y } : Ref).kind = RefKind.call ∧ ({ r with id := y } : Ref).id = y :=
      ⟨h.1, rfl⟩
    unfold renRefId; rw [if_pos h2]
    cases r; simp only at h; simp [h.2]
  · have h1 : renRefId RefKind.call x y r = r := by
      unfold renRefId; rw [if_neg h]
    rw [h1]
    have h2 : ¬(r.kind = RefKind.call ∧ r.id = y) := fun e => hr e.1 e.2
    unfold renRefId; rw [if_neg h2]

theorem callMapRefs_roundtrip {f g : Ref → Ref} {k : Call}
    (hb : BindsAll (fun r => g (f r) = r) k.binds) (hm : BindsAll (fun r => g (f r) = r) k.mods) :
    Call.mapRefs g (Call.mapRefs f k) = k := by
  cases k
  simp only [Call.mapRefs] at *
  rw [bindsMap_comp, bindsMap_self hb, bindsMap_comp, bindsMap_self hm]

theorem bindsAll_roundtrip {x y : String} {ids : List String} {bs : List Bind}
    (hy : y ∉ ids) (h : BindsAll (RefOK ids) bs) :
    BindsAll (fun r => renRefId RefKind.call y x (renRefId RefKind.call x y r) = r) bs := by
  intro b hb r hr
  exact renRefId_roundtrip (fun hk e => hy (e ▸ h b hb r hr hk))

theorem renDec_id (x y : String) (k : Call) : (renDec x y k).id = k.id := by
  unfold renDec; split <;> rfl

theorem rIn_roundtrip {x y : String} {c : Callable} (hxy : x ≠ y) (hny : c.name ≠ y)
    (hwf : wfCallable c = true) (hfr : ∀ k ∈ c.calls, CallFresh x y k) :
    renameCallableIn y x (renameCallableIn x y c) = c := by
  by_cases hn : c.name = x
  · cases c
    simp only at hn
    subst hn
    simp [renameCallableIn]
  · by_cases hp0 : c.isPipe = false
    · simp [renameCallableIn, hn, hp0, hny]
    have hp : c.isPipe = true := by simpa using hp0
    have W := pipeWF_of hp hwf
    by_cases ht : takesNewName x y c = true
    · obtain ⟨ha, hy⟩ := takes_facts W.nodup ht
      rw [rIn_takes hn hp ht]
      have key : ∀ c', c' = { c with
          calls := c.calls.map (fun k => Call.mapRefs (renRefId RefKind.call x y) (renameCallOf x y (callIds c) k)),
          ret := c.ret.map (Bind.mapRefs (renRefId RefKind.call x y)),
          retain := c.retain.map (renRefId RefKind.call x y) } →
          renameCallableIn y x c' = c := by
        intro c' hc'
        have hn' : c'.name ≠ y := by rw [hc']; exact hny
        have hp' : c'.isPipe = true := by rw [hc']; exact hp
        have hids : callIds c' = (callIds c).map (rho x y) := by
          rw [hc']; exact callIds_takes _ W.nodup ht
        have hx' : x ∉ callIds c' := by rw [hids]; exact not_mem_map_rho hxy _
        obtain ⟨⟨k0, hk0, hd0, hi0⟩, _⟩ := takes_spec.1 ht
        have ht' : takesNewName y x c' = true := by
          refine takes_spec.2 ⟨⟨Call.mapRefs (renRefId RefKind.call x y) (renameCallOf x y (callIds c) k0), ?_, ?_⟩, hx'⟩
          · rw [hc']; exact List.mem_map.2 ⟨k0, hk0, rfl⟩
          · rw [renameCallOf_take hd0 hi0 hy]; exact ⟨rfl, rfl⟩
        rw [rIn_takes hn' hp' ht']
        subst hc'
        apply callable_ext <;> try rfl
        · dsimp only
          rw [List.map_map]
          apply map_eq_self
          intro k hk
          simp only [Function.comp]
          rw [renameCallOf_mapRefs, renameCallOf_roundtrip hxy (hfr k hk) (fun _ _ _ => hx')]
          exact callMapRefs_roundtrip (bindsAll_roundtrip hy (W.binds k hk))
            (bindsAll_roundtrip hy (W.mods k hk))
        · dsimp only
          rw [bindsMap_comp, bindsMap_self (bindsAll_roundtrip hy W.ret)]
        · dsimp only
          rw [List.map_map]
          apply map_eq_self
          intro r hr
          exact renRefId_roundtrip (fun hk e => hy (e ▸ W.retain r hr hk))
      exact key _ rfl
    · have ht0 : takesNewName x y c = false := by simpa using ht
      rw [rIn_notakes hn hp ht0]
      have hR : ∀ k ∈ c.calls, renameCallOf x y (callIds c) k = renDec x y k := by
        intro k hk
        apply renameCallOf_notakes
        by_cases hy : y ∈ callIds c
        · exact Or.inr hy
        · exact Or.inl (fun h => ht (takes_spec.2 ⟨⟨k, hk, h⟩, hy⟩))
      have key : ∀ c', c' = { c with calls := c.calls.map (renameCallOf x y (callIds c)) } →
          renameCallableIn y x c' = c := by
        intro c' hc'
        have hn' : c'.name ≠ y := by rw [hc']; exact hny
        have hp' : c'.isPipe = true := by rw [hc']; exact hp
        have hids : callIds c' = callIds c := by
          rw [hc']
          show List.map (fun k : Call => k.id) (List.map (renameCallOf x y (callIds c)) c.calls)
            = List.map (fun k : Call => k.id) c.calls
          rw [List.map_map]
          apply List.map_congr_left
          intro k hk
          simp only [Function.comp]
          rw [hR k hk, renDec_id]
        have ht' : takesNewName y x c' = false := by
          apply Bool.eq_false_iff.2
          intro h
          obtain ⟨⟨k', hk', hd, hi⟩, _⟩ := takes_spec.1 h
          rw [hc'] at hk'
          obtain ⟨k, hk, rfl⟩ := List.mem_map.1 hk'
          rw [hR k hk] at hd hi
          rw [renDec_id] at hi
          obtain ⟨f1, f2⟩ := hfr k hk
          unfold renDec at hd
          split at hd
          · rename_i hdx; exact f2 ⟨hdx, hi⟩
          · exact f1 hd
        rw [rIn_notakes hn' hp' ht', hids]
        subst hc'
        apply callable_ext <;> try rfl
        dsimp only
        rw [List.map_map]
        apply map_eq_self
        intro k hk
        simp only [Function.comp]
        exact renameCallOf_roundtrip hxy (hfr k hk)
          (fun h1 h2 h3 => absurd (takes_spec.2 ⟨⟨k, hk, h1, h2⟩, h3⟩) ht)
      exact key _ rfl

theorem renameTop_roundtrip {x y : String} {t : Call} (hxy : x ≠ y) (hk : CallFresh x y t) :
    renameTop y x (renameTop x y t) = t := by
  obtain ⟨h1, h2⟩ := hk
  cases t with
  | mk id decId flags binds mods =>
    simp only at h1 h2
    by_cases hd : decId = x
    · subst hd
      have hid : id ≠ y := fun e => h2 ⟨rfl, e⟩
      by_cases hi : id = decId
      · subst hi; simp [renameTop]
      · simp [renameTop, hi, hid]
    · simp [renameTop, hd, h1]

theorem fresh_facts {x y : String} {p : Program} (h : FreshFor x y p = true) :
    x ≠ y ∧ (∀ c ∈ p.callables, c.name ≠ y) ∧
    (∀ c ∈ p.callables, ∀ k ∈ c.calls, CallFresh x y k) ∧
    (∀ t, p.top = some t → CallFresh x y t) := by
  simp only [FreshFor, Bool.and_eq_true, bne_iff_ne, ne_eq, Bool.not_eq_true', List.any_eq_false,
    beq_iff_eq, List.all_eq_true, Bool.and_eq_false_imp] at h
  obtain ⟨⟨⟨h1, h2⟩, h3⟩, h4⟩ := h
  refine ⟨h1, h2, ?_, ?_⟩
  · intro c hc k hk
    have := h3 c hc k hk
    exact ⟨this.1, fun e => by have h := this.2 e.1; rw [e.2] at h; simp at h⟩
  · intro t ht
    rw [ht] at h4
    simp only [Bool.and_eq_true, bne_iff_ne, ne_eq, Bool.not_eq_true', Bool.and_eq_false_imp,
      beq_iff_eq] at h4
    exact ⟨h4.1, fun e => by have h := h4.2 e.1; rw [e.2] at h; simp at h⟩

theorem wf_facts {p : Program} (h : WF p = true) :
    (p.callables.map (·.name)).Nodup ∧ ∀ c ∈ p.callables, wfCallable c = true := by
  simpa only [WF, Bool.and_eq_true, decide_eq_true_eq, List.all_eq_true] using h

theorem renameCallable_some {x n : String} {p : Program} (hxn : x ≠ n)
    (h : (p.find? x).isSome = true) :
    renameCallable x n p =
      { callables := p.callables.map (renameCallableIn x n), top := p.top.map (renameTop x n) } := by
  unfold renameCallable
  rw [if_neg hxn]
  cases hf : p.find? x with
  | none => rw [hf] at h; cases h
  | some c => rfl

theorem renameCallable_none {x n : String} {p : Program} (h : p.find? x = none) :
    renameCallable x n p = p := by
  unfold renameCallable
  split
  · rfl
  · rw [h]

theorem rename_rename_id (p : Program) (x y : String)
    (hwf : WF p = true) (hfresh : FreshFor x y p = true) :
    renameCallable y x (renameCallable x y p) = p := by
  obtain ⟨hxy, hny, hcalls, htop⟩ := fresh_facts hfresh
  obtain ⟨_, hwfc⟩ := wf_facts hwf
  have hynone : p.find? y = none := by
    unfold Program.find?
    rw [List.find?_eq_none]
    intro c hc
    simpa using hny c hc
  cases hf : p.find? x with
  | none => rw [renameCallable_none hf, renameCallable_none hynone]
  | some c0 =>
    have hsome : (p.find? x).isSome = true := by rw [hf]; rfl
    rw [renameCallable_some hxy hsome]
    have hc0 : c0 ∈ p.callables := List.mem_of_find?_eq_some hf
    have hc0n : c0.name = x := by
      have := List.find?_some hf
      simpa using this
    have hsome' : (Program.find? (Program.mk (p.callables.map (renameCallableIn x y))
        (p.top.map (renameTop x y))) y).isSome = true := by
      unfold Program.find?
      rw [List.find?_isSome]
      refine ⟨renameCallableIn x y c0, List.mem_map.2 ⟨c0, hc0, rfl⟩, ?_⟩
      simp [renameCallableIn, hc0n]
    rw [renameCallable_some (Ne.symm hxy) hsome']
    cases p with
    | mk cs top =>
      simp only [Program.mk.injEq]
      constructor
      · rw [List.map_map]
        apply map_eq_self
        intro c hc
        exact rIn_roundtrip hxy (hny c hc) (hwfc c hc) (hcalls c hc)
      · cases top with
        | none => rfl
        | some t =>
          simp only [Option.map_some, Option.some.injEq]
          exact renameTop_roundtrip hxy (htop t rfl)

/-! ## erasure of call ids -/

theorem idxOf_map_inj {ρ : String → String} {i : String} :
    ∀ {ids : List String}, (∀ j ∈ ids, ρ j = ρ i → j = i) →
      idxOf (ρ i) (ids.map ρ) = idxOf i ids
  | [], _ => rfl
  | a :: l, h => by
    have ih := idxOf_map_inj (ρ := ρ) (i := i) (ids := l) (fun j hj => h j (by simp [hj]))
    simp only [List.map_cons, idxOf]
    by_cases ha : a = i
    · subst ha; simp
    · have : ρ a ≠ ρ i := fun e => ha (h a (by simp) e)
      rw [if_neg this, if_neg ha, ih]

theorem idxOf_of_mem {i : String} : ∀ {ids : List String}, i ∈ ids → ∃ k, idxOf i ids = some k
  | [], h => by cases h
  | a :: l, h => by
    simp only [idxOf]
    by_cases ha : a = i
    · exact ⟨0, by rw [if_pos ha]⟩
    · have hm : i ∈ l := by
        rcases List.mem_cons.1 h with h | h
        · exact absurd h.symm ha
        · exact h
      obtain ⟨k, hk⟩ := idxOf_of_mem hm
      exact ⟨k + 1, by rw [if_neg ha, hk]; rfl⟩

theorem rho_inj_on {x y : String} {ids : List String} (hy : y ∉ ids) {i : String} (hi : i ∈ ids) :
    ∀ j ∈ ids, rho x y j = rho x y i → j = i := by
  intro j hj e
  have hiy : i ≠ y := fun e => hy (e ▸ hi)
  have hjy : j ≠ y := fun e => hy (e ▸ hj)
  unfold rho at e
  by_cases h1 : j = x <;> by_cases h2 : i = x
  · rw [h1, h2]
  · rw [if_pos h1, if_neg h2] at e; exact absurd e.symm hiy
  · rw [if_neg h1, if_pos h2] at e; exact absurd e hjy
  · rw [if_neg h1, if_neg h2] at e; exact e

theorem eraseRef_ren {x y : String} {ids : List String} {r : Ref} (hy : y ∉ ids)
    (hr : RefOK ids r) :
    eraseRef (ids.map (rho x y)) (renRefId RefKind.call x y r) = eraseRef ids r := by
  by_cases hk : r.kind = RefKind.call
  · have hm := hr hk
    have h1 : renRefId RefKind.call x y r = { r with id := rho x y r.id } := by
      unfold renRefId rho
      by_cases hx : r.id = x
      · rw [if_pos ⟨hk, hx⟩, if_pos hx]
      · rw [if_neg (fun e => hx e.2), if_neg hx]
    obtain ⟨n, hn⟩ := idxOf_of_mem hm
    have hn' : idxOf (rho x y r.id) (ids.map (rho x y)) = some n := by
      rw [idxOf_map_inj (rho_inj_on hy hm), hn]
    rw [h1]
    unfold eraseRef
    rw [if_pos hk, if_pos (show ({ r with id := rho x y r.id } : Ref).kind = RefKind.call from hk)]
    simp only [hn, hn']
  · have h1 : renRefId RefKind.call x y r = r := by
      unfold renRefId; rw [if_neg (fun e => hk e.1)]
    rw [h1]
    unfold eraseRef
    rw [if_neg hk, if_neg hk]

theorem bindsAll_erase {x y : String} {ids : List String} {bs : List Bind}
    (hy : y ∉ ids) (h : BindsAll (RefOK ids) bs) :
    BindsAll (fun r => eraseRef (ids.map (rho x y)) (renRefId RefKind.call x y r) = eraseRef ids r) bs := by
  intro b hb r hr
  exact eraseRef_ren hy (h b hb r hr)

theorem erase_call_takes {x y s : String} {ids : List String} {e' e f : Ref → Ref} {k : Call}
    (hb : BindsAll (fun r => e' (f r) = e r) k.binds)
    (hm : BindsAll (fun r => e' (f r) = e r) k.mods) :
    Call.mapRefs e' { Call.mapRefs f (renameCallOf x y ids k) with id := s }
      = renDec x y (Call.mapRefs e { k with id := s }) := by
  have hb' := bindsMap_congr hb
  have hm' := bindsMap_congr hm
  by_cases hd : k.decId = x
  · have h1 : ({ Call.mapRefs f (renameCallOf x y ids k) with id := s } : Call)
        = { Call.mapRefs f k with id := s, decId := y } := by
      by_cases h2 : k.id ≠ x ∨ y ∈ ids
      · rw [renameCallOf_alias hd h2]; rfl
      · have h2' : k.id = x ∧ y ∉ ids := by
          simp only [not_or, Decidable.not_not] at h2; exact h2
        rw [renameCallOf_take hd h2'.1 h2'.2]; rfl
    rw [h1]
    have h3 : (Call.mapRefs e { k with id := s }).decId = x := hd
    unfold renDec
    rw [if_pos h3]
    simp only [Call.mapRefs, bindsMap_comp, hb', hm']
  · rw [renameCallOf_ne hd]
    have h3 : ¬ (Call.mapRefs e { k with id := s }).decId = x := hd
    unfold renDec
    rw [if_neg h3]
    simp only [Call.mapRefs, bindsMap_comp, hb', hm']

theorem erase_call_notakes {x y s : String} {e : Ref → Ref} {k : Call} :
    Call.mapRefs e { renDec x y k with id := s } = renDec x y (Call.mapRefs e { k with id := s }) := by
  by_cases hd : k.decId = x
  · have h3 : (Call.mapRefs e { k with id := s }).decId = x := hd
    unfold renDec
    rw [if_pos h3, if_pos hd]; rfl
  · have h3 : ¬ (Call.mapRefs e { k with id := s }).decId = x := hd
    unfold renDec
    rw [if_neg h3, if_neg hd]

theorem eraseAux_map {ids ids' : List String} {h ren : Call → Call} :
    ∀ {l : List Call} (n : Nat),
      (∀ k ∈ l, ∀ n, Call.mapRefs (eraseRef ids') { h k with id := posName n }
        = ren (Call.mapRefs (eraseRef ids) { k with id := posName n })) →
      eraseCallIdsAux ids' n (l.map h) = (eraseCallIdsAux ids n l).map ren
  | [], _, _ => rfl
  | k :: l, n, H => by
    simp only [List.map_cons, eraseCallIdsAux]
    rw [H k (by simp) n, eraseAux_map (n + 1) (fun k' hk' => H k' (by simp [hk']))]

theorem eraseTop {x y s : String} (t : Call) :
    ({ renameTop x y t with id := s } : Call) = renDec x y { t with id := s } := by
  by_cases hd : t.decId = x
  · have h3 : ({ t with id := s } : Call).decId = x := hd
    unfold renameTop renDec
    rw [if_pos hd, if_pos h3]
  · have h3 : ¬ ({ t with id := s } : Call).decId = x := hd
    unfold renameTop renDec
    rw [if_neg hd, if_neg h3]

theorem renameDec_eq (x y : String) (p : Program) :
    renameDec x y p =
      { callables := p.callables.map (fun c =>
          if c.name = x then { c with name := y }
          else { c with calls := c.calls.map (renDec x y) }),
        top := p.top.map (renDec x y) } := rfl

theorem erase_rIn {x y : String} {c : Callable} (hwf : wfCallable c = true) :
    eraseCallIds (renameCallableIn x y c) =
      (if (eraseCallIds c).name = x then { eraseCallIds c with name := y }
       else { eraseCallIds c with calls := (eraseCallIds c).calls.map (renDec x y) }) := by
  have hname : (eraseCallIds c).name = c.name := rfl
  rw [hname]
  by_cases hn : c.name = x
  · rw [if_pos hn]
    unfold renameCallableIn
    rw [if_pos hn]
    rfl
  · rw [if_neg hn]
    by_cases hp0 : c.isPipe = false
    · have h1 : renameCallableIn x y c = c := by
        simp [renameCallableIn, hn, hp0]
      have hcalls : c.calls = [] := by
        simp [wfCallable, hp0] at hwf
        exact hwf.1.1
      rw [h1]
      apply callable_ext <;> try rfl
      show eraseCallIdsAux (callIds c) 0 c.calls = (eraseCallIdsAux (callIds c) 0 c.calls).map (renDec x y)
      rw [hcalls]; rfl
    have hp : c.isPipe = true := by simpa using hp0
    have W := pipeWF_of hp hwf
    by_cases ht : takesNewName x y c = true
    · obtain ⟨ha, hy⟩ := takes_facts W.nodup ht
      rw [rIn_takes hn hp ht]
      have key : ∀ c', c' = { c with
          calls := c.calls.map (fun k => Call.mapRefs (renRefId RefKind.call x y) (renameCallOf x y (callIds c) k)),
          ret := c.ret.map (Bind.mapRefs (renRefId RefKind.call x y)),
          retain := c.retain.map (renRefId RefKind.call x y) } →
          eraseCallIds c' =
            { eraseCallIds c with calls := (eraseCallIds c).calls.map (renDec x y) } := by
        intro c' hc'
        have hids : callIds c' = (callIds c).map (rho x y) := by
          rw [hc']; exact callIds_takes _ W.nodup ht
        unfold eraseCallIds
        simp only [hids]
        subst hc'
        apply callable_ext <;> try rfl
        · dsimp only
          apply eraseAux_map
          intro k hk n
          exact erase_call_takes (bindsAll_erase hy (W.binds k hk)) (bindsAll_erase hy (W.mods k hk))
        · dsimp only
          rw [bindsMap_comp, bindsMap_congr (bindsAll_erase hy W.ret)]
        · dsimp only
          rw [List.map_map]
          apply List.map_congr_left
          intro r hr
          exact eraseRef_ren hy (W.retain r hr)
      exact key _ rfl
    · have ht0 : takesNewName x y c = false := by simpa using ht
      rw [rIn_notakes hn hp ht0]
      have hR : ∀ k ∈ c.calls, renameCallOf x y (callIds c) k = renDec x y k := by
        intro k hk
        apply renameCallOf_notakes
        by_cases hy : y ∈ callIds c
        · exact Or.inr hy
        · exact Or.inl (fun h => ht (takes_spec.2 ⟨⟨k, hk, h⟩, hy⟩))
      have hmap : c.calls.map (renameCallOf x y (callIds c)) = c.calls.map (renDec x y) :=
        List.map_congr_left hR
      rw [hmap]
      have key : ∀ c', c' = { c with calls := c.calls.map (renDec x y) } →
          eraseCallIds c' =
            { eraseCallIds c with calls := (eraseCallIds c).calls.map (renDec x y) } := by
        intro c' hc'
        have hids : callIds c' = callIds c := by
          rw [hc']
          show List.map (fun k : Call => k.id) (List.map (renDec x y) c.calls)
            = List.map (fun k : Call => k.id) c.calls
          rw [List.map_map]
          apply List.map_congr_left
          intro k hk
          simp only [Function.comp]
          rw [renDec_id]
        unfold eraseCallIds
        simp only [hids]
        subst hc'
        apply callable_ext <;> try rfl
        dsimp only
        apply eraseAux_map
        intro k hk n
        exact erase_call_notakes
      exact key _ rfl

theorem rename_callgraph (p : Program) (x y : String)
    (hwf : WF p = true) (hfresh : FreshFor x y p = true) (hx : (p.find? x).isSome = true) :
    eraseIds (renameCallable x y p) = renameDec x y (eraseIds p) := by
  obtain ⟨hxy, _, _, _⟩ := fresh_facts hfresh
  obtain ⟨_, hwfc⟩ := wf_facts hwf
  rw [renameCallable_some hxy hx, renameDec_eq]
  unfold eraseIds
  simp only [Program.mk.injEq, List.map_map]
  constructor
  · apply List.map_congr_left
    intro c hc
    simp only [Function.comp]
    exact erase_rIn (hwfc c hc)
  · cases p.top with
    | none => rfl
    | some t =>
      simp only [Option.map_some, Option.some.injEq]
      exact eraseTop t

end Proofs.Refactor
