import Martian.Refactor
namespace Proofs.Refactor
open Martian.Refactor

theorem rename_rename_id (p : Program) (x y : String)
    (hwf : WF p = true) (hfresh : FreshFor x y p = true) :
    renameCallable y x (renameCallable x y p) = p := by
  sorry

theorem rename_callgraph (p : Program) (x y : String)
    (hwf : WF p = true) (hfresh : FreshFor x y p = true) (hx : (p.find? x).isSome = true) :
    eraseIds (renameCallable x y p) = renameDec x y (eraseIds p) := by
  sorry

end Proofs.Refactor
