/-
Helper lemmas for the typing model (Martian/Typing.lean), used by Props/C07.lean.
Core Lean only.
-/
import Martian.Typing
import Proofs.Types

namespace Martian.Typing
open Martian.Json Martian.Types

/-! ### small list facts -/

theorem allSome_map {α β : Type} (f : α → Option β) (R : α → β → Prop) :
    ∀ (xs : List α), (∀ x ∈ xs, ∃ w, f x = some w ∧ R x w) →
      ∃ ws, allSome (xs.map f) = some ws ∧ ∀ w ∈ ws, ∃ x ∈ xs, R x w
  | [], _ => ⟨[], rfl, by simp⟩
  | x :: xs, h => by
    obtain ⟨w, hw, hr⟩ := h x List.mem_cons_self
    obtain ⟨ws, hws, hall⟩ := allSome_map f R xs (fun y hy => h y (List.mem_cons_of_mem _ hy))
    refine ⟨w :: ws, by simp [allSome, hw, hws], ?_⟩
    intro w' hw'
    rcases List.mem_cons.mp hw' with rfl | hw'
    · exact ⟨x, List.mem_cons_self, hr⟩
    · obtain ⟨y, hy, hr'⟩ := hall w' hw'
      exact ⟨y, List.mem_cons_of_mem _ hy, hr'⟩

/-! ### `fieldType` / `project` on the members of a struct -/

theorem fieldType_nil (t : Ty) : fieldType t [] = some t := by
  cases t <;> simp [fieldType]

theorem project_nil (t : Ty) (v : J) : project t v [] = some v := by
  cases t <;> simp [project]

theorem fieldTypeF_eq : ∀ (fs : Fields) (k : Bytes) (p : List Bytes),
    fieldTypeF fs k p = match fs.get k with | some t => fieldType t p | none => none
  | .nil, k, p => by simp [fieldTypeF, Fields.get]
  | .cons k' t r, k, p => by
    simp only [fieldTypeF, Fields.get]
    by_cases h : k' = k
    · simp [h]
    · simp [h, fieldTypeF_eq r k p]

theorem projectF_eq : ∀ (fs : Fields) (k : Bytes) (w : J) (p : List Bytes),
    projectF fs k w p = match fs.get k with | some t => project t w p | none => none
  | .nil, k, w, p => by simp [projectF, Fields.get]
  | .cons k' t r, k, w, p => by
    simp only [projectF, Fields.get]
    by_cases h : k' = k
    · simp [h]
    · simp [h, projectF_eq r k w p]

/-! ### file kinds are inherited upwards through projections -/

/-- `file` or `directory` -/
def _root_.Martian.Types.FileKind.filey : FileKind → Bool
  | .file | .directory => true
  | _ => false

theorem isDirMap_eq (t : Ty) : isDirMap t = (fileKind t).filey := by
  simp only [isDirMap, FileKind.filey]
  cases fileKind t <;> rfl

theorem filey_arr (t : Ty) : (fileKind (.arr t)).filey = (fileKind t).filey := by
  simp only [fileKind]
  cases fileKind t <;> rfl

theorem filey_tmap (t : Ty) : (fileKind (.tmap t)).filey = (fileKind t).filey := by
  simp only [fileKind]
  cases fileKind t <;> rfl

theorem filey_structStep (acc m : FileKind) :
    (acc.structStep m).filey = (acc.filey || m.filey) := by
  cases acc <;> cases m <;> simp [FileKind.structStep, FileKind.filey]

theorem filey_fieldsKind : ∀ (fs : Fields) (acc : FileKind),
    (fieldsKind acc fs).filey = (acc.filey || fs.toList.any (fun kt => (fileKind kt.2).filey))
  | .nil, acc => by simp [fieldsKind, Fields.toList]
  | .cons k t r, acc => by
    simp only [fieldsKind, Fields.toList, List.any_cons]
    rw [filey_fieldsKind r, filey_structStep, Bool.or_assoc]

theorem filey_struct_of_member (n : Bytes) (fs : Fields) (k : Bytes) (t : Ty)
    (hm : (k, t) ∈ fs.toList) (h : (fileKind t).filey = true) :
    (fileKind (.struct n fs)).filey = true := by
  simp only [fileKind, filey_fieldsKind, Bool.or_eq_true, List.any_eq_true]
  exact Or.inr ⟨(k, t), hm, h⟩

/-- if the projected type is a file / directory type, so is the type projected from -/
theorem filey_of_fieldType (t : Ty) : ∀ (p : List Bytes) (r : Ty),
    fieldType t p = some r → (fileKind r).filey = true → (fileKind t).filey = true := by
  induction t using Ty.induct' with
  | base b =>
    intro p r h hf
    cases p with
    | nil => simp [fieldType] at h; subst h; exact hf
    | cons k p => simp [fieldType] at h
  | user n =>
    intro p r h hf
    cases p with
    | nil => simp [fieldType] at h; subst h; exact hf
    | cons k p => simp [fieldType] at h
  | arr e ih =>
    intro p r h hf
    cases p with
    | nil => simp [fieldType] at h; subst h; exact hf
    | cons k p =>
      simp only [fieldType, Option.map_eq_some_iff] at h
      obtain ⟨r', hr', rfl⟩ := h
      rw [filey_arr] at hf ⊢
      exact ih _ _ hr' hf
  | tmap e ih =>
    intro p r h hf
    cases p with
    | nil => simp [fieldType] at h; subst h; exact hf
    | cons k p =>
      simp only [fieldType] at h
      cases hr' : fieldType e (k :: p) with
      | none => simp [hr'] at h
      | some r' =>
        simp only [hr'] at h
        split at h
        · cases h
          rw [filey_tmap] at hf ⊢
          exact ih _ _ hr' hf
        · cases h
  | struct n fs ih =>
    intro p r h hf
    cases p with
    | nil => simp [fieldType] at h; subst h; exact hf
    | cons k p =>
      simp only [fieldType, fieldTypeF_eq] at h
      cases hg : fs.get k with
      | none => simp [hg] at h
      | some t =>
        simp only [hg] at h
        have hm := Fields.get_mem hg
        exact filey_struct_of_member n fs k t hm (ih k t hm _ _ h hf)

/-! ### soundness of projection -/

theorem fieldType_shape (t : Ty) : ∀ (v : J) (p : List Bytes) (t' : Ty),
    Shape t v → fieldType t p = some t' → ∃ w, project t v p = some w ∧ Shape t' w := by
  induction t using Ty.induct' with
  | base b =>
    intro v p t' hs h
    cases p with
    | nil => simp [fieldType] at h; subst h; exact ⟨v, project_nil _ _, hs⟩
    | cons k p => simp [fieldType] at h
  | user n =>
    intro v p t' hs h
    cases p with
    | nil => simp [fieldType] at h; subst h; exact ⟨v, project_nil _ _, hs⟩
    | cons k p => simp [fieldType] at h
  | arr e ih =>
    intro v p t' hs h
    cases p with
    | nil => simp [fieldType] at h; subst h; exact ⟨v, project_nil _ _, hs⟩
    | cons k p =>
      simp only [fieldType, Option.map_eq_some_iff] at h
      obtain ⟨r, hr, rfl⟩ := h
      cases hs with
      | null => exact ⟨.null, by simp [project], Shape.null _⟩
      | arr _ xs hx =>
        obtain ⟨ws, hws, hall⟩ := allSome_map (fun x => project e x (k :: p)) (fun _ w => Shape r w) xs
          (fun x hxm => ih x (k :: p) r (hx x hxm) hr)
        refine ⟨.arr ws, by simp [project, hws], Shape.arr _ _ ?_⟩
        intro w hw
        obtain ⟨_, _, h'⟩ := hall w hw
        exact h'
  | tmap e ih =>
    intro v p t' hs h
    cases p with
    | nil => simp [fieldType] at h; subst h; exact ⟨v, project_nil _ _, hs⟩
    | cons k p =>
      simp only [fieldType] at h
      cases hr : fieldType e (k :: p) with
      | none => simp [hr] at h
      | some r =>
        simp only [hr] at h
        split at h
        · cases h
          cases hs with
          | null => exact ⟨.null, by simp [project], Shape.null _⟩
          | tmap _ kvs h1 h2 =>
            obtain ⟨ws, hws, hall⟩ := allSome_map
              (fun kv : Bytes × J => (project e kv.2 (k :: p)).map (fun w => (kv.1, w)))
              (fun kv w => w.1 = kv.1 ∧ Shape r w.2) kvs
              (fun kv hkv => by
                obtain ⟨w, hw, hsw⟩ := ih kv.2 (k :: p) r (h1 kv hkv) hr
                exact ⟨(kv.1, w), by simp [hw], rfl, hsw⟩)
            refine ⟨.obj ws, by simp [project, hws], Shape.tmap _ _ ?_ ?_⟩
            · intro w hw
              obtain ⟨_, _, _, h'⟩ := hall w hw
              exact h'
            · intro hd w hw
              obtain ⟨kv, hkv, hk, _⟩ := hall w hw
              rw [hk]
              have : isDirMap e = true := by
                rw [isDirMap_eq] at hd ⊢
                exact filey_of_fieldType e _ _ hr hd
              exact h2 this kv hkv
        · cases h
  | struct n fs ih =>
    intro v p t' hs h
    cases p with
    | nil => simp [fieldType] at h; subst h; exact ⟨v, project_nil _ _, hs⟩
    | cons k p =>
      simp only [fieldType, fieldTypeF_eq] at h
      cases hg : fs.get k with
      | none => simp [hg] at h
      | some t =>
        simp only [hg] at h
        have hm := Fields.get_mem hg
        cases hs with
        | null => exact ⟨.null, by simp [project], Shape.null _⟩
        | struct _ _ kvs h1 h2 =>
          have hsome := h1 k t hm
          cases hgk : getKey k kvs with
          | none => simp [hgk] at hsome
          | some w =>
            obtain ⟨w', hw', hsw⟩ := ih k t hm w p t' (h2 k t w hm hgk) h
            exact ⟨w', by simp [project, hgk, projectF_eq, hg, hw'], hsw⟩

end Martian.Typing
