/-
Helper lemmas for the typing model (Martian/Typing.lean), used by Props/C07.lean.
Core Lean only.
-/
import Martian.Typing
import Proofs.Types

namespace Martian.Typing
open Martian.Json Martian.Types

/-! ### small list facts -/

theorem allSome_map {α β : Type} (f : α → Option β) (R : α → β → Prop) :
    ∀ (xs : List α), (∀ x ∈ xs, ∃ w, f x = some w ∧ R x w) →
      ∃ ws, allSome (xs.map f) = some ws ∧ ∀ w ∈ ws, ∃ x ∈ xs, R x w
  | [], _ => ⟨[], rfl, by simp⟩
  | x :: xs, h => by
    obtain ⟨w, hw, hr⟩ := h x List.mem_cons_self
    obtain ⟨ws, hws, hall⟩ := allSome_map f R xs (fun y hy => h y (List.mem_cons_of_mem _ hy))
    refine ⟨w :: ws, by simp [allSome, hw, hws], ?_⟩
    intro w' hw'
    rcases List.mem_cons.mp hw' with rfl | hw'
    · exact ⟨x, List.mem_cons_self, hr⟩
    · obtain ⟨y, hy, hr'⟩ := hall w' hw'
      exact ⟨y, List.mem_cons_of_mem _ hy, hr'⟩

/-! ### `fieldType` / `project` on the members of a struct -/

theorem fieldType_nil (t : Ty) : fieldType t [] = some t := by
  cases t <;> simp [fieldType]

theorem project_nil (t : Ty) (v : J) : project t v [] = some v := by
  cases t <;> simp [project]

theorem fieldTypeF_eq : ∀ (fs : Fields) (k : Bytes) (p : List Bytes),
    fieldTypeF fs k p = match fs.get k with | some t => fieldType t p | none => none
  | .nil, k, p => by simp [fieldTypeF, Fields.get]
  | .cons k' t r, k, p => by
    simp only [fieldTypeF, Fields.get]
    by_cases h : k' = k
    · simp [h]
    · simp [h, fieldTypeF_eq r k p]

theorem projectF_eq : ∀ (fs : Fields) (k : Bytes) (w : J) (p : List Bytes),
    projectF fs k w p = match fs.get k with | some t => project t w p | none => none
  | .nil, k, w, p => by simp [projectF, Fields.get]
  | .cons k' t r, k, w, p => by
    simp only [projectF, Fields.get]
    by_cases h : k' = k
    · simp [h]
    · simp [h, projectF_eq r k w p]

/-! ### file kinds are inherited upwards through projections -/

/-- `file` or `directory` -/
def _root_.Martian.Types.FileKind.filey : FileKind → Bool
  | .file | .directory => true
  | _ => false

theorem isDirMap_eq (t : Ty) : isDirMap t = (fileKind t).filey := by
  simp only [isDirMap, FileKind.filey]
  cases fileKind t <;> rfl

theorem filey_arr (t : Ty) : (fileKind (.arr t)).filey = (fileKind t).filey := by
  simp only [fileKind]
  cases fileKind t <;> rfl

theorem filey_tmap (t : Ty) : (fileKind (.tmap t)).filey = (fileKind t).filey := by
  simp only [fileKind]
  cases fileKind t <;> rfl

theorem filey_structStep (acc m : FileKind) :
    (acc.structStep m).filey = (acc.filey || m.filey) := by
  cases acc <;> cases m <;> simp [FileKind.structStep, FileKind.filey]

theorem filey_fieldsKind : ∀ (fs : Fields) (acc : FileKind),
    (fieldsKind acc fs).filey = (acc.filey || fs.toList.any (fun kt => (fileKind kt.2).filey))
  | .nil, acc => by simp [fieldsKind, Fields.toList]
  | .cons k t r, acc => by
    simp only [fieldsKind, Fields.toList, List.any_cons]
    rw [filey_fieldsKind r, filey_structStep, Bool.or_assoc]

theorem filey_struct_of_member (n : Bytes) (fs : Fields) (k : Bytes) (t : Ty)
    (hm : (k, t) ∈ fs.toList) (h : (fileKind t).filey = true) :
    (fileKind (.struct n fs)).filey = true := by
  simp only [fileKind, filey_fieldsKind, Bool.or_eq_true, List.any_eq_true]
  exact Or.inr ⟨(k, t), hm, h⟩

/-- if the projected type is a file / directory type, so is the type projected from -/
theorem filey_of_fieldType (t : Ty) : ∀ (p : List Bytes) (r : Ty),
    fieldType t p = some r → (fileKind r).filey = true → (fileKind t).filey = true := by
  induction t using Ty.induct' with
  | base b =>
    intro p r h hf
    cases p with
    | nil => simp [fieldType] at h; subst h; exact hf
    | cons k p => simp [fieldType] at h
  | user n =>
    intro p r h hf
    cases p with
    | nil => simp [fieldType] at h; subst h; exact hf
    | cons k p => simp [fieldType] at h
  | arr e ih =>
    intro p r h hf
    cases p with
    | nil => simp [fieldType] at h; subst h; exact hf
    | cons k p =>
      simp only [fieldType, Option.map_eq_some_iff] at h
      obtain ⟨r', hr', rfl⟩ := h
      rw [filey_arr] at hf ⊢
      exact ih _ _ hr' hf
  | tmap e ih =>
    intro p r h hf
    cases p with
    | nil => simp [fieldType] at h; subst h; exact hf
    | cons k p =>
      simp only [fieldType] at h
      cases hr' : fieldType e (k :: p) with
      | none => simp [hr'] at h
      | some r' =>
        simp only [hr'] at h
        split at h
        · cases h
          rw [filey_tmap] at hf ⊢
          exact ih _ _ hr' hf
        · cases h
  | struct n fs ih =>
    intro p r h hf
    cases p with
    | nil => simp [fieldType] at h; subst h; exact hf
    | cons k p =>
      simp only [fieldType, fieldTypeF_eq] at h
      cases hg : fs.get k with
      | none => simp [hg] at h
      | some t =>
        simp only [hg] at h
        have hm := Fields.get_mem hg
        exact filey_struct_of_member n fs k t hm (ih k t hm _ _ h hf)

/-! ### soundness of projection -/

theorem fieldType_shape (t : Ty) : ∀ (v : J) (p : List Bytes) (t' : Ty),
    Shape t v → fieldType t p = some t' → ∃ w, project t v p = some w ∧ Shape t' w := by
  induction t using Ty.induct' with
  | base b =>
    intro v p t' hs h
    cases p with
    | nil => simp [fieldType] at h; subst h; exact ⟨v, project_nil _ _, hs⟩
    | cons k p => simp [fieldType] at h
  | user n =>
    intro v p t' hs h
    cases p with
    | nil => simp [fieldType] at h; subst h; exact ⟨v, project_nil _ _, hs⟩
    | cons k p => simp [fieldType] at h
  | arr e ih =>
    intro v p t' hs h
    cases p with
    | nil => simp [fieldType] at h; subst h; exact ⟨v, project_nil _ _, hs⟩
    | cons k p =>
      simp only [fieldType, Option.map_eq_some_iff] at h
      obtain ⟨r, hr, rfl⟩ := h
      cases hs with
      | null => exact ⟨.null, by simp [project], Shape.null _⟩
      | arr _ xs hx =>
        obtain ⟨ws, hws, hall⟩ := allSome_map (fun x => project e x (k :: p)) (fun _ w => Shape r w) xs
          (fun x hxm => ih x (k :: p) r (hx x hxm) hr)
        refine ⟨.arr ws, by simp [project, hws], Shape.arr _ _ ?_⟩
        intro w hw
        obtain ⟨_, _, h'⟩ := hall w hw
        exact h'
  | tmap e ih =>
    intro v p t' hs h
    cases p with
    | nil => simp [fieldType] at h; subst h; exact ⟨v, project_nil _ _, hs⟩
    | cons k p =>
      simp only [fieldType] at h
      cases hr : fieldType e (k :: p) with
      | none => simp [hr] at h
      | some r =>
        simp only [hr] at h
        split at h
        · cases h
          cases hs with
          | null => exact ⟨.null, by simp [project], Shape.null _⟩
          | tmap _ kvs h1 h2 =>
            obtain ⟨ws, hws, hall⟩ := allSome_map
              (fun kv : Bytes × J => (project e kv.2 (k :: p)).map (fun w => (kv.1, w)))
              (fun kv w => w.1 = kv.1 ∧ Shape r w.2) kvs
              (fun kv hkv => by
                obtain ⟨w, hw, hsw⟩ := ih kv.2 (k :: p) r (h1 kv hkv) hr
                exact ⟨(kv.1, w), by simp [hw], rfl, hsw⟩)
            refine ⟨.obj ws, by simp [project, hws], Shape.tmap _ _ ?_ ?_⟩
            · intro w hw
              obtain ⟨_, _, _, h'⟩ := hall w hw
              exact h'
            · intro hd w hw
              obtain ⟨kv, hkv, hk, _⟩ := hall w hw
              rw [hk]
              have : isDirMap e = true := by
                rw [isDirMap_eq] at hd ⊢
                exact filey_of_fieldType e _ _ hr hd
              exact h2 this kv hkv
        · cases h
  | struct n fs ih =>
    intro v p t' hs h
    cases p with
    | nil => simp [fieldType] at h; subst h; exact ⟨v, project_nil _ _, hs⟩
    | cons k p =>
      simp only [fieldType, fieldTypeF_eq] at h
      cases hg : fs.get k with
      | none => simp [hg] at h
      | some t =>
        simp only [hg] at h
        have hm := Fields.get_mem hg
        cases hs with
        | null => exact ⟨.null, by simp [project], Shape.null _⟩
        | struct _ _ kvs h1 h2 =>
          have hsome := h1 k t hm
          cases hgk : getKey k kvs with
          | none => simp [hgk] at hsome
          | some w =>
            obtain ⟨w', hw', hsw⟩ := ih k t hm w p t' (h2 k t w hm hgk) h
            exact ⟨w', by simp [project, hgk, projectF_eq, hg, hw'], hsw⟩


/-! ### references -/

theorem refType_call_eq (Γ : Env) (id o : Bytes) (p : List Bytes) (sig : CallSig)
    (h : Γ.calls.lookup id = some sig) :
    refType Γ (.call id (o :: p)) = fieldType sig.whole (o :: p) := by
  simp only [refType, h, CallSig.whole, CallSig.struct]
  cases sig.mode <;> simp only [fieldType, fieldTypeF_eq, liftMode] <;>
    cases sig.outs.get o <;> simp <;> rename_i t <;> cases fieldType t p <;> simp

/-- a reference that resolves at compile time evaluates, in a store whose
values conform to the declared types, to a value of the resolved type -/
theorem ref_shape (Γ : Env) (ρ : Store) (hρ : StoreOk Γ ρ) :
    ∀ (e : Exp) (s : Ty), refType Γ e = some s → ∃ v, eval Γ ρ e = some v ∧ Shape s v := by
  intro e s h
  cases e with
  | self id p =>
    simp only [refType] at h
    cases hl : Γ.self.lookup id with
    | none => simp [hl] at h
    | some t =>
      simp only [hl] at h
      obtain ⟨v, hv, hval⟩ := hρ.1 id t hl
      obtain ⟨w, hw, hs⟩ := fieldType_shape t v p s (shape_of_valid t v hval) h
      exact ⟨w, by simp [eval, hl, hv, hw], hs⟩
  | call id p =>
    cases hl : Γ.calls.lookup id with
    | none => simp [refType, hl] at h
    | some sig =>
      obtain ⟨v, hv, hval⟩ := hρ.2 id sig hl
      cases p with
      | nil =>
        simp only [refType, hl] at h
        have hs : s = sig.whole := by
          cases ho : sig.outs <;> simp [ho] at h <;> exact h.symm
        subst hs
        exact ⟨v, by simp [eval, hl, hv, project_nil], shape_of_valid _ v hval⟩
      | cons o p =>
        rw [refType_call_eq Γ id o p sig hl] at h
        obtain ⟨w, hw, hs⟩ := fieldType_shape sig.whole v (o :: p) s (shape_of_valid _ v hval) h
        exact ⟨w, by simp [eval, hl, hv, hw], hs⟩
  | _ => simp [refType] at h

/-! ### evaluation of composite literals -/

theorem evalL_spec (Γ : Env) (ρ : Store) (Q : J → Prop) : ∀ (xs : Exps),
    (∀ x ∈ xs.toList, ∃ v, eval Γ ρ x = some v ∧ Q v) →
      ∃ vs, evalL Γ ρ xs = some vs ∧ ∀ v ∈ vs, Q v
  | .nil, _ => ⟨[], by simp [evalL], by simp⟩
  | .cons e r, h => by
    obtain ⟨v, hv, hq⟩ := h e (by simp [Exps.toList])
    obtain ⟨vs, hvs, hall⟩ := evalL_spec Γ ρ Q r (fun x hx => h x (by simp [Exps.toList, hx]))
    refine ⟨v :: vs, by simp [evalL, hv, hvs], ?_⟩
    intro w hw
    rcases List.mem_cons.mp hw with rfl | hw
    · exact hq
    · exact hall w hw

theorem evalKV_some (Γ : Env) (ρ : Store) : ∀ (kvs : KVs),
    (∀ kv ∈ kvs.toList, ∃ v, eval Γ ρ kv.2 = some v) → ∃ vs, evalKV Γ ρ kvs = some vs
  | .nil, _ => ⟨[], by simp [evalKV]⟩
  | .cons k e r, h => by
    obtain ⟨v, hv⟩ := h (k, e) (by simp [KVs.toList])
    obtain ⟨vs, hvs⟩ := evalKV_some Γ ρ r (fun x hx => h x (by simp [KVs.toList, hx]))
    exact ⟨(k, v) :: vs, by simp [evalKV, hv, hvs]⟩

theorem evalKV_mem (Γ : Env) (ρ : Store) : ∀ (kvs : KVs) (vs : List (Bytes × J)),
    evalKV Γ ρ kvs = some vs →
      ∀ kv ∈ vs, ∃ e, (kv.1, e) ∈ kvs.toList ∧ eval Γ ρ e = some kv.2
  | .nil, vs, h => by simp [evalKV] at h; subst h; simp
  | .cons k e r, vs, h => by
    simp only [evalKV] at h
    cases hv : eval Γ ρ e with
    | none => simp [hv] at h
    | some v =>
      cases hr : evalKV Γ ρ r with
      | none => simp [hv, hr] at h
      | some ws =>
        simp [hv, hr] at h
        subst h
        intro kv hkv
        rcases List.mem_cons.mp hkv with rfl | hkv
        · exact ⟨e, by simp [KVs.toList], hv⟩
        · obtain ⟨e', he', hev⟩ := evalKV_mem Γ ρ r ws hr kv hkv
          exact ⟨e', by simp [KVs.toList, he'], hev⟩

/-- member lookup commutes with evaluation (both are last-wins) -/
theorem getKey_evalKV (Γ : Env) (ρ : Store) (k : Bytes) : ∀ (kvs : KVs) (vs : List (Bytes × J)),
    evalKV Γ ρ kvs = some vs →
      match kvs.get k with
      | some e => ∃ v, eval Γ ρ e = some v ∧ getKey k vs = some v
      | none => getKey k vs = none
  | .nil, vs, h => by simp [evalKV] at h; subst h; simp [KVs.get, getKey]
  | .cons k' e r, vs, h => by
    simp only [evalKV] at h
    cases hv : eval Γ ρ e with
    | none => simp [hv] at h
    | some v =>
      cases hr : evalKV Γ ρ r with
      | none => simp [hv, hr] at h
      | some ws =>
        simp [hv, hr] at h
        subst h
        have ih := getKey_evalKV Γ ρ k r ws hr
        simp only [KVs.get, getKey]
        cases hg : KVs.get k r with
        | some e' =>
          simp only [hg] at ih ⊢
          obtain ⟨w, hw, hgw⟩ := ih
          exact ⟨w, hw, by simp [hgw]⟩
        | none =>
          simp only [hg] at ih ⊢
          by_cases hk : k' = k
          · simp [hk, ih, hv]
          · simp [hk, ih]

mutual
  theorem eval_of_noRef (Γ : Env) (ρ : Store) : ∀ (e : Exp), e.hasRef = false → ∃ v, eval Γ ρ e = some v
    | .null, _ => ⟨_, rfl⟩
    | .int _, _ => ⟨_, rfl⟩
    | .float _ _, _ => ⟨_, rfl⟩
    | .str _, _ => ⟨_, rfl⟩
    | .bool _, _ => ⟨_, rfl⟩
    | .arr xs, h => by
      obtain ⟨vs, hvs⟩ := evalL_of_noRef Γ ρ xs (by simpa [Exp.hasRef] using h)
      exact ⟨.arr vs, by simp [eval, hvs]⟩
    | .map _ kvs, h => by
      obtain ⟨vs, hvs⟩ := evalKV_of_noRef Γ ρ kvs (by simpa [Exp.hasRef] using h)
      exact ⟨.obj vs, by simp [eval, hvs]⟩
    | .self _ _, h => by simp [Exp.hasRef] at h
    | .call _ _, h => by simp [Exp.hasRef] at h
  theorem evalL_of_noRef (Γ : Env) (ρ : Store) : ∀ (xs : Exps), xs.hasRef = false → ∃ vs, evalL Γ ρ xs = some vs
    | .nil, _ => ⟨[], by simp [evalL]⟩
    | .cons e r, h => by
      simp only [Exps.hasRef, Bool.or_eq_false_iff] at h
      obtain ⟨v, hv⟩ := eval_of_noRef Γ ρ e h.1
      obtain ⟨vs, hvs⟩ := evalL_of_noRef Γ ρ r h.2
      exact ⟨v :: vs, by simp [evalL, hv, hvs]⟩
  theorem evalKV_of_noRef (Γ : Env) (ρ : Store) : ∀ (kvs : KVs), kvs.hasRef = false → ∃ vs, evalKV Γ ρ kvs = some vs
    | .nil, _ => ⟨[], by simp [evalKV]⟩
    | .cons k e r, h => by
      simp only [KVs.hasRef, Bool.or_eq_false_iff] at h
      obtain ⟨v, hv⟩ := eval_of_noRef Γ ρ e h.1
      obtain ⟨vs, hvs⟩ := evalKV_of_noRef Γ ρ r h.2
      exact ⟨(k, v) :: vs, by simp [evalKV, hv, hvs]⟩
end


/-! ### association-list facts for literals -/

theorem KVs.get_mem : ∀ {kvs : KVs} {k : Bytes} {e : Exp}, kvs.get k = some e → (k, e) ∈ kvs.toList
  | .nil, k, e, h => by simp [KVs.get] at h
  | .cons k' e' r, k, e, h => by
    simp only [KVs.get] at h
    simp only [KVs.toList, List.mem_cons]
    cases hr : KVs.get k r with
    | some w =>
      simp [hr] at h; subst h
      exact Or.inr (KVs.get_mem hr)
    | none =>
      simp [hr] at h
      obtain ⟨rfl, rfl⟩ := h
      exact Or.inl rfl

theorem KVs.get_none_of_not_mem : ∀ {kvs : KVs} {k : Bytes},
    k ∉ kvs.toList.map Prod.fst → kvs.get k = none
  | .nil, k, _ => by simp [KVs.get]
  | .cons k' e' r, k, h => by
    simp only [KVs.toList, List.map_cons, List.mem_cons, not_or] at h
    simp only [KVs.get, KVs.get_none_of_not_mem h.2]
    simp [Ne.symm h.1]

theorem KVs.get_of_mem_nodup : ∀ {kvs : KVs} {k : Bytes} {e : Exp},
    (kvs.toList.map Prod.fst).Nodup → (k, e) ∈ kvs.toList → kvs.get k = some e
  | .nil, k, e, _, h => by cases h
  | .cons k' e' r, k, e, hn, h => by
    simp only [KVs.toList, List.map_cons, List.nodup_cons] at hn
    simp only [KVs.toList, List.mem_cons, Prod.mk.injEq] at h
    simp only [KVs.get]
    rcases h with ⟨rfl, rfl⟩ | h
    · rw [KVs.get_none_of_not_mem hn.1]; simp
    · rw [KVs.get_of_mem_nodup hn.2 h]

theorem KVs.wf_mem : ∀ {kvs : KVs}, kvs.wf = true → ∀ kv ∈ kvs.toList, kv.2.wf = true
  | .nil, _, kv, h => by cases h
  | .cons k e r, hw, kv, h => by
    simp only [KVs.wf, Bool.and_eq_true] at hw
    simp only [KVs.toList, List.mem_cons] at h
    rcases h with rfl | h
    · exact hw.1
    · exact KVs.wf_mem hw.2 kv h

theorem Exps.wf_mem : ∀ {xs : Exps}, xs.wf = true → ∀ x ∈ xs.toList, x.wf = true
  | .nil, _, x, h => by cases h
  | .cons e r, hw, x, h => by
    simp only [Exps.wf, Bool.and_eq_true] at hw
    simp only [Exps.toList, List.mem_cons] at h
    rcases h with rfl | h
    · exact hw.1
    · exact Exps.wf_mem hw.2 x h

theorem validFields_iff (Γ : Env) : ∀ (fs : Fields) (kvs : KVs),
    validFields Γ fs kvs = true ↔
      ∀ k t, (k, t) ∈ fs.toList → ∃ e, kvs.get k = some e ∧ validExp Γ t e = true
  | .nil, kvs => by simp [validFields, Fields.toList]
  | .cons k t r, kvs => by
    have ih := validFields_iff Γ r kvs
    simp only [validFields, Bool.and_eq_true, ih, Fields.toList, List.mem_cons, Prod.mk.injEq]
    constructor
    · rintro ⟨h1, h2⟩ k' t' (⟨rfl, rfl⟩ | h)
      · cases hg : KVs.get k' kvs with
        | none => simp [hg] at h1
        | some e => simp [hg] at h1; exact ⟨e, rfl, h1⟩
      · exact h2 _ _ h
    · intro h
      refine ⟨?_, fun k' t' h' => h _ _ (Or.inr h')⟩
      obtain ⟨e, he, hv⟩ := h k t (Or.inl ⟨rfl, rfl⟩)
      simp [he, hv]

theorem holeFreeFields_iff (Γ : Env) : ∀ (fs : Fields) (kvs : KVs),
    holeFreeFields Γ fs kvs = true ↔
      ∀ k t, (k, t) ∈ fs.toList → ∀ e, kvs.get k = some e → holeFree Γ t e = true
  | .nil, kvs => by simp [holeFreeFields, Fields.toList]
  | .cons k t r, kvs => by
    have ih := holeFreeFields_iff Γ r kvs
    simp only [holeFreeFields, Bool.and_eq_true, ih, Fields.toList, List.mem_cons, Prod.mk.injEq]
    constructor
    · rintro ⟨h1, h2⟩ k' t' (⟨rfl, rfl⟩ | h) e he
      · simpa [he] using h1
      · exact h2 _ _ h e he
    · intro h
      refine ⟨?_, fun k' t' h' => h _ _ (Or.inr h')⟩
      cases hg : KVs.get k kvs with
      | none => rfl
      | some e => exact h k t (Or.inl ⟨rfl, rfl⟩) e hg

/-- a duplicate-free list contained in another is not longer -/
theorem nodup_subset_length : ∀ (l1 l2 : List Bytes), l1.Nodup → (∀ x ∈ l1, x ∈ l2) →
    l1.length ≤ l2.length
  | [], _, _, _ => by simp
  | a :: l1, l2, hn, hs => by
    simp only [List.nodup_cons] at hn
    have ha : a ∈ l2 := hs a List.mem_cons_self
    have := nodup_subset_length l1 (l2.erase a) hn.2 (fun x hx => by
      have hne : x ≠ a := by rintro rfl; exact hn.1 hx
      exact (List.mem_erase_of_ne hne).mpr (hs x (List.mem_cons_of_mem _ hx)))
    rw [List.length_erase_of_mem ha] at this
    have hpos : 0 < l2.length := List.length_pos_of_mem ha
    simp only [List.length_cons]
    omega

/-- an accepted struct literal has no members beyond the declared ones -/
theorem struct_literal_no_extra (Γ : Env) (fs : Fields) (kvs : KVs)
    (hfs : (fs.toList.map Prod.fst).Nodup)
    (hv : validFields Γ fs kvs = true)
    (hx : (decide (kvs.toList.length > fs.toList.length) &&
            kvs.toList.any (fun kv => (fs.get kv.1).isNone)) = false) :
    ∀ kv ∈ kvs.toList, ∃ t, (kv.1, t) ∈ fs.toList := by
  intro kv hkv
  cases hg : fs.get kv.1 with
  | some t => exact ⟨t, Fields.get_mem hg⟩
  | none =>
    exfalso
    have hany : kvs.toList.any (fun kv => (fs.get kv.1).isNone) = true :=
      List.any_eq_true.mpr ⟨kv, hkv, by simp [hg]⟩
    have hnot : kv.1 ∉ fs.toList.map Prod.fst := by
      intro hm
      obtain ⟨⟨k, t⟩, hkt, hk⟩ := List.mem_map.mp hm
      simp only at hk
      subst hk
      rw [Fields.get_of_mem hfs hkt] at hg
      cases hg
    have hlen := nodup_subset_length (kv.1 :: fs.toList.map Prod.fst) (kvs.toList.map Prod.fst)
      (List.nodup_cons.mpr ⟨hnot, hfs⟩) (by
        intro x hx'
        rcases List.mem_cons.mp hx' with rfl | hx'
        · exact List.mem_map.mpr ⟨kv, hkv, rfl⟩
        · obtain ⟨⟨k, t⟩, hkt, rfl⟩ := List.mem_map.mp hx'
          obtain ⟨e, he, _⟩ := (validFields_iff Γ fs kvs).mp hv k t hkt
          exact List.mem_map.mpr ⟨(k, e), KVs.get_mem he, rfl⟩)
    simp only [List.length_cons, List.length_map] at hlen
    have : decide (kvs.toList.length > fs.toList.length) = true := by
      simp only [decide_eq_true_eq]; omega
    simp [this, hany] at hx


/-! ### soundness of `validExp` -/

theorem refOk_sound (Γ : Env) (ρ : Store) (hρ : StoreOk Γ ρ) (t : Ty) (hwf : t.wf = true) (e : Exp)
    (hv : refOk Γ t e = true) (hh : refHoleFree Γ t e = true) :
    ∃ v, eval Γ ρ e = some v ∧ valid t (filter t v).1 = true := by
  simp only [refOk] at hv
  simp only [refHoleFree] at hh
  cases hr : refType Γ e with
  | none => simp [hr] at hv
  | some s =>
    simp only [hr, Bool.and_eq_true] at hv hh
    obtain ⟨v, hev, hs⟩ := ref_shape Γ ρ hρ e s hr
    exact ⟨v, hev, valid_of_shape _ _ (shape_filter_of_assignable t hwf s v hs hv.2 hh)⟩

theorem validBase_sound (Γ : Env) (ρ : Store) (hρ : StoreOk Γ ρ) (b : Base) (e : Exp)
    (hwe : e.wf = true) (hv : validBase Γ b e = true) (hh : refHoleFree Γ (.base b) e = true) :
    ∃ v, eval Γ ρ e = some v ∧ valid (.base b) (filter (.base b) v).1 = true := by
  cases e with
  | null => exact ⟨.null, rfl, by rw [filter_null]; exact valid_null _⟩
  | int v =>
    refine ⟨_, rfl, ?_⟩
    simp only [Exp.wf] at hwe
    cases b <;> simp [validBase] at hv <;> simp [filter, filterBase, valid, check, checkBase, hwe]
  | float m x =>
    refine ⟨_, rfl, ?_⟩
    cases b <;> simp [validBase] at hv
    · -- int
      simp only [floatIsInt64] at hv
      cases hi : (Num.flt m x).intValue? with
      | none => simp [hi] at hv
      | some i =>
        simp only [hi] at hv
        simp [litFloat, hi, hv, filter, filterBase, valid, check, checkBase]
    · -- float
      simp [filter, filterBase, valid, check, checkBase]
  | str s =>
    refine ⟨_, rfl, ?_⟩
    cases b <;> simp [validBase] at hv <;> simp [filter, filterBase, valid, check, checkBase]
  | bool x =>
    refine ⟨_, rfl, ?_⟩
    cases b <;> simp [validBase] at hv <;> simp [filter, filterBase, valid, check, checkBase]
  | arr xs => simp [validBase] at hv
  | map isStruct kvs =>
    simp only [validBase, Bool.and_eq_true, beq_iff_eq, Bool.not_eq_true'] at hv
    obtain ⟨⟨rfl, _⟩, hnr⟩ := hv
    obtain ⟨vs, hvs⟩ := evalKV_of_noRef Γ ρ kvs hnr
    exact ⟨.obj vs, by simp [eval, hvs], by simp [filter, filterBase, valid, check, checkBase]⟩
  | self id p => exact refOk_sound Γ ρ hρ _ (by simp [Ty.wf]) _ (by simpa [validBase] using hv) hh
  | call id p => exact refOk_sound Γ ρ hρ _ (by simp [Ty.wf]) _ (by simpa [validBase] using hv) hh

theorem validExp_sound (Γ : Env) (ρ : Store) (hρ : StoreOk Γ ρ) (t : Ty) :
    t.wf = true → ∀ (e : Exp), e.wf = true → validExp Γ t e = true → holeFree Γ t e = true →
      ∃ v, eval Γ ρ e = some v ∧ valid t (filter t v).1 = true := by
  induction t using Ty.induct' with
  | base b =>
    intro _ e hwe hv hh
    exact validBase_sound Γ ρ hρ b e hwe (by simpa [validExp] using hv) (by simpa [holeFree] using hh)
  | user n =>
    intro hwf e hwe hv hh
    cases e with
    | null => exact ⟨.null, rfl, by rw [filter_null]; exact valid_null _⟩
    | str s => exact ⟨_, rfl, by simp [filter, valid, check]⟩
    | self id p => exact refOk_sound Γ ρ hρ _ hwf _ (by simpa [validExp] using hv) (by simpa [holeFree] using hh)
    | call id p => exact refOk_sound Γ ρ hρ _ hwf _ (by simpa [validExp] using hv) (by simpa [holeFree] using hh)
    | _ => simp [validExp] at hv
  | arr t ih =>
    intro hwf e hwe hv hh
    have ih := ih (by simpa [Ty.wf] using hwf)
    cases e with
    | null => exact ⟨.null, rfl, by rw [filter_null]; exact valid_null _⟩
    | arr xs =>
      simp only [validExp, List.all_eq_true] at hv
      simp only [holeFree, List.all_eq_true] at hh
      simp only [Exp.wf] at hwe
      obtain ⟨vs, hvs, hall⟩ := evalL_spec Γ ρ (fun v => valid t (filter t v).1 = true) xs
        (fun x hx => ih x (Exps.wf_mem hwe x hx) (hv x hx) (hh x hx))
      refine ⟨.arr vs, by simp [eval, hvs], ?_⟩
      rw [filter_arr_fst]
      apply valid_of_shape
      refine Shape.arr _ _ ?_
      intro y hy
      obtain ⟨x, hxm, rfl⟩ := List.mem_map.mp hy
      exact shape_of_valid _ _ (hall x hxm)
    | self id p => exact refOk_sound Γ ρ hρ _ hwf _ (by simpa [validExp] using hv) (by simpa [holeFree] using hh)
    | call id p => exact refOk_sound Γ ρ hρ _ hwf _ (by simpa [validExp] using hv) (by simpa [holeFree] using hh)
    | _ => simp [validExp] at hv
  | tmap t ih =>
    intro hwf e hwe hv hh
    have ih := ih (by simpa [Ty.wf] using hwf)
    cases e with
    | null => exact ⟨.null, rfl, by rw [filter_null]; exact valid_null _⟩
    | map isStruct kvs =>
      cases isStruct with
      | true => simp [validExp] at hv
      | false =>
        simp only [validExp, List.all_eq_true, Bool.and_eq_true] at hv
        simp only [holeFree, List.all_eq_true] at hh
        simp only [Exp.wf, Bool.and_eq_true] at hwe
        have hev : ∀ kv ∈ kvs.toList, ∃ v, eval Γ ρ kv.2 = some v ∧ valid t (filter t v).1 = true :=
          fun kv hkv => ih kv.2 (KVs.wf_mem hwe.1 kv hkv) (hv kv hkv).1 (hh kv hkv)
        obtain ⟨vs, hvs⟩ := evalKV_some Γ ρ kvs (fun kv hkv => by
          obtain ⟨v, h1, _⟩ := hev kv hkv; exact ⟨v, h1⟩)
        refine ⟨.obj vs, by simp [eval, hvs], ?_⟩
        rw [filter_tmap_fst]
        apply valid_of_shape
        refine Shape.tmap _ _ ?_ ?_
        · intro y hy
          obtain ⟨kv, hkv, rfl⟩ := List.mem_map.mp hy
          obtain ⟨e, hme, hee⟩ := evalKV_mem Γ ρ kvs vs hvs kv hkv
          obtain ⟨v, h1, h2⟩ := hev (kv.1, e) hme
          simp only at h1
          rw [hee] at h1
          cases h1
          exact shape_of_valid _ _ h2
        · intro hd y hy
          obtain ⟨kv, hkv, rfl⟩ := List.mem_map.mp hy
          obtain ⟨e, hme, _⟩ := evalKV_mem Γ ρ kvs vs hvs kv hkv
          have := (hv (kv.1, e) hme).2
          simpa [hd] using this
    | self id p => exact refOk_sound Γ ρ hρ _ hwf _ (by simpa [validExp] using hv) (by simpa [holeFree] using hh)
    | call id p => exact refOk_sound Γ ρ hρ _ hwf _ (by simpa [validExp] using hv) (by simpa [holeFree] using hh)
    | _ => simp [validExp] at hv
  | struct n fs ih =>
    intro hwf e hwe hv hh
    have hwf' := Fields.wf_iff.mp (by simpa [Ty.wf] using hwf)
    cases e with
    | null => exact ⟨.null, rfl, by rw [filter_null]; exact valid_null _⟩
    | map isStruct kvs =>
      simp only [validExp, Bool.and_eq_true, Bool.not_eq_true'] at hv
      simp only [holeFree] at hh
      simp only [Exp.wf, Bool.and_eq_true, decide_eq_true_eq] at hwe
      have hvf := (validFields_iff Γ fs kvs).mp hv.1
      have hhf := (holeFreeFields_iff Γ fs kvs).mp hh
      have hmember : ∀ k t, (k, t) ∈ fs.toList →
          ∃ e v, kvs.get k = some e ∧ eval Γ ρ e = some v ∧ valid t (filter t v).1 = true := by
        intro k t hkt
        obtain ⟨e, he, hve⟩ := hvf k t hkt
        obtain ⟨v, h1, h2⟩ := ih k t hkt (hwf'.2 k t hkt) e (KVs.wf_mem hwe.1 (k, e) (KVs.get_mem he))
          hve (hhf k t hkt e he)
        exact ⟨e, v, he, h1, h2⟩
      obtain ⟨vs, hvs⟩ := evalKV_some Γ ρ kvs (fun kv hkv => by
        obtain ⟨t, hkt⟩ := struct_literal_no_extra Γ fs kvs hwf'.1 hv.1 hv.2 kv hkv
        obtain ⟨e, v, he, h1, _⟩ := hmember kv.1 t hkt
        have : KVs.get kv.1 kvs = some kv.2 := KVs.get_of_mem_nodup hwe.2 hkv
        rw [this] at he
        cases he
        exact ⟨v, h1⟩)
      refine ⟨.obj vs, by simp [eval, hvs], ?_⟩
      rw [filter_struct_fst]
      apply valid_of_shape
      have hkeys : ((fs.toList.map (fun kt => (kt.1, fieldOut kt.2 (getKey kt.1 vs)))).map Prod.fst).Nodup := by
        rw [keys_fields_out]; exact hwf'.1
      have hmem : ∀ k t, (k, t) ∈ fs.toList → (k, fieldOut t (getKey k vs)) ∈
          fs.toList.map (fun kt => (kt.1, fieldOut kt.2 (getKey kt.1 vs))) :=
        fun k t hkt => List.mem_map.mpr ⟨(k, t), hkt, rfl⟩
      refine Shape.struct _ _ _ ?_ ?_
      · intro k t hkt
        exact getKey_isSome_of_mem (hmem k t hkt)
      · intro k t w hkt hw
        rw [getKey_of_mem_nodup hkeys (hmem k t hkt)] at hw
        cases hw
        obtain ⟨e, v, he, h1, h2⟩ := hmember k t hkt
        have hg := getKey_evalKV Γ ρ k kvs vs hvs
        simp only [he] at hg
        obtain ⟨v', h1', hgv⟩ := hg
        rw [h1] at h1'
        cases h1'
        simp only [hgv, fieldOut]
        exact shape_of_valid _ _ h2
    | self id p => exact refOk_sound Γ ρ hρ _ hwf _ (by simpa [validExp] using hv) (by simpa [holeFree] using hh)
    | call id p => exact refOk_sound Γ ρ hρ _ hwf _ (by simpa [validExp] using hv) (by simpa [holeFree] using hh)
    | _ => simp [validExp] at hv


/-! ### reference-free expressions: no filtering needed -/

theorem refType_of_noRef (Γ : Env) (e : Exp) (h : e.hasRef = false) : refType Γ e = none := by
  cases e <;> simp [Exp.hasRef] at h <;> simp [refType]

theorem not_refOk_of_noRef (Γ : Env) (t : Ty) (e : Exp) (h : e.hasRef = false) : refOk Γ t e = false := by
  simp [refOk, refType_of_noRef Γ e h]

theorem Exps.hasRef_mem : ∀ {xs : Exps}, xs.hasRef = false → ∀ x ∈ xs.toList, x.hasRef = false
  | .nil, _, x, h => by cases h
  | .cons e r, hw, x, h => by
    simp only [Exps.hasRef, Bool.or_eq_false_iff] at hw
    simp only [Exps.toList, List.mem_cons] at h
    rcases h with rfl | h
    · exact hw.1
    · exact Exps.hasRef_mem hw.2 x h

theorem KVs.hasRef_mem : ∀ {kvs : KVs}, kvs.hasRef = false → ∀ kv ∈ kvs.toList, kv.2.hasRef = false
  | .nil, _, kv, h => by cases h
  | .cons k e r, hw, kv, h => by
    simp only [KVs.hasRef, Bool.or_eq_false_iff] at hw
    simp only [KVs.toList, List.mem_cons] at h
    rcases h with rfl | h
    · exact hw.1
    · exact KVs.hasRef_mem hw.2 kv h

/-- an accepted reference-free expression denotes a value that is valid as it
stands (no filtering) -/
theorem validExp_literal (Γ : Env) (ρ : Store) (t : Ty) :
    t.wf = true → ∀ (e : Exp), e.wf = true → e.hasRef = false → validExp Γ t e = true →
      ∃ v, eval Γ ρ e = some v ∧ valid t v = true := by
  induction t using Ty.induct' with
  | base b =>
    intro _ e hwe hnr hv
    simp only [validExp] at hv
    cases e with
    | null => exact ⟨.null, rfl, valid_null _⟩
    | int v =>
      refine ⟨_, rfl, ?_⟩
      simp only [Exp.wf] at hwe
      cases b <;> simp [validBase] at hv <;> simp [valid, check, checkBase, hwe]
    | float m x =>
      refine ⟨_, rfl, ?_⟩
      cases b <;> simp [validBase] at hv
      · simp only [floatIsInt64] at hv
        cases hi : (Num.flt m x).intValue? with
        | none => simp [hi] at hv
        | some i =>
          simp only [hi] at hv
          simp [litFloat, hi, hv, valid, check, checkBase]
      · simp [valid, check, checkBase]
    | str s =>
      refine ⟨_, rfl, ?_⟩
      cases b <;> simp [validBase] at hv <;> simp [valid, check, checkBase]
    | bool x =>
      refine ⟨_, rfl, ?_⟩
      cases b <;> simp [validBase] at hv <;> simp [valid, check, checkBase]
    | arr xs => simp [validBase] at hv
    | map isStruct kvs =>
      simp only [validBase, Bool.and_eq_true, beq_iff_eq, Bool.not_eq_true'] at hv
      obtain ⟨⟨rfl, _⟩, hnr'⟩ := hv
      obtain ⟨vs, hvs⟩ := evalKV_of_noRef Γ ρ kvs hnr'
      exact ⟨.obj vs, by simp [eval, hvs], by simp [valid, check, checkBase]⟩
    | self id p => simp [Exp.hasRef] at hnr
    | call id p => simp [Exp.hasRef] at hnr
  | user n =>
    intro hwf e hwe hnr hv
    cases e with
    | null => exact ⟨.null, rfl, valid_null _⟩
    | str s => exact ⟨_, rfl, by simp [valid, check]⟩
    | self id p => simp [Exp.hasRef] at hnr
    | call id p => simp [Exp.hasRef] at hnr
    | _ => simp [validExp] at hv
  | arr t ih =>
    intro hwf e hwe hnr hv
    have ih := ih (by simpa [Ty.wf] using hwf)
    cases e with
    | null => exact ⟨.null, rfl, valid_null _⟩
    | arr xs =>
      simp only [validExp, List.all_eq_true] at hv
      simp only [Exp.wf] at hwe
      simp only [Exp.hasRef] at hnr
      obtain ⟨vs, hvs, hall⟩ := evalL_spec Γ ρ (fun v => valid t v = true) xs
        (fun x hx => ih x (Exps.wf_mem hwe x hx) (Exps.hasRef_mem hnr x hx) (hv x hx))
      refine ⟨.arr vs, by simp [eval, hvs], ?_⟩
      apply valid_of_shape
      exact Shape.arr _ _ (fun y hy => shape_of_valid _ _ (hall y hy))
    | self id p => simp [Exp.hasRef] at hnr
    | call id p => simp [Exp.hasRef] at hnr
    | _ => simp [validExp] at hv
  | tmap t ih =>
    intro hwf e hwe hnr hv
    have ih := ih (by simpa [Ty.wf] using hwf)
    cases e with
    | null => exact ⟨.null, rfl, valid_null _⟩
    | map isStruct kvs =>
      cases isStruct with
      | true => simp [validExp] at hv
      | false =>
        simp only [validExp, List.all_eq_true, Bool.and_eq_true] at hv
        simp only [Exp.wf, Bool.and_eq_true] at hwe
        simp only [Exp.hasRef] at hnr
        have hev : ∀ kv ∈ kvs.toList, ∃ v, eval Γ ρ kv.2 = some v ∧ valid t v = true :=
          fun kv hkv => ih kv.2 (KVs.wf_mem hwe.1 kv hkv) (KVs.hasRef_mem hnr kv hkv) (hv kv hkv).1
        obtain ⟨vs, hvs⟩ := evalKV_some Γ ρ kvs (fun kv hkv => by
          obtain ⟨v, h1, _⟩ := hev kv hkv; exact ⟨v, h1⟩)
        refine ⟨.obj vs, by simp [eval, hvs], ?_⟩
        apply valid_of_shape
        refine Shape.tmap _ _ ?_ ?_
        · intro kv hkv
          obtain ⟨e, hme, hee⟩ := evalKV_mem Γ ρ kvs vs hvs kv hkv
          obtain ⟨v, h1, h2⟩ := hev (kv.1, e) hme
          simp only at h1
          rw [hee] at h1
          cases h1
          exact shape_of_valid _ _ h2
        · intro hd kv hkv
          obtain ⟨e, hme, _⟩ := evalKV_mem Γ ρ kvs vs hvs kv hkv
          have := (hv (kv.1, e) hme).2
          simpa [hd] using this
    | self id p => simp [Exp.hasRef] at hnr
    | call id p => simp [Exp.hasRef] at hnr
    | _ => simp [validExp] at hv
  | struct n fs ih =>
    intro hwf e hwe hnr hv
    have hwf' := Fields.wf_iff.mp (by simpa [Ty.wf] using hwf)
    cases e with
    | null => exact ⟨.null, rfl, valid_null _⟩
    | map isStruct kvs =>
      simp only [validExp, Bool.and_eq_true, Bool.not_eq_true'] at hv
      simp only [Exp.wf, Bool.and_eq_true, decide_eq_true_eq] at hwe
      simp only [Exp.hasRef] at hnr
      have hvf := (validFields_iff Γ fs kvs).mp hv.1
      have hmember : ∀ k t, (k, t) ∈ fs.toList →
          ∃ e v, kvs.get k = some e ∧ eval Γ ρ e = some v ∧ valid t v = true := by
        intro k t hkt
        obtain ⟨e, he, hve⟩ := hvf k t hkt
        have hme := KVs.get_mem he
        obtain ⟨v, h1, h2⟩ := ih k t hkt (hwf'.2 k t hkt) e (KVs.wf_mem hwe.1 (k, e) hme)
          (KVs.hasRef_mem hnr (k, e) hme) hve
        exact ⟨e, v, he, h1, h2⟩
      obtain ⟨vs, hvs⟩ := evalKV_of_noRef Γ ρ kvs hnr
      refine ⟨.obj vs, by simp [eval, hvs], ?_⟩
      simp only [valid, check, beq_iff_eq, checkFields_ok_iff]
      intro k t hkt
      obtain ⟨e, v, he, h1, h2⟩ := hmember k t hkt
      have hg := getKey_evalKV Γ ρ k kvs vs hvs
      simp only [he] at hg
      obtain ⟨v', h1', hgv⟩ := hg
      rw [h1] at h1'
      cases h1'
      exact ⟨v, hgv, by simpa [valid] using h2⟩
    | self id p => simp [Exp.hasRef] at hnr
    | call id p => simp [Exp.hasRef] at hnr
    | _ => simp [validExp] at hv

/-! ### bindings and calls -/

theorem lookup_mem {α : Type} : ∀ {l : List (Bytes × α)} {k : Bytes} {v : α},
    l.lookup k = some v → (k, v) ∈ l
  | [], _, _, h => by simp [List.lookup] at h
  | (k', v') :: r, k, v, h => by
    simp only [List.lookup] at h
    by_cases hk : k = k'
    · subst hk
      simp at h
      subst h
      exact List.mem_cons_self
    · have : (k == k') = false := by simpa using hk
      simp only [this] at h
      exact List.mem_cons_of_mem _ (lookup_mem h)

/-- an accepted call binds every declared parameter, with a binding that is
valid for the parameter's type -/
theorem checkCall_bound (Γ : Env) (params : List (Bytes × Ty)) (binds : List (Bytes × Bind))
    (h : validCall Γ params binds = true) (x : Bytes) (t : Ty) (hx : params.lookup x = some t) :
    ∃ b, binds.lookup x = some b ∧ validBind Γ t b = true := by
  simp only [validCall, checkCall] at h
  split at h
  · rename_i hc
    simp only [Bool.and_eq_true, List.all_eq_true] at hc
    obtain ⟨⟨h1, _⟩, h3⟩ := hc
    have hb := h3 (x, t) (lookup_mem hx)
    simp only at hb
    cases hl : binds.lookup x with
    | none => simp [hl] at hb
    | some b =>
      have := h1 (x, b) (lookup_mem hl)
      simp only [hx] at this
      exact ⟨b, rfl, this⟩
  · simp at h

/-- every binding of an accepted call names a declared parameter -/
theorem checkCall_known (Γ : Env) (params : List (Bytes × Ty)) (binds : List (Bytes × Bind))
    (h : validCall Γ params binds = true) (x : Bytes) (b : Bind) (hx : (x, b) ∈ binds) :
    ∃ t, params.lookup x = some t ∧ validBind Γ t b = true := by
  simp only [validCall, checkCall] at h
  split at h
  · rename_i hc
    simp only [Bool.and_eq_true, List.all_eq_true] at hc
    have := hc.1.1 (x, b) hx
    simp only at this
    cases hl : params.lookup x with
    | none => simp [hl] at this
    | some t => exact ⟨t, rfl, by simpa [hl] using this⟩
  · simp at h

end Martian.Typing
