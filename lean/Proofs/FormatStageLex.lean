import Proofs.FormatStageParse
import Proofs.FormatDeclLex
import Proofs.FormatResLex

/-!
C09: the lexing layer of the round trip of whole `stage` declarations: the
printed declaration, followed by any text, lexes as `toksStage s` followed by
the tokens of that text (`lexOK_fmtStage`: whatever the column widths
`Stage.format` arrives at, quirk or not), and the round trip
`parseStage (fmtStage s) = some s`.

Core Lean only.
-/

namespace Martian.FormatStage
open Martian.Lexer (Bytes isWord)
open Martian.FormatExp
open Martian.FormatCall (tLP tRP LexOK.wordSp all_isWord_split wordLexeme_split)
open Martian.FormatDecl (Param fmtParams toksParams lexOK_fmtParams)
open Martian.FormatRes (lexOK_fmtSrc lexOK_fmtTail lexOK_open aw_stage wl_stage sStage)

/-- the split block: `) split (` newline and the chunk parameters, any widths -/
theorem lexOK_fmtSplit (s : Stage) (h1 : s.chunkIns.all Martian.FormatDecl.wfParam = true)
    (h2 : s.chunkOuts.all Martian.FormatDecl.wfParam = true) :
    LexOK (fmtSplit s) (toksSplit s) AnyRest := by
  unfold fmtSplit toksSplit
  cases s.split with
  | false => exact LexOK.nil _
  | true =>
    have h := ((lexOK_open all_isWord_split wordLexeme_split).append
      (lexOK_fmtParams (modeW s) (typeW s) (chunkW s).1 (chunkW s).2 s.chunkIns h1)
      (fun _ _ => trivial)).append
      (lexOK_fmtParams (modeW s) (typeW s) (chunkW s).1 (chunkW s).2 s.chunkOuts h2)
      (fun _ _ => trivial)
    exact h.congr (by simp [sSplitOpen]) (by simp)

/-- **Lexing layer, whole stage declarations.**  `fmtStage s` followed by any
text lexes as `toksStage s` followed by the tokens of that text. -/
theorem lexOK_fmtStage (s : Stage) (hw : wfStage s = true) :
    LexOK (fmtStage s) (toksStage s) AnyRest := by
  obtain ⟨hid, h2, _, h4, _, h6, _, h8, _, _, h11, h12, h13⟩ := wfStage_parts hw
  have a1 : LexOK (sStage ++ [0x20]) [.reserved sStage] AnyRest := LexOK.wordSp aw_stage wl_stage
  have a2 := LexOK.ident hid
  have a3 : LexOK [0x28] [tLP] AnyRest := LexOK.punct (by decide) _
  have a4 : LexOK [0x0A] [] AnyRest := LexOK.spaces (by decide) _
  have h := (((((((a1.append a2 (fun _ _ => trivial)).append a3
    (fun _ _ => WordEnd.cons _ _ (by decide))).append a4 (fun _ _ => trivial)).append
    (lexOK_fmtParams (modeW s) (typeW s) (idW s) (helpW s) s.ins h2) (fun _ _ => trivial)).append
    (lexOK_fmtParams (modeW s) (typeW s) (idW s) (helpW s) s.outs h4) (fun _ _ => trivial)).append
    (lexOK_fmtSrc (modeW s) (typeW s) s.lang s.path s.args h11) (fun _ _ => trivial)).append
    (lexOK_fmtSplit s h6 h8) (fun _ _ => trivial)).append
    (lexOK_fmtTail s.res s.retain h12 h13) (fun _ _ => trivial)
  exact h.congr (by simp [fmtStage]) (by simp [toksStage])

/-- the printed declaration before any text -/
theorem lexAll_fmtStage_append (s : Stage) (hw : wfStage s = true) (rest : Bytes) :
    lexAll (fmtStage s ++ rest) = (lexAll rest).map (toksStage s ++ ·) :=
  lexOK_fmtStage s hw rest trivial

theorem lexAll_fmtStage (s : Stage) (hw : wfStage s = true) : lexAll (fmtStage s) = some (toksStage s) := by
  have h := lexAll_fmtStage_append s hw []
  rw [List.append_nil, lexAll_nil] at h
  rw [h]; simp

/-- **Round trip, whole stage declarations.** -/
theorem parseStage_fmtStage (s : Stage) (hw : wfStage s = true) : parseStage (fmtStage s) = some s := by
  simp only [parseStage, lexAll_fmtStage s hw, Option.bind_some]
  exact pStageAll_toks s hw

end Martian.FormatStage
