import Proofs.FormatStageRangeGB32Def

/-! C09: slices 32 … 47 of the finite obligation `gb32OK` (kernel evaluation, 4096 values each). -/

namespace Martian.FormatRes

set_option maxRecDepth 100000 in
theorem gb32Slice_32 : gb32Slice 32 = true := by decide +kernel
set_option maxRecDepth 100000 in
theorem gb32Slice_33 : gb32Slice 33 = true := by decide +kernel
set_option maxRecDepth 100000 in
theorem gb32Slice_34 : gb32Slice 34 = true := by decide +kernel
set_option maxRecDepth 100000 in
theorem gb32Slice_35 : gb32Slice 35 = true := by decide +kernel
set_option maxRecDepth 100000 in
theorem gb32Slice_36 : gb32Slice 36 = true := by decide +kernel
set_option maxRecDepth 100000 in
theorem gb32Slice_37 : gb32Slice 37 = true := by decide +kernel
set_option maxRecDepth 100000 in
theorem gb32Slice_38 : gb32Slice 38 = true := by decide +kernel
set_option maxRecDepth 100000 in
theorem gb32Slice_39 : gb32Slice 39 = true := by decide +kernel
set_option maxRecDepth 100000 in
theorem gb32Slice_40 : gb32Slice 40 = true := by decide +kernel
set_option maxRecDepth 100000 in
theorem gb32Slice_41 : gb32Slice 41 = true := by decide +kernel
set_option maxRecDepth 100000 in
theorem gb32Slice_42 : gb32Slice 42 = true := by decide +kernel
set_option maxRecDepth 100000 in
theorem gb32Slice_43 : gb32Slice 43 = true := by decide +kernel
set_option maxRecDepth 100000 in
theorem gb32Slice_44 : gb32Slice 44 = true := by decide +kernel
set_option maxRecDepth 100000 in
theorem gb32Slice_45 : gb32Slice 45 = true := by decide +kernel
set_option maxRecDepth 100000 in
theorem gb32Slice_46 : gb32Slice 46 = true := by decide +kernel
set_option maxRecDepth 100000 in
theorem gb32Slice_47 : gb32Slice 47 = true := by decide +kernel

end Martian.FormatRes
