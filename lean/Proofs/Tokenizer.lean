/-
C08 lemmas about the whole-tokenizer model (`Martian/Tokenizer.lean`), for ALL
inputs and for ANY tables (switch table, token ids, identifier regex).
-/
import Martian.Tokenizer
import Proofs.Regex

namespace Martian.Tokenizer
open Martian.Regex (Bytes Re decodeRune isWord pmatch)
open Martian.Lexer (spanDigits optMinus optSign matchInt matchFloat matchString scanBody numTok fracExp
  fracOnly expPart)

/-! ## the recognisers of `Martian.Lexer` return prefixes of their input -/

theorem spanDigits_append : ∀ b : Bytes, (spanDigits b).1 ++ (spanDigits b).2 = b
  | [] => rfl
  | c :: r => by
    have ih := spanDigits_append r
    unfold spanDigits
    split
    · rcases h : spanDigits r with ⟨d, t⟩
      rw [h] at ih
      simpa using ih
    · rfl

theorem optMinus_append (b : Bytes) : (optMinus b).1 ++ (optMinus b).2 = b := by
  cases b with
  | nil => rfl
  | cons c r => simp only [optMinus]; split <;> rfl

theorem optSign_append (b : Bytes) : (optSign b).1 ++ (optSign b).2 = b := by
  cases b with
  | nil => rfl
  | cons c r => simp only [optSign]; split <;> rfl

theorem expPart_prefix {t e : Bytes} (h : expPart t = some e) : e <+: t := by
  cases t with
  | nil => simp [expPart] at h
  | cons c t' =>
    simp only [expPart] at h
    split at h
    · split at h
      · injection h with h
        subst h
        refine ⟨(spanDigits (optSign t').2).2, ?_⟩
        simp only [List.cons_append, List.append_assoc, spanDigits_append, optSign_append]
      · cases h
    · cases h

theorem spanDigits_eq {b d t : Bytes} (h : spanDigits b = (d, t)) : b = d ++ t := by
  have := spanDigits_append b
  rw [h] at this
  exact this.symm

theorem fracExp_prefix {t e : Bytes} (h : fracExp t = some e) : e <+: t := by
  unfold fracExp at h
  split at h
  · rename_i t'
    split at h
    rename_i d t2 hsd
    split at h
    · cases he : expPart t2 with
      | none => simp [he] at h
      | some e' =>
        simp only [he, Option.map_some, Option.some.injEq] at h
        subst h
        obtain ⟨rest, hr⟩ := expPart_prefix he
        refine ⟨rest, ?_⟩
        rw [spanDigits_eq hsd, ← hr]
        simp
    · cases h
  · exact expPart_prefix h

theorem fracOnly_prefix {t e : Bytes} (h : fracOnly t = some e) : e <+: t := by
  unfold fracOnly at h
  split at h
  · rename_i t'
    split at h
    rename_i d t2 hsd
    split at h
    · injection h with h
      subst h
      exact ⟨t2, by rw [spanDigits_eq hsd]; simp⟩
    · cases h
  · cases h

theorem optMinus_eq {b s r : Bytes} (h : optMinus b = (s, r)) : b = s ++ r := by
  have := optMinus_append b
  rw [h] at this
  exact this.symm

theorem matchInt_prefix {b t : Bytes} (h : matchInt b = some t) : t <+: b := by
  unfold matchInt at h
  split at h
  rename_i sg r hm
  split at h
  rename_i ds rest hsd
  split at h
  · injection h with h
    subst h
    exact ⟨rest, by rw [optMinus_eq hm, spanDigits_eq hsd]; simp⟩
  · cases h

theorem matchFloat_prefix {b t : Bytes} (h : matchFloat false b = some t) : t <+: b := by
  unfold matchFloat at h
  split at h
  rename_i sg r hm
  split at h
  rename_i d1 r1 hsd
  split at h
  · cases h
  · simp only at h
    cases h1 : fracExp r1 with
    | some e =>
      simp only [h1, Option.some.injEq] at h
      subst h
      obtain ⟨rest, hr⟩ := fracExp_prefix h1
      exact ⟨rest, by rw [optMinus_eq hm, spanDigits_eq hsd, ← hr]; simp⟩
    | none =>
      simp only [h1] at h
      cases h2 : fracOnly r1 with
      | none => simp [h2] at h
      | some e =>
        simp only [h2, Option.map_some, Option.some.injEq] at h
        subst h
        obtain ⟨rest, hr⟩ := fracOnly_prefix h2
        exact ⟨rest, by rw [optMinus_eq hm, spanDigits_eq hsd, ← hr]; simp⟩

theorem scanBody_prefix : ∀ (f : Nat) (s body : Bytes), scanBody f s = some body →
    ∃ rest, s = body ++ 0x22 :: rest := by
  intro f
  induction f with
  | zero => intro s body h; simp [scanBody] at h
  | succ f ih =>
    intro s body h
    cases s with
    | nil => simp [scanBody] at h
    | cons c r =>
      unfold scanBody at h
      by_cases hq : (c == 0x22) = true
      · simp only [hq, ↓reduceIte] at h
        injection h with h; subst h
        exact ⟨r, by rw [eq_of_beq hq]; rfl⟩
      · simp only [hq, Bool.false_eq_true, ↓reduceIte] at h
        by_cases hb : (c == 0x5C) = true
        · simp only [hb, ↓reduceIte] at h
          cases r with
          | nil => simp at h
          | cons c2 r2 =>
            simp only at h
            cases hr : Martian.Lexer.ruleEsc c2 with
            | none => simp [hr] at h
            | some kh =>
              obtain ⟨k, hex⟩ := kh
              simp only [hr] at h
              split at h
              · cases hs : scanBody f (r2.drop k) with
                | none => simp [hs] at h
                | some body' =>
                  simp only [hs, Option.map_some, Option.some.injEq] at h
                  subst h
                  obtain ⟨rest, hrest⟩ := ih _ _ hs
                  refine ⟨rest, ?_⟩
                  have := List.take_append_drop k r2
                  simp only [List.cons_append, List.append_assoc, ← hrest, this]
              · cases h
        · simp only [hb, Bool.false_eq_true, ↓reduceIte] at h
          cases hs : scanBody f r with
          | none => simp [hs] at h
          | some body' =>
            simp only [hs, Option.map_some, Option.some.injEq] at h
            subst h
            obtain ⟨rest, hrest⟩ := ih _ _ hs
            exact ⟨rest, by rw [hrest]; rfl⟩

theorem matchString_prefix {b t : Bytes} (h : matchString b = some t) : t <+: b := by
  unfold matchString at h
  split at h
  · rename_i r
    cases hs : scanBody (r.length + 1) r with
    | none => simp [hs] at h
    | some body =>
      simp only [hs, Option.map_some, Option.some.injEq] at h
      subst h
      obtain ⟨rest, hrest⟩ := scanBody_prefix _ _ _ hs
      exact ⟨rest, by rw [hrest]; simp⟩
  · cases h

/-! ## every rule of the tokenizer returns a prefix of its input -/

theorem numberRule_prefix (T : Tables) (b : Bytes) : (numberRule T b).1 <+: b := by
  unfold numberRule numTok
  cases hf : matchFloat false b with
  | some t =>
    have := matchFloat_prefix hf
    simp only
    by_cases hp : (Martian.Lexer.parseFloat false t).isSome = true <;> simp [hp, this]
  | none =>
    simp only
    cases hi : matchInt b with
    | some t =>
      have := matchInt_prefix hi
      simp only
      by_cases hp : (Martian.Lexer.parseInt t).isSome = true <;> simp [hp, this]
    | none => simp

theorem stringRule_prefix (T : Tables) (b : Bytes) : (stringRule T b).1 <+: b := by
  unfold stringRule
  cases h : matchString b with
  | some t => simpa using matchString_prefix h
  | none => simp

theorem idRule_prefix (T : Tables) (b : Bytes) : (idRule T b).1 <+: b := by
  unfold idRule
  cases T.idRe with
  | none => simp
  | some re =>
    simp only
    cases h : pmatch re b with
    | some t =>
      obtain ⟨post, hp, _⟩ := Martian.Regex.pmatch_sound h
      exact ⟨post, hp.symm⟩
    | none => simp

theorem leadingSpace_prefix (b : Bytes) : leadingSpace b <+: b := List.take_prefix _ _

theorem commentRule_prefix (T : Tables) (b : Bytes) : (commentRule T b).1 <+: b := by
  unfold commentRule
  cases b with
  | nil => simp
  | cons c r =>
    simp only
    split
    · simp
    · exact List.take_prefix _ _

theorem bytesPrefixString_prefix (b kw : Bytes) : bytesPrefixString b kw <+: b := by
  unfold bytesPrefixString
  split
  · simp
  · split
    · exact List.take_prefix _ _
    · simp

theorem keywordMatch_prefix (T : Tables) (b : Bytes) : ∀ kws, (keywordMatch T b kws).1 <+: b
  | [] => by simp [keywordMatch]
  | (kw, tok) :: rest => by
    simp only [keywordMatch]
    split
    · exact bytesPrefixString_prefix _ _
    · exact keywordMatch_prefix T b rest

theorem clauseResult_prefix (T : Tables) (kind : String) (kws : List (String × String)) (c : UInt8) (b : Bytes) :
    (clauseResult T kind kws c b).1 <+: b := by
  unfold clauseResult
  split
  · exact List.take_prefix _ _
  split
  · exact stringRule_prefix T b
  split
  · exact commentRule_prefix T b
  split
  · exact leadingSpace_prefix b
  split
  · exact numberRule_prefix T b
  split
  · exact idRule_prefix T b
  split
  · exact keywordMatch_prefix T b kws
  · simp

theorem keywordTokenT_prefix (T : Tables) (b : Bytes) : (keywordTokenT T b).1 <+: b := by
  unfold keywordTokenT
  cases b with
  | nil => simp
  | cons c r =>
    simp only
    cases findClause T.sw c.toNat with
    | some kk => exact clauseResult_prefix T kk.1 kk.2 c (c :: r)
    | none =>
      simp only
      split
      · exact leadingSpace_prefix _
      · simp

/-- **the text `nextToken` returns is a prefix of the head** -/
theorem nextTokenT_prefix (T : Tables) (head : Bytes) : (nextTokenT T head).2 <+: head := by
  unfold nextTokenT
  simp only
  split
  · exact keywordTokenT_prefix T head
  · split
    · exact idRule_prefix T head
    · simp

theorem nextToken_prefix (head : Bytes) : ∃ rest, head = (nextToken head).2 ++ rest := by
  obtain ⟨rest, h⟩ := nextTokenT_prefix genTables head
  exact ⟨rest, h.symm⟩

/-- **progress**: the token is INVALID or its text is not empty -/
theorem nextTokenT_progress (T : Tables) (head : Bytes) :
    (nextTokenT T head).1 = invalidId T ∨ 0 < (nextTokenT T head).2.length := by
  unfold nextTokenT
  simp only
  split
  · right; assumption
  · split
    · right; assumption
    · left; rfl

theorem nextToken_progress (head : Bytes) :
    (nextToken head).1 = invalidId genTables ∨ 0 < (nextToken head).2.length :=
  nextTokenT_progress genTables head
