/-
C08 lemmas about the whole-tokenizer model (`Martian/Tokenizer.lean`), for ALL
inputs and for ANY tables (switch table, token ids, identifier regex).
-/
import Martian.Tokenizer
import Proofs.Regex

namespace Martian.Tokenizer
open Martian.Regex (Bytes Re decodeRune isWord pmatch)
open Martian.Lexer (spanDigits optMinus optSign matchInt matchFloat matchString scanBody numTok fracExp
  fracOnly expPart)

/-! ## the recognisers of `Martian.Lexer` return prefixes of their input -/

theorem spanDigits_append : ∀ b : Bytes, (spanDigits b).1 ++ (spanDigits b).2 = b
  | [] => rfl
  | c :: r => by
    have ih := spanDigits_append r
    unfold spanDigits
    split
    · rcases h : spanDigits r with ⟨d, t⟩
      rw [h] at ih
      simpa using ih
    · rfl

theorem optMinus_append (b : Bytes) : (optMinus b).1 ++ (optMinus b).2 = b := by
  cases b with
  | nil => rfl
  | cons c r => simp only [optMinus]; split <;> rfl

theorem optSign_append (b : Bytes) : (optSign b).1 ++ (optSign b).2 = b := by
  cases b with
  | nil => rfl
  | cons c r => simp only [optSign]; split <;> rfl

theorem expPart_prefix {t e : Bytes} (h : expPart t = some e) : e <+: t := by
  cases t with
  | nil => simp [expPart] at h
  | cons c t' =>
    simp only [expPart] at h
    split at h
    · split at h
      · injection h with h
        subst h
        refine ⟨(spanDigits (optSign t').2).2, ?_⟩
        simp only [List.cons_append, List.append_assoc, spanDigits_append, optSign_append]
      · cases h
    · cases h

theorem spanDigits_eq {b d t : Bytes} (h : spanDigits b = (d, t)) : b = d ++ t := by
  have := spanDigits_append b
  rw [h] at this
  exact this.symm

theorem fracExp_prefix {t e : Bytes} (h : fracExp t = some e) : e <+: t := by
  unfold fracExp at h
  split at h
  · rename_i t'
    split at h
    rename_i d t2 hsd
    split at h
    · cases he : expPart t2 with
      | none => simp [he] at h
      | some e' =>
        simp only [he, Option.map_some, Option.some.injEq] at h
        subst h
        obtain ⟨rest, hr⟩ := expPart_prefix he
        refine ⟨rest, ?_⟩
        rw [spanDigits_eq hsd, ← hr]
        simp
    · cases h
  · exact expPart_prefix h

theorem fracOnly_prefix {t e : Bytes} (h : fracOnly t = some e) : e <+: t := by
  unfold fracOnly at h
  split at h
  · rename_i t'
    split at h
    rename_i d t2 hsd
    split at h
    · injection h with h
      subst h
      exact ⟨t2, by rw [spanDigits_eq hsd]; simp⟩
    · cases h
  · cases h

theorem optMinus_eq {b s r : Bytes} (h : optMinus b = (s, r)) : b = s ++ r := by
  have := optMinus_append b
  rw [h] at this
  exact this.symm

theorem matchInt_prefix {b t : Bytes} (h : matchInt b = some t) : t <+: b := by
  unfold matchInt at h
  split at h
  rename_i sg r hm
  split at h
  rename_i ds rest hsd
  split at h
  · injection h with h
    subst h
    exact ⟨rest, by rw [optMinus_eq hm, spanDigits_eq hsd]; simp⟩
  · cases h

theorem matchFloat_prefix {b t : Bytes} (h : matchFloat false b = some t) : t <+: b := by
  unfold matchFloat at h
  split at h
  rename_i sg r hm
  split at h
  rename_i d1 r1 hsd
  split at h
  · cases h
  · simp only at h
    cases h1 : fracExp r1 with
    | some e =>
      simp only [h1, Option.some.injEq] at h
      subst h
      obtain ⟨rest, hr⟩ := fracExp_prefix h1
      exact ⟨rest, by rw [optMinus_eq hm, spanDigits_eq hsd, ← hr]; simp⟩
    | none =>
      simp only [h1] at h
      cases h2 : fracOnly r1 with
      | none => simp [h2] at h
      | some e =>
        simp only [h2, Option.map_some, Option.some.injEq] at h
        subst h
        obtain ⟨rest, hr⟩ := fracOnly_prefix h2
        exact ⟨rest, by rw [optMinus_eq hm, spanDigits_eq hsd, ← hr]; simp⟩

theorem scanBody_prefix : ∀ (f : Nat) (s body : Bytes), scanBody f s = some body →
    ∃ rest, s = body ++ 0x22 :: rest := by
  intro f
  induction f with
  | zero => intro s body h; simp [scanBody] at h
  | succ f ih =>
    intro s body h
    cases s with
    | nil => simp [scanBody] at h
    | cons c r =>
      unfold scanBody at h
      by_cases hq : (c == 0x22) = true
      · simp only [hq, ↓reduceIte] at h
        injection h with h; subst h
        exact ⟨r, by rw [eq_of_beq hq]; rfl⟩
      · simp only [hq, Bool.false_eq_true, ↓reduceIte] at h
        by_cases hb : (c == 0x5C) = true
        · simp only [hb, ↓reduceIte] at h
          cases r with
          | nil => simp at h
          | cons c2 r2 =>
            simp only at h
            cases hr : Martian.Lexer.ruleEsc c2 with
            | none => simp [hr] at h
            | some kh =>
              obtain ⟨k, hex⟩ := kh
              simp only [hr] at h
              split at h
              · cases hs : scanBody f (r2.drop k) with
                | none => simp [hs] at h
                | some body' =>
                  simp only [hs, Option.map_some, Option.some.injEq] at h
                  subst h
                  obtain ⟨rest, hrest⟩ := ih _ _ hs
                  refine ⟨rest, ?_⟩
                  have := List.take_append_drop k r2
                  simp only [List.cons_append, List.append_assoc, ← hrest, this]
              · cases h
        · simp only [hb, Bool.false_eq_true, ↓reduceIte] at h
          cases hs : scanBody f r with
          | none => simp [hs] at h
          | some body' =>
            simp only [hs, Option.map_some, Option.some.injEq] at h
            subst h
            obtain ⟨rest, hrest⟩ := ih _ _ hs
            exact ⟨rest, by rw [hrest]; rfl⟩

theorem matchString_prefix {b t : Bytes} (h : matchString b = some t) : t <+: b := by
  unfold matchString at h
  split at h
  · rename_i r
    cases hs : scanBody (r.length + 1) r with
    | none => simp [hs] at h
    | some body =>
      simp only [hs, Option.map_some, Option.some.injEq] at h
      subst h
      obtain ⟨rest, hrest⟩ := scanBody_prefix _ _ _ hs
      exact ⟨rest, by rw [hrest]; simp⟩
  · cases h

/-! ## every rule of the tokenizer returns a prefix of its input -/

theorem numberRule_prefix (T : Tables) (b : Bytes) : (numberRule T b).1 <+: b := by
  unfold numberRule numTok
  cases hf : matchFloat false b with
  | some t =>
    have := matchFloat_prefix hf
    simp only
    by_cases hp : (Martian.Lexer.parseFloat false t).isSome = true <;> simp [hp, this]
  | none =>
    simp only
    cases hi : matchInt b with
    | some t =>
      have := matchInt_prefix hi
      simp only
      by_cases hp : (Martian.Lexer.parseInt t).isSome = true <;> simp [hp, this]
    | none => simp

theorem stringRule_prefix (T : Tables) (b : Bytes) : (stringRule T b).1 <+: b := by
  unfold stringRule
  cases h : matchString b with
  | some t => simpa using matchString_prefix h
  | none => simp

theorem idRule_prefix (T : Tables) (b : Bytes) : (idRule T b).1 <+: b := by
  unfold idRule
  cases T.idRe with
  | none => simp
  | some re =>
    simp only
    cases h : pmatch re b with
    | some t =>
      obtain ⟨post, hp, _⟩ := Martian.Regex.pmatch_sound h
      exact ⟨post, hp.symm⟩
    | none => simp

theorem leadingSpace_prefix (b : Bytes) : leadingSpace b <+: b := List.take_prefix _ _

theorem commentRule_prefix (T : Tables) (b : Bytes) : (commentRule T b).1 <+: b := by
  unfold commentRule
  cases b with
  | nil => simp
  | cons c r =>
    simp only
    split
    · simp
    · exact List.take_prefix _ _

theorem bytesPrefixString_prefix (b kw : Bytes) : bytesPrefixString b kw <+: b := by
  unfold bytesPrefixString
  split
  · simp
  · split
    · exact List.take_prefix _ _
    · simp

theorem keywordMatch_prefix (T : Tables) (b : Bytes) : ∀ kws, (keywordMatch T b kws).1 <+: b
  | [] => by simp [keywordMatch]
  | (kw, tok) :: rest => by
    simp only [keywordMatch]
    split
    · exact bytesPrefixString_prefix _ _
    · exact keywordMatch_prefix T b rest

theorem clauseResult_prefix (T : Tables) (kind : String) (kws : List (String × String)) (c : UInt8) (b : Bytes) :
    (clauseResult T kind kws c b).1 <+: b := by
  unfold clauseResult
  split
  · exact List.take_prefix _ _
  split
  · exact stringRule_prefix T b
  split
  · exact commentRule_prefix T b
  split
  · exact leadingSpace_prefix b
  split
  · exact numberRule_prefix T b
  split
  · exact idRule_prefix T b
  split
  · exact keywordMatch_prefix T b kws
  · simp

theorem keywordTokenT_prefix (T : Tables) (b : Bytes) : (keywordTokenT T b).1 <+: b := by
  unfold keywordTokenT
  cases b with
  | nil => simp
  | cons c r =>
    simp only
    cases findClause T.sw c.toNat with
    | some kk => exact clauseResult_prefix T kk.1 kk.2 c (c :: r)
    | none =>
      simp only
      split
      · exact leadingSpace_prefix _
      · simp

/-- **the text `nextToken` returns is a prefix of the head** -/
theorem nextTokenT_prefix (T : Tables) (head : Bytes) : (nextTokenT T head).2 <+: head := by
  unfold nextTokenT
  simp only
  split
  · exact keywordTokenT_prefix T head
  · split
    · exact idRule_prefix T head
    · simp

theorem nextToken_prefix (head : Bytes) : ∃ rest, head = (nextToken head).2 ++ rest := by
  obtain ⟨rest, h⟩ := nextTokenT_prefix genTables head
  exact ⟨rest, h.symm⟩

/-- **progress**: the token is INVALID or its text is not empty -/
theorem nextTokenT_progress (T : Tables) (head : Bytes) :
    (nextTokenT T head).1 = invalidId T ∨ 0 < (nextTokenT T head).2.length := by
  unfold nextTokenT
  simp only
  split
  · right; assumption
  · split
    · right; assumption
    · left; rfl

theorem nextToken_progress (head : Bytes) :
    (nextToken head).1 = invalidId genTables ∨ 0 < (nextToken head).2.length :=
  nextTokenT_progress genTables head

/-! ## the scanner loop -/

theorem prefix_drop {t s : Bytes} (h : t <+: s) : t ++ s.drop t.length = s := by
  obtain ⟨r, rfl⟩ := h
  simp

theorem stepLoc_text (T : Tables) (l : Loc) (id : Nat) (text : Bytes) : (stepLoc T l id text).1.text = text := by
  unfold stepLoc
  simp only
  split
  · rfl
  · split <;> rfl

theorem stepLoc_id (T : Tables) (l : Loc) (id : Nat) (text : Bytes) : (stepLoc T l id text).1.id = id := by
  unfold stepLoc
  simp only
  split
  · rfl
  · split <;> rfl

theorem skipLoc_line : ∀ (b : Bytes) (line col : Nat), (skipLoc b line col).1 = line + countNL b
  | [], line, col => by simp [skipLoc, countNL]
  | b :: r, line, col => by
    simp only [skipLoc, countNL]
    split
    · rw [skipLoc_line r]; omega
    · rw [skipLoc_line r]; omega

/-- the line `Lex` is on when it looks at the next token: the stored line plus
the newlines of the previous token, over which the location is advanced first -/
def effLine (l : Loc) : Nat := if l.incCol then l.line + countNL l.tok else l.line

theorem stepLoc_line1 (T : Tables) (l : Loc) (id : Nat) (text : Bytes) :
    (stepLoc T l id text).1.line = effLine l := by
  have hp : (if l.incCol then skipLoc l.tok l.line l.col else (l.line, l.col)).1 = effLine l := by
    unfold effLine
    split
    · exact skipLoc_line _ _ _
    · rfl
  unfold stepLoc
  simp only
  split
  · exact hp
  · split <;> exact hp

theorem lexRawFuel_zero (T : Tables) (src : Bytes) (l : Loc) : lexRawFuel T 0 src l = ([], src) := by
  simp [lexRawFuel]

theorem lexRawFuel_nil (T : Tables) (f : Nat) (l : Loc) : lexRawFuel T f [] l = ([], []) := by
  cases f <;> simp [lexRawFuel]

theorem lexRawFuel_cons (T : Tables) (f : Nat) (c : UInt8) (r : Bytes) (l : Loc) :
    lexRawFuel T (f + 1) (c :: r) l =
      if stops T (nextTokenT T (c :: r)).1 then
        ([(stepLoc T l (nextTokenT T (c :: r)).1 (nextTokenT T (c :: r)).2).1],
         (c :: r).drop (nextTokenT T (c :: r)).2.length)
      else
        ((stepLoc T l (nextTokenT T (c :: r)).1 (nextTokenT T (c :: r)).2).1 ::
           (lexRawFuel T f ((c :: r).drop (nextTokenT T (c :: r)).2.length)
              (stepLoc T l (nextTokenT T (c :: r)).1 (nextTokenT T (c :: r)).2).2).1,
         (lexRawFuel T f ((c :: r).drop (nextTokenT T (c :: r)).2.length)
              (stepLoc T l (nextTokenT T (c :: r)).1 (nextTokenT T (c :: r)).2).2).2) := by
  simp only [lexRawFuel]

/-- **reconstruction**: the texts of all tokens (SKIP and COMMENT ones
included), in order, followed by the unconsumed rest, are the input — for any
fuel. -/
theorem lexRawFuel_reconstructs (T : Tables) : ∀ (f : Nat) (src : Bytes) (l : Loc),
    ((lexRawFuel T f src l).1.map Tok.text).flatten ++ (lexRawFuel T f src l).2 = src := by
  intro f
  induction f with
  | zero => intro src l; simp [lexRawFuel_zero]
  | succ f ih =>
    intro src l
    cases src with
    | nil => simp [lexRawFuel_nil]
    | cons c r =>
      rw [lexRawFuel_cons]
      have hp := prefix_drop (nextTokenT_prefix T (c :: r))
      split
      · simpa [stepLoc_text] using hp
      · simp only [List.map_cons, List.flatten_cons, stepLoc_text, List.append_assoc]
        rw [ih]
        exact hp

/-- an iteration after which the loop goes on has consumed at least one byte
(given that the constants SKIP and COMMENT differ from INVALID) -/
theorem not_stops_progress (T : Tables) (hS : skipId T ≠ invalidId T) (hC : commentId T ≠ invalidId T)
    (s : Bytes) (h : ¬ stops T (nextTokenT T s).1 = true) : 0 < (nextTokenT T s).2.length := by
  rcases nextTokenT_progress T s with hi | hp
  · exfalso
    apply h
    unfold stops
    rw [hi]
    simp only [bne_iff_ne, ne_eq, Bool.and_eq_true, beq_self_eq_true, and_true]
    exact ⟨fun e => hS e.symm, fun e => hC e.symm⟩
  · exact hp

/-- **the fuel is never the reason the loop stops**: any two fuels above the
length of the source give the same result. -/
theorem lexRawFuel_fuel (T : Tables) (hS : skipId T ≠ invalidId T) (hC : commentId T ≠ invalidId T) :
    ∀ (f g : Nat) (src : Bytes) (l : Loc), src.length < f → src.length < g →
      lexRawFuel T f src l = lexRawFuel T g src l := by
  intro f
  induction f with
  | zero => intro g src l h; omega
  | succ f ih =>
    intro g src l hf hg
    cases g with
    | zero => omega
    | succ g =>
      cases src with
      | nil => simp [lexRawFuel_nil]
      | cons c r =>
        rw [lexRawFuel_cons, lexRawFuel_cons]
        split
        · rfl
        · rename_i hs
          have hp := not_stops_progress T hS hC (c :: r) hs
          have hlen : ((c :: r).drop (nextTokenT T (c :: r)).2.length).length < (c :: r).length := by
            simp only [List.length_drop, List.length_cons]
            omega
          rw [ih g _ _ (by simp only [List.length_cons] at hf hlen ⊢; omega)
                (by simp only [List.length_cons] at hg hlen ⊢; omega)]

/-- with enough fuel, bytes are left unconsumed only after an INVALID token,
which is then the last one -/
theorem lexRawFuel_rest (T : Tables) (hS : skipId T ≠ invalidId T) (hC : commentId T ≠ invalidId T) :
    ∀ (f : Nat) (src : Bytes) (l : Loc), src.length < f → (lexRawFuel T f src l).2 ≠ [] →
      ∃ pre t, (lexRawFuel T f src l).1 = pre ++ [t] ∧ t.id = invalidId T := by
  intro f
  induction f with
  | zero => intro src l h; omega
  | succ f ih =>
    intro src l hf hne
    cases src with
    | nil => simp [lexRawFuel_nil] at hne
    | cons c r =>
      rw [lexRawFuel_cons] at hne ⊢
      split
      · rename_i hs
        refine ⟨[], _, rfl, ?_⟩
        rw [stepLoc_id]
        unfold stops at hs
        simp only [Bool.and_eq_true, beq_iff_eq] at hs
        exact hs.2
      · rename_i hs
        simp only [hs, Bool.false_eq_true, ↓reduceIte] at hne
        have hp := not_stops_progress T hS hC (c :: r) hs
        have hlen : ((c :: r).drop (nextTokenT T (c :: r)).2.length).length < f := by
          simp only [List.length_drop, List.length_cons] at hf ⊢
          omega
        obtain ⟨pre, t, he, hid⟩ := ih _ _ hlen hne
        exact ⟨(stepLoc T l (nextTokenT T (c :: r)).1 (nextTokenT T (c :: r)).2).1 :: pre, t,
          by simp only [he, List.cons_append], hid⟩

/-! ## line numbers -/

/-- by how much a token advances the line: by the newlines in its text (white
space, comments — a comment ends with its newline, if it has one — and, since
the repairs of the line bookkeeping, string literals) -/
def lineAdvance (_T : Tables) (t : Tok) : Nat := countNL t.text

theorem stepLoc_line2 (T : Tables) (l : Loc) (id : Nat) (text : Bytes) :
    effLine (stepLoc T l id text).2 = effLine l + lineAdvance T (stepLoc T l id text).1 := by
  have hp : (if l.incCol then skipLoc l.tok l.line l.col else (l.line, l.col)).1 = effLine l := by
    unfold effLine
    split
    · exact skipLoc_line _ _ _
    · rfl
  unfold lineAdvance
  rw [stepLoc_text]
  unfold stepLoc
  simp only
  split
  · simp only [effLine, Bool.false_eq_true, if_false, skipLoc_line, hp]
  · split
    · simp only [effLine, Bool.false_eq_true, if_false, skipLoc_line, hp]
    · simp [effLine, hp]

/-- **line numbers**: the line of every token is the start line plus the
number of `\n` bytes in the non-comment tokens before it (white space and
string literals) plus the number of COMMENT tokens before it. -/
theorem lexRawFuel_line (T : Tables) : ∀ (f : Nat) (src : Bytes) (l : Loc) (pre : List Tok) (t : Tok) (post : List Tok),
    (lexRawFuel T f src l).1 = pre ++ t :: post → t.line = effLine l + (pre.map (lineAdvance T)).sum := by
  intro f
  induction f with
  | zero => intro src l pre t post h; simp [lexRawFuel_zero] at h
  | succ f ih =>
    intro src l pre t post h
    cases src with
    | nil => simp [lexRawFuel_nil] at h
    | cons c r =>
      rw [lexRawFuel_cons] at h
      split at h
      · cases pre with
        | nil =>
          simp only [List.nil_append, List.cons.injEq] at h
          rw [← h.1, stepLoc_line1]; simp
        | cons p pre' =>
          simp only [List.cons_append, List.cons.injEq] at h
          have := h.2
          simp at this
      · cases pre with
        | nil =>
          simp only [List.nil_append, List.cons.injEq] at h
          rw [← h.1, stepLoc_line1]; simp
        | cons p pre' =>
          simp only [List.cons_append, List.cons.injEq] at h
          have := ih _ _ _ _ _ h.2
          rw [this, stepLoc_line2, ← h.1]
          simp only [List.map_cons, List.sum_cons]
          omega

/-! ## the tokenizer as regenerated (`Gen.tokSwitch`, `Gen.tokIds`, `Gen.tokIdRegex`) -/

theorem gen_skip_ne_invalid : skipId genTables ≠ invalidId genTables := by decide
theorem gen_comment_ne_invalid : commentId genTables ≠ invalidId genTables := by decide

/-- the texts of ALL tokens followed by the unconsumed rest are the input, and
bytes are left unconsumed only after a final INVALID token -/
theorem lexAllRaw_reconstructs (src : Bytes) :
    ((lexAllRaw src).1.map Tok.text).flatten ++ (lexAllRaw src).2 = src ∧
    ((lexAllRaw src).2 ≠ [] → ∃ pre t, (lexAllRaw src).1 = pre ++ [t] ∧ t.id = invalidId genTables) :=
  ⟨lexRawFuel_reconstructs genTables _ src startLoc,
   lexRawFuel_rest genTables gen_skip_ne_invalid gen_comment_ne_invalid _ src startLoc (Nat.lt_succ_self _)⟩

/-- more fuel than `length + 1` changes nothing: the loop of `Lex` terminates on
its own -/
theorem lexAllRaw_fuel (src : Bytes) (f : Nat) (h : src.length + 1 ≤ f) :
    lexRawFuel genTables f src startLoc = lexAllRaw src :=
  lexRawFuel_fuel genTables gen_skip_ne_invalid gen_comment_ne_invalid f _ src startLoc (by omega)
    (Nat.lt_succ_self _)

theorem lexAllRaw_line (src : Bytes) (pre : List Tok) (t : Tok) (post : List Tok)
    (h : (lexAllRaw src).1 = pre ++ t :: post) : t.line = 1 + (pre.map (lineAdvance genTables)).sum :=
  lexRawFuel_line genTables _ src startLoc pre t post h

/-- non-vacuity: `in x\n#\n$` is IN, ID, then INVALID on line 3 (a comment and a newline before it) -/
example : (lexAll [0x69, 0x6E, 0x20, 0x78, 0x0A, 0x23, 0x0A, 0x24]).map (fun t => (t.id, t.line, t.col)) =
    [(57354, 1, 1), (57378, 1, 4), (57348, 3, 1)] := by decide

theorem countNL_append : ∀ (a b : Bytes), countNL (a ++ b) = countNL a + countNL b
  | [], b => by simp [countNL]
  | x :: a, b => by simp only [List.cons_append, countNL, countNL_append a b]; omega

theorem sum_lineAdvance (T : Tables) : ∀ (pre : List Tok),
    (pre.map (lineAdvance T)).sum = countNL (pre.map Tok.text).flatten
  | [] => by simp [countNL]
  | t :: pre => by
    simp only [List.map_cons, List.sum_cons, List.flatten_cons, countNL_append, sum_lineAdvance T pre, lineAdvance]

/-- **the reported line is the real line**: the line of every token is 1 + the
number of newline bytes of the source before it (the texts of the tokens before
it are, by `lexAllRaw_reconstructs`, exactly the source up to the token). -/
theorem lexAllRaw_real_line (src : Bytes) (pre : List Tok) (t : Tok) (post : List Tok)
    (h : (lexAllRaw src).1 = pre ++ t :: post) : t.line = 1 + countNL (pre.map Tok.text).flatten := by
  rw [← sum_lineAdvance genTables pre]
  exact lexAllRaw_line src pre t post h

/-- every token of the stream (white space and comments included) is what ONE
call of `nextToken` returns on a suffix of the source -/
theorem lexRawFuel_mem (T : Tables) : ∀ (f : Nat) (src : Bytes) (l : Loc) (t : Tok),
    t ∈ (lexRawFuel T f src l).1 → ∃ head, nextTokenT T head = (t.id, t.text) := by
  intro f
  induction f with
  | zero => intro src l t h; simp [lexRawFuel_zero] at h
  | succ f ih =>
    intro src l t h
    cases src with
    | nil => simp [lexRawFuel_nil] at h
    | cons c r =>
      rw [lexRawFuel_cons] at h
      have hhead : ∀ t', t' = (stepLoc T l (nextTokenT T (c :: r)).1 (nextTokenT T (c :: r)).2).1 →
          ∃ head, nextTokenT T head = (t'.id, t'.text) := by
        intro t' e
        exact ⟨c :: r, by rw [e, stepLoc_id, stepLoc_text]⟩
      split at h
      · simp only [List.mem_singleton] at h
        exact hhead t h
      · simp only [List.mem_cons] at h
        rcases h with h | h
        · exact hhead t h
        · exact ih _ _ t h

theorem lexAll_mem (src : Bytes) (t : Tok) (h : t ∈ lexAll src) :
    ∃ head, nextToken head = (t.id, t.text) := by
  have : t ∈ (lexAllRaw src).1 := (List.mem_filter.mp h).1
  exact lexRawFuel_mem genTables _ src startLoc t this

end Martian.Tokenizer
