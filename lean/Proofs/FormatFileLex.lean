import Proofs.FormatFileParse
import Proofs.FormatDeclLex
import Proofs.FormatStageLex
import Proofs.FormatCall2Lex

/-!
C09, whole files: the lexing layer (`@include`, the blocks of `fmtFile` with their blank lines,
a source text with arbitrary white space between the pieces), the round trips
`parseFile (fmtFile f) = some (normFile f)` and `parseFile (fmtSource …) = …`, and printing the
normal form.

Core Lean only.
-/

namespace Martian.FormatFile
open Martian.Lexer (Bytes isWord isDigit)
open Martian.Format (quoteString)
open Martian.FormatExp Martian.FormatDecl Martian.FormatCall2
open Martian.FormatStage (Stage fmtStage wfStage toksStage lexOK_fmtStage)
open Martian.FormatPipe (Pipeline fmtPipeline fmtPipelineRaw normPipeline wfPipeline toksPipeline
  toksPipelineRaw lexOK_fmtPipeline lexOK_fmtPipelineRaw fmtPipeline_norm fmtPipeline_of_raw
  normPipeline_stable')

/-! ## composition without side conditions -/

theorem lexOK_app {s1 s2 : Bytes} {t1 t2 : List Tok} (h1 : LexOK s1 t1 AnyRest)
    (h2 : LexOK s2 t2 AnyRest) : LexOK (s1 ++ s2) (t1 ++ t2) AnyRest :=
  h1.append h2 (fun _ _ => trivial)

theorem lexOK_ws {ws : Bytes} (h : ws.all isSp = true) : LexOK ws [] AnyRest := LexOK.spaces h _

theorem lexOK_spacer (b : Bool) : LexOK (spacer b) [] AnyRest := by
  cases b
  · exact LexOK.nil _
  · exact lexOK_ws (by decide)

/-! ## `@include` -/

theorem nextLex_atInclude (rest : Bytes) (hr : WordEnd rest) :
    nextLex (sAtInclude ++ rest) = (.tok (.reserved sAtInclude), 8) := by
  have h1 : isPunct 0x40 = false := by decide
  have h2 : isSp 0x40 = false := by decide
  have h3 : ((0x40 : UInt8) == 0x23) = false := by decide
  have h4 : ((0x40 : UInt8) == 0x22) = false := by decide
  have h5 : (isDigit 0x40 || (0x40 : UInt8) == 0x2D) = false := by decide
  have h6 : (isAlpha 0x40 || (0x40 : UInt8) == 0x5F) = false := by decide
  have e : sAtInclude ++ rest = 0x40 :: (sIncludeWord ++ rest) := rfl
  have ht : (sIncludeWord ++ rest).take 7 = sIncludeWord := by simp [sIncludeWord]
  have hd : (sIncludeWord ++ rest).drop 7 = rest := by simp [sIncludeWord]
  have hh : rest.head?.any isWord = false := by
    rcases hr with rfl | ⟨c, r, rfl, hc⟩
    · rfl
    · simp [hc]
  rw [e]
  simp only [nextLex, h1, h2, h3, h4, h5, h6, ht, hd, hh, Bool.false_eq_true, ↓reduceIte,
    beq_self_eq_true, Bool.not_false, Bool.and_self]

theorem lexOK_atInclude : LexOK sAtInclude [.reserved sAtInclude] WordEnd := by
  intro rest hr
  exact lexAll_tok sAtInclude rest _ (by decide) (nextLex_atInclude rest hr)

theorem lexOK_fmtInclude (p : Bytes) (hp : Martian.ShellQuote.validUtf8 p = true) :
    LexOK (fmtInclude p) [.reserved sAtInclude, .str (quoteString p)] AnyRest := by
  have h1 : LexOK (sAtInclude ++ [0x20]) [.reserved sAtInclude] AnyRest :=
    (lexOK_atInclude.append (lexOK_ws (ws := [0x20]) (by decide))
      (fun rest _ => WordEnd.cons _ _ (by decide))).congr rfl (by simp)
  have h2 : LexOK (quoteString p) [.str (quoteString p)] AnyRest := LexOK.str hp _
  have h3 : LexOK [0x0A] [] AnyRest := lexOK_ws (by decide)
  exact (lexOK_app (lexOK_app h1 h2) h3).congr (by simp [fmtInclude]) (by simp)

theorem lexOK_fmtIncludes : ∀ incs : List Bytes, incs.all Martian.ShellQuote.validUtf8 = true →
    LexOK (fmtIncludes incs) (toksIncludes incs) AnyRest
  | [], _ => LexOK.nil _
  | p :: incs, h => by
    simp only [List.all_cons, Bool.and_eq_true] at h
    exact (lexOK_app (lexOK_fmtInclude p h.1) (lexOK_fmtIncludes incs h.2)).congr
      (by simp [fmtIncludes]) (by simp [toksIncludes])

/-! ## the blocks of `fmtFile` -/

theorem lexOK_fmtFiletypes : ∀ ts : List Filetype, ts.all wfFiletype = true →
    LexOK (fmtFiletypes ts) (toksDecls false (ts.map .filetype)) AnyRest
  | [], _ => LexOK.nil _
  | t :: ts, h => by
    simp only [List.all_cons, Bool.and_eq_true] at h
    exact (lexOK_app (lexOK_fmtFiletype t h.1) (lexOK_fmtFiletypes ts h.2)).congr
      (by simp [fmtFiletypes]) (by simp [toksDecls, toksDecl])

theorem lexOK_fmtStructs : ∀ ss : List Struct, ss.all wfStruct = true →
    LexOK (fmtStructs ss) (toksDecls false (ss.map .struct)) AnyRest
  | [], _ => LexOK.nil _
  | [s], h => by
    simp only [List.all_cons, Bool.and_eq_true] at h
    exact (lexOK_fmtStruct s h.1).congr (by simp [fmtStructs]) (by simp [toksDecls, toksDecl])
  | s :: s' :: ss, h => by
    simp only [List.all_cons, Bool.and_eq_true] at h
    have ih := lexOK_fmtStructs (s' :: ss) (by simp [h.2.1, h.2.2])
    have hnl : LexOK [0x0A] [] AnyRest := lexOK_ws (by decide)
    exact (lexOK_app (lexOK_fmtStruct s h.1) (lexOK_app hnl ih)).congr
      (by simp [fmtStructs]) (by simp [toksDecls, toksDecl])

theorem lexOK_fmtCallable (c : Callable) (h : wfCallable c = true) :
    LexOK (fmtCallable c) (toksDecl false c.toDecl) AnyRest := by
  cases c with
  | stage s => exact (lexOK_fmtStage s h).congr rfl rfl
  | pipeline p => exact (lexOK_fmtPipeline p h).congr rfl (by simp [Callable.toDecl, toksDecl])

theorem lexOK_fmtCallables : ∀ cs : List Callable, cs.all wfCallable = true →
    LexOK (fmtCallables cs) (toksDecls false (cs.map Callable.toDecl)) AnyRest
  | [], _ => LexOK.nil _
  | [c], h => by
    simp only [List.all_cons, Bool.and_eq_true] at h
    exact (lexOK_fmtCallable c h.1).congr (by simp [fmtCallables]) (by simp [toksDecls])
  | c :: c' :: cs, h => by
    simp only [List.all_cons, Bool.and_eq_true] at h
    have ih := lexOK_fmtCallables (c' :: cs) (by simp [h.2.1, h.2.2])
    have hnl : LexOK [0x0A] [] AnyRest := lexOK_ws (by decide)
    exact (lexOK_app (lexOK_fmtCallable c h.1) (lexOK_app hnl ih)).congr
      (by simp [fmtCallables]) (by simp [toksDecls])

theorem lexOK_fmtCallOpt (pre : Bool) (call : Option Call2) (h : wfCallOpt call = true) :
    LexOK (fmtCallOpt pre call) (toksCallOpt call) AnyRest := by
  cases call with
  | none => exact LexOK.nil _
  | some c =>
    exact (lexOK_app (lexOK_spacer pre) (lexOK_fmtCall2 [] c rfl h)).congr
      (by simp [fmtCallOpt]) (by simp [toksCallOpt])

theorem wfFile_parts {f : File} (h : wfFile f = true) :
    f.includes.all Martian.ShellQuote.validUtf8 = true ∧ f.filetypes.all wfFiletype = true ∧
    f.structs.all wfStruct = true ∧ f.callables.all wfCallable = true ∧ wfCallOpt f.call = true ∧
    (!f.filetypes.isEmpty || !f.structs.isEmpty || !f.callables.isEmpty || f.call.isSome) = true := by
  simp only [wfFile, Bool.and_eq_true] at h
  obtain ⟨⟨⟨⟨⟨h1, h2⟩, h3⟩, h4⟩, h5⟩, h6⟩ := h
  exact ⟨h1, h2, h3, h4, h5, h6⟩

/-- **Lexing layer, file.** -/
theorem lexOK_fmtFile (f : File) (hw : wfFile f = true) : LexOK (fmtFile f) (toksFile f) AnyRest := by
  obtain ⟨h1, h2, h3, h4, h5, _⟩ := wfFile_parts hw
  have hI := lexOK_fmtIncludes f.includes h1
  have hT := lexOK_app (lexOK_spacer (sp1 f && !f.filetypes.isEmpty)) (lexOK_fmtFiletypes f.filetypes h2)
  have hS := lexOK_app (lexOK_spacer (sp2 f && !f.structs.isEmpty)) (lexOK_fmtStructs f.structs h3)
  have hC := lexOK_app (lexOK_spacer (sp3 f && !f.callables.isEmpty)) (lexOK_fmtCallables f.callables h4)
  have hK := lexOK_fmtCallOpt (!f.callables.isEmpty || sp3 f) f.call h5
  exact (lexOK_app (lexOK_app (lexOK_app (lexOK_app hI hT) hS) hC) hK).congr rfl
    (by simp [toksFile, declsOf, toksDecls_append])

/-! ## a source text -/

theorem lexOK_fmtDecl (raw : Bool) (d : Decl) (h : wfDecl d = true) :
    LexOK (fmtDecl raw d) (toksDecl raw d) AnyRest := by
  cases d with
  | filetype t => exact (lexOK_fmtFiletype t h).congr rfl rfl
  | struct s => exact (lexOK_fmtStruct s h).congr rfl rfl
  | stage s => exact (lexOK_fmtStage s h).congr rfl rfl
  | pipeline p =>
    cases raw with
    | false => exact (lexOK_fmtPipeline p h).congr (by simp [fmtDecl]) (by simp [toksDecl])
    | true => exact (lexOK_fmtPipelineRaw p h).congr (by simp [fmtDecl]) (by simp [toksDecl])

theorem lexOK_fmtIncludesSrc (w : Nat → Bytes) (hws : ∀ k, (w k).all isSp = true) :
    ∀ (incs : List Bytes) (k : Nat), incs.all Martian.ShellQuote.validUtf8 = true →
    LexOK (fmtIncludesSrc w k incs) (toksIncludes incs) AnyRest
  | [], _, _ => LexOK.nil _
  | p :: incs, k, h => by
    simp only [List.all_cons, Bool.and_eq_true] at h
    exact (lexOK_app (lexOK_app (lexOK_fmtInclude p h.1) (lexOK_ws (hws k)))
      (lexOK_fmtIncludesSrc w hws incs (k + 1) h.2)).congr
      (by simp [fmtIncludesSrc]) (by simp [toksIncludes])

theorem lexOK_fmtDeclsSrc (raw : Bool) (w : Nat → Bytes) (hws : ∀ k, (w k).all isSp = true) :
    ∀ (ds : List Decl) (k : Nat), ds.all wfDecl = true →
    LexOK (fmtDeclsSrc raw w k ds) (toksDecls raw ds) AnyRest
  | [], _, _ => LexOK.nil _
  | d :: ds, k, h => by
    simp only [List.all_cons, Bool.and_eq_true] at h
    exact (lexOK_app (lexOK_app (lexOK_fmtDecl raw d h.1) (lexOK_ws (hws k)))
      (lexOK_fmtDeclsSrc raw w hws ds (k + 1) h.2)).congr
      (by simp [fmtDeclsSrc]) (by simp [toksDecls])

theorem lexOK_fmtCallSrc (w : Nat → Bytes) (hws : ∀ k, (w k).all isSp = true) (k : Nat)
    (call : Option Call2) (h : wfCallOpt call = true) :
    LexOK (fmtCallSrc w k call) (toksCallOpt call) AnyRest := by
  cases call with
  | none => exact LexOK.nil _
  | some c =>
    exact (lexOK_app (lexOK_fmtCall2 [] c rfl h) (lexOK_ws (hws k))).congr
      (by simp [fmtCallSrc]) (by simp [toksCallOpt])

theorem wfSource_parts {incs : List Bytes} {ds : List Decl} {call : Option Call2}
    (h : wfSource incs ds call = true) :
    incs.all Martian.ShellQuote.validUtf8 = true ∧ ds.all wfDecl = true ∧ wfCallOpt call = true := by
  simp only [wfSource, Bool.and_eq_true] at h
  exact ⟨h.1.1.1, h.1.1.2, h.1.2⟩

/-- **Lexing layer, source text.** -/
theorem lexOK_fmtSource (raw : Bool) (w : Nat → Bytes) (hws : ∀ k, (w k).all isSp = true)
    (incs : List Bytes) (ds : List Decl) (call : Option Call2) (hw : wfSource incs ds call = true) :
    LexOK (fmtSource raw w incs ds call) (toksIncludes incs ++ (toksDecls raw ds ++ toksCallOpt call))
      AnyRest := by
  obtain ⟨h1, h2, h3⟩ := wfSource_parts hw
  exact lexOK_app (lexOK_fmtIncludesSrc w hws incs 0 h1)
    (lexOK_app (lexOK_fmtDeclsSrc raw w hws ds incs.length h2)
      (lexOK_fmtCallSrc w hws (incs.length + ds.length) call h3))

/-! ## round trips -/

theorem all_wfDecl_declsOf (f : File) (h2 : f.filetypes.all wfFiletype = true)
    (h3 : f.structs.all wfStruct = true) (h4 : f.callables.all wfCallable = true) :
    (declsOf f).all wfDecl = true := by
  simp only [declsOf, List.all_append, List.all_map, Bool.and_eq_true]
  refine ⟨?_, ?_, ?_⟩
  · exact h2
  · exact h3
  · rw [List.all_eq_true] at h4 ⊢
    intro c hc
    have := h4 c hc
    cases c <;> exact this

theorem wfSource_of_wfFile (f : File) (hw : wfFile f = true) :
    wfSource f.includes (declsOf f) f.call = true := by
  obtain ⟨h1, h2, h3, h4, h5, h6⟩ := wfFile_parts hw
  simp only [wfSource, Bool.and_eq_true]
  refine ⟨⟨⟨h1, all_wfDecl_declsOf f h2 h3 h4⟩, h5⟩, ?_⟩
  simp only [Bool.or_eq_true, Bool.not_eq_true', List.isEmpty_eq_false_iff] at h6 ⊢
  rcases h6 with ((h | h) | h) | h
  · left; simp [declsOf, h]
  · left; simp [declsOf, h]
  · left; simp [declsOf, h]
  · right; exact h

/-- **Round trip, file.** -/
theorem parseFile_fmtFile (f : File) (hw : wfFile f = true) :
    parseFile (fmtFile f) = some (normFile f) := by
  have hl := lexAll_of_lexOK_nil (lexOK_fmtFile f hw)
  have hp := pFile_toks false f.includes (declsOf f) f.call (wfSource_of_wfFile f hw)
  rw [distribute_read_false, distribute_declsOf] at hp
  simp only [parseFile, hl, Option.bind_some, toksFile, hp]

/-- the reader on a source with the declarations in any order, pipelines with sorted calls -/
theorem parseFile_fmtSource_sorted (w : Nat → Bytes) (hws : ∀ k, (w k).all isSp = true)
    (incs : List Bytes) (ds : List Decl) (call : Option Call2) (hw : wfSource incs ds call = true) :
    parseFile (fmtSource false w incs ds call) = some (normFile (distribute incs ds call)) := by
  have hl := lexAll_of_lexOK_nil (lexOK_fmtSource false w hws incs ds call hw)
  have hp := pFile_toks false incs ds call hw
  rw [distribute_read_false] at hp
  simp only [parseFile, hl, Option.bind_some, hp]

/-- the reader on a source with the declarations and the calls of every pipeline in any order -/
theorem parseFile_fmtSource_raw (w : Nat → Bytes) (hws : ∀ k, (w k).all isSp = true)
    (incs : List Bytes) (ds : List Decl) (call : Option Call2) (hw : wfSource incs ds call = true) :
    parseFile (fmtSource true w incs ds call) =
      some (distribute incs (ds.map readDecl) (call.map normCall2)) := by
  have hl := lexAll_of_lexOK_nil (lexOK_fmtSource true w hws incs ds call hw)
  have hp := pFile_toks true incs ds call hw
  rw [readDeclB_true] at hp
  simp only [parseFile, hl, Option.bind_some, hp]

/-! ## printing what was read -/

theorem fmtCallables_congr : ∀ (a b : List Callable), a.length = b.length →
    (∀ i (ha : i < a.length) (hb : i < b.length), fmtCallable a[i] = fmtCallable b[i]) →
    fmtCallables a = fmtCallables b
  | [], [], _, _ => rfl
  | [], _ :: _, h, _ => by simp at h
  | _ :: _, [], h, _ => by simp at h
  | [x], [y], _, h => by
    have := h 0 (by simp) (by simp)
    simpa [fmtCallables] using this
  | [_], _ :: _ :: _, h, _ => by simp at h
  | _ :: _ :: _, [_], h, _ => by simp at h
  | x :: x' :: a, y :: y' :: b, hl, h => by
    have h0 := h 0 (by simp) (by simp)
    have ih := fmtCallables_congr (x' :: a) (y' :: b) (by simpa using hl) (by
      intro i ha hb
      have := h (i + 1) (by simp at ha ⊢; omega) (by simp at hb ⊢; omega)
      simpa using this)
    simp only [List.getElem_cons_zero] at h0
    simp only [fmtCallables, h0, ih]

theorem fmtCallables_map (g : Callable → Callable) (cs : List Callable)
    (h : ∀ c ∈ cs, fmtCallable (g c) = fmtCallable c) : fmtCallables (cs.map g) = fmtCallables cs := by
  apply fmtCallables_congr
  · simp
  · intro i ha hb
    simp only [List.getElem_map]
    exact h _ (List.getElem_mem _)

theorem fmtCallable_norm (c : Callable) (h : wfCallable c = true) :
    fmtCallable (normCallable c) = fmtCallable c := by
  cases c with
  | stage s => rfl
  | pipeline p => exact fmtPipeline_norm p h

theorem fmtCallOpt_norm (pre : Bool) (call : Option Call2) (h : wfCallOpt call = true) :
    fmtCallOpt pre (call.map normCall2) = fmtCallOpt pre call := by
  cases call with
  | none => rfl
  | some c => simp only [Option.map_some, fmtCallOpt, fmtCall2_norm [] c h]

theorem isEmpty_map' {α β : Type} (g : α → β) (l : List α) : (l.map g).isEmpty = l.isEmpty := by
  cases l <;> rfl

/-- **Idempotent, file.** -/
theorem fmtFile_norm (f : File) (hw : wfFile f = true) : fmtFile (normFile f) = fmtFile f := by
  obtain ⟨_, _, _, h4, h5, _⟩ := wfFile_parts hw
  have hc : fmtCallables (f.callables.map normCallable) = fmtCallables f.callables :=
    fmtCallables_map normCallable f.callables (by
      intro c hc
      exact fmtCallable_norm c (List.all_eq_true.mp h4 c hc))
  simp only [fmtFile, normFile, sp1, sp2, sp3, hc, isEmpty_map', fmtCallOpt_norm _ f.call h5]

/-- the callable a source-order reading returns -/
def readCallable : Callable → Callable
  | .stage s => .stage s
  | .pipeline p => .pipeline ⟨p.id, p.ins, p.outs, normBody p.body⟩

theorem read_true : ∀ ds : List Decl,
    filetypesOf (ds.map readDecl) = filetypesOf ds ∧ structsOf (ds.map readDecl) = structsOf ds ∧
    callablesOf (ds.map readDecl) = (callablesOf ds).map readCallable
  | [] => ⟨rfl, rfl, rfl⟩
  | d :: ds => by
    obtain ⟨h1, h2, h3⟩ := read_true ds
    cases d <;> simp [readDecl, filetypesOf, structsOf, callablesOf, readCallable, h1, h2, h3]

theorem all_wfCallable_callablesOf : ∀ ds : List Decl, ds.all wfDecl = true →
    (callablesOf ds).all wfCallable = true
  | [], _ => rfl
  | d :: ds, h => by
    simp only [List.all_cons, Bool.and_eq_true] at h
    have ih := all_wfCallable_callablesOf ds h.2
    cases d with
    | filetype t => exact ih
    | struct s => exact ih
    | stage s => simp only [callablesOf, List.all_cons, ih, Bool.and_true]; exact h.1
    | pipeline p => simp only [callablesOf, List.all_cons, ih, Bool.and_true]; exact h.1

/-- formatting what was read from a source with everything in source order gives the formatted
file -/
theorem fmtFile_read (incs : List Bytes) (ds : List Decl) (call : Option Call2)
    (hw : wfSource incs ds call = true) :
    fmtFile (distribute incs (ds.map readDecl) (call.map normCall2)) =
      fmtFile (distribute incs ds call) := by
  obtain ⟨_, h2, h3⟩ := wfSource_parts hw
  obtain ⟨e1, e2, e3⟩ := read_true ds
  have h4 := all_wfCallable_callablesOf ds h2
  have hc : fmtCallables ((callablesOf ds).map readCallable) = fmtCallables (callablesOf ds) :=
    fmtCallables_map readCallable (callablesOf ds) (by
      intro c hc
      have hwc := List.all_eq_true.mp h4 c hc
      cases c with
      | stage s => rfl
      | pipeline p => exact fmtPipeline_of_raw p hwc)
  simp only [fmtFile, distribute, sp1, sp2, sp3, e1, e2, e3, hc, isEmpty_map', fmtCallOpt_norm _ call h3]

/-! ## the normal form -/

theorem wfCallable_norm (c : Callable) (h : wfCallable c = true) :
    wfCallable (normCallable c) = true ∧ normCallable (normCallable c) = normCallable c := by
  cases c with
  | stage s => exact ⟨h, rfl⟩
  | pipeline p =>
    obtain ⟨h1, h2⟩ := normPipeline_stable' p h
    exact ⟨h1, by simp only [normCallable, h2]⟩

theorem normFile_stable' (f : File) (hw : wfFile f = true) :
    wfFile (normFile f) = true ∧ normFile (normFile f) = normFile f := by
  obtain ⟨h1, h2, h3, h4, h5, h6⟩ := wfFile_parts hw
  have hcs : (f.callables.map normCallable).all wfCallable = true ∧
      (f.callables.map normCallable).map normCallable = f.callables.map normCallable := by
    constructor
    · rw [List.all_map, List.all_eq_true]
      intro c hc
      exact (wfCallable_norm c (List.all_eq_true.mp h4 c hc)).1
    · rw [List.map_map]
      apply List.map_congr_left
      intro c hc
      exact (wfCallable_norm c (List.all_eq_true.mp h4 c hc)).2
  have hk : wfCallOpt (f.call.map normCall2) = true ∧
      (f.call.map normCall2).map normCall2 = f.call.map normCall2 := by
    cases hcall : f.call with
    | none => exact ⟨rfl, rfl⟩
    | some c =>
      rw [hcall] at h5
      exact ⟨wfCall2_norm c h5, by simp only [Option.map_some, normCall2_idem]⟩
  constructor
  · simp only [wfFile, normFile, Bool.and_eq_true]
    refine ⟨⟨⟨⟨⟨h1, h2⟩, h3⟩, hcs.1⟩, hk.1⟩, ?_⟩
    simpa [isEmpty_map'] using h6
  · simp only [normFile, hcs.2, hk.2]

/-! ## a well-formed source distributes to a well-formed file -/

theorem all_wf_of : ∀ ds : List Decl, ds.all wfDecl = true →
    (filetypesOf ds).all wfFiletype = true ∧ (structsOf ds).all wfStruct = true
  | [], _ => ⟨rfl, rfl⟩
  | d :: ds, h => by
    simp only [List.all_cons, Bool.and_eq_true] at h
    obtain ⟨i1, i2⟩ := all_wf_of ds h.2
    cases d with
    | filetype t => exact ⟨by simp only [filetypesOf, List.all_cons, i1, Bool.and_true]; exact h.1, i2⟩
    | struct s => exact ⟨i1, by simp only [structsOf, List.all_cons, i2, Bool.and_true]; exact h.1⟩
    | stage s => exact ⟨i1, i2⟩
    | pipeline p => exact ⟨i1, i2⟩

theorem wfFile_distribute (incs : List Bytes) (ds : List Decl) (call : Option Call2)
    (hw : wfSource incs ds call = true) : wfFile (distribute incs ds call) = true := by
  obtain ⟨h1, h2, h3⟩ := wfSource_parts hw
  obtain ⟨h4, h5⟩ := all_wf_of ds h2
  have h6 := all_wfCallable_callablesOf ds h2
  simp only [wfSource, Bool.and_eq_true] at hw
  have hne := hw.2
  simp only [wfFile, distribute, Bool.and_eq_true]
  refine ⟨⟨⟨⟨⟨h1, h4⟩, h5⟩, h6⟩, h3⟩, ?_⟩
  cases ds with
  | nil => simpa [filetypesOf, structsOf, callablesOf] using hne
  | cons d ds => cases d <;> simp [filetypesOf, structsOf, callablesOf]

end Martian.FormatFile
