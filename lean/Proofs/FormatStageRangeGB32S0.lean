import Proofs.FormatStageRangeGB32Def

/-! C09: slices 0 … 15 of the finite obligation `gb32OK` (kernel evaluation, 4096 values each). -/

namespace Martian.FormatRes

set_option maxRecDepth 100000 in
theorem gb32Slice_0 : gb32Slice 0 = true := by decide +kernel
set_option maxRecDepth 100000 in
theorem gb32Slice_1 : gb32Slice 1 = true := by decide +kernel
set_option maxRecDepth 100000 in
theorem gb32Slice_2 : gb32Slice 2 = true := by decide +kernel
set_option maxRecDepth 100000 in
theorem gb32Slice_3 : gb32Slice 3 = true := by decide +kernel
set_option maxRecDepth 100000 in
theorem gb32Slice_4 : gb32Slice 4 = true := by decide +kernel
set_option maxRecDepth 100000 in
theorem gb32Slice_5 : gb32Slice 5 = true := by decide +kernel
set_option maxRecDepth 100000 in
theorem gb32Slice_6 : gb32Slice 6 = true := by decide +kernel
set_option maxRecDepth 100000 in
theorem gb32Slice_7 : gb32Slice 7 = true := by decide +kernel
set_option maxRecDepth 100000 in
theorem gb32Slice_8 : gb32Slice 8 = true := by decide +kernel
set_option maxRecDepth 100000 in
theorem gb32Slice_9 : gb32Slice 9 = true := by decide +kernel
set_option maxRecDepth 100000 in
theorem gb32Slice_10 : gb32Slice 10 = true := by decide +kernel
set_option maxRecDepth 100000 in
theorem gb32Slice_11 : gb32Slice 11 = true := by decide +kernel
set_option maxRecDepth 100000 in
theorem gb32Slice_12 : gb32Slice 12 = true := by decide +kernel
set_option maxRecDepth 100000 in
theorem gb32Slice_13 : gb32Slice 13 = true := by decide +kernel
set_option maxRecDepth 100000 in
theorem gb32Slice_14 : gb32Slice 14 = true := by decide +kernel
set_option maxRecDepth 100000 in
theorem gb32Slice_15 : gb32Slice 15 = true := by decide +kernel

end Martian.FormatRes
