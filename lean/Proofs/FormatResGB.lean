import Martian.FormatRes
import Proofs.FormatExpNum

/-!
C09: `formatGB` round trip.  The text `fmtGB mb` is exactly one numeric token
(NUM_INT when `mb` is a whole number of GB, NUM_FLOAT otherwise) and the exact
reading `roundUpTo(·, 1024)` of that token gives `mb` back, for every `int64`
sized `mb`.

The fraction digits depend only on `m = |mb| % 1024`; the facts needed about
them are checked for all 1024 values by kernel evaluation (`fracOK_all`).

Core Lean only.
-/

namespace Martian.FormatRes
open Martian.Lexer Martian.FormatExp

/-! ## the 1024 fractions -/

/-- the digits after the point -/
def fracDigits (m : Nat) : Bytes := (fracPart m).drop 1

/-- `.DDDD` is a point and 1 to 4 digits whose value, times 1024 and rounded up, is `m` -/
def fracOK (m : Nat) : Bool :=
  fracPart m == 0x2E :: fracDigits m && fracDigits m != [] && (fracDigits m).all isDigit &&
    decide ((fracDigits m).length ≤ 4) &&
    decide (decValFrom 0 (fracDigits m) < 10 ^ (fracDigits m).length) &&
    ceilDiv (decValFrom 0 (fracDigits m) * 1024) (10 ^ (fracDigits m).length) == m

set_option maxRecDepth 100000 in
theorem fracOK_all : (List.range 1024).all (fun m => m == 0 || fracOK m) = true := by decide +kernel

theorem fracOK_of {m : Nat} (h0 : m ≠ 0) (h : m < 1024) : fracOK m = true := by
  have := List.all_eq_true.1 fracOK_all m (List.mem_range.2 h)
  simpa [h0] using this

structure FracSpec (m : Nat) (ds : Bytes) : Prop where
  part : fracPart m = 0x2E :: ds
  ne : ds ≠ []
  dig : ∀ c ∈ ds, isDigit c = true
  len : ds.length ≤ 4
  lt : decValFrom 0 ds < 10 ^ ds.length
  val : ceilDiv (decValFrom 0 ds * 1024) (10 ^ ds.length) = m

theorem fracSpec {m : Nat} (h0 : m ≠ 0) (h : m < 1024) : FracSpec m (fracDigits m) := by
  have hk := fracOK_of h0 h
  simp only [fracOK, Bool.and_eq_true, beq_iff_eq, bne_iff_ne, ne_eq, decide_eq_true_eq,
    List.all_eq_true] at hk
  obtain ⟨⟨⟨⟨⟨h1, h2⟩, h3⟩, h4⟩, h5⟩, h6⟩ := hk
  exact ⟨h1, h2, h3, h4, h5, h6⟩

theorem fracPart_zero : fracPart 0 = [] := rfl

/-! ## decimal numerals -/

theorem decValFrom_append (n : Nat) (a b : Bytes) :
    decValFrom n (a ++ b) = decValFrom (decValFrom n a) b := by
  simp [decValFrom, List.foldl_append]

theorem decValFrom_shift : ∀ (ds : Bytes) (n : Nat),
    decValFrom n ds = n * 10 ^ ds.length + decValFrom 0 ds
  | [], n => by simp [decValFrom]
  | c :: ds, n => by
    rw [decValFrom_cons, decValFrom_cons, decValFrom_shift ds (10 * n + _),
      decValFrom_shift ds (10 * 0 + _), List.length_cons, Nat.pow_succ]
    simp only [Nat.mul_zero, Nat.zero_add, Nat.add_mul]
    rw [Nat.add_assoc]
    congr 1
    rw [Nat.mul_comm 10 n, Nat.mul_assoc, Nat.mul_comm 10]

theorem ceilDiv_add_mul (a b c : Nat) (hb : 0 < b) : ceilDiv (a * b + c) b = a + ceilDiv c b := by
  unfold ceilDiv
  have : a * b + c + b - 1 = (c + b - 1) + a * b := by omega
  rw [this, Nat.add_mul_div_right _ _ hb, Nat.add_comm]

/-! ## the text `sg ++ d1 ++ '.' :: ds` -/

theorem optSign_sign (sg ds : Bytes) (hsg : sg = [] ∨ sg = [0x2D]) (hne : ds ≠ [])
    (hd : ∀ c ∈ ds, isDigit c = true) (t : Bytes) : optSign (sg ++ ds ++ t) = (sg, ds ++ t) := by
  rcases hsg with rfl | rfl
  · cases ds with
    | nil => exact absurd rfl hne
    | cons x ds =>
      have hx := isDigit_not_sign (hd x (by simp))
      simp only [List.nil_append, List.cons_append, optSign, hx.1, hx.2, Bool.or_self,
        Bool.false_eq_true, ↓reduceIte]
  · rfl

theorem spanDigits_dot (d1 t : Bytes) (hd : ∀ c ∈ d1, isDigit c = true) :
    spanDigits (d1 ++ 0x2E :: t) = (d1, 0x2E :: t) := by
  rw [spanDigits_append t (by decide : isDigit 0x2E = false) d1, spanDigits_all d1 hd]
  rfl

theorem expPart_nil : expPart [] = none := rfl

/-- the float rule matches the whole text -/
theorem dec_matchFloat (sg d1 ds : Bytes) (hsg : sg = [] ∨ sg = [0x2D]) (hne1 : d1 ≠ [])
    (hd1 : ∀ c ∈ d1, isDigit c = true) (hne : ds ≠ []) (hd : ∀ c ∈ ds, isDigit c = true) :
    matchFloat false (sg ++ d1 ++ 0x2E :: ds) = some (sg ++ d1 ++ 0x2E :: ds) := by
  have h1 : optMinus (sg ++ d1 ++ 0x2E :: ds) = (sg, d1 ++ 0x2E :: ds) := by
    have := optMinus_sign sg (d1) hsg hd1
    rcases hsg with rfl | rfl
    · cases d1 with
      | nil => exact absurd rfl hne1
      | cons x d1 =>
        have hx := (isDigit_not_sign (hd1 x (by simp))).1
        simp only [List.nil_append, List.cons_append, optMinus, hx, Bool.false_eq_true, ↓reduceIte]
    · rfl
  have h2 := spanDigits_dot d1 ds hd1
  have h3 : fracExp (0x2E :: ds) = none := by
    simp only [fracExp, spanDigits_all ds hd, hne, ne_eq, not_false_eq_true, ↓reduceIte, expPart_nil,
      Option.map_none]
  have h4 : fracOnly (0x2E :: ds) = some (0x2E :: ds) := by
    simp [fracOnly, spanDigits_all ds hd, hne, boundary]
  rw [matchFloat_false, h1]
  simp only [h2, hne1, ↓reduceIte, h3, h4, Option.map_some, List.append_assoc]

/-- Go's float syntax reads it as `(d1 ds) · 10^-|ds|` -/
theorem dec_goFloatSyntax (sg d1 ds : Bytes) (hsg : sg = [] ∨ sg = [0x2D]) (hne1 : d1 ≠ [])
    (hd1 : ∀ c ∈ d1, isDigit c = true) (hd : ∀ c ∈ ds, isDigit c = true) :
    goFloatSyntax (sg ++ d1 ++ 0x2E :: ds) =
      some ⟨sg == [0x2D], decValFrom 0 (d1 ++ ds), -(ds.length : Int)⟩ := by
  have h1 := optSign_sign sg d1 hsg hne1 hd1 (0x2E :: ds)
  have h2 := spanDigits_dot d1 ds hd1
  have h3 := spanDigits_all ds hd
  have e : sg ++ d1 ++ 0x2E :: ds = sg ++ d1 ++ (0x2E :: ds) := rfl
  unfold goFloatSyntax
  rw [e, h1]
  simp only [h2, h3, hne1, ↓reduceIte, Bool.and_eq_true, decide_eq_true_eq, false_and]

/-! ## range checks -/

theorem pow20_le32 : 10 ^ 20 ≤ overflowThreshold true := by decide
theorem pow20_le64 : 10 ^ 20 ≤ overflowThreshold false := by decide +kernel

/-- a literal `mant · 10^-k` with `mant < 10^20` is in the range of both float types -/
theorem overflows_small (b : Bool) (neg : Bool) (mant k : Nat) (hm : mant < 10 ^ 20) :
    overflows b ⟨neg, mant, -(k : Int)⟩ = false := by
  have hT : 10 ^ 20 ≤ overflowThreshold b := by
    cases b
    · exact pow20_le64
    · exact pow20_le32
  have hk : 0 < 10 ^ k := Nat.pow_pos (by decide)
  have hlt : ¬ (mant ≥ overflowThreshold b * 10 ^ k) := by
    have : overflowThreshold b ≤ overflowThreshold b * 10 ^ k := Nat.le_mul_of_pos_right _ hk
    omega
  unfold overflows
  simp only
  split
  · rfl
  · split
    · rename_i h
      have hk0 : k = 0 := by omega
      subst hk0
      simp only [Int.natCast_zero, Int.neg_zero, Int.toNat_zero, Nat.pow_zero, Nat.mul_one] at hlt ⊢
      split
      · omega
      · simpa using hlt
    · split
      · rfl
      · simp only [Int.neg_neg, Int.toNat_natCast]
        simpa using hlt

theorem parseFloat_dec (b : Bool) (sg d1 ds : Bytes) (hsg : sg = [] ∨ sg = [0x2D]) (hne1 : d1 ≠ [])
    (hd1 : ∀ c ∈ d1, isDigit c = true) (hd : ∀ c ∈ ds, isDigit c = true)
    (hm : decValFrom 0 (d1 ++ ds) < 10 ^ 20) :
    parseFloat b (sg ++ d1 ++ 0x2E :: ds) =
      some ⟨sg == [0x2D], decValFrom 0 (d1 ++ ds), -(ds.length : Int)⟩ := by
  unfold parseFloat
  rw [dec_goFloatSyntax sg d1 ds hsg hne1 hd1 hd]
  simp only [overflows_small b _ _ _ hm, Bool.false_eq_true, ↓reduceIte]

/-- the text is one NUM_FLOAT token -/
theorem dec_numTok (sg d1 ds : Bytes) (hsg : sg = [] ∨ sg = [0x2D]) (hne1 : d1 ≠ [])
    (hd1 : ∀ c ∈ d1, isDigit c = true) (hne : ds ≠ []) (hd : ∀ c ∈ ds, isDigit c = true)
    (hm : decValFrom 0 (d1 ++ ds) < 10 ^ 20) :
    numTok false (sg ++ d1 ++ 0x2E :: ds) = .float (sg ++ d1 ++ 0x2E :: ds) := by
  simp only [numTok, dec_matchFloat sg d1 ds hsg hne1 hd1 hne hd,
    parseFloat_dec false sg d1 ds hsg hne1 hd1 hd hm, Option.isSome_some, ↓reduceIte]

/-! ## reading the decimal text back -/

theorem pow_le_4 {k : Nat} (h : k ≤ 4) : 10 ^ k ≤ 10000 := by
  have : 10 ^ k ≤ 10 ^ 4 := Nat.pow_le_pow_right (by decide) h
  simpa using this

theorem mant_bound {I D k : Nat} (hI : I < 2 ^ 53) (hk : k ≤ 4) (hD : D < 10 ^ k) :
    I * 10 ^ k + D < 10 ^ 20 := by
  have h1 := pow_le_4 hk
  have h2 : I * 10 ^ k + D < (I + 1) * 10 ^ k := by rw [Nat.add_mul]; omega
  have h3 : (I + 1) * 10 ^ k ≤ (I + 1) * 10000 := Nat.mul_le_mul_left _ h1
  have h4 : (2 : Nat) ^ 53 = 9007199254740992 := by decide
  have h5 : (10 : Nat) ^ 20 = 100000000000000000000 := by decide
  omega

theorem readGBFloat_dec (sg d1 ds : Bytes) (I m : Nat) (hsg : sg = [] ∨ sg = [0x2D])
    (hne1 : d1 ≠ []) (hd1 : ∀ c ∈ d1, isDigit c = true) (hv1 : decValFrom 0 d1 = I)
    (hI : I < 2 ^ 53) (hm : m ≠ 0) (S : FracSpec m ds) :
    readGBFloat (sg ++ d1 ++ 0x2E :: ds) =
      some (if (sg == [0x2D]) = true then -((I * 1024 + m : Nat) : Int) else ((I * 1024 + m : Nat) : Int)) := by
  have hmant : decValFrom 0 (d1 ++ ds) = I * 10 ^ ds.length + decValFrom 0 ds := by
    rw [decValFrom_append, hv1, decValFrom_shift]
  have hb := mant_bound hI S.len S.lt
  have hp := parseFloat_dec true sg d1 ds hsg hne1 hd1 S.dig (by rw [hmant]; exact hb)
  have hpos : 0 < 10 ^ ds.length := Nat.pow_pos (by decide)
  have hD : 1 ≤ decValFrom 0 ds := by
    cases hz : decValFrom 0 ds with
    | zero =>
      have := S.val
      rw [hz] at this
      simp only [ceilDiv, Nat.zero_mul, Nat.zero_add] at this
      rw [Nat.div_eq_of_lt (by omega)] at this
      exact absurd this.symm hm
    | succ d => omega
  have hk1 : 1 ≤ ds.length := by
    cases hds : ds with
    | nil => exact absurd hds S.ne
    | cons c r => simp
  have hnot : ¬ ((I * 10 ^ ds.length + decValFrom 0 ds) * 2 ^ 150 ≤ 10 ^ ds.length) := by
    have h1 := pow_le_4 S.len
    have h2 : (1 : Nat) * 2 ^ 150 ≤ (I * 10 ^ ds.length + decValFrom 0 ds) * 2 ^ 150 :=
      Nat.mul_le_mul_right _ (by omega)
    have h3 : (10000 : Nat) < 1 * 2 ^ 150 := by decide
    omega
  have hval : ceilDiv ((I * 10 ^ ds.length + decValFrom 0 ds) * 1024) (10 ^ ds.length) =
      I * 1024 + m := by
    have e : (I * 10 ^ ds.length + decValFrom 0 ds) * 1024 =
        (I * 1024) * 10 ^ ds.length + decValFrom 0 ds * 1024 := by
      rw [Nat.add_mul, Nat.mul_assoc, Nat.mul_comm (10 ^ ds.length), ← Nat.mul_assoc]
    rw [e, ceilDiv_add_mul _ _ _ hpos, S.val]
  have hlt0 : (-(ds.length : Int) < 0) = True := by
    simp only [eq_iff_iff, iff_true]; omega
  have hlen : ¬ (ds.length > (sg ++ d1 ++ 0x2E :: ds).length + 50) := by
    simp only [List.length_append, List.length_cons]; omega
  unfold readGBFloat
  rw [hp]
  simp only [hmant, Int.neg_neg, Int.toNat_natCast, hlt0, decide_true, Bool.true_and, hlen,
    decide_false, Bool.false_or, hnot, Bool.false_eq_true, ↓reduceIte, litMB, hval]
  have hge : ¬ (-(ds.length : Int) ≥ 0) := by omega
  simp only [hge, ↓reduceIte]

/-! ## fmtGB -/

theorem gbBody_nat (n : Nat) : gbBody (n : Int) = fmtNat (n / 1024) ++ fracPart (n % 1024) := by
  have h1 : (n : Int).tdiv 1024 = ((n / 1024 : Nat) : Int) := rfl
  have h2 : ((n : Int).tmod 1024).toNat = n % 1024 := rfl
  have h3 : ¬ (((n / 1024 : Nat) : Int) < 0) := by omega
  unfold gbBody
  rw [h1, h2]
  simp only [fmtInt, h3, ↓reduceIte, Int.toNat_natCast]

def gbSign (mb : Int) : Bytes := if mb < 0 then [0x2D] else []

theorem gbSign_cases (mb : Int) : gbSign mb = [] ∨ gbSign mb = [0x2D] := by
  unfold gbSign; split <;> simp

/-- not a whole number of GB: sign, whole part, point, 1 to 4 digits -/
theorem fmtGB_frac (mb : Int) (hm : mb.natAbs % 1024 ≠ 0) :
    fmtGB mb = gbSign mb ++ fmtNat (mb.natAbs / 1024) ++ 0x2E :: fracDigits (mb.natAbs % 1024) := by
  have h0 : mb ≠ 0 := by rintro rfl; simp at hm
  have S := fracSpec hm (Nat.mod_lt _ (by decide))
  simp only [fmtGB, h0, ↓reduceIte, gbBody_nat, S.part, gbSign, List.append_assoc]

/-- a whole number of GB prints like the integer -/
theorem fmtGB_whole (mb : Int) (hm : mb.natAbs % 1024 = 0) : fmtGB mb = fmtInt (mb / 1024) := by
  by_cases h0 : mb = 0
  · subst h0; decide
  · simp only [fmtGB, h0, ↓reduceIte, gbBody_nat, hm, fracPart_zero, List.append_nil, fmtInt]
    by_cases hneg : mb < 0
    · have h1 : mb / 1024 < 0 := by omega
      have h2 : (mb / 1024).natAbs = mb.natAbs / 1024 := by omega
      simp only [hneg, h1, ↓reduceIte, h2, List.cons_append, List.nil_append]
    · have h1 : ¬ (mb / 1024 < 0) := by omega
      have h2 : (mb / 1024).toNat = mb.natAbs / 1024 := by omega
      simp only [hneg, h1, ↓reduceIte, h2, List.nil_append]

/-- the token `fmtGB mb` is -/
def tokGB (mb : Int) : Tok :=
  if mb.natAbs % 1024 = 0 then .int (fmtGB mb) else .float (fmtGB mb)

theorem inInt64_whole (mb : Int) (hb : mb.natAbs < 2 ^ 63) : Martian.Lexer.inInt64 (mb / 1024) = true := by
  have h4 : (2 : Nat) ^ 63 = 9223372036854775808 := by decide
  simp only [Martian.Lexer.inInt64, Bool.and_eq_true, decide_eq_true_eq]
  omega

/-- **One token.**  `fmtGB mb` is exactly one NUM_INT or NUM_FLOAT token. -/
theorem numTok_fmtGB (mb : Int) (hb : mb.natAbs < 2 ^ 63) :
    numTok false (fmtGB mb) =
      if mb.natAbs % 1024 = 0 then .int (fmtGB mb) else .float (fmtGB mb) := by
  by_cases hm : mb.natAbs % 1024 = 0
  · simp only [hm, ↓reduceIte]
    rw [fmtGB_whole mb hm]
    exact (fmtInt_lex _ (inInt64_whole mb hb)).1
  · simp only [hm, ↓reduceIte]
    have S := fracSpec hm (Nat.mod_lt _ (by decide))
    have ⟨f1, f2, f3⟩ := fmtNat_spec (mb.natAbs / 1024)
    have h4 : (2 : Nat) ^ 63 = 9223372036854775808 := by decide
    have h5 : (2 : Nat) ^ 53 = 9007199254740992 := by decide
    rw [fmtGB_frac mb hm]
    refine dec_numTok _ _ _ (gbSign_cases mb) f2 f1 S.ne S.dig ?_
    rw [decValFrom_append, f3, decValFrom_shift]
    exact mant_bound (by omega) S.len S.lt

/-- **Round trip of the value.**  Reading the token back (exact decimal value,
rounded away from zero to 1/1024) gives `mb`. -/
theorem readGBTok_fmtGB (mb : Int) (hb : mb.natAbs < 2 ^ 63) : readGBTok (tokGB mb) = some mb := by
  by_cases hm : mb.natAbs % 1024 = 0
  · simp only [tokGB, hm, ↓reduceIte, readGBTok]
    rw [fmtGB_whole mb hm, (fmtInt_lex _ (inInt64_whole mb hb)).2]
    simp only [Option.map_some, Option.some.injEq]
    omega
  · simp only [tokGB, hm, ↓reduceIte, readGBTok]
    have S := fracSpec hm (Nat.mod_lt _ (by decide))
    have ⟨f1, f2, f3⟩ := fmtNat_spec (mb.natAbs / 1024)
    have h4 : (2 : Nat) ^ 63 = 9223372036854775808 := by decide
    have h5 : (2 : Nat) ^ 53 = 9007199254740992 := by decide
    rw [fmtGB_frac mb hm,
      readGBFloat_dec _ _ _ (mb.natAbs / 1024) (mb.natAbs % 1024) (gbSign_cases mb) f2 f1 f3
        (by omega) hm S]
    simp only [Option.some.injEq, gbSign]
    by_cases hneg : mb < 0
    · simp only [hneg, ↓reduceIte, beq_self_eq_true]; omega
    · have : (([] : Bytes) == [0x2D]) = false := by decide
      simp only [hneg, ↓reduceIte, this, Bool.false_eq_true]; omega

theorem readGB_fmtGB (mb : Int) (hb : mb.natAbs < 2 ^ 63) : readGB (fmtGB mb) = some mb := by
  have h := readGBTok_fmtGB mb hb
  unfold readGB
  rw [numTok_fmtGB mb hb]
  unfold tokGB at h
  by_cases hm : mb.natAbs % 1024 = 0
  · simp only [hm, ↓reduceIte] at h ⊢; exact h
  · simp only [hm, ↓reduceIte] at h ⊢; exact h

/-! ## F25: the `int64` conversion overflows -/

theorem fmtGBgo_eq (x : Int) (h : x.natAbs < 2 ^ 63) : fmtGBgo x = fmtGB x := by
  have : ¬ (x.natAbs ≥ 2 ^ 63) := by omega
  simp only [fmtGBgo, fmtGB, this, ↓reduceIte]

end Martian.FormatRes
