import Martian.ShellQuote

namespace Martian.ShellQuote

/-- Decidable well-formedness of an escape table: every non-NUL ASCII byte is
either copied (and is not special inside double quotes) or emitted as
backslash + itself (and is one of the four characters a backslash quotes). -/
def escShapeOK (tbl : EscTable) (b : UInt8) : Bool :=
  let e := escOf tbl b
  (e == [b] && !dqSpecial b) || (e == [0x5C, b] && dqSpecial b)

def TableOK (tbl : EscTable) : Bool :=
  (List.range 128).all fun n => n == 0 || escShapeOK tbl n.toUInt8

theorem tableOK_ascii {tbl : EscTable} (h : TableOK tbl = true) (b : UInt8)
    (hb : b < 0x80) (h0 : b ≠ 0) : escShapeOK tbl b = true := by
  unfold TableOK at h
  rw [List.all_eq_true] at h
  have hlt : b.toNat < 128 := by
    have := UInt8.lt_iff_toNat_lt.mp hb; simpa using this
  have := h b.toNat (List.mem_range.mpr hlt)
  have hne : b.toNat ≠ 0 := by
    intro e; apply h0; apply UInt8.toNat_inj.mp; simpa using e
  simp [hne] at this
  exact this

theorem ge80_not_special (b : UInt8) (h : ¬ b < 0x80) :
    (b == 0x22) = false ∧ (b == 0x24) = false ∧ (b == 0x60) = false ∧ (b == 0x5C) = false := by
  have h' : ¬ b.toNat < 128 := by
    intro hh; apply h; exact UInt8.lt_iff_toNat_lt.mpr (by simpa using hh)
  refine ⟨?_, ?_, ?_, ?_⟩ <;>
  · apply Bool.eq_false_iff.mpr
    intro e
    have := eq_of_beq e
    subst this
    exact h' (by decide)

theorem dqEvalBody_plain (b : UInt8) (X : Bytes)
    (h1 : (b == 0x22) = false) (h2 : (b == 0x24) = false) (h3 : (b == 0x60) = false)
    (h4 : (b == 0x5C) = false) :
    dqEvalBody (b :: X) = (dqEvalBody X).map fun (v, rest) => (b :: v, rest) := by
  rw [dqEvalBody.eq_def]; simp [h1, h2, h3, h4]

theorem dqEvalBody_escaped (c : UInt8) (X : Bytes) (h : dqSpecial c = true) :
    dqEvalBody (0x5C :: c :: X) = (dqEvalBody X).map fun (v, rest) => (c :: v, rest) := by
  rw [dqEvalBody.eq_def]; simp [h]

theorem dqEvalBody_esc {tbl : EscTable} (b : UInt8) (X : Bytes)
    (h : escShapeOK tbl b = true) :
    dqEvalBody (escOf tbl b ++ X) = (dqEvalBody X).map fun (v, rest) => (b :: v, rest) := by
  unfold escShapeOK at h
  simp only [Bool.or_eq_true, Bool.and_eq_true, Bool.not_eq_true', beq_iff_eq] at h
  rcases h with ⟨he, hs⟩ | ⟨he, hs⟩
  · rw [he]
    simp only [dqSpecial, Bool.or_eq_false_iff] at hs
    obtain ⟨⟨⟨h24, h60⟩, h22⟩, h5c⟩ := hs
    exact dqEvalBody_plain b X h22 h24 h60 h5c
  · rw [he]
    exact dqEvalBody_escaped b X hs

theorem isCont_ge (b : UInt8) (h : isCont b = true) : ¬ b < 0x80 := by
  unfold isCont at h
  simp only [Bool.and_eq_true, decide_eq_true_eq] at h
  intro hlt
  have h1 := UInt8.le_iff_toNat_le.mp h.1
  have h2 := UInt8.lt_iff_toNat_lt.mp hlt
  simp at h1 h2
  omega

theorem ge_of_le_lo (lo b : UInt8) (hlo : (0x80 : UInt8) ≤ lo) (h : lo ≤ b) : ¬ b < 0x80 := by
  intro hlt
  have h0 := UInt8.le_iff_toNat_le.mp hlo
  have h1 := UInt8.le_iff_toNat_le.mp h
  have h2 := UInt8.lt_iff_toNat_lt.mp hlt
  simp at h0 h2
  omega

theorem ok2_ge {b0 b1 : UInt8} (h : ok2 b0 b1 = true) : ¬ b1 < 0x80 := by
  unfold ok2 at h
  simp only [Bool.and_eq_true] at h
  exact isCont_ge _ h.2

theorem ok3_ge {b0 b1 b2 : UInt8} (h : ok3 b0 b1 b2 = true) : ¬ b1 < 0x80 ∧ ¬ b2 < 0x80 := by
  unfold ok3 at h
  simp only [Bool.and_eq_true] at h
  obtain ⟨⟨⟨_, hlo⟩, _⟩, hc2⟩ := h
  refine ⟨?_, isCont_ge _ hc2⟩
  split at hlo
  · exact ge_of_le_lo 0xA0 _ (by decide) (by simpa using hlo)
  · exact ge_of_le_lo 0x80 _ (by decide) (by simpa using hlo)

theorem ok4_ge {b0 b1 b2 b3 : UInt8} (h : ok4 b0 b1 b2 b3 = true) :
    ¬ b1 < 0x80 ∧ ¬ b2 < 0x80 ∧ ¬ b3 < 0x80 := by
  unfold ok4 at h
  simp only [Bool.and_eq_true] at h
  obtain ⟨⟨⟨⟨_, hlo⟩, _⟩, hc2⟩, hc3⟩ := h
  refine ⟨?_, isCont_ge _ hc2, isCont_ge _ hc3⟩
  split at hlo
  · exact ge_of_le_lo 0x90 _ (by decide) (by simpa using hlo)
  · exact ge_of_le_lo 0x80 _ (by decide) (by simpa using hlo)

/-- The `w-1` bytes following the lead byte of a valid multi-byte rune are all `≥ 0x80`. -/
theorem runeWidth_cont (b : UInt8) (r : Bytes) (w : Nat) (hb : ¬ b < 0x80)
    (h : runeWidth (b :: r) = some w) : ∀ x ∈ r.take (w - 1), ¬ x < 0x80 := by
  rcases r with _ | ⟨b1, _ | ⟨b2, _ | ⟨b3, t⟩⟩⟩ <;> simp only [runeWidth, hb, if_false] at h
  · cases h
  · split at h
    · rename_i h2; injection h with h; subst h
      intro x hx; simp at hx; subst hx; exact ok2_ge h2
    · cases h
  · split at h
    · rename_i h2; injection h with h; subst h
      intro x hx; simp at hx; subst hx; exact ok2_ge h2
    · split at h
      · rename_i h3; injection h with h; subst h
        intro x hx; simp at hx
        rcases hx with rfl | rfl
        · exact (ok3_ge h3).1
        · exact (ok3_ge h3).2
      · cases h
  · split at h
    · rename_i h2; injection h with h; subst h
      intro x hx; simp at hx; subst hx; exact ok2_ge h2
    · split at h
      · rename_i h3; injection h with h; subst h
        intro x hx; simp at hx
        rcases hx with rfl | rfl
        · exact (ok3_ge h3).1
        · exact (ok3_ge h3).2
      · split at h
        · rename_i h4; injection h with h; subst h
          intro x hx; simp at hx
          rcases hx with rfl | rfl | rfl
          · exact (ok4_ge h4).1
          · exact (ok4_ge h4).2.1
          · exact (ok4_ge h4).2.2
        · cases h

theorem dqEvalBody_close (rest : Bytes) : dqEvalBody (0x22 :: rest) = some ([], rest) := by
  rw [dqEvalBody.eq_def]; simp

/-- Generalised round trip: the quoted body followed by `"` and anything
evaluates to the original bytes and leaves that anything. -/
theorem dqEvalBody_quoteFrom {tbl : EscTable} (ht : TableOK tbl = true) :
    ∀ (s : Bytes) (k : Nat) (rest : Bytes),
      validFrom s k = true → (∀ x ∈ s.take k, ¬ x < 0x80) → (0 : UInt8) ∉ s →
      dqEvalBody (quoteFrom tbl s k ++ 0x22 :: rest) = some (s, rest) := by
  intro s
  induction s with
  | nil => intro k rest _ _ _; cases k <;> simp [quoteFrom, dqEvalBody_close]
  | cons b r ih =>
    intro k rest hv hk h0
    have h0r : (0 : UInt8) ∉ r := fun h => h0 (List.mem_cons_of_mem _ h)
    have hb0 : b ≠ 0 := fun e => h0 (by simp [e])
    cases k with
    | succ k =>
      have hb : ¬ b < 0x80 := hk b (by simp)
      obtain ⟨h22, h24, h60, h5c⟩ := ge80_not_special b hb
      simp only [quoteFrom, List.cons_append]
      rw [dqEvalBody_plain b _ h22 h24 h60 h5c]
      simp only [validFrom] at hv
      rw [ih k rest hv (fun x hx => hk x (by simp [List.take_succ_cons, hx])) h0r]
      rfl
    | zero =>
      by_cases hb : b < 0x80
      · have hw : runeWidth (b :: r) = some 1 := by simp [runeWidth, hb]
        simp only [validFrom, hw] at hv
        simp only [quoteFrom, hb, if_true, List.append_assoc]
        rw [dqEvalBody_esc b _ (tableOK_ascii ht b hb hb0)]
        rw [ih 0 rest hv (by simp) h0r]
        rfl
      · simp only [validFrom] at hv
        cases hw : runeWidth (b :: r) with
        | none => simp [hw] at hv
        | some w =>
          simp only [hw] at hv
          obtain ⟨h22, h24, h60, h5c⟩ := ge80_not_special b hb
          simp only [quoteFrom, hb, if_false, hw, List.cons_append]
          rw [dqEvalBody_plain b _ h22 h24 h60 h5c]
          rw [ih (w - 1) rest hv (runeWidth_cont b r w hb hw) h0r]
          rfl

end Martian.ShellQuote
