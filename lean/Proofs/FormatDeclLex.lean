import Proofs.FormatDeclParse
import Proofs.FormatCallLex

/-!
C09: the lexing layer of the round trip for type names, parameter lists, struct
members, `struct` and `filetype` declarations: the printed text lexes as the
token sequences of Proofs/FormatDeclToks.lean — for ARBITRARY column widths and
whatever text follows — and the round trips
`parseStruct (fmtStruct s) = some s`, `parseFiletype (fmtFiletype t) = some t`,
`parseParams (fmtParams mw tw iw hw (ins ++ outs)) = some (ins ++ outs)`.

Core Lean only.
-/

namespace Martian.FormatDecl
open Martian.Lexer (Bytes isWord)
open Martian.Format (quoteString)
open Martian.FormatExp
open Martian.FormatCall (LexOK.wordSp wordEnd_spaces)

/-! ## texts that start with a byte which ends a word -/

/-- the first byte is not a word character -/
def startsNW : Bytes → Bool
  | c :: _ => !isWord c
  | [] => false

theorem startsNW_wordEnd {s : Bytes} (h : startsNW s = true) (rest : Bytes) : WordEnd (s ++ rest) := by
  cases s with
  | nil => simp [startsNW] at h
  | cons c r => exact WordEnd.cons _ _ (by simpa [startsNW] using h)

theorem startsNW_append {s : Bytes} (t : Bytes) (h : startsNW s = true) : startsNW (s ++ t) = true := by
  cases s with
  | nil => simp [startsNW] at h
  | cons c r => simpa [startsNW] using h

theorem startsNW_sp (t : Bytes) : startsNW (0x20 :: t) = true := by
  show (!isWord 0x20) = true; decide

theorem startsNW_comma (t : Bytes) : startsNW (0x2C :: t) = true := by
  show (!isWord 0x2C) = true; decide

theorem startsNW_spaces (n : Nat) {s : Bytes} (h : startsNW s = true) : startsNW (spaces n ++ s) = true := by
  cases n with
  | zero => simpa [spaces] using h
  | succ n => rw [spaces, List.replicate_succ, List.cons_append]; exact startsNW_sp _

/-- padding, one more space, and anything -/
theorem startsNW_pad (n : Nat) (t : Bytes) : startsNW (spaces n ++ 0x20 :: t) = true :=
  startsNW_spaces n (startsNW_sp t)

/-! ## types -/

theorem lexOK_brackets (R : Bytes → Prop) : ∀ n : Nat, LexOK (brackets n) (toksArr n) R
  | 0 => LexOK.nil R
  | n + 1 =>
    ((LexOK.pair (o := 0x5B) (c := 0x5D) (by decide) (by decide) AnyRest).append (lexOK_brackets R n)
      (fun _ _ => trivial)).congr (by simp [brackets]) (by simp [toksArr])

theorem wordEnd_brackets (n : Nat) (rest : Bytes) (h : WordEnd rest) : WordEnd (brackets n ++ rest) := by
  cases n with
  | zero => simpa [brackets] using h
  | succ n => exact WordEnd.cons _ _ (by decide)

theorem builtin_lex {w : Bytes} (h : isBuiltin w = true) :
    w.all isWord = true ∧ wordLexeme w = .tok (.reserved w) := by
  rcases isBuiltin_cases h with e | e | e | e | e | e <;> subst e <;> decide

/-- a base type name: a builtin keyword or a non-empty dotted list of identifiers -/
def wfName (n : List Bytes) : Bool :=
  match n with
  | [] => false
  | [w] => isBuiltin w || isIdent w
  | c :: r => (c :: r).all isIdent

theorem wfType_name {t : TypeId} (h : wfType t = true) : wfName t.tname = true := by
  simp only [wfType, Bool.and_eq_true] at h
  have h1 := h.1.1
  match hn : t.tname with
  | [] => rw [hn] at h1; simp at h1
  | [w] =>
    rw [hn] at h1
    simp only [Bool.or_eq_true, Bool.and_eq_true, beq_iff_eq] at h1
    simp only [wfName, isBuiltin, Bool.or_eq_true, beq_iff_eq]
    rcases h1 with (h1 | h1) | h1
    · exact Or.inl (Or.inl h1)
    · exact Or.inl (Or.inr h1.1)
    · exact Or.inr h1
  | c :: d :: r => rw [hn] at h1; simpa [wfName] using h1

theorem wordEnd_dotted (out : List Bytes) (rest : Bytes) (h : WordEnd rest) :
    WordEnd (dotted out ++ rest) := by
  cases out with
  | nil => exact h
  | cons y out => exact WordEnd.cons _ _ (by decide)

theorem lexOK_idents (c : Bytes) (r : List Bytes) (h : (c :: r).all isIdent = true) :
    LexOK (joinDots (c :: r)) (.id c :: toksDots r) WordEnd := by
  simp only [List.all_cons, Bool.and_eq_true] at h
  exact ((LexOK.ident h.1).append (LexOK.dotted r h.2) (wordEnd_dotted r)).congr
    (by simp [joinDots]) (by simp)

theorem lexOK_base (n : List Bytes) (hw : wfName n = true) : LexOK (joinDots n) (toksBase n) WordEnd := by
  match n, hw with
  | [w], hw =>
    by_cases hb : isBuiltin w = true
    · have hl := builtin_lex hb
      exact (LexOK.word hl.1 hl.2).congr (by simp [joinDots, dotted]) (by simp [toksBase, hb, toksDots])
    · have hi : isIdent w = true := by
        simp only [wfName, Bool.or_eq_true] at hw
        rcases hw with h | h
        · exact absurd h hb
        · exact h
      exact (lexOK_idents w [] (by simp [hi])).congr rfl (by simp [toksBase, hb])
  | c :: d :: r, hw =>
    exact (lexOK_idents c (d :: r) hw).congr rfl (by simp [toksBase])

theorem wordLexeme_map' : wordLexeme sMap = .tok (.reserved sMap) := by decide
theorem all_isWord_map' : sMap.all isWord = true := by decide

/-- **Lexing layer, type names.**  Followed by the end of the input or a byte
that is not a word character. -/
theorem lexOK_fmtType (t : TypeId) (hw : wfType t = true) : LexOK (fmtType t) (toksType t) WordEnd := by
  have hn := lexOK_base t.tname (wfType_name hw)
  by_cases hm : 0 < t.mapDim
  · have h1 : LexOK sMap [.reserved sMap] WordEnd := LexOK.word all_isWord_map' wordLexeme_map'
    have h2 : LexOK [0x3C] [tLT] AnyRest := LexOK.punct (by decide) _
    have h45 : LexOK (brackets (t.mapDim - 1) ++ [0x3E]) (toksArr (t.mapDim - 1) ++ [tGT]) AnyRest :=
      (lexOK_brackets AnyRest _).append (LexOK.punct (by decide) _) (fun _ _ => trivial)
    have h6 := lexOK_brackets WordEnd t.arrayDim
    have h := ((((h1.append h2 (fun rest _ => WordEnd.cons _ _ (by decide))).append hn
      (fun _ _ => trivial)).append h45 (fun rest _ => by
        cases hk : t.mapDim - 1 with
        | zero => exact WordEnd.cons _ _ (by decide)
        | succ k => exact WordEnd.cons _ _ (by decide))).append h6 (fun _ _ => trivial))
    exact h.congr (by simp [fmtType, hm]) (by simp [toksType, hm])
  · exact (hn.append (lexOK_brackets WordEnd t.arrayDim) (wordEnd_brackets _)).congr
      (by simp [fmtType, hm]) (by simp [toksType, hm])

theorem brackets_length (n : Nat) : (brackets n).length = 2 * n := by
  induction n with
  | zero => rfl
  | succ n ih => simp [brackets, ih]; omega

/-- `strlen` is the length of the printed name -/
theorem typeLen_eq (t : TypeId) : typeLen t = (fmtType t).length := by
  simp only [typeLen, fmtType]
  split <;> simp [brackets_length, sMap] <;> omega

/-! ## help text, out name, comma -/

theorem lexOK_commaNl : LexOK [0x2C, 0x0A] [tComma] AnyRest :=
  ((LexOK.punct (c := 0x2C) (by decide) AnyRest).append
    (LexOK.spaces (ws := [0x0A]) (by decide) AnyRest) (fun _ _ => trivial)).congr (by simp) (by simp)

/-- white space and a string literal -/
theorem lexOK_padStr (ws s : Bytes) (hws : ws.all isSp = true)
    (hs : Martian.ShellQuote.validUtf8 s = true) :
    LexOK (ws ++ quoteString s) [.str (quoteString s)] AnyRest :=
  ((LexOK.spaces hws AnyRest).append (LexOK.str hs AnyRest) (fun _ _ => trivial)).congr rfl (by simp)

theorem quoteString_nil : quoteString [] = [0x22, 0x22] := by decide

/-! ## one parameter -/

theorem mode_lex (p : Param) :
    (mode p).all isWord = true ∧ wordLexeme (mode p) = .tok (.reserved (mode p)) := by
  unfold mode; split <;> decide

theorem lexOK_helpPart (tw iw : Nat) (p : Param) (hh : Martian.ShellQuote.validUtf8 p.help = true) :
    LexOK (helpPart tw iw p) (if p.help = [] then [] else [.str (quoteString p.help)]) AnyRest := by
  unfold helpPart
  by_cases h1 : p.help = []
  · simp only [h1, ↓reduceIte]; exact LexOK.nil _
  · simp only [h1, ↓reduceIte]
    have hws : ((if shownId p = [] then spaces (tw - typeLen p.type) ++ [0x20] else []) ++
        spaces (iw - (shownId p).length) ++ [0x20, 0x20]).all isSp = true := by
      split <;> simp [List.all_append, all_isSp_spaces] <;> decide
    exact (lexOK_padStr _ _ hws hh).congr (by simp) rfl

theorem lexOK_outNamePart (iw hw : Nat) (p : Param)
    (ho : Martian.ShellQuote.validUtf8 (getOutName p) = true) :
    LexOK (outNamePart iw hw p)
      (if getOutName p = [] then []
       else (if p.help = [] then [.str (quoteString [])] else []) ++ [.str (quoteString (getOutName p))])
      AnyRest := by
  unfold outNamePart
  by_cases h2 : getOutName p = []
  · simp only [h2, ↓reduceIte]; exact LexOK.nil _
  · simp only [h2, ↓reduceIte]
    have hpl : LexOK (if p.help = [] then spaces (iw - (shownId p).length) ++ [0x20, 0x20, 0x22, 0x22] else [])
        (if p.help = [] then [.str (quoteString [])] else []) AnyRest := by
      split
      · have hws : (spaces (iw - (shownId p).length) ++ [0x20, 0x20]).all isSp = true := by
          simp [List.all_append, all_isSp_spaces]; decide
        exact (lexOK_padStr _ [] hws (by decide)).congr (by simp [quoteString_nil]) rfl
      · exact LexOK.nil _
    have hws : (spaces (hw - p.help.length) ++ [0x20, 0x20]).all isSp = true := by
      simp [List.all_append, all_isSp_spaces]; decide
    exact (hpl.append (lexOK_padStr _ _ hws ho) (fun _ _ => trivial)).congr (by simp) rfl

/-- what follows the id of a parameter starts with a space or is the comma -/
theorem startsNW_paramTail (tw iw hw : Nat) (p : Param) :
    startsNW (helpPart tw iw p ++ outNamePart iw hw p ++ [0x2C, 0x0A]) = true := by
  unfold helpPart outNamePart
  by_cases h1 : p.help = []
  · by_cases h2 : getOutName p = []
    · simp only [h1, h2, ↓reduceIte, List.nil_append]; exact startsNW_comma _
    · simp only [h1, h2, ↓reduceIte, List.nil_append, List.append_assoc, List.cons_append]
      exact startsNW_pad _ _
  · simp only [h1, ↓reduceIte]
    by_cases h3 : shownId p = []
    · simp only [h3, ↓reduceIte, List.append_assoc, List.cons_append, List.nil_append]
      exact startsNW_pad _ _
    · simp only [h3, ↓reduceIte, List.append_assoc, List.cons_append, List.nil_append]
      exact startsNW_pad _ _

theorem toksTail_split (h o : Bytes) :
    (if h = [] then [] else [Tok.str (quoteString h)]) ++
      (if o = [] then [] else (if h = [] then [Tok.str (quoteString [])] else []) ++ [Tok.str (quoteString o)]) ++
      [tComma] = toksTail h o := by
  unfold toksTail
  by_cases h1 : h = [] <;> by_cases h2 : o = [] <;> simp [h1, h2]

theorem validUtf8_getOutName (p : Param) (h : Martian.ShellQuote.validUtf8 p.outName = true) :
    Martian.ShellQuote.validUtf8 (getOutName p) = true := by
  unfold getOutName; split
  · exact h
  · decide

/-- **Lexing layer, one parameter**: any widths, any following text. -/
theorem lexOK_fmtParam (mw tw iw hw : Nat) (p : Param) (hp : wfParam p = true) :
    LexOK (fmtParam mw tw iw hw p) (toksParam p) AnyRest := by
  simp only [wfParam, Bool.and_eq_true, Bool.or_eq_true, beq_iff_eq] at hp
  obtain ⟨⟨⟨⟨ht, hi⟩, hh⟩, ho⟩, _⟩ := hp
  have hml := mode_lex p
  -- mode column
  have hA : LexOK (indent ++ mode p ++ (spaces (mw - (mode p).length) ++ [0x20])) [.reserved (mode p)]
      AnyRest :=
    (((LexOK.spaces all_isSp_indent AnyRest).append (LexOK.word hml.1 hml.2) (fun _ _ => trivial)).append
      (LexOK.spaces (ws := spaces (mw - (mode p).length) ++ [0x20])
        (all_isSp_append (all_isSp_spaces _) (by decide)) AnyRest)
      (fun rest _ => by rw [List.append_assoc]; exact wordEnd_spaces _ _)).congr (by simp) (by simp)
  have hB := lexOK_fmtType p.type ht
  -- help, out name, comma
  have hDEF := ((lexOK_helpPart tw iw p hh).append
    (lexOK_outNamePart iw hw p (validUtf8_getOutName p ho)) (fun _ _ => trivial)).append lexOK_commaNl
    (fun _ _ => trivial)
  rw [toksTail_split] at hDEF
  have hnw := startsNW_paramTail tw iw hw p
  -- id column
  have hC : LexOK ((if shownId p = [] then [] else spaces (tw - typeLen p.type) ++ [0x20] ++ shownId p) ++
      (helpPart tw iw p ++ outNamePart iw hw p ++ [0x2C, 0x0A]))
      ((if shownId p = [] then [] else [.id p.id]) ++ toksTail p.help (getOutName p)) AnyRest := by
    by_cases hs : shownId p = []
    · simp only [hs, ↓reduceIte, List.nil_append]; exact hDEF
    · simp only [hs, ↓reduceIte]
      have hid : isIdent p.id = true := by
        rcases hi with h | h
        · exact h
        · exact absurd (by simp [shownId, h.2]) hs
      have hsid : shownId p = p.id := shownId_of_ident p hid
      rw [hsid]
      have hpad : LexOK (spaces (tw - typeLen p.type) ++ [0x20]) [] AnyRest :=
        LexOK.spaces (all_isSp_append (all_isSp_spaces _) (by decide)) _
      exact ((hpad.append (LexOK.ident hid) (fun _ _ => trivial)).append hDEF
        (fun rest _ => startsNW_wordEnd hnw rest)).congr rfl (by simp)
  have hnwC : startsNW ((if shownId p = [] then [] else spaces (tw - typeLen p.type) ++ [0x20] ++ shownId p) ++
      (helpPart tw iw p ++ outNamePart iw hw p ++ [0x2C, 0x0A])) = true := by
    by_cases hs : shownId p = []
    · simp only [hs, ↓reduceIte, List.nil_append]; exact hnw
    · simp only [hs, ↓reduceIte, List.append_assoc, List.cons_append, List.nil_append]
      exact startsNW_pad _ _
  exact ((hA.append hB (fun _ _ => trivial)).append hC
    (fun rest _ => startsNW_wordEnd hnwC rest)).congr (by simp [fmtParam]) (by simp [toksParam])

/-- **Lexing layer, parameter lists**: any widths, any following text. -/
theorem lexOK_fmtParams (mw tw iw hw : Nat) : ∀ ps : List Param, ps.all wfParam = true →
    LexOK (fmtParams mw tw iw hw ps) (toksParams ps) AnyRest
  | [], _ => (LexOK.nil _).congr rfl rfl
  | p :: ps, h => by
    simp only [List.all_cons, Bool.and_eq_true] at h
    exact ((lexOK_fmtParam mw tw iw hw p h.1).append (lexOK_fmtParams mw tw iw hw ps h.2)
      (fun _ _ => trivial)).congr rfl rfl

theorem fmtParams_append (mw tw iw hw : Nat) (a b : List Param) :
    fmtParams mw tw iw hw (a ++ b) = fmtParams mw tw iw hw a ++ fmtParams mw tw iw hw b := by
  induction a with
  | nil => rfl
  | cons p a ih => simp [fmtParams, ih]

/-! ## struct members -/

theorem startsNW_memberTail (iw hw : Nat) (m : Member) :
    startsNW ((if m.help = [] ∧ m.outName = [] then []
        else spaces (iw - m.id.length) ++ [0x20] ++ quoteString m.help) ++
      (if m.outName = [] then [] else spaces (hw - m.help.length) ++ [0x20] ++ quoteString m.outName) ++
      [0x2C, 0x0A]) = true := by
  by_cases h1 : m.help = [] ∧ m.outName = []
  · simp only [h1, and_self, ↓reduceIte, List.nil_append]; exact startsNW_comma _
  · simp only [h1, ↓reduceIte, List.append_assoc, List.cons_append, List.nil_append]
    exact startsNW_pad _ _

/-- **Lexing layer, one struct member**: any widths, any following text. -/
theorem lexOK_fmtMember (tw iw hw : Nat) (m : Member) (hm : wfMember m = true) :
    LexOK (fmtMember tw iw hw m) (toksMember m) AnyRest := by
  simp only [wfMember, Bool.and_eq_true] at hm
  obtain ⟨⟨⟨ht, hi⟩, hh⟩, ho⟩ := hm
  have hA : LexOK indent [] AnyRest := LexOK.spaces all_isSp_indent _
  have hB := lexOK_fmtType m.type ht
  have hS : LexOK (spaces (tw - typeLen m.type) ++ [0x20]) [] AnyRest :=
    LexOK.spaces (all_isSp_append (all_isSp_spaces _) (by decide)) _
  have hI := LexOK.ident hi
  have hH : LexOK (if m.help = [] ∧ m.outName = [] then []
      else spaces (iw - m.id.length) ++ [0x20] ++ quoteString m.help)
      (if m.help = [] ∧ m.outName = [] then [] else [.str (quoteString m.help)]) AnyRest := by
    split
    · exact LexOK.nil _
    · exact lexOK_padStr _ _ (all_isSp_append (all_isSp_spaces _) (by decide)) hh
  have hO : LexOK (if m.outName = [] then []
      else spaces (hw - m.help.length) ++ [0x20] ++ quoteString m.outName)
      (if m.outName = [] then [] else [.str (quoteString m.outName)]) AnyRest := by
    split
    · exact LexOK.nil _
    · exact lexOK_padStr _ _ (all_isSp_append (all_isSp_spaces _) (by decide)) ho
  have hT := (hH.append hO (fun _ _ => trivial)).append lexOK_commaNl (fun _ _ => trivial)
  have hnw := startsNW_memberTail iw hw m
  have h := (((hA.append hB (fun _ _ => trivial)).append hS
    (fun rest _ => by rw [List.append_assoc]; exact wordEnd_spaces _ _)).append hI
    (fun _ _ => trivial)).append hT (fun rest _ => startsNW_wordEnd hnw rest)
  exact h.congr (by simp [fmtMember]) (by simp [toksMember, toksTail])

theorem lexOK_fmtMembers (tw iw hw : Nat) : ∀ ms : List Member, ms.all wfMember = true →
    LexOK (fmtMembers tw iw hw ms) (toksMembers ms) AnyRest
  | [], _ => (LexOK.nil _).congr rfl rfl
  | m :: ms, h => by
    simp only [List.all_cons, Bool.and_eq_true] at h
    exact ((lexOK_fmtMember tw iw hw m h.1).append (lexOK_fmtMembers tw iw hw ms h.2)
      (fun _ _ => trivial)).congr rfl rfl

/-! ## declarations -/

theorem wordLexeme_struct : wordLexeme sStruct = .tok (.id sStruct) := by decide
theorem all_isWord_struct : sStruct.all isWord = true := by decide
theorem wordLexeme_filetype : wordLexeme sFiletype = .tok (.id sFiletype) := by decide
theorem all_isWord_filetype : sFiletype.all isWord = true := by decide

theorem lexOK_closeNl (c : UInt8) (hc : isPunct c = true) : LexOK [c, 0x0A] [.punct c] AnyRest :=
  ((LexOK.punct hc AnyRest).append (LexOK.spaces (ws := [0x0A]) (by decide) AnyRest)
    (fun _ _ => trivial)).congr (by simp) (by simp)

theorem lexOK_fmtStruct (s : Struct) (hw : wfStruct s = true) :
    LexOK (fmtStruct s) (toksStruct s) AnyRest := by
  simp only [wfStruct, Bool.and_eq_true] at hw
  have h1 : LexOK (sStruct ++ [0x20]) [.id sStruct] AnyRest :=
    LexOK.wordSp all_isWord_struct wordLexeme_struct
  have h2 := LexOK.ident hw.1.1
  have h3 : LexOK [0x28, 0x0A] [tLParen] AnyRest := lexOK_closeNl _ (by decide)
  have h4 := lexOK_fmtMembers (structWidths s.members).1 (structWidths s.members).2.1
    (structWidths s.members).2.2 s.members hw.2
  have h5 : LexOK [0x29, 0x0A] [tRParen] AnyRest := lexOK_closeNl _ (by decide)
  have h := (((h1.append h2 (fun _ _ => trivial)).append h3
    (fun rest _ => WordEnd.cons _ _ (by decide))).append h4 (fun _ _ => trivial)).append h5
    (fun _ _ => trivial)
  exact h.congr (by simp [fmtStruct]) (by simp [toksStruct])

theorem lexOK_fmtFiletype (t : Filetype) (hw : wfFiletype t = true) :
    LexOK (fmtFiletype t) (toksFiletype t) AnyRest := by
  obtain ⟨n⟩ := t
  simp only [wfFiletype, Bool.and_eq_true, Bool.not_eq_true', List.isEmpty_eq_false_iff] at hw
  match n, hw with
  | c :: r, hw =>
    have h1 : LexOK (sFiletype ++ [0x20]) [.id sFiletype] AnyRest :=
      LexOK.wordSp all_isWord_filetype wordLexeme_filetype
    have h2 := lexOK_idents c r hw.2
    have h3 : LexOK [0x3B, 0x0A] [tSemi] AnyRest := lexOK_closeNl _ (by decide)
    have h := ((h1.append h2 (fun _ _ => trivial)).append h3
      (fun rest _ => WordEnd.cons _ _ (by decide)))
    exact h.congr (by simp [fmtFiletype]) (by simp [toksFiletype])

theorem lexAll_of_lexOK {s : Bytes} {ts : List Tok} (h : LexOK s ts AnyRest) : lexAll s = some ts := by
  have h' := h [] trivial
  rw [List.append_nil, lexAll_nil] at h'
  rw [h']; simp

/-- **Lexing layer.**  The printed text of a well-formed `struct` declaration lexes as `toksStruct s`. -/
theorem lexAll_fmtStruct (s : Struct) (hw : wfStruct s = true) :
    lexAll (fmtStruct s) = some (toksStruct s) := lexAll_of_lexOK (lexOK_fmtStruct s hw)

theorem lexAll_fmtFiletype (t : Filetype) (hw : wfFiletype t = true) :
    lexAll (fmtFiletype t) = some (toksFiletype t) := lexAll_of_lexOK (lexOK_fmtFiletype t hw)

theorem lexAll_fmtParams (mw tw iw hw : Nat) (ps : List Param) (h : ps.all wfParam = true) :
    lexAll (fmtParams mw tw iw hw ps) = some (toksParams ps) :=
  lexAll_of_lexOK (lexOK_fmtParams mw tw iw hw ps h)

/-- **Round trip, `struct`.** -/
theorem parseStruct_fmtStruct (s : Struct) (hw : wfStruct s = true) :
    parseStruct (fmtStruct s) = some s := by
  simp only [parseStruct, lexAll_fmtStruct s hw, Option.bind_some]
  exact parseStructToks_toks s hw

/-- **Round trip, `filetype`.** -/
theorem parseFiletype_fmtFiletype (t : Filetype) (hw : wfFiletype t = true) :
    parseFiletype (fmtFiletype t) = some t := by
  simp only [parseFiletype, lexAll_fmtFiletype t hw, Option.bind_some]
  exact parseFiletypeToks_toks t hw

/-- **Round trip, parameter block**: inputs then outputs, printed with ANY column widths. -/
theorem parseParams_fmtParams (mw tw iw hw : Nat) (ins outs : List Param)
    (hwi : ins.all wfParam = true) (hwo : outs.all wfParam = true)
    (hi : ins.all (fun p => !p.out) = true) (ho : outs.all (fun p => p.out) = true) :
    parseParams (fmtParams mw tw iw hw (ins ++ outs)) = some (ins ++ outs) := by
  have hall : (ins ++ outs).all wfParam = true := by rw [List.all_append, hwi, hwo]; rfl
  simp only [parseParams, lexAll_fmtParams mw tw iw hw _ hall, Option.bind_some]
  exact parseParamsToks_toks ins outs hwi hwo hi ho

/-! ## widths -/

theorem wmax_assoc (a b c : Nat × Nat × Nat × Nat) : wmax (wmax a b) c = wmax a (wmax b c) := by
  simp [wmax, Nat.max_assoc]

theorem wmax_zero_left (a : Nat × Nat × Nat × Nat) : wmax (0, 0, 0, 0) a = a := by
  simp [wmax]

theorem wmax_zero_right (a : Nat × Nat × Nat × Nat) : wmax a (0, 0, 0, 0) = a := by
  simp [wmax]

/-- `getWidths` of a concatenation = `measureParamsWidths` of the parts -/
theorem widths_append (a b : List Param) : widths (a ++ b) = wmax (widths a) (widths b) := by
  induction a with
  | nil => simp [widths, wmax_zero_left]
  | cons p a ih => simp [widths, ih, wmax_assoc]

theorem maxWidths_widths (pss : List (List Param)) :
    maxWidths (pss.map widths) = widths pss.flatten := by
  induction pss with
  | nil => rfl
  | cons ps pss ih => simp [maxWidths, ih, widths_append]

/-- the type column of `widths` is wide enough for every parameter of the list
(so `strings.Repeat` in `paramFormat` never sees a negative count) -/
theorem typeLen_le_widths (ps : List Param) (p : Param) (h : p ∈ ps) : typeLen p.type ≤ (widths ps).2.1 := by
  induction ps with
  | nil => cases h
  | cons q ps ih =>
    simp only [widths, wmax, widths1]
    rcases List.mem_cons.1 h with rfl | h
    · exact Nat.le_max_left _ _
    · exact Nat.le_trans (ih h) (Nat.le_max_right _ _)

end Martian.FormatDecl
