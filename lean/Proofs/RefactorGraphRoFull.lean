/-
C19 — the whole edit `removeOutput` on an unreferenced output, at the level of
the resolved call graph: the parameter, then the cascade of the pipeline inputs
it leaves unbound — the cascade's side conditions derived from the analyses.
-/
import Proofs.RefactorGraphRo
import Proofs.RefactorLoop

namespace Proofs.RefactorGraph
open Martian.Refactor

section RoFull
variable (x o : String)

/-- the cascade of `removeOutputPlain` -/
def roPairs (p : Program) : List Pair :=
  match p.find? x with
  | some xc =>
    if xc.isPipe then removeInputClosure p (closureFuel p) ((unboundInputs p xc [o] []).map (fun i => (x, i))) []
    else []
  | none => []

theorem FRo_le (c : Callable) : CalLe (FRo x o c) c := by
  have hf := FRo_fields x o c
  refine ⟨hf.1, hf.2.1, ?_, hf.2.2.2.1 ▸ List.Sublist.refl _, ?_, ?_⟩
  · unfold FRo
    split
    · split
      · exact removeFirstBind_sublist o c.ret
      · exact List.Sublist.refl _
    · exact List.Sublist.refl _
  · simp only [callIds, hf.2.2.1]; exact List.Sublist.refl _
  · intro k hk
    rw [hf.2.2.1] at hk
    exact ⟨k, hk, CallLe.refl k⟩

theorem remove_output_plain_graph (ti : TypeInfo) (p : Program) (hok : RemOutOK x o ti p = true)
    (hs : StructOK p = true) :
    deepGraph ((ti.removeOutput x o).removeInputs (roPairs x o p)) (removeOutputPlain x o p)
      = (roPairs x o p).foldl (fun g xq => g.map (remNodeIn xq.1 xq.2))
          ((deepGraph ti p).map (remNodeOut x o)) := by
  have hsp := StructOK_parts hs
  have hok0 := hok
  simp only [RemOutOK, Bool.and_eq_true, bne_iff_ne, ne_eq, List.all_eq_true] at hok
  obtain ⟨⟨⟨⟨hx, hfx⟩, hall⟩, _⟩, _⟩ := hok
  cases hxc : p.find? x with
  | none => simp [hxc] at hfx
  | some xc =>
  simp only [hxc, Bool.and_eq_true, List.all_eq_true, Bool.or_eq_true, bne_iff_ne, ne_eq, beq_iff_eq] at hfx
  obtain ⟨⟨hcons, _⟩, _⟩ := hfx
  have hp' := outStep_eq x o p xc hxc hcons
  have hxcm := find_mem p x xc hxc
  have hxcn := find_name p x xc hxc
  cases hxp : xc.isPipe with
  | false =>
    have hpairs : roPairs x o p = [] := by simp [roPairs, hxc, hxp]
    have hplain : removeOutputPlain x o p = outStep x o p := by
      simp [removeOutputPlain, outStep, hxc, hxp]
    rw [hpairs, hplain]
    exact remove_output_graph x o ti p hok0
  | true =>
    have hpairs : roPairs x o p
        = removeInputClosure p (closureFuel p) ((unboundInputs p xc [o] []).map (fun i => (x, i))) [] := by
      simp [roPairs, hxc, hxp]
    have hplain : removeOutputPlain x o p = removeInputs (roPairs x o p) (outStep x o p) := by
      simp [removeOutputPlain, outStep, hxc, hxp, hpairs, applyOutAction]
    -- the cascade's side condition, derived
    have hle : ProgLe (outStep x o p) p := by
      rw [hp']
      refine ⟨?_, fun t ht => ⟨t, ht, CallLe.refl t⟩⟩
      intro c' hc'
      obtain ⟨c0, hc0, rfl⟩ := List.mem_map.mp hc'
      exact ⟨c0, hc0, FRo_le x o c0⟩
    have hseeds : ∀ s ∈ (unboundInputs p xc [o] []).map (fun i => (x, i)),
        seedOK s.1 s.2 (outStep x o p) = true := by
      intro s hsm
      obtain ⟨i, hi, rfl⟩ := List.mem_map.mp hsm
      simp only [seedOK, Bool.and_eq_true, bne_iff_ne, ne_eq, List.all_eq_true, Bool.or_eq_true,
        Bool.not_eq_true']
      refine ⟨hx, ?_⟩
      intro c' hc'
      rw [hp'] at hc'
      obtain ⟨c0, hc0, rfl⟩ := List.mem_map.mp hc'
      by_cases hn : (FRo x o c0).name = x
      · right
        have hc0x : c0 = xc := eq_of_name_eq p hsp.1 c0 xc hc0 hxcm
          (((FRo_fields x o c0).1.symm.trans hn).trans hxcn.symm)
        subst hc0x
        have hps := structOKc_parts (hsp.2.1 c0 hc0).2
        have hparts := pipeOKRo_parts x o (hall c0 hc0)
        intro r hr
        cases hsr : selfRefTo i r with
        | false => rfl
        | true =>
          exfalso
          simp only [unboundInputs, List.mem_filter, Bool.not_eq_true', List.contains_eq_mem,
            decide_eq_false_iff_not] at hi
          apply hi.2
          have hf := FRo_fields x o c0
          unfold graphRefs at hr
          rcases List.mem_append.mp hr with hr | hr
          · rcases List.mem_append.mp hr with hr | hr
            · obtain ⟨k, hk, hr⟩ := List.mem_flatMap.mp hr
              obtain ⟨b, hb, hr⟩ := List.mem_flatMap.mp hr
              rw [hf.2.2.1] at hk
              apply List.mem_append_right
              apply List.mem_flatMap.mpr
              refine ⟨k, List.mem_filter.mpr ⟨hk, by simp⟩, List.mem_append_left _ ?_⟩
              unfold bindsRefIds
              exact List.mem_flatMap.mpr ⟨b, mem_compiledBinds p c0 k (hps.2.2.1 k hk).1 b hb,
                refs_self_mem i b.exp r hr hsr⟩
            · obtain ⟨b, hb, hr⟩ := List.mem_flatMap.mp hr
              have hret : (FRo x o c0).ret = removeFirstBind o c0.ret := by
                simp [FRo, hxp, find_name p x c0 hxc]
              rw [hret] at hb
              have hbn := removeFirstBind_no o c0.ret (hparts.2.2.2.2.2.2.1 (find_name p x c0 hxc)) b hb
              apply List.mem_append_left; apply List.mem_append_left
              unfold bindsRefIds
              apply List.mem_flatMap.mpr
              refine ⟨b, List.mem_filter.mpr ⟨mem_removeFirstBind o _ b hb, by simp [hbn]⟩,
                refs_self_mem i b.exp r hr hsr⟩
          · apply List.mem_append_left; apply List.mem_append_right
            simp only [selfRefTo, Bool.and_eq_true, beq_iff_eq] at hsr
            exact List.mem_map.mpr ⟨r, List.mem_filter.mpr ⟨hf.2.2.2.1 ▸ hr, by simp [hsr.1]⟩, hsr.2⟩
      · exact Or.inl hn
    have hg := closure_good p ((unboundInputs p xc [o] []).map (fun i => (x, i))) (closureFuel p)
      ((unboundInputs p xc [o] []).map (fun i => (x, i))) []
      (by intro j hj; simp at hj) (by intro e he; exact Or.inl he)
    have hrem := remInsOK_of_good p (outStep x o p) hs hle _ hseeds _ [] (by simpa using hg)
    have hrem' : RemInsOK (roPairs x o p) (outStep x o p) = true := by
      rw [hpairs]; simpa [removeInputs] using hrem
    rw [hplain, remove_inputs_graph _ _ _ hrem', remove_output_graph x o ti p hok0]

end RoFull

end Proofs.RefactorGraph
