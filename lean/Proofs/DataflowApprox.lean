/-
C01 — the relation `e ≈ o` (`J.approx`: `o` is `e` with every `dnull` rendered as null, an empty
collection or a collection of nulls) is a CONGRUENCE for every value operation downstream of a
disabled / empty call: field selection, projection (through arrays and typed maps), narrowing,
collection building and the evaluation of binding expressions; `v ≈ erase v`; on values without
`dnull` it is equality.
-/
import Martian.Dataflow
import Proofs.Dataflow
import Proofs.DataflowErase

namespace Proofs.Approx
open Martian.Dataflow Proofs.Dataflow

theorem approx_dnull (o : J) : J.approx .dnull o = o.nullish := by
  cases o <;> simp [J.approx]

/-! ## reflexivity, erasure, dnull-free values -/

mutual
theorem approx_refl : ∀ v : J, J.approx v v = true
  | .null => by simp [J.approx]
  | .dnull => by simp [J.approx, J.nullish]
  | .atom _ => by simp [J.approx]
  | .arr xs => by simp [J.approx, approxList_refl xs]
  | .obj kvs => by simp [J.approx, approxFields_refl kvs]
theorem approxList_refl : ∀ xs : List J, J.approxList xs xs = true
  | [] => by simp [J.approxList]
  | x :: xs => by simp [J.approxList, approx_refl x, approxList_refl xs]
theorem approxFields_refl : ∀ kvs : List (String × J), J.approxFields kvs kvs = true
  | [] => by simp [J.approxFields]
  | (k, x) :: xs => by simp [J.approxFields, approx_refl x, approxFields_refl xs]
end

mutual
theorem approx_erase : ∀ v : J, J.approx v (J.erase v) = true
  | .null => by simp [J.approx, J.erase]
  | .dnull => by simp [J.approx, J.erase, J.nullish]
  | .atom _ => by simp [J.approx, J.erase]
  | .arr xs => by simp [J.approx, J.erase, approxList_erase xs]
  | .obj kvs => by simp [J.approx, J.erase, approxFields_erase kvs]
theorem approxList_erase : ∀ xs : List J, J.approxList xs (J.eraseList xs) = true
  | [] => by simp [J.approxList, J.eraseList]
  | x :: xs => by simp [J.approxList, J.eraseList, approx_erase x, approxList_erase xs]
theorem approxFields_erase : ∀ kvs : List (String × J), J.approxFields kvs (J.eraseFields kvs) = true
  | [] => by simp [J.approxFields, J.eraseFields]
  | (k, x) :: xs => by simp [J.approxFields, J.eraseFields, approx_erase x, approxFields_erase xs]
end

mutual
/-- on values without `dnull`, `≈` is equality -/
theorem approx_clean : ∀ (e o : J), J.clean e = true → J.approx e o = true → e = o
  | .null, o, _, h => by cases o <;> simp [J.approx] at h ⊢
  | .dnull, _, hc, _ => by simp [J.clean] at hc
  | .atom a, o, _, h => by cases o <;> simp [J.approx] at h ⊢; exact h
  | .arr xs, o, hc, h => by
    cases o <;> simp [J.approx] at h ⊢
    exact approxList_clean xs _ (by simpa [J.clean] using hc) h
  | .obj kvs, o, hc, h => by
    cases o <;> simp [J.approx] at h ⊢
    exact approxFields_clean kvs _ (by simpa [J.clean] using hc) h
theorem approxList_clean : ∀ (xs ys : List J), J.cleanList xs = true → J.approxList xs ys = true → xs = ys
  | [], ys, _, h => by cases ys <;> simp [J.approxList] at h ⊢
  | x :: xs, ys, hc, h => by
    cases ys with
    | nil => simp [J.approxList] at h
    | cons y ys =>
      simp only [J.approxList, Bool.and_eq_true] at h
      simp only [J.cleanList, Bool.and_eq_true] at hc
      rw [approx_clean x y hc.1 h.1, approxList_clean xs ys hc.2 h.2]
theorem approxFields_clean : ∀ (xs ys : List (String × J)), J.cleanFields xs = true →
    J.approxFields xs ys = true → xs = ys
  | [], ys, _, h => by cases ys <;> simp [J.approxFields] at h ⊢
  | (k, x) :: xs, ys, hc, h => by
    cases ys with
    | nil => simp [J.approxFields] at h
    | cons y ys =>
      obtain ⟨k', y⟩ := y
      simp only [J.approxFields, Bool.and_eq_true, beq_iff_eq] at h
      simp only [J.cleanFields, Bool.and_eq_true] at hc
      rw [h.1.1, approx_clean x y hc.1 h.1.2, approxFields_clean xs ys hc.2 h.2]
end

mutual
theorem erase_clean : ∀ v : J, J.clean v = true → J.erase v = v
  | .null, _ => rfl
  | .dnull, h => by simp [J.clean] at h
  | .atom _, _ => rfl
  | .arr xs, h => by simp [J.erase, eraseList_clean xs (by simpa [J.clean] using h)]
  | .obj kvs, h => by simp [J.erase, eraseFields_clean kvs (by simpa [J.clean] using h)]
theorem eraseList_clean : ∀ xs : List J, J.cleanList xs = true → J.eraseList xs = xs
  | [], _ => rfl
  | x :: xs, h => by
    simp only [J.cleanList, Bool.and_eq_true] at h
    simp [J.eraseList, erase_clean x h.1, eraseList_clean xs h.2]
theorem eraseFields_clean : ∀ kvs : List (String × J), J.cleanFields kvs = true → J.eraseFields kvs = kvs
  | [], _ => rfl
  | (k, x) :: xs, h => by
    simp only [J.cleanFields, Bool.and_eq_true] at h
    simp [J.eraseFields, erase_clean x h.1, eraseFields_clean xs h.2]
end

mutual
/-- `≈` keeps "is null-like" -/
theorem approx_nullish : ∀ (e o : J), J.approx e o = true → o.nullish = e.nullish
  | .null, o, h => by cases o <;> simp [J.approx] at h ⊢
  | .dnull, o, h => by rw [approx_dnull] at h; simp [h, J.nullish]
  | .atom a, o, h => by cases o <;> simp [J.approx, J.nullish] at h ⊢
  | .arr xs, o, h => by
    cases o <;> simp [J.approx] at h
    simp only [J.nullish]
    exact approxList_nullish xs _ h
  | .obj kvs, o, h => by
    cases o <;> simp [J.approx] at h
    simp only [J.nullish]
    exact approxFields_nullish kvs _ h
theorem approxList_nullish : ∀ (xs ys : List J), J.approxList xs ys = true → J.nullishList ys = J.nullishList xs
  | [], ys, h => by cases ys <;> simp [J.approxList] at h ⊢
  | x :: xs, ys, h => by
    cases ys with
    | nil => simp [J.approxList] at h
    | cons y ys =>
      simp only [J.approxList, Bool.and_eq_true] at h
      simp only [J.nullishList, approx_nullish x y h.1, approxList_nullish xs ys h.2]
theorem approxFields_nullish : ∀ (xs ys : List (String × J)), J.approxFields xs ys = true →
    J.nullishFields ys = J.nullishFields xs
  | [], ys, h => by cases ys <;> simp [J.approxFields] at h ⊢
  | (k, x) :: xs, ys, h => by
    cases ys with
    | nil => simp [J.approxFields] at h
    | cons y ys =>
      obtain ⟨k', y⟩ := y
      simp only [J.approxFields, Bool.and_eq_true] at h
      simp only [J.nullishFields, approx_nullish x y h.1.2, approxFields_nullish xs ys h.2]
end

/-! ## congruences -/

/-- `g` respects `≈` (and keeps "no value") -/
def Cong (g : J → J) : Prop :=
  g .dnull = .dnull ∧ ∀ a b, J.approx a b = true → J.approx (g a) (g b) = true

theorem Cong.nullish {g : J → J} (h : Cong g) (b : J) (hb : b.nullish = true) : (g b).nullish = true := by
  have := h.2 .dnull b (by rw [approx_dnull]; exact hb)
  rw [h.1, approx_dnull] at this
  exact this

theorem approxList_map (g : J → J) (h : ∀ a b, J.approx a b = true → J.approx (g a) (g b) = true) :
    ∀ xs ys, J.approxList xs ys = true → J.approxList (xs.map g) (ys.map g) = true
  | [], ys, hx => by cases ys <;> simp [J.approxList] at hx ⊢
  | x :: xs, ys, hx => by
    cases ys with
    | nil => simp [J.approxList] at hx
    | cons y ys =>
      simp only [J.approxList, Bool.and_eq_true] at hx
      simp only [List.map_cons, J.approxList, Bool.and_eq_true]
      exact ⟨h x y hx.1, approxList_map g h xs ys hx.2⟩

theorem approxFields_map (g : J → J) (h : ∀ a b, J.approx a b = true → J.approx (g a) (g b) = true) :
    ∀ xs ys, J.approxFields xs ys = true →
      J.approxFields (xs.map fun kv => (kv.1, g kv.2)) (ys.map fun kv => (kv.1, g kv.2)) = true
  | [], ys, hx => by cases ys <;> simp [J.approxFields] at hx ⊢
  | (k, x) :: xs, ys, hx => by
    cases ys with
    | nil => simp [J.approxFields] at hx
    | cons y ys =>
      obtain ⟨k', y⟩ := y
      simp only [J.approxFields, Bool.and_eq_true] at hx
      simp only [List.map_cons, J.approxFields, Bool.and_eq_true]
      exact ⟨⟨hx.1.1, h x y hx.1.2⟩, approxFields_map g h xs ys hx.2⟩

theorem nullishList_map (g : J → J) (h : ∀ b, b.nullish = true → (g b).nullish = true) :
    ∀ ys, J.nullishList ys = true → J.nullishList (ys.map g) = true
  | [], _ => by simp [J.nullishList]
  | y :: ys, hy => by
    simp only [J.nullishList, Bool.and_eq_true] at hy
    simp only [List.map_cons, J.nullishList, Bool.and_eq_true]
    exact ⟨h y hy.1, nullishList_map g h ys hy.2⟩

theorem nullishFields_map (g : J → J) (h : ∀ b, b.nullish = true → (g b).nullish = true) :
    ∀ ys, J.nullishFields ys = true → J.nullishFields (ys.map fun kv => (kv.1, g kv.2)) = true
  | [], _ => by simp [J.nullishFields]
  | (k, y) :: ys, hy => by
    simp only [J.nullishFields, Bool.and_eq_true] at hy
    simp only [List.map_cons, J.nullishFields, Bool.and_eq_true]
    exact ⟨h y hy.1, nullishFields_map g h ys hy.2⟩

theorem nullish_lookup : ∀ (ows : List (String × J)) (k : String), J.nullishFields ows = true →
    ((ows.lookup k).getD .null).nullish = true
  | [], _, _ => by simp [J.nullish]
  | (k', y) :: ys, k, h => by
    simp only [J.nullishFields, Bool.and_eq_true] at h
    simp only [List.lookup_cons]
    cases (k == k') with
    | true => exact h.1
    | false => exact nullish_lookup ys k h.2

theorem approx_lookup : ∀ (kvs ows : List (String × J)) (k : String), J.approxFields kvs ows = true →
    J.approx ((kvs.lookup k).getD .null) ((ows.lookup k).getD .null) = true
  | [], ows, _, h => by cases ows <;> simp [J.approxFields, J.approx] at h ⊢
  | (k1, x) :: xs, ows, k, h => by
    cases ows with
    | nil => simp [J.approxFields] at h
    | cons y ys =>
      obtain ⟨k2, y⟩ := y
      simp only [J.approxFields, Bool.and_eq_true, beq_iff_eq] at h
      obtain ⟨⟨hk, hxy⟩, hr⟩ := h
      subst hk
      simp only [List.lookup_cons]
      cases (k == k1) with
      | true => exact hxy
      | false => exact approx_lookup xs ys k hr

/-- field selection -/
theorem cong_field (f : String) : Cong (fun s => s.field f) := by
  refine ⟨rfl, ?_⟩
  intro a b h
  cases a with
  | dnull =>
    rw [approx_dnull] at h
    show J.approx (J.field .dnull f) _ = true
    simp only [J.field]
    rw [approx_dnull]
    cases b with
    | obj ows => exact nullish_lookup ows f (by simpa [J.nullish] using h)
    | null => simp [J.field, J.nullish]
    | dnull => simp [J.field, J.nullish]
    | atom s => simp [J.nullish] at h
    | arr ys => simp [J.field, J.nullish]
  | null => cases b <;> simp [J.approx] at h ⊢; simp [J.field, J.approx]
  | atom s => cases b <;> simp [J.approx] at h ⊢; simp [J.field, J.approx]
  | arr xs => cases b <;> simp [J.approx] at h ⊢; simp [J.field, J.approx]
  | obj kvs =>
    cases b <;> simp [J.approx] at h
    exact approx_lookup kvs _ f h

theorem cong_mapArr (g : J → J) (hg : Cong g) : ∀ n, Cong (mapArr n g) := by
  intro n
  induction n with
  | zero => exact ⟨by simp [mapArr, hg.1], fun a b h => by simpa [mapArr] using hg.2 a b h⟩
  | succ n ih =>
    refine ⟨by simp [mapArr], ?_⟩
    intro a b h
    cases a with
    | dnull =>
      rw [approx_dnull] at h
      simp only [mapArr]
      rw [approx_dnull]
      cases b with
      | arr ys =>
        simp only [mapArr, J.nullish]
        exact nullishList_map _ ih.nullish ys (by simpa [J.nullish] using h)
      | null => simp [mapArr, J.nullish]
      | dnull => simp [mapArr, J.nullish]
      | atom s => simp [J.nullish] at h
      | obj ows => simp [mapArr, J.nullish]
    | null => cases b <;> simp [J.approx] at h ⊢; simp [mapArr, J.approx]
    | atom s => cases b <;> simp [J.approx] at h ⊢; simp [mapArr, J.approx]
    | obj kvs => cases b <;> simp [J.approx] at h ⊢; simp [mapArr, J.approx]
    | arr xs =>
      cases b <;> simp [J.approx] at h
      simp only [mapArr, J.approx]
      exact approxList_map _ ih.2 xs _ h

theorem cong_mapObj (g : J → J) (hg : Cong g) : Cong (mapObj g) := by
  refine ⟨by simp [mapObj], ?_⟩
  intro a b h
  cases a with
  | dnull =>
    rw [approx_dnull] at h
    simp only [mapObj]
    rw [approx_dnull]
    cases b with
    | obj ows =>
      simp only [mapObj, J.nullish]
      exact nullishFields_map _ hg.nullish ows (by simpa [J.nullish] using h)
    | null => simp [mapObj, J.nullish]
    | dnull => simp [mapObj, J.nullish]
    | atom s => simp [J.nullish] at h
    | arr ys => simp [mapObj, J.nullish]
  | null => cases b <;> simp [J.approx] at h ⊢; simp [mapObj, J.approx]
  | atom s => cases b <;> simp [J.approx] at h ⊢; simp [mapObj, J.approx]
  | arr xs => cases b <;> simp [J.approx] at h ⊢; simp [mapObj, J.approx]
  | obj kvs =>
    cases b <;> simp [J.approx] at h
    simp only [mapObj, J.approx]
    exact approxFields_map _ hg.2 kvs _ h

theorem cong_atBase (t : Ty) (g : J → J) (hg : Cong g) : Cong (atBase t g) := by
  unfold atBase
  apply cong_mapArr
  cases t.mapDim with
  | zero => exact hg
  | succ k => exact cong_mapObj _ (cong_mapArr g hg k)

/-- projection `.f` at a type (through arrays and typed maps) -/
theorem cong_proj1 (t : Ty) (f : String) : Cong (proj1 t f) := cong_atBase t _ (cong_field f)

theorem cong_projPath (st : StructTable) (path : List String) : ∀ t : Ty, Cong (projPath st t path) := by
  induction path with
  | nil => intro t; exact ⟨rfl, fun _ _ h => h⟩
  | cons f r ih =>
    intro t
    refine ⟨?_, ?_⟩
    · simp only [projPath, (cong_proj1 t f).1, (ih _).1]
    · intro a b h
      simp only [projPath]
      exact (ih _).2 _ _ ((cong_proj1 t f).2 a b h)

theorem approxFields_params (ps : List Param) (g g' : Param → J)
    (h : ∀ p ∈ ps, J.approx (g p) (g' p) = true) :
    J.approxFields (ps.map fun p => (p.name, g p)) (ps.map fun p => (p.name, g' p)) = true := by
  induction ps with
  | nil => simp [J.approxFields]
  | cons p ps ih =>
    simp only [List.map_cons, J.approxFields, Bool.and_eq_true, beq_self_eq_true, true_and]
    exact ⟨h p (by simp), ih fun q hq => h q (by simp [hq])⟩

theorem nullishFields_params (ps : List Param) (g : Param → J) (h : ∀ p ∈ ps, (g p).nullish = true) :
    J.nullishFields (ps.map fun p => (p.name, g p)) = true := by
  induction ps with
  | nil => simp [J.nullishFields]
  | cons p ps ih =>
    simp only [List.map_cons, J.nullishFields, Bool.and_eq_true]
    exact ⟨h p (by simp), ih fun q hq => h q (by simp [hq])⟩

/-- narrowing to a declared type -/
theorem cong_narrow (st : StructTable) : ∀ (F : Nat) (t : Ty), Cong (narrow st F t) := by
  intro F
  induction F with
  | zero => intro t; exact ⟨rfl, fun _ _ h => h⟩
  | succ F ih =>
    intro t
    have hb : Cong (narrowBase st F t) := by
      unfold narrowBase
      cases st.lookup t.base with
      | none => exact ⟨rfl, fun _ _ h => h⟩
      | some ps =>
        refine ⟨rfl, ?_⟩
        intro a b h
        cases a with
        | dnull =>
          rw [approx_dnull] at h
          simp only
          rw [approx_dnull]
          cases b with
          | obj ows =>
            simp only [J.nullish]
            apply nullishFields_params
            intro p _
            exact (ih p.ty).nullish _ ((cong_field p.name).nullish _ h)
          | null => exact h
          | dnull => exact h
          | atom s => exact h
          | arr ys => exact h
        | null => cases b <;> simp [J.approx] at h ⊢
        | atom s => cases b <;> simp [J.approx] at h ⊢; exact h
        | arr xs => cases b <;> simp [J.approx] at h ⊢; exact h
        | obj kvs =>
          cases b with
          | obj ows =>
            simp only [J.approx]
            apply approxFields_params
            intro p _
            exact (ih p.ty).2 _ _ ((cong_field p.name).2 _ _ h)
          | null => simp [J.approx] at h
          | dnull => simp [J.approx] at h
          | atom s => simp [J.approx] at h
          | arr ys => simp [J.approx] at h
    have := cong_atBase t _ hb
    refine ⟨?_, ?_⟩
    · rw [narrow_succ]; exact this.1
    · intro a b h; rw [narrow_succ, narrow_succ]; exact this.2 a b h

/-! ## expressions -/

/-- two environments with the same types and `≈` values -/
structure EnvApprox (env env' : Env) : Prop where
  selfTys : env'.selfTys = env.selfTys
  selfVal : J.approx env.selfVal env'.selfVal = true
  callTy : ∀ c, env'.callTy c = env.callTy c
  callVal : ∀ c, J.approx (env.callVal c) (env'.callVal c) = true

mutual
/-- evaluating a binding expression respects `≈` -/
theorem approx_eval (st : StructTable) (env env' : Env) (h : EnvApprox env env') :
    ∀ e : Exp, J.approx (eval st env e) (eval st env' e) = true
  | .lit j => by simp only [eval]; exact approx_refl j
  | .arr xs => by simp only [eval, J.approx]; exact approx_evalList st env env' h xs
  | .map kvs => by simp only [eval, J.approx]; exact approx_evalFields st env env' h kvs
  | .struct kvs => by simp only [eval, J.approx]; exact approx_evalFields st env env' h kvs
  | .self p path => by
    simp only [eval]
    have : env'.selfTy p = env.selfTy p := by simp [Env.selfTy, h.selfTys]
    rw [this]
    exact (cong_projPath st path _).2 _ _ ((cong_field p).2 _ _ h.selfVal)
  | .ref c path => by
    simp only [eval]
    rw [h.callTy c]
    exact (cong_projPath st path _).2 _ _ (h.callVal c)
theorem approx_evalList (st : StructTable) (env env' : Env) (h : EnvApprox env env') :
    ∀ es : List Exp, J.approxList (evalList st env es) (evalList st env' es) = true
  | [] => by simp [evalList, J.approxList]
  | e :: es => by
    simp only [evalList, J.approxList, Bool.and_eq_true]
    exact ⟨approx_eval st env env' h e, approx_evalList st env env' h es⟩
theorem approx_evalFields (st : StructTable) (env env' : Env) (h : EnvApprox env env') :
    ∀ es : List (String × Exp), J.approxFields (evalFields st env es) (evalFields st env' es) = true
  | [] => by simp [evalFields, J.approxFields]
  | (k, e) :: es => by
    simp only [evalFields, J.approxFields, Bool.and_eq_true, beq_self_eq_true, true_and]
    exact ⟨approx_eval st env env' h e, approx_evalFields st env env' h es⟩
end

end Proofs.Approx
