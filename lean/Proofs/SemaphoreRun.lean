import Martian.Semaphore
import Proofs.Semaphore

/-! Run-level (op sequence) lemmas for C12. -/
namespace Martian.Semaphore

theorem run_cons (s : Sem) (op : SemOp) (ops : List SemOp) :
    run s (op :: ops) = ((run (step s op).1 ops).1, (step s op).2 ++ (run (step s op).1 ops).2) := rfl

theorem run_max (s : Sem) (ops : List SemOp) : (run s ops).1.max = s.max := by
  induction ops generalizing s with
  | nil => rfl
  | cons op ops ih => rw [run_cons]; simp [ih, step_max]

theorem run_fifo (s : Sem) (ops : List SemOp) :
    grantsOf (run s ops).2 ++ (run s ops).1.waiters = s.waiters ++ acceptedRun s ops := by
  induction ops generalizing s with
  | nil => simp [run, acceptedRun]
  | cons op ops ih =>
    rw [run_cons]
    simp only [grantsOf_append, acceptedRun, List.append_assoc]
    rw [ih, ← List.append_assoc, step_fifo, List.append_assoc]

theorem run_noLost (s : Sem) (ops : List SemOp) (h : NoLost s)
    (hp : hasPanic (run s ops).2 = false) : NoLost (run s ops).1 := by
  induction ops generalizing s with
  | nil => exact h
  | cons op ops ih =>
    rw [run_cons] at hp ⊢
    simp only [hasPanic_append, Bool.or_eq_false_iff] at hp
    exact ih _ (step_noLost s op h hp.1) hp.2

theorem run_bounded (s : Sem) (ops : List SemOp) (h : Bounded s)
    (hop : ∀ op ∈ ops, OpOK s.max op) : Bounded (run s ops).1 := by
  induction ops generalizing s with
  | nil => exact h
  | cons op ops ih =>
    rw [run_cons]
    apply ih
    · exact step_bounded s op h (hop op (by simp))
    · intro o ho; rw [step_max]; exact hop o (by simp [ho])

/-! ### waiters stay within the maximum -/

theorem step_waitersLeMax (s : Sem) (op : SemOp) (h : WaitersLeMax s) :
    WaitersLeMax (step s op).1 := by
  unfold WaitersLeMax at h ⊢
  rw [step_max]
  intro w hw
  have hsub := step_waiters_sub s op w hw
  rcases List.mem_append.mp hsub with h1 | h1
  · exact h w h1
  · cases op with
    | acquire id n =>
      simp only [acceptedOf] at h1
      split at h1
      · -- fast path: nothing is enqueued, so w was already waiting
        rename_i hf
        simp only [step, if_pos hf] at hw
        exact h w hw
      · split at h1
        · simp at h1
        · have : w = (id, n) := by simpa using h1
          subst this; simp; omega
    | release n => simp [acceptedOf] at h1
    | updActual n => simp [acceptedOf] at h1
    | updSize n => simp [acceptedOf] at h1
    | updFreeUsed f u => simp [acceptedOf] at h1

def AmtNonneg (l : List Waiter) : Prop := ∀ w ∈ l, 0 ≤ w.2

def SemOp.reqNonneg : SemOp → Prop
  | .acquire _ n => 0 ≤ n
  | _ => True

theorem accepted_nonneg (s : Sem) (op : SemOp) (h : op.reqNonneg) : AmtNonneg (acceptedOf s op) := by
  intro w hw
  cases op with
  | acquire id n =>
    have hn : 0 ≤ n := h
    simp only [acceptedOf] at hw
    split at hw
    · have : w = (id, n) := by simpa using hw
      subst this; exact hn
    · split at hw
      · simp at hw
      · have : w = (id, n) := by simpa using hw
        subst this; exact hn
  | release n => simp [acceptedOf] at hw
  | updActual n => simp [acceptedOf] at hw
  | updSize n => simp [acceptedOf] at hw
  | updFreeUsed f u => simp [acceptedOf] at hw

theorem step_nonneg (s : Sem) (op : SemOp) (h : op.reqNonneg) (hw : AmtNonneg s.waiters) :
    AmtNonneg (step s op).1.waiters ∧ AmtNonneg (grantsOf (step s op).2) := by
  have ha := accepted_nonneg s op h
  constructor
  · intro w hm
    rcases List.mem_append.mp (step_waiters_sub s op w hm) with h1 | h1
    · exact hw w h1
    · exact ha w h1
  · intro w hm
    rcases List.mem_append.mp (step_grants_sub s op w hm) with h1 | h1
    · exact hw w h1
    · exact ha w h1

/-! ### releasing a list of holdings -/

theorem step_release_ok (s : Sem) (n : Int) (h : n ≤ s.reserved) :
    step s (.release n) = ({ s with reserved := s.reserved - n } : Sem).wake := by
  simp only [step]
  have : ¬ (s.reserved - n < 0) := by omega
  simp [this]

theorem rel_run (H : List Waiter) : ∀ (s : Sem),
    AmtNonneg H → AmtNonneg s.waiters → sumAmt H ≤ s.reserved →
    hasPanic (run s (H.map relOp)).2 = false ∧
    (run s (H.map relOp)).1.reserved = s.reserved - sumAmt H + sumAmt (grantsOf (run s (H.map relOp)).2) ∧
    grantsOf (run s (H.map relOp)).2 ++ (run s (H.map relOp)).1.waiters = s.waiters ∧
    (run s (H.map relOp)).1.cur = s.cur ∧
    (NoLost s → NoLost (run s (H.map relOp)).1) := by
  induction H with
  | nil =>
    intro s _ _ _
    simp [run, sumAmt, hasPanic]
  | cons h H ih =>
    intro s hH hW hsum
    have hh : 0 ≤ h.2 := hH h (by simp)
    have hH' : AmtNonneg H := fun x hx => hH x (by simp [hx])
    have hHs : 0 ≤ sumAmt H := sumAmt_nonneg H hH'
    simp only [sumAmt] at hsum
    have hle : h.2 ≤ s.reserved := by omega
    simp only [List.map_cons, run_cons]
    -- first release
    have hstep : step s (relOp h) = ({ s with reserved := s.reserved - h.2 } : Sem).wake :=
      step_release_ok s h.2 hle
    have hp1 : hasPanic (step s (relOp h)).2 = false := by rw [hstep]; exact wake_hasPanic _
    have hres1 := step_reserved s (relOp h)
    have hfifo1 := step_fifo s (relOp h)
    simp only [relOp, acceptedOf, List.append_nil, releasedBy] at hres1 hfifo1
    have hnn := step_nonneg s (relOp h) (by simp [relOp, SemOp.reqNonneg]) hW
    have hcur1 : (step s (relOp h)).1.cur = s.cur := by rw [hstep]; exact (wake_cur _).1
    have hnl1 : NoLost (step s (relOp h)).1 := by rw [hstep]; exact wake_noLost _
    have hg1 : 0 ≤ sumAmt (grantsOf (step s (relOp h)).2) := sumAmt_nonneg _ hnn.2
    have hsum1 : sumAmt H ≤ (step s (relOp h)).1.reserved := by
      simp only [relOp]; rw [hres1]; simp only [relOp] at hg1; omega
    obtain ⟨ip, ir, ifi, ic, inl⟩ := ih (step s (relOp h)).1 hH' hnn.1 hsum1
    refine ⟨?_, ?_, ?_, ?_, ?_⟩
    · simp [hasPanic_append, hp1, ip]
    · rw [ir]
      simp only [grantsOf_append, sumAmt_append, sumAmt]
      simp only [relOp] at hres1 ⊢
      rw [hres1]; omega
    · simp only [grantsOf_append, List.append_assoc]
      rw [ifi]; simpa [relOp] using hfifo1
    · rw [ic, hcur1]
    · intro _; exact inl hnl1

/-! ### progress: drain rounds -/

/-- what `round`/`drain` need of a (semaphore, holders) pair; every state a
well-behaved client population can reach satisfies it (`Props.C12.client_good`). -/
structure Good (p : Sem × List Waiter) : Prop where
  book : p.1.reserved = sumAmt p.2
  heldNN : AmtNonneg p.2
  waitNN : AmtNonneg p.1.waiters
  waitLe : WaitersLeMax p.1
  noLost : NoLost p.1

theorem round_facts (p : Sem × List Waiter) (g : Good p) :
    Good (round p) ∧ (round p).1.max = p.1.max ∧
    (round p).2 ++ (round p).1.waiters = p.1.waiters ∧
    ((round p).1.waiters = [] ∨ (round p).2 ≠ []) := by
  obtain ⟨s, H⟩ := p
  obtain ⟨book, heldNN, waitNN, waitLe, noLost⟩ := g
  simp only at book heldNN waitNN waitLe noLost
  -- step 0: UpdateSize(max)
  have hnn0 := step_nonneg s (.updSize s.max) (by simp [SemOp.reqNonneg]) waitNN
  have hres0 := step_reserved s (.updSize s.max)
  have hfifo0 := step_fifo s (.updSize s.max)
  have hmax0 := step_max s (.updSize s.max)
  have hcur0 : (step s (.updSize s.max)).1.cur = s.max := by
    simp only [step]; exact (setCur_cur s s.max).1
  have hnl0 : NoLost (step s (.updSize s.max)).1 :=
    step_noLost s _ noLost (by simp only [step]; exact setCur_hasPanic _ _)
  have hle0 := step_waitersLeMax s (.updSize s.max) waitLe
  simp only [acceptedOf, List.append_nil, releasedBy] at hres0 hfifo0
  have hg0 : 0 ≤ sumAmt (grantsOf (step s (.updSize s.max)).2) := sumAmt_nonneg _ hnn0.2
  have hsum0 : sumAmt H ≤ (step s (.updSize s.max)).1.reserved := by rw [hres0]; omega
  obtain ⟨rp, rr, rf, rc, rnl⟩ := rel_run H (step s (.updSize s.max)).1 heldNN hnn0.1 hsum0
  have rnl := rnl hnl0
  have rmax := run_max (step s (.updSize s.max)).1 (H.map relOp)
  -- assemble
  have hround : round (s, H) =
      ((run (step s (.updSize s.max)).1 (H.map relOp)).1,
        grantsOf (step s (.updSize s.max)).2 ++ grantsOf (run (step s (.updSize s.max)).1 (H.map relOp)).2) := by
    simp only [round, run_cons, grantsOf_append]
  have hfifo : (round (s, H)).2 ++ (round (s, H)).1.waiters = s.waiters := by
    rw [hround]; simp only [List.append_assoc]; rw [rf, hfifo0]
  have hbook : (round (s, H)).1.reserved = sumAmt (round (s, H)).2 := by
    rw [hround]; simp only [sumAmt_append]; rw [rr, hres0]; omega
  have hsubW : ∀ w ∈ (round (s, H)).1.waiters, w ∈ s.waiters := by
    intro w hw; rw [← hfifo]; simp [hw]
  have hsubG : ∀ w ∈ (round (s, H)).2, w ∈ s.waiters := by
    intro w hw; rw [← hfifo]; simp [hw]
  have hmax : (round (s, H)).1.max = s.max := by rw [hround]; simp only; rw [rmax, hmax0]
  have hcur : (round (s, H)).1.cur = s.max := by rw [hround]; simp only; rw [rc, hcur0]
  have hNL : NoLost (round (s, H)).1 := by rw [hround]; exact rnl
  refine ⟨⟨hbook, fun w hw => waitNN w (hsubG w hw), fun w hw => waitNN w (hsubW w hw), ?_, hNL⟩,
    hmax, hfifo, ?_⟩
  · intro w hw; rw [hmax]; exact waitLe w (hsubW w hw)
  · by_cases hg : (round (s, H)).2 = []
    · left
      rw [hg] at hbook; simp only [sumAmt] at hbook
      cases hw : (round (s, H)).1.waiters with
      | nil => rfl
      | cons w ws =>
        exfalso
        have h1 : NoLost (round (s, H)).1 := hNL
        unfold NoLost at h1; rw [hw] at h1; simp only at h1
        have h2 := waitLe w (hsubW w (by rw [hw]; simp))
        rw [hcur, hbook] at h1; omega
    · right; exact hg

theorem round_length (p : Sem × List Waiter) (g : Good p) :
    (round p).1.waiters.length ≤ p.1.waiters.length - 1 := by
  obtain ⟨_, _, hf, hd⟩ := round_facts p g
  have hl := congrArg List.length hf
  simp only [List.length_append] at hl
  rcases hd with h | h
  · rw [h]; simp
  · have : 0 < (round p).2.length := List.length_pos_iff.mpr h
    omega

theorem drain_empty (k : Nat) : ∀ (p : Sem × List Waiter), Good p → p.1.waiters.length ≤ k →
    (drain k p).1.waiters = [] := by
  induction k with
  | zero =>
    intro p _ hk
    simp only [drain]
    exact List.length_eq_zero_iff.mp (by omega)
  | succ k ih =>
    intro p g hk
    simp only [drain]
    apply ih (round p) (round_facts p g).1
    have := round_length p g
    omega

/-! ### client protocol -/

theorem sumAmt_eraseHeld (id : Nat) (l : List Waiter) (w : Waiter) (h : findHeld id l = some w) :
    sumAmt (eraseHeld id l) = sumAmt l - w.2 := by
  induction l with
  | nil => simp [findHeld] at h
  | cons x xs ih =>
    simp only [findHeld] at h
    simp only [eraseHeld]
    split at h
    · rename_i hx
      have : x = w := by simpa using h
      subst this; simp [hx, sumAmt]; omega
    · rename_i hx
      simp only [hx, if_false, sumAmt]
      rw [ih h]; omega

theorem eraseHeld_sub (id : Nat) (l : List Waiter) : ∀ w ∈ eraseHeld id l, w ∈ l := by
  induction l with
  | nil => simp [eraseHeld]
  | cons x xs ih =>
    intro w hw
    simp only [eraseHeld] at hw
    split at hw
    · simp [hw]
    · rcases List.mem_cons.mp hw with h | h
      · simp [h]
      · simp [ih w h]

theorem findHeld_mem (id : Nat) (l : List Waiter) (w : Waiter) (h : findHeld id l = some w) : w ∈ l := by
  induction l with
  | nil => simp [findHeld] at h
  | cons x xs ih =>
    simp only [findHeld] at h
    split at h
    · have : x = w := by simpa using h
      simp [this]
    · simp [ih h]

def COp.reqNonneg : COp → Prop
  | .acquire _ n => 0 ≤ n
  | _ => True

def COp.sizeOK (max : Int) : COp → Prop
  | .updSize n => n ≤ max
  | _ => True

/-- invariant of the client protocol -/
structure CInv (g : G) : Prop where
  good : Good (g.sem, g.held)

theorem grun_cons (g : G) (op : COp) (ops : List COp) :
    grun g (op :: ops) = ((grun (gstep g op).1 ops).1, (gstep g op).2 ++ (grun (gstep g op).1 ops).2) := rfl

/-- every client op is one API call (or nothing) and keeps the invariant; it never panics -/
theorem gstep_inv (g : G) (op : COp) (h : Good (g.sem, g.held)) (hop : op.reqNonneg) :
    Good ((gstep g op).1.sem, (gstep g op).1.held) ∧ hasPanic (gstep g op).2 = false ∧
    (gstep g op).1.sem.max = g.sem.max := by
  obtain ⟨book, heldNN, waitNN, waitLe, noLost⟩ := h
  simp only at book heldNN waitNN waitLe noLost
  -- generic assembly from one API call `o` leaving holders `hd`
  have key : ∀ (o : SemOp) (hd : List Waiter), o.reqNonneg → AmtNonneg hd →
      sumAmt hd = sumAmt g.held - releasedBy o → hasPanic (step g.sem o).2 = false →
      Good ((step g.sem o).1, hd ++ grantsOf (step g.sem o).2) := by
    intro o hd ho hhd hsum hp
    have hnn := step_nonneg g.sem o ho waitNN
    refine ⟨?_, ?_, hnn.1, step_waitersLeMax g.sem o waitLe, step_noLost g.sem o noLost hp⟩
    · simp only [sumAmt_append]; rw [step_reserved, hsum, book]
    · intro w hw
      rcases List.mem_append.mp hw with h1 | h1
      · exact hhd w h1
      · exact hnn.2 w h1
  have nopanic_upd : ∀ c, hasPanic (g.sem.setCur c).2 = false := fun c => setCur_hasPanic _ _
  cases op with
  | acquire id n =>
    have hp : hasPanic (step g.sem (.acquire id n)).2 = false := by
      simp only [step]; split
      · rfl
      · split <;> rfl
    simp only [gstep, toSemOp]
    exact ⟨key _ _ hop heldNN (by simp [releasedBy]) hp, hp, step_max _ _⟩
  | release id =>
    simp only [gstep, toSemOp]
    cases hf : findHeld id g.held with
    | none => simp only; exact ⟨⟨book, heldNN, waitNN, waitLe, noLost⟩, by trivial, by trivial⟩
    | some w =>
      simp only
      have hs := sumAmt_eraseHeld id g.held w hf
      have hnnE : AmtNonneg (eraseHeld id g.held) := fun x hx => heldNN x (eraseHeld_sub id g.held x hx)
      have hE : 0 ≤ sumAmt (eraseHeld id g.held) := sumAmt_nonneg _ hnnE
      have hle : w.2 ≤ g.sem.reserved := by rw [book]; omega
      have hp : hasPanic (step g.sem (.release w.2)).2 = false := by
        rw [step_release_ok _ _ hle]; exact wake_hasPanic _
      exact ⟨key _ _ (by simp [SemOp.reqNonneg]) hnnE (by simp [releasedBy, hs]) hp, hp, step_max _ _⟩
  | updActual n =>
    have hp : hasPanic (step g.sem (.updActual n)).2 = false := by
      simp only [step, hasPanic_append, nopanic_upd]; try rfl
    simp only [gstep, toSemOp]
    exact ⟨key _ _ (by simp [SemOp.reqNonneg]) heldNN (by simp [releasedBy]) hp, hp, step_max _ _⟩
  | updSize n =>
    have hp : hasPanic (step g.sem (.updSize n)).2 = false := by
      simp only [step, nopanic_upd]
    simp only [gstep, toSemOp]
    exact ⟨key _ _ (by simp [SemOp.reqNonneg]) heldNN (by simp [releasedBy]) hp, hp, step_max _ _⟩
  | updFreeUsed f u =>
    have hp : hasPanic (step g.sem (.updFreeUsed f u)).2 = false := by
      simp only [step, hasPanic_append, nopanic_upd]; try rfl
    simp only [gstep, toSemOp]
    exact ⟨key _ _ (by simp [SemOp.reqNonneg]) heldNN (by simp [releasedBy]) hp, hp, step_max _ _⟩

theorem good_init (m : Int) : Good ((G.init m).sem, (G.init m).held) :=
  ⟨rfl, by intro w hw; simp [G.init] at hw, by intro w hw; simp [G.init, Sem.init] at hw,
   by intro w hw; simp [G.init, Sem.init] at hw, by simp [NoLost, G.init, Sem.init]⟩

theorem grun_inv (g : G) (ops : List COp) (h : Good (g.sem, g.held)) (hop : ∀ op ∈ ops, op.reqNonneg) :
    Good ((grun g ops).1.sem, (grun g ops).1.held) ∧ hasPanic (grun g ops).2 = false ∧
    (grun g ops).1.sem.max = g.sem.max := by
  induction ops generalizing g with
  | nil => exact ⟨h, rfl, rfl⟩
  | cons op ops ih =>
    rw [grun_cons]
    obtain ⟨h1, p1, m1⟩ := gstep_inv g op h (hop op (by simp))
    obtain ⟨h2, p2, m2⟩ := ih (gstep g op).1 h1 (fun o ho => hop o (by simp [ho]))
    exact ⟨h2, by simp [hasPanic_append, p1, p2], by rw [m2, m1]⟩

/-- the upper bound along client runs -/
theorem gstep_bounded (g : G) (op : COp) (h : Good (g.sem, g.held)) (hb : Bounded g.sem)
    (hop : op.reqNonneg) (hs : op.sizeOK g.sem.max) : Bounded (gstep g op).1.sem := by
  cases op with
  | acquire id n => simp only [gstep, toSemOp]; exact step_bounded _ _ hb (by simp [OpOK])
  | release id =>
    simp only [gstep, toSemOp]
    cases hf : findHeld id g.held with
    | none => exact hb
    | some w =>
      simp only
      exact step_bounded _ _ hb (h.heldNN w (findHeld_mem id g.held w hf))
  | updActual n => simp only [gstep, toSemOp]; exact step_bounded _ _ hb (by simp [OpOK])
  | updSize n => simp only [gstep, toSemOp]; exact step_bounded _ _ hb hs
  | updFreeUsed f u => simp only [gstep, toSemOp]; exact step_bounded _ _ hb (by simp [OpOK])

theorem grun_bounded (g : G) (ops : List COp) (h : Good (g.sem, g.held)) (hb : Bounded g.sem)
    (hop : ∀ op ∈ ops, op.reqNonneg) (hs : ∀ op ∈ ops, op.sizeOK g.sem.max) :
    Bounded (grun g ops).1.sem := by
  induction ops generalizing g with
  | nil => exact hb
  | cons op ops ih =>
    rw [grun_cons]
    obtain ⟨h1, _, m1⟩ := gstep_inv g op h (hop op (by simp))
    apply ih (gstep g op).1 h1 (gstep_bounded g op h hb (hop op (by simp)) (hs op (by simp)))
    · intro o ho; exact hop o (by simp [ho])
    · intro o ho; rw [m1]; exact hs o (by simp [ho])

/-! ### decidability (for the non-vacuity examples) -/

instance (m : Int) (op : SemOp) : Decidable (OpOK m op) := by
  cases op <;> simp only [OpOK] <;> infer_instance

instance (op : COp) : Decidable op.reqNonneg := by
  cases op <;> simp only [COp.reqNonneg] <;> infer_instance

instance (m : Int) (op : COp) : Decidable (op.sizeOK m) := by
  cases op <;> simp only [COp.sizeOK] <;> infer_instance

instance (s : Sem) : Decidable (NoLost s) := by
  unfold NoLost
  cases s.waiters <;> simp only <;> infer_instance

instance (c : LocalCfg) : Decidable (Sane c) := by
  unfold Sane; infer_instance

end Martian.Semaphore
