import Proofs.FormatPipeRange
import Proofs.FormatCallRangeText
import Proofs.FormatCallRangeMods
import Proofs.FormatPipeParse

/-!
C09, accepted texts of pipelines: from the range of `pPipeline` to `wfPipeline` of
what Go holds, the normal form (calls in `topoSort` order, each in normal form) is
fixed by the canonicaliser, and the text-side theorem `format_accepted_pipeline`.

Core Lean only.
-/

namespace Martian.FormatCallText
open Martian.Lexer (Bytes)
open Martian.FormatExp Martian.FormatCall2 Martian.FormatDecl Martian.FormatPipe

theorem parsePipelineG_inv {g : Bytes → Bytes} {src : Bytes} {p : Pipeline}
    (h : parsePipelineG g src = some p) : ∃ p0, parsePipeline src = some p0 ∧ p = canonPipeline g p0 := by
  unfold parsePipelineG at h
  cases h0 : parsePipeline src with
  | none => simp [h0] at h
  | some p0 =>
    simp only [h0, Option.map_some, Option.some.injEq] at h
    exact ⟨p0, rfl, h.symm⟩

theorem all_wfParam_of_raw (ps : List Param) (hr : ps.all pipeParamRaw = true)
    (hs : paramsStrsValid ps = true) : ps.all Martian.FormatDecl.wfParam = true := by
  unfold paramsStrsValid at hs
  induction ps with
  | nil => rfl
  | cons p r ih =>
    simp only [List.all_cons, Bool.and_eq_true] at hr hs ⊢
    refine ⟨?_, ih hr.2 hs.2⟩
    have h1 := hr.1
    simp only [pipeParamRaw, Bool.and_eq_true] at h1
    simp only [Martian.FormatDecl.wfParam, Bool.and_eq_true]
    exact ⟨⟨⟨⟨h1.1.1, h1.1.2⟩, hs.1.1⟩, hs.1.2⟩, h1.2⟩

theorem wfPipeline_canon (g : Bytes → Bytes) (hg : GOK g) (p : Pipeline) (hr : wfPipelineRaw p = true)
    (hs : pipeStrsValid (canonPipeline g p) = true) (hz : pipeNoNegZero (canonPipeline g p) = true)
    (hd : pipeModsDistinct (canonPipeline g p) = true)
    (hc : pipeCallsDistinct (canonPipeline g p) = true) : wfPipeline (canonPipeline g p) = true := by
  simp only [wfPipelineRaw, Bool.and_eq_true] at hr
  simp only [pipeStrsValid, canonPipeline, Bool.and_eq_true] at hs
  simp only [pipeNoNegZero, pipeModsDistinct, pipeCallsDistinct, canonPipeline] at hz hd hc
  simp only [wfPipeline, canonPipeline, Bool.and_eq_true]
  exact ⟨⟨⟨⟨⟨⟨hr.1.1.1.1.1, all_wfParam_of_raw _ hr.1.1.1.1.2 hs.1.1⟩, hr.1.1.1.2⟩,
    all_wfParam_of_raw _ hr.1.1.2 hs.1.2⟩, hr.1.2⟩, wfBody_canon g hg p.body hr.2 hs.2 hz hd⟩, hc⟩

theorem map_norm_fixed (g : Bytes → Bytes) (L : List Call2) (h : ∀ c ∈ L, FixCall g c) :
    (L.map normCall2).map (canonCall2 g) = L.map normCall2 := by
  rw [List.map_map]
  apply List.map_congr_left
  intro c hc
  exact h c hc

theorem canonPipeline_norm_fixed (g : Bytes → Bytes) (hg : GOK g) (p : Pipeline)
    (hr : wfPipelineRaw p = true) (hw : wfPipeline (canonPipeline g p) = true) :
    canonPipeline g (normPipeline (canonPipeline g p)) = normPipeline (canonPipeline g p) := by
  simp only [wfPipelineRaw, Bool.and_eq_true] at hr
  obtain ⟨_, _, _, _, _, hb, _⟩ := wfPipeline_parts hw
  have hbr := hr.2
  have hfc := fixCall_body g hg p.body hbr hb
  simp only [wfBodyRaw, Bool.and_eq_true] at hbr
  have hb' := hb
  simp only [canonPipeline, wfBody, canonBody, Bool.and_eq_true] at hb'
  have hcalls : ∀ c ∈ sortCalls p.id (p.body.calls.map (canonCall2 g)), FixCall g c := by
    intro c hc
    exact hfc c ((sortCalls_perm' p.id _).mem_iff.mp hc)
  simp only [canonPipeline, normPipeline, canonBody, normBody, sortBody,
    map_norm_fixed g _ hcalls, canonRet_norm_fixed g hg p.body.ret hbr.1.2 hb'.1.2,
    canonRetain_raw g p.body.retain hbr.2]

/-- what the parser holds for an accepted pipeline is well formed, up to F6b, F26, a duplicate
modifier id and F34 (duplicate call ids) -/
theorem parsePipelineG_wf (g : Bytes → Bytes) (hg : GOK g) (src : Bytes) (p : Pipeline)
    (h : parsePipelineG g src = some p) (hs : pipeStrsValid p = true) (hz : pipeNoNegZero p = true)
    (hd : pipeModsDistinct p = true) (hc : pipeCallsDistinct p = true) : wfPipeline p = true := by
  obtain ⟨p0, h0, rfl⟩ := parsePipelineG_inv h
  exact wfPipeline_canon g hg p0 (parsePipeline_range src p0 h0) hs hz hd hc

theorem format_accepted_pipeline (g : Bytes → Bytes) (hg : GOK g) (src : Bytes) (p : Pipeline)
    (h : parsePipelineG g src = some p) (hs : pipeStrsValid p = true) (hz : pipeNoNegZero p = true)
    (hd : pipeModsDistinct p = true) (hc : pipeCallsDistinct p = true) :
    parsePipelineG g (fmtPipeline p) = some (normPipeline p) ∧
      fmtPipeline (normPipeline p) = fmtPipeline p ∧
      parsePipelineG g (fmtPipeline (normPipeline p)) = some (normPipeline p) := by
  obtain ⟨p0, h0, rfl⟩ := parsePipelineG_inv h
  have hr := parsePipeline_range src p0 h0
  have hw := wfPipeline_canon g hg p0 hr hs hz hd hc
  have hfix := canonPipeline_norm_fixed g hg p0 hr hw
  have h1 : parsePipelineG g (fmtPipeline (canonPipeline g p0)) = some (normPipeline (canonPipeline g p0)) := by
    simp only [parsePipelineG, parsePipeline_fmtPipeline _ hw, Option.map_some, hfix]
  refine ⟨h1, fmtPipeline_norm _ hw, ?_⟩
  rw [fmtPipeline_norm _ hw]
  exact h1

end Martian.FormatCallText
