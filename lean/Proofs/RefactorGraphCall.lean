/-
C19 — renameCallable leaves the resolved call graph unchanged modulo the
renamed callable (on the id-erased program: `renameDec`, see
`Props.C19.rename_callgraph_partial`).
-/
import Proofs.RefactorGraphLemmas
import Proofs.RefactorRename

namespace Proofs.RefactorGraph
open Martian.Refactor

section Post
variable (g : String → List String → String × List String)

theorem lookupRef_post (hg : PathStable g) (self : Env) (sib : String → RExp) (r : Ref) :
    lookupRef (mapVals (mapSref g) self) (fun id => mapSref g (sib id)) r
      = mapSref g (lookupRef self sib r) := by
  unfold lookupRef
  cases r.kind with
  | self =>
    simp only
    rw [envGet_mapVals _ (mapSref_rnull g), (bindingPath_mapSref_all g hg _).1]
  | call =>
    simp only
    rw [(bindingPath_mapSref_all g hg _).1]

theorem rrefs_mapSref (v : RExp) : rrefs (mapSref g v) = (rrefs v).map (mapSref g) := by
  induction v with
  | lit s => rfl
  | sref fq c p => rfl
  | split e ih => simpa [rrefs, mapSref] using ih
  | arr es ih => simpa [rrefs, mapSref] using ih
  | map st es ih => simpa [rrefs, mapSref] using ih
  | nil => rfl
  | cons k h t ih1 ih2 => simp [rrefs, mapSref, ih1, ih2]

end Post

theorem resolveBinds_ti_ok (ti ti' : TypeInfo) (ok : String → Prop)
    (hmo : ∀ base, ok base → membersOf ti' base = membersOf ti base)
    (hclosed : ∀ base ms, ok base → membersOf ti base = some ms → ∀ m ∈ ms, ok m.2.base)
    (tys : Members) (htys : ∀ m ∈ tys, ok m.2.base) (f : Ref → RExp) (bs : List Bind) :
    resolveBinds ti' tys f bs = resolveBinds ti tys f bs := by
  unfold resolveBinds
  apply List.map_congr_left
  intro bd _
  cases hl : tys.lookup bd.name with
  | none => rfl
  | some ty =>
    simp only
    rw [(filter_congr_all (membersOf ti) (membersOf ti') ok hmo hclosed _).1 ty
      (htys _ (mem_of_lookup _ _ _ hl))]

theorem find_map_inj (F : Callable → Callable) (n n' : String) (l : List Callable)
    (h : ∀ c ∈ l, ((F c).name == n') = (c.name == n)) :
    (l.map F).find? (·.name == n') = (l.find? (·.name == n)).map F := by
  induction l with
  | nil => rfl
  | cons a t ih =>
    simp only [List.map_cons, List.find?_cons, h a (List.mem_cons_self ..)]
    cases hc : (a.name == n)
    · simp only []
      exact ih (fun c hc' => h c (List.mem_cons_of_mem _ hc'))
    · simp

theorem typesAvoid_parts {x : String} {ti : TypeInfo} (h : typesAvoid x ti = true) :
    x ∉ ti.structs.map (·.1)
    ∧ (∀ s ∈ ti.structs, ∀ m ∈ s.2, m.2.base ≠ x)
    ∧ (∀ s ∈ ti.ins, ∀ m ∈ s.2, m.2.base ≠ x)
    ∧ (∀ s ∈ ti.outs, ∀ m ∈ s.2, m.2.base ≠ x) := by
  simp only [typesAvoid, Bool.and_eq_true, Bool.not_eq_true', List.contains_eq_mem,
    decide_eq_false_iff_not, List.all_eq_true, bne_iff_ne, ne_eq] at h
  exact ⟨h.1.1.1, h.1.1.2, h.1.2, h.2⟩

theorem pipeOKCall_parts {x : String} {c : Callable} (h : pipeOKCall x c = true) :
    (c.isPipe = true ∨ c.calls = [])
    ∧ (callIds c).Nodup
    ∧ (∀ k ∈ c.calls, noStar k.binds = true)
    ∧ noStar c.ret = true
    ∧ (c.name = x → ∀ k ∈ c.calls, k.decId ≠ x) := by
  simp only [pipeOKCall, Bool.and_eq_true, Bool.or_eq_true, List.all_eq_true, decide_eq_true_eq,
    bne_iff_ne, ne_eq, List.isEmpty_iff] at h
  obtain ⟨⟨⟨⟨h1, h2⟩, h3⟩, h4⟩, h5⟩ := h
  refine ⟨h1, h2, h3, h4, ?_⟩
  intro hn
  cases h5 with
  | inl h => exact absurd hn h
  | inr h => exact h

def FDec (x y : String) (c : Callable) : Callable :=
  if c.name = x then { c with name := y }
  else { c with calls := c.calls.map (fun k => if k.decId = x then { k with decId := y } else k) }

def GDec (x y : String) (pipe : Callable) (k : Call) : Call :=
  if pipe.name = x then k else (if k.decId = x then { k with decId := y } else k)

theorem membersOf_mem (ti : TypeInfo) (base : String) (ms : Members) (h : membersOf ti base = some ms) :
    (base, ms) ∈ ti.structs ∨ (base, ms) ∈ ti.outs := by
  unfold membersOf at h
  cases hs : ti.structs.lookup base with
  | some ms' =>
    simp only [hs] at h
    cases h
    exact Or.inl (mem_of_lookup _ _ _ hs)
  | none =>
    simp only [hs] at h
    exact Or.inr (mem_of_lookup _ _ _ h)

theorem renameDec_graph (x y : String) (ti : TypeInfo) (q : Program)
    (hok : RenCallOK x y ti q = true) :
    deepGraph (ti.renameCallable x y) (renameDec x y q)
      = (deepGraph ti q).map (renNodeCallable x y) := by
  simp only [RenCallOK, Bool.and_eq_true, bne_iff_ne, ne_eq, List.all_eq_true, Bool.not_eq_true',
    List.contains_eq_mem, decide_eq_false_iff_not, List.any_eq_false, beq_iff_eq] at hok
  obtain ⟨⟨⟨⟨⟨⟨⟨⟨⟨⟨⟨hx, hy⟩, hxy⟩, hfx⟩, hny⟩, hcy⟩, hall⟩, htopok⟩, hax⟩, hay⟩, hiy⟩, hoy⟩ := hok
  have hax' := typesAvoid_parts hax
  have hay' := typesAvoid_parts hay
  have hstable : PathStable (fun c path => (renName x y c, path)) := by intro c p q'; rfl
  have hp' : renameDec x y q = Program.mk (q.callables.map (FDec x y))
      (q.top.map (fun k => if k.decId = x then { k with decId := y } else k)) := rfl
  let ok : String → Prop := fun base => base ≠ x ∧ base ≠ y
  have hmo : ∀ base, ok base → membersOf (ti.renameCallable x y) base = membersOf ti base := by
    intro base hb
    simp only [membersOf, TypeInfo.renameCallable]
    rw [lookup_renTop_other x y base ti.outs hb.1 hb.2]
  have hclosed : ∀ base ms, ok base → membersOf ti base = some ms → ∀ m ∈ ms, ok m.2.base := by
    intro base ms _ hm m hmm
    cases membersOf_mem ti base ms hm with
    | inl h => exact ⟨hax'.2.1 _ h m hmm, hay'.2.1 _ h m hmm⟩
    | inr h => exact ⟨hax'.2.2.2 _ h m hmm, hay'.2.2.2 _ h m hmm⟩
  have hinsOK : ∀ n, ∀ m ∈ insOf ti n, ok m.2.base := by
    intro n m hm
    unfold insOf at hm
    cases hl : ti.ins.lookup n with
    | none => simp [hl] at hm
    | some ms =>
      simp only [hl, Option.getD_some] at hm
      have := mem_of_lookup _ _ _ hl
      exact ⟨hax'.2.2.1 _ this m hm, hay'.2.2.1 _ this m hm⟩
  have houtsOK : ∀ n, ∀ m ∈ outsOf ti n, ok m.2.base := by
    intro n m hm
    unfold outsOf at hm
    cases hl : ti.outs.lookup n with
    | none => simp [hl] at hm
    | some ms =>
      simp only [hl, Option.getD_some] at hm
      have := mem_of_lookup _ _ _ hl
      exact ⟨hax'.2.2.2 _ this m hm, hay'.2.2.2 _ this m hm⟩
  have hins : ∀ n, n ≠ y → insOf (ti.renameCallable x y) (renName x y n) = insOf ti n := by
    intro n hn
    simp only [insOf, TypeInfo.renameCallable, renName]
    split
    · rename_i h; rw [h, lookup_renTop_new x y ti.ins hiy]
    · rename_i h; rw [lookup_renTop_other x y n ti.ins h hn]
  have houts : ∀ n, n ≠ y → outsOf (ti.renameCallable x y) (renName x y n) = outsOf ti n := by
    intro n hn
    simp only [outsOf, TypeInfo.renameCallable, renName]
    split
    · rename_i h; rw [h, lookup_renTop_new x y ti.outs hoy]
    · rename_i h; rw [lookup_renTop_other x y n ti.outs h hn]
  have hnamey : ∀ c ∈ q.callables, c.name ≠ y := fun c hc => hny c hc
  have hFname : ∀ c, (FDec x y c).name = renName x y c.name := by
    intro c; unfold FDec renName; split <;> rfl
  have hfindG : ∀ n, n ≠ y → q.find? (renName x y n) = q.find? (renName x y n) := fun _ _ => rfl
  have hfind : ∀ n, n ≠ y → (renameDec x y q).find? (renName x y n) = (q.find? n).map (FDec x y) := by
    intro n hn
    rw [hp']
    unfold Program.find?
    apply find_map_inj
    intro c hc
    rw [hFname]
    have hcy' := hnamey c hc
    unfold renName
    by_cases h1 : c.name = x
    · by_cases h2 : n = x
      · simp [h1, h2]
      · have : ¬ y = n := fun h => hn h.symm
        have h3 : ¬ x = n := fun h => h2 h.symm
        have e1 : (y == n) = false := by simpa using this
        have e2 : (x == n) = false := by simpa using h3
        simp [h1, h2, e1, e2]
    · by_cases h2 : n = x
      · have h3 : ¬ c.name = n := fun h => h1 (h.trans h2)
        have e1 : (c.name == y) = false := by simpa using hcy'
        have e2 : (c.name == x) = false := by simpa using h1
        simp [h1, h2, e1, e2]
      · simp [h1, h2]
  have H : SimHyp ti (ti.renameCallable x y) q (renameDec x y q) (renName x y) (FDec x y) (GDec x y)
      (fun _ env => mapVals (mapSref (fun c path => (renName x y c, path))) env) (fun _ _ v => (mapSref (fun c path => (renName x y c, path))) v) (mapSref (fun c path => (renName x y c, path)))
      (fun c => pipeOKCall x c = true ∧ c.name ≠ y ∧ ∀ k ∈ c.calls, k.decId ≠ y)
      (fun _ _ => True) (fun _ _ => True) (fun n => n ≠ y) (fun _ _ => true) := by
    refine { hfind1 := ?_, hfind0 := ?_, hrel := ?_, hF := ?_, hcalls := ?_, hGid := ?_, hGdec := ?_, hfirst := ?_,
             hO0 := ?_, hOs := ?_, o0 := ?_, o0s := ?_, o1 := ?_, o2 := ?_, c5 := ?_, c6 := ?_, c7 := ?_ }
    · intro n d hd
      have hdm := find_mem q n d hd
      have hn : n ≠ y := (find_name q n d hd) ▸ hnamey d hdm
      refine ⟨?_, hall d hdm, hnamey d hdm, fun k hk => hcy d hdm k hk⟩
      rw [hfind n hn, hd]; rfl
    · intro n hn hd
      rw [hfind n hn, hd]; rfl
    · intro pipe hg k hk
      exact hg.2.2 k hk
    · intro c _
      unfold FDec
      split <;> simp [renName, *]
    · intro pipe hg
      rw [show (pipe.calls.filter (fun k => (fun (_ : Callable) (_ : String) => true) pipe k.id)) = pipe.calls from filter_true' _]
      unfold FDec GDec
      split
      · simp
      · rfl
    · intro pipe k
      unfold GDec
      split
      · rfl
      · split <;> rfl
    · intro pipe hg k hk
      unfold GDec renName
      split
      · rename_i hn
        have := (pipeOKCall_parts hg.1).2.2.2.2 hn k hk
        simp [this]
      · split
        · rename_i h; simp [h]
        · rename_i h; simp [h]
    · intro pipe hg
      exact first_of_nodup pipe (pipeOKCall_parts hg.1).2.1
    · intros; rfl
    · intro d fq _ _; rfl
    · intros; trivial
    · intros; trivial
    · intros; trivial
    · intros; trivial
    · -- c5
      intro pipe self sib sib' k d id hg _ _ hag _ hk hd
      have hs' := sibAgree_true hag
      subst hs'
      have hparts := pipeOKCall_parts hg.1
      have hkm := (call_mem pipe id k hk).1
      have hdname := find_name q _ d hd
      have hdy : d.name ≠ y := hnamey d (find_mem q _ d hd)
      have hns := hparts.2.2.1 k hkm
      have hOsib : Osib q (fun _ _ v => (mapSref (fun c path => (renName x y c, path))) v) pipe sib = fun id => (mapSref (fun c path => (renName x y c, path))) (sib id) := rfl
      have hGb : (GDec x y pipe k).binds = k.binds := by
        unfold GDec; split
        · rfl
        · split <;> rfl
      rw [hOsib]
      unfold callIns
      rw [hGb, expandWild_noStar _ _ _ _ hns, expandWild_noStar _ _ _ _ hns, hFname, hins _ hdy]
      have : (lookupRef (mapVals (mapSref (fun c path => (renName x y c, path))) self) fun id => (mapSref (fun c path => (renName x y c, path))) (sib id)) = fun r => (mapSref (fun c path => (renName x y c, path))) (lookupRef self sib r) := by
        funext r; exact lookupRef_post _ hstable self sib r
      rw [this, resolveBinds_ti_ok ti _ ok hmo hclosed _ (hinsOK d.name)]
      exact resolveBinds_post _ ti _ _ _
    · -- c6
      intro d ins sib sib' hg hp _ _ hag
      have hs' := sibAgree_true hag
      subst hs'
      have hparts := pipeOKCall_parts hg.1
      have hOsib : Osib q (fun _ _ v => (mapSref (fun c path => (renName x y c, path))) v) d sib = fun id => (mapSref (fun c path => (renName x y c, path))) (sib id) := rfl
      have hdy : d.name ≠ y := hg.2.1
      have hret : (FDec x y d).ret = d.ret := by unfold FDec; split <;> rfl
      rw [hOsib]
      unfold pipeOuts
      rw [hret, expandWild_noStar _ _ _ _ hparts.2.2.2.1, expandWild_noStar _ _ _ _ hparts.2.2.2.1,
          hFname, houts _ hdy]
      have : (lookupRef (mapVals (mapSref (fun c path => (renName x y c, path))) ins) fun id => (mapSref (fun c path => (renName x y c, path))) (sib id)) = fun r => (mapSref (fun c path => (renName x y c, path))) (lookupRef ins sib r) := by
        funext r; exact lookupRef_post _ hstable ins sib r
      rw [this, resolveBinds_ti_ok ti _ ok hmo hclosed _ (houtsOK d.name), resolveBinds_post]
      show _ = mapSref _ _
      simp only [mapSref]
      rw [envEntries_mapVals]
    · -- c7
      intro d ins sib sib' hg hp _ _ hag
      have hs' := sibAgree_true hag
      subst hs'
      have hOsib : Osib q (fun _ _ v => (mapSref (fun c path => (renName x y c, path))) v) d sib = fun id => (mapSref (fun c path => (renName x y c, path))) (sib id) := rfl
      have hret : (FDec x y d).retain = d.retain := by unfold FDec; split <;> rfl
      rw [hOsib]
      unfold pipeRetained
      rw [hret, List.map_flatMap]
      apply flatMap_congr'
      intro r _
      rw [lookupRef_post _ hstable ins sib r]
      exact rrefs_mapSref _ _
  have hmap : nodeMap (renName x y) (fun _ env => mapVals (mapSref (fun c path => (renName x y c, path))) env)
      (fun _ _ v => (mapSref (fun c path => (renName x y c, path))) v)
      (mapSref (fun c path => (renName x y c, path))) = renNodeCallable x y := by
    funext n; rfl
  rw [← deepGraphKeep_true ti q, ← hmap]
  apply sim_graph H
  · intro t ht
    have htop : t.decId ≠ y ∧ pipeOKCall x (topPipe t) = true := by simpa [ht] using htopok
    refine ⟨?_, ?_, ⟨htop.2, ?_, ?_⟩, trivial, rfl⟩
    · rw [hp']; simp [ht, GDec, topPipe, Ne.symm hx]
    · simp [GDec, FDec, topPipe, Ne.symm hx]
    · simp [topPipe, Ne.symm hy]
    · intro k hk
      simp [topPipe] at hk
      rw [hk]; exact htop.1
  · intro ht; rw [hp']; simp [ht]
  · rfl
  · rw [hp']
    simp only [graphFuel, List.map_map]
    congr 2
    apply List.map_congr_left
    intro c _
    simp only [Function.comp, FDec]
    split <;> simp

end Proofs.RefactorGraph
