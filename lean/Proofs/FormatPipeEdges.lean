import Martian.FormatPipe
import Proofs.FormatPipeClosure
import Proofs.FormatCall2Norm

/-! The dependency edges between the calls of a pipeline (`callEdges`, the model of
`directDepsMap`): membership; invariance under the normal form of calls; the edges of a
rearranged list of calls with distinct ids are the relabelled edges; `sortCalls` is a
permutation, respects dependencies, commutes with the normal form and is idempotent. -/
namespace Martian.FormatPipe
open Martian.Lexer (Bytes parseInt)
open Martian.Format Martian.FormatExp Martian.FormatCall Martian.FormatCall2

/-! ## references survive the normal form -/

mutual
theorem refIds_norm : ∀ e : Exp, refIds (norm e) = refIds e
  | .null => rfl
  | .nilArr => rfl
  | .bool _ => rfl
  | .int _ => rfl
  | .str _ => rfl
  | .ref .. => rfl
  | .float t => by
    by_cases hft : isFloatTok t = true
    · simp [norm, hft]
    · cases hp : parseInt t with
      | none => simp [norm, hft, hp]
      | some i => simp [norm, hft, hp, refIds]
  | .arr xs => by simp only [norm, refIds, refIdsL_norm xs]
  | .map kvs => by simp only [norm, refIds, refIdsKV_norm kvs]
  | .struct [] => rfl
  | .struct ((k, v) :: r) => by
    have := refIdsKV_norm ((k, v) :: r)
    simp only [normKV] at this
    simp only [norm, normKV, refIds, this]
theorem refIdsL_norm : ∀ xs : List Exp, refIdsL (normL xs) = refIdsL xs
  | [] => rfl
  | x :: r => by simp only [normL, refIdsL, refIds_norm x, refIdsL_norm r]
theorem refIdsKV_norm : ∀ kvs : List (Bytes × Exp), refIdsKV (normKV kvs) = refIdsKV kvs
  | [] => rfl
  | (k, v) :: r => by simp only [normKV, refIdsKV, refIds_norm v, refIdsKV_norm r]
end

theorem bindRefs_norm : ∀ bs : List Bind, bindRefs (bs.map normBind) = bindRefs bs
  | [] => rfl
  | b :: r => by simp only [List.map_cons, bindRefs, normBind, refIds_norm, bindRefs_norm r]

theorem mem_modRefs (x : Bytes) : ∀ l : List (Bytes × Exp),
    x ∈ modRefs l ↔ ∃ kv ∈ l, x ∈ refIds kv.2
  | [] => by simp [modRefs]
  | kv :: r => by simp [modRefs, mem_modRefs x r]

theorem mem_insMod (y kv : Bytes × Exp) : ∀ l : List (Bytes × Exp), y ∈ insMod kv l ↔ y = kv ∨ y ∈ l
  | [] => by simp [insMod]
  | z :: r => by
    unfold insMod
    split
    · simp only [List.mem_cons, mem_insMod y kv r]
      constructor
      · rintro (h | h | h)
        · exact Or.inr (Or.inl h)
        · exact Or.inl h
        · exact Or.inr (Or.inr h)
      · rintro (h | h | h)
        · exact Or.inr (Or.inl h)
        · exact Or.inl h
        · exact Or.inr (Or.inr h)
    · simp only [List.mem_cons]

theorem mem_sortMods (y : Bytes × Exp) : ∀ l : List (Bytes × Exp), y ∈ sortMods l ↔ y ∈ l
  | [] => by simp [sortMods]
  | kv :: r => by
    rw [sortMods_cons, mem_insMod, mem_sortMods y r]
    simp

theorem refs_addKw (x : Bytes) (on : Bool) (k : Bytes) (orig l : List (Bytes × Exp)) :
    x ∈ modRefs (addKw on k orig l) ↔ x ∈ modRefs l := by
  unfold addKw
  split
  · simp only [mem_modRefs, List.mem_append, List.mem_singleton]
    constructor
    · rintro ⟨kv, h | h, hx⟩
      · exact ⟨kv, h, hx⟩
      · subst h; simp [refIds] at hx
    · rintro ⟨kv, h, hx⟩
      exact ⟨kv, Or.inl h, hx⟩
  · rfl

/-- the `using` block of the normal form holds the same references -/
theorem mem_modRefs_modList (x : Bytes) (m : Mods) : x ∈ modRefs (modList m) ↔ x ∈ modRefs m.binds := by
  unfold modList
  rw [mem_modRefs]
  simp only [mem_sortMods]
  rw [← mem_modRefs]
  unfold convMods
  rw [refs_addKw, refs_addKw, refs_addKw]

/-- **The normal form of a call refers to the same calls.** -/
theorem mem_callRefs_norm (x : Bytes) (c : Call2) : x ∈ callRefs (normCall2 c) ↔ x ∈ callRefs c := by
  simp only [callRefs, normCall2, normMods, List.mem_append, bindRefs_norm, mem_modRefs_modList]

/-! ## `callMap` -/

theorem lastPos_none (x : Bytes) : ∀ cs : List Call2, lastPos x cs = none ↔ ∀ c ∈ cs, c.id ≠ x
  | [] => by simp [lastPos]
  | d :: r => by
    have ih := lastPos_none x r
    unfold lastPos
    cases h : lastPos x r with
    | some j =>
      simp only [reduceCtorEq, List.mem_cons, forall_eq_or_imp, false_iff, not_and]
      intro _ hall
      rw [ih.mpr hall] at h
      cases h
    | none =>
      simp only [List.mem_cons, forall_eq_or_imp]
      by_cases hd : d.id = x
      · simp [hd]
      · have hall := ih.mp h
        simp [hd]
        exact hall

/-- the position `callMap` returns holds a call with that id -/
theorem lastPos_some (x : Bytes) : ∀ (cs : List Call2) (j : Nat), lastPos x cs = some j →
    ∃ c, cs[j]? = some c ∧ c.id = x
  | [], j, h => by simp [lastPos] at h
  | d :: r, j, h => by
    unfold lastPos at h
    cases hr : lastPos x r with
    | some k =>
      rw [hr] at h
      simp only [Option.some.injEq] at h
      subst h
      obtain ⟨c, hc, hx⟩ := lastPos_some x r k hr
      exact ⟨c, by simpa using hc, hx⟩
    | none =>
      rw [hr] at h
      simp only at h
      split at h
      · rename_i hd
        simp only [Option.some.injEq] at h
        subst h
        exact ⟨d, by simp, hd⟩
      · cases h

/-- distinct ids as a `Nodup` statement -/
theorem distinct_iff_nodup : ∀ cs : List Call2, distinctCallIds cs = true ↔ (cs.map (·.id)).Nodup
  | [] => by simp [distinctCallIds]
  | c :: r => by
    simp only [distinctCallIds, Bool.and_eq_true, Bool.not_eq_true', List.map_cons, List.nodup_cons,
      distinct_iff_nodup r]
    constructor
    · rintro ⟨h1, h2⟩
      refine ⟨?_, h2⟩
      intro hm
      obtain ⟨d, hd, hid⟩ := List.mem_map.mp hm
      have : r.any (fun d => d.id == c.id) = true := List.any_eq_true.mpr ⟨d, hd, by simp [hid]⟩
      rw [h1] at this; cases this
    · rintro ⟨h1, h2⟩
      refine ⟨?_, h2⟩
      cases ha : r.any (fun d => d.id == c.id) with
      | false => rfl
      | true =>
        obtain ⟨d, hd, hid⟩ := List.any_eq_true.mp ha
        exact absurd (List.mem_map.mpr ⟨d, hd, by simpa using hid⟩) h1

theorem distinct_perm {a b : List Call2} (h : a.Perm b) (hd : distinctCallIds b = true) :
    distinctCallIds a = true := by
  rw [distinct_iff_nodup] at hd ⊢
  exact ((h.map _).nodup_iff).mpr hd

/-- with distinct ids, `callMap[c.Id]` is the call itself -/
theorem lastPos_of_distinct : ∀ (cs : List Call2) (j : Nat) (c : Call2), distinctCallIds cs = true →
    cs[j]? = some c → lastPos c.id cs = some j
  | [], j, c, _, h => by simp at h
  | d :: r, 0, c, hd, h => by
    simp only [List.getElem?_cons_zero, Option.some.injEq] at h
    subst h
    simp only [distinctCallIds, Bool.and_eq_true, Bool.not_eq_true'] at hd
    have hn : lastPos d.id r = none := by
      rw [lastPos_none]
      intro c hc he
      have : r.any (fun e => e.id == d.id) = true := List.any_eq_true.mpr ⟨c, hc, by simp [he]⟩
      rw [hd.1] at this; cases this
    unfold lastPos
    simp [hn]
  | d :: r, j + 1, c, hd, h => by
    simp only [List.getElem?_cons_succ] at h
    simp only [distinctCallIds, Bool.and_eq_true] at hd
    have ih := lastPos_of_distinct r j c hd.2 h
    unfold lastPos
    simp [ih]

theorem lastPos_map_norm (x : Bytes) : ∀ cs : List Call2, lastPos x (cs.map normCall2) = lastPos x cs
  | [] => rfl
  | c :: r => by
    simp only [List.map_cons, lastPos, lastPos_map_norm x r, normCall2]

/-! ## membership in `callEdges` -/

theorem mem_edgesFrom (all : List Call2) (i : Nat) (c : Call2) (a b : Nat) :
    (a, b) ∈ edgesFrom all i c ↔ a = i ∧ ∃ x ∈ callRefs c, lastPos x all = some b := by
  unfold edgesFrom
  simp only [List.mem_filterMap, Option.map_eq_some_iff, Prod.mk.injEq]
  constructor
  · rintro ⟨x, hx, j, hj, rfl, rfl⟩
    exact ⟨rfl, x, hx, hj⟩
  · rintro ⟨rfl, x, hx, hj⟩
    exact ⟨x, hx, b, hj, rfl, rfl⟩

theorem mem_callEdgesAux (all : List Call2) (a b : Nat) : ∀ (cs : List Call2) (i : Nat),
    (a, b) ∈ callEdgesAux all i cs ↔
      ∃ k c, cs[k]? = some c ∧ a = i + k ∧ ∃ x ∈ callRefs c, lastPos x all = some b
  | [], i => by simp [callEdgesAux]
  | d :: r, i => by
    simp only [callEdgesAux, List.mem_append, mem_edgesFrom, mem_callEdgesAux all a b r (i + 1)]
    constructor
    · rintro (⟨rfl, h⟩ | ⟨k, c, hc, rfl, h⟩)
      · exact ⟨0, d, by simp, rfl, h⟩
      · exact ⟨k + 1, c, by simpa using hc, by omega, h⟩
    · rintro ⟨k, c, hc, rfl, h⟩
      cases k with
      | zero =>
        simp only [List.getElem?_cons_zero, Option.some.injEq] at hc
        subst hc
        exact Or.inl ⟨rfl, h⟩
      | succ k =>
        simp only [List.getElem?_cons_succ] at hc
        exact Or.inr ⟨k, c, hc, by omega, h⟩

/-- **`directDepsMap` on positions**: call `a` depends on call `b` iff `a` holds a reference to
an id which `callMap` resolves to `b` -/
theorem mem_callEdges (cs : List Call2) (a b : Nat) :
    (a, b) ∈ callEdges cs ↔ ∃ c, cs[a]? = some c ∧ ∃ x ∈ callRefs c, lastPos x cs = some b := by
  unfold callEdges
  rw [mem_callEdgesAux]
  constructor
  · rintro ⟨k, c, hc, rfl, h⟩
    exact ⟨c, by simpa using hc, h⟩
  · rintro ⟨c, hc, h⟩
    exact ⟨a, c, hc, by omega, h⟩

/-- both ends of a dependency are calls of the pipeline -/
theorem callEdges_lt (cs : List Call2) (a b : Nat) (h : (a, b) ∈ callEdges cs) :
    a < cs.length ∧ b < cs.length := by
  obtain ⟨c, hc, x, _, hx⟩ := (mem_callEdges cs a b).mp h
  obtain ⟨c', hc', _⟩ := lastPos_some x cs b hx
  exact ⟨(List.getElem?_eq_some_iff.mp hc).1, (List.getElem?_eq_some_iff.mp hc').1⟩

/-- **Normalising the calls does not change the dependencies.** -/
theorem callEdges_norm (cs : List Call2) (a b : Nat) :
    (a, b) ∈ callEdges (cs.map normCall2) ↔ (a, b) ∈ callEdges cs := by
  simp only [mem_callEdges, lastPos_map_norm, List.getElem?_map, Option.map_eq_some_iff]
  constructor
  · rintro ⟨c, ⟨c0, hc0, rfl⟩, x, hx, hl⟩
    exact ⟨c0, hc0, x, (mem_callRefs_norm x c0).mp hx, hl⟩
  · rintro ⟨c, hc, x, hx, hl⟩
    exact ⟨normCall2 c, ⟨c, hc, rfl⟩, x, (mem_callRefs_norm x c).mpr hx, hl⟩

theorem any_congr_mem {α : Type} (p : α → Bool) (l1 l2 : List α) (h : ∀ x, x ∈ l1 ↔ x ∈ l2) :
    l1.any p = l2.any p := by
  rw [Bool.eq_iff_iff]
  simp only [List.any_eq_true]
  constructor
  · rintro ⟨x, hx, hp⟩; exact ⟨x, (h x).mp hx, hp⟩
  · rintro ⟨x, hx, hp⟩; exact ⟨x, (h x).mpr hx, hp⟩

theorem depsError_norm (pid : Bytes) (cs : List Call2) :
    depsError pid (cs.map normCall2) = depsError pid cs := by
  unfold depsError
  congr 1
  · simp only [List.any_map]
    rfl
  · exact any_congr_mem _ _ _ (fun e => callEdges_norm cs e.1 e.2)

/-! ## picking calls by position -/

theorem pick_nil (cs : List Call2) : pick cs [] = [] := rfl

theorem pick_cons_of_lt (cs : List Call2) (i : Nat) (l : List Nat) (h : i < cs.length) :
    pick cs (i :: l) = cs[i] :: pick cs l := by
  simp [pick, List.filterMap_cons, List.getElem?_eq_getElem h]

theorem pick_range : ∀ cs : List Call2, pick cs (List.range cs.length) = cs
  | [] => rfl
  | c :: r => by
    have ih := pick_range r
    simp only [List.length_cons, List.range_succ_eq_map, pick, List.filterMap_cons,
      List.getElem?_cons_zero, List.filterMap_map] at ih ⊢
    congr 1

theorem pick_map (f : Call2 → Call2) (cs : List Call2) : ∀ l : List Nat,
    pick (cs.map f) l = (pick cs l).map f
  | [] => rfl
  | i :: l => by
    have ih := pick_map f cs l
    simp only [pick, List.filterMap_cons, List.getElem?_map] at ih ⊢
    cases h : cs[i]? with
    | none => simpa using ih
    | some c => simpa using ih

theorem pick_perm (cs : List Call2) (l : List Nat) (h : l.Perm (List.range cs.length)) :
    (pick cs l).Perm cs := by
  have := h.filterMap (fun i => cs[i]?)
  rw [show List.filterMap (fun i => cs[i]?) (List.range cs.length) = cs from pick_range cs] at this
  exact this

/-- the call at position `i` of `pick cs l` is the call `l[i]` of `cs` -/
theorem pick_getElem? (cs : List Call2) : ∀ (l : List Nat), (∀ x ∈ l, x < cs.length) →
    ∀ i : Nat, (pick cs l)[i]? = (l[i]?).bind (fun k => cs[k]?)
  | [], _, i => by simp [pick]
  | x :: l, h, i => by
    have hx : x < cs.length := h x (by simp)
    rw [pick_cons_of_lt cs x l hx]
    cases i with
    | zero => simp [List.getElem?_eq_getElem hx]
    | succ i =>
      simp only [List.getElem?_cons_succ]
      exact pick_getElem? cs l (fun y hy => h y (by simp [hy])) i

theorem getD_of_getElem? {l : List Nat} {i a : Nat} (h : l[i]? = some a) : l.getD i 0 = a := by
  simp [List.getD_eq_getElem?_getD, h]

/-- **The dependencies of rearranged calls are the relabelled dependencies**: when the ids are
distinct, a dependency between positions `i`, `j` of the rearranged list is a dependency between
the calls `L[i]`, `L[j]` of the original list. -/
theorem callEdges_pick (cs : List Call2) (L : List Nat) (hd : distinctCallIds cs = true)
    (hL : ∀ x ∈ L, x < cs.length) (i j : Nat) (h : (i, j) ∈ callEdges (pick cs L)) :
    (L.getD i 0, L.getD j 0) ∈ callEdges cs := by
  obtain ⟨c, hc, x, hx, hl⟩ := (mem_callEdges _ i j).mp h
  obtain ⟨c', hc', hid⟩ := lastPos_some x _ j hl
  rw [pick_getElem? cs L hL] at hc hc'
  cases hi : L[i]? with
  | none => rw [hi] at hc; cases hc
  | some a =>
    cases hj : L[j]? with
    | none => rw [hj] at hc'; cases hc'
    | some b =>
      rw [hi] at hc; rw [hj] at hc'
      simp only [Option.bind_some] at hc hc'
      rw [getD_of_getElem? hi, getD_of_getElem? hj, mem_callEdges]
      refine ⟨c, hc, x, hx, ?_⟩
      rw [← hid]
      exact lastPos_of_distinct cs b c' hd hc'

/-! ## `sortCalls` -/

theorem topoSort_lt (n : Nat) (edges : List (Nat × Nat)) : ∀ x ∈ topoSort n edges, x < n := by
  intro x hx
  have := (topoSort_perm' n edges).subset hx
  simpa using this

/-- **Permutation.**  `topoSort` on a pipeline never loses, duplicates or invents a call. -/
theorem sortCalls_perm' (pid : Bytes) (cs : List Call2) : (sortCalls pid cs).Perm cs := by
  unfold sortCalls
  split
  · exact List.Perm.refl _
  · exact pick_perm cs _ (topoSort_perm' _ _)

theorem sortCalls_length (pid : Bytes) (cs : List Call2) : (sortCalls pid cs).length = cs.length :=
  (sortCalls_perm' pid cs).length_eq

/-- **The normal form commutes with the sort.** -/
theorem sortCalls_norm (pid : Bytes) (cs : List Call2) :
    sortCalls pid (cs.map normCall2) = (sortCalls pid cs).map normCall2 := by
  unfold sortCalls
  rw [depsError_norm, List.length_map, topoSort_congr cs.length _ _ (callEdges_norm cs), pick_map]
  split <;> rfl

/-- on an error or a cycle the calls stay where they are -/
theorem sortCalls_of_cycle (pid : Bytes) (cs : List Call2) (h : callCycle cs = true) :
    sortCalls pid cs = cs := by
  unfold sortCalls
  split
  · rfl
  · unfold callCycle closedDeps at h
    unfold topoSort
    simp only [h, ↓reduceIte]
    exact pick_range cs

/-- **Idempotent.**  Sorting the sorted calls moves nothing (distinct call ids). -/
theorem sortCalls_idem (pid : Bytes) (cs : List Call2) (hd : distinctCallIds cs = true) :
    sortCalls pid (sortCalls pid cs) = sortCalls pid cs := by
  by_cases herr : depsError pid cs = true
  · have : sortCalls pid cs = cs := by simp [sortCalls, herr]
    rw [this, this]
  · by_cases hcyc : callCycle cs = true
    · rw [sortCalls_of_cycle pid cs hcyc, sortCalls_of_cycle pid cs hcyc]
    · have herr' : depsError pid cs = false := by simpa using herr
      have hcyc' : hasCycle cs.length (closedDeps cs.length (callEdges cs)) = false := by
        simpa [callCycle] using hcyc
      have hs : sortCalls pid cs = pick cs (topoSort cs.length (callEdges cs)) := by
        simp [sortCalls, herr']
      have hperm := topoSort_perm' cs.length (callEdges cs)
      have hlt := topoSort_lt cs.length (callEdges cs)
      have hlen : (pick cs (topoSort cs.length (callEdges cs))).length = cs.length :=
        (pick_perm cs _ hperm).length_eq
      have hrel := fun i j => callEdges_pick cs (topoSort cs.length (callEdges cs)) hd hlt i j
      -- no error in the second run either
      have herr2 : depsError pid (pick cs (topoSort cs.length (callEdges cs))) = false := by
        unfold depsError at herr' ⊢
        simp only [Bool.or_eq_false_iff] at herr' ⊢
        refine ⟨?_, ?_⟩
        · rw [← herr'.1]
          exact (pick_perm cs _ hperm).any_eq
        · cases ha : (callEdges (pick cs (topoSort cs.length (callEdges cs)))).any (fun e => e.1 == e.2) with
          | false => rfl
          | true =>
            obtain ⟨⟨i, j⟩, he, hij⟩ := List.any_eq_true.mp ha
            simp only [beq_iff_eq] at hij
            subst hij
            have hmem := hrel i i he
            have : (callEdges cs).any (fun e => e.1 == e.2) = true :=
              List.any_eq_true.mpr ⟨_, hmem, by simp⟩
            rw [herr'.2] at this; cases this
      have htopo : topoSort cs.length (callEdges (pick cs (topoSort cs.length (callEdges cs)))) =
          List.range cs.length :=
        topoSort_relabel cs.length (callEdges cs) _ (topoSort cs.length (callEdges cs)) hperm
          (topoSort_sorted' cs.length (callEdges cs) hcyc') (fun i j _ _ h => hrel i j h)
      rw [hs]
      unfold sortCalls
      rw [herr2, hlen, htopo]
      simp only [Bool.false_eq_true, ↓reduceIte]
      have := pick_range (pick cs (topoSort cs.length (callEdges cs)))
      rw [hlen] at this
      exact this

/-- **Respects dependencies.**  Without an error or a cycle, no call is printed before a call
whose id it refers to (distinct call ids). -/
theorem sortCalls_respects_deps' (pid : Bytes) (cs : List Call2) (hd : distinctCallIds cs = true)
    (herr : depsError pid cs = false) (hcyc : callCycle cs = false)
    (A B : List Call2) (c : Call2) (hl : sortCalls pid cs = A ++ c :: B) :
    ∀ c' ∈ B, c'.id ∉ callRefs c := by
  intro c' hc' href
  have hs : sortCalls pid cs = pick cs (topoSort cs.length (callEdges cs)) := by
    simp [sortCalls, herr]
  have hlt := topoSort_lt cs.length (callEdges cs)
  rw [hs] at hl
  -- positions
  have hlenA : A.length < (pick cs (topoSort cs.length (callEdges cs))).length := by
    rw [hl]; simp
  obtain ⟨k, hk, hck⟩ := List.getElem_of_mem hc'
  have h1 : (pick cs (topoSort cs.length (callEdges cs)))[A.length]? = some c := by
    rw [hl]; simp
  have h2 : (pick cs (topoSort cs.length (callEdges cs)))[A.length + 1 + k]? = some c' := by
    rw [hl, List.getElem?_append_right (by omega)]
    have : A.length + 1 + k - A.length = k + 1 := by omega
    rw [this, List.getElem?_cons_succ, List.getElem?_eq_getElem hk, hck]
  rw [pick_getElem? cs _ hlt] at h1 h2
  cases ha : (topoSort cs.length (callEdges cs))[A.length]? with
  | none => rw [ha] at h1; cases h1
  | some a =>
    cases hb : (topoSort cs.length (callEdges cs))[A.length + 1 + k]? with
    | none => rw [hb] at h2; cases h2
    | some b =>
      rw [ha] at h1; rw [hb] at h2
      simp only [Option.bind_some] at h1 h2
      have hedge : (a, b) ∈ callEdges cs :=
        (mem_callEdges cs a b).mpr ⟨c, h1, c'.id, href, lastPos_of_distinct cs b c' hd h2⟩
      have hcl := closedDeps_contains_edges' cs.length (callEdges cs) a b
        (callEdges_lt cs a b hedge).1 (callEdges_lt cs a b hedge).2 hedge
      have hsorted := topoSort_sorted' cs.length (callEdges cs) (by simpa [callCycle] using hcyc)
      have hno := (sortedFrom_iff _ _).mp hsorted A.length (A.length + 1 + k) (by omega)
        ((List.getElem?_eq_some_iff.mp hb).1)
      rw [getD_of_getElem? ha, getD_of_getElem? hb, hcl] at hno
      cases hno

end Martian.FormatPipe
