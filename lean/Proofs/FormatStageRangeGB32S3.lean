import Proofs.FormatStageRangeGB32Def

/-! C09: slices 48 … 63 of the finite obligation `gb32OK` (kernel evaluation, 4096 values each). -/

namespace Martian.FormatRes

set_option maxRecDepth 100000 in
theorem gb32Slice_48 : gb32Slice 48 = true := by decide +kernel
set_option maxRecDepth 100000 in
theorem gb32Slice_49 : gb32Slice 49 = true := by decide +kernel
set_option maxRecDepth 100000 in
theorem gb32Slice_50 : gb32Slice 50 = true := by decide +kernel
set_option maxRecDepth 100000 in
theorem gb32Slice_51 : gb32Slice 51 = true := by decide +kernel
set_option maxRecDepth 100000 in
theorem gb32Slice_52 : gb32Slice 52 = true := by decide +kernel
set_option maxRecDepth 100000 in
theorem gb32Slice_53 : gb32Slice 53 = true := by decide +kernel
set_option maxRecDepth 100000 in
theorem gb32Slice_54 : gb32Slice 54 = true := by decide +kernel
set_option maxRecDepth 100000 in
theorem gb32Slice_55 : gb32Slice 55 = true := by decide +kernel
set_option maxRecDepth 100000 in
theorem gb32Slice_56 : gb32Slice 56 = true := by decide +kernel
set_option maxRecDepth 100000 in
theorem gb32Slice_57 : gb32Slice 57 = true := by decide +kernel
set_option maxRecDepth 100000 in
theorem gb32Slice_58 : gb32Slice 58 = true := by decide +kernel
set_option maxRecDepth 100000 in
theorem gb32Slice_59 : gb32Slice 59 = true := by decide +kernel
set_option maxRecDepth 100000 in
theorem gb32Slice_60 : gb32Slice 60 = true := by decide +kernel
set_option maxRecDepth 100000 in
theorem gb32Slice_61 : gb32Slice 61 = true := by decide +kernel
set_option maxRecDepth 100000 in
theorem gb32Slice_62 : gb32Slice 62 = true := by decide +kernel
set_option maxRecDepth 100000 in
theorem gb32Slice_63 : gb32Slice 63 = true := by decide +kernel

end Martian.FormatRes
