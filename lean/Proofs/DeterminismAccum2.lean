import Martian.DeterminismAccum2
import Proofs.DeterminismAccum

/-! Lemmas about the models of `Martian/DeterminismAccum2.lean`. -/
namespace Martian.Determinism
open Martian.SortKeys List

/-! ### findSplitCalls: `walk t S` is `S ∪ free t` -/

theorem mem_setInsert (S : List Key) (c x : Key) : x ∈ setInsert S c ↔ x = c ∨ x ∈ S := by
  unfold setInsert
  by_cases h : S.contains c = true
  · simp only [h, if_true]
    constructor
    · exact Or.inr
    · rintro (rfl | h')
      · simpa using h
      · exact h'
  · have hS : c ∉ S := by simpa using h
    simp [hS]

theorem mem_foldl_setInsert : ∀ (cs S : List Key) (x : Key),
    x ∈ cs.foldl setInsert S ↔ x ∈ S ∨ x ∈ cs
  | [], S, x => by simp
  | c :: cs, S, x => by
    simp only [foldl_cons, mem_foldl_setInsert cs, mem_setInsert, mem_cons]
    constructor
    · rintro ((h | h) | h)
      · exact Or.inr (Or.inl h)
      · exact Or.inl h
      · exact Or.inr (Or.inr h)
    · rintro (h | h | h)
      · exact Or.inl (Or.inr h)
      · exact Or.inl (Or.inl h)
      · exact Or.inr h

theorem walk_mem : ∀ (t : STree) (S : List Key) (x : Key), x ∈ t.walk S ↔ x ∈ S ∨ x ∈ t.free
  | .leaf cs, S, x => by simp [STree.walk, STree.free, mem_foldl_setInsert]
  | .split c ins inner, S, x => by
    simp only [STree.walk, STree.free, walk_mem inner]
    cases ins
    · simp
    · simp only [if_true, mem_setInsert, mem_append, mem_singleton]
      constructor
      · rintro ((h | h) | h)
        · exact Or.inr (Or.inl h)
        · exact Or.inl h
        · exact Or.inr (Or.inr h)
      · rintro (h | h | h)
        · exact Or.inl (Or.inr h)
        · exact Or.inl (Or.inl h)
        · exact Or.inr h
  | .merge c v, S, x => by
    simp only [STree.walk, STree.free]
    by_cases hc : S.contains c = true
    · have hcS : c ∈ S := by simpa using hc
      simp only [hc, if_true, walk_mem v, mem_filter, bne_iff_ne, ne_eq]
      constructor
      · rintro (h | h)
        · exact Or.inl h
        · by_cases hx : x = c
          · exact Or.inl (hx ▸ hcS)
          · exact Or.inr ⟨h, hx⟩
      · rintro (h | ⟨h, _⟩)
        · exact Or.inl h
        · exact Or.inr h
    · have hcS : c ∉ S := by simpa using hc
      simp only [hc, Bool.false_eq_true, if_false, mem_filter, walk_mem v, bne_iff_ne, ne_eq]
      constructor
      · rintro ⟨h | h, hx⟩
        · exact Or.inl h
        · exact Or.inr ⟨h, hx⟩
      · rintro (h | ⟨h, hx⟩)
        · exact ⟨Or.inl h, fun e => hcS (e ▸ h)⟩
        · exact ⟨Or.inr h, hx⟩
  | .nil, S, x => by simp [STree.walk, STree.free]
  | .cons h t, S, x => by
    simp only [STree.walk, STree.free, walk_mem t, walk_mem h, mem_append, or_assoc]

theorem free_reorder {a b : STree} (h : STree.Reorder a b) : ∀ x, x ∈ a.free ↔ x ∈ b.free := by
  induction h with
  | refl t => exact fun _ => Iff.rfl
  | swap a b r =>
    intro x
    simp only [STree.free, mem_append]
    constructor <;> rintro (h | h | h) <;> simp [h]
  | cons _ _ ih1 ih2 => intro x; simp only [STree.free, mem_append, ih1 x, ih2 x]
  | split c ins _ ih => intro x; simp only [STree.free, mem_append, ih x]
  | merge c _ ih => intro x; simp only [STree.free, mem_filter, ih x]
  | trans _ _ ih1 ih2 => exact fun x => (ih1 x).trans (ih2 x)

/-! ### SplitExp.CallMode -/

theorem callMode_eq_foldSorted (l : List (Key × Option Mode)) :
    callMode l = (if l.isEmpty then Mode.null else
      (foldSorted (fun s (p : Key × Option Mode) => cmStep s p.2) CMState.start l).result) := by
  unfold callMode callModeIn foldSorted
  rw [isEmpty_perm (sortK_perm l)]

/-! ### computed keys -/

theorem lookupL_insertKV {V : Type} : ∀ (m : List (Key × V)) (k k' : Key) (v : V),
    lookupL k (insertKV m k' v) = if k == k' then some v else lookupL k m
  | [], k, k', v => by simp [insertKV, lookupL]
  | (k₀, v₀) :: r, k, k', v => by
    by_cases h : (k' == k₀) = true
    · have h' : k' = k₀ := by simpa using h
      subst h'
      simp only [insertKV, beq_self_eq_true, if_true, lookupL]
      split <;> rfl
    · have hne : (k' == k₀) = false := by simpa using h
      simp only [insertKV, hne, Bool.false_eq_true, if_false, lookupL, lookupL_insertKV r]
      by_cases hk : (k == k₀) = true
      · have : k = k₀ := by simpa using hk
        subst this
        have : (k == k') = false := by
          cases hkk : (k == k')
          · rfl
          · have : k = k' := by simpa using hkk
            subst this; simp at hne
        simp [this]
      · have hk' : (k == k₀) = false := by simpa using hk
        simp [hk']

theorem lookupL_foldl_insertKeyed {α V : Type} (kf : α → Key) (vf : α → V) (k : Key) :
    ∀ (l : List α) (m : List (Key × V)),
    lookupL k (l.foldl (fun m p => insertKV m (kf p) (vf p)) m) =
      l.foldl (fun a p => if k == kf p then some (vf p) else a) (lookupL k m)
  | [], m => rfl
  | p :: r, m => by
    simp only [foldl_cons, lookupL_foldl_insertKeyed kf vf k r, lookupL_insertKV]

/-! ### deletes commute -/

theorem eraseKey_comm {V : Type} (m : List (Key × V)) (a b : Key) :
    eraseKey (eraseKey m a) b = eraseKey (eraseKey m b) a := by
  unfold eraseKey
  simp only [filter_filter]
  congr 1
  funext p
  exact Bool.and_comm _ _

end Martian.Determinism
