/-
C15 — the second pass of `Ast.EquivalentCall` (struct definitions, repair of
F20) decides equality of the unfolded type trees.
-/
import Martian.EquivMeaning
import Proofs.Equiv

namespace Martian.Equiv
open Martian.SortKeys List

theorem lookupL_all {V : Type} (P : V → Bool) : ∀ (l : List (Key × V)) (k : Key) (v : V),
    l.all (fun s => P s.2) = true → lookupL k l = some v → P v = true
  | [], _, _, _, h => by simp [lookupL] at h
  | (k', v') :: r, k, v, hl, h => by
    simp only [all_cons, Bool.and_eq_true] at hl
    simp only [lookupL] at h
    split at h
    · cases h; exact hl.1
    · exact lookupL_all P r k v hl.2 h

theorem structTreeEq_iff (SA SB : Structs) (hA : structsWf SA = true) (hB : structsWf SB = true) :
    ∀ (n : Nat) (t u : Key), structTreeEq SA SB n t u = true ↔ tyTree SA n t = tyTree SB n u
  | 0, _, _ => by simp [structTreeEq, tyTree]
  | n + 1, t, u => by
    have ih := structTreeEq_iff SA SB hA hB n
    simp only [structTreeEq, tyTree]
    cases ha : lookupL t SA with
    | none =>
      cases hb : lookupL u SB with
      | none => simp
      | some fb => simp
    | some fa =>
      cases hb : lookupL u SB with
      | none => simp
      | some fb =>
        have hna := lookupL_all (fun fs => nodupKeys fs) SA t fa hA ha
        have hnb := lookupL_all (fun fs => nodupKeys fs) SB u fb hB hb
        simp only [TyTree.node.injEq]
        exact matchAll_iff (fun x y => inParamEq x y && structTreeEq SA SB n x.tname y.tname)
          (fun x => (semIn x, tyTree SA n x.tname)) (fun x => (semIn x, tyTree SB n x.tname)) fa fb
          ((nodupKeys_iff fa).mp hna) ((nodupKeys_iff fb).mp hnb)
          (fun p _ q _ => by
            simp only [Bool.and_eq_true, Prod.mk.injEq, inParamEq_iff, ih])

theorem tyParams_iff (SA SB : Structs) (hA : structsWf SA = true) (hB : structsWf SB = true) (fs : Nat)
    (a b : List (Key × Param)) (ha : nodupKeys a = true) (hb : nodupKeys b = true) :
    matchAll (tyEq SA SB fs) a b = true ↔
      sortK (a.map fun p => (p.1, tyTree SA fs p.2.tname)) = sortK (b.map fun p => (p.1, tyTree SB fs p.2.tname)) :=
  matchAll_iff (tyEq SA SB fs) (fun x => tyTree SA fs x.tname) (fun x => tyTree SB fs x.tname) a b
    ((nodupKeys_iff a).mp ha) ((nodupKeys_iff b).mp hb)
    (fun p _ q _ => structTreeEq_iff SA SB hA hB fs p.2.tname q.2.tname)

theorem typesSemCallable_ne_missing (S : Structs) (fs : Nat) (r : Call → TSem) (x : Callable) :
    typesSemCallable S fs r x ≠ .missing := by
  cases x <;> simp [typesSemCallable]

theorem typesCallable_iff (SA SB : Structs) (hA : structsWf SA = true) (hB : structsWf SB = true) (fs : Nat)
    (T U : Tab) (rec : Call → Call → Bool) (sA sB : Call → TSem) (x y : Callable)
    (hx : x.wfIn T = true) (hy : y.wfIn U = true)
    (h : ∀ c d : Call, (rec c d = true ↔ sA c = sB d)) :
    typesCallable SA SB fs rec x y = true ↔ typesSemCallable SA fs sA x = typesSemCallable SB fs sB y := by
  cases x with
  | stage s i o =>
    cases y with
    | stage s' i' o' =>
      simp only [Callable.wfIn, Bool.and_eq_true] at hx hy
      simp only [typesCallable, typesSemCallable, Bool.and_eq_true, TSem.stage.injEq,
        tyParams_iff SA SB hA hB fs i i' hx.1 hy.1, tyParams_iff SA SB hA hB fs o o' hx.2 hy.2]
    | pipeline i' o' cs' r' => simp [typesCallable, typesSemCallable]
  | pipeline i o cs r =>
    cases y with
    | stage s' i' o' => simp [typesCallable, typesSemCallable]
    | pipeline i' o' cs' r' =>
      simp only [Callable.wfIn, Bool.and_eq_true, all_eq_true, beq_iff_eq] at hx hy
      obtain ⟨⟨⟨⟨⟨⟨hi, ho⟩, hk⟩, _⟩, _⟩, _⟩, _⟩ := hx
      obtain ⟨⟨⟨⟨⟨⟨hi', ho'⟩, hk'⟩, _⟩, _⟩, _⟩, _⟩ := hy
      have hcalls : matchAll rec (keyed cs) (keyed cs') = true ↔
          sortK ((keyed cs).map fun p => (p.1, sA p.2)) = sortK ((keyed cs').map fun p => (p.1, sB p.2)) :=
        matchAll_iff rec sA sB _ _ ((nodupKeys_iff _).mp hk) ((nodupKeys_iff _).mp hk')
          (fun p _ q _ => h p.2 q.2)
      simp only [typesCallable, typesSemCallable, Bool.and_eq_true, TSem.pipeline.injEq,
        tyParams_iff SA SB hA hB fs i i' hi hi', tyParams_iff SA SB hA hB fs o o' ho ho', hcalls, and_assoc]

/-- `structComparer.call` decides equality of the unfolded struct definitions, at every depth. -/
theorem typesCall_iff (SA SB : Structs) (hA : structsWf SA = true) (hB : structsWf SB = true) (fs : Nat) :
    ∀ (n : Nat) (T U : Tab), T.wf = true → U.wf = true → ∀ c d : Call,
      (typesCall SA SB fs n T U c d = true ↔ typesSem SA fs n T c = typesSem SB fs n U d)
  | 0, _, _, _, _, _, _ => by simp [typesCall, typesSem]
  | n + 1, T, U, hT, hU, c, d => by
    have ih := typesCall_iff SA SB hA hB fs n T U hT hU
    simp only [typesCall, typesSem]
    cases hx : lookupL c.decId T with
    | none =>
      cases hy : lookupL d.decId U with
      | none => simp
      | some y =>
        simp only [Bool.false_eq_true, false_iff]
        exact fun h => typesSemCallable_ne_missing _ _ _ y h.symm
    | some x =>
      cases hy : lookupL d.decId U with
      | none =>
        simp only [Bool.false_eq_true, false_iff]
        exact typesSemCallable_ne_missing _ _ _ x
      | some y =>
        exact typesCallable_iff SA SB hA hB fs T U _ _ _ x y (lookup_wf T hT hx) (lookup_wf U hU hy) ih

end Martian.Equiv
