import Martian.Vdr

/-! A small concrete fork used by the non-vacuity examples of Props/C04.lean. -/
namespace Martian.Vdr

theorem clean_of_getLast {p : Path} {x : Char} (h : p.getLast? = some x) (hx : x ≠ '/') :
    NoTrailingSlash p := by
  intro q e
  rw [e] at h
  simp at h
  exact hx h.symm

theorem mem_lookup_getD {l : List (Arg × List Path)} {a : Arg} {f : Path}
    (h : f ∈ (l.lookup a).getD []) : ∃ p ∈ l, f ∈ p.2 := by
  induction l with
  | nil => simp [List.lookup] at h
  | cons x r ih =>
    obtain ⟨k, v⟩ := x
    simp only [List.lookup] at h
    split at h
    · exact ⟨(k, v), List.mem_cons_self, by simpa using h⟩
    · obtain ⟨p, hp, hf⟩ := ih h
      exact ⟨p, List.mem_cons_of_mem _ hp, hf⟩

/-- a volatile fork with two outputs: `a` (held by consumer `C` and the top
level) names `/p/files/a.txt`, `b` (held by `C` only) names `/p/files/sub/b.txt` -/
def exCfg : Cfg :=
  { volatile := true, strict := true, splits := false
    argNames := [("a", ["/p/files/a.txt".toList]), ("b", ["/p/files/sub/b.txt".toList])]
    argFiles := [("a", ["/p/files/a.txt".toList]), ("b", ["/p/files/sub/b.txt".toList])]
    initArgs := [("a", [some "C", none]), ("b", [some "C"])]
    initPost := [("C", ["a", "b"])] }

def exSt : St :=
  { fileArgs := [("a", [some "C", none]), ("b", [some "C"])]
    postNodes := [("C", ["a", "b"])]
    disk := [⟨"/p/files/a.txt".toList, 5, .out, [], 0⟩, ⟨"/p/files/sub".toList, 4096, .out, [], 0⟩,
             ⟨"/p/files/sub/b.txt".toList, 7, .out, [], 0⟩, ⟨"/p/files/scratch".toList, 3, .out, [], 0⟩,
             ⟨"/p/tmp/t".toList, 2, .tmp 1, [], 0⟩] }


end Martian.Vdr
