/-
Helper lemmas for C13 `result_wellformed`: the token-level JSON parser reads
back exactly the tree the hand-built writer emitted.
-/
import Martian.PostProcess
import Martian.PostProcessDefs

namespace Martian.PostProcess

/-- a value never starts with a closing bracket, a comma or a colon -/
theorem emit_head (t : J) : ∃ a r, emit t = a :: r ∧ goodHead a = true := by
  cases t with
  | null => exact ⟨.null, [], rfl, rfl⟩
  | lit s => exact ⟨.lit s, [], rfl, rfl⟩
  | str s => exact ⟨.str s, [], rfl, rfl⟩
  | arr xs =>
    cases xs with
    | nil => exact ⟨.lbrack, [.rbrack], rfl, rfl⟩
    | cons x xs => exact ⟨.lbrack, emit x ++ emitTail xs, rfl, rfl⟩
  | obj kvs =>
    cases kvs with
    | nil => exact ⟨.lbrace, [.rbrace], rfl, rfl⟩
    | cons kv kvs =>
      obtain ⟨k, v⟩ := kv
      exact ⟨.lbrace, .str k :: .colon :: (emit v ++ emitFields kvs), rfl, rfl⟩

theorem parseVal_lbrack (n : Nat) (a : Tok) (r : List Tok) (h : goodHead a = true) :
    parseVal (n + 1) (.lbrack :: a :: r) =
      match parseVal n (a :: r) with
      | some (x, r1) =>
        match parseTail n r1 with
        | some (xs, r2) => some (.arr (x :: xs), r2)
        | none => none
      | none => none := by
  cases a <;> first | (exact absurd h (by decide)) | rfl

mutual
theorem parseVal_emit (t : J) (n : Nat) (rest : List Tok) (h : (emit t).length ≤ n) :
    parseVal n (emit t ++ rest) = some (t, rest) := by
  cases t with
  | null => cases n with
    | zero => simp [emit] at h
    | succ n => rfl
  | lit s => cases n with
    | zero => simp [emit] at h
    | succ n => rfl
  | str s => cases n with
    | zero => simp [emit] at h
    | succ n => rfl
  | arr xs =>
    cases xs with
    | nil => cases n with
      | zero => simp [emit] at h
      | succ n => rfl
    | cons x xs =>
      cases n with
      | zero => simp [emit] at h
      | succ n =>
        obtain ⟨a, r, ha, hg⟩ := emit_head x
        have hlen : (emit x).length + (emitTail xs).length ≤ n := by
          simp [emit] at h; omega
        have h1 := parseVal_emit x n (emitTail xs ++ rest) (by omega)
        have h2 := parseTail_emit xs n rest (by omega)
        show parseVal (n + 1) (.lbrack :: (emit x ++ emitTail xs) ++ rest) = _
        rw [List.cons_append, List.append_assoc, ha, List.cons_append, parseVal_lbrack n a _ hg,
          ← List.cons_append, ← ha, h1]
        simp only [h2]
  | obj kvs =>
    cases kvs with
    | nil => cases n with
      | zero => simp [emit] at h
      | succ n => rfl
    | cons kv kvs =>
      obtain ⟨k, v⟩ := kv
      cases n with
      | zero => simp [emit] at h
      | succ n =>
        have hlen : (emit v).length + (emitFields kvs).length + 2 ≤ n := by
          simp [emit] at h; omega
        have h1 := parseVal_emit v n (emitFields kvs ++ rest) (by omega)
        have h2 := parseFields_emit kvs n rest (by omega)
        show parseVal (n + 1) (.lbrace :: .str k :: .colon :: (emit v ++ emitFields kvs) ++ rest) = _
        simp only [List.cons_append, List.append_assoc, parseVal, h1, h2]
theorem parseTail_emit (xs : List J) (n : Nat) (rest : List Tok) (h : (emitTail xs).length ≤ n) :
    parseTail n (emitTail xs ++ rest) = some (xs, rest) := by
  cases xs with
  | nil => cases n with
    | zero => simp [emitTail] at h
    | succ n => rfl
  | cons x xs =>
    cases n with
    | zero => simp [emitTail] at h
    | succ n =>
      have hlen : (emit x).length + (emitTail xs).length ≤ n := by
        simp [emitTail] at h; omega
      have h1 := parseVal_emit x n (emitTail xs ++ rest) (by omega)
      have h2 := parseTail_emit xs n rest (by omega)
      show parseTail (n + 1) (.comma :: (emit x ++ emitTail xs) ++ rest) = _
      simp only [List.cons_append, List.append_assoc, parseTail, h1, h2]
theorem parseFields_emit (kvs : List (String × J)) (n : Nat) (rest : List Tok)
    (h : (emitFields kvs).length ≤ n) :
    parseFields n (emitFields kvs ++ rest) = some (kvs, rest) := by
  cases kvs with
  | nil => cases n with
    | zero => simp [emitFields] at h
    | succ n => rfl
  | cons kv kvs =>
    obtain ⟨k, v⟩ := kv
    cases n with
    | zero => simp [emitFields] at h
    | succ n =>
      have hlen : (emit v).length + (emitFields kvs).length + 2 ≤ n := by
        simp [emitFields] at h; omega
      have h1 := parseVal_emit v n (emitFields kvs ++ rest) (by omega)
      have h2 := parseFields_emit kvs n rest (by omega)
      show parseFields (n + 1) (.comma :: .str k :: .colon :: (emit v ++ emitFields kvs) ++ rest) = _
      simp only [List.cons_append, List.append_assoc, parseFields, h1, h2]
end

theorem parse_emit (t : J) : parse (emit t) = some t := by
  unfold parse
  have := parseVal_emit t ((emit t).length + 1) [] (by omega)
  rw [List.append_nil] at this
  rw [this]

end Martian.PostProcess
