/-
Helper lemmas for the type/JSON model (Martian/Types.lean): induction principle
for the mutual `Ty`/`Fields`, characterisations of the recursive functions over
`Fields` in terms of `Fields.toList`, and the main inductions used by
Props/C17.lean.  Core Lean only.
-/
import Martian.Types
namespace Martian.Types
open Martian.Json

theorem Ty.induct' {P : Ty → Prop}
    (base : ∀ b, P (.base b)) (user : ∀ n, P (.user n))
    (arr : ∀ t, P t → P (.arr t)) (tmap : ∀ t, P t → P (.tmap t))
    (struct : ∀ n fs, (∀ k t, (k, t) ∈ fs.toList → P t) → P (.struct n fs)) : ∀ t, P t := by
  intro t
  refine Ty.rec (motive_1 := P) (motive_2 := fun fs => ∀ k t, (k, t) ∈ fs.toList → P t)
    base user (fun t ih => arr t ih) (fun t ih => tmap t ih) (fun n fs ih => struct n fs ih) ?_ ?_ t
  · intro k t h; cases h
  · intro id t rest iht ihr k t' h
    simp only [Fields.toList, List.mem_cons, Prod.mk.injEq] at h
    rcases h with ⟨rfl, rfl⟩ | h
    · exact iht
    · exact ihr k t' h

theorem Verdict.max_eq_ok {a b : Verdict} : a.max b = .ok ↔ a = .ok ∧ b = .ok := by
  cases a <;> cases b <;> simp [Verdict.max]

theorem worst_eq_ok {vs : List Verdict} : worst vs = .ok ↔ ∀ v ∈ vs, v = .ok := by
  induction vs with
  | nil => simp [worst]
  | cons a r ih =>
    simp only [worst, List.foldr_cons, List.mem_cons, forall_eq_or_imp] at *
    rw [Verdict.max_eq_ok, ih]

theorem FErr.max_ne_fatal {a b : FErr} : a.max b ≠ .fatal ↔ a ≠ .fatal ∧ b ≠ .fatal := by
  cases a <;> cases b <;> simp [FErr.max]

theorem worstF_ne_fatal {vs : List FErr} : worstF vs ≠ .fatal ↔ ∀ v ∈ vs, v ≠ .fatal := by
  induction vs with
  | nil => simp [worstF]
  | cons a r ih =>
    simp only [worstF, List.foldr_cons, List.mem_cons, forall_eq_or_imp] at *
    rw [FErr.max_ne_fatal, ih]

theorem Fields.get_mem : ∀ {fs : Fields} {k : Bytes} {t : Ty}, fs.get k = some t → (k, t) ∈ fs.toList
  | .nil, k, t, h => by simp [Fields.get] at h
  | .cons k' t' r, k, t, h => by
    simp only [Fields.get] at h
    by_cases hk : k' = k
    · simp [hk] at h; subst hk; subst h; simp [Fields.toList]
    · simp [hk] at h
      simp only [Fields.toList, List.mem_cons]
      exact Or.inr (Fields.get_mem h)

theorem Fields.wf_iff : ∀ {fs : Fields}, fs.wf = true ↔
    (fs.toList.map Prod.fst).Nodup ∧ ∀ k t, (k, t) ∈ fs.toList → t.wf = true
  | .nil => by simp [Fields.wf, Fields.toList]
  | .cons k t r => by
    have ih := @Fields.wf_iff r
    simp only [Fields.wf, Fields.toList, Bool.and_eq_true, ih, List.map_cons, List.nodup_cons,
      List.mem_cons, Prod.mk.injEq]
    constructor
    · rintro ⟨⟨h1, h2⟩, h3, h4⟩
      refine ⟨⟨?_, h3⟩, ?_⟩
      · simpa using h1
      · rintro k' t' (⟨rfl, rfl⟩ | h)
        · exact h2
        · exact h4 _ _ h
    · rintro ⟨⟨h1, h3⟩, h4⟩
      refine ⟨⟨?_, h4 _ _ (Or.inl ⟨rfl, rfl⟩)⟩, h3, fun k' t' h => h4 _ _ (Or.inr h)⟩
      simpa using h1

theorem Fields.get_of_mem : ∀ {fs : Fields} {k : Bytes} {t : Ty},
    (fs.toList.map Prod.fst).Nodup → (k, t) ∈ fs.toList → fs.get k = some t
  | .nil, k, t, _, h => by cases h
  | .cons k' t' r, k, t, hn, h => by
    simp only [Fields.toList, List.map_cons, List.nodup_cons, List.mem_cons, Prod.mk.injEq] at hn h
    simp only [Fields.get]
    rcases h with ⟨rfl, rfl⟩ | h
    · simp
    · have : k' ≠ k := by
        rintro rfl
        exact hn.1 (List.mem_map.mpr ⟨(k', t), h, rfl⟩)
      simp [this]
      exact Fields.get_of_mem hn.2 h


/-! ### validation -/

theorem checkFields_ok_iff : ∀ (fs : Fields) (kvs : List (Bytes × J)),
    checkFields fs kvs = .ok ↔
      ∀ k t, (k, t) ∈ fs.toList → ∃ v, getKey k kvs = some v ∧ check t v = .ok
  | .nil, kvs => by simp [checkFields, Fields.toList]
  | .cons k t r, kvs => by
    have ih := checkFields_ok_iff r kvs
    simp only [checkFields, Verdict.max_eq_ok, ih, Fields.toList, List.mem_cons, Prod.mk.injEq]
    constructor
    · rintro ⟨h1, h2⟩ k' t' (⟨rfl, rfl⟩ | h)
      · cases hg : getKey k' kvs with
        | none => simp [hg] at h1
        | some v => simp [hg] at h1; exact ⟨v, rfl, h1⟩
      · exact h2 _ _ h
    · intro h
      refine ⟨?_, fun k' t' h' => h _ _ (Or.inr h')⟩
      obtain ⟨v, hv, hc⟩ := h k t (Or.inl ⟨rfl, rfl⟩)
      simp [hv, hc]

theorem valid_null (t : Ty) : valid t .null = true := by
  cases t with
  | base b => cases b <;> simp [valid, check, checkBase]
  | _ => simp [valid, check]

theorem shape_of_valid : ∀ (t : Ty) (v : J), valid t v = true → Shape t v := by
  intro t
  induction t using Ty.induct' with
  | base b =>
    intro v h
    cases b <;> cases v <;> simp [valid, check, checkBase] at h <;> try constructor
    case int.num n =>
      cases n with
      | int i => exact Shape.int i (by simpa using h)
      | flt m e => simp at h
  | user n =>
    intro v h
    cases v <;> simp [valid, check] at h <;> constructor
  | arr t ih =>
    intro v h
    cases v <;> simp [valid, check] at h <;> try constructor
    case arr xs =>
      rw [worst_eq_ok] at h
      intro x hx
      apply ih
      simp only [valid, beq_iff_eq]
      exact h _ (List.mem_map.mpr ⟨x, hx, rfl⟩)
  | tmap t ih =>
    intro v h
    cases v <;> simp [valid, check] at h
    case null => constructor
    case obj kvs =>
      rw [worst_eq_ok] at h
      refine Shape.tmap _ _ ?_ ?_
      · intro kv hkv
        apply ih
        have := h _ (List.mem_map.mpr ⟨kv, hkv, rfl⟩)
        rw [Verdict.max_eq_ok] at this
        simp only [valid, beq_iff_eq]
        exact this.1
      · intro hd kv hkv
        have := h _ (List.mem_map.mpr ⟨kv, hkv, rfl⟩)
        rw [Verdict.max_eq_ok] at this
        have h2 := this.2
        simp [hd] at h2
        exact h2
  | struct n fs ih =>
    intro v h
    cases v <;> simp [valid, check] at h
    case null => constructor
    case obj kvs =>
      rw [checkFields_ok_iff] at h
      refine Shape.struct _ _ _ ?_ ?_
      · intro k t hkt
        obtain ⟨v, hv, _⟩ := h k t hkt
        simp [hv]
      · intro k t v hkt hg
        obtain ⟨v', hv', hc⟩ := h k t hkt
        rw [hg] at hv'
        cases hv'
        apply ih k t hkt
        simp [valid, hc]

theorem valid_of_shape : ∀ (t : Ty) (v : J), Shape t v → valid t v = true := by
  intro t
  induction t using Ty.induct' with
  | base b =>
    intro v h
    cases h <;> simp [valid, check, checkBase, *]
  | user n =>
    intro v h
    cases h <;> simp [valid, check]
  | arr t ih =>
    intro v h
    cases h with
    | null => exact valid_null _
    | arr _ xs hx =>
      simp only [valid, check, beq_iff_eq, worst_eq_ok, List.mem_map]
      rintro _ ⟨x, hxm, rfl⟩
      have := ih x (hx x hxm)
      simpa [valid] using this
  | tmap t ih =>
    intro v h
    cases h with
    | null => exact valid_null _
    | tmap _ kvs h1 h2 =>
      simp only [valid, check, beq_iff_eq, worst_eq_ok, List.mem_map]
      rintro _ ⟨kv, hkv, rfl⟩
      rw [Verdict.max_eq_ok]
      refine ⟨by simpa [valid] using ih _ (h1 kv hkv), ?_⟩
      by_cases hd : isDirMap t = true
      · simp [hd, h2 hd kv hkv]
      · simp [hd]
  | struct n fs ih =>
    intro v h
    cases h with
    | null => exact valid_null _
    | struct _ _ kvs h1 h2 =>
      simp only [valid, check, beq_iff_eq, checkFields_ok_iff]
      intro k t hkt
      have := h1 k t hkt
      cases hg : getKey k kvs with
      | none => simp [hg] at this
      | some v =>
        refine ⟨v, rfl, ?_⟩
        simpa [valid] using ih k t hkt v (h2 k t v hkt hg)

/-! ### filtering -/

theorem filter_null (t : Ty) : filter t .null = (.null, .ok) := by
  cases t with
  | base b => cases b <;> simp [filter, filterBase]
  | user n => simp [filter]
  | arr t => simp [filter]
  | tmap t => simp [filter]
  | struct n fs => simp [filter]

theorem filterBase_fst_of_ne_int (b : Base) (v : J) (h : b ≠ .int) : (filterBase b v).1 = v := by
  cases b <;> cases v <;> simp [filterBase] at h ⊢

/-- a type that cannot filter returns its input -/
theorem filter_fst_of_not_canFilter (t : Ty) (v : J) (h : canFilter t = false) :
    (filter t v).1 = v := by
  cases t with
  | base b =>
    simp only [filter]
    apply filterBase_fst_of_ne_int
    rintro rfl
    simp [canFilter] at h
  | user n => cases v <;> simp [filter]
  | arr t => simp [canFilter] at h; simp [filter, h]
  | tmap t => simp [canFilter] at h; simp [filter, h]
  | struct n fs => simp [canFilter] at h

theorem filter_arr_fst (t : Ty) (xs : List J) :
    (filter (.arr t) (.arr xs)).1 = .arr (xs.map (fun x => (filter t x).1)) := by
  by_cases h : canFilter t = true
  · simp [filter, h]
  · have h' : canFilter t = false := by simpa using h
    simp only [filter, h', Bool.not_false, ↓reduceIte]
    congr 1
    have : (fun x => (filter t x).1) = id := funext fun x => filter_fst_of_not_canFilter t x h'
    rw [this, List.map_id]

theorem filter_tmap_fst (t : Ty) (kvs : List (Bytes × J)) :
    (filter (.tmap t) (.obj kvs)).1 = .obj (kvs.map (fun kv => (kv.1, (filter t kv.2).1))) := by
  by_cases h : canFilter t = true
  · simp [filter, h]
  · have h' : canFilter t = false := by simpa using h
    simp only [filter, h', Bool.not_false, ↓reduceIte]
    congr 1
    have : (fun kv : Bytes × J => (kv.1, (filter t kv.2).1)) = id :=
      funext fun kv => by simp [filter_fst_of_not_canFilter t kv.2 h']
    rw [this, List.map_id]

/-- what `filterFields` writes for one declared member -/
def fieldOut (t : Ty) : Option J → J
  | none => .null
  | some v => (filter t v).1

theorem filterFields_fst : ∀ (fs : Fields) (kvs : List (Bytes × J)),
    (filterFields fs kvs).1 = fs.toList.map (fun kt => (kt.1, fieldOut kt.2 (getKey kt.1 kvs)))
  | .nil, kvs => by simp [filterFields, Fields.toList]
  | .cons k t r, kvs => by
    have ih := filterFields_fst r kvs
    simp only [filterFields, Fields.toList, List.map_cons]
    cases hg : getKey k kvs with
    | none => simp [fieldOut, ih]
    | some v =>
      by_cases hc : canFilter t = true
      · simp [hc, fieldOut, ih]
      · have h' : canFilter t = false := by simpa using hc
        simp [h', fieldOut, ih, filter_fst_of_not_canFilter t v h']

theorem filter_struct_fst (n : Bytes) (fs : Fields) (kvs : List (Bytes × J)) :
    (filter (.struct n fs) (.obj kvs)).1 =
      .obj (fs.toList.map (fun kt => (kt.1, fieldOut kt.2 (getKey kt.1 kvs)))) := by
  simp [filter, filterFields_fst]

theorem filterFields_ne_fatal : ∀ (fs : Fields) (kvs : List (Bytes × J)),
    (filterFields fs kvs).2 ≠ .fatal →
      ∀ k t, (k, t) ∈ fs.toList →
        ∃ v, getKey k kvs = some v ∧ (canFilter t = true → (filter t v).2 ≠ .fatal)
  | .nil, kvs => by simp [Fields.toList]
  | .cons k t r, kvs => by
    have ih := filterFields_ne_fatal r kvs
    intro h k' t' hm
    simp only [Fields.toList, List.mem_cons, Prod.mk.injEq] at hm
    simp only [filterFields] at h
    cases hg : getKey k kvs with
    | none => simp [hg] at h
    | some v =>
      rw [hg] at h
      by_cases hc : canFilter t = true
      · simp only [hc, ↓reduceIte] at h
        rw [FErr.max_ne_fatal] at h
        rcases hm with ⟨rfl, rfl⟩ | hm
        · exact ⟨v, hg, fun _ => h.1⟩
        · exact ih h.2 _ _ hm
      · have h' : canFilter t = false := by simpa using hc
        simp only [h'] at h
        rcases hm with ⟨rfl, rfl⟩ | hm
        · exact ⟨v, hg, fun hc' => by simp [h'] at hc'⟩
        · exact ih (by simpa using h) _ _ hm

/-- in an association list without duplicate keys every member is found -/
theorem getKey_of_mem_nodup : ∀ {kvs : List (Bytes × J)} {k : Bytes} {v : J},
    (kvs.map Prod.fst).Nodup → (k, v) ∈ kvs → getKey k kvs = some v
  | [], _, _, _, h => by cases h
  | (k', v') :: rest, k, v, hn, h => by
    simp only [List.map_cons, List.nodup_cons] at hn
    simp only [getKey]
    rcases List.mem_cons.mp h with h | h
    · obtain ⟨rfl, rfl⟩ := Prod.mk.inj h
      have : getKey k rest = none := by
        cases hr : getKey k rest with
        | none => rfl
        | some w => exact absurd (List.mem_map.mpr ⟨(k, w), getKey_mem hr, rfl⟩) hn.1
      simp [this]
    · rw [getKey_of_mem_nodup hn.2 h]

theorem filterBase_idem (b : Base) (v : J) :
    (filterBase b (filterBase b v).1).1 = (filterBase b v).1 := by
  by_cases hb : b = .int
  · subst hb
    cases v with
    | num n =>
      cases n with
      | int i => simp [filterBase]
      | flt m e =>
        simp only [filterBase]
        cases hi : (Num.flt m e).intValue? with
        | none => simp [hi]
        | some i =>
          by_cases hr : Num.inInt64 i = true
          · simp [hr]
          · simp [hr, hi]
    | _ => simp [filterBase]
  · rw [filterBase_fst_of_ne_int b _ hb]

theorem keys_fields_out (fs : Fields) (f : Bytes × Ty → J) :
    (fs.toList.map (fun kt => (kt.1, f kt))).map Prod.fst = fs.toList.map Prod.fst := by
  simp [List.map_map, Function.comp_def]

theorem fieldOut_idem (t : Ty) (o : Option J)
    (ih : ∀ v, (filter t (filter t v).1).1 = (filter t v).1) :
    fieldOut t (some (fieldOut t o)) = fieldOut t o := by
  cases o with
  | none => simp [fieldOut, filter_null]
  | some v => simp [fieldOut, ih]

theorem filter_idem (t : Ty) : t.wf = true → ∀ v, (filter t (filter t v).1).1 = (filter t v).1 := by
  induction t using Ty.induct' with
  | base b => intro _ v; simp only [filter]; exact filterBase_idem b v
  | user n => intro _ v; cases v <;> simp [filter]
  | arr t ih =>
    intro hwf v
    have ih := ih (by simpa [Ty.wf] using hwf)
    cases v with
    | arr xs =>
      rw [filter_arr_fst, filter_arr_fst, List.map_map]
      congr 1
      apply List.map_congr_left
      intro x _
      exact ih x
    | _ => by_cases hc : canFilter t = true <;> simp [filter, hc]
  | tmap t ih =>
    intro hwf v
    have ih := ih (by simpa [Ty.wf] using hwf)
    cases v with
    | obj kvs =>
      rw [filter_tmap_fst, filter_tmap_fst, List.map_map]
      congr 1
      apply List.map_congr_left
      intro kv _
      simp [ih]
    | _ => by_cases hc : canFilter t = true <;> simp [filter, hc]
  | struct n fs ih =>
    intro hwf v
    have hwf' := Fields.wf_iff.mp (by simpa [Ty.wf] using hwf)
    cases v with
    | obj kvs =>
      rw [filter_struct_fst, filter_struct_fst]
      congr 1
      apply List.map_congr_left
      intro kt hkt
      obtain ⟨k, t⟩ := kt
      simp only [Prod.mk.injEq, true_and]
      have hmem : (k, fieldOut t (getKey k kvs)) ∈
          fs.toList.map (fun kt => (kt.1, fieldOut kt.2 (getKey kt.1 kvs))) :=
        List.mem_map.mpr ⟨(k, t), hkt, rfl⟩
      rw [getKey_of_mem_nodup (by rw [keys_fields_out]; exact hwf'.1) hmem]
      exact fieldOut_idem t _ (ih k t hkt (hwf'.2 k t hkt))
    | _ => simp [filter]

/-! ### only-drops -/

theorem dropsL_map (f : J → J) : ∀ (xs : List J), (∀ x, x ∈ xs → Drops (f x) x) → DropsL (xs.map f) xs
  | [], _ => DropsL.nil
  | x :: r, h => DropsL.cons (h x List.mem_cons_self)
      (dropsL_map f r (fun y hy => h y (List.mem_cons_of_mem _ hy)))

theorem dropsO_map (f : Bytes × J → J) (all : List (Bytes × J)) :
    ∀ (kvs : List (Bytes × J)), (∀ kv, kv ∈ kvs → kv ∈ all ∧ Drops (f kv) kv.2) →
      DropsO (kvs.map (fun kv => (kv.1, f kv))) all
  | [], _ => DropsO.nil _
  | kv :: r, h =>
    DropsO.cons (v := kv.2) (h kv List.mem_cons_self).1 (h kv List.mem_cons_self).2
      (dropsO_map f all r (fun y hy => h y (List.mem_cons_of_mem _ hy)))

theorem dropsO_fields (kvs : List (Bytes × J)) (g : Bytes × Ty → J) :
    ∀ (l : List (Bytes × Ty)), (∀ kt, kt ∈ l → ∃ v, (kt.1, v) ∈ kvs ∧ Drops (g kt) v) →
      DropsO (l.map (fun kt => (kt.1, g kt))) kvs
  | [], _ => DropsO.nil _
  | kt :: r, h => by
    obtain ⟨v, hv, hd⟩ := h kt List.mem_cons_self
    exact DropsO.cons hv hd (dropsO_fields kvs g r (fun y hy => h y (List.mem_cons_of_mem _ hy)))

theorem filterBase_drops (b : Base) (v : J) (h : (filterBase b v).2 ≠ .fatal) :
    Drops (filterBase b v).1 v := by
  by_cases hb : b = .int
  · subst hb
    cases v with
    | num n =>
      cases n with
      | int i => simp only [filterBase]; exact Drops.refl _
      | flt m e =>
        simp only [filterBase] at h ⊢
        cases hi : (Num.flt m e).intValue? with
        | none => simp [hi] at h
        | some i =>
          by_cases hr : Num.inInt64 i = true
          · simp only [hr, ↓reduceIte]
            exact Drops.int m e i hi hr
          · simp [hi, hr] at h
    | _ => simp only [filterBase]; exact Drops.refl _
  · rw [filterBase_fst_of_ne_int b _ hb]; exact Drops.refl _

theorem filter_drops (t : Ty) : ∀ v, (filter t v).2 ≠ .fatal → Drops (filter t v).1 v := by
  induction t using Ty.induct' with
  | base b => intro v h; simp only [filter] at h ⊢; exact filterBase_drops b v h
  | user n => intro v _; cases v <;> simp only [filter] <;> exact Drops.refl _
  | arr t ih =>
    intro v h
    by_cases hc : canFilter t = true
    · cases v with
      | arr xs =>
        simp only [filter, hc, Bool.not_true, Bool.false_eq_true, ↓reduceIte] at h ⊢
        rw [worstF_ne_fatal] at h
        refine Drops.arr (dropsL_map _ xs fun x hx => ih x ?_)
        exact h _ (List.mem_map.mpr ⟨x, hx, rfl⟩)
      | _ => simp only [filter, hc, Bool.not_true, Bool.false_eq_true, ↓reduceIte]; exact Drops.refl _
    · rw [filter_fst_of_not_canFilter _ _ (by simpa [canFilter] using hc)]; exact Drops.refl _
  | tmap t ih =>
    intro v h
    by_cases hc : canFilter t = true
    · cases v with
      | obj kvs =>
        simp only [filter, hc, Bool.not_true, Bool.false_eq_true, ↓reduceIte] at h ⊢
        rw [worstF_ne_fatal] at h
        refine Drops.obj (dropsO_map (fun kv => (filter t kv.2).1) kvs kvs fun kv hkv => ⟨hkv, ih kv.2 ?_⟩)
        exact h _ (List.mem_map.mpr ⟨kv, hkv, rfl⟩)
      | _ => simp only [filter, hc, Bool.not_true, Bool.false_eq_true, ↓reduceIte]; exact Drops.refl _
    · rw [filter_fst_of_not_canFilter _ _ (by simpa [canFilter] using hc)]; exact Drops.refl _
  | struct n fs ih =>
    intro v h
    cases v with
    | obj kvs =>
      rw [filter_struct_fst]
      simp only [filter] at h
      have hf := filterFields_ne_fatal fs kvs h
      refine Drops.obj (dropsO_fields kvs (fun kt => fieldOut kt.2 (getKey kt.1 kvs)) fs.toList ?_)
      rintro ⟨k, t⟩ hkt
      obtain ⟨v, hv, hnf⟩ := hf k t hkt
      refine ⟨v, getKey_mem hv, ?_⟩
      simp only [hv, fieldOut]
      by_cases hc : canFilter t = true
      · exact ih k t hkt v (hnf hc)
      · rw [filter_fst_of_not_canFilter _ _ (by simpa using hc)]; exact Drops.refl _
    | _ => simp only [filter]; exact Drops.refl _

/-! ### assignability -/

theorem assignableFields_iff : ∀ (fs fs' : Fields),
    assignableFields fs fs' = true ↔
      ∀ k t, (k, t) ∈ fs.toList →
        ∃ t', fs'.get k = some t' ∧ dims t = dims t' ∧ assignable t t' = true
  | .nil, fs' => by simp [assignableFields, Fields.toList]
  | .cons k t r, fs' => by
    have ih := assignableFields_iff r fs'
    simp only [assignableFields, Bool.and_eq_true, ih, Fields.toList, List.mem_cons, Prod.mk.injEq]
    constructor
    · rintro ⟨h1, h2⟩ k' t' (⟨rfl, rfl⟩ | h)
      · cases hg : fs'.get k' with
        | none => simp [hg] at h1
        | some t'' => simp [hg] at h1; exact ⟨t'', rfl, h1⟩
      · exact h2 _ _ h
    · intro h
      refine ⟨?_, fun k' t' h' => h _ _ (Or.inr h')⟩
      obtain ⟨t', hg, hd, ha⟩ := h k t (Or.inl ⟨rfl, rfl⟩)
      simp [hg, hd, ha]

theorem noHoleFields_iff : ∀ (fs fs' : Fields),
    noHoleFields fs fs' = true ↔
      ∀ k t t', (k, t) ∈ fs.toList → fs'.get k = some t' → noHole t t' = true
  | .nil, fs' => by simp [noHoleFields, Fields.toList]
  | .cons k t r, fs' => by
    have ih := noHoleFields_iff r fs'
    simp only [noHoleFields, Bool.and_eq_true, ih, Fields.toList, List.mem_cons, Prod.mk.injEq]
    constructor
    · rintro ⟨h1, h2⟩ k' t' t'' (⟨rfl, rfl⟩ | h) hg
      · simpa [hg] using h1
      · exact h2 _ _ _ h hg
    · intro h
      refine ⟨?_, fun k' t' t'' h' hg => h _ _ _ (Or.inr h') hg⟩
      cases hg : fs'.get k with
      | none => rfl
      | some t' => exact h k t t' (Or.inl ⟨rfl, rfl⟩) hg

theorem assignable_refl (t : Ty) : t.wf = true → assignable t t = true := by
  induction t using Ty.induct' with
  | base b => intro _; cases b <;> simp [assignable, assignableBase]
  | user n => intro _; simp [assignable]
  | arr t ih => intro h; simpa [assignable] using ih (by simpa [Ty.wf] using h)
  | tmap t ih => intro h; simpa [assignable] using ih (by simpa [Ty.wf] using h)
  | struct n fs ih =>
    intro h
    have hwf := Fields.wf_iff.mp (by simpa [Ty.wf] using h)
    simp only [assignable, assignableFields_iff]
    intro k t hkt
    exact ⟨t, Fields.get_of_mem hwf.1 hkt, rfl, ih k t hkt (hwf.2 k t hkt)⟩

theorem noHole_refl (t : Ty) : t.wf = true → noHole t t = true := by
  induction t using Ty.induct' with
  | base b => intro _; simp [noHole]
  | user n => intro _; simp [noHole]
  | arr t ih => intro h; simpa [noHole] using ih (by simpa [Ty.wf] using h)
  | tmap t ih =>
    intro h
    have := ih (by simpa [Ty.wf] using h)
    cases hd : isDirMap t <;> simp [noHole, this, hd]
  | struct n fs ih =>
    intro h
    have hwf := Fields.wf_iff.mp (by simpa [Ty.wf] using h)
    simp only [noHole, noHoleFields_iff]
    intro k t t' hkt hg
    rw [Fields.get_of_mem hwf.1 hkt] at hg
    cases hg
    exact ih k t hkt (hwf.2 k t hkt)

theorem assignable_arr_left_false (a : Ty) (b : Ty) (hb : notArr b = true) :
    assignable (.arr a) b = false := by
  cases b <;> simp [assignable, notArr] at hb ⊢

theorem assignable_arr_right_false (a : Ty) (b : Ty) (ha : notArr a = true) :
    assignable a (.arr b) = false := by
  cases a <;> simp [assignable, notArr] at ha ⊢

theorem assignable_arrN (a b : Ty) (ha : notArr a = true) (hb : notArr b = true) :
    ∀ n m, assignable (arrN n a) (arrN m b) = true ↔ n = m ∧ assignable a b = true
  | 0, 0 => by simp [arrN]
  | 0, m + 1 => by simp [arrN, assignable_arr_right_false a _ ha]
  | n + 1, 0 => by simp [arrN, assignable_arr_left_false _ b hb]
  | n + 1, m + 1 => by
    have := assignable_arrN a b ha hb n m
    simp only [arrN, assignable, this, Nat.add_right_cancel_iff]

/-! ### filtering to a type assignable from the type the value was valid for -/

theorem shape_filterBase (d : Base) (s : Ty) (v : J) (hs : Shape s v)
    (ha : assignable (.base d) s = true) : Shape (.base d) (filterBase d v).1 := by
  cases s with
  | base s' =>
    cases d <;> cases s' <;> simp [assignable, assignableBase] at ha <;> cases hs <;>
      simp [filterBase, *] <;> constructor <;> assumption
  | user n =>
    simp [assignable] at ha
    rcases ha with rfl | rfl <;> cases hs <;> simp [filterBase] <;> constructor
  | struct n fs =>
    simp [assignable] at ha; subst ha
    cases hs <;> simp [filterBase] <;> constructor
  | tmap t =>
    simp [assignable] at ha; subst ha
    cases hs <;> simp [filterBase] <;> constructor
  | arr t => simp [assignable] at ha

theorem shape_filter_of_assignable (d : Ty) : d.wf = true → ∀ (s : Ty) (v : J), Shape s v →
    assignable d s = true → noHole d s = true → Shape d (filter d v).1 := by
  induction d using Ty.induct' with
  | base b =>
    intro _ s v hs ha _
    simp only [filter]
    exact shape_filterBase b s v hs ha
  | user n =>
    intro _ s v hs ha _
    cases s with
    | base s' =>
      simp [assignable] at ha
      rcases ha with rfl | rfl <;> cases hs <;> simp [filter] <;> constructor
    | user m => cases hs <;> simp [filter] <;> constructor
    | _ => simp [assignable] at ha
  | arr d ih =>
    intro hwf s v hs ha hn
    have ih := ih (by simpa [Ty.wf] using hwf)
    cases s with
    | arr s' =>
      simp only [assignable] at ha
      simp only [noHole] at hn
      cases hs with
      | null => rw [filter_null]; constructor
      | arr _ xs hx =>
        rw [filter_arr_fst]
        refine Shape.arr _ _ ?_
        intro y hy
        obtain ⟨x, hxm, rfl⟩ := List.mem_map.mp hy
        exact ih s' x (hx x hxm) ha hn
    | _ => simp [assignable] at ha
  | tmap d ih =>
    intro hwf s v hs ha hn
    have ih := ih (by simpa [Ty.wf] using hwf)
    cases s with
    | tmap s' =>
      simp only [assignable] at ha
      simp only [noHole, Bool.and_eq_true, Bool.or_eq_true, Bool.not_eq_true'] at hn
      cases hs with
      | null => rw [filter_null]; constructor
      | tmap _ kvs h1 h2 =>
        rw [filter_tmap_fst]
        refine Shape.tmap _ _ ?_ ?_
        · intro y hy
          obtain ⟨kv, hkv, rfl⟩ := List.mem_map.mp hy
          exact ih s' kv.2 (h1 kv hkv) ha hn.2
        · intro hd y hy
          obtain ⟨kv, hkv, rfl⟩ := List.mem_map.mp hy
          have : isDirMap s' = true := by
            rcases hn.1 with h | h
            · rw [hd] at h; cases h
            · exact h
          exact h2 this kv hkv
    | struct n fs => simp [noHole] at hn
    | _ => simp [assignable] at ha
  | struct n fs ih =>
    intro hwf s v hs ha hn
    have hwf' := Fields.wf_iff.mp (by simpa [Ty.wf] using hwf)
    cases s with
    | struct n' fs' =>
      simp only [assignable, assignableFields_iff] at ha
      simp only [noHole, noHoleFields_iff] at hn
      cases hs with
      | null => rw [filter_null]; constructor
      | struct _ _ kvs h1 h2 =>
        rw [filter_struct_fst]
        have hkeys : ((fs.toList.map (fun kt => (kt.1, fieldOut kt.2 (getKey kt.1 kvs)))).map Prod.fst).Nodup := by
          rw [keys_fields_out]; exact hwf'.1
        have hmem : ∀ k t, (k, t) ∈ fs.toList → (k, fieldOut t (getKey k kvs)) ∈
            fs.toList.map (fun kt => (kt.1, fieldOut kt.2 (getKey kt.1 kvs))) :=
          fun k t hkt => List.mem_map.mpr ⟨(k, t), hkt, rfl⟩
        refine Shape.struct _ _ _ ?_ ?_
        · intro k t hkt
          exact getKey_isSome_of_mem (hmem k t hkt)
        · intro k t w hkt hw
          rw [getKey_of_mem_nodup hkeys (hmem k t hkt)] at hw
          cases hw
          obtain ⟨t', hg, _, hat⟩ := ha k t hkt
          have hkt' := Fields.get_mem hg
          have hsome := h1 k t' hkt'
          cases hgk : getKey k kvs with
          | none => simp [hgk] at hsome
          | some x =>
            simp only [fieldOut]
            exact ih k t hkt (hwf'.2 k t hkt) t' x (h2 k t' x hkt' hgk) hat (hn k t t' hkt hg)
    | _ => simp [assignable] at ha

/-! ### composition: valid values filter without error; narrowing chains -/

theorem filterBase_of_valid (b : Base) (v : J) (h : valid (.base b) v = true) :
    filterBase b v = (v, .ok) := by
  cases b <;> cases v <;> simp [valid, check, checkBase] at h <;> simp [filterBase]
  case int.num n =>
    cases n with
    | int i =>
      have : Num.inInt64 i = true := by simpa using h
      simp [this]
    | flt m e => simp at h

theorem filterFields_ok : ∀ (fs : Fields) (kvs : List (Bytes × J)),
    (∀ k t, (k, t) ∈ fs.toList → ∃ v, getKey k kvs = some v ∧ (filter t v).2 = .ok) →
    (filterFields fs kvs).2 = .ok
  | .nil, kvs, _ => rfl
  | .cons k t r, kvs, h => by
    have ih := filterFields_ok r kvs (fun k' t' hm => h k' t' (by simp [Fields.toList, hm]))
    obtain ⟨v, hv, hok⟩ := h k t (by simp [Fields.toList])
    simp only [filterFields, hv]
    by_cases hc : canFilter t = true
    · simp [hc, hok, ih, FErr.max]
    · simp [hc, ih]

theorem worstF_eq_ok {vs : List FErr} (h : ∀ v ∈ vs, v = .ok) : worstF vs = .ok := by
  induction vs with
  | nil => rfl
  | cons a r ih =>
    simp only [worstF, List.foldr_cons]
    have ha := h a List.mem_cons_self
    have hr := ih (fun v hv => h v (List.mem_cons_of_mem _ hv))
    simp only [worstF] at hr
    rw [ha, hr]; rfl

/-- a value that validates cleanly is filtered without any error -/
theorem filter_ok_of_valid (t : Ty) : ∀ v, valid t v = true → (filter t v).2 = .ok := by
  induction t using Ty.induct' with
  | base b => intro v h; simp [filter, filterBase_of_valid b v h]
  | user n => intro v h; cases v <;> simp [valid, check] at h <;> simp [filter]
  | arr t ih =>
    intro v h
    by_cases hc : canFilter t = true
    · have hs := shape_of_valid _ _ h
      cases hs with
      | null => simp [filter]
      | arr _ xs hx =>
        simp only [filter, hc, Bool.not_true, Bool.false_eq_true, ↓reduceIte]
        apply worstF_eq_ok
        rintro _ hm
        obtain ⟨x, hxm, rfl⟩ := List.mem_map.mp hm
        exact ih x (valid_of_shape _ _ (hx x hxm))
    · simp [filter, hc]
  | tmap t ih =>
    intro v h
    by_cases hc : canFilter t = true
    · have hs := shape_of_valid _ _ h
      cases hs with
      | null => simp [filter]
      | tmap _ kvs h1 _ =>
        simp only [filter, hc, Bool.not_true, Bool.false_eq_true, ↓reduceIte]
        apply worstF_eq_ok
        rintro _ hm
        obtain ⟨kv, hxm, rfl⟩ := List.mem_map.mp hm
        exact ih kv.2 (valid_of_shape _ _ (h1 kv hxm))
    · simp [filter, hc]
  | struct n fs ih =>
    intro v h
    have hs := shape_of_valid _ _ h
    cases hs with
    | null => simp [filter]
    | struct _ _ kvs h1 h2 =>
      simp only [filter]
      apply filterFields_ok
      intro k t hkt
      have := h1 k t hkt
      cases hg : getKey k kvs with
      | none => simp [hg] at this
      | some x => exact ⟨x, rfl, ih k t hkt x (valid_of_shape _ _ (h2 k t x hkt hg))⟩

theorem pureNarrowFields_iff : ∀ (fs fs' : Fields),
    pureNarrowFields fs fs' = true ↔
      ∀ k t t', (k, t) ∈ fs.toList → fs'.get k = some t' → pureNarrow t t' = true
  | .nil, fs' => by simp [pureNarrowFields, Fields.toList]
  | .cons k t r, fs' => by
    have ih := pureNarrowFields_iff r fs'
    simp only [pureNarrowFields, Bool.and_eq_true, ih, Fields.toList, List.mem_cons, Prod.mk.injEq]
    constructor
    · rintro ⟨h1, h2⟩ k' t' t'' (⟨rfl, rfl⟩ | h) hg
      · simpa [hg] using h1
      · exact h2 _ _ _ h hg
    · intro h
      refine ⟨?_, fun k' t' t'' h' hg => h _ _ _ (Or.inr h') hg⟩
      cases hg : fs'.get k with
      | none => rfl
      | some t' => exact h k t t' (Or.inl ⟨rfl, rfl⟩) hg

/-- scalar source types return a valid value unchanged -/
theorem filter_fst_of_valid_scalar (s : Ty) (v : J) (hs : valid s v = true)
    (hsc : (∃ b, s = .base b) ∨ ∃ n, s = .user n) : (filter s v).1 = v := by
  rcases hsc with ⟨b, rfl⟩ | ⟨n, rfl⟩
  · simp [filter, filterBase_of_valid b v hs]
  · cases v <;> simp [filter]

/-- Narrowing chain: for a value that is valid at the wider type `s`,
filtering to `s` first and then to the narrower `d` gives the same value as
filtering to `d` directly. -/
theorem filter_chain (d : Ty) : d.wf = true → ∀ (s : Ty) (v : J), s.wf = true → valid s v = true →
    assignable d s = true → pureNarrow d s = true →
    (filter d (filter s v).1).1 = (filter d v).1 := by
  induction d using Ty.induct' with
  | base b =>
    intro _ s v _ hs ha hp
    cases s with
    | base s' => rw [filter_fst_of_valid_scalar _ v hs (Or.inl ⟨s', rfl⟩)]
    | user m => rw [filter_fst_of_valid_scalar _ v hs (Or.inr ⟨m, rfl⟩)]
    | struct n fs => simp [assignable] at ha; simp [pureNarrow, ha] at hp
    | tmap t => simp [assignable] at ha; simp [pureNarrow, ha] at hp
    | arr t => simp [assignable] at ha
  | user n =>
    intro _ s v _ hs ha _
    cases s with
    | base s' => rw [filter_fst_of_valid_scalar _ v hs (Or.inl ⟨s', rfl⟩)]
    | user m => rw [filter_fst_of_valid_scalar _ v hs (Or.inr ⟨m, rfl⟩)]
    | _ => simp [assignable] at ha
  | arr d ih =>
    intro hwf s v hswf hs ha hp
    have ih := ih (by simpa [Ty.wf] using hwf)
    cases s with
    | arr s' =>
      simp only [assignable] at ha
      simp only [pureNarrow] at hp
      have hswf' : s'.wf = true := by simpa [Ty.wf] using hswf
      have hsh := shape_of_valid _ _ hs
      cases hsh with
      | null => rw [filter_null]
      | arr _ xs hx =>
        rw [filter_arr_fst, filter_arr_fst, filter_arr_fst, List.map_map]
        congr 1
        apply List.map_congr_left
        intro x hxm
        exact ih s' x hswf' (valid_of_shape _ _ (hx x hxm)) ha hp
    | _ => simp [assignable] at ha
  | tmap d ih =>
    intro hwf s v hswf hs ha hp
    have ih := ih (by simpa [Ty.wf] using hwf)
    cases s with
    | tmap s' =>
      simp only [assignable] at ha
      simp only [pureNarrow] at hp
      have hswf' : s'.wf = true := by simpa [Ty.wf] using hswf
      have hsh := shape_of_valid _ _ hs
      cases hsh with
      | null => rw [filter_null]
      | tmap _ kvs h1 _ =>
        rw [filter_tmap_fst, filter_tmap_fst, filter_tmap_fst, List.map_map]
        congr 1
        apply List.map_congr_left
        intro kv hm
        simp only [Function.comp, Prod.mk.injEq, true_and]
        exact ih s' kv.2 hswf' (valid_of_shape _ _ (h1 kv hm)) ha hp
    | struct n fs => simp [pureNarrow] at hp
    | _ => simp [assignable] at ha
  | struct n fs ih =>
    intro hwf s v hswf hs ha hp
    have hwf' := Fields.wf_iff.mp (by simpa [Ty.wf] using hwf)
    cases s with
    | struct n' fs' =>
      have hswf' := Fields.wf_iff.mp (by simpa [Ty.wf] using hswf)
      simp only [assignable, assignableFields_iff] at ha
      simp only [pureNarrow, pureNarrowFields_iff] at hp
      have hsh := shape_of_valid _ _ hs
      cases hsh with
      | null => rw [filter_null]
      | struct _ _ kvs h1 h2 =>
        rw [filter_struct_fst n' fs' kvs, filter_struct_fst, filter_struct_fst]
        congr 1
        apply List.map_congr_left
        rintro ⟨k, t⟩ hkt
        simp only [Prod.mk.injEq, true_and]
        obtain ⟨t', hg, _, hat⟩ := ha k t hkt
        have hkt' := Fields.get_mem hg
        have hsome := h1 k t' hkt'
        cases hgk : getKey k kvs with
        | none => simp [hgk] at hsome
        | some x =>
          have hmem : (k, fieldOut t' (getKey k kvs)) ∈
              fs'.toList.map (fun kt => (kt.1, fieldOut kt.2 (getKey kt.1 kvs))) :=
            List.mem_map.mpr ⟨(k, t'), hkt', rfl⟩
          rw [getKey_of_mem_nodup (by rw [keys_fields_out]; exact hswf'.1) hmem, hgk]
          simp only [fieldOut]
          exact ih k t hkt (hwf'.2 k t hkt) t' x (hswf'.2 k t' hkt')
            (valid_of_shape _ _ (h2 k t' x hkt' hgk)) hat (hp k t t' hkt hg)
    | _ => simp [assignable] at ha

/-! ### `noHole` is exact: on every other assignable pair a counterexample exists -/

/-- for every type there is a value that does not have its shape even after filtering -/
theorem exists_bad (d : Ty) : ∃ w, ¬ Shape d (filter d w).1 := by
  cases d with
  | base b =>
    by_cases hb : b = .bool
    · subst hb; exact ⟨.str [], by simp [filter, filterBase]; intro h; cases h⟩
    · refine ⟨.bool true, ?_⟩
      cases b <;> simp [filter, filterBase] at hb ⊢ <;> intro h <;> cases h
  | user n => exact ⟨.bool true, by simp [filter]; intro h; cases h⟩
  | arr t =>
    refine ⟨.bool true, ?_⟩
    by_cases hc : canFilter t = true <;> simp [filter, hc] <;> intro h <;> cases h
  | tmap t =>
    refine ⟨.bool true, ?_⟩
    by_cases hc : canFilter t = true <;> simp [filter, hc] <;> intro h <;> cases h
  | struct n fs => exact ⟨.bool true, by simp [filter]; intro h; cases h⟩

theorem getKey_append_last (k : Bytes) (v : J) : ∀ (l : List (Bytes × J)),
    getKey k (l ++ [(k, v)]) = some v
  | [] => by simp [getKey]
  | (k', v') :: r => by simp [getKey, getKey_append_last k v r]

theorem getKey_append_ne {k k' : Bytes} (v : J) (h : k' ≠ k) : ∀ (l : List (Bytes × J)),
    getKey k (l ++ [(k', v)]) = getKey k l
  | [] => by simp [getKey, h]
  | (k'', v'') :: r => by simp [getKey, getKey_append_ne v h r]

/-- a key that is not a member name -/
theorem exists_fresh (fs : Fields) : ∃ k : Bytes, k ∉ fs.toList.map Prod.fst := by
  let n := ((fs.toList.map Prod.fst).map List.length).sum
  refine ⟨List.replicate (n + 1) 0x78, ?_⟩
  intro hm
  have : ∀ (ls : List Bytes) (x : Bytes), x ∈ ls → x.length ≤ (ls.map List.length).sum := by
    intro ls
    induction ls with
    | nil => intro x hx; cases hx
    | cons a r ih =>
      intro x hx
      simp only [List.map_cons, List.sum_cons]
      rcases List.mem_cons.mp hx with rfl | hx
      · omega
      · have := ih x hx; omega
  have := this _ _ hm
  simp only [List.length_replicate] at this
  omega

/-- all declared members present with value `g k` -/
theorem getKey_fields_map (fs : Fields) (g : Bytes → J) (hn : (fs.toList.map Prod.fst).Nodup)
    {k : Bytes} {t : Ty} (h : (k, t) ∈ fs.toList) :
    getKey k (fs.toList.map fun kt => (kt.1, g kt.1)) = some (g k) := by
  apply getKey_of_mem_nodup
  · rw [keys_fields_out fs (fun kt => g kt.1)]; exact hn
  · exact List.mem_map.mpr ⟨(k, t), h, rfl⟩

theorem getKey_fields_map_none (fs : Fields) (g : Bytes → J) {k : Bytes}
    (h : k ∉ fs.toList.map Prod.fst) :
    getKey k (fs.toList.map fun kt => (kt.1, g kt.1)) = none := by
  rw [getKey_eq_none_iff, keys_fields_out fs (fun kt => g kt.1)]
  exact h

theorem noHole_exact (d : Ty) : d.wf = true → ∀ s : Ty, s.wf = true → assignable d s = true →
    noHole d s = false → ∃ v, Shape s v ∧ ¬ Shape d (filter d v).1 := by
  induction d using Ty.induct' with
  | base b => intro _ s _ _ hn; simp [noHole] at hn
  | user n => intro _ s _ _ hn; simp [noHole] at hn
  | arr d ih =>
    intro hwf s hswf ha hn
    cases s with
    | arr s' =>
      simp only [assignable] at ha
      simp only [noHole] at hn
      obtain ⟨w, hw1, hw2⟩ := ih (by simpa [Ty.wf] using hwf) s' (by simpa [Ty.wf] using hswf) ha hn
      refine ⟨.arr [w], Shape.arr _ _ (by simpa using hw1), ?_⟩
      rw [filter_arr_fst]
      intro h
      cases h with
      | arr _ _ hx => exact hw2 (hx _ (by simp))
    | _ => simp [assignable] at ha
  | tmap d ih =>
    intro hwf s hswf ha hn
    cases s with
    | tmap s' =>
      simp only [assignable] at ha
      simp only [noHole, Bool.and_eq_false_iff, Bool.or_eq_false_iff, Bool.not_eq_false'] at hn
      rcases hn with ⟨hd, hs'⟩ | hn
      · -- F9: directory-like destination, source is not
        refine ⟨.obj [([0x61, 0x2F, 0x62], .null)], Shape.tmap _ _ ?_ ?_, ?_⟩
        · intro kv hkv
          simp only [List.mem_singleton] at hkv
          subst hkv; exact Shape.null _
        · intro h; rw [hs'] at h; cases h
        · rw [filter_tmap_fst]
          intro h
          cases h with
          | tmap _ _ _ h2 =>
            have : legalName [0x61, 0x2F, 0x62] = true :=
              h2 hd ([0x61, 0x2F, 0x62], (filter d .null).1) (by simp)
            revert this; decide
      · obtain ⟨w, hw1, hw2⟩ := ih (by simpa [Ty.wf] using hwf) s' (by simpa [Ty.wf] using hswf) ha hn
        refine ⟨.obj [([0x6B], w)], Shape.tmap _ _ ?_ ?_, ?_⟩
        · intro kv hkv
          simp only [List.mem_singleton] at hkv
          subst hkv; exact hw1
        · intro _ kv hkv
          simp only [List.mem_singleton] at hkv
          subst hkv; show legalName [0x6B] = true; decide
        · rw [filter_tmap_fst]
          intro h
          cases h with
          | tmap _ _ h1 _ => exact hw2 (h1 ([0x6B], (filter d w).1) (by simp))
    | struct n fs' =>
      -- F10: an undeclared member with a value the map's element type does not accept
      have hswf' := Fields.wf_iff.mp (by simpa [Ty.wf] using hswf)
      obtain ⟨fresh, hfresh⟩ := exists_fresh fs'
      obtain ⟨bad, hbad⟩ := exists_bad d
      have hb : ∀ k t, (k, t) ∈ fs'.toList →
          getKey k (fs'.toList.map fun kt => (kt.1, (fun _ => J.null) kt.1)) = some .null :=
        fun k t h => getKey_fields_map fs' (fun _ => J.null) hswf'.1 h
      refine ⟨.obj ((fs'.toList.map fun kt => (kt.1, (fun _ => J.null) kt.1)) ++ [(fresh, bad)]), Shape.struct _ _ _ ?_ ?_, ?_⟩
      · intro k t hkt
        have hne : fresh ≠ k := by
          rintro rfl; exact hfresh (List.mem_map.mpr ⟨(fresh, t), hkt, rfl⟩)
        rw [getKey_append_ne _ hne, hb k t hkt]; rfl
      · intro k t v hkt hg
        have hne : fresh ≠ k := by
          rintro rfl; exact hfresh (List.mem_map.mpr ⟨(fresh, t), hkt, rfl⟩)
        rw [getKey_append_ne _ hne, hb k t hkt] at hg
        cases hg; exact Shape.null _
      · rw [filter_tmap_fst]
        intro h
        cases h with
        | tmap _ _ h1 _ =>
          exact hbad (h1 (fresh, (filter d bad).1) (by simp))
    | _ => simp [assignable] at ha
  | struct n fs ih =>
    intro hwf s hswf ha hn
    have hwf' := Fields.wf_iff.mp (by simpa [Ty.wf] using hwf)
    cases s with
    | struct n' fs' =>
      have hswf' := Fields.wf_iff.mp (by simpa [Ty.wf] using hswf)
      simp only [assignable, assignableFields_iff] at ha
      have hex : ∃ k t t', (k, t) ∈ fs.toList ∧ fs'.get k = some t' ∧ noHole t t' = false := by
        apply Classical.byContradiction
        intro hne
        have : noHoleFields fs fs' = true := by
          rw [noHoleFields_iff]
          intro k t t' hkt hg
          cases hh : noHole t t' with
          | true => rfl
          | false => exact absurd ⟨k, t, t', hkt, hg, hh⟩ hne
        simp [noHole, this] at hn
      obtain ⟨k, t, t', hkt, hg, hh⟩ := hex
      have hkt' := Fields.get_mem hg
      obtain ⟨_, hg', _, hat⟩ := ha k t hkt
      rw [hg] at hg'; cases hg'
      obtain ⟨w, hw1, hw2⟩ := ih k t hkt (hwf'.2 k t hkt) t' (hswf'.2 k t' hkt') hat hh
      let g : Bytes → J := fun k' => if k' = k then w else .null
      refine ⟨.obj (fs'.toList.map fun kt => (kt.1, g kt.1)), Shape.struct _ _ _ ?_ ?_, ?_⟩
      · intro k' t'' h; rw [getKey_fields_map fs' g hswf'.1 h]; rfl
      · intro k' t'' v h hgv
        rw [getKey_fields_map fs' g hswf'.1 h] at hgv
        cases hgv
        by_cases hk : k' = k
        · subst hk
          have : t'' = t' := by
            have := Fields.get_of_mem hswf'.1 h
            rw [hg] at this; cases this; rfl
          subst this
          simp [g, hw1]
        · simp [g, hk]; exact Shape.null _
      · rw [filter_struct_fst]
        intro h
        cases h with
        | struct _ _ _ _ h2 =>
          have hmem : (k, fieldOut t (getKey k (fs'.toList.map fun kt => (kt.1, g kt.1)))) ∈
              fs.toList.map (fun kt => (kt.1, fieldOut kt.2 (getKey kt.1 (fs'.toList.map fun kt => (kt.1, g kt.1))))) :=
            List.mem_map.mpr ⟨(k, t), hkt, rfl⟩
          have hgo := getKey_of_mem_nodup (by rw [keys_fields_out]; exact hwf'.1) hmem
          have := h2 k t _ hkt hgo
          rw [getKey_fields_map fs' g hswf'.1 hkt'] at this
          simp only [fieldOut, g, ↓reduceIte] at this
          exact hw2 this
    | _ => simp [assignable] at ha

/-! ### when does assignability preserve the `TypeId` shape -/

theorem arrayDim_eq_of_assignable (d : Ty) : ∀ s, assignable d s = true → (dims d).1 = (dims s).1 := by
  induction d using Ty.induct' with
  | base b => intro s h; cases s <;> simp [assignable] at h <;> simp [dims]
  | user n => intro s h; cases s <;> simp [assignable] at h <;> simp [dims]
  | arr d ih =>
    intro s h
    cases s <;> simp [assignable] at h
    case arr s' => simp [dims, ih s' h]
  | tmap d _ => intro s h; cases s <;> simp [assignable] at h <;> simp [dims]
  | struct n fs _ => intro s h; cases s <;> simp [assignable] at h <;> simp [dims]

theorem dims_eq_of_assignable (d : Ty) : ∀ s, assignable d s = true → mapCoercion d s = false →
    dims d = dims s := by
  induction d using Ty.induct' with
  | base b =>
    intro s h hm
    cases s <;> simp [assignable] at h <;> simp [dims]
    case tmap t => subst h; simp [mapCoercion] at hm
  | user n => intro s h _; cases s <;> simp [assignable] at h <;> simp [dims]
  | arr d ih =>
    intro s h hm
    cases s <;> simp [assignable] at h
    case arr s' =>
      simp only [mapCoercion] at hm
      simp [dims, ih s' h hm]
  | tmap d _ =>
    intro s h hm
    cases s <;> simp [assignable] at h
    case tmap s' => simp [dims, arrayDim_eq_of_assignable d s' h]
    case struct n fs => simp [mapCoercion] at hm
  | struct n fs _ => intro s h _; cases s <;> simp [assignable] at h <;> simp [dims]

theorem checkFields_dedupLast : ∀ (fs : Fields) (kvs : List (Bytes × J)),
    checkFields fs (dedupLast kvs) = checkFields fs kvs
  | .nil, _ => rfl
  | .cons k t r, kvs => by
    simp only [checkFields, getKey_dedupLast, checkFields_dedupLast r kvs]

theorem filterFields_dedupLast : ∀ (fs : Fields) (kvs : List (Bytes × J)),
    filterFields fs (dedupLast kvs) = filterFields fs kvs
  | .nil, _ => rfl
  | .cons k t r, kvs => by
    simp only [filterFields, getKey_dedupLast, filterFields_dedupLast r kvs]


/-! ### filtering does EXACTLY this (typed, exact counterpart of `filter_drops`) -/

theorem dropsTL_map (R : Num → Int → Prop) (t : Ty) (f : J → J) : ∀ (xs : List J),
    (∀ x, x ∈ xs → DropsT R t (f x) x) → DropsTL R t (xs.map f) xs
  | [], _ => .nil t
  | x :: r, h => .cons (h x (by simp)) (dropsTL_map R t f r (fun y hy => h y (by simp [hy])))

theorem dropsTM_map (R : Num → Int → Prop) (t : Ty) (f : J → J) : ∀ (kvs : List (Bytes × J)),
    (∀ kv, kv ∈ kvs → DropsT R t (f kv.2) kv.2) → DropsTM R t (kvs.map fun kv => (kv.1, f kv.2)) kvs
  | [], _ => .nil t
  | (k, v) :: r, h => .cons (h (k, v) (by simp)) (dropsTM_map R t f r (fun y hy => h y (by simp [hy])))

theorem filterBase_dropsT (b : Base) (v : J) (h : (filterBase b v).2 ≠ .fatal) :
    DropsT exactRewrite (.base b) (filterBase b v).1 v := by
  by_cases hb : b = .int
  · subst hb
    cases v with
    | null => exact .null _
    | num n =>
      cases n with
      | int i =>
        simp only [filterBase] at h ⊢
        by_cases hr : Num.inInt64 i = true
        · exact .intLit i hr
        · simp [hr] at h
      | flt m e =>
        simp only [filterBase] at h ⊢
        cases hi : (Num.flt m e).intValue? with
        | none => simp [hi] at h
        | some j =>
          by_cases hr : Num.inInt64 j = true
          · simp only [hr, ↓reduceIte]; exact .intRewrite _ j ⟨hi, hr⟩
          · simp [hi, hr] at h
    | bool _ => simp [filterBase] at h
    | str _ => simp [filterBase] at h
    | arr _ => simp [filterBase] at h
    | obj _ => simp [filterBase] at h
  · rw [filterBase_fst_of_ne_int b _ hb]
    refine .keep _ _ ?_
    cases b <;> simp_all [canFilter]

theorem filterFields_dropsTF (R : Num → Int → Prop) (kvs : List (Bytes × J)) : ∀ (fs : Fields),
    (∀ k t, (k, t) ∈ fs.toList → ∀ v, (filter t v).2 ≠ .fatal → DropsT R t (filter t v).1 v) →
    (filterFields fs kvs).2 ≠ .fatal → DropsTF R fs kvs (filterFields fs kvs).1
  | .nil, _, _ => by simp only [filterFields]; exact .nil kvs
  | .cons k t r, ih, h => by
    simp only [filterFields] at h ⊢
    cases hg : getKey k kvs with
    | none => simp [hg] at h
    | some v =>
      simp only [hg] at h ⊢
      by_cases hc : canFilter t = true
      · simp only [hc, ↓reduceIte] at h ⊢
        rw [FErr.max_ne_fatal] at h
        exact .filtered hg hc (ih k t (by simp [Fields.toList]) v h.1)
          (filterFields_dropsTF R kvs r (fun k' t' hm => ih k' t' (by simp [Fields.toList, hm])) h.2)
      · have hc' : canFilter t = false := by simpa using hc
        simp only [hc', Bool.false_eq_true, ↓reduceIte] at h ⊢
        exact .copied hg hc'
          (filterFields_dropsTF R kvs r (fun k' t' hm => ih k' t' (by simp [Fields.toList, hm])) h)

theorem filter_dropsT (t : Ty) : ∀ v, (filter t v).2 ≠ .fatal → DropsT exactRewrite t (filter t v).1 v := by
  induction t using Martian.Types.Ty.induct' with
  | base b => intro v h; simp only [filter] at h ⊢; exact filterBase_dropsT b v h
  | user n =>
    intro v _
    have : (filter (.user n) v).1 = v := by simp only [filter]; split <;> rfl
    rw [this]; exact .keep _ _ rfl
  | arr t ih =>
    intro v h
    by_cases hc : canFilter t = true
    · cases v with
      | null => simp only [filter, hc, Bool.not_true, Bool.false_eq_true, ↓reduceIte]; exact .null _
      | arr xs =>
        simp only [filter, hc, Bool.not_true, Bool.false_eq_true, ↓reduceIte] at h ⊢
        rw [worstF_ne_fatal] at h
        exact .arr t xs _ hc (dropsTL_map _ t (fun x => (filter t x).1) xs
          (fun x hx => ih x (h _ (List.mem_map.mpr ⟨x, hx, rfl⟩))))
      | bool _ => simp [filter, hc] at h
      | num _ => simp [filter, hc] at h
      | str _ => simp [filter, hc] at h
      | obj _ => simp [filter, hc] at h
    · have hc' : canFilter t = false := by simpa using hc
      have : (filter (.arr t) v).1 = v := by simp [filter, hc']
      rw [this]; exact .keep _ _ (by simp [canFilter, hc'])
  | tmap t ih =>
    intro v h
    by_cases hc : canFilter t = true
    · cases v with
      | null => simp only [filter, hc, Bool.not_true, Bool.false_eq_true, ↓reduceIte]; exact .null _
      | obj kvs =>
        simp only [filter, hc, Bool.not_true, Bool.false_eq_true, ↓reduceIte] at h ⊢
        rw [worstF_ne_fatal] at h
        exact .tmap t kvs _ hc (dropsTM_map _ t (fun x => (filter t x).1) kvs
          (fun kv hkv => ih kv.2 (h _ (List.mem_map.mpr ⟨kv, hkv, rfl⟩))))
      | bool _ => simp [filter, hc] at h
      | num _ => simp [filter, hc] at h
      | str _ => simp [filter, hc] at h
      | arr _ => simp [filter, hc] at h
    · have hc' : canFilter t = false := by simpa using hc
      have : (filter (.tmap t) v).1 = v := by simp [filter, hc']
      rw [this]; exact .keep _ _ (by simp [canFilter, hc'])
  | struct n fs ih =>
    intro v h
    cases v with
    | null => simp only [filter]; exact .null _
    | obj kvs =>
      simp only [filter] at h ⊢
      exact .struct n fs kvs _ (filterFields_dropsTF _ kvs fs ih h)
    | bool _ => simp [filter] at h
    | num _ => simp [filter] at h
    | str _ => simp [filter] at h
    | arr _ => simp [filter] at h

end Martian.Types
