import Martian.Vdr

/-! Lemmas about the report accounting of the VDR model. -/
namespace Martian.Vdr

def sumDelta (l : List VEvent) : Int := (l.map (·.delta)).sum

@[simp] theorem sumDelta_nil : sumDelta [] = 0 := rfl
@[simp] theorem sumDelta_cons (e : VEvent) (l : List VEvent) : sumDelta (e :: l) = e.delta + sumDelta l := by
  simp [sumDelta]

theorem sumDelta_append (a b : List VEvent) : sumDelta (a ++ b) = sumDelta a + sumDelta b := by
  simp [sumDelta, List.sum_append]

theorem sumDelta_reverse (a : List VEvent) : sumDelta a.reverse = sumDelta a := by
  induction a with
  | nil => rfl
  | cons x r ih => simp [sumDelta_append, ih]; omega

theorem sumDelta_insertEv (e : VEvent) (l : List VEvent) : sumDelta (insertEv e l) = e.delta + sumDelta l := by
  induction l with
  | nil => simp [insertEv]
  | cons x r ih =>
    simp only [insertEv]
    split
    · simp
    · simp [ih]; omega

theorem sumDelta_sortEvs (l : List VEvent) : sumDelta (sortEvs l) = sumDelta l := by
  induction l with
  | nil => rfl
  | cons x r ih => simp [sortEvs, sumDelta_insertEv] at *; rw [ih]

theorem sumDelta_mergeStep (acc : List VEvent) (e : VEvent) :
    sumDelta (mergeStep acc e) = sumDelta acc + e.delta := by
  unfold mergeStep
  cases acc with
  | nil => simp
  | cons l r =>
    simp only
    split
    · simp; omega
    · simp; omega

theorem sumDelta_foldl_mergeStep (l acc : List VEvent) :
    sumDelta (l.foldl mergeStep acc) = sumDelta acc + sumDelta l := by
  induction l generalizing acc with
  | nil => simp
  | cons x r ih => simp [ih, sumDelta_mergeStep]; omega

theorem sumDelta_mergeEvents (l : List VEvent) : sumDelta (mergeEvents l) = sumDelta l := by
  unfold mergeEvents
  rw [sumDelta_reverse, sumDelta_foldl_mergeStep, sumDelta_sortEvs]
  simp

/-- the non-nil reports -/
def present (rs : List (Option KReport)) : List KReport := rs.filterMap id

theorem foldl_mergeAcc (rs : List (Option KReport)) (acc : KReport) :
    (rs.foldl mergeAcc acc).count = acc.count + ((present rs).map (·.count)).sum ∧
    (rs.foldl mergeAcc acc).size = acc.size + ((present rs).map (·.size)).sum ∧
    (rs.foldl mergeAcc acc).paths = acc.paths ++ ((present rs).map (·.paths)).flatten ∧
    sumDelta (rs.foldl mergeAcc acc).events = sumDelta acc.events + ((present rs).map (fun r => sumDelta r.events)).sum := by
  induction rs generalizing acc with
  | nil => simp [present]
  | cons r rest ih =>
    cases r with
    | none =>
      simpa [present, mergeAcc] using ih acc
    | some r =>
      have := ih (mergeAcc acc (some r))
      simp only [List.foldl_cons]
      obtain ⟨h1, h2, h3, h4⟩ := this
      refine ⟨?_, ?_, ?_, ?_⟩
      · rw [h1]; simp [present, mergeAcc]; omega
      · rw [h2]; simp [present, mergeAcc]; omega
      · rw [h3]; simp [present, mergeAcc]
      · rw [h4]; simp [present, mergeAcc, sumDelta_append]; omega

end Martian.Vdr
