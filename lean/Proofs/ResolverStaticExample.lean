/-
C01 — a concrete plain program inside the proved fragment (non-vacuity of
`resolver_refines_den_plain_partial`): nested sub-pipeline, aliased call,
struct narrowing WIDE → PAIR across the pipeline boundary, projections through
the boundary, struct / array literals mixing references and constants.
-/
import Martian.ResolverStaticCheck
import Martian.ResolverStaticTree

namespace Proofs.ResolverStatic
open Martian.Dataflow Martian.ResolverForks Martian.ResolverStatic

def xInt : Ty := ⟨"int", 0, 0⟩
def xStr : Ty := ⟨"string", 0, 0⟩
def xPair : Ty := ⟨"PAIR", 0, 0⟩
def xWide : Ty := ⟨"WIDE", 0, 0⟩

def exPlain : Program :=
  { structs := [("PAIR", [⟨"a", xInt⟩, ⟨"b", xStr⟩]),
                ("WIDE", [⟨"a", xInt⟩, ⟨"b", xStr⟩, ⟨"c", ⟨"float", 0, 0⟩⟩]),
                ("BOX", [⟨"p", xPair⟩, ⟨"n", xInt⟩])]
    callables :=
      [ ("GEN", .stage [⟨"n", xInt⟩] [⟨"w", xWide⟩, ⟨"x", xInt⟩, ⟨"ws", ⟨"WIDE", 0, 1⟩⟩]),
        ("USE", .stage [⟨"p", xPair⟩, ⟨"y", xInt⟩, ⟨"ps", ⟨"PAIR", 0, 1⟩⟩, ⟨"box", ⟨"BOX", 0, 0⟩⟩]
                       [⟨"r", xInt⟩]),
        ("INNER", .pipeline [⟨"q", xPair⟩, ⟨"k", xInt⟩, ⟨"qs", ⟨"PAIR", 0, 1⟩⟩] [⟨"r", xInt⟩, ⟨"back", xPair⟩, ⟨"bs", ⟨"string", 0, 1⟩⟩]
          [ { id := "USE", callee := "USE", mapped := false, disabled := none,
              binds := [⟨"p", false, .self "q" []⟩, ⟨"y", false, .self "q" ["a"]⟩,
                        ⟨"ps", false, .arr [.self "q" [], .struct [("a", .self "k" []), ("b", .lit (.atom "\"s\""))]]⟩,
                        ⟨"box", false, .struct [("p", .self "q" []), ("n", .lit (.atom "7"))]⟩] } ]
          [("r", .ref "USE" ["r"]), ("back", .self "q" []), ("bs", .self "qs" ["b"])]),
        ("TOP", .pipeline [⟨"n", xInt⟩] [⟨"r", xInt⟩, ⟨"back", xPair⟩, ⟨"bs", ⟨"string", 0, 1⟩⟩]
          [ { id := "GEN", callee := "GEN", mapped := false, disabled := none,
              binds := [⟨"n", false, .self "n" []⟩] },
            { id := "INNER", callee := "INNER", mapped := false, disabled := none,
              binds := [⟨"q", false, .ref "GEN" ["w"]⟩, ⟨"k", false, .ref "GEN" ["x"]⟩,
                        ⟨"qs", false, .ref "GEN" ["ws"]⟩] },
            { id := "U2", callee := "USE", mapped := false, disabled := none,
              binds := [⟨"p", false, .ref "INNER" ["back"]⟩, ⟨"y", false, .ref "INNER" ["r"]⟩,
                        ⟨"ps", false, .arr []⟩,
                        ⟨"box", false, .struct [("p", .ref "GEN" ["w"]), ("n", .ref "INNER" ["back", "a"])]⟩] } ]
          [("r", .ref "U2" ["r"]), ("back", .ref "INNER" ["back"]), ("bs", .ref "INNER" ["bs"])]) ]
    top := { id := "TOP", callee := "TOP", mapped := false, disabled := none,
             binds := [⟨"n", false, .lit (.atom "5")⟩] } }

def exNm (path : List String) : String := ".".intercalate path

def exWide (a : String) : J := .obj [("a", .atom a), ("b", .atom "\"x\""), ("c", .atom "1.5")]

def exPlainOracle : Oracle := fun k =>
  if k.path == ["TOP", "GEN"] then
    some (.obj [("w", exWide "1"), ("x", .atom "3"), ("ws", .arr [exWide "8", .null, exWide "9"]), ("junk", .atom "0")])
  else if k.path == ["TOP", "INNER", "USE"] then some (.obj [("r", .atom "11")])
  else if k.path == ["TOP", "U2"] then some (.obj [("r", .atom "12")])
  else none

/-- the recorded outs of `exPlain` by NODE NAME: an oracle that does not distinguish call paths
with the same name (what `StoreOf` demands of the oracle for a naming that is not injective on
arbitrary lists, such as the "."-join) -/
def exPlainOuts (name : String) : Option J :=
  if name == "TOP.GEN" then
    some (.obj [("w", exWide "1"), ("x", .atom "3"), ("ws", .arr [exWide "8", .null, exWide "9"]), ("junk", .atom "0")])
  else if name == "TOP.INNER.USE" then some (.obj [("r", .atom "11")])
  else if name == "TOP.U2" then some (.obj [("r", .atom "12")])
  else none

def exPlainOracleN : Oracle := fun k => exPlainOuts (exNm k.path)

def exPlainStoreN : Store := { outs := fun node _ => (exPlainOuts node).getD .null, idx := fun _ _ => [] }

def exPlainStore : Store :=
  { outs := fun node f =>
      if node == "TOP.GEN" then (exPlainOracle ⟨["TOP", "GEN"], f⟩).getD .null
      else if node == "TOP.INNER.USE" then (exPlainOracle ⟨["TOP", "INNER", "USE"], f⟩).getD .null
      else if node == "TOP.U2" then (exPlainOracle ⟨["TOP", "U2"], f⟩).getD .null
      else .null
    idx := fun _ _ => [] }

/-- a program with map calls of a stage over array literals (elements: constants, a pipeline
input, upstream outputs, struct literals next to references that are narrowed), consumed
whole, projected and narrowed -/
def exMap : Program :=
  { structs := [("PAIR", [⟨"a", xInt⟩, ⟨"b", xStr⟩]),
                ("WIDE", [⟨"a", xInt⟩, ⟨"b", xStr⟩, ⟨"c", ⟨"float", 0, 0⟩⟩])]
    callables :=
      [ ("GEN", .stage [⟨"n", xInt⟩] [⟨"w", xWide⟩, ⟨"x", xInt⟩]),
        ("WORK", .stage [⟨"x", xInt⟩, ⟨"p", xPair⟩, ⟨"k", xInt⟩] [⟨"y", xInt⟩, ⟨"q", xWide⟩]),
        ("USE", .stage [⟨"ys", ⟨"int", 0, 1⟩⟩, ⟨"qs", ⟨"PAIR", 0, 1⟩⟩, ⟨"qa", ⟨"int", 0, 1⟩⟩] [⟨"r", xInt⟩]),
        ("TOP", .pipeline [⟨"v", xInt⟩] [⟨"ys", ⟨"int", 0, 1⟩⟩, ⟨"r", xInt⟩]
          [ { id := "GEN", callee := "GEN", mapped := false, disabled := none,
              binds := [⟨"n", false, .self "v" []⟩] },
            { id := "W", callee := "WORK", mapped := true, disabled := none,
              binds := [⟨"x", true, .arr [.lit (.atom "1"), .self "v" [], .ref "GEN" ["x"]]⟩,
                        ⟨"p", true, .arr [.ref "GEN" ["w"],
                                          .struct [("a", .lit (.atom "1")), ("b", .lit (.atom "\"s\""))],
                                          .ref "GEN" ["w"]]⟩,
                        ⟨"k", false, .ref "GEN" ["x"]⟩] },
            { id := "USE", callee := "USE", mapped := false, disabled := none,
              binds := [⟨"ys", false, .ref "W" ["y"]⟩, ⟨"qs", false, .ref "W" ["q"]⟩,
                        ⟨"qa", false, .ref "W" ["q", "a"]⟩] } ]
          [("ys", .ref "W" ["y"]), ("r", .ref "USE" ["r"])]) ]
    top := { id := "TOP", callee := "TOP", mapped := false, disabled := none,
             binds := [⟨"v", false, .lit (.atom "5")⟩] } }

def exMapOracle : Oracle := fun k =>
  if k.path == ["TOP", "GEN"] then some (.obj [("w", exWide "1"), ("x", .atom "3")])
  else if k.path == ["TOP", "W"] then
    match k.forks with
    | [("W", .i n)] => some (.obj [("y", .atom (toString (10 + n))), ("q", exWide (toString (20 + n)))])
    | _ => none
  else if k.path == ["TOP", "USE"] then some (.obj [("r", .atom "99")])
  else none

/-- map calls of a stage in typed-map mode and over a literal that arrives through a pipeline input -/
def exMapG : Program :=
  { structs := [("PAIR", [⟨"a", xInt⟩, ⟨"b", xStr⟩]),
                ("WIDE", [⟨"a", xInt⟩, ⟨"b", xStr⟩, ⟨"c", ⟨"float", 0, 0⟩⟩])]
    callables :=
      [ ("GEN", .stage [⟨"n", xInt⟩] [⟨"w", xWide⟩, ⟨"x", xInt⟩]),
        ("WORK", .stage [⟨"x", xInt⟩, ⟨"p", xPair⟩, ⟨"k", xInt⟩] [⟨"y", xInt⟩, ⟨"q", xWide⟩]),
        ("USEM", .stage [⟨"ys", ⟨"int", 1, 0⟩⟩, ⟨"qs", ⟨"PAIR", 1, 0⟩⟩, ⟨"qa", ⟨"int", 1, 0⟩⟩] [⟨"r", xInt⟩]),
        ("INNER", .pipeline [⟨"xs", ⟨"int", 0, 1⟩⟩, ⟨"ps", ⟨"PAIR", 0, 1⟩⟩, ⟨"k", xInt⟩]
            [⟨"ys", ⟨"int", 0, 1⟩⟩, ⟨"qs", ⟨"PAIR", 0, 1⟩⟩]
          [ { id := "WORK", callee := "WORK", mapped := true, disabled := none,
              binds := [⟨"x", true, .self "xs" []⟩, ⟨"p", true, .self "ps" []⟩, ⟨"k", false, .self "k" []⟩] } ]
          [("ys", .ref "WORK" ["y"]), ("qs", .ref "WORK" ["q"])]),
        ("TOP", .pipeline [⟨"v", xInt⟩] [⟨"ys", ⟨"int", 0, 1⟩⟩, ⟨"ms", ⟨"int", 1, 0⟩⟩, ⟨"r", xInt⟩]
          [ { id := "GEN", callee := "GEN", mapped := false, disabled := none,
              binds := [⟨"n", false, .self "v" []⟩] },
            { id := "IN", callee := "INNER", mapped := false, disabled := none,
              binds := [⟨"xs", false, .arr [.lit (.atom "1"), .ref "GEN" ["x"]]⟩,
                        ⟨"ps", false, .arr [.ref "GEN" ["w"], .struct [("a", .lit (.atom "2")), ("b", .lit (.atom "\"t\""))]]⟩,
                        ⟨"k", false, .self "v" []⟩] },
            { id := "W2", callee := "WORK", mapped := true, disabled := none,
              binds := [⟨"x", true, .map [("ka", .self "v" []), ("kb", .ref "GEN" ["x"])]⟩,
                        ⟨"p", false, .ref "GEN" ["w"]⟩, ⟨"k", false, .lit (.atom "7")⟩] },
            { id := "USEM", callee := "USEM", mapped := false, disabled := none,
              binds := [⟨"ys", false, .ref "W2" ["y"]⟩, ⟨"qs", false, .ref "W2" ["q"]⟩,
                        ⟨"qa", false, .ref "W2" ["q", "a"]⟩] } ]
          [("ys", .ref "IN" ["ys"]), ("ms", .ref "W2" ["y"]), ("r", .ref "USEM" ["r"])]) ]
    top := { id := "TOP", callee := "TOP", mapped := false, disabled := none,
             binds := [⟨"v", false, .lit (.atom "5")⟩] } }

def exMapGOracle : Oracle := fun k =>
  if k.path == ["TOP", "GEN"] then some (.obj [("w", exWide "1"), ("x", .atom "3")])
  else if k.path == ["TOP", "IN", "WORK"] then
    match k.forks with
    | [("WORK", .i n)] => some (.obj [("y", .atom (toString (10 + n))), ("q", exWide (toString (20 + n)))])
    | _ => none
  else if k.path == ["TOP", "W2"] then
    match k.forks with
    | [("W2", .k s)] => some (.obj [("y", .atom ("\"" ++ s ++ "\"")), ("q", exWide "30")])
    | _ => none
  else if k.path == ["TOP", "USEM"] then some (.obj [("r", .atom "99")])
  else none

def exMapGStore : Store := storeOfNodes exNm (staticProgram exMapG exNm).2 exMapGOracle

/-- a pipeline mapped over an array literal whose body has a stage that depends on the split value,
one that does not, a NESTED map call over a literal that mixes the split value with a constant,
and a pass-through return of the split value -/
def exPipe : Program :=
  { structs := [("PAIR", [⟨"a", xInt⟩, ⟨"b", xStr⟩])]
    callables :=
      [ ("GEN", .stage [⟨"n", xInt⟩] [⟨"p", xPair⟩, ⟨"x", xInt⟩]),
        ("WORK", .stage [⟨"x", xInt⟩, ⟨"k", xInt⟩] [⟨"y", xInt⟩, ⟨"q", xPair⟩]),
        ("CONST", .stage [⟨"k", xInt⟩] [⟨"c", xInt⟩]),
        ("USE", .stage [⟨"ys", ⟨"int", 0, 1⟩⟩, ⟨"zs", ⟨"int", 0, 2⟩⟩, ⟨"qs", ⟨"PAIR", 0, 1⟩⟩, ⟨"cs", ⟨"int", 0, 1⟩⟩,
                        ⟨"xs", ⟨"int", 0, 1⟩⟩] [⟨"r", xInt⟩]),
        ("INNER", .pipeline [⟨"x", xInt⟩, ⟨"k", xInt⟩]
            [⟨"y", xInt⟩, ⟨"zs", ⟨"int", 0, 1⟩⟩, ⟨"q", xPair⟩, ⟨"c", xInt⟩, ⟨"x2", xInt⟩]
          [ { id := "WORK", callee := "WORK", mapped := false, disabled := none,
              binds := [⟨"x", false, .self "x" []⟩, ⟨"k", false, .self "k" []⟩] },
            { id := "CONST", callee := "CONST", mapped := false, disabled := none,
              binds := [⟨"k", false, .self "k" []⟩] },
            { id := "W2", callee := "WORK", mapped := true, disabled := none,
              binds := [⟨"x", true, .arr [.self "x" [], .lit (.atom "7")]⟩, ⟨"k", false, .ref "WORK" ["y"]⟩] } ]
          [("y", .ref "WORK" ["y"]), ("zs", .ref "W2" ["y"]), ("q", .ref "WORK" ["q"]),
           ("c", .ref "CONST" ["c"]), ("x2", .self "x" [])]),
        ("TOP", .pipeline [⟨"v", xInt⟩] [⟨"ys", ⟨"int", 0, 1⟩⟩, ⟨"r", xInt⟩]
          [ { id := "GEN", callee := "GEN", mapped := false, disabled := none,
              binds := [⟨"n", false, .self "v" []⟩] },
            { id := "INNER", callee := "INNER", mapped := true, disabled := none,
              binds := [⟨"x", true, .arr [.lit (.atom "1"), .self "v" [], .ref "GEN" ["x"]]⟩,
                        ⟨"k", false, .ref "GEN" ["x"]⟩] },
            { id := "USE", callee := "USE", mapped := false, disabled := none,
              binds := [⟨"ys", false, .ref "INNER" ["y"]⟩, ⟨"zs", false, .ref "INNER" ["zs"]⟩,
                        ⟨"qs", false, .ref "INNER" ["q"]⟩, ⟨"cs", false, .ref "INNER" ["c"]⟩,
                        ⟨"xs", false, .ref "INNER" ["x2"]⟩] } ]
          [("ys", .ref "INNER" ["y"]), ("r", .ref "USE" ["r"])]) ]
    top := { id := "TOP", callee := "TOP", mapped := false, disabled := none,
             binds := [⟨"v", false, .lit (.atom "5")⟩] } }

def exPipeOracle : Oracle := fun k =>
  if k.path == ["TOP", "GEN"] then some (.obj [("p", .obj [("a", .atom "1"), ("b", .atom "\"x\"")]), ("x", .atom "3")])
  else if k.path == ["TOP", "INNER", "WORK"] then
    match k.forks with
    | [("INNER", .i n)] => some (.obj [("y", .atom (toString (10 + n))),
        ("q", .obj [("a", .atom (toString (20 + n))), ("b", .atom "\"q\"")])])
    | _ => none
  else if k.path == ["TOP", "INNER", "CONST"] then some (.obj [("c", .atom "4")])
  else if k.path == ["TOP", "INNER", "W2"] then
    match k.forks with
    | [("INNER", .i n), ("W2", .i m)] => some (.obj [("y", .atom (toString (100 + 10 * n + m))), ("q", .null)])
    | _ => none
  else if k.path == ["TOP", "USE"] then some (.obj [("r", .atom "99")])
  else none

def exPipeStore : Store :=
  storeOfNodes exNm (flattenTList [] (staticProgramT exPipe exNm).2) exPipeOracle

def exMapStore : Store := storeOfNodes exNm (staticProgram exMap exNm).2 exMapOracle

/-- a pipeline mapped over an array literal whose body has a call with a RUN-TIME `disabled`
control (an output of a sibling stage, different per fork), a consumer of the possibly-disabled
outputs inside the fork, and consumers above that project through the merged outputs -/
def exDis : Program :=
  { structs := [("PAIR", [⟨"a", xInt⟩, ⟨"b", xStr⟩])]
    callables :=
      [ ("FLAG", .stage [⟨"x", xInt⟩] [⟨"off", ⟨"bool", 0, 0⟩⟩, ⟨"p", xPair⟩]),
        ("WORK", .stage [⟨"x", xInt⟩, ⟨"p", xPair⟩] [⟨"y", xInt⟩, ⟨"q", xPair⟩]),
        ("USE", .stage [⟨"ys", ⟨"int", 0, 1⟩⟩, ⟨"qa", ⟨"int", 0, 1⟩⟩] [⟨"r", xInt⟩]),
        ("INNER", .pipeline [⟨"x", xInt⟩] [⟨"y", xInt⟩, ⟨"q", xPair⟩]
          [ { id := "FLAG", callee := "FLAG", mapped := false, disabled := none,
              binds := [⟨"x", false, .self "x" []⟩] },
            { id := "WORK", callee := "WORK", mapped := false, disabled := some (false, .ref "FLAG" ["off"]),
              binds := [⟨"x", false, .self "x" []⟩, ⟨"p", false, .ref "FLAG" ["p"]⟩] },
            { id := "W2", callee := "WORK", mapped := false, disabled := none,
              binds := [⟨"x", false, .ref "WORK" ["y"]⟩, ⟨"p", false, .ref "WORK" ["q"]⟩] } ]
          [("y", .ref "W2" ["y"]), ("q", .ref "WORK" ["q"])]),
        ("TOP", .pipeline [⟨"v", xInt⟩] [⟨"ys", ⟨"int", 0, 1⟩⟩, ⟨"qa", ⟨"int", 0, 1⟩⟩, ⟨"r", xInt⟩]
          [ { id := "INNER", callee := "INNER", mapped := true, disabled := none,
              binds := [⟨"x", true, .arr [.lit (.atom "1"), .self "v" [], .lit (.atom "3")]⟩] },
            { id := "USE", callee := "USE", mapped := false, disabled := none,
              binds := [⟨"ys", false, .ref "INNER" ["y"]⟩, ⟨"qa", false, .ref "INNER" ["q", "a"]⟩] } ]
          [("ys", .ref "INNER" ["y"]), ("qa", .ref "INNER" ["q", "a"]), ("r", .ref "USE" ["r"])]) ]
    top := { id := "TOP", callee := "TOP", mapped := false, disabled := none,
             binds := [⟨"v", false, .lit (.atom "5")⟩] } }

/-- fork 1 of INNER disables WORK -/
def exDisOracle : Oracle := fun k =>
  if k.path == ["TOP", "INNER", "FLAG"] then
    match k.forks with
    | [("INNER", .i n)] => some (.obj [("off", .atom (if n == 1 then "true" else "false")),
        ("p", .obj [("a", .atom (toString (20 + n))), ("b", .atom "\"p\"")])])
    | _ => none
  else if k.path == ["TOP", "INNER", "WORK"] then
    match k.forks with
    | [("INNER", .i n)] => some (.obj [("y", .atom (toString (10 + n))),
        ("q", .obj [("a", .atom (toString (30 + n))), ("b", .atom "\"q\"")])])
    | _ => none
  else if k.path == ["TOP", "INNER", "W2"] then
    match k.forks with
    | [("INNER", .i n)] => some (.obj [("y", .atom (toString (40 + n))), ("q", .null)])
    | _ => none
  else if k.path == ["TOP", "USE"] then some (.obj [("r", .atom "99")])
  else none

def exDisStore : Store :=
  storeOfNodes exNm (flattenTList [] (staticProgramT exDis exNm).2) exDisOracle

/-- map calls of RUN-TIME size: a pipeline mapped over the array output of a stage, with a nested map
call over an array output of a stage of its own fork; consumers above that project through the
merges -/
def exRun : Program :=
  { structs := []
    callables :=
      [ ("GEN", .stage [⟨"n", xInt⟩] [⟨"xs", ⟨"int", 0, 1⟩⟩, ⟨"k", xInt⟩]),
        ("WORK", .stage [⟨"x", xInt⟩, ⟨"k", xInt⟩] [⟨"y", xInt⟩, ⟨"zs", ⟨"int", 0, 1⟩⟩]),
        ("CONST", .stage [⟨"k", xInt⟩] [⟨"c", xInt⟩]),
        ("USE", .stage [⟨"ys", ⟨"int", 0, 1⟩⟩, ⟨"cs", ⟨"int", 0, 1⟩⟩, ⟨"yss", ⟨"int", 0, 2⟩⟩] [⟨"r", xInt⟩]),
        ("INNER", .pipeline [⟨"x", xInt⟩, ⟨"k", xInt⟩] [⟨"y", xInt⟩, ⟨"c", xInt⟩, ⟨"y2", ⟨"int", 0, 1⟩⟩]
          [ { id := "CONST", callee := "CONST", mapped := false, disabled := none,
              binds := [⟨"k", false, .self "k" []⟩] },
            { id := "WORK", callee := "WORK", mapped := false, disabled := none,
              binds := [⟨"x", false, .self "x" []⟩, ⟨"k", false, .ref "CONST" ["c"]⟩] },
            { id := "W2", callee := "WORK", mapped := true, disabled := none,
              binds := [⟨"x", true, .ref "WORK" ["zs"]⟩, ⟨"k", false, .self "x" []⟩] } ]
          [("y", .ref "WORK" ["y"]), ("c", .ref "CONST" ["c"]), ("y2", .ref "W2" ["y"])]),
        ("TOP", .pipeline [⟨"v", xInt⟩] [⟨"ys", ⟨"int", 0, 1⟩⟩, ⟨"yss", ⟨"int", 0, 2⟩⟩, ⟨"r", xInt⟩]
          [ { id := "GEN", callee := "GEN", mapped := false, disabled := none,
              binds := [⟨"n", false, .self "v" []⟩] },
            { id := "INNER", callee := "INNER", mapped := true, disabled := none,
              binds := [⟨"x", true, .ref "GEN" ["xs"]⟩, ⟨"k", false, .ref "GEN" ["k"]⟩] },
            { id := "USE", callee := "USE", mapped := false, disabled := none,
              binds := [⟨"ys", false, .ref "INNER" ["y"]⟩, ⟨"cs", false, .ref "INNER" ["c"]⟩,
                        ⟨"yss", false, .ref "INNER" ["y2"]⟩] } ]
          [("ys", .ref "INNER" ["y"]), ("yss", .ref "INNER" ["y2"]), ("r", .ref "USE" ["r"])]) ]
    top := { id := "TOP", callee := "TOP", mapped := false, disabled := none,
             binds := [⟨"v", false, .lit (.atom "5")⟩] } }

/-- GEN produces three elements; WORK in fork n of INNER produces n + 1 -/
def exRunOracle : Oracle := fun k =>
  if k.path == ["TOP", "GEN"] then some (.obj [("xs", .arr [.atom "5", .atom "6", .atom "7"]), ("k", .atom "3")])
  else if k.path == ["TOP", "INNER", "CONST"] then some (.obj [("c", .atom "4")])
  else if k.path == ["TOP", "INNER", "WORK"] then
    match k.forks with
    | [("INNER", .i n)] => some (.obj [("y", .atom (toString (10 + n))),
        ("zs", .arr ((List.range (n + 1)).map fun m => .atom (toString (100 * n + m))))])
    | _ => none
  else if k.path == ["TOP", "INNER", "W2"] then
    match k.forks with
    | [("INNER", .i n), ("W2", .i m)] => some (.obj [("y", .atom (toString (1000 + 10 * n + m))), ("zs", .null)])
    | _ => none
  else if k.path == ["TOP", "USE"] then some (.obj [("r", .atom "99")])
  else none

/-- the index sets the run recorded -/
def exRunIdx : IdxRec := fun k =>
  if k.path == ["TOP", "INNER"] then [.i 0, .i 1, .i 2]
  else if k.path == ["TOP", "INNER", "W2"] then
    match k.forks with
    | [("INNER", .i n)] => (List.range (n + 1)).map .i
    | _ => []
  else []

def exRunStore : Store :=
  storeOfRun exNm (flattenTList [] (staticProgramT exRun exNm).2) (subROccList [] (staticProgramT exRun exNm).2)
    exRunOracle exRunIdx

end Proofs.ResolverStatic
