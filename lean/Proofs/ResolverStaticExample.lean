/-
C01 — a concrete plain program inside the proved fragment (non-vacuity of
`resolver_refines_den_plain_partial`): nested sub-pipeline, aliased call,
struct narrowing WIDE → PAIR across the pipeline boundary, projections through
the boundary, struct / array literals mixing references and constants.
-/
import Martian.ResolverStaticCheck

namespace Proofs.ResolverStatic
open Martian.Dataflow Martian.ResolverForks Martian.ResolverStatic

def xInt : Ty := ⟨"int", 0, 0⟩
def xStr : Ty := ⟨"string", 0, 0⟩
def xPair : Ty := ⟨"PAIR", 0, 0⟩
def xWide : Ty := ⟨"WIDE", 0, 0⟩

def exPlain : Program :=
  { structs := [("PAIR", [⟨"a", xInt⟩, ⟨"b", xStr⟩]),
                ("WIDE", [⟨"a", xInt⟩, ⟨"b", xStr⟩, ⟨"c", ⟨"float", 0, 0⟩⟩]),
                ("BOX", [⟨"p", xPair⟩, ⟨"n", xInt⟩])]
    callables :=
      [ ("GEN", .stage [⟨"n", xInt⟩] [⟨"w", xWide⟩, ⟨"x", xInt⟩, ⟨"ws", ⟨"WIDE", 0, 1⟩⟩]),
        ("USE", .stage [⟨"p", xPair⟩, ⟨"y", xInt⟩, ⟨"ps", ⟨"PAIR", 0, 1⟩⟩, ⟨"box", ⟨"BOX", 0, 0⟩⟩]
                       [⟨"r", xInt⟩]),
        ("INNER", .pipeline [⟨"q", xPair⟩, ⟨"k", xInt⟩, ⟨"qs", ⟨"PAIR", 0, 1⟩⟩] [⟨"r", xInt⟩, ⟨"back", xPair⟩, ⟨"bs", ⟨"string", 0, 1⟩⟩]
          [ { id := "USE", callee := "USE", mapped := false, disabled := none,
              binds := [⟨"p", false, .self "q" []⟩, ⟨"y", false, .self "q" ["a"]⟩,
                        ⟨"ps", false, .arr [.self "q" [], .struct [("a", .self "k" []), ("b", .lit (.atom "\"s\""))]]⟩,
                        ⟨"box", false, .struct [("p", .self "q" []), ("n", .lit (.atom "7"))]⟩] } ]
          [("r", .ref "USE" ["r"]), ("back", .self "q" []), ("bs", .self "qs" ["b"])]),
        ("TOP", .pipeline [⟨"n", xInt⟩] [⟨"r", xInt⟩, ⟨"back", xPair⟩, ⟨"bs", ⟨"string", 0, 1⟩⟩]
          [ { id := "GEN", callee := "GEN", mapped := false, disabled := none,
              binds := [⟨"n", false, .self "n" []⟩] },
            { id := "INNER", callee := "INNER", mapped := false, disabled := none,
              binds := [⟨"q", false, .ref "GEN" ["w"]⟩, ⟨"k", false, .ref "GEN" ["x"]⟩,
                        ⟨"qs", false, .ref "GEN" ["ws"]⟩] },
            { id := "U2", callee := "USE", mapped := false, disabled := none,
              binds := [⟨"p", false, .ref "INNER" ["back"]⟩, ⟨"y", false, .ref "INNER" ["r"]⟩,
                        ⟨"ps", false, .arr []⟩,
                        ⟨"box", false, .struct [("p", .ref "GEN" ["w"]), ("n", .ref "INNER" ["back", "a"])]⟩] } ]
          [("r", .ref "U2" ["r"]), ("back", .ref "INNER" ["back"]), ("bs", .ref "INNER" ["bs"])]) ]
    top := { id := "TOP", callee := "TOP", mapped := false, disabled := none,
             binds := [⟨"n", false, .lit (.atom "5")⟩] } }

def exNm (path : List String) : String := ".".intercalate path

def exWide (a : String) : J := .obj [("a", .atom a), ("b", .atom "\"x\""), ("c", .atom "1.5")]

def exPlainOracle : Oracle := fun k =>
  if k.path == ["TOP", "GEN"] then
    some (.obj [("w", exWide "1"), ("x", .atom "3"), ("ws", .arr [exWide "8", .null, exWide "9"]), ("junk", .atom "0")])
  else if k.path == ["TOP", "INNER", "USE"] then some (.obj [("r", .atom "11")])
  else if k.path == ["TOP", "U2"] then some (.obj [("r", .atom "12")])
  else none

def exPlainStore : Store :=
  { outs := fun node f =>
      if node == "TOP.GEN" then (exPlainOracle ⟨["TOP", "GEN"], f⟩).getD .null
      else if node == "TOP.INNER.USE" then (exPlainOracle ⟨["TOP", "INNER", "USE"], f⟩).getD .null
      else if node == "TOP.U2" then (exPlainOracle ⟨["TOP", "U2"], f⟩).getD .null
      else .null
    idx := fun _ _ => [] }

/-- a program with map calls of a stage over array literals (elements: constants, a pipeline
input, upstream outputs, struct literals next to references that are narrowed), consumed
whole, projected and narrowed -/
def exMap : Program :=
  { structs := [("PAIR", [⟨"a", xInt⟩, ⟨"b", xStr⟩]),
                ("WIDE", [⟨"a", xInt⟩, ⟨"b", xStr⟩, ⟨"c", ⟨"float", 0, 0⟩⟩])]
    callables :=
      [ ("GEN", .stage [⟨"n", xInt⟩] [⟨"w", xWide⟩, ⟨"x", xInt⟩]),
        ("WORK", .stage [⟨"x", xInt⟩, ⟨"p", xPair⟩, ⟨"k", xInt⟩] [⟨"y", xInt⟩, ⟨"q", xWide⟩]),
        ("USE", .stage [⟨"ys", ⟨"int", 0, 1⟩⟩, ⟨"qs", ⟨"PAIR", 0, 1⟩⟩, ⟨"qa", ⟨"int", 0, 1⟩⟩] [⟨"r", xInt⟩]),
        ("TOP", .pipeline [⟨"v", xInt⟩] [⟨"ys", ⟨"int", 0, 1⟩⟩, ⟨"r", xInt⟩]
          [ { id := "GEN", callee := "GEN", mapped := false, disabled := none,
              binds := [⟨"n", false, .self "v" []⟩] },
            { id := "W", callee := "WORK", mapped := true, disabled := none,
              binds := [⟨"x", true, .arr [.lit (.atom "1"), .self "v" [], .ref "GEN" ["x"]]⟩,
                        ⟨"p", true, .arr [.ref "GEN" ["w"],
                                          .struct [("a", .lit (.atom "1")), ("b", .lit (.atom "\"s\""))],
                                          .ref "GEN" ["w"]]⟩,
                        ⟨"k", false, .ref "GEN" ["x"]⟩] },
            { id := "USE", callee := "USE", mapped := false, disabled := none,
              binds := [⟨"ys", false, .ref "W" ["y"]⟩, ⟨"qs", false, .ref "W" ["q"]⟩,
                        ⟨"qa", false, .ref "W" ["q", "a"]⟩] } ]
          [("ys", .ref "W" ["y"]), ("r", .ref "USE" ["r"])]) ]
    top := { id := "TOP", callee := "TOP", mapped := false, disabled := none,
             binds := [⟨"v", false, .lit (.atom "5")⟩] } }

def exMapOracle : Oracle := fun k =>
  if k.path == ["TOP", "GEN"] then some (.obj [("w", exWide "1"), ("x", .atom "3")])
  else if k.path == ["TOP", "W"] then
    match k.forks with
    | [("W", .i n)] => some (.obj [("y", .atom (toString (10 + n))), ("q", exWide (toString (20 + n)))])
    | _ => none
  else if k.path == ["TOP", "USE"] then some (.obj [("r", .atom "99")])
  else none

def exMapStore : Store := storeOfNodes exNm (staticProgram exMap exNm).2 exMapOracle

end Proofs.ResolverStatic
