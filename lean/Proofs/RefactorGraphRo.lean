/-
C19 — removing an output parameter that nothing refers to leaves the resolved
call graph unchanged except that the nodes of pipeline `x` lose the key `o` in
their resolved output struct.
-/
import Proofs.RefactorGraphLemmas
import Proofs.RefactorGraphOut
import Proofs.RefactorGraphRem

namespace Proofs.RefactorGraph
open Martian.Refactor

theorem envEntries_dropKey (o : String) (env : Env) :
    envEntries (dropKeyEnv o env) = dropKeyR o (envEntries env) := by
  induction env with
  | nil => rfl
  | cons e t ih =>
    obtain ⟨k, v⟩ := e
    simp only [dropKeyEnv]
    split
    · simp [envEntries, dropKeyR, *]
    · simp [envEntries, dropKeyR, *]

theorem projectMember_dropKey (o h : String) (t : List String) (env : Env) (hh : h ≠ o) :
    projectMember h t (dropKeyR o (envEntries env)) = projectMember h t (envEntries env) := by
  induction env with
  | nil => rfl
  | cons e tl ih =>
    obtain ⟨k, v⟩ := e
    simp only [envEntries, dropKeyR]
    split
    · rename_i hk
      have : ¬ k = h := fun e => hh (e ▸ hk)
      simp [projectMember, this]
    · simp only [projectMember]
      split
      · rfl
      · exact ih

section Ro
variable (x o : String)

def FRo (c : Callable) : Callable :=
  if c.name = x then
    (if c.isPipe then { c with outs := removeFirstOut o c.outs, ret := removeFirstBind o c.ret }
     else { c with outs := removeFirstOut o c.outs, sretain := removeFirstStr o c.sretain })
  else c

def ORo (name : String) (isPipe : Bool) (v : RExp) : RExp :=
  if name = x ∧ isPipe = true then dropTopKey o v else v

def JRo (d : Callable) (v : RExp) : Prop :=
  d.name = x → d.isPipe = true → (v = rnull ∨ ∃ env : Env, v = .map true (envEntries env))

theorem FRo_fields (c : Callable) :
    (FRo x o c).name = c.name ∧ (FRo x o c).isPipe = c.isPipe ∧ (FRo x o c).calls = c.calls
    ∧ (FRo x o c).retain = c.retain ∧ (FRo x o c).ins = c.ins := by
  unfold FRo
  split
  · split <;> exact ⟨rfl, rfl, rfl, rfl, rfl⟩
  · exact ⟨rfl, rfl, rfl, rfl, rfl⟩

theorem pipeOKRo_parts {p : Program} {c : Callable} (h : pipeOKRo x o p c = true) :
    (c.isPipe = true ∨ c.calls = [])
    ∧ (callIds c).Nodup
    ∧ (∀ k ∈ c.calls, noStar k.binds = true)
    ∧ noStar c.ret = true
    ∧ (∀ k ∈ c.calls, (p.find? k.decId).isSome = true)
    ∧ (∀ r ∈ graphRefs c, r.kind = RefKind.call → r.id ∈ callIds c)
    ∧ (c.name = x → (c.ret.map (·.name)).Nodup)
    ∧ (∀ r ∈ graphRefs c, r.kind = RefKind.call → r.id ∈ callIdsOf x c →
        ∃ h t, r.path = h :: t ∧ h ≠ o) := by
  simp only [pipeOKRo, Bool.and_eq_true, Bool.or_eq_true, List.all_eq_true, decide_eq_true_eq,
    bne_iff_ne, ne_eq, List.isEmpty_iff, List.contains_eq_mem, Bool.not_eq_true',
    decide_eq_false_iff_not] at h
  obtain ⟨⟨⟨⟨⟨⟨⟨h1, h2⟩, h3⟩, h4⟩, h5⟩, h6⟩, h7⟩, h8⟩ := h
  refine ⟨h1, h2, h3, h4, h5, ?_, ?_, ?_⟩
  · intro r hr hk
    cases h6 r hr with
    | inl h => exact absurd hk h
    | inr h => simpa using h
  · intro hn
    cases h7 with
    | inl h => exact absurd hn h
    | inr h => exact h
  · intro r hr hk hid
    cases h8 r hr with
    | inl h => simp [callRefTo, hk, hid] at h
    | inr h =>
      cases hp : r.path with
      | nil => simp [hp] at h
      | cons hd tl => exact ⟨hd, tl, rfl, by simpa [hp] using h⟩

/-- one reference of a pipeline resolves the same before and after -/
theorem perRef_ro (p : Program) (pipe : Callable) (self : Env) (sib sib' : String → RExp)
    (hg : pipeOKRo x o p pipe = true) (hsib : SibOK p (JRo x) pipe sib)
    (hag : SibAgree p (ORo x o) (fun _ _ => true) pipe sib sib')
    (r : Ref) (hr : r ∈ graphRefs pipe) :
    lookupRef self sib' r = lookupRef self sib r := by
  have hparts := pipeOKRo_parts x o hg
  have hs' := sibAgree_true hag
  subst hs'
  cases hkind : r.kind with
  | self => simp [lookupRef, hkind]
  | call =>
    have hid := hparts.2.2.2.2.2.1 r hr hkind
    obtain ⟨k', hk'⟩ := find_of_mem_ids pipe r.id hid
    have hk'm := (call_mem pipe r.id k' hk').1
    obtain ⟨d', hd'⟩ := Option.isSome_iff_exists.mp (hparts.2.2.2.2.1 k' hk'm)
    have hdn := find_name p _ d' hd'
    have hJ := hsib r.id k' d' hk' hd'
    have hO : Osib p (ORo x o) pipe sib r.id = ORo x o d'.name d'.isPipe (sib r.id) := by
      simp [Osib, calleeOf, hk', hd']
    simp only [lookupRef, hkind, hO]
    unfold ORo
    split
    · rename_i hx
      have hmem : r.id ∈ callIdsOf x pipe :=
        (mem_callIdsOf x pipe hparts.2.1 r.id k' hk').mpr (hdn ▸ hx.1)
      obtain ⟨h, t, hp, hho⟩ := hparts.2.2.2.2.2.2.2 r hr hkind hmem
      rw [hp]
      cases hJ hx.1 hx.2 with
      | inl h0 => rw [h0]; rfl
      | inr h1 =>
        obtain ⟨env, hv⟩ := h1
        rw [hv]
        simp only [dropTopKey, bindingPath]
        exact projectMember_dropKey o h t env hho
    · rfl

theorem outStep_eq (p : Program) (xc : Callable) (hxc : p.find? x = some xc)
    (hcons : ∀ c ∈ p.callables, ¬c.name = x ∨ (c.isPipe = xc.isPipe ∧ c.outs = xc.outs) ∧ c.ret = xc.ret) :
    outStep x o p = { p with callables := p.callables.map (FRo x o) } := by
    unfold outStep
    rw [hxc]
    cases hxp : xc.isPipe with
    | true =>
      simp only [hxp, if_true, applyOutAction]
      congr 1
      apply List.map_congr_left
      intro c hc
      unfold FRo
      by_cases hn : c.name = x
      · have hk : c.isPipe = true := by
          cases hcons c hc with
          | inl h => exact absurd hn h
          | inr h => rw [h.1.1, hxp]
        simp [hn, hk, removeOutsOf]
      · simp [hn]
    | false =>
      simp only [hxp, Bool.false_eq_true, if_false, applyOutAction]
      congr 1
      apply List.map_congr_left
      intro c hc
      unfold FRo
      by_cases hn : c.name = x
      · have hk : c.isPipe = false := by
          cases hcons c hc with
          | inl h => exact absurd hn h
          | inr h => rw [h.1.1, hxp]
        simp [hn, hk]
      · simp [hn]

theorem remove_output_graph (ti : TypeInfo) (p : Program) (hok : RemOutOK x o ti p = true) :
    deepGraph (ti.removeOutput x o) (outStep x o p) = (deepGraph ti p).map (remNodeOut x o) := by
  simp only [RemOutOK, Bool.and_eq_true, bne_iff_ne, ne_eq, List.all_eq_true] at hok
  obtain ⟨⟨⟨⟨hx, hfx⟩, hall⟩, htopok⟩, hax⟩ := hok
  have hax' := typesAvoid_parts hax
  cases hxc : p.find? x with
  | none => simp [hxc] at hfx
  | some xc =>
  simp only [hxc, Bool.and_eq_true, List.all_eq_true, Bool.or_eq_true, bne_iff_ne, ne_eq, beq_iff_eq] at hfx
  obtain ⟨⟨hcons, houtsE⟩, hretE⟩ := hfx
  have hp' := outStep_eq x o p xc hxc hcons
  let ok : String → Prop := fun base => base ≠ x
  have hmo : ∀ base, ok base → membersOf (ti.removeOutput x o) base = membersOf ti base := by
    intro base hb
    simp only [membersOf, TypeInfo.removeOutput]
    rw [lookup_onKey_ne x base _ ti.outs hb]
  have hclosed : ∀ base ms, ok base → membersOf ti base = some ms → ∀ m ∈ ms, ok m.2.base := by
    intro base ms _ hm m hmm
    cases membersOf_mem ti base ms hm with
    | inl h => exact hax'.2.1 _ h m hmm
    | inr h => exact hax'.2.2.2 _ h m hmm
  have hinsOK : ∀ n, ∀ m ∈ insOf ti n, ok m.2.base := by
    intro n m hm
    unfold insOf at hm
    cases hl : ti.ins.lookup n with
    | none => simp [hl] at hm
    | some ms =>
      simp only [hl, Option.getD_some] at hm
      exact hax'.2.2.1 _ (mem_of_lookup _ _ _ hl) m hm
  have houtsOK : ∀ n, ∀ m ∈ outsOf ti n, ok m.2.base := by
    intro n m hm
    unfold outsOf at hm
    cases hl : ti.outs.lookup n with
    | none => simp [hl] at hm
    | some ms =>
      simp only [hl, Option.getD_some] at hm
      exact hax'.2.2.2 _ (mem_of_lookup _ _ _ hl) m hm
  -- a callable named `x` found in `p` has the same shape as `xc`
  have hshape : ∀ n d, p.find? n = some d → d.name = x →
      (removeFirstOut o d.outs).isEmpty = d.outs.isEmpty ∧ (removeFirstBind o d.ret).isEmpty = d.ret.isEmpty := by
    intro n d hd hn
    cases hcons d (find_mem p n d hd) with
    | inl h => exact absurd hn h
    | inr h => rw [h.1.2, h.2]; exact ⟨houtsE, hretE⟩
  have H : SimHyp ti (ti.removeOutput x o) p (outStep x o p) id (FRo x o) (fun _ k => k)
      (fun _ e => e) (ORo x o) id
      (fun c => pipeOKRo x o p c = true ∧ (c.name = x →
        (removeFirstOut o c.outs).isEmpty = c.outs.isEmpty ∧ (removeFirstBind o c.ret).isEmpty = c.ret.isEmpty))
      (fun _ _ => True) (JRo x) (fun _ => True) (fun _ _ => true) := by
    refine { hfind1 := ?_, hfind0 := ?_, hrel := fun _ _ _ _ => trivial, hF := ?_, hcalls := ?_,
             hGid := fun _ _ => rfl, hGdec := fun _ _ _ _ => rfl, hfirst := ?_, hO0 := ?_,
             hOs := ?_, o0 := ?_, o0s := ?_, o1 := ?_, o2 := ?_, c5 := ?_, c6 := ?_, c7 := ?_ }
    · intro n d hd
      refine ⟨?_, hall d (find_mem p n d hd), hshape n d hd⟩
      rw [hp']
      unfold Program.find? at hd ⊢
      simp only [id]
      rw [find_map_name _ (fun c => (FRo_fields x o c).1), hd]; rfl
    · intro n _ hd
      rw [hp']
      unfold Program.find? at hd ⊢
      simp only [id]
      rw [find_map_name _ (fun c => (FRo_fields x o c).1), hd]; rfl
    · intro c hg
      have hf := FRo_fields x o c
      refine ⟨hf.2.1, hf.1, ?_, ?_⟩
      · unfold FRo
        split
        · rename_i hn; split <;> exact (hg.2 hn).1
        · rfl
      · unfold FRo
        split
        · rename_i hn
          split
          · exact (hg.2 hn).2
          · rfl
        · rfl
    · intro pipe _
      rw [filter_true', List.map_id', (FRo_fields x o pipe).2.2.1]
    · intro pipe hg
      exact first_of_nodup pipe (pipeOKRo_parts x o hg.1).2.1
    · intro n isP
      unfold ORo; split <;> rfl
    · intro d fq _ hp
      simp [ORo, hp]
    · intro d _ _; exact Or.inl rfl
    · intro d fq hp _ hp'; rw [hp] at hp'; cases hp'
    · intros; trivial
    · -- o2
      intro d ins sib _ _ _ _ _ _
      exact Or.inr ⟨_, rfl⟩
    · -- c5
      intro pipe self sib sib' k d id hg _ hsib hag _ hk hd
      have hparts := pipeOKRo_parts x o hg.1
      have hkm := (call_mem pipe id k hk).1
      have hF := FRo_fields x o d
      unfold callIns
      have hins : insOf (ti.removeOutput x o) (FRo x o d).name = insOf ti d.name := by rw [hF.1]; rfl
      rw [hins, hF.2.2.2.2, expandWild_noStar _ _ _ _ (hparts.2.2.1 k hkm),
          expandWild_noStar _ _ _ _ (hparts.2.2.1 k hkm),
          resolveBinds_ti_ok ti _ ok hmo hclosed _ (hinsOK d.name)]
      apply resolveBinds_congr
      intro bd hbd r hr
      exact perRef_ro x o p pipe self sib sib' hg.1 hsib hag r (mem_graphRefs_bind pipe k hkm bd hbd r hr)
    · -- c6
      intro d ins sib sib' hg hp _ hsib hag
      have hparts := pipeOKRo_parts x o hg.1
      have hper : ∀ bd ∈ d.ret, ∀ r ∈ refs bd.exp, lookupRef ins sib' r = lookupRef ins sib r :=
        fun bd hbd r hr => perRef_ro x o p d ins sib sib' hg.1 hsib hag r (mem_graphRefs_ret d bd hbd r hr)
      unfold pipeOuts
      rw [(FRo_fields x o d).1, expandWild_noStar _ _ _ _ hparts.2.2.2.1]
      by_cases hn : d.name = x
      · have hret : (FRo x o d).ret = removeFirstBind o d.ret := by simp [FRo, hn, hp]
        have houts : outsOf (ti.removeOutput x o) d.name = dropKeyM o (outsOf ti d.name) := by
          simp only [outsOf, TypeInfo.removeOutput, hn, lookup_onKey_self]
          cases ti.outs.lookup x <;> rfl
        have hokm : ∀ m ∈ dropKeyM o (outsOf ti d.name), ok m.2.base := by
          have : ∀ (l : Members), (∀ m ∈ l, ok m.2.base) → ∀ m ∈ dropKeyM o l, ok m.2.base := by
            intro l
            induction l with
            | nil => intro _ m hm; cases hm
            | cons e t ih =>
              intro hl m hm
              obtain ⟨k, v⟩ := e
              simp only [dropKeyM] at hm
              split at hm
              · exact hl m (List.mem_cons_of_mem _ hm)
              · cases hm with
                | head => exact hl (k, v) (List.mem_cons_self ..)
                | tail _ h => exact ih (fun m' hm' => hl m' (List.mem_cons_of_mem _ hm')) m h
          exact this _ (houtsOK d.name)
        rw [hret, expandWild_noStar _ _ _ _ (noStar_removeFirst o _ hparts.2.2.2.1), houts,
            resolveBinds_ti_ok ti _ ok hmo hclosed _ hokm,
            resolveBinds_congr _ _ _ (lookupRef ins sib) _
              (fun bd hbd r hr => hper bd (mem_removeFirstBind o _ bd hbd) r hr),
            resolveBinds_removeFirst o ti _ _ _ (hparts.2.2.2.2.2.2.1 hn), envEntries_dropKey]
        simp [ORo, hn, dropTopKey]
      · have hret : (FRo x o d).ret = d.ret := by simp [FRo, hn]
        have houts : outsOf (ti.removeOutput x o) d.name = outsOf ti d.name := by
          simp [outsOf, TypeInfo.removeOutput, lookup_onKey_ne x d.name _ _ hn]
        rw [hret, expandWild_noStar _ _ _ _ hparts.2.2.2.1, houts,
            resolveBinds_ti_ok ti _ ok hmo hclosed _ (houtsOK d.name),
            resolveBinds_congr _ _ _ (lookupRef ins sib) _ hper]
        simp [ORo, hn]
    · -- c7
      intro d ins sib sib' hg hp _ hsib hag
      unfold pipeRetained
      rw [(FRo_fields x o d).2.2.2.1, List.map_id]
      apply flatMap_congr'
      intro r hr
      rw [perRef_ro x o p d ins sib sib' hg.1 hsib hag r (mem_graphRefs_retain d r hr)]
  have hmap : nodeMap id (fun _ e => e) (ORo x o) id = remNodeOut x o := by
    funext n
    simp only [nodeMap, remNodeOut, ORo, id, List.map_id]
    split <;> rfl
  rw [← deepGraphKeep_true ti p, ← hmap]
  apply sim_graph H
  · intro t ht
    have htop := by simpa [ht] using htopok
    refine ⟨?_, ?_, ⟨htop, ?_⟩, trivial, rfl⟩
    · rw [hp']; exact ht
    · simp [FRo, topPipe, Ne.symm hx]
    · intro h; simp [topPipe] at h; exact absurd h hx
  · intro ht; rw [hp']; exact ht
  · rfl
  · rw [hp']
    simp only [graphFuel, List.map_map]
    congr 2
    apply List.map_congr_left
    intro c _
    simp only [Function.comp, (FRo_fields x o c).2.2.1]

end Ro

end Proofs.RefactorGraph
