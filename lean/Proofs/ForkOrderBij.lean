import Martian.ForkOrder
import Proofs.ForkOrder

/-! One fork per element / key combination: the enumeration is a permutation of the ragged
product the sources define (C10 order model; the C03 clause `forks_bijection`). -/
namespace Martian.ForkOrder
open Martian.SortKeys List

/-! ### list lemmas (core only) -/

theorem flatMap_nil_fun {α β : Type} (l : List α) : l.flatMap (fun _ => ([] : List β)) = [] := by
  induction l with
  | nil => rfl
  | cons a l ih => simp [ih]

theorem perm_flatMap_congr {α β : Type} {l : List α} {f g : α → List β}
    (h : ∀ a ∈ l, f a ~ g a) : l.flatMap f ~ l.flatMap g := by
  induction l with
  | nil => exact Perm.refl _
  | cons a l ih =>
    simp only [flatMap_cons]
    exact Perm.append (h a (by simp)) (ih (fun b hb => h b (mem_cons_of_mem _ hb)))

theorem perm_flatMap_append {α β : Type} (l : List α) (g h : α → List β) :
    l.flatMap (fun a => g a ++ h a) ~ l.flatMap g ++ l.flatMap h := by
  induction l with
  | nil => exact Perm.refl _
  | cons a l ih =>
    simp only [flatMap_cons]
    have h1 : g a ++ h a ++ flatMap (fun a => g a ++ h a) l
        ~ g a ++ h a ++ (flatMap g l ++ flatMap h l) := Perm.append_left _ ih
    refine h1.trans ?_
    simp only [append_assoc]
    exact Perm.append_left _ (perm_append_comm_assoc _ _ _)

theorem perm_flatMap_swap {α β γ : Type} (A : List α) (B : List β) (f : α → β → List γ) :
    A.flatMap (fun a => B.flatMap (f a)) ~ B.flatMap (fun b => A.flatMap (fun a => f a b)) := by
  induction A with
  | nil => simp [flatMap_nil_fun]
  | cons a A ih =>
    simp only [flatMap_cons]
    exact (Perm.append_left _ ih).trans (perm_flatMap_append B (f a) _).symm

theorem nodup_map_cons {l : List Fork} (p : Part) (h : l.Nodup) : (l.map (p :: ·)).Nodup := by
  unfold Nodup at *
  rw [pairwise_map]
  exact h.imp (fun hne e => hne (by simpa using e))

theorem nodup_flatMap_cons (l : List Part) (F : Part → List Fork) (hl : l.Nodup)
    (hF : ∀ p ∈ l, (F p).Nodup) : (l.flatMap fun p => (F p).map (p :: ·)).Nodup := by
  induction l with
  | nil => simp
  | cons a l ih =>
    simp only [flatMap_cons]
    rw [nodup_cons] at hl
    rw [nodup_append]
    refine ⟨nodup_map_cons a (hF a (by simp)), ih hl.2 (fun p hp => hF p (mem_cons_of_mem _ hp)), ?_⟩
    intro x hx y hy e
    subst e
    simp only [mem_map] at hx
    obtain ⟨t, _, rfl⟩ := hx
    simp only [mem_flatMap, mem_map] at hy
    obtain ⟨p, hp, t', _, e⟩ := hy
    have : p = a := by simpa using congrArg List.head? e
    exact hl.1 (this ▸ hp)

/-! ### what the sources define -/

def choices (inner : Inner) (r : Root) (j : Nat) (pre : List Part) : List Part :=
  match r with
  | .static e => (e.parts).getD []
  | .dyn => ((inner j pre).parts).getD []

/-- every combination: the ragged product, slowest root first (an order of its own; only the
SET matters here) -/
def allForks (inner : Inner) : Nat → List Part → List Root → List Fork
  | _, _, [] => [[]]
  | j, pre, r :: rs =>
    (choices inner r j pre).flatMap fun p => (allForks inner (j + 1) (pre ++ [p]) rs).map (p :: ·)

/-- `t` picks, at every root, one of the elements / keys its source has given the earlier picks -/
def Valid (inner : Inner) : Nat → List Part → List Root → Fork → Prop
  | _, _, [], [] => True
  | j, pre, r :: rs, p :: t => p ∈ choices inner r j pre ∧ Valid inner (j + 1) (pre ++ [p]) rs t
  | _, _, _, _ => False

theorem mem_allForks (inner : Inner) : ∀ (rs : List Root) (j : Nat) (pre : List Part) (t : Fork),
    t ∈ allForks inner j pre rs ↔ Valid inner j pre rs t := by
  intro rs
  induction rs with
  | nil => intro j pre t; cases t <;> simp [allForks, Valid]
  | cons r rs ih =>
    intro j pre t
    cases t with
    | nil => simp [allForks, Valid]
    | cons p t =>
      simp only [allForks, mem_flatMap, mem_map, Valid]
      constructor
      · rintro ⟨q, hq, t', ht', e⟩
        have h1 : q = p := by simpa using congrArg List.head? e
        have h2 : t' = t := by simpa using congrArg List.tail e
        subst h1; subst h2
        exact ⟨hq, (ih _ _ _).mp ht'⟩
      · rintro ⟨hp, hv⟩
        exact ⟨p, hp, t, (ih _ _ _).mpr hv, rfl⟩

/-- completions of a partly determined fork: the undetermined parts take every element of
their source given the parts before them -/
def comp (inner : Inner) : Nat → List Part → List Part → List Fork
  | _, _, [] => [[]]
  | j, pre, p :: rest =>
    if p = Part.undet then
      (((inner j pre).parts).getD []).flatMap fun x => (comp inner (j + 1) (pre ++ [x]) rest).map (x :: ·)
    else (comp inner (j + 1) (pre ++ [p]) rest).map (p :: ·)

theorem comp_determined (inner : Inner) : ∀ (rest : List Part) (j : Nat) (pre : List Part),
    Part.undet ∉ rest → comp inner j pre rest = [rest] := by
  intro rest
  induction rest with
  | nil => intro j pre _; rfl
  | cons p rest ih =>
    intro j pre h
    have hp : p ≠ Part.undet := fun e => h (by simp [e])
    simp [comp, hp, ih (j + 1) (pre ++ [p]) (fun hr => h (mem_cons_of_mem _ hr))]

/-- `sat` with the appended forks given relative to the position -/
def satRel (inner : Inner) : Nat → List Part → List Part → List Part × List (List Part)
  | _, _, [] => ([], [])
  | j, pre, p :: rest =>
    if p != Part.undet then
      let r := satRel inner (j + 1) (pre ++ [p]) rest
      (p :: r.1, r.2.map (p :: ·))
    else if pre.contains Part.empty then
      let r := satRel inner (j + 1) (pre ++ [Part.empty]) rest
      (Part.empty :: r.1, r.2.map (Part.empty :: ·))
    else
      match (inner j pre).parts with
      | none =>
        let r := satRel inner (j + 1) (pre ++ [Part.undet]) rest
        (Part.undet :: r.1, r.2.map (Part.undet :: ·))
      | some [] =>
        let r := satRel inner (j + 1) (pre ++ [Part.empty]) rest
        (Part.empty :: r.1, r.2.map (Part.empty :: ·))
      | some (x :: xs) =>
        let r := satRel inner (j + 1) (pre ++ [x]) rest
        (x :: r.1, xs.map (fun y => y :: rest) ++ r.2.map (x :: ·))

theorem sat_eq_satRel (inner : Inner) : ∀ (rest : List Part) (j : Nat) (pre : List Part),
    (sat inner j pre rest).1 = (satRel inner j pre rest).1 ∧
    (sat inner j pre rest).2 = (satRel inner j pre rest).2.map (pre ++ ·) := by
  intro rest
  induction rest with
  | nil => intro j pre; exact ⟨rfl, rfl⟩
  | cons p rest ih =>
    intro j pre
    by_cases hp : (p != Part.undet) = true
    · have := ih (j + 1) (pre ++ [p])
      simp [sat, satRel, hp, this.1, this.2, Function.comp_def]
    · by_cases he : Part.empty ∈ pre
      · have := ih (j + 1) (pre ++ [Part.empty])
        simp [sat, satRel, hp, he, this.1, this.2, Function.comp_def]
      · cases hparts : (inner j pre).parts with
        | none =>
          have := ih (j + 1) (pre ++ [Part.undet])
          simp [sat, satRel, hp, he, hparts, this.1, this.2, Function.comp_def]
        | some l =>
          cases l with
          | nil =>
            have := ih (j + 1) (pre ++ [Part.empty])
            simp [sat, satRel, hp, he, hparts, this.1, this.2, Function.comp_def]
          | cons x xs =>
            have := ih (j + 1) (pre ++ [x])
            simp [sat, satRel, hp, he, hparts, this.1, this.2, Function.comp_def]

/-- every source of an undetermined part is known and not empty -/
def InnerKnown (inner : Inner) : Prop := ∀ j pre, ∃ x xs, (inner j pre).parts = some (x :: xs)

theorem comp_cons_det (inner : Inner) (j : Nat) (pre : List Part) (p : Part) (rest : List Part)
    (hp : p ≠ Part.undet) :
    comp inner j pre (p :: rest) = (comp inner (j + 1) (pre ++ [p]) rest).map (p :: ·) := by
  simp [comp, hp]

theorem flatMap_congr' {α β : Type} {l : List α} {f g : α → List β} (h : ∀ a ∈ l, f a = g a) :
    l.flatMap f = l.flatMap g := by
  induction l with
  | nil => rfl
  | cons a l ih => simp [h a (by simp), ih (fun b hb => h b (mem_cons_of_mem _ hb))]

/-- the completions of a fork = the fork as `sat` leaves it, plus the completions of the forks
`sat` appends for it -/
theorem comp_partition (inner : Inner) (hI : InnerKnown inner) :
    ∀ (rest : List Part) (j : Nat) (pre : List Part), Part.empty ∉ pre → Part.empty ∉ rest →
      comp inner j pre rest ~
        (satRel inner j pre rest).1 :: (satRel inner j pre rest).2.flatMap (comp inner j pre) := by
  intro rest
  induction rest with
  | nil => intro j pre _ _; simp [comp, satRel]
  | cons p rest ih =>
    intro j pre he her
    have her' : Part.empty ∉ rest := fun h => her (mem_cons_of_mem _ h)
    by_cases hp : p = Part.undet
    · subst hp
      obtain ⟨x, xs, hparts⟩ := hI j pre
      obtain ⟨hxu, hxe⟩ := parts_determined hparts
      have hx : x ≠ Part.undet := fun e => hxu (by simp [e])
      have hxe' : Part.empty ∉ pre ++ [x] := by
        simp only [mem_append, mem_singleton, not_or]
        exact ⟨he, fun e => hxe (by simp [← e])⟩
      have IH := ih (j + 1) (pre ++ [x]) hxe' her'
      have hsat : satRel inner j pre (Part.undet :: rest)
          = (x :: (satRel inner (j + 1) (pre ++ [x]) rest).1,
             xs.map (fun y => y :: rest) ++ (satRel inner (j + 1) (pre ++ [x]) rest).2.map (x :: ·)) := by
        simp [satRel, he, hparts]
      have hL : comp inner j pre (Part.undet :: rest)
          = (comp inner (j + 1) (pre ++ [x]) rest).map (x :: ·)
            ++ xs.flatMap (fun y => (comp inner (j + 1) (pre ++ [y]) rest).map (y :: ·)) := by
        simp [comp, hparts]
      have hR : (xs.map (fun y => y :: rest)
            ++ (satRel inner (j + 1) (pre ++ [x]) rest).2.map (x :: ·)).flatMap (comp inner j pre)
          = xs.flatMap (fun y => (comp inner (j + 1) (pre ++ [y]) rest).map (y :: ·))
            ++ ((satRel inner (j + 1) (pre ++ [x]) rest).2.flatMap
                  (comp inner (j + 1) (pre ++ [x]))).map (x :: ·) := by
        rw [flatMap_append, flatMap_map, flatMap_map, map_flatMap]
        congr 1
        · apply flatMap_congr'
          intro y hy
          exact comp_cons_det inner j pre y rest (fun e => hxu (by simp [← e, hy]))
        · apply flatMap_congr'
          intro k _
          exact comp_cons_det inner j pre x k hx
      rw [hsat, hL]
      show _ ~ _ :: (_ : List Fork)
      simp only [hR]
      have h1 := (IH.map (x :: ·))
      simp only [map_cons] at h1
      refine (Perm.append_right _ h1).trans ?_
      simp only [cons_append]
      exact Perm.cons _ perm_append_comm
    · have hpb : (p != Part.undet) = true := by simpa using hp
      have hpE : p ≠ Part.empty := fun e => her (by simp [e])
      have hpe' : Part.empty ∉ pre ++ [p] := by
        simp only [mem_append, mem_singleton, not_or]
        exact ⟨he, fun e => hpE e.symm⟩
      have IH := ih (j + 1) (pre ++ [p]) hpe' her'
      have hsat : satRel inner j pre (p :: rest)
          = (p :: (satRel inner (j + 1) (pre ++ [p]) rest).1,
             (satRel inner (j + 1) (pre ++ [p]) rest).2.map (p :: ·)) := by
        simp [satRel, hpb]
      have hK : ((satRel inner (j + 1) (pre ++ [p]) rest).2.map (p :: ·)).flatMap (comp inner j pre)
          = ((satRel inner (j + 1) (pre ++ [p]) rest).2.flatMap (comp inner (j + 1) (pre ++ [p]))).map (p :: ·) := by
        rw [flatMap_map, map_flatMap]
        apply flatMap_congr'
        intro k _
        exact comp_cons_det inner j pre p k hp
      rw [hsat, comp_cons_det inner j pre p rest hp]
      show _ ~ _ :: (_ : List Fork)
      simp only [hK]
      have h1 := (IH.map (p :: ·))
      simpa using h1

theorem undetCount_cons_det (p : Part) (l : List Part) (h : p ≠ Part.undet) :
    undetCount (p :: l) = undetCount l := by
  simp [undetCount, filter_cons, h]

theorem undetCount_cons_undet (l : List Part) :
    undetCount (Part.undet :: l) = undetCount l + 1 := by
  simp [undetCount, filter_cons]

theorem satRel_kids (inner : Inner) (hI : InnerKnown inner) :
    ∀ (rest : List Part) (j : Nat) (pre : List Part), Part.empty ∉ pre → Part.empty ∉ rest →
      ∀ k ∈ (satRel inner j pre rest).2, undetCount k < undetCount rest ∧ Part.empty ∉ k := by
  intro rest
  induction rest with
  | nil => intro j pre _ _ k hk; simp [satRel] at hk
  | cons p rest ih =>
    intro j pre he her k hk
    have her' : Part.empty ∉ rest := fun h => her (mem_cons_of_mem _ h)
    by_cases hp : p = Part.undet
    · subst hp
      obtain ⟨x, xs, hparts⟩ := hI j pre
      obtain ⟨hxu, hxe⟩ := parts_determined hparts
      have hx : x ≠ Part.undet := fun e => hxu (by simp [e])
      have hxE : x ≠ Part.empty := fun e => hxe (by simp [e])
      have hxe' : Part.empty ∉ pre ++ [x] := by
        simp only [mem_append, mem_singleton, not_or]
        exact ⟨he, fun e => hxE e.symm⟩
      have hsat : (satRel inner j pre (Part.undet :: rest)).2
          = xs.map (fun y => y :: rest) ++ (satRel inner (j + 1) (pre ++ [x]) rest).2.map (x :: ·) := by
        simp [satRel, he, hparts]
      rw [hsat, mem_append] at hk
      rw [undetCount_cons_undet]
      rcases hk with hk | hk
      · obtain ⟨y, hy, rfl⟩ := mem_map.mp hk
        have hyu : y ≠ Part.undet := fun e => hxu (by simp [← e, hy])
        have hyE : y ≠ Part.empty := fun e => hxe (by simp [← e, hy])
        rw [undetCount_cons_det y rest hyu]
        refine ⟨Nat.lt_succ_self _, ?_⟩
        simp only [mem_cons, not_or]
        exact ⟨fun e => hyE e.symm, her'⟩
      · obtain ⟨k', hk', rfl⟩ := mem_map.mp hk
        obtain ⟨h1, h2⟩ := ih (j + 1) (pre ++ [x]) hxe' her' k' hk'
        rw [undetCount_cons_det x k' hx]
        refine ⟨Nat.lt_succ_of_lt h1, ?_⟩
        simp only [mem_cons, not_or]
        exact ⟨fun e => hxE e.symm, h2⟩
    · have hpb : (p != Part.undet) = true := by simpa using hp
      have hpE : p ≠ Part.empty := fun e => her (by simp [e])
      have hpe' : Part.empty ∉ pre ++ [p] := by
        simp only [mem_append, mem_singleton, not_or]
        exact ⟨he, fun e => hpE e.symm⟩
      have hsat : (satRel inner j pre (p :: rest)).2
          = (satRel inner (j + 1) (pre ++ [p]) rest).2.map (p :: ·) := by
        simp [satRel, hpb]
      rw [hsat] at hk
      obtain ⟨k', hk', rfl⟩ := mem_map.mp hk
      obtain ⟨h1, h2⟩ := ih (j + 1) (pre ++ [p]) hpe' her' k' hk'
      rw [undetCount_cons_det p k' hp, undetCount_cons_det p rest hp]
      refine ⟨h1, ?_⟩
      simp only [mem_cons, not_or]
      exact ⟨fun e => hpE e.symm, h2⟩

theorem flatMap_singleton_map {α β : Type} (f : α → β) (l : List α) :
    l.flatMap (fun a => [f a]) = l.map f := by
  induction l with
  | nil => rfl
  | cons a l ih => simp [ih]

theorem satFork_eq (inner : Inner) (f : Fork) : satFork inner f = (satRel inner 0 [] f).1 :=
  (sat_eq_satRel inner f 0 []).1

theorem kids_eq (inner : Inner) (f : Fork) : kids inner f = (satRel inner 0 [] f).2 := by
  have := (sat_eq_satRel inner f 0 []).2
  simpa [kids] using this

/-- the breadth-first list is a permutation of all completions of the forks it starts from -/
theorem bfs_perm (inner : Inner) (hI : InnerKnown inner) :
    ∀ (n : Nat) (g : List Fork), (∀ f ∈ g, undetCount f ≤ n ∧ Part.empty ∉ f) →
      bfs inner n g ~ g.flatMap (comp inner 0 []) := by
  intro n
  induction n with
  | zero =>
    intro g hg
    have hdet : ∀ f ∈ g, Part.undet ∉ f := by
      intro f hf hu
      have := (hg f hf).1
      have hpos : 0 < undetCount f := by
        unfold undetCount
        exact length_pos_of_mem (mem_filter.mpr ⟨hu, by simp⟩)
      omega
    have h1 : bfs inner 0 g = g := bfs_determined inner 0 g hdet
    have h2 : g.flatMap (comp inner 0 []) = g.flatMap (fun f => [f]) :=
      flatMap_congr' (fun f hf => comp_determined inner f 0 [] (hdet f hf))
    rw [h1, h2]
    simp
  | succ n ih =>
    intro g hg
    have hk : ∀ f ∈ g.flatMap (kids inner), undetCount f ≤ n ∧ Part.empty ∉ f := by
      intro k hk
      obtain ⟨f, hf, hkf⟩ := mem_flatMap.mp hk
      rw [kids_eq] at hkf
      obtain ⟨h1, h2⟩ := satRel_kids inner hI f 0 [] (by simp) (hg f hf).2 k hkf
      exact ⟨by have := (hg f hf).1; omega, h2⟩
    have IH := ih (g.flatMap (kids inner)) hk
    have hP : g.flatMap (comp inner 0 [])
        ~ g.flatMap (fun f => [satFork inner f] ++ (kids inner f).flatMap (comp inner 0 [])) := by
      apply perm_flatMap_congr
      intro f hf
      have := comp_partition inner hI f 0 [] (by simp) (hg f hf).2
      rw [satFork_eq, kids_eq]
      simpa using this
    refine Perm.symm (hP.trans ?_)
    refine (perm_flatMap_append g _ _).trans ?_
    simp only [bfs]
    refine Perm.append ?_ ?_
    · rw [flatMap_singleton_map]
    · rw [← flatMap_assoc]
      exact IH.symm

/-- every static root is known -/
def StaticKnown (roots : List Root) : Prop :=
  ∀ r ∈ roots, r = Root.dyn ∨ ∃ e l, r = Root.static e ∧ e.parts = some l

theorem product_flatMap_comp (inner : Inner) :
    ∀ (rs : List Root) (j : Nat) (pre : List Part), StaticKnown rs →
      (product (rs.map Root.initParts)).flatMap (comp inner j pre) ~ allForks inner j pre rs := by
  intro rs
  induction rs with
  | nil => intro j pre _; simp [product, comp, allForks]
  | cons r rs ih =>
    intro j pre hs
    have hs' : StaticKnown rs := fun r' hr' => hs r' (mem_cons_of_mem _ hr')
    simp only [map_cons, product]
    rw [flatMap_assoc]
    simp only [flatMap_map]
    rcases hs r (by simp) with hr | ⟨e, l, hr, hl⟩
    · subst hr
      simp only [Root.initParts, flatMap_cons, flatMap_nil, append_nil, allForks, choices]
      have h1 : ∀ tail : Fork, comp inner j pre (Part.undet :: tail)
          = (((inner j pre).parts).getD []).flatMap
              (fun x => (comp inner (j + 1) (pre ++ [x]) tail).map (x :: ·)) := by
        intro tail; simp [comp]
      simp only [h1]
      refine (perm_flatMap_swap _ _ _).trans ?_
      apply perm_flatMap_congr
      intro x _
      rw [← map_flatMap]
      exact (ih (j + 1) (pre ++ [x]) hs').map _
    · subst hr
      obtain ⟨hlu, _⟩ := parts_determined hl
      simp only [Root.initParts, hl, Option.getD_some, allForks, choices]
      have h1 : (product (rs.map Root.initParts)).flatMap
            (fun tail => l.flatMap (fun p => comp inner j pre (p :: tail)))
          = (product (rs.map Root.initParts)).flatMap
            (fun tail => l.flatMap (fun p => (comp inner (j + 1) (pre ++ [p]) tail).map (p :: ·))) := by
        apply flatMap_congr'
        intro tail _
        apply flatMap_congr'
        intro p hp
        exact comp_cons_det inner j pre p tail (fun e => hlu (e ▸ hp))
      rw [h1]
      refine (perm_flatMap_swap _ _ _).trans ?_
      apply perm_flatMap_congr
      intro x _
      rw [← map_flatMap]
      exact (ih (j + 1) (pre ++ [x]) hs').map _

theorem length_of_mem_product : ∀ {ls : List (List Part)} {f : Fork}, f ∈ product ls → f.length = ls.length
  | [], f, h => by simp [product] at h; simp [h]
  | l :: rest, f, h => by
    simp only [product, mem_flatMap, mem_map] at h
    obtain ⟨tail, ht, q, _, rfl⟩ := h
    simp [length_of_mem_product ht]

theorem forkOrder_perm_allForks (roots : List Root) (inner : Inner) (hs : StaticKnown roots)
    (hI : InnerKnown inner) : forkOrder roots inner ~ allForks inner 0 [] roots := by
  unfold forkOrder
  refine (bfs_perm inner hI roots.length _ ?_).trans (product_flatMap_comp inner roots 0 [] hs)
  intro f hf
  constructor
  · have h1 := length_of_mem_product hf
    have h2 : undetCount f ≤ f.length := by unfold undetCount; exact length_filter_le _ _
    simp at h1; omega
  · intro he
    obtain ⟨l, hl, hpl⟩ := mem_product hf Part.empty he
    obtain ⟨r, hr, rfl⟩ := mem_map.mp hl
    rcases hs r hr with h | ⟨e, l', h, hl'⟩
    · subst h; simp [Root.initParts] at hpl
    · subst h
      simp only [Root.initParts, hl', Option.getD_some] at hpl
      exact (parts_determined hl').2 hpl

/-- a Go map has distinct keys -/
def Elems.KeysNodup : Elems → Prop
  | .keys ks => ks.Nodup
  | _ => True

theorem parts_nodup {e : Elems} {l : List Part} (hn : e.KeysNodup) (h : e.parts = some l) : l.Nodup := by
  cases e with
  | unknown => cases h
  | arr n =>
    simp only [Elems.parts, Option.some.injEq] at h; subst h
    unfold Nodup
    rw [pairwise_map]
    exact (nodup_range (n := n)).imp (fun hne e => hne (by simpa using e))
  | keys ks =>
    simp only [Elems.parts, Option.some.injEq] at h; subst h
    have hs : (sortKeys ks).Nodup := (mergeSort_perm ks _).nodup_iff.mpr hn
    unfold Nodup at *
    rw [pairwise_map]
    exact hs.imp (fun hne e => hne (by simpa using e))

theorem allForks_nodup (inner : Inner) (hIN : ∀ j pre, (inner j pre).KeysNodup) :
    ∀ (rs : List Root) (j : Nat) (pre : List Part),
      (∀ r ∈ rs, ∀ e, r = Root.static e → e.KeysNodup) → (allForks inner j pre rs).Nodup := by
  intro rs
  induction rs with
  | nil => intro j pre _; simp [allForks]
  | cons r rs ih =>
    intro j pre hS
    simp only [allForks]
    apply nodup_flatMap_cons
    · cases r with
      | dyn =>
        simp only [choices]
        cases hp : (inner j pre).parts with
        | none => simp
        | some l => simpa using parts_nodup (hIN j pre) hp
      | static e =>
        simp only [choices]
        cases hp : e.parts with
        | none => simp
        | some l => simpa using parts_nodup (hS _ (by simp) e rfl) hp
    · intro p _
      exact ih (j + 1) (pre ++ [p]) (fun r' hr' => hS r' (mem_cons_of_mem _ hr'))

/-! ### closed forms of the order -/

/-- all roots statically known: the product, first root fastest -/
theorem forkOrder_static (roots : List Root) (inner : Inner)
    (h : ∀ r ∈ roots, ∃ e l, r = Root.static e ∧ e.parts = some l) :
    forkOrder roots inner = product (roots.map Root.initParts) := by
  unfold forkOrder
  apply bfs_determined
  intro f hf hu
  obtain ⟨l, hl, hpl⟩ := mem_product hf Part.undet hu
  obtain ⟨r, hr, rfl⟩ := mem_map.mp hl
  obtain ⟨e, l', rfl, hl'⟩ := h r hr
  simp only [Root.initParts, hl', Option.getD_some] at hpl
  exact (parts_determined hl').1 hpl

theorem product_two (a b : List Part) :
    product [a, b] = b.flatMap fun y => a.map fun x => [x, y] := by
  simp [product, flatMap_map]

/-- a map call nested in a map call, the inner key set / length depending on the outer element
(RAGGED): first every outer element with the FIRST inner element, in outer order; then, outer
element by outer element, the remaining inner elements in their order -/
theorem forkOrder_ragged (e₀ : Elems) (outer : List Part) (inner : Inner)
    (fst : Part → Part) (more : Part → List Part) (h₀ : e₀.parts = some outer)
    (h₁ : ∀ o ∈ outer, (inner 1 [o]).parts = some (fst o :: more o)) :
    forkOrder [Root.static e₀, Root.dyn] inner
      = outer.map (fun o => [o, fst o]) ++ outer.flatMap (fun o => (more o).map fun y => [o, y]) := by
  obtain ⟨hou, hoe⟩ := parts_determined h₀
  have hsat : ∀ o ∈ outer, sat inner 0 [] [o, Part.undet]
      = ([o, fst o], (more o).map fun y => [o, y]) := by
    intro o ho
    have h1 : (o != Part.undet) = true := by
      simp only [bne_iff_ne, ne_eq]; intro e; exact hou (e ▸ ho)
    have h2 : Part.empty ∉ [o] := by
      simp only [mem_singleton]; intro e; exact hoe (e ▸ ho)
    have hd := parts_determined (h₁ o ho)
    have h3 : (fst o != Part.undet) = true := by
      simp only [bne_iff_ne, ne_eq]; intro e; exact hd.1 (by simp [← e])
    simp [sat, h1, h2, h₁ o ho, h3]
  have hprod : product ([Root.static e₀, Root.dyn].map Root.initParts)
      = outer.map fun o => [o, Part.undet] := by
    simp [Root.initParts, h₀, product]
  unfold forkOrder
  rw [hprod]
  simp only [length_cons, length_nil, bfs]
  have hm : (outer.map fun o => [o, Part.undet]).map (satFork inner) = outer.map fun o => [o, fst o] := by
    rw [map_map]
    apply map_congr_left
    intro o ho
    simp [satFork, hsat o ho]
  have hk : (outer.map fun o => [o, Part.undet]).flatMap (kids inner)
      = outer.flatMap fun o => (more o).map fun y => [o, y] := by
    rw [flatMap_map]
    apply flatMap_congr'
    intro o ho
    simp [kids, hsat o ho]
  rw [hm, hk]
  congr 1
  have hdet : ∀ f ∈ outer.flatMap (fun o => (more o).map fun y => [o, y]), Part.undet ∉ f := by
    intro f hf
    obtain ⟨o, ho, hf⟩ := mem_flatMap.mp hf
    obtain ⟨y, hy, rfl⟩ := mem_map.mp hf
    have hd := parts_determined (h₁ o ho)
    simp only [mem_cons, not_or, not_mem_nil, or_false]
    refine ⟨fun e => hou (e ▸ ho), fun e => hd.1 (mem_cons_of_mem _ (e ▸ hy))⟩
  have := bfs_determined inner 1 _ hdet
  simpa [bfs] using this

end Martian.ForkOrder
