/-
C01 — building blocks for carrying the refinement modulo `≈` (`J.approx`) instead of modulo
`J.erase`, which is what the EMPTY / NULL run-time source shape needs (den: `dnull` and optional
instances; the code and the model: the empty collection of the call's mode).  Not yet assembled
into a refinement theorem (Props/C01.lean is unchanged): what is here is

* `cong_elemAt`, `approx_mkArgs`: element selection and the argument record of a call respect `≈`;
* `eval_resolveRefs_approx`: THE EXPRESSION STEP MODULO `≈` by composition — if den's environment
  is `≈` an environment `env'` (same types) that the static environment refines exactly (`EnvRel`),
  then den's value of every well-typed binding expression, narrowed, is `≈` the run-time
  evaluation of the statically resolved expression;
* `merge_empty_renders_dnull`: the model's value of a `merge` over an empty recorded index set is
  the empty collection of its mode, which renders den's `dnull`;
* `instsT_subR_empty`: over an empty recorded index set the model lists the instances below the
  call once, at "no element", marked optional — the shape of den's optional instances.

MISSING for the theorem: the induction of `refine_callsR` with `EnvRel` replaced by
"`EnvApprox env env'` for some `env'` with `EnvRel env'`" (the witness `env'` after an empty map
call is den's environment with that call's `dnull` replaced by the model's empty collection), the
agreement of `indicesOf` / `isTrue` on `≈` values of the shapes that occur (`dnull` against the
EMPTY collection or null only — for arbitrary null-like renderings `indicesOf` does not agree), and
the comparison of the optional instances' arguments (the model's `split` at "no element" is `dnull`,
not null).
-/
import Proofs.ResolverStaticRun

namespace Proofs.ResolverStatic
open Martian.Dataflow Martian.Resolver Martian.ResolverForks Martian.ResolverStatic Proofs.Dataflow
  Proofs.Approx

theorem nullish_getD : ∀ (xs : List J) (n : Nat), J.nullishList xs = true → (xs.getD n .null).nullish = true
  | [], _, _ => by simp [J.nullish]
  | x :: xs, 0, h => by simp only [J.nullishList, Bool.and_eq_true] at h; simpa using h.1
  | x :: xs, n+1, h => by
    simp only [J.nullishList, Bool.and_eq_true] at h
    simpa using nullish_getD xs n h.2

theorem approx_getD : ∀ (xs ys : List J) (n : Nat), J.approxList xs ys = true →
    J.approx (xs.getD n .null) (ys.getD n .null) = true
  | [], ys, _, h => by cases ys <;> simp [J.approxList, J.approx] at h ⊢
  | x :: xs, ys, n, h => by
    cases ys with
    | nil => simp [J.approxList] at h
    | cons y ys =>
      simp only [J.approxList, Bool.and_eq_true] at h
      cases n with
      | zero => simpa using h.1
      | succ n => simpa using approx_getD xs ys n h.2

/-- element selection (array index, map key, "no element") respects `≈` -/
theorem cong_elemAt (ix : Idx) : Cong (fun v => elemAt v ix) := by
  cases ix with
  | k s => exact cong_field s
  | none => exact ⟨rfl, fun _ _ _ => by simp [elemAt, J.approx, J.nullish]⟩
  | i n =>
    refine ⟨rfl, ?_⟩
    intro a b h
    cases a with
    | dnull =>
      rw [approx_dnull] at h
      show J.approx (elemAt .dnull (.i n)) _ = true
      simp only [elemAt]
      rw [approx_dnull]
      cases b with
      | arr ys => exact nullish_getD ys n (by simpa [J.nullish] using h)
      | null => simp [J.nullish]
      | dnull => simp [J.nullish]
      | atom s => simp [J.nullish] at h
      | obj kvs => simp [J.nullish]
    | null => cases b <;> simp [J.approx] at h ⊢; simp [elemAt, J.approx]
    | atom s => cases b <;> simp [J.approx] at h ⊢; simp [elemAt, J.approx]
    | obj kvs => cases b <;> simp [J.approx] at h ⊢; simp [elemAt, J.approx]
    | arr xs =>
      cases b <;> simp [J.approx] at h
      simp only [elemAt]
      exact approx_getD xs _ n h

theorem approxFields_map2 {α : Type} (ps : List α) (g g' : α → String × J)
    (h : ∀ p ∈ ps, (g p).1 = (g' p).1 ∧ J.approx (g p).2 (g' p).2 = true) :
    J.approxFields (ps.map g) (ps.map g') = true := by
  induction ps with
  | nil => simp [J.approxFields]
  | cons p ps ih =>
    have hp := h p (by simp)
    simp only [List.map_cons]
    cases hg : g p with
    | mk k v =>
      cases hg' : g' p with
      | mk k' v' =>
        rw [hg, hg'] at hp
        simp only [J.approxFields, Bool.and_eq_true, beq_iff_eq]
        exact ⟨⟨hp.1, hp.2⟩, ih fun q hq => h q (by simp [hq])⟩

/-- the argument record of a call (plain: `ix = none`; fork `ix` of a map call) respects `≈` of the
environments -/
theorem approx_mkArgs (st : StructTable) (F : Nat) (env env' : Env) (h : EnvApprox env env')
    (ins : List Param) (c : Call) (ix : Option Idx) :
    J.approx (mkArgs st F (argVals st env ins c) ix) (mkArgs st F (argVals st env' ins c) ix) = true := by
  simp only [mkArgs, argVals, List.map_map, J.approx]
  apply approxFields_map2
  intro p _
  simp only [Function.comp_apply]
  cases hfb : c.binds.find? (fun b => b.param == p.name) with
  | none =>
    refine ⟨rfl, ?_⟩
    apply (cong_narrow st F p.ty).2
    cases ix <;> simp [J.approx]
  | some b =>
    refine ⟨rfl, ?_⟩
    apply (cong_narrow st F p.ty).2
    have hv := approx_eval st env env' h b.exp
    simp only
    cases b.split with
    | false => cases ix <;> exact hv
    | true =>
      cases ix with
      | none => exact hv
      | some i => exact (cong_elemAt i).2 _ _ hv

/-- THE EXPRESSION STEP MODULO `≈`, by composition: den's environment `env` is `≈` an environment
`env'` which the static environment refines exactly -/
theorem eval_resolveRefs_approx (st : StructTable) (hst : StructsOk st) (F : Nat) (hF : NarrowFix st F)
    (ρ : Store) (Fs : ForkAssign → Prop) (env env' : Env) (self sib : RBMap)
    (hA : EnvApprox env env') (hrel : EnvRel st F ρ Fs env' self sib) (f : ForkAssign) (hf : Fs f)
    (e : Exp) (t : Ty) (hty : HasTy st env.selfTy env.callTy t e) :
    J.approx (narrow st F t (eval st env e)) (evalRT st F ρ f t (resolveRefs self sib e)) = true ∧
    HasTyR st t (resolveRefs self sib e) := by
  have hs : env'.selfTy = env.selfTy := by funext p; simp [Env.selfTy, hA.selfTys]
  have hc : env'.callTy = env.callTy := by funext c; exact hA.callTy c
  have hty' : HasTy st env'.selfTy env'.callTy t e := by rw [hs, hc]; exact hty
  have hE := eval_resolveRefs st hst F hF ρ Fs env' self sib hrel f hf e t hty'
  refine ⟨?_, hE.2⟩
  rw [← hE.1]
  exact (cong_narrow st F t).2 _ _ (approx_eval st env env' hA e)

/-- the model's value of a merge over an EMPTY recorded index set is the empty collection of its
mode: one of the renderings of den's `dnull` -/
theorem merge_empty_renders_dnull (st : StructTable) (F : Nat) (ρ : Store) (f : ForkAssign) (t : Ty)
    (c : String) (m : Bool) (e : RExp) (h : ρ.idx c f = []) :
    evalRT st F ρ f t (.merge c m e) = (if m then .obj [] else .arr []) ∧
    J.approx .dnull (evalRT st F ρ f t (.merge c m e)) = true := by
  cases m <;> simp [evalRT, h, J.approx, J.nullish, J.nullishList, J.nullishFields]

/-- over an empty recorded index set the model lists the instances below the call once, at "no
element", marked optional (den: the callee denoted once with `Idx.none`, every instance optional) -/
theorem instsT_subR_empty (st : StructTable) (F : Nat) (ρ : Store) (forks : List (String × Idx))
    (f : ForkAssign) (c : String) (m : Bool) (path : List String) (cins : RBMap) (ok : Bool)
    (ch : List STree) (h : ρ.idx c f = []) :
    instsT st F ρ forks f (.subR c m path cins ok ch)
      = (instsTList st F ρ (forks ++ [(c, .none)]) (fset f c .none) ch).map fun i => { i with optional := true } := by
  simp [instsT, h]

end Proofs.ResolverStatic
