import Martian.FormatFileText
import Proofs.FormatStageRange32
import Proofs.FormatStageRangeText
import Proofs.FormatPipeRangeText
import Proofs.FormatFileLex

/-!
C09, accepted texts of whole files: the RANGE of the file reader.

On tokens in the range of the tokenizer (`tokOK`), whatever `pIncludes`, `pFiletypeDecl`,
`pStructDecl`, `pDeclsR rd`, `pFileR rd` return is in the raw range of its part (`declRaw`,
`fileRaw`), whatever the reader `rd` of `mem_gb` / `vmem_gb`; `pFileR readGBTok` is `pFile`.
Hence `parseFile_range`, `parseFile32_range`: NO exception hypothesis.

Core Lean only.
-/

namespace Martian.FormatFile
open Martian.Lexer (Bytes unquoteBytes)
open Martian.FormatExp Martian.FormatDecl Martian.FormatCall2
open Martian.FormatStage (Stage pStage pStageR pStageBodyR pStageBody stageRaw pStageR_range)
open Martian.FormatPipe (Pipeline pPipeline)
open Martian.FormatCallText (wfCall2Raw wfPipelineRaw pPipeline_range' pCall2_range')
open Martian.FormatRes (readGBTok readGB32Tok)

/-! ## with the exact reader `pFileR` is `pFile` -/

theorem pStageR_exact (ts : List Tok) : pStageR readGBTok ts = pStage ts := by
  have h1 : ∀ f name ts, pStageBodyR readGBTok f name ts = pStageBody f name ts := by
    intro f name ts
    unfold pStageBodyR pStageBody
    simp only [Martian.FormatRes.pTailR_exact]
    rfl
  unfold pStageR pStage
  simp only [h1]
  rfl

theorem pDeclsR_exact : ∀ (f : Nat) (ts : List Tok), pDeclsR readGBTok f ts = pDecls f ts
  | 0, _ => rfl
  | f + 1, ts => by
    unfold pDeclsR pDecls
    simp only [pStageR_exact, pDeclsR_exact f]
    rfl

theorem pFileR_exact (ts : List Tok) : pFileR readGBTok ts = pFile ts := by
  unfold pFileR pFile
  simp only [pDeclsR_exact]
  rfl

/-- the model reader of section WholeFile is the parameterised reader with the exact reading of
`mem_gb` / `vmem_gb` -/
theorem parseFile_eq (src : Bytes) : parseFile src = parseFileR readGBTok src := by
  unfold parseFile parseFileR
  congr 1
  funext ts
  exact (pFileR_exact ts).symm

/-! ## range of the pieces -/

theorem pIncludes_range : ∀ (f : Nat) (ts : List Tok) (incs : List Bytes) (r : List Tok), AllOK ts →
    pIncludes f ts = some (incs, r) → AllOK r
  | 0, _, _, _, _, h => by simp [pIncludes] at h
  | f + 1, ts, incs, r, hts, h => by
    cases ts with
    | nil =>
      simp only [pIncludes, Option.some.injEq, Prod.mk.injEq] at h
      obtain ⟨_, rfl⟩ := h; exact hts
    | cons t ts' =>
      cases t with
      | reserved k =>
        simp only [pIncludes] at h
        split at h
        · split at h
          · rename_i s r'
            cases hu : unquoteBytes s with
            | none => simp [hu] at h
            | some p =>
              cases hi : pIncludes f r' with
              | none => simp [hu, hi] at h
              | some q =>
                obtain ⟨ps, r''⟩ := q
                simp only [hu, hi, Option.some.injEq, Prod.mk.injEq] at h
                obtain ⟨_, rfl⟩ := h
                exact pIncludes_range f r' ps r'' (allOK_tail (allOK_tail hts)) hi
          · cases h
        · simp only [Option.some.injEq, Prod.mk.injEq] at h
          obtain ⟨_, rfl⟩ := h
          exact hts
      | _ =>
        simp only [pIncludes, Option.some.injEq, Prod.mk.injEq] at h
        obtain ⟨_, rfl⟩ := h; exact hts
theorem pFiletypeDecl_range (ts : List Tok) (t : Filetype) (rest : List Tok) (hts : AllOK ts)
    (h : pFiletypeDecl ts = some (t, rest)) : wfFiletype t = true ∧ AllOK rest := by
  unfold pFiletypeDecl at h
  split at h
  · rename_i k x r
    split at h
    · split at h
      · rename_i xs c r' hd
        split at h
        · simp only [Option.some.injEq, Prod.mk.injEq] at h
          obtain ⟨rfl, rfl⟩ := h
          have ⟨_, h2⟩ := allOK_cons hts
          have ⟨hx, hr⟩ := allOK_cons h2
          have ih := pDots_range _ r xs _ hr hd
          have hx' : isIdent x = true := by simpa [tokOK] using hx
          exact ⟨by simp [wfFiletype, hx', ih.1], allOK_tail ih.2⟩
        · cases h
      · cases h
    · cases h
  · cases h

theorem pStructDecl_range (ts : List Tok) (s : Struct) (rest : List Tok) (hts : AllOK ts)
    (h : pStructDecl ts = some (s, rest)) : structRaw s = true ∧ AllOK rest := by
  unfold pStructDecl at h
  split at h
  · rename_i k x c r
    split at h
    · split at h
      · rename_i ms d r' hp
        split at h
        · simp only [Option.some.injEq, Prod.mk.injEq] at h
          obtain ⟨rfl, rfl⟩ := h
          have ⟨_, h2⟩ := allOK_cons hts
          have ⟨hx, h3⟩ := allOK_cons h2
          have ih := pMembers_range _ r ms _ (allOK_tail h3) hp
          have hx' : isIdent x = true := by simpa [tokOK] using hx
          have hne : ms.isEmpty = false := by
            cases ms with
            | nil => exact absurd rfl ih.2.1
            | cons _ _ => rfl
          exact ⟨by simp only [structRaw, hx', hne, ih.1, Bool.not_false, Bool.and_self],
            allOK_tail ih.2.2⟩
        · cases h
      · cases h
    · cases h
  · cases h

/-! ## the declaration list -/

theorem pDeclsR_range (rd : Tok → Option Int) : ∀ (f : Nat) (ts : List Tok) (ds : List Decl)
    (rest : List Tok), AllOK ts → pDeclsR rd f ts = some (ds, rest) →
    ds.all declRaw = true ∧ AllOK rest
  | 0, _, _, _, _, h => by simp [pDeclsR] at h
  | f + 1, ts, ds, rest, hts, h => by
    unfold pDeclsR at h
    split at h
    · split at h
      · rename_i t r hp
        have ⟨h1, hr⟩ := pFiletypeDecl_range ts t r hts hp
        cases hq : pDeclsR rd f r with
        | none => simp [hq] at h
        | some q =>
          obtain ⟨ds', r'⟩ := q
          simp only [hq, Option.map_some, Option.some.injEq, Prod.mk.injEq] at h
          obtain ⟨rfl, rfl⟩ := h
          have ih := pDeclsR_range rd f r ds' r' hr hq
          exact ⟨by simp only [List.all_cons, declRaw, h1, ih.1, Bool.and_self], ih.2⟩
      · cases h
    · split at h
      · rename_i s r hp
        have ⟨h1, hr⟩ := pStructDecl_range ts s r hts hp
        cases hq : pDeclsR rd f r with
        | none => simp [hq] at h
        | some q =>
          obtain ⟨ds', r'⟩ := q
          simp only [hq, Option.map_some, Option.some.injEq, Prod.mk.injEq] at h
          obtain ⟨rfl, rfl⟩ := h
          have ih := pDeclsR_range rd f r ds' r' hr hq
          exact ⟨by simp only [List.all_cons, declRaw, h1, ih.1, Bool.and_self], ih.2⟩
      · cases h
    · split at h
      · rename_i s r hp
        have ⟨h1, hr⟩ := pStageR_range rd ts s r hts hp
        cases hq : pDeclsR rd f r with
        | none => simp [hq] at h
        | some q =>
          obtain ⟨ds', r'⟩ := q
          simp only [hq, Option.map_some, Option.some.injEq, Prod.mk.injEq] at h
          obtain ⟨rfl, rfl⟩ := h
          have ih := pDeclsR_range rd f r ds' r' hr hq
          exact ⟨by simp only [List.all_cons, declRaw, h1, ih.1, Bool.and_self], ih.2⟩
      · cases h
    · split at h
      · rename_i p r hp
        have ⟨h1, hr⟩ := pPipeline_range' ts p r hts hp
        cases hq : pDeclsR rd f r with
        | none => simp [hq] at h
        | some q =>
          obtain ⟨ds', r'⟩ := q
          simp only [hq, Option.map_some, Option.some.injEq, Prod.mk.injEq] at h
          obtain ⟨rfl, rfl⟩ := h
          have ih := pDeclsR_range rd f r ds' r' hr hq
          exact ⟨by simp only [List.all_cons, declRaw, h1, ih.1, Bool.and_self], ih.2⟩
      · cases h
    · simp only [Option.some.injEq, Prod.mk.injEq] at h
      obtain ⟨rfl, rfl⟩ := h
      exact ⟨rfl, hts⟩

/-! ## `distribute` keeps the range -/

theorem all_raw_of : ∀ ds : List Decl, ds.all declRaw = true →
    (filetypesOf ds).all wfFiletype = true ∧ (structsOf ds).all structRaw = true ∧
      (callablesOf ds).all callableRaw = true
  | [], _ => ⟨rfl, rfl, rfl⟩
  | d :: ds, h => by
    simp only [List.all_cons, Bool.and_eq_true] at h
    obtain ⟨i1, i2, i3⟩ := all_raw_of ds h.2
    have h1 := h.1
    cases d with
    | filetype t =>
      exact ⟨by simp only [filetypesOf, List.all_cons, i1, Bool.and_true]; exact h1, i2, i3⟩
    | struct s =>
      exact ⟨i1, by simp only [structsOf, List.all_cons, i2, Bool.and_true]; exact h1, i3⟩
    | stage s =>
      exact ⟨i1, i2, by simp only [callablesOf, List.all_cons, i3, Bool.and_true]; exact h1⟩
    | pipeline p =>
      exact ⟨i1, i2, by simp only [callablesOf, List.all_cons, i3, Bool.and_true]; exact h1⟩

theorem fileRaw_distribute (incs : List Bytes) (ds : List Decl) (call : Option Call2)
    (hd : ds.all declRaw = true) (hc : callOptRaw call = true)
    (hne : ds ≠ [] ∨ call.isSome = true) : fileRaw (distribute incs ds call) = true := by
  obtain ⟨h1, h2, h3⟩ := all_raw_of ds hd
  simp only [fileRaw, distribute, Bool.and_eq_true]
  refine ⟨⟨⟨⟨h1, h2⟩, h3⟩, hc⟩, ?_⟩
  cases ds with
  | nil =>
    rcases hne with h | h
    · exact absurd rfl h
    · simp [h]
  | cons d ds => cases d <;> simp [filetypesOf, structsOf, callablesOf]

/-! ## the file -/

/-- **Range of the file reader** (no exception hypothesis), whatever the reader of `mem_gb` -/
theorem pFileR_range (rd : Tok → Option Int) (ts : List Tok) (f : File) (hts : AllOK ts)
    (h : pFileR rd ts = some f) : fileRaw f = true := by
  unfold pFileR at h
  split at h
  · rename_i incs r0 hi
    have hr0 := pIncludes_range _ ts incs r0 hts hi
    split at h
    · rename_i ds hd
      have ⟨h1, _⟩ := pDeclsR_range rd _ r0 ds [] hr0 hd
      split at h
      · cases h
      · rename_i hne
        simp only [Option.some.injEq] at h
        subst h
        refine fileRaw_distribute incs ds none h1 rfl (Or.inl ?_)
        intro e; subst e; exact hne rfl
    · rename_i ds r1 _ hd
      have ⟨h1, hr1⟩ := pDeclsR_range rd _ r0 ds r1 hr0 hd
      split at h
      · rename_i c hc
        simp only [Option.some.injEq] at h
        subst h
        exact fileRaw_distribute incs ds (some c) h1 (pCall2_range' r1 c [] hr1 hc).1 (Or.inr rfl)
      · cases h
    · cases h
  · cases h

theorem parseFileR_range (rd : Tok → Option Int) (src : Bytes) (f : File)
    (h : parseFileR rd src = some f) : fileRaw f = true := by
  unfold parseFileR at h
  cases hl : lexAll src with
  | none => simp [hl] at h
  | some ts =>
    simp only [hl, Option.bind_some] at h
    exact pFileR_range rd ts f (List.all_eq_true.mpr (range_lexAll src ts hl)) h

/-- **Range of the file reader**: whatever `parseFile` returns for ANY source text is in `fileRaw` -/
theorem parseFile_range (src : Bytes) (f : File) (h : parseFile src = some f) : fileRaw f = true := by
  rw [parseFile_eq] at h
  exact parseFileR_range readGBTok src f h

/-- … and so is whatever the reader with the real reading of `mem_gb` / `vmem_gb` returns -/
theorem parseFile32_range (src : Bytes) (f : File) (h : parseFile32 src = some f) : fileRaw f = true :=
  parseFileR_range readGB32Tok src f h

end Martian.FormatFile
