import Martian.Vdr

/-! Lemmas about the pure path logic of the VDR model. -/
namespace Martian.Vdr

theorem prefix_concat_cases {a b : Path} {x : Char} (h : a <+: b ++ [x]) : a = b ++ [x] ∨ a <+: b := by
  by_cases hl : a.length ≤ b.length
  · right
    exact List.prefix_of_prefix_length_le h (List.prefix_append b [x]) hl
  · left
    apply List.IsPrefix.eq_of_length h
    have := h.length_le
    simp at this ⊢
    omega

theorem overlapDir_iff (n f : Path) (hn : NoTrailingSlash n) (hf : NoTrailingSlash f) :
    overlapDir n f = true ↔ ((f ++ ['/']) <+: n ∨ (n ++ ['/']) <+: f) := by
  unfold overlapDir
  constructor
  · intro h
    split at h
    · left; exact List.isPrefixOf_iff_prefix.mp h
    · split at h
      · right; exact List.isPrefixOf_iff_prefix.mp h
      · simp at h
  · rintro (h | h)
    · obtain ⟨t, ht⟩ := h
      have htne : t ≠ [] := by
        intro ht0
        subst ht0
        exact hn f (by simpa using ht.symm)
      have hlen : n.length > f.length + 1 := by
        have : n.length = (f ++ ['/'] ++ t).length := by rw [ht]
        simp at this
        have : t.length > 0 := List.length_pos_iff.mpr htne
        omega
      simp [hlen]
      exact ⟨t, ht⟩
    · obtain ⟨t, ht⟩ := h
      have htne : t ≠ [] := by
        intro ht0
        subst ht0
        exact hf n (by simpa using ht.symm)
      have hlen : f.length > n.length + 1 := by
        have : f.length = (n ++ ['/'] ++ t).length := by rw [ht]
        simp at this
        have : t.length > 0 := List.length_pos_iff.mpr htne
        omega
      have h1 : ¬ (n.length > f.length + 1) := by omega
      have h2 : n.length + 1 < f.length := by omega
      simp [h1, h2]
      exact ⟨t, ht⟩

theorem anyOverlap_iff' (ns fs : List Path)
    (hn : ∀ n ∈ ns, NoTrailingSlash n) (hf : ∀ f ∈ fs, NoTrailingSlash f) :
    anyOverlap ns fs = true ↔ ∃ n ∈ ns, ∃ f ∈ fs, Related n f := by
  unfold anyOverlap
  by_cases he : (fs.isEmpty || ns.isEmpty) = true
  · simp only [he, if_true]
    constructor
    · intro h; simp at h
    · rintro ⟨n, hnm, f, hfm, _⟩
      simp at he
      rcases he with he | he
      · subst he; simp at hfm
      · subst he; simp at hnm
  · simp only [he]
    by_cases hx : (ns.any fun n => fs.contains n) = true
    · simp only [hx, if_true]
      simp only [List.any_eq_true, List.contains_iff_mem] at hx
      obtain ⟨n, hnm, hnf⟩ := hx
      simp
      exact ⟨n, hnm, n, hnf, Or.inl rfl⟩
    · simp only [hx]
      simp only [Bool.false_eq_true, if_false]
      simp only [List.any_eq_true]
      constructor
      · rintro ⟨n, hnm, f, hfm, ho⟩
        refine ⟨n, hnm, f, hfm, ?_⟩
        rcases (overlapDir_iff n f (hn n hnm) (hf f hfm)).mp ho with h | h
        · exact Or.inr (Or.inl h)
        · exact Or.inr (Or.inr h)
      · rintro ⟨n, hnm, f, hfm, hr⟩
        rcases hr with h | h | h
        · exfalso
          apply hx
          simp only [List.any_eq_true, List.contains_iff_mem]
          exact ⟨n, hnm, h ▸ hfm⟩
        · exact ⟨n, hnm, f, hfm, (overlapDir_iff n f (hn n hnm) (hf f hfm)).mpr (Or.inl h)⟩
        · exact ⟨n, hnm, f, hfm, (overlapDir_iff n f (hn n hnm) (hf f hfm)).mpr (Or.inr h)⟩

theorem pathIsInside_iff (d k : Path) : pathIsInside d k = true ↔ (d = k ∨ (k ++ ['/']) <+: d) := by
  unfold pathIsInside
  simp only [Bool.or_eq_true, Bool.and_eq_true, beq_iff_eq, decide_eq_true_eq]
  constructor
  · rintro (h | ⟨_, h⟩)
    · exact Or.inl h
    · exact Or.inr (List.isPrefixOf_iff_prefix.mp h)
  · rintro (h | h)
    · exact Or.inl h
    · right
      refine ⟨?_, List.isPrefixOf_iff_prefix.mpr h⟩
      have := h.length_le
      simp at this
      omega

/-- whoever references something inside `k` references `k` -/
theorem related_mono {d k f : Path} (hin : pathIsInside d k = true) (hr : Related d f) : Related k f := by
  rcases (pathIsInside_iff d k).mp hin with h | h
  · exact h ▸ hr
  · rcases hr with hr | hr | hr
    · subst hr
      exact Or.inr (Or.inr h)
    · -- both k/ and f/ are prefixes of d
      by_cases hl : (k ++ ['/']).length ≤ (f ++ ['/']).length
      · have hp := List.prefix_of_prefix_length_le h hr hl
        rcases prefix_concat_cases hp with e | e
        · left
          exact List.append_cancel_right e
        · exact Or.inr (Or.inr e)
      · have hp := List.prefix_of_prefix_length_le hr h (by omega)
        rcases prefix_concat_cases hp with e | e
        · left
          exact (List.append_cancel_right e).symm
        · exact Or.inr (Or.inl e)
    · right; right
      exact (h.trans (List.prefix_append d ['/'])).trans hr

theorem anyOverlap_eq (ns fs : List Path) :
    anyOverlap ns fs = (!(fs.isEmpty || ns.isEmpty) &&
      (ns.any (fun n => fs.contains n) || ns.any (fun n => fs.any (fun f => overlapDir n f)))) := by
  unfold anyOverlap
  cases h1 : (fs.isEmpty || ns.isEmpty)
  · cases h2 : (ns.any fun n => fs.contains n)
    · simp
    · simp
  · simp

/-- more logical names of the walked entry can only add references -/
theorem anyOverlap_cons_mono (p : Path) (alts fs : List Path) (h : anyOverlap [p] fs = true) :
    anyOverlap (p :: alts) fs = true := by
  rw [anyOverlap_eq] at h ⊢
  cases hf : fs.isEmpty with
  | true => simp [hf] at h
  | false =>
    simp only [hf, List.isEmpty_cons, Bool.or_false, Bool.not_false, Bool.true_and, List.any_cons,
      List.any_nil, Bool.or_eq_true] at h ⊢
    rcases h with h | h
    · exact Or.inl (Or.inl h)
    · exact Or.inr (Or.inl h)

/-! ### names spelled with a trailing separator

`getLogicalFileNames` keeps the RAW spelling of an output next to the cleaned
one.  A raw spelling with a trailing separator (`…/outdir/`) is inert next to
its cleaned form: whatever walked path matches it matches the cleaned form. -/

/-- no doubled separator inside the path (what a walk of a directory yields) -/
def NoDbl (p : Path) : Prop := ¬ ['/', '/'] <:+: p

/-- the shape of the names an argument refers to: clean at the end, or a clean
member of the list with one separator appended -/
def FilesWF (fs : List Path) : Prop :=
  ∀ f ∈ fs, NoTrailingSlash f ∨ ∃ g ∈ fs, NoTrailingSlash g ∧ ∃ k, 0 < k ∧ f = g ++ List.replicate k '/'

theorem anyOverlap_single (n : Path) (fs : List Path) :
    anyOverlap [n] fs = true ↔ ∃ f ∈ fs, n = f ∨ overlapDir n f = true := by
  unfold anyOverlap
  cases fs with
  | nil => simp
  | cons x r =>
    simp only [List.isEmpty_cons, Bool.or_self, Bool.false_eq_true, if_false, List.any_cons, List.any_nil,
      Bool.or_false]
    constructor
    · intro h
      split at h
      · rename_i hc
        have : n ∈ x :: r := by simpa using hc
        exact ⟨n, this, Or.inl rfl⟩
      · rw [Bool.or_eq_true] at h
        rcases h with h | h
        · exact ⟨x, List.mem_cons_self, Or.inr h⟩
        · rw [List.any_eq_true] at h
          obtain ⟨f, hf, hm⟩ := h
          exact ⟨f, List.mem_cons_of_mem _ hf, Or.inr hm⟩
    · rintro ⟨f, hf, h | h⟩
      · subst h
        have hc : (x :: r).contains n = true := by simpa using hf
        rw [if_pos hc]
      · split
        · rfl
        · rcases List.mem_cons.mp hf with rfl | hf
          · simp [h]
          · rw [Bool.or_eq_true]
            right
            rw [List.any_eq_true]
            exact ⟨f, hf, h⟩

theorem replicate_succ_slash (j : Nat) : List.replicate (j + 1) '/' = List.replicate j '/' ++ ['/'] := by
  rw [List.replicate_succ']

/-- a walked path that matches a name with trailing separators matches the name without them -/
theorem match_trailing {n g : Path} {k : Nat} (hn : NoTrailingSlash n) (hd : NoDbl n) (hg : NoTrailingSlash g)
    (hk : 0 < k) (h : n = g ++ List.replicate k '/' ∨ overlapDir n (g ++ List.replicate k '/') = true) :
    Related n g := by
  obtain ⟨j, rfl⟩ : ∃ j, k = j + 1 := ⟨k - 1, by omega⟩
  rcases h with h | h
  · exfalso
    rw [replicate_succ_slash, ← List.append_assoc] at h
    exact hn _ h
  · unfold overlapDir at h
    split at h
    · exfalso
      obtain ⟨t, ht⟩ := List.isPrefixOf_iff_prefix.mp h
      apply hd
      refine ⟨g ++ List.replicate j '/', t, ?_⟩
      rw [← ht, replicate_succ_slash]
      simp
    · split at h
      · obtain ⟨t, ht⟩ := List.isPrefixOf_iff_prefix.mp h
        have hp1 : (n ++ ['/']) <+: (g ++ List.replicate (j + 1) '/') := ⟨t, ht⟩
        have hp2 : g <+: (g ++ List.replicate (j + 1) '/') := ⟨_, rfl⟩
        rcases List.prefix_or_prefix_of_prefix hp1 hp2 with h1 | h1
        · exact Or.inr (Or.inr h1)
        · obtain ⟨u, hu⟩ := h1
          by_cases hu0 : u = []
          · subst hu0
            exfalso
            exact hg n (by simpa using hu)
          · have e : g ++ u.dropLast ++ [u.getLast hu0] = n ++ ['/'] := by
              rw [← hu, List.append_assoc, List.dropLast_concat_getLast hu0]
            have hn' := (List.append_inj' e rfl).1
            -- n = g ++ u.dropLast, and u.dropLast consists of separators only
            by_cases hu1 : u.dropLast = []
            · left; rw [← hn', hu1]; simp
            · exfalso
              have hpre : (u.dropLast ++ ['/']) <+: List.replicate (j + 1) '/' := by
                have : (g ++ (u.dropLast ++ ['/'])) <+: (g ++ List.replicate (j + 1) '/') := by
                  rw [← List.append_assoc, hn']; exact hp1
                exact (List.prefix_append_right_inj g).mp this
              have hlast : u.dropLast.getLast hu1 = '/' := by
                have hm : u.dropLast.getLast hu1 ∈ List.replicate (j + 1) '/' := by
                  apply hpre.subset
                  exact List.mem_append_left _ (List.getLast_mem hu1)
                exact (List.mem_replicate.mp hm).2
              apply hn (g ++ u.dropLast.dropLast)
              rw [← hn', List.append_assoc, ← hlast, List.dropLast_concat_getLast hu1]
      · simp at h

theorem refsWF_iff {n : Path} {fs : List Path} (hn : NoTrailingSlash n) (hd : NoDbl n) (wf : FilesWF fs) :
    anyOverlap [n] fs = true ↔ ∃ f ∈ fs, NoTrailingSlash f ∧ Related n f := by
  rw [anyOverlap_single]
  constructor
  · rintro ⟨f, hf, hm⟩
    rcases wf f hf with hc | ⟨g, hg, hgc, k, hk, rfl⟩
    · refine ⟨f, hf, hc, ?_⟩
      rcases hm with rfl | hm
      · exact Or.inl rfl
      · exact Or.inr ((overlapDir_iff n f hn hc).mp hm)
    · exact ⟨g, hg, hgc, match_trailing hn hd hgc hk hm⟩
  · rintro ⟨f, hf, hc, hr⟩
    refine ⟨f, hf, ?_⟩
    rcases hr with h | h
    · exact Or.inl h
    · exact Or.inr ((overlapDir_iff n f hn hc).mpr h)

end Martian.Vdr
