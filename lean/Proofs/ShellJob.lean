import Martian.JobTemplate
import Proofs.ShellLine
import Proofs.ShellScript
import Proofs.ShellShapes

/-! From the inputs of `jobScript` to the hypotheses of the shape lemmas (C18). -/
namespace Martian.JobTemplate
open Martian.ShellQuote

/-! ### numbers -/

theorem digitByte_isDigit (n : Nat) : isDigit (digitByte n) = true := by
  unfold digitByte
  have h : n % 10 < 10 := Nat.mod_lt _ (by decide)
  generalize n % 10 = k at h
  match k, h with
  | 0, _ | 1, _ | 2, _ | 3, _ | 4, _ | 5, _ | 6, _ | 7, _ | 8, _ | 9, _ => decide
  | k + 10, h => omega

theorem natDigitsAux_digits : ∀ (f n : Nat) (acc : Bytes), (∀ b ∈ acc, isDigit b = true) →
    ∀ b ∈ natDigitsAux f n acc, isDigit b = true
  | 0, _, acc, h => by simpa [natDigitsAux] using h
  | f + 1, n, acc, h => by
    have hacc : ∀ b ∈ digitByte n :: acc, isDigit b = true := by
      intro b hb
      rcases List.mem_cons.mp hb with rfl | hb
      · exact digitByte_isDigit n
      · exact h b hb
    unfold natDigitsAux
    split
    · exact hacc
    · exact natDigitsAux_digits f (n / 10) _ hacc

theorem natDigits_digits (n : Nat) : ∀ b ∈ natDigits n, isDigit b = true :=
  natDigitsAux_digits _ _ [] (by simp)

theorem isDigit_facts {b : UInt8} (h : isDigit b = true) : b ≠ 0x0A ∧ b ≠ 0 ∧ b < 0x80 := by
  simp only [isDigit, Bool.and_eq_true, decide_eq_true_eq] at h
  have h1 := UInt8.le_iff_toNat_le.mp h.1
  have h2 := UInt8.le_iff_toNat_le.mp h.2
  simp at h1 h2
  refine ⟨?_, ?_, ?_⟩
  · intro e; subst e; simp at h1
  · intro e; subst e; simp at h1
  · apply UInt8.lt_iff_toNat_lt.mpr; simp; omega

theorem natDigits_no_nl (n : Nat) : (0x0A : UInt8) ∉ natDigits n :=
  fun h => (isDigit_facts (natDigits_digits n _ h)).1 rfl

theorem validUtf8_ascii (s : Bytes) (h : ∀ b ∈ s, b < 0x80) : validUtf8 s = true := by
  unfold validUtf8
  induction s with
  | nil => rfl
  | cons b r ih =>
    have hb := h b (by simp)
    have hw : runeWidth (b :: r) = some 1 := by simp [runeWidth, hb]
    simp only [validFrom, hw]
    exact ih (fun x hx => h x (by simp [hx]))

theorem natDigits_ok (n : Nat) : validUtf8 (natDigits n) = true ∧ (0 : UInt8) ∉ natDigits n :=
  ⟨validUtf8_ascii _ (fun b hb => (isDigit_facts (natDigits_digits n b hb)).2.2),
   fun h => (isDigit_facts (natDigits_digits n _ h)).2.1 rfl⟩

/-! ### the quoter never produces a newline of its own -/

theorem quoteFrom_mem {tbl : EscTable} (ht : TableOK tbl = true) :
    ∀ (s : Bytes) (k : Nat), validFrom s k = true → (0 : UInt8) ∉ s →
      ∀ x ∈ quoteFrom tbl s k, x ∈ s ∨ x = 0x5C := by
  intro s
  induction s with
  | nil => intro k _ _ x hx; cases k <;> simp [quoteFrom] at hx
  | cons b r ih =>
    intro k hv h0 x hx
    have h0r : (0 : UInt8) ∉ r := fun h => h0 (List.mem_cons_of_mem _ h)
    have hb0 : b ≠ 0 := fun e => h0 (by simp [e])
    cases k with
    | succ k =>
      simp only [quoteFrom, List.mem_cons] at hx
      simp only [validFrom] at hv
      rcases hx with rfl | hx
      · simp
      · rcases ih k hv h0r x hx with h | h
        · exact Or.inl (List.mem_cons_of_mem _ h)
        · exact Or.inr h
    | zero =>
      by_cases hb : b < 0x80
      · have hw : runeWidth (b :: r) = some 1 := by simp [runeWidth, hb]
        simp only [validFrom, hw] at hv
        simp only [quoteFrom, hb, if_true, List.mem_append] at hx
        rcases hx with hx | hx
        · have hsh := tableOK_ascii ht b hb hb0
          unfold escShapeOK at hsh
          simp only [Bool.or_eq_true, Bool.and_eq_true, Bool.not_eq_true', beq_iff_eq] at hsh
          rcases hsh with ⟨he, _⟩ | ⟨he, _⟩ <;> rw [he] at hx <;> simp at hx
          · exact Or.inl (by simp [hx])
          · rcases hx with rfl | rfl
            · exact Or.inr rfl
            · exact Or.inl (by simp)
        · rcases ih 0 hv h0r x hx with h | h
          · exact Or.inl (List.mem_cons_of_mem _ h)
          · exact Or.inr h
      · simp only [validFrom] at hv
        cases hw : runeWidth (b :: r) with
        | none => simp [hw] at hv
        | some w =>
          simp only [hw] at hv
          simp only [quoteFrom, hb, if_false, hw, List.mem_cons] at hx
          rcases hx with rfl | hx
          · simp
          · rcases ih (w - 1) hv h0r x hx with h | h
            · exact Or.inl (List.mem_cons_of_mem _ h)
            · exact Or.inr h

theorem quote_no_nl {tbl : EscTable} (ht : TableOK tbl = true) (s : Bytes)
    (hv : validUtf8 s = true) (h0 : (0 : UInt8) ∉ s) (hn : (0x0A : UInt8) ∉ s) :
    (0x0A : UInt8) ∉ quote tbl s := by
  intro h
  simp only [quote, quoteBody, List.mem_cons, List.mem_append, List.mem_singleton] at h
  rcases h with h | h | h
  · exact absurd h (by decide)
  · rcases quoteFrom_mem ht s 0 hv h0 _ h with h | h
    · exact hn h
    · exact absurd h (by decide)
  · exact absurd h (by decide)

/-! ### sorting and merging the environment -/

theorem mem_insertSorted (tbl : EscTable) (kv x : Bytes × Bytes) (l : List (Bytes × Bytes)) :
    x ∈ insertSorted tbl kv l → x = kv ∨ x ∈ l := by
  induction l with
  | nil => simp [insertSorted]
  | cons y ys ih =>
    unfold insertSorted
    split
    · simp
    · intro h
      rcases List.mem_cons.mp h with rfl | h
      · simp
      · rcases ih h with h | h
        · exact Or.inl h
        · exact Or.inr (List.mem_cons_of_mem _ h)

theorem mem_sortEnvs (tbl : EscTable) (x : Bytes × Bytes) (l : List (Bytes × Bytes)) :
    x ∈ sortEnvs tbl l → x ∈ l := by
  unfold sortEnvs
  induction l with
  | nil => simp
  | cons y ys ih =>
    simp only [List.foldr_cons]
    intro h
    rcases mem_insertSorted tbl y x _ h with rfl | h
    · simp
    · exact List.mem_cons_of_mem _ (ih h)

theorem mem_mergeEnvs (names : List Bytes) (thr : Bytes) (envs : List (Bytes × Bytes))
    (x : Bytes × Bytes) (h : x ∈ mergeEnvs names thr envs) :
    (x.1 ∈ names ∧ x.2 = thr) ∨ x ∈ envs := by
  unfold mergeEnvs at h
  rcases List.mem_append.mp h with h | h
  · left
    simp only [List.mem_map, List.mem_filter] at h
    obtain ⟨n, ⟨hn, _⟩, rfl⟩ := h
    exact ⟨List.mem_eraseDups.mp hn, rfl⟩
  · exact Or.inr h

/-! ### the resources option -/

theorem replaceFirst_hash (new r : Bytes) :
    replaceFirst resKey new (0x23 :: r) = 0x23 :: replaceFirst resKey new r := by
  simp [replaceFirst, resKey]

theorem replaceFirst_mem (old new : Bytes) : ∀ (s : Bytes) (x : UInt8),
    x ∈ replaceFirst old new s → x ∈ new ∨ x ∈ s
  | [], x, h => by simp [replaceFirst] at h
  | b :: r, x, h => by
    unfold replaceFirst at h
    split at h
    · rcases List.mem_append.mp h with h | h
      · exact Or.inl h
      · exact Or.inr (List.mem_of_mem_drop h)
    · rcases List.mem_cons.mp h with rfl | h
      · simp
      · rcases replaceFirst_mem old new r x h with h | h
        · exact Or.inl h
        · exact Or.inr (List.mem_cons_of_mem _ h)

/-! ### the domain of the job-script theorems -/

/-- the documented domain: names are names, every string is NUL-free valid UTF-8; the mapped
resources option is absent or a one-line comment -/
structure JobOK (j : JobIn) : Prop where
  threadEnvs : ∀ n ∈ j.threadEnvs, isName n = true
  envs : ∀ kv ∈ j.envs, isName kv.1 = true ∧ validUtf8 kv.2 = true ∧ (0 : UInt8) ∉ kv.2
  cmd : validUtf8 j.cmd = true ∧ (0 : UInt8) ∉ j.cmd
  argv : ∀ a ∈ j.argv, validUtf8 a = true ∧ (0 : UInt8) ∉ a
  stdout : validUtf8 j.stdout = true ∧ (0 : UInt8) ∉ j.stdout
  stderr : validUtf8 j.stderr = true ∧ (0 : UInt8) ∉ j.stderr
  workdir : validUtf8 j.workdir = true ∧ (0 : UInt8) ∉ j.workdir
  res : mappedResources j = [] ∨ ∃ r, mappedResources j = 0x23 :: r ∧ (0x0A : UInt8) ∉ r

/-- no newline in the values that templates put on `#` (scheduler directive) lines -/
structure NoNl (j : JobIn) : Prop where
  fqname : (0x0A : UInt8) ∉ j.fqname
  shellName : (0x0A : UInt8) ∉ j.shellName
  stdout : (0x0A : UInt8) ∉ j.stdout
  stderr : (0x0A : UInt8) ∉ j.stderr
  workdir : (0x0A : UInt8) ∉ j.workdir
  account : (0x0A : UInt8) ∉ j.account

theorem valsOK_of_job {tbl : EscTable} (j : JobIn) (hj : JobOK j) :
    ValsOK tbl (valsOf (params tbl j)) (givenOf tbl j) where
  cmd := rfl
  stdout := rfl
  stderr := rfl
  workdir := rfl
  envsOK := by
    intro kv hkv
    rcases mem_mergeEnvs _ _ _ kv (mem_sortEnvs tbl kv _ hkv) with ⟨hn, ht⟩ | h
    · refine ⟨hj.threadEnvs _ hn, ?_, ?_⟩ <;> rw [ht]
      · exact (natDigits_ok _).1
      · exact (natDigits_ok _).2
    · exact hj.envs kv h
  cmdOK := hj.cmd
  argvOK := hj.argv
  stdoutOK := hj.stdout
  stderrOK := hj.stderr
  workdirOK := hj.workdir
  resOK := hj.res

theorem vals_no_nl {tbl : EscTable} (ht : TableOK tbl = true) (j : JobIn) (hj : JobOK j)
    (hn : NoNl j) (name : String) (hmem : paramSpec.any (fun p => p.1 == name) = true)
    (hc : name ≠ "CMD") : (0x0A : UInt8) ∉ valsOf (params tbl j) name := by
  have hq1 := quote_no_nl ht j.stdout hj.stdout.1 hj.stdout.2 hn.stdout
  have hq2 := quote_no_nl ht j.stderr hj.stderr.1 hj.stderr.2 hn.stderr
  have hq3 := quote_no_nl ht j.workdir hj.workdir.1 hj.workdir.2 hn.workdir
  have hjn : (0x0A : UInt8) ∉ j.fqname ++ [0x2E] ++ j.shellName := by
    simp only [List.mem_append, List.mem_singleton, not_or]
    exact ⟨⟨hn.fqname, by decide⟩, hn.shellName⟩
  have hres : (0x0A : UInt8) ∉ mappedResources j := by
    rcases hj.res with h | ⟨r, h, hr⟩
    · rw [h]; simp
    · rw [h]; intro hm
      rcases List.mem_cons.mp hm with h | h
      · exact absurd h (by decide)
      · exact hr h
  simp only [paramSpec, params, List.map_cons, List.map_nil, List.any_cons, List.any_nil,
    Bool.or_false, Bool.or_eq_true, beq_iff_eq] at hmem
  rcases hmem with h | h | h | h | h | h | h | h | h | h | h | h | h | h | h | h | h | h | h | h | h | h | h | h
  all_goals subst h
  all_goals first
    | exact absurd rfl hc
    | exact natDigits_no_nl _
    | exact hq1
    | exact hq2
    | exact hq3
    | exact hjn
    | exact hn.account
    | exact hres

/-- an `inert` line does not hold the command -/
theorem inert_no_cmd (l : SegLine) (h : shapeOf l = .inert) : ∀ s ∈ l, s.1 ≠ "CMD" := by
  unfold shapeOf at h
  split at h
  · simp
  · split at h
    · cases h
    · rename_i hc
      intro s hs e
      apply hc
      simp only [List.any_eq_true, beq_iff_eq]
      exact ⟨s, hs, e⟩
  · split at h
    · cases h
    · split at h
      · cases h
      · split at h
        · cases h
        · split at h <;> cases h

theorem script_tokens_of_lines {tbl : EscTable} (ht : TableOK tbl = true) {vals : String → Bytes}
    {g : Given} (hv : ValsOK tbl vals g) (ls : List SegLine)
    (hs : ∀ l ∈ ls, shapeOf l ≠ .other)
    (hnl : ∀ l ∈ ls, shapeOf l = .inert →
      ∀ s ∈ l, (0x0A : UInt8) ∉ (if segIsVar s then vals s.1 else s.2)) :
    shToks (renderScript vals ls) = some (expectedToks g ls) :=
  script_toks (renderLine vals) (fun l => lineToks g (shapeOf l)) ls
    (fun l hl => lineRes_of_shape ht hv l (hs l hl) (hnl l hl))

theorem lineOK_facts {l : SegLine} (h : lineOK l = true) :
    shapeOf l ≠ .other ∧ ∀ s ∈ l,
      (segIsVar s = true → paramSpec.any (fun p => p.1 == s.1) = true) ∧
      (segIsVar s = false → (0x0A : UInt8) ∉ s.2) := by
  unfold lineOK at h
  simp only [Bool.and_eq_true, bne_iff_ne, ne_eq, List.all_eq_true] at h
  refine ⟨h.1, ?_⟩
  intro s hs
  have := h.2 s hs
  constructor
  · intro hv; simpa [hv] using this
  · intro hv
    simp only [hv, Bool.false_eq_true, if_false, Bool.not_eq_true', List.contains_eq_mem,
      decide_eq_false_iff_not] at this
    exact this

/-- lines that pass `lineOK`, values of a job inside the domain -/
theorem job_tokens_of_lines {tbl : EscTable} (ht : TableOK tbl = true) (j : JobIn) (hj : JobOK j)
    (hn : NoNl j) (ls : List SegLine) (hok : ls.all lineOK = true) :
    shToks (renderScript (valsOf (params tbl j)) ls) = some (expectedToks (givenOf tbl j) ls) := by
  rw [List.all_eq_true] at hok
  apply script_tokens_of_lines ht (valsOK_of_job j hj) ls
  · intro l hl; exact (lineOK_facts (hok l hl)).1
  · intro l hl hin s hs
    have hf := (lineOK_facts (hok l hl)).2 s hs
    cases hv : segIsVar s with
    | true =>
      simp only [if_true]
      exact vals_no_nl ht j hj hn s.1 (hf.1 hv) (inert_no_cmd l hin s hs)
    | false =>
      simp only [Bool.false_eq_true, if_false]
      exact hf.2 hv

/-- comment lines that hold no variable at all: no newline hypothesis is needed -/
def noVarsInComments (ls : List SegLine) : Bool :=
  ls.all fun l => shapeOf l != .inert || l.all fun s => !segIsVar s

theorem job_tokens_no_comment_vars {tbl : EscTable} (ht : TableOK tbl = true) (j : JobIn)
    (hj : JobOK j) (ls : List SegLine) (hok : ls.all lineOK = true)
    (hnv : noVarsInComments ls = true) :
    shToks (renderScript (valsOf (params tbl j)) ls) = some (expectedToks (givenOf tbl j) ls) := by
  rw [List.all_eq_true] at hok
  unfold noVarsInComments at hnv
  rw [List.all_eq_true] at hnv
  apply script_tokens_of_lines ht (valsOK_of_job j hj) ls
  · intro l hl; exact (lineOK_facts (hok l hl)).1
  · intro l hl hin s hs
    have h1 := hnv l hl
    simp only [hin, bne_self_eq_false, Bool.false_or, List.all_eq_true, Bool.not_eq_true'] at h1
    have hv := h1 s hs
    simp only [hv, Bool.false_eq_true, if_false]
    exact ((lineOK_facts (hok l hl)).2 s hs).2 hv

end Martian.JobTemplate
