import Proofs.FormatCall2Norm

/-!
C09, part Call2: the token layer of the round trip of the statements of a
pipeline body: `toksCall2 c` / `toksReturn r` / `toksPRetain rs` / `toksBody b`,
and the readers applied to these token sequences FOLLOWED BY ANY FURTHER TOKENS
`rest` (for a call: not starting with `using`) return the normal form and `rest`.

Core Lean only.
-/

namespace Martian.FormatCall2
open Martian.Lexer (Bytes)
open Martian.FormatExp Martian.FormatCall

abbrev tStar : Tok := .punct 0x2A

/-- the value of a wildcard binding: `self`, or a reference -/
def toksWild (e : Exp) : List Tok := if isBareSelf e then [.kSelf] else toks e

def toksWildOpt : Option Exp → List Tok
  | some e => tStar :: tEq :: (toksWild e ++ [tComma])
  | none => []

def toksBinds2 (bs : List Bind) (w : Option Exp) : List Tok := toksBinds bs ++ toksWildOpt w

def toksMods : List (Bytes × Exp) → List Tok
  | [] => []
  | kv :: r => .id kv.1 :: tEq :: (toks kv.2 ++ tComma :: toksMods r)

def toksUsing (m : Mods) : List Tok :=
  if usingPrinted m then .id sUsing :: tLP :: (toksMods (modList m) ++ [tRP]) else []

def toksCall2 (c : Call2) : List Tok :=
  (if isMap2 c then [.reserved sMap] else []) ++ .reserved sCall :: .id c.decId ::
    ((if c.id = c.decId then [] else [.reserved sAs, .id c.id]) ++ tLP ::
      (toksBinds2 c.binds c.wildcard ++ tRP :: toksUsing c.mods))

def toksReturn (r : Ret) : List Tok :=
  .reserved sReturn :: tLP :: (toksBinds2 r.binds r.wildcard ++ [tRP])

def toksRefs : List Exp → List Tok
  | [] => []
  | e :: r => toks e ++ tComma :: toksRefs r

def toksPRetain (rs : List Exp) : List Tok := .id sRetain :: tLP :: (toksRefs rs ++ [tRP])

def toksCalls : List Call2 → List Tok
  | [] => []
  | c :: r => toksCall2 c ++ toksCalls r

def toksRetainOpt : Option (List Exp) → List Tok
  | some rs => toksPRetain rs
  | none => []

def toksBody (b : Body) : List Tok :=
  toksCalls b.calls ++ (toksReturn b.ret ++ (toksRetainOpt b.retain ++ [tRC]))

/-- what follows a call statement does not start with `using` -/
def NoUsing (rest : List Tok) : Prop := ∀ r, rest ≠ .id sUsing :: r

/-- what follows the calls of a pipeline: not `call`, `map` or `using` -/
def EndCalls (rest : List Tok) : Prop :=
  NoUsing rest ∧ ∀ k r, rest = .reserved k :: r → k ≠ sCall ∧ k ≠ sMap

theorem noUsing_nil : NoUsing [] := by intro r h; cases h
theorem noUsing_reserved (k : Bytes) (r : List Tok) : NoUsing (.reserved k :: r) := by
  intro r' h; cases h
theorem noUsing_punct (c : UInt8) (r : List Tok) : NoUsing (.punct c :: r) := by
  intro r' h; cases h

/-! ## the wildcard binding -/

theorem isBareSelf_eq {e : Exp} (h : isBareSelf e = true) : e = .ref true [] [] := by
  cases e with
  | ref s i o =>
    cases s <;> cases i <;> cases o <;> simp [isBareSelf] at h ⊢
  | _ => simp [isBareSelf] at h

theorem isRefE_eq {e : Exp} (h : isRefE e = true) : ∃ s i o, e = .ref s i o := by
  cases e with
  | ref s i o => exact ⟨s, i, o, rfl⟩
  | _ => simp [isRefE] at h

theorem norm_ref (s : Bool) (i : Bytes) (o : List Bytes) : norm (.ref s i o) = .ref s i o := by
  simp [norm]

theorem toksRef_ne_selfComma (s : Bool) (i : Bytes) (o : List Bytes) (rest r : List Tok) :
    toksRef s i o ++ tComma :: rest ≠ .kSelf :: .punct 0x2C :: r := by
  intro h
  unfold toksRef at h
  cases s with
  | true => simp at h
  | false =>
    by_cases hd : o = [sDefault]
    · simp [hd] at h
    · simp [hd] at h

/-- a well-formed reference followed by a comma reads back as itself -/
theorem pExp_ref_comma (fe : Nat) (s : Bool) (i : Bytes) (o : List Bytes) (rest : List Tok)
    (hw : wf (.ref s i o) = true) (hf : cost (.ref s i o) ≤ fe) :
    pExp fe (toks (.ref s i o) ++ tComma :: rest) = some (.ref s i o, tComma :: rest) := by
  have hp := pExp_toks (.ref s i o) fe (tComma :: rest) hw hf (noDot_comma rest)
  rw [norm_ref] at hp
  exact hp

theorem pWild_toks (fe : Nat) (e : Exp) (rest : List Tok) (hw : wfWild e = true) (hf : cost e ≤ fe) :
    pWild fe (toksWild e ++ tComma :: rest) = some (e, rest) := by
  cases hb : isBareSelf e with
  | true =>
    have he := isBareSelf_eq hb
    subst he
    simp [toksWild, isBareSelf, pWild]
  | false =>
    simp only [wfWild, hb, Bool.false_or, Bool.and_eq_true] at hw
    obtain ⟨s, i, o, rfl⟩ := isRefE_eq hw.1
    have hp := pExp_ref_comma fe s i o rest hw.2 hf
    simp only [toksWild, hb, Bool.false_eq_true, ↓reduceIte]
    rw [pWild]
    · simp only [hp]
    · intro r h
      exact toksRef_ne_selfComma s i o rest r (by simpa [toks] using h)

/-! ## the binding list -/

theorem pBinds2_nil (m : Bool) (fe f : Nat) (w : Option Exp) (rest : List Tok)
    (hww : wfWildOpt w = true) (hwc : ∀ e, w = some e → cost e ≤ fe) :
    pBinds2 m fe (f + 1) (toksBinds2 [] w ++ tRP :: rest) = some ([], w, tRP :: rest) := by
  cases w with
  | none => simp [toksBinds2, toksBinds, toksWildOpt, pBinds2]
  | some e =>
    have h := pWild_toks fe e (tRP :: rest) hww (hwc e rfl)
    have hshape : toksBinds2 [] (some e) ++ tRP :: rest =
        tStar :: tEq :: (toksWild e ++ tComma :: tRP :: rest) := by
      simp [toksBinds2, toksBinds, toksWildOpt]
    rw [hshape, pBinds2, h]

theorem pBinds2_toks (m : Bool) (fe : Nat) (w : Option Exp) (rest : List Tok)
    (hww : wfWildOpt w = true) (hwc : ∀ e, w = some e → cost e ≤ fe) :
    ∀ (bs : List Bind) (f : Nat), bs.all wfBind = true → (∀ b ∈ bs, b.split = true → m = true) →
    (∀ b ∈ bs, cost b.exp ≤ fe) → bs.length < f →
    pBinds2 m fe f (toksBinds2 bs w ++ tRP :: rest) = some (bs.map normBind, w, tRP :: rest)
  | [], f, _, _, _, hf => by
    obtain ⟨f, rfl⟩ : ∃ g, f = g + 1 := ⟨f - 1, by simp at hf; omega⟩
    exact pBinds2_nil m fe f w rest hww hwc
  | b :: bs, f, hw, hm, hc, hf => by
    obtain ⟨f, rfl⟩ : ∃ g, f = g + 1 := ⟨f - 1, by simp at hf; omega⟩
    simp only [List.all_cons, Bool.and_eq_true] at hw
    have h1 := pBind_toks m fe b (toksBinds2 bs w ++ tRP :: rest) hw.1
      (hm b (List.mem_cons_self ..)) (hc b (List.mem_cons_self ..))
    have ih := pBinds2_toks m fe w rest hww hwc bs f hw.2
      (fun b' hb' => hm b' (List.mem_cons_of_mem _ hb'))
      (fun b' hb' => hc b' (List.mem_cons_of_mem _ hb')) (by simp at hf; omega)
    have hshape : toksBinds2 (b :: bs) w ++ tRP :: rest =
        .id b.id :: tEq :: ((if b.split then [.id sSplit] else []) ++ toks b.exp ++
          tComma :: (toksBinds2 bs w ++ tRP :: rest)) := by
      simp [toksBinds2, toksBinds, toksBindPre]
    have hhead : toksBindPre b ++ toks b.exp ++ tComma :: (toksBinds2 bs w ++ tRP :: rest) =
        .id b.id :: tEq :: ((if b.split then [.id sSplit] else []) ++ toks b.exp ++
          tComma :: (toksBinds2 bs w ++ tRP :: rest)) := by
      simp [toksBindPre]
    rw [hhead] at h1
    rw [hshape, pBinds2]
    · simp only [h1, ih, Option.map_some, List.map_cons]
    · intro r h; cases h
    · intro r h; cases h

/-! ## the head of the statement -/

theorem pHead2_toks (f : Nat) (d i : Bytes) (rest : List Tok) :
    pHead2 (f + 1) false false false
      (.id d :: ((if i = d then [] else [.reserved sAs, .id i]) ++ tLP :: rest)) =
      some (false, false, false, d, i, rest) := by
  by_cases hid : i = d
  · simp [hid, pHead2]
  · simp [hid, pHead2]

/-! ## the `using` block -/

theorem isModKw_disabled : isModKw sDisabled = false := by decide

theorem pModStm_toks (fe : Nat) (kv : Bytes × Exp) (rest : List Tok) (hw : wfMod kv = true)
    (hf : cost kv.2 ≤ fe) :
    pModStm fe (.id kv.1 :: tEq :: (toks kv.2 ++ tComma :: rest)) = some (kv, rest) := by
  obtain ⟨k, e⟩ := kv
  simp only [wfMod, Bool.or_eq_true, Bool.and_eq_true, beq_iff_eq] at hw
  rcases hw with ⟨hk, hb⟩ | ⟨⟨hk, hr⟩, hwf⟩
  · cases e with
    | bool b => cases b <;> simp [pModStm, hk, toks]
    | _ => simp [isBoolE] at hb
  · subst hk
    obtain ⟨s, i, o, rfl⟩ := isRefE_eq hr
    have hp := pExp_ref_comma fe s i o rest hwf hf
    simp only [pModStm, isModKw_disabled, Bool.false_eq_true, ↓reduceIte, hp]

theorem pMods_toks (fe : Nat) (rest : List Tok) : ∀ (l : List (Bytes × Exp)) (f : Nat),
    l.all wfMod = true → (∀ kv ∈ l, cost kv.2 ≤ fe) → l.length < f →
    pMods fe f (toksMods l ++ tRP :: rest) = some (l, tRP :: rest)
  | [], f, _, _, hf => by
    obtain ⟨f, rfl⟩ : ∃ g, f = g + 1 := ⟨f - 1, by simp at hf; omega⟩
    simp [toksMods, pMods]
  | kv :: l, f, hw, hc, hf => by
    obtain ⟨f, rfl⟩ : ∃ g, f = g + 1 := ⟨f - 1, by simp at hf; omega⟩
    simp only [List.all_cons, Bool.and_eq_true] at hw
    have h1 := pModStm_toks fe kv (toksMods l ++ tRP :: rest) hw.1 (hc kv (List.mem_cons_self ..))
    have ih := pMods_toks fe rest l f hw.2 (fun kv' h' => hc kv' (List.mem_cons_of_mem _ h'))
      (by simp at hf; omega)
    have hshape : toksMods (kv :: l) ++ tRP :: rest =
        .id kv.1 :: tEq :: (toks kv.2 ++ tComma :: (toksMods l ++ tRP :: rest)) := by
      simp [toksMods]
    rw [hshape, pMods]
    · simp only [h1, ih, Option.map_some]
    · intro r h; cases h

theorem pUsing_none (fe f : Nat) (cur : List (Bytes × Exp)) (rest : List Tok) (h : NoUsing rest) :
    pUsing fe (f + 1) cur rest = some (cur, rest) := by
  cases rest with
  | nil => simp [pUsing]
  | cons t r =>
    cases t with
    | id u =>
      have hne : u ≠ sUsing := by
        intro e; subst e; exact h r rfl
      simp [pUsing, hne]
    | _ => simp [pUsing]

theorem pUsing_toks (fe f : Nat) (cur l : List (Bytes × Exp)) (rest : List Tok)
    (hw : l.all wfMod = true) (hc : ∀ kv ∈ l, cost kv.2 ≤ fe) (hf : l.length < f) (hr : NoUsing rest) :
    pUsing fe (f + 1) cur (.id sUsing :: tLP :: (toksMods l ++ tRP :: rest)) = some (l, rest) := by
  obtain ⟨g, rfl⟩ : ∃ g, f = g + 1 := ⟨f - 1, by omega⟩
  have h1 := pMods_toks fe rest l (g + 1) hw hc hf
  have h2 := pUsing_none fe g l rest hr
  simp only [pUsing, ↓reduceIte, h1, h2]

/-! ## lengths (fuel) -/

theorem toksMods_length_ge : ∀ l : List (Bytes × Exp), l.length ≤ (toksMods l).length
  | [] => by simp
  | kv :: l => by
    have := toksMods_length_ge l
    simp only [toksMods, List.length_cons, List.length_append]; omega

theorem toksMods_cost : ∀ l : List (Bytes × Exp), ∀ kv ∈ l, cost kv.2 ≤ 2 * (toksMods l).length
  | [], kv, h => by cases h
  | a :: l, kv, h => by
    simp only [toksMods, List.length_cons, List.length_append]
    rcases List.mem_cons.1 h with rfl | h
    · have := cost_le kv.2; omega
    · have := toksMods_cost l kv h; omega

theorem toksWild_cost (e : Exp) : cost e ≤ 2 * (toksWildOpt (some e)).length := by
  cases hb : isBareSelf e with
  | true =>
    have he := isBareSelf_eq hb
    subst he
    simp [toksWildOpt, toksWild, isBareSelf, cost]
  | false =>
    have := cost_le e
    simp only [toksWildOpt, toksWild, hb, Bool.false_eq_true, ↓reduceIte, List.length_cons,
      List.length_append]
    omega

theorem toksBinds_cost (bs : List Bind) : ∀ b ∈ bs, cost b.exp ≤ 2 * (toksBinds bs).length := by
  intro b hb
  have h1 := cost_le b.exp
  have h2 := toksBinds_length_le bs b hb
  omega

theorem toksUsing_length (m : Mods) : (toksMods (modList m)).length ≤ (toksUsing m).length := by
  unfold toksUsing
  split
  · simp only [List.length_cons, List.length_append, List.length_nil]; omega
  · rename_i h
    have := usingPrinted_eq m
    rw [Bool.not_eq_true] at h
    rw [h] at this
    have he : modList m = [] := by
      cases hm : modList m with
      | nil => rfl
      | cons a b => rw [hm] at this; simp at this
    rw [he]; simp [toksMods]

theorem toksCall2_length (c : Call2) :
    (toksBinds c.binds).length + (toksWildOpt c.wildcard).length + (toksUsing c.mods).length + 4 ≤
      (toksCall2 c).length := by
  simp only [toksCall2, toksBinds2, List.length_append, List.length_cons]
  omega

/-! ## the call statement -/

theorem any_split_norm2 (bs : List Bind) : (bs.map normBind).any (·.split) = bs.any (·.split) :=
  any_split_norm bs

/-- **Token layer, call statement.**  The reader accepts the token sequence of a well-formed call
followed by anything that does not start with `using`, returns the normal form and what follows. -/
theorem pCall2_toks (c : Call2) (rest : List Tok) (hw : wfCall2 c = true) (hr : NoUsing rest) :
    pCall2 (toksCall2 c ++ rest) = some (normCall2 c, rest) := by
  obtain ⟨d, i, bs, w, m⟩ := c
  simp only [wfCall2, Bool.and_eq_true] at hw
  obtain ⟨⟨⟨⟨_, _⟩, hbs⟩, hww⟩, hwm⟩ := hw
  have hlen := toksCall2_length ⟨d, i, bs, w, m⟩
  simp only at hlen
  generalize hL : (toksCall2 ⟨d, i, bs, w, m⟩ ++ rest).length = L
  have hL' : (toksCall2 ⟨d, i, bs, w, m⟩).length ≤ L := by
    rw [← hL, List.length_append]; omega
  -- the pieces
  have hmk : pMapKw (toksCall2 ⟨d, i, bs, w, m⟩ ++ rest) = (isMap2 ⟨d, i, bs, w, m⟩,
      .reserved sCall :: .id d :: ((if i = d then [] else [.reserved sAs, .id i]) ++ tLP ::
        (toksBinds2 bs w ++ tRP :: (toksUsing m ++ rest)))) := by
    cases hm : isMap2 ⟨d, i, bs, w, m⟩ with
    | true => simp [toksCall2, hm, pMapKw]
    | false => simp [toksCall2, hm, pMapKw, sMap_ne_sCall]
  have hh := pHead2_toks L d i (toksBinds2 bs w ++ tRP :: (toksUsing m ++ rest))
  have hb := pBinds2_toks (isMap2 ⟨d, i, bs, w, m⟩) (2 * L + 1) w (toksUsing m ++ rest) hww
    (fun e he => by
      subst he
      have := toksWild_cost e
      omega)
    bs (L + 1) hbs
    (fun b hb hs => by simp only [isMap2, List.any_eq_true]; exact ⟨b, hb, hs⟩)
    (fun b hb => by have := toksBinds_cost bs b hb; omega)
    (by have := toksBinds_length_ge bs; omega)
  have hml := modList_wf m hwm
  have hu : pUsing (2 * L + 1) (L + 1) [] (toksUsing m ++ rest) = some (modList m, rest) := by
    have hul := toksUsing_length m
    unfold toksUsing at hul ⊢
    split
    · have := pUsing_toks (2 * L + 1) L [] (modList m) rest hml.1
        (fun kv hkv => by
          have := toksMods_cost (modList m) kv hkv
          have h2 := toksUsing_length m
          omega)
        (by
          have := toksMods_length_ge (modList m)
          have h2 := toksUsing_length m
          omega) hr
      simpa using this
    · rename_i hp
      have := usingPrinted_eq m
      rw [Bool.not_eq_true] at hp
      rw [hp] at this
      have he : modList m = [] := by
        cases hm : modList m with
        | nil => rfl
        | cons a b => rw [hm] at this; simp at this
      rw [he, List.nil_append]
      exact pUsing_none _ _ _ _ hr
  unfold pCall2
  rw [hmk, hL]
  simp only [↓reduceIte, hh, hb, any_split_norm2, hu, normCall2, normMods]
  simp [isMap2]

/-! ## `return` and `retain` -/

theorem toksReturn_length (r : Ret) :
    (toksBinds r.binds).length + (toksWildOpt r.wildcard).length + 3 ≤ (toksReturn r).length := by
  simp only [toksReturn, toksBinds2, List.length_append, List.length_cons]
  omega

/-- **Token layer, `return`.** -/
theorem pReturn_toks (r : Ret) (rest : List Tok) (hw : wfRet r = true) :
    pReturn (toksReturn r ++ rest) = some (normRet r, rest) := by
  obtain ⟨bs, w⟩ := r
  simp only [wfRet, Bool.and_eq_true] at hw
  obtain ⟨⟨hbs, hns⟩, hww⟩ := hw
  have hlen := toksReturn_length ⟨bs, w⟩
  simp only at hlen
  generalize hL : (toksReturn ⟨bs, w⟩ ++ rest).length = L
  have hL' : (toksReturn ⟨bs, w⟩).length ≤ L := by
    rw [← hL, List.length_append]; omega
  have hb := pBinds2_toks false (2 * L + 1) w rest hww
    (fun e he => by
      subst he
      have := toksWild_cost e
      omega)
    bs (L + 1) hbs
    (fun b hb hs => by
      rw [List.all_eq_true] at hns
      have := hns b hb
      simp [hs] at this)
    (fun b hb => by have := toksBinds_cost bs b hb; omega)
    (by have := toksBinds_length_ge bs; omega)
  have hshape : toksReturn ⟨bs, w⟩ ++ rest =
      .reserved sReturn :: tLP :: (toksBinds2 bs w ++ tRP :: rest) := by
    simp [toksReturn]
  rw [hshape] at hL ⊢
  simp only [pReturn, ↓reduceIte, hL, hb, normRet]

theorem toksRefs_length_ge : ∀ rs : List Exp, rs.length ≤ (toksRefs rs).length
  | [] => by simp
  | e :: rs => by
    have := toksRefs_length_ge rs
    simp only [toksRefs, List.length_cons, List.length_append]; omega

theorem toksRefs_cost : ∀ rs : List Exp, ∀ e ∈ rs, cost e ≤ 2 * (toksRefs rs).length
  | [], e, h => by cases h
  | a :: rs, e, h => by
    simp only [toksRefs, List.length_cons, List.length_append]
    rcases List.mem_cons.1 h with rfl | h
    · have := cost_le e; omega
    · have := toksRefs_cost rs e h; omega

theorem pRefs_toks (fe : Nat) (rest : List Tok) : ∀ (rs : List Exp) (f : Nat),
    wfPRetain rs = true → (∀ e ∈ rs, cost e ≤ fe) → rs.length < f →
    pRefs fe f (toksRefs rs ++ tRP :: rest) = some (rs, tRP :: rest)
  | [], f, _, _, hf => by
    obtain ⟨f, rfl⟩ : ∃ g, f = g + 1 := ⟨f - 1, by simp at hf; omega⟩
    simp [toksRefs, pRefs]
  | e :: rs, f, hw, hc, hf => by
    obtain ⟨f, rfl⟩ : ∃ g, f = g + 1 := ⟨f - 1, by simp at hf; omega⟩
    simp only [wfPRetain, List.all_cons, Bool.and_eq_true] at hw
    obtain ⟨s, i, o, rfl⟩ := isRefE_eq hw.1.1
    have h1 := pExp_ref_comma fe s i o (toksRefs rs ++ tRP :: rest) hw.1.2 (hc _ (List.mem_cons_self ..))
    have ih := pRefs_toks fe rest rs f (by simpa [wfPRetain] using hw.2)
      (fun e' h' => hc e' (List.mem_cons_of_mem _ h')) (by simp at hf; omega)
    have hshape : toksRefs (.ref s i o :: rs) ++ tRP :: rest =
        toks (.ref s i o) ++ tComma :: (toksRefs rs ++ tRP :: rest) := by
      simp [toksRefs]
    rw [hshape, pRefs]
    · simp only [h1, ih, Option.map_some]
    · intro r h
      have : toksRef s i o ++ tComma :: (toksRefs rs ++ tRP :: rest) = tRP :: r := by
        simpa [toks] using h
      unfold toksRef at this
      cases s with
      | true => simp at this
      | false =>
        by_cases hd : o = [sDefault]
        · simp [hd] at this
        · simp [hd] at this

/-- **Token layer, `retain`.** -/
theorem pPRetain_toks (rs : List Exp) (rest : List Tok) (hw : wfPRetain rs = true) :
    pPRetain (toksPRetain rs ++ rest) = some (some rs, rest) := by
  generalize hL : (toksPRetain rs ++ rest).length = L
  have hL' : (toksRefs rs).length + 3 ≤ L := by
    rw [← hL]; simp only [toksPRetain, List.length_append, List.length_cons]; omega
  have h := pRefs_toks (2 * L + 1) rest rs (L + 1) hw
    (fun e he => by have := toksRefs_cost rs e he; omega)
    (by have := toksRefs_length_ge rs; omega)
  have hshape : toksPRetain rs ++ rest = .id sRetain :: tLP :: (toksRefs rs ++ tRP :: rest) := by
    simp [toksPRetain]
  rw [hshape] at hL ⊢
  simp only [pPRetain, ↓reduceIte, hL, h]

/-- no `retain`: what follows does not start with the word -/
theorem pPRetain_none (rest : List Tok) (h : ∀ r, rest ≠ .id sRetain :: r) :
    pPRetain rest = some (none, rest) := by
  cases rest with
  | nil => simp [pPRetain]
  | cons t r =>
    cases t with
    | id u =>
      have hne : u ≠ sRetain := by
        intro e; subst e; exact h r rfl
      simp [pPRetain, hne]
    | _ => simp [pPRetain]

/-! ## the statements of a pipeline -/

theorem toksCall2_head (c : Call2) :
    ∃ k r, toksCall2 c = .reserved k :: r ∧ (k = sCall ∨ k = sMap) := by
  unfold toksCall2
  cases isMap2 c with
  | true =>
    simp only [↓reduceIte, List.cons_append, List.nil_append]
    exact ⟨_, _, rfl, Or.inr rfl⟩
  | false =>
    simp only [Bool.false_eq_true, ↓reduceIte, List.nil_append]
    exact ⟨_, _, rfl, Or.inl rfl⟩

theorem toksCalls_length_ge : ∀ cs : List Call2, cs.length ≤ (toksCalls cs).length
  | [] => by simp
  | c :: cs => by
    have := toksCalls_length_ge cs
    have h2 := toksCall2_length c
    simp only [toksCalls, List.length_cons, List.length_append]; omega

theorem noUsing_toksCalls (cs : List Call2) (rest : List Tok) (hr : NoUsing rest) :
    NoUsing (toksCalls cs ++ rest) := by
  cases cs with
  | nil => simpa [toksCalls] using hr
  | cons c cs =>
    obtain ⟨k, r, hk, _⟩ := toksCall2_head c
    simp only [toksCalls, hk, List.cons_append]
    exact noUsing_reserved _ _

/-- **Token layer, the calls of a pipeline.** -/
theorem pCalls_toks (rest : List Tok) (hr : EndCalls rest) : ∀ (cs : List Call2) (f : Nat),
    cs.all wfCall2 = true → cs.length < f →
    pCalls f (toksCalls cs ++ rest) = some (cs.map normCall2, rest)
  | [], f, _, hf => by
    obtain ⟨f, rfl⟩ : ∃ g, f = g + 1 := ⟨f - 1, by simp at hf; omega⟩
    simp only [toksCalls, List.nil_append, List.map_nil]
    cases rest with
    | nil => simp [pCalls]
    | cons t r =>
      cases t with
      | reserved k =>
        have := hr.2 k r rfl
        simp [pCalls, this.1, this.2]
      | _ => simp [pCalls]
  | c :: cs, f, hw, hf => by
    obtain ⟨f, rfl⟩ : ∃ g, f = g + 1 := ⟨f - 1, by simp at hf; omega⟩
    simp only [List.all_cons, Bool.and_eq_true] at hw
    have h1 := pCall2_toks c (toksCalls cs ++ rest) hw.1 (noUsing_toksCalls cs rest hr.1)
    have ih := pCalls_toks rest hr cs f hw.2 (by simp at hf; omega)
    obtain ⟨k, r, hk, hk'⟩ := toksCall2_head c
    have hshape : toksCalls (c :: cs) ++ rest = toksCall2 c ++ (toksCalls cs ++ rest) := by
      simp [toksCalls]
    rw [hshape] at ⊢
    rw [hk, List.cons_append] at h1 ⊢
    have hkk : (k = sCall || k = sMap) = true := by
      rcases hk' with rfl | rfl <;> simp
    simp only [pCalls, hkk, ↓reduceIte, h1, ih, Option.map_some, List.map_cons]

theorem endCalls_return (r : List Tok) : EndCalls (.reserved sReturn :: r) := by
  refine ⟨noUsing_reserved _ _, ?_⟩
  intro k r' h
  injection h with h1 _
  injection h1 with h1
  subst h1
  exact ⟨by decide, by decide⟩

/-- **Token layer, pipeline body.**  `call_stm_list? return_stm pipeline_retain '}'` followed by any
further tokens. -/
theorem pBody_toks (b : Body) (rest : List Tok) (hw : wfBody b = true) :
    pBody (toksBody b ++ rest) = some (normBody b, rest) := by
  obtain ⟨cs, ret, rt⟩ := b
  simp only [wfBody, Bool.and_eq_true] at hw
  obtain ⟨⟨hcs, hret⟩, hrt⟩ := hw
  have hshape : toksBody ⟨cs, ret, rt⟩ ++ rest =
      toksCalls cs ++ (toksReturn ret ++ (toksRetainOpt rt ++ tRC :: rest)) := by
    simp [toksBody]
  have hret' : toksReturn ret ++ (toksRetainOpt rt ++ tRC :: rest) =
      .reserved sReturn :: tLP :: (toksBinds2 ret.binds ret.wildcard ++ [tRP] ++
        (toksRetainOpt rt ++ tRC :: rest)) := by
    simp [toksReturn]
  have h1 := pCalls_toks (toksReturn ret ++ (toksRetainOpt rt ++ tRC :: rest))
    (by rw [hret']; exact endCalls_return _) cs
    ((toksCalls cs ++ (toksReturn ret ++ (toksRetainOpt rt ++ tRC :: rest))).length + 1) hcs
    (by
      have := toksCalls_length_ge cs
      rw [List.length_append]; omega)
  have h2 := pReturn_toks ret (toksRetainOpt rt ++ tRC :: rest) hret
  have h3 : pPRetain (toksRetainOpt rt ++ tRC :: rest) = some (rt, tRC :: rest) := by
    cases rt with
    | none =>
      simp only [toksRetainOpt, List.nil_append]
      exact pPRetain_none _ (by intro r h; cases h)
    | some rs => exact pPRetain_toks rs (tRC :: rest) hrt
  unfold pBody
  rw [hshape, h1]
  simp only [h2, h3, normBody]

end Martian.FormatCall2
