import Martian.FormatExpText
import Proofs.FormatExpNum

/-!
C09, accepted texts: the PREFIX lemma for numeric tokens.

The numeric token `t` found at the head of a text `b` is a prefix of `b`; run on
`t` alone the matchers take the same branches:

    numTok false b = .float t → numTok false t = .float t      (`numTok_prefix_float`)
    numTok false b = .int t   → numTok false t = .int t        (`numTok_prefix_int`)

so the text of every NUM_FLOAT token the tokenizer returns satisfies `isFloatTok`.

Core Lean only.
-/

namespace Martian.FormatExp
open Martian.Lexer

/-- the text is empty or starts with a byte that is not a digit -/
def ndHead : Bytes → Bool
  | [] => true
  | c :: _ => !isDigit c

theorem spanDigits_cons_digit (x : UInt8) (r : Bytes) (hx : isDigit x = true) :
    spanDigits (x :: r) = (x :: (spanDigits r).1, (spanDigits r).2) := by
  simp only [spanDigits, hx, ↓reduceIte]

theorem spanDigits_cons_nd (x : UInt8) (r : Bytes) (hx : isDigit x = false) :
    spanDigits (x :: r) = ([], x :: r) := by
  simp only [spanDigits, hx, Bool.false_eq_true, ↓reduceIte]

theorem spanDigits_snd_nd : ∀ b : Bytes, ndHead (spanDigits b).2 = true
  | [] => rfl
  | x :: r => by
    by_cases hx : isDigit x = true
    · rw [spanDigits_cons_digit x r hx]; exact spanDigits_snd_nd r
    · have hx' : isDigit x = false := by simpa using hx
      rw [spanDigits_cons_nd x r hx']; simp [ndHead, hx']

theorem spanDigits_mk : ∀ (ds rest : Bytes), (∀ c ∈ ds, isDigit c = true) → ndHead rest = true →
    spanDigits (ds ++ rest) = (ds, rest)
  | [], [], _, _ => rfl
  | [], c :: r, _, h => by
    have hc : isDigit c = false := by simpa [ndHead] using h
    rw [List.nil_append, spanDigits_cons_nd c r hc]
  | x :: ds, rest, hd, h => by
    have hx : isDigit x = true := hd x (by simp)
    rw [List.cons_append, spanDigits_cons_digit x _ hx,
      spanDigits_mk ds rest (fun c hc => hd c (by simp [hc])) h]

theorem optMinus_fst (b : Bytes) : (optMinus b).1 = [] ∨ (optMinus b).1 = [0x2D] := by
  cases b with
  | nil => exact Or.inl rfl
  | cons c r =>
    unfold optMinus
    by_cases hm : (c == 0x2D) = true
    · simp [hm]; exact eq_of_beq hm
    · simp [hm]

theorem optMinus_mk (sg d u : Bytes) (hsg : sg = [] ∨ sg = [0x2D]) (hne : d ≠ [])
    (hd : ∀ c ∈ d, isDigit c = true) : optMinus (sg ++ d ++ u) = (sg, d ++ u) := by
  rcases hsg with rfl | rfl
  · cases d with
    | nil => exact absurd rfl hne
    | cons x d =>
      have hx := (isDigit_not_sign (hd x (by simp))).1
      simp only [List.nil_append, List.cons_append, optMinus, hx, Bool.false_eq_true, ↓reduceIte]
  · rfl

theorem optSign_digits (d : Bytes) (hd : ∀ c ∈ d, isDigit c = true) : optSign d = ([], d) := by
  cases d with
  | nil => rfl
  | cons x d =>
    have ⟨h1, h2⟩ := isDigit_not_sign (hd x (by simp))
    simp only [optSign, h1, h2, Bool.or_self, Bool.false_eq_true, ↓reduceIte]

/-! ## the parts of the float rule, run on their own match -/

def isE (c : UInt8) : Bool := c == 0x65 || c == 0x45

theorem isE_facts {c : UInt8} (h : isE c = true) : isDigit c = false ∧ c ≠ 0x2E := by
  simp only [isE, Bool.or_eq_true, beq_iff_eq] at h
  rcases h with rfl | rfl <;> decide

theorem expPart_cons (c : UInt8) (t : Bytes) : expPart (c :: t) =
    if (c == 0x65 || c == 0x45) = true then
      if ((spanDigits (optSign t).2).1 ≠ [] && boundary (spanDigits (optSign t).2).2) = true then
        some (c :: ((optSign t).1 ++ (spanDigits (optSign t).2).1))
      else none
    else none := rfl

theorem fracExp_dot (t : Bytes) : fracExp (0x2E :: t) =
    if (spanDigits t).1 ≠ [] then (expPart (spanDigits t).2).map fun e => 0x2E :: ((spanDigits t).1 ++ e)
    else none := rfl

theorem fracOnly_dot (t : Bytes) : fracOnly (0x2E :: t) =
    if ((spanDigits t).1 ≠ [] && boundary (spanDigits t).2) = true then some (0x2E :: (spanDigits t).1)
    else none := rfl

theorem expPart_nil : expPart [] = none := by
  unfold expPart; rfl

theorem expPart_self {a e : Bytes} (h : expPart a = some e) :
    expPart e = some e ∧ ∃ c r, e = c :: r ∧ isE c = true := by
  cases a with
  | nil => rw [expPart_nil] at h; cases h
  | cons c t =>
    rw [expPart_cons] at h
    split at h
    · rename_i hc
      split at h
      · rename_i hcond
        simp only [Bool.and_eq_true, decide_eq_true_eq] at hcond
        injection h with h
        subst h
        have hd3 := spanDigits_fst_all (optSign t).2
        refine ⟨?_, c, _, rfl, hc⟩
        -- the sign (if any) and the digits
        cases t with
        | nil => simp [optSign, spanDigits] at hcond
        | cons x t' =>
          by_cases hx : (x == 0x2B || x == 0x2D) = true
          · have hos : optSign (x :: t') = ([x], t') := by
              simp only [optSign, hx, ↓reduceIte]
            rw [hos] at hd3 hcond ⊢
            have hos2 : optSign (x :: (spanDigits t').1) = ([x], (spanDigits t').1) := by
              simp only [optSign, hx, ↓reduceIte]
            simp only [List.cons_append, List.nil_append]
            rw [expPart_cons, hos2, spanDigits_all _ hd3]
            simp [hc, hcond.1, boundary]
          · have hos : optSign (x :: t') = ([], x :: t') := by
              simp only [optSign, hx, Bool.false_eq_true, ↓reduceIte]
            rw [hos] at hd3 hcond ⊢
            simp only [List.nil_append]
            rw [expPart_cons, optSign_digits _ hd3, spanDigits_all _ hd3]
            simp [hc, hcond.1, boundary]
      · cases h
    · cases h

theorem fracExp_ne_dot {x : UInt8} (t : Bytes) (hx : x ≠ 0x2E) : fracExp (x :: t) = expPart (x :: t) := by
  unfold fracExp
  split
  · rename_i heq; injection heq with h1 _; exact absurd h1 hx
  · rfl

theorem fracOnly_ne_dot {x : UInt8} (t : Bytes) (hx : x ≠ 0x2E) : fracOnly (x :: t) = none := by
  unfold fracOnly
  split
  · rename_i heq; injection heq with h1 _; exact absurd h1 hx
  · rfl

theorem ndHead_of_isE {c : UInt8} (r : Bytes) (h : isE c = true) : ndHead (c :: r) = true := by
  simp [ndHead, (isE_facts h).1]

theorem fracExp_self {a u : Bytes} (h : fracExp a = some u) : fracExp u = some u ∧ ndHead u = true := by
  by_cases ha : ∃ t, a = 0x2E :: t
  · obtain ⟨t, rfl⟩ := ha
    rw [fracExp_dot] at h
    split at h
    · rename_i hd2
      cases he : expPart (spanDigits t).2 with
      | none => simp [he] at h
      | some e =>
        simp only [he, Option.map_some, Option.some.injEq] at h
        subst h
        obtain ⟨hself, c, r, hcr, hc⟩ := expPart_self he
        have hnd : ndHead e = true := by rw [hcr]; exact ndHead_of_isE r hc
        refine ⟨?_, by simp [ndHead, isDigit]⟩
        rw [fracExp_dot, spanDigits_mk _ e (spanDigits_fst_all t) hnd]
        rw [if_pos hd2, hself]; rfl
    · cases h
  · have hne : fracExp a = expPart a := by
      cases a with
      | nil => unfold fracExp; rfl
      | cons x t =>
        exact fracExp_ne_dot t (by intro e; exact ha ⟨t, by rw [e]⟩)
    rw [hne] at h
    obtain ⟨hself, c, r, hcr, hc⟩ := expPart_self h
    subst hcr
    exact ⟨by rw [fracExp_ne_dot r (isE_facts hc).2]; exact hself, ndHead_of_isE r hc⟩

theorem fracOnly_self {a u : Bytes} (h : fracOnly a = some u) :
    fracOnly u = some u ∧ fracExp u = none ∧ ndHead u = true := by
  by_cases ha : ∃ t, a = 0x2E :: t
  · obtain ⟨t, rfl⟩ := ha
    rw [fracOnly_dot] at h
    split at h
    · rename_i hcond
      simp only [Bool.and_eq_true, decide_eq_true_eq] at hcond
      injection h with h
      subst h
      have hd2 := spanDigits_fst_all t
      refine ⟨?_, ?_, by simp [ndHead, isDigit]⟩
      · rw [fracOnly_dot, spanDigits_all _ hd2]
        simp [hcond.1, boundary]
      · rw [fracExp_dot, spanDigits_all _ hd2, expPart_nil]
        simp
    · cases h
  · cases a with
    | nil => rw [fracOnly_nil] at h; cases h
    | cons x t =>
      rw [fracOnly_ne_dot t (by intro e; exact ha ⟨t, by rw [e]⟩)] at h; cases h

/-! ## the float rule and the int rule, run on their own match -/

theorem matchFloat_mk (sg d1 u : Bytes) (hsg : sg = [] ∨ sg = [0x2D]) (hne : d1 ≠ [])
    (hd : ∀ c ∈ d1, isDigit c = true) (hu : ndHead u = true) :
    matchFloat false (sg ++ d1 ++ u) =
      match fracExp u with
      | some t => some (sg ++ d1 ++ t)
      | none => (fracOnly u).map fun t => sg ++ d1 ++ t := by
  rw [matchFloat_false, optMinus_mk sg d1 u hsg hne hd, spanDigits_mk d1 u hd hu]
  simp only [hne, ↓reduceIte]
  rfl

theorem matchFloat_self {b t : Bytes} (h : matchFloat false b = some t) : matchFloat false t = some t := by
  rw [matchFloat_false] at h
  split at h
  · cases h
  · rename_i hne
    have hsg := optMinus_fst b
    have hd := spanDigits_fst_all (optMinus b).2
    split at h
    · rename_i u hu
      injection h with h
      subst h
      obtain ⟨h1, h2⟩ := fracExp_self hu
      rw [matchFloat_mk _ _ u hsg hne hd h2, h1]
    · rename_i hu
      cases ho : fracOnly (spanDigits (optMinus b).2).2 with
      | none => simp [ho] at h
      | some u =>
        simp only [ho, Option.map_some, Option.some.injEq] at h
        subst h
        obtain ⟨h1, h2, h3⟩ := fracOnly_self ho
        rw [matchFloat_mk _ _ u hsg hne hd h3, h2]
        simp only [h1, Option.map_some]

/-- an optional `-` and a non-empty digit run with at most 19 digits after its leading zeros is
one NUM_INT match and no NUM_FLOAT match -/
theorem digits_lex19 (sg ds : Bytes) (hsg : sg = [] ∨ sg = [0x2D]) (hne : ds ≠ [])
    (hd : ∀ c ∈ ds, isDigit c = true) (h19 : (ds.dropWhile (· == 0x30)).length ≤ 19) :
    matchFloat false (sg ++ ds) = none ∧ matchInt (sg ++ ds) = some (sg ++ ds) := by
  constructor
  · rw [matchFloat_false, optMinus_sign sg ds hsg hd, spanDigits_all ds hd]
    simp only [hne, ↓reduceIte, fracExp_nil, fracOnly_nil, Option.map_none]
  · simp only [matchInt, optMinus_sign sg ds hsg hd, spanDigits_all ds hd]
    simp [hne, h19, boundary]

theorem matchInt_self {b t : Bytes} (h : matchInt b = some t) :
    matchFloat false t = none ∧ matchInt t = some t := by
  obtain ⟨sg, ds, rfl, hsg, hne, hd, h19⟩ := matchInt_shape h
  exact digits_lex19 sg ds hsg hne hd h19

/-- **Prefix lemma (NUM_FLOAT).**  The text of the float token at the head of any input is, on
its own, one float token. -/
theorem numTok_prefix_float {b t : Bytes} (h : numTok false b = .float t) : numTok false t = .float t := by
  unfold numTok at h
  split at h
  · rename_i t' hm
    split at h
    · rename_i hp
      injection h with h
      subst h
      simp only [numTok, matchFloat_self hm, hp, ↓reduceIte]
    · cases h
  · split at h
    · split at h <;> cases h
    · cases h

/-- **Prefix lemma (NUM_INT).** -/
theorem numTok_prefix_int {b t : Bytes} (h : numTok false b = .int t) : numTok false t = .int t := by
  unfold numTok at h
  split at h
  · split at h <;> cases h
  · split at h
    · rename_i t' hm
      split at h
      · rename_i hp
        injection h with h
        subst h
        obtain ⟨h1, h2⟩ := matchInt_self hm
        simp only [numTok, h1, h2, hp, ↓reduceIte]
      · cases h
    · cases h

/-- the value of a NUM_INT token the range check accepted is an `int64` -/
theorem intTok_inInt64 {t : Bytes} {i : Int} (h : numTok false t = .int t) (hp : parseInt t = some i) :
    inInt64 i = true := by
  have hm : matchInt t = some t := by
    unfold numTok at h
    split at h
    · split at h <;> cases h
    · split at h
      · rename_i t' hm
        split at h
        · injection h with h; subst h; exact hm
        · cases h
      · cases h
  have := parseInt_exact hm
  rw [hp] at this
  split at this
  · rename_i hin
    injection this with this
    rw [this]; exact hin
  · cases this

end Martian.FormatExp
