/-
C13 `content_preserved_mapped`: content preservation (both halves) lifted to
top-level calls mapped over a typed map, for the repaired branch
(`postMapChecked`): induction over the forks with the invariant "the current
file system is `Clean` for the leaves still to be processed and agrees with the
original one on their sources".
-/
import Martian.PostProcess
import Martian.PostProcessDefs
import Proofs.PostProcess
import Proofs.PostProcessLeaves
import Proofs.PostProcessDests
import Proofs.PostProcessContent
import Proofs.PostProcessRecord
import Proofs.PostProcessMapped
import Proofs.PostProcessChecked

namespace Martian.PostProcess

/-! ## sub-lists of a `Clean` situation -/

theorem clean_append_left (ps top : Path) (fs : FS) (A B : List Leaf) (hc : Clean ps top fs (A ++ B)) :
    Clean ps top fs A :=
  ⟨(List.pairwise_append.mp hc.dests).1, fun l hl => hc.below l (by simp [hl]),
    fun l hl => hc.apart l (by simp [hl]), (List.pairwise_append.mp hc.nonnest).1,
    fun l hl => hc.status l (by simp [hl]), fun l hl => hc.free l (by simp [hl])⟩

theorem clean_run_drop (ps top : Path) (A B : List Leaf) (fs : FS) (hc : Clean ps top fs (A ++ B)) :
    Clean ps top (runLeaves ps A fs) B := by
  induction A generalizing fs with
  | nil => exact hc
  | cons l A ih =>
    rw [runLeaves_cons]
    exact ih _ (clean_tail ps top fs l (A ++ B) hc)

/-- running the leaves `A` leaves the source trees of the later leaves `B` alone -/
theorem agree_run (ps top : Path) (A B : List Leaf) (fs : FS) (hc : Clean ps top fs (A ++ B))
    (l : Leaf) (hl : l ∈ B) (p : Path) (hsrc : l.src = some p) (suf : Path) :
    (runLeaves ps A fs).get (p ++ suf) = fs.get (p ++ suf) := by
  induction A generalizing fs with
  | nil => rfl
  | cons h A ih =>
    rw [runLeaves_cons, ih _ (clean_tail ps top fs h (A ++ B) hc)]
    have hn := List.pairwise_cons.mp hc.nonnest
    have hhb : top <+: h.outs := hc.below h (by simp)
    have hap := hc.apart l (by simp [hl]) p hsrc
    apply step_frame ps top fs h (A ++ B) hc
    · intro ph hph hh
      have hnn := hn.1 l (by simp [hl]) ph p hph hsrc
      rcases List.prefix_or_prefix_of_prefix hh (List.prefix_append p suf) with h' | h'
      · exact hnn.1 h'
      · exact hnn.2 h'
    · intro hh
      rcases List.prefix_or_prefix_of_prefix ((dest_below hhb).trans hh) (List.prefix_append p suf) with h' | h'
      · exact hap.2 h'
      · exact hap.1 h'
    · intro hh
      exact (unrelated_below hap.1 hap.2 hhb).1 ((List.prefix_append p suf).trans hh)

/-! ## creating a fork directory -/

theorem src_not_under {p top d : Path} (h1 : ¬ p <+: top) (h2 : ¬ top <+: p) (hd : top <+: d) (suf : Path) :
    isPrefix (p ++ suf) d = false := by
  rw [isPrefix_false_iff]
  intro hh
  rcases List.prefix_or_prefix_of_prefix ((List.prefix_append p suf).trans hh) hd with h' | h'
  · exact h1 h'
  · exact h2 h'

theorem longer_not_prefix {q d : Path} (h : d.length < q.length) : isPrefix q d = false := by
  rw [isPrefix_false_iff]
  intro hh
  have := hh.length_le
  omega

theorem clean_mkdirAll_at (ps top d : Path) (fs : FS) (ls : List Leaf) (hc : Clean ps top fs ls)
    (hd : top <+: d) (hlen : ∀ l ∈ ls, d.length < l.dest.length) :
    Clean ps top (mkdirAll fs d) ls := by
  refine ⟨hc.dests, hc.below, hc.apart, hc.nonnest, ?_, ?_⟩
  · intro l hl p hp
    have hap := hc.apart l hl p hp
    have := src_not_under hap.1 hap.2 hd []
    rw [List.append_nil] at this
    rw [mkdirAll_get_other _ _ _ this]
    exact hc.status l hl p hp
  · intro l hl
    rw [mkdirAll_get_other _ _ _ (longer_not_prefix (hlen l hl))]
    exact hc.free l hl

/-! ## the leaves of the legal forks -/

/-- the `moveOutFile` calls of `postMapChecked` -/
abbrev LM (params : List (String × String × Ty)) (top : Path) (kvs : List (String × J)) : List Leaf :=
  leavesMap params top (legalForks kvs)

theorem LM_cons_legal (params : List (String × String × Ty)) (top : Path) (k : String) (x : J)
    (r : List (String × J)) (hk : legalName k = true) :
    LM params top ((k, x) :: r) = leavesRec params (fieldsOf x) (top ++ [k]) ++ LM params top r := by
  simp [LM, legalForks, List.filter_cons, hk, leavesMap, joinKey_legal top k hk]

theorem LM_cons_illegal (params : List (String × String × Ty)) (top : Path) (k : String) (x : J)
    (r : List (String × J)) (hk : ¬ legalName k = true) :
    LM params top ((k, x) :: r) = LM params top r := by
  simp [LM, legalForks, List.filter_cons, hk]

/-- the state in which one legal fork starts its leaves -/
def forkStart (params : List (String × String × Ty)) (top : Path) (k : String) (fs : FS) : FS :=
  if hasFileMs params then mkdirAll fs (top ++ [k]) else fs

theorem processStructOuts_fs (ps : Path) (params : List (String × String × Ty)) (x : J) (top : Path) (k : String)
    (fs : FS) :
    (processStructOuts true ps params x (top ++ [k]) fs).2 =
      runLeaves ps (leavesRec params (fieldsOf x) (top ++ [k])) (forkStart params top k fs) := by
  simp only [processStructOuts, forkStart]
  rw [handleOuts_run]
  cases x <;> rfl

theorem processStructOuts_rec (ps : Path) (params : List (String × String × Ty)) (x : J) (top : Path) (k : String)
    (fs : FS) :
    (processStructOuts true ps params x (top ++ [k]) fs).1 =
      .obj (handleOuts true ps params (fieldsOf x) (top ++ [k]) (forkStart params top k fs)).1 := by
  simp only [processStructOuts, forkStart]
  cases x <;> rfl

theorem forkStart_clean (ps top : Path) (params : List (String × String × Ty)) (k : String) (fs : FS)
    (ls : List Leaf) (hc : Clean ps top fs ls) (hlen : ∀ l ∈ ls, top.length + 2 ≤ l.dest.length) :
    Clean ps top (forkStart params top k fs) ls := by
  unfold forkStart
  split
  · exact clean_mkdirAll_at ps top _ fs ls hc (List.prefix_append _ _)
      (fun l hl => by have := hlen l hl; simp; omega)
  · exact hc

theorem forkStart_get (top : Path) (params : List (String × String × Ty)) (k : String) (fs : FS) (q : Path)
    (h : isPrefix q (top ++ [k]) = false) : (forkStart params top k fs).get q = fs.get q := by
  unfold forkStart
  split
  · exact mkdirAll_get_other _ _ _ h
  · rfl

/-! ## frame: a path unrelated to all remaining leaves and to every fork directory survives -/

theorem postMapChecked_frame (ps top : Path) (params : List (String × String × Ty)) (kvs : List (String × J))
    (fs : FS) (hc : Clean ps top fs (LM params top kvs))
    (hlen : ∀ l ∈ LM params top kvs, top.length + 2 ≤ l.dest.length) (q : Path)
    (hq : ∀ k, isPrefix q (top ++ [k]) = false)
    (h : ∀ l ∈ LM params top kvs, (∀ p, l.src = some p → ¬ p <+: q) ∧ ¬ l.dest <+: q ∧ ¬ q <+: l.outs) :
    (postMapChecked true ps params top kvs fs).2.get q = fs.get q := by
  induction kvs generalizing fs with
  | nil => rfl
  | cons kv r ih =>
    obtain ⟨k, x⟩ := kv
    by_cases hk : legalName k = true
    · rw [LM_cons_legal params top k x r hk] at hc hlen h
      simp only [postMapChecked, hk, if_true]
      have hc1 := forkStart_clean ps top params k fs _ hc hlen
      rw [ih _ (by rw [processStructOuts_fs]; exact clean_run_drop ps top _ _ _ hc1)
        (fun l hl => hlen l (by simp [hl])) (fun l hl => h l (by simp [hl])),
        processStructOuts_fs,
        run_frame ps top _ _ (clean_append_left ps top _ _ _ hc1) q (fun l hl => h l (by simp [hl])),
        forkStart_get top params k fs q (hq k)]
    · rw [LM_cons_illegal params top k x r hk] at hc hlen h
      simp only [postMapChecked, hk]
      exact ih _ hc hlen h

/-! ## the theorem -/

theorem expectedMapped_cons_legal (fs0 : FS) (params : List (String × String × Ty)) (top : Path) (k : String)
    (x : J) (r : List (String × J)) (hk : legalName k = true) :
    expectedMapped fs0 params top ((k, x) :: r) =
      (k, J.obj (pureOuts (expectVal fs0) params (fieldsOf x) (top ++ [k]))) :: expectedMapped fs0 params top r := by
  simp [expectedMapped, hk]

theorem expectedMapped_cons_illegal (fs0 : FS) (params : List (String × String × Ty)) (top : Path) (k : String)
    (x : J) (r : List (String × J)) (hk : ¬ legalName k = true) :
    expectedMapped fs0 params top ((k, x) :: r) = (k, x) :: expectedMapped fs0 params top r := by
  simp [expectedMapped, hk]

theorem content_mapped (ps top : Path) (params : List (String × String × Ty)) (fs0 : FS)
    (kvs : List (String × J)) (fs : FS)
    (hc : Clean ps top fs (LM params top kvs))
    (hlen : ∀ l ∈ LM params top kvs, top.length + 2 ≤ l.dest.length)
    (hag : ∀ l ∈ LM params top kvs, ∀ p, l.src = some p → ∀ suf, fs.get (p ++ suf) = fs0.get (p ++ suf)) :
    (∀ l ∈ LM params top kvs, ∀ p e, l.src = some p → fs0.get p = some e → ∀ suf,
      (postMapChecked true ps params top kvs fs).2.get (l.dest ++ suf) = fs0.get (p ++ suf)) ∧
    (postMapChecked true ps params top kvs fs).1 = expectedMapped fs0 params top kvs := by
  induction kvs generalizing fs with
  | nil => exact ⟨fun l hl => by simp [LM, legalForks, leavesMap] at hl, rfl⟩
  | cons kv r ih =>
    obtain ⟨k, x⟩ := kv
    by_cases hk : legalName k = true
    · rw [LM_cons_legal params top k x r hk] at hc hlen hag ⊢
      rw [expectedMapped_cons_legal fs0 params top k x r hk]
      simp only [postMapChecked, hk, if_true]
      -- the fork's own start state, and the state after its leaves
      have hc1 := forkStart_clean ps top params k fs _ hc hlen
      have hcA := clean_append_left ps top _ _ _ hc1
      have hsrc1 : ∀ l ∈ leavesRec params (fieldsOf x) (top ++ [k]) ++ LM params top r, ∀ p, l.src = some p →
          ∀ suf, (forkStart params top k fs).get (p ++ suf) = fs0.get (p ++ suf) := by
        intro l hl p hp suf
        have hap := hc.apart l hl p hp
        rw [forkStart_get top params k fs _ (src_not_under hap.1 hap.2 (List.prefix_append _ _) suf)]
        exact hag l hl p hp suf
      have hc2 : Clean ps top (processStructOuts true ps params x (top ++ [k]) fs).2 (LM params top r) := by
        rw [processStructOuts_fs]; exact clean_run_drop ps top _ _ _ hc1
      have hag2 : ∀ l ∈ LM params top r, ∀ p, l.src = some p → ∀ suf,
          (processStructOuts true ps params x (top ++ [k]) fs).2.get (p ++ suf) = fs0.get (p ++ suf) := by
        intro l hl p hp suf
        rw [processStructOuts_fs, agree_run ps top _ _ _ hc1 l hl p hp suf]
        exact hsrc1 l (by simp [hl]) p hp suf
      obtain ⟨iha, ihb⟩ := ih _ hc2 (fun l hl => hlen l (by simp [hl])) hag2
      refine ⟨?_, ?_⟩
      · intro l hl p e hp he suf
        rcases List.mem_append.mp hl with hlA | hlB
        · -- a leaf of this fork: moved now, untouched by the later forks
          have he1 : (forkStart params top k fs).get p = some e := by
            have := hsrc1 l hl p hp []
            simp only [List.append_nil] at this
            rw [this, he]
          have hmoved := content_preserved_run ps top _ _ hcA l hlA p e hp he1 suf
          have hd := List.pairwise_append.mp hc.dests
          rw [postMapChecked_frame ps top params r _ hc2 (fun l' hl' => hlen l' (by simp [hl']))
            (l.dest ++ suf)
            (fun k' => longer_not_prefix (by have := hlen l hl; simp; omega))
            (fun l' hl' => ?_),
            processStructOuts_fs, hmoved]
          · exact hsrc1 l hl p hp suf
          · have hinc := incomp_iff.mp (hd.2.2 l hlA l' hl')
            have hb : top <+: l.dest := dest_below (hc.below l hl)
            refine ⟨fun p' hp' => ?_, ?_, ?_⟩
            · have hap' := hc.apart l' (by simp [hl']) p' hp'
              exact (unrelated_below hap'.1 hap'.2 (hb.trans (List.prefix_append _ _))).1
            · intro hh
              rcases List.prefix_or_prefix_of_prefix hh (List.prefix_append l.dest suf) with h' | h'
              · exact hinc.2 h'
              · exact hinc.1 h'
            · intro hh
              exact hinc.1 (((List.prefix_append l.dest suf).trans hh).trans (List.prefix_append _ _))
        · exact iha l hlB p e hp he suf
      · -- the record entry of this fork, then the rest
        rw [ihb, processStructOuts_rec,
          handleOuts_val ps (expectVal fs0) params (fieldsOf x) (top ++ [k]) _
            (clean_good ps top fs0 _ _ hcA (fun l hl p hp => by
              have := hsrc1 l (by simp [hl]) p hp []
              simpa using this))]
    · rw [LM_cons_illegal params top k x r hk] at hc hlen hag ⊢
      rw [expectedMapped_cons_illegal fs0 params top k x r hk]
      have hk' : legalName k = false := by simpa using hk
      simp only [postMapChecked, hk', Bool.false_eq_true, if_false]
      obtain ⟨iha, ihb⟩ := ih fs hc hlen hag
      exact ⟨iha, by rw [ihb]⟩



/-! ## from the user-facing hypotheses -/

theorem LM_below (params : List (String × String × Ty)) (top : Path) (kvs : List (String × J))
    (h : wfParams params = true) :
    ∀ l ∈ LM params top kvs, top <+: l.outs ∧ top.length + 2 ≤ l.dest.length := by
  intro l hl
  obtain ⟨k, x, hm, hx⟩ := mem_leavesMap hl
  have hk : legalName k = true := legalForks_keys_legal kvs k (List.mem_map.mpr ⟨(k, x), hm, rfl⟩)
  rw [joinKey_legal top k hk] at hx
  obtain ⟨s, hs⟩ := leavesRec_under params _ _ h l hx
  refine ⟨⟨[k] ++ s, by rw [hs]; simp⟩, ?_⟩
  simp [Leaf.dest, hs]

/-- the `Clean` situation of a mapped call: `dests` and `below` are theorems -/
theorem clean_mapped (ps top : Path) (fs : FS) (params : List (String × String × Ty)) (kvs : List (String × J))
    (hwf : wfParams params = true) (hnd : (kvs.map Prod.fst).Nodup)
    (apart : ∀ l ∈ LM params top kvs, ∀ p, l.src = some p → ¬ p <+: top ∧ ¬ top <+: p)
    (nonnest : (LM params top kvs).Pairwise (fun l1 l2 => ∀ p1 p2, l1.src = some p1 →
      l2.src = some p2 → ¬ p1 <+: p2 ∧ ¬ p2 <+: p1))
    (status : ∀ l ∈ LM params top kvs, ∀ p, l.src = some p →
      fs.get p = none ∨ ∃ e, fs.get p = some e ∧ e.isLink = false ∧ inside ps p = true)
    (free : ∀ l ∈ LM params top kvs, fs.get l.dest = none) :
    Clean ps top fs (LM params top kvs) :=
  ⟨leavesMap_pairwise params top (legalForks kvs) hwf
      (legal_keys_separable top _ (legalForks_keys_nodup kvs hnd) (legalForks_keys_legal kvs)),
    fun l hl => (LM_below params top kvs hwf l hl).1, apart, nonnest, status, free⟩

/-- the side conditions from the decidable check, for any list of leaves -/
theorem cleanB_fields (ps top : Path) (fs : FS) (ls : List Leaf) (h : cleanB ps top fs ls = true) :
    (∀ l ∈ ls, ∀ p, l.src = some p → ¬ p <+: top ∧ ¬ top <+: p) ∧
    ls.Pairwise (fun l1 l2 => ∀ p1 p2, l1.src = some p1 → l2.src = some p2 → ¬ p1 <+: p2 ∧ ¬ p2 <+: p1) ∧
    (∀ l ∈ ls, ∀ p, l.src = some p →
      fs.get p = none ∨ ∃ e, fs.get p = some e ∧ e.isLink = false ∧ inside ps p = true) ∧
    (∀ l ∈ ls, fs.get l.dest = none) := by
  simp only [cleanB, Bool.and_eq_true, List.all_eq_true] at h
  have hl : ∀ l ∈ ls, leafOkB ps top fs l = true := h.1
  refine ⟨?_, nonnestB_sound _ h.2, ?_, ?_⟩
  · intro l hm p hp
    have := hl l hm
    simp only [leafOkB, hp, Bool.and_eq_true, Bool.not_eq_true'] at this
    exact ⟨isPrefix_false_iff.mp this.1.1.1, isPrefix_false_iff.mp this.1.1.2⟩
  · intro l hm p hp
    have := hl l hm
    simp only [leafOkB, hp, Bool.and_eq_true, Bool.not_eq_true'] at this
    cases hg : fs.get p with
    | none => exact Or.inl rfl
    | some e =>
      rw [hg] at this
      simp only [Bool.and_eq_true, Bool.not_eq_true'] at this
      exact Or.inr ⟨e, rfl, this.1.2.1, this.1.2.2⟩
  · intro l hm
    have := hl l hm
    simp only [leafOkB, Bool.and_eq_true, Option.isNone_iff_eq_none] at this
    exact this.2

end Martian.PostProcess
