/-
C19 — deleting calls that nothing refers to leaves the resolved inputs,
outputs and retained references of every remaining call unchanged.
-/
import Proofs.RefactorGraphLemmas
import Proofs.RefactorGraphOut

namespace Proofs.RefactorGraph
open Martian.Refactor

theorem removeCallById_eq_filter (id : String) (cs : List Call) (hnd : (cs.map (·.id)).Nodup) :
    removeCallById id cs = cs.filter (fun k => k.id != id) := by
  induction cs with
  | nil => rfl
  | cons a t ih =>
    simp only [List.map_cons, List.nodup_cons] at hnd
    simp only [removeCallById]
    split
    · rename_i ha
      have hall : ∀ k ∈ t, k.id ≠ id := fun k hk e =>
        hnd.1 (ha ▸ e ▸ List.mem_map.mpr ⟨k, hk, rfl⟩)
      have : t.filter (fun k => k.id != id) = t := by
        rw [List.filter_eq_self]
        intro k hk
        simpa using hall k hk
      simp [List.filter_cons, ha, this]
    · rename_i ha
      simp [List.filter_cons, ha, ih hnd.2]

theorem nodup_filter_ids (f : Call → Bool) (cs : List Call) (hnd : (cs.map (·.id)).Nodup) :
    ((cs.filter f).map (·.id)).Nodup :=
  List.Nodup.sublist ((List.filter_sublist (l := cs)).map _) hnd

theorem foldl_removeCallById (ids : List String) : ∀ (cs : List Call), (cs.map (·.id)).Nodup →
    ids.foldl (fun cs id => removeCallById id cs) cs = cs.filter (fun k => !ids.contains k.id) := by
  induction ids with
  | nil => intro cs _; simp [filter_true']
  | cons i rest ih =>
    intro cs hnd
    simp only [List.foldl_cons]
    rw [removeCallById_eq_filter i cs hnd, ih _ (nodup_filter_ids _ cs hnd), List.filter_filter]
    apply List.filter_congr
    intro k _
    by_cases h : k.id = i
    · simp [h]
    · have h' : ¬ i = k.id := fun e => h e.symm
      simp [h, h', List.contains_cons]

section Del
variable (rem : List CallRemoval)

def FDel (c : Callable) : Callable :=
  match rem.find? (fun r => r.pipe == c.name) with
  | some r => if c.isPipe then { c with calls := r.ids.foldl (fun cs id => removeCallById id cs) c.calls } else c
  | none => c

theorem applyCallRemovals_eq (p : Program) :
    applyCallRemovals rem p = { p with callables := p.callables.map (FDel rem) } := rfl

theorem FDel_fields (c : Callable) :
    (FDel rem c).name = c.name ∧ (FDel rem c).isPipe = c.isPipe ∧ (FDel rem c).outs = c.outs
    ∧ (FDel rem c).ret = c.ret ∧ (FDel rem c).retain = c.retain ∧ (FDel rem c).ins = c.ins := by
  unfold FDel
  split
  · split <;> exact ⟨rfl, rfl, rfl, rfl, rfl, rfl⟩
  · exact ⟨rfl, rfl, rfl, rfl, rfl, rfl⟩

theorem pipeOKDel_parts {c : Callable} (h : pipeOKDel rem c = true) :
    (c.isPipe = true ∨ c.calls = [])
    ∧ (callIds c).Nodup
    ∧ (∀ k ∈ c.calls, noStar k.binds = true)
    ∧ noStar c.ret = true
    ∧ (∀ r ∈ graphRefs c, r.kind = RefKind.call → keepOf rem c r.id = true) := by
  simp only [pipeOKDel, Bool.and_eq_true, Bool.or_eq_true, List.all_eq_true, decide_eq_true_eq,
    bne_iff_ne, ne_eq, List.isEmpty_iff] at h
  obtain ⟨⟨⟨⟨h1, h2⟩, h3⟩, h4⟩, h5⟩ := h
  refine ⟨h1, h2, h3, h4, ?_⟩
  intro r hr hk
  cases h5 r hr with
  | inl h => exact absurd hk h
  | inr h => exact h

theorem lookupRef_agree (p : Program) (pipe : Callable) (self : Env) (sib sib' : String → RExp) (r : Ref)
    (hag : SibAgree p (fun _ _ v => v) (keepOf rem) pipe sib sib')
    (h : r.kind = RefKind.call → keepOf rem pipe r.id = true) :
    lookupRef self sib' r = lookupRef self sib r := by
  unfold lookupRef
  cases hk : r.kind with
  | self => rfl
  | call =>
    simp only
    rw [hag r.id (h hk)]
    rfl

/-- the simulation hypotheses of the deletion edit, and the facts about the top-level context -/
theorem remove_calls_sim (ti : TypeInfo) (p : Program) (hok : CallRemOK rem p = true)
    (t : Call) (ht : p.top = some t) :
    SimHyp ti ti p (applyCallRemovals rem p) id (FDel rem) (fun _ k => k)
      (fun _ e => e) (fun _ _ v => v) id (fun c => pipeOKDel rem c = true) (fun _ _ => True)
      (fun _ _ => True) (fun _ => True) (keepOf rem)
    ∧ pipeOKDel rem (topPipe t) = true ∧ FDel rem (topPipe t) = topPipe t
    ∧ keepOf rem (topPipe t) t.id = true := by
  simp only [CallRemOK, Bool.and_eq_true, List.all_eq_true, bne_iff_ne, ne_eq] at hok
  obtain ⟨⟨hne, hall⟩, htopok⟩ := hok
  have htop : pipeOKDel rem (topPipe t) = true := by simpa [ht] using htopok
  have hfindtop : rem.find? (fun r => r.pipe == (topPipe t).name) = none := by
    rw [List.find?_eq_none]
    intro r hr
    have := hne r hr
    simpa [topPipe] using this
  have H : SimHyp ti ti p (applyCallRemovals rem p) id (FDel rem) (fun _ k => k)
      (fun _ e => e) (fun _ _ v => v) id (fun c => pipeOKDel rem c = true) (fun _ _ => True)
      (fun _ _ => True) (fun _ => True) (keepOf rem) := by
    refine { hfind1 := ?_, hfind0 := ?_, hrel := fun _ _ _ _ => trivial, hF := ?_, hcalls := ?_,
             hGid := fun _ _ => rfl, hGdec := fun _ _ _ _ => rfl, hfirst := ?_, hO0 := fun _ _ => rfl,
             hOs := fun _ _ _ _ => rfl, o0 := fun _ => trivial, o0s := fun _ _ _ => trivial,
             o1 := ?_, o2 := ?_, c5 := ?_, c6 := ?_, c7 := ?_ }
    · intro n d hd
      refine ⟨?_, hall d (find_mem p n d hd)⟩
      rw [applyCallRemovals_eq]
      unfold Program.find? at hd ⊢
      simp only [id]
      rw [find_map_name _ (fun c => (FDel_fields rem c).1), hd]; rfl
    · intro n _ hd
      rw [applyCallRemovals_eq]
      unfold Program.find? at hd ⊢
      simp only [id]
      rw [find_map_name _ (fun c => (FDel_fields rem c).1), hd]; rfl
    · intro c _
      have := FDel_fields rem c
      exact ⟨this.2.1, this.1, by rw [this.2.2.1], by rw [this.2.2.2.1]⟩
    · intro pipe hg
      have hparts := pipeOKDel_parts rem hg
      simp only [List.map_id']
      unfold FDel keepOf
      cases hf : rem.find? (fun r => r.pipe == pipe.name) with
      | none => simp [filter_true']
      | some r =>
        simp only
        cases hp : pipe.isPipe with
        | true =>
          simp only [if_true, Bool.true_and]
          exact foldl_removeCallById r.ids pipe.calls hparts.2.1
        | false =>
          simp only [Bool.false_eq_true, if_false, Bool.false_and, Bool.not_false, filter_true']
    · intro pipe hg
      exact first_of_nodup pipe (pipeOKDel_parts rem hg).2.1
    · intros; trivial
    · intros; trivial
    · -- c5
      intro pipe self sib sib' k d id hg _ _ hag _ hk hd
      have hparts := pipeOKDel_parts rem hg
      have hkm := (call_mem pipe id k hk).1
      have hF := FDel_fields rem d
      unfold callIns
      rw [hF.1, hF.2.2.2.2.2, expandWild_noStar _ _ _ _ (hparts.2.2.1 k hkm),
          expandWild_noStar _ _ _ _ (hparts.2.2.1 k hkm)]
      apply resolveBinds_congr
      intro bd hbd r hr
      exact lookupRef_agree rem p pipe self sib sib' r hag
        (hparts.2.2.2.2 r (mem_graphRefs_bind pipe k hkm bd hbd r hr))
    · -- c6
      intro d ins sib sib' hg hp _ _ hag
      have hparts := pipeOKDel_parts rem hg
      have hF := FDel_fields rem d
      unfold pipeOuts
      rw [hF.1, hF.2.2.2.1, expandWild_noStar _ _ _ _ hparts.2.2.2.1, expandWild_noStar _ _ _ _ hparts.2.2.2.1]
      congr 2
      apply resolveBinds_congr
      intro bd hbd r hr
      exact lookupRef_agree rem p d ins sib sib' r hag
        (hparts.2.2.2.2 r (mem_graphRefs_ret d bd hbd r hr))
    · -- c7
      intro d ins sib sib' hg hp _ _ hag
      have hparts := pipeOKDel_parts rem hg
      have hF := FDel_fields rem d
      unfold pipeRetained
      rw [hF.2.2.2.2.1, List.map_id]
      apply flatMap_congr'
      intro r hr
      rw [lookupRef_agree rem p d ins sib sib' r hag (hparts.2.2.2.2 r (mem_graphRefs_retain d r hr))]
  have hFt : FDel rem (topPipe t) = topPipe t := by
    unfold FDel; rw [hfindtop]
  have hkt : keepOf rem (topPipe t) t.id = true := by
    unfold keepOf; rw [hfindtop]
  exact ⟨H, htop, hFt, hkt⟩

theorem remove_calls_nodes (ti : TypeInfo) (p : Program) (hok : CallRemOK rem p = true)
    (big fuel : Nat) (t : Call) (ht : p.top = some t) :
    nodesOf ti (applyCallRemovals rem p) big fuel (topPipe t) [] [] t
      = nodesOfKeep (keepOf rem) ti p big fuel (topPipe t) [] [] t := by
  obtain ⟨H, htop, hFt, hkt⟩ := remove_calls_sim rem ti p hok t ht
  have := sim_graph_at H big fuel t htop trivial hkt hFt rfl
  have hmap : nodeMap id (fun _ e => e) (fun _ _ v => v) id = fun n : Node => n := by
    funext n; simp [nodeMap]
  rw [hmap, List.map_id'] at this
  exact this

/-- the same for a restricted graph: `K` may depend on the callable's name and kind only -/
theorem remove_calls_nodesK (ti : TypeInfo) (p : Program) (hok : CallRemOK rem p = true)
    (κ : String → Bool → String → Bool)
    (big fuel : Nat) (t : Call) (ht : p.top = some t) :
    nodesOfKeep (fun c i => κ c.name c.isPipe i) ti (applyCallRemovals rem p) big fuel (topPipe t) [] [] t
      = nodesOfKeep (fun c i => keepOf rem c i && κ c.name c.isPipe i) ti p big fuel (topPipe t) [] [] t := by
  obtain ⟨H, htop, hFt, hkt⟩ := remove_calls_sim rem ti p hok t ht
  have := sim_graph_atK H (fun c i => κ c.name c.isPipe i)
    (fun c _ i => by
      have hF := FDel_fields rem c
      simp only [hF.1, hF.2.1]) big fuel t htop trivial hkt hFt rfl
  have hmap : nodeMap id (fun _ e => e) (fun _ _ v => v) id = fun n : Node => n := by
    funext n; simp [nodeMap]
  rw [hmap, List.map_id'] at this
  exact this

end Del

end Proofs.RefactorGraph
