import Proofs.FormatStageRangeText
import Proofs.FormatStageRangeGB32
import Proofs.FormatResRoundTrips

/-!
C09, accepted stage declarations as the REAL parser reads them (`parseStage32`: `mem_gb` /
`vmem_gb` through the float32 rounding of the literal, `readGB32Tok`).

The readers `pResListR rd`, `pResourcesR rd`, `pTailR rd`, `pStageBodyR rd`, `pStageR rd` are the
readers of `Martian.FormatRes` / `Martian.FormatStage` with the reader of the two values a parameter.

* range (any `rd`): whatever they return on tokens of the tokenizer is in `stageRaw`;
* token layer (any `rd` that reads `tokGB mb` back as `mb` for the values of the stage): the
  tokens of a well-formed stage read back as the stage;
* `parseStage32_fmtStage`: for a well-formed stage with `mem_gb`, `vmem_gb` below 256 GB the REAL
  reading of the printed text is the stage (uses `readGB32Tok_fmtGB`, 262 144 values by kernel
  evaluation);
* the text-side statements for `parseStage32H`.

Core Lean only.
-/

namespace Martian.FormatRes
open Martian.Lexer (Bytes unquoteBytes)
open Martian.FormatExp
open Martian.FormatCall (tLP tRP tEq)
open Martian.FormatDecl (AllOK allOK_cons allOK_tail)
open Martian.FormatStage (threadsTokOK resRaw)

/-! ## with the exact reader the parameterised readers are the readers of `Martian.FormatRes` -/

theorem pResListR_exact (ts : List Tok) (acc : Res) : pResListR readGBTok ts acc = pResList ts acc := by
  fun_induction pResList ts acc <;>
    first | (simp_all [pResListR]; done) | (unfold pResListR; simp_all; done)

theorem pResourcesR_exact (ts : List Tok) : pResourcesR readGBTok ts = pResources ts := by
  unfold pResourcesR pResources
  simp only [pResListR_exact]
  rfl

theorem pTailR_exact (ts : List Tok) : pTailR readGBTok ts = pTail ts := by
  unfold pTailR pTail
  simp only [pResourcesR_exact]
  rfl

/-! ## range -/

theorem pResListR_range (rd : Tok → Option Int) : ∀ (n : Nat) (ts : List Tok) (acc r : Res) (rest : List Tok), ts.length ≤ n →
    AllOK ts → resRaw acc = true → pResListR rd ts acc = some (r, rest) → resRaw r = true ∧ AllOK rest
  | 0, ts, acc, r, rest, hl, hts, hacc, h => by
    cases ts with
    | nil => simp [pResListR] at h
    | cons _ _ => simp at hl
  | n + 1, ts, acc, r, rest, hl, hts, hacc, h => by
    unfold pResListR at h
    split at h
    · injection h with h; injection h with h1 h2; subst h1; subst h2
      exact ⟨hacc, allOK_tail hts⟩
    · rename_i k v r'
      have h4 : AllOK r' := allOK_tail (allOK_tail (allOK_tail (allOK_tail hts)))
      have hv : tokOK v = true := (allOK_cons (allOK_tail (allOK_tail hts))).1
      have hlen : r'.length ≤ n := by simp only [List.length_cons] at hl; omega
      split at h
      · split at h
        · rename_i t ht
          exact pResListR_range rd n r' _ r rest hlen h4
            (by simpa [resRaw] using readF32_range v t hv ht) h
        · cases h
      · split at h
        · split at h
          · exact pResListR_range rd n r' _ r rest hlen h4 (by simpa [resRaw] using hacc) h
          · cases h
        · split at h
          · split at h
            · exact pResListR_range rd n r' _ r rest hlen h4 (by simpa [resRaw] using hacc) h
            · cases h
          · split at h
            · split at h
              · split at h
                · exact pResListR_range rd n r' _ r rest hlen h4 (by simpa [resRaw] using hacc) h
                · cases h
              · cases h
            · split at h
              · split at h
                · split at h
                  · exact pResListR_range rd n r' _ r rest hlen h4 (by simpa [resRaw] using hacc) h
                  · cases h
                · exact pResListR_range rd n r' _ r rest hlen h4 (by simpa [resRaw] using hacc) h
                · cases h
              · cases h
    · cases h

theorem pResourcesR_range (rd : Tok → Option Int) (ts : List Tok) (res : Option Res) (rest : List Tok) (hts : AllOK ts)
    (h : pResourcesR rd ts = some (res, rest)) :
    (∀ r, res = some r → resRaw r = true) ∧ AllOK rest := by
  unfold pResourcesR at h
  split at h
  · rename_i w ts'
    split at h
    · split at h
      · rename_i r'
        cases hq : pResListR rd r' {} with
        | none => simp [hq] at h
        | some q =>
          simp only [hq, Option.map_some, Option.some.injEq, Prod.mk.injEq] at h
          obtain ⟨rfl, rfl⟩ := h
          have ih := pResListR_range rd _ r' {} q.1 q.2 (Nat.le_refl _) (allOK_tail (allOK_tail hts)) rfl hq
          exact ⟨fun r hr => (by injection hr with hr; subst hr; exact ih.1), ih.2⟩
      · cases h
    · injection h with h; injection h with h1 h2; subst h1; subst h2
      exact ⟨fun _ hr => (by cases hr), hts⟩
  · injection h with h; injection h with h1 h2; subst h1; subst h2
    exact ⟨fun _ hr => (by cases hr), hts⟩

theorem pTailR_range (rd : Tok → Option Int) (ts : List Tok) (res : Option Res) (ret : Option (List Bytes)) (rest : List Tok)
    (hts : AllOK ts) (h : pTailR rd ts = some ((res, ret), rest)) :
    (∀ r, res = some r → resRaw r = true) ∧
    (∀ ids, ret = some ids → wfRetain ids = true) ∧ AllOK rest := by
  unfold pTailR at h
  split at h
  · rename_i ts'
    split at h
    · rename_i res' ts1 h1
      have ⟨hr1, ht1⟩ := pResourcesR_range rd ts' res' ts1 (allOK_tail hts) h1
      split at h
      · rename_i ret' ts2 h2
        have ⟨hr2, ht2⟩ := pRetain_range ts1 ret' ts2 ht1 h2
        injection h with h; injection h with h3 h4
        injection h3 with h5 h6
        subst h4; subst h5; subst h6
        exact ⟨hr1, hr2, ht2⟩
      · cases h
    · cases h
  · cases h

/-! ## token layer -/

theorem pResListR_end (rd : Tok → Option Int) (rest : List Tok) (acc : Res) :
    pResListR rd (tRP :: rest) acc = some (acc, rest) := by
  simp [tRP, pResListR]

theorem stepR_mem (rd : Tok → Option Int) (mb : Int) (hr : rd (tokGB mb) = some mb) (ts : List Tok) (acc : Res) :
    pResListR rd (toksMem (some mb) ++ ts) acc = pResListR rd ts { acc with mem := some mb } := by
  have h1 : sMemGb ≠ sThreads := by decide
  simp only [toksMem]
  generalize tokGB mb = v at hr
  cases v <;> simp [tEq, tComma, pResListR, h1, hr]

theorem stepR_vmem (rd : Tok → Option Int) (mb : Int) (hr : rd (tokGB mb) = some mb) (ts : List Tok) (acc : Res) :
    pResListR rd (toksVmem (some mb) ++ ts) acc = pResListR rd ts { acc with vmem := some mb } := by
  have h1 : sVmemGb ≠ sThreads := by decide
  have h2 : sVmemGb ≠ sMemGb := by decide
  have h3 : sVmemGb ≠ sMemgb := by decide
  simp only [toksVmem]
  generalize tokGB mb = v at hr
  cases v <;> simp [tEq, tComma, pResListR, h1, h2, h3, hr]

theorem stepR_special (rd : Tok → Option Int) (s : Bytes) (hs : Martian.ShellQuote.validUtf8 s = true)
    (ts : List Tok) (acc : Res) :
    pResListR rd (toksSpecial (some s) ++ ts) acc = pResListR rd ts { acc with special := some s } := by
  have h1 : sSpecial ≠ sThreads := by decide
  have h2 : sSpecial ≠ sMemGb := by decide
  have h3 : sSpecial ≠ sMemgb := by decide
  have h4 : sSpecial ≠ sVmemGb := by decide
  have h5 : sSpecial ≠ sVmemgb := by decide
  simp [toksSpecial, tEq, tComma, pResListR, h1, h2, h3, h4, h5, Martian.Format.unquote_quoteString s hs]

theorem stepR_threads (rd : Tok → Option Int) (t : Bytes) (ht : wfThreads t = true) (ts : List Tok) (acc : Res) :
    pResListR rd (toksThreads (some t) ++ ts) acc = pResListR rd ts { acc with threads := some t } := by
  have hr := readF32_threads t ht
  simp only [toksThreads]
  generalize tokThreads t = v at hr
  cases v <;> simp [tEq, tComma, pResListR, hr] <;> simp [readF32] at hr

theorem stepR_volatile (rd : Tok → Option Int) (b : Bool) (ts : List Tok) (acc : Res) :
    pResListR rd (toksVolatile (some b) ++ ts) acc = pResListR rd ts { acc with volatile := some b } := by
  have h1 : sVolatile ≠ sThreads := by decide
  have h2 : sVolatile ≠ sMemGb := by decide
  have h3 : sVolatile ≠ sMemgb := by decide
  have h4 : sVolatile ≠ sVmemGb := by decide
  have h5 : sVolatile ≠ sVmemgb := by decide
  have h6 : sVolatile ≠ sSpecial := by decide
  cases b <;> simp [toksVolatile, tEq, tComma, pResListR, h1, h2, h3, h4, h5, h6]

/-- `rd` reads the printed `mem_gb` / `vmem_gb` of `r` back -/
def ReadsBack (rd : Tok → Option Int) (r : Res) : Prop :=
  (∀ mb, r.mem = some mb → rd (tokGB mb) = some mb) ∧ (∀ mb, r.vmem = some mb → rd (tokGB mb) = some mb)

theorem pResListR_toks (rd : Tok → Option Int) (r : Res) (hw : wfRes r = true) (hrd : ReadsBack rd r)
    (rest : List Tok) : pResListR rd (toksResBody r ++ tRP :: rest) {} = some (r, rest) := by
  obtain ⟨_, _, h3, h4⟩ := wfRes_parts hw
  obtain ⟨h1, h2⟩ := hrd
  obtain ⟨a, b, c, d, e⟩ := r
  simp only at h1 h2 h3 h4
  have e1 : ∀ ts acc, pResListR rd (toksMem a ++ ts) acc = pResListR rd ts (setMem a acc) := by
    intro ts acc
    cases a with
    | none => rfl
    | some mb => exact stepR_mem rd mb (h1 mb rfl) ts acc
  have e2 : ∀ ts acc, pResListR rd (toksSpecial b ++ ts) acc = pResListR rd ts (setSpecial b acc) := by
    intro ts acc
    cases b with
    | none => rfl
    | some s => exact stepR_special rd s (h3 s rfl) ts acc
  have e3 : ∀ ts acc, pResListR rd (toksThreads c ++ ts) acc = pResListR rd ts (setThreads c acc) := by
    intro ts acc
    cases c with
    | none => rfl
    | some t => exact stepR_threads rd t (h4 t rfl) ts acc
  have e4 : ∀ ts acc, pResListR rd (toksVmem d ++ ts) acc = pResListR rd ts (setVmem d acc) := by
    intro ts acc
    cases d with
    | none => rfl
    | some mb => exact stepR_vmem rd mb (h2 mb rfl) ts acc
  have e5 : ∀ ts acc, pResListR rd (toksVolatile e ++ ts) acc = pResListR rd ts (setVolatile e acc) := by
    intro ts acc
    cases e with
    | none => rfl
    | some v => exact stepR_volatile rd v ts acc
  simp only [toksResBody, List.append_assoc]
  rw [e1, e2, e3, e4, e5, pResListR_end]
  cases a <;> cases b <;> cases c <;> cases d <;> cases e <;> rfl

theorem pResourcesR_toks (rd : Tok → Option Int) (r : Res) (hw : wfRes r = true) (hrd : ReadsBack rd r)
    (rest : List Tok) :
    pResourcesR rd (.id sUsing :: tLP :: (toksResBody r ++ tRP :: rest)) = some (some r, rest) := by
  simp [pResourcesR, tLP, pResListR_toks rd r hw hrd rest]

theorem pResourcesR_none (rd : Tok → Option Int) (ts : List Tok) (h : NotId sUsing ts) :
    pResourcesR rd ts = some (none, ts) := by
  cases ts with
  | nil => rfl
  | cons t r =>
    cases t <;> try rfl
    rename_i w
    simp only [NotId] at h
    simp [pResourcesR, h]

theorem pTailR_toks (rd : Tok → Option Int) (res : Option Res) (ret : Option (List Bytes))
    (hw : (match res with | some r => wfRes r | none => true) = true)
    (hrd : ∀ r, res = some r → ReadsBack rd r) (rest : List Tok)
    (h1 : NotId sUsing rest) (h2 : NotId sRetain rest) :
    pTailR rd (toksTail res ret ++ rest) = some ((res, ret), rest) := by
  have hru : sRetain ≠ sUsing := by decide
  cases res with
  | none =>
    cases ret with
    | none =>
      simp only [toksTail, List.nil_append, List.cons_append, pTailR, tRP]
      rw [pResourcesR_none rd rest h1]
      simp only
      rw [pRetain_none rest h2]
    | some ids =>
      simp only [toksTail, List.nil_append, toksRetain, List.cons_append, List.append_assoc, pTailR, tRP]
      rw [pResourcesR_none rd _ (by simp only [NotId]; exact hru)]
      simp only
      rw [pRetain_toks ids rest]
  | some r =>
    simp only at hw
    have hr := hrd r rfl
    cases ret with
    | none =>
      simp only [toksTail, toksRes, List.append_nil, List.cons_append, List.append_assoc, pTailR,
        List.nil_append, tRP]
      rw [pResourcesR_toks rd r hw hr rest]
      simp only
      rw [pRetain_none rest h2]
    | some ids =>
      simp only [toksTail, toksRes, toksRetain, List.cons_append, List.append_assoc, pTailR,
        List.nil_append, tRP]
      rw [pResourcesR_toks rd r hw hr]
      simp only
      rw [pRetain_toks ids rest]

end Martian.FormatRes

namespace Martian.FormatStage
open Martian.Lexer (Bytes)
open Martian.FormatExp
open Martian.FormatCall (tLP tRP)
open Martian.FormatDecl (Param AllOK allOK_cons allOK_tail pInParams pOutParams paramRaw pInParams_range
  pOutParams_range toksParams pInParams_toks pOutParams_toks headKw_in_outs sIn sOut)
open Martian.FormatRes (Lang Res pSrc wfField wfRetain toksSrc toksTail pSrc_toks NotId sStage sSrc sUsing
  sRetain ReadsBack readGB32Tok tokGB)

/-! ## with the exact reader `pStageAllR` is `pStageAll` -/

theorem pStageAllR_exact (ts : List Tok) : pStageAllR Martian.FormatRes.readGBTok ts = pStageAll ts := by
  have h1 : ∀ f name ts, pStageBodyR Martian.FormatRes.readGBTok f name ts = pStageBody f name ts := by
    intro f name ts
    unfold pStageBodyR pStageBody
    simp only [Martian.FormatRes.pTailR_exact]
    rfl
  have h2 : ∀ ts, pStageR Martian.FormatRes.readGBTok ts = pStage ts := by
    intro ts
    unfold pStageR pStage
    simp only [h1]
    rfl
  unfold pStageAllR pStageAll
  rw [h2]
  rfl

/-- the model reader of section StageDeclarations is the parameterised reader with the exact
reading of `mem_gb` / `vmem_gb` -/
theorem parseStage_eq (src : Bytes) :
    parseStage src = (lexAll src).bind (pStageAllR Martian.FormatRes.readGBTok) := by
  unfold parseStage
  congr 1
  funext ts
  exact (pStageAllR_exact ts).symm

/-! ## range -/

theorem pStageBodyR_range (rd : Tok → Option Int) (f : Nat) (name : Bytes) (ts : List Tok) (s : Stage) (rest : List Tok)
    (hn : isIdent name = true) (hts : AllOK ts) (h : pStageBodyR rd f name ts = some (s, rest)) :
    stageRaw s = true ∧ AllOK rest := by
  unfold pStageBodyR at h
  split at h
  · rename_i ins r1 h1
    have ⟨a1, a2, a3⟩ := pInParams_range f ts ins r1 hts h1
    split at h
    · rename_i outs r2 h2
      have ⟨b1, b2, b3⟩ := pOutParams_range f r1 outs r2 a3 h2
      split at h
      · rename_i lang path args r3 h3
        have ⟨c1, c2, c3⟩ := Martian.FormatRes.pSrc_range r2 lang path args r3 b3 h3
        split at h
        · rename_i sp ci co r4 h4
          have ⟨d1, d2, d3, d4, d5, d6⟩ := pSplit_range f r3 sp ci co r4 c3 h4
          split at h
          · rename_i res ret rest' h5
            have ⟨e1, e2, e3⟩ := Martian.FormatRes.pTailR_range rd r4 res ret rest' d6 h5
            injection h with h; injection h with h6 h7
            subst h6; subst h7
            refine ⟨?_, e3⟩
            simp only [stageRaw, Bool.and_eq_true]
            refine ⟨⟨⟨⟨⟨⟨⟨⟨⟨⟨⟨⟨⟨hn, a1⟩, a2⟩, b1⟩, b2⟩, d1⟩, d2⟩, d3⟩, d4⟩, ?_⟩, c1⟩, c2⟩, ?_⟩, ?_⟩
            · exact d5
            · cases res with
              | none => rfl
              | some r => exact e1 r rfl
            · cases ret with
              | none => rfl
              | some r => exact e2 r rfl
          · cases h
        · cases h
      · cases h
    · cases h
  · cases h

theorem pStageR_range (rd : Tok → Option Int) (ts : List Tok) (s : Stage) (rest : List Tok) (hts : AllOK ts)
    (h : pStageR rd ts = some (s, rest)) : stageRaw s = true ∧ AllOK rest := by
  unfold pStageR at h
  split at h
  · rename_i w name c r
    split at h
    · have hn : isIdent name = true := by simpa [tokOK] using (allOK_cons (allOK_tail hts)).1
      exact pStageBodyR_range rd _ name r s rest hn (allOK_tail (allOK_tail (allOK_tail hts))) h
    · cases h
  · cases h

/-- **Range of the stage reader with the real reading of `mem_gb`**: whatever `parseStage32`
returns for ANY source text is in `stageRaw` -/
theorem parseStage32_range (src : Bytes) (s : Stage) (h : parseStage32 src = some s) : stageRaw s = true := by
  unfold parseStage32 at h
  cases hl : lexAll src with
  | none => simp [hl] at h
  | some ts =>
    simp only [hl, Option.bind_some] at h
    have hts : AllOK ts := List.all_eq_true.mpr (range_lexAll src ts hl)
    unfold pStageAllR at h
    split at h
    · rename_i s' hp
      injection h with h; subst h
      exact (pStageR_range _ ts _ [] hts hp).1
    · cases h

/-! ## token layer -/

theorem pStageBodyR_toks (rd : Tok → Option Int) (s : Stage) (hw : wfStage s = true)
    (hrd : ∀ r, s.res = some r → ReadsBack rd r) (f : Nat) (rest : List Tok)
    (hf : (toksParams s.ins).length + (toksParams s.outs).length + (toksParams s.chunkIns).length +
      (toksParams s.chunkOuts).length < f)
    (hr : stageEnd rest = true) :
    pStageBodyR rd f s.id (toksParams s.ins ++ toksParams s.outs ++ toksSrc s.lang s.path s.args ++
      toksSplit s ++ toksTail s.res s.retain ++ rest) = some (s, rest) := by
  obtain ⟨hr1, hr2, hr3⟩ := stageEnd_notId hr
  obtain ⟨_, h2, h3, h4, h5, _, _, _, _, _, h11, h12, _⟩ := wfStage_parts hw
  have hin : sIn ≠ sSrc := by decide
  have hout : sOut ≠ sSrc := by decide
  have e0 : toksParams s.ins ++ toksParams s.outs ++ toksSrc s.lang s.path s.args ++
      toksSplit s ++ toksTail s.res s.retain ++ rest =
      toksParams s.ins ++ (toksParams s.outs ++ (toksSrc s.lang s.path s.args ++
        (toksSplit s ++ (toksTail s.res s.retain ++ rest)))) := by
    simp only [List.append_assoc]
  have a1 := pInParams_toks s.ins f (toksParams s.outs ++ (toksSrc s.lang s.path s.args ++
      (toksSplit s ++ (toksTail s.res s.retain ++ rest)))) h2 h3 (by omega)
    (headKw_in_outs s.outs _ h5 (headKw_src sIn hin _ _ _ _))
  have a2 := pOutParams_toks s.outs f (toksSrc s.lang s.path s.args ++
      (toksSplit s ++ (toksTail s.res s.retain ++ rest))) h4 h5 (by omega) (headKw_src sOut hout _ _ _ _)
  have a3 := pSrc_toks s.lang s.path s.args h11 (toksSplit s ++ (toksTail s.res s.retain ++ rest))
  obtain ⟨r, er, a4⟩ := pSplit_toks s hw f rest (by omega) hr1
  have a5 := Martian.FormatRes.pTailR_toks rd s.res s.retain h12 hrd rest hr2 hr3
  rw [er] at a5
  rw [e0]
  simp only [pStageBodyR, a1, a2, a3, a4, a5]

theorem pStageR_toks (rd : Tok → Option Int) (s : Stage) (hw : wfStage s = true)
    (hrd : ∀ r, s.res = some r → ReadsBack rd r) (rest : List Tok) (hr : stageEnd rest = true) :
    pStageR rd (toksStage s ++ rest) = some (s, rest) := by
  have e : toksStage s ++ rest = .reserved sStage :: .id s.id :: tLP ::
      (toksParams s.ins ++ toksParams s.outs ++ toksSrc s.lang s.path s.args ++ toksSplit s ++
        toksTail s.res s.retain ++ rest) := by
    simp only [toksStage, List.cons_append, List.append_assoc]
  rw [e]
  have hlen : (toksParams s.ins).length + (toksParams s.outs).length + (toksParams s.chunkIns).length +
      (toksParams s.chunkOuts).length < (Tok.reserved sStage :: .id s.id :: tLP ::
        (toksParams s.ins ++ toksParams s.outs ++ toksSrc s.lang s.path s.args ++ toksSplit s ++
          toksTail s.res s.retain ++ rest)).length + 1 := by
    obtain ⟨_, _, _, _, _, _, _, _, _, h10, _, _, _⟩ := wfStage_parts hw
    cases hs : s.split with
    | false =>
      obtain ⟨e1, e2⟩ := h10 hs
      simp only [List.length_cons, List.length_append, e1, e2, toksParams, List.length_nil]
      omega
    | true =>
      simp only [List.length_cons, List.length_append, toksSplit, hs, ↓reduceIte]
      omega
  have h := pStageBodyR_toks rd s hw hrd _ rest hlen hr
  simp only [pStageR, tLP, and_self, ↓reduceIte]
  exact h

theorem pStageAllR_toks (rd : Tok → Option Int) (s : Stage) (hw : wfStage s = true)
    (hrd : ∀ r, s.res = some r → ReadsBack rd r) : pStageAllR rd (toksStage s) = some s := by
  have h := pStageR_toks rd s hw hrd [] rfl
  rw [List.append_nil] at h
  simp only [pStageAllR, h]

theorem readsBack32 (s : Stage) (hm : stageMB32Valid s = true) :
    ∀ r, s.res = some r → ReadsBack readGB32Tok r := by
  intro r hr
  simp only [stageMB32Valid, hr, Bool.and_eq_true] at hm
  constructor
  · intro mb h
    have := hm.1
    simp only [h, Martian.FormatRes.wfMB] at this
    exact Martian.FormatRes.gbRoundTrips_tok this
  · intro mb h
    have := hm.2
    simp only [h, Martian.FormatRes.wfMB] at this
    exact Martian.FormatRes.gbRoundTrips_tok this

/-- the resource conjunct of `wfStage` IS `stageMB32Valid` (`wfMB` is the 256 GB bound) -/
theorem stageMB32Valid_of_wf (s : Stage) (hw : wfStage s = true) : stageMB32Valid s = true := by
  obtain ⟨_, _, _, _, _, _, _, _, _, _, _, h12, _⟩ := wfStage_parts hw
  unfold stageMB32Valid
  cases hr : s.res with
  | none => rfl
  | some r =>
    rw [hr] at h12
    simp only [Martian.FormatRes.wfRes, Bool.and_eq_true] at h12
    simp only [Bool.and_eq_true]
    exact ⟨h12.1.1.1, h12.1.1.2⟩

/-- **Round trip with the REAL reading of `mem_gb` / `vmem_gb`**, below 256 GB -/
theorem parseStage32_fmtStage (s : Stage) (hw : wfStage s = true) (hm : stageMB32Valid s = true) :
    parseStage32 (fmtStage s) = some s := by
  simp only [parseStage32, lexAll_fmtStage s hw, Option.bind_some]
  exact pStageAllR_toks readGB32Tok s hw (readsBack32 s hm)

/-! ## text side -/

theorem parseStage32H_inv {h : Bytes → Bytes} {src : Bytes} {s : Stage} (hp : parseStage32H h src = some s) :
    ∃ s0, parseStage32 src = some s0 ∧ s = canonStage h s0 := by
  unfold parseStage32H at hp
  cases h0 : parseStage32 src with
  | none => simp [h0] at hp
  | some s0 =>
    simp only [h0, Option.map_some, Option.some.injEq] at hp
    exact ⟨s0, rfl, hp.symm⟩

theorem stageMBValid_of_32 (s : Stage) (hm : stageMB32Valid s = true) : stageMBValid s = true := by
  unfold stageMB32Valid at hm
  unfold stageMBValid
  cases hr : s.res with
  | none => rfl
  | some r =>
    simp only [hr, Bool.and_eq_true] at hm ⊢
    constructor
    · cases hmem : r.mem with
      | none => rfl
      | some mb =>
        have := hm.1
        simp only [hmem, Martian.FormatRes.wfMB] at this
        simp only [mbInt64, decide_eq_true_eq]; exact Martian.FormatRes.gbRoundTrips_lt63 this
    · cases hv : r.vmem with
      | none => rfl
      | some mb =>
        have := hm.2
        simp only [hv, Martian.FormatRes.wfMB] at this
        simp only [mbInt64, decide_eq_true_eq]; exact Martian.FormatRes.gbRoundTrips_lt63 this

theorem stageMB32Valid_canon (h : Bytes → Bytes) (s : Stage) :
    stageMB32Valid (canonStage h s) = stageMB32Valid s := by
  obtain ⟨id, ins, outs, lang, path, args, split, ci, co, res, ret⟩ := s
  cases res <;> rfl

/-- **The real parser produces well-formed stages**, up to F6b and resources of 256 GB and more -/
theorem parseStage32H_wf (h : Bytes → Bytes) (hh : HOK h) (src : Bytes) (s : Stage)
    (hp : parseStage32H h src = some s) (hs : stageStrsValid s = true) (hm : stageMB32Valid s = true) :
    wfStage s = true := by
  obtain ⟨s0, h0, rfl⟩ := parseStage32H_inv hp
  exact wfStage_canon h hh s0 (parseStage32_range src s0 h0) hs hm

/-- **Formatting preserves every stage text the real parser accepts**, up to F6b and F29 -/
theorem parseStage32H_fmtStage (h : Bytes → Bytes) (hh : HOK h) (src : Bytes) (s : Stage)
    (hp : parseStage32H h src = some s) (hs : stageStrsValid s = true) (hm : stageMB32Valid s = true) :
    parseStage32H h (fmtStage s) = some s ∧
    ∀ s', parseStage32H h (fmtStage s) = some s' → fmtStage s' = fmtStage s := by
  obtain ⟨s0, h0, rfl⟩ := parseStage32H_inv hp
  have hr := parseStage32_range src s0 h0
  have hw := wfStage_canon h hh s0 hr hs hm
  have h1 : parseStage32H h (fmtStage (canonStage h s0)) = some (canonStage h s0) := by
    simp only [parseStage32H, parseStage32_fmtStage _ hw hm, Option.map_some, canonStage_fixed h hh s0 hr]
  refine ⟨h1, ?_⟩
  intro s' h2
  rw [h1] at h2
  injection h2 with h2
  rw [h2]

end Martian.FormatStage
