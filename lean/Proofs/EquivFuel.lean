/-
C15 — fuel adequacy: a successful unfolding with explicit fuel exhaustion is the
meaning at every larger fuel.
-/
import Martian.EquivMeaning
import Proofs.Equiv

namespace Martian.Equiv
open Martian.SortKeys List

theorem seqO_map_sound {α β : Type} (fO : α → Option β) (f : α → β) :
    ∀ (l : List α) (r : List β), (∀ a ∈ l, ∀ v, fO a = some v → f a = v) →
      seqO (l.map fO) = some r → l.map f = r := by
  intro l
  induction l with
  | nil => intro r _ h; simp [seqO] at h; simp [h]
  | cons a t ih =>
    intro r hf h
    simp only [map_cons] at h
    cases ha : fO a with
    | none => simp [seqO, ha] at h
    | some v =>
      simp only [ha, seqO, Option.map_eq_some_iff] at h
      obtain ⟨rest, hrest, rfl⟩ := h
      simp [hf a (mem_cons_self ..) v ha, ih rest (fun b hb => hf b (mem_cons_of_mem _ hb)) hrest]

theorem seqO_map_mono {α β : Type} (fO fO' : α → Option β) :
    ∀ (l : List α) (r : List β), (∀ a ∈ l, ∀ v, fO a = some v → fO' a = some v) →
      seqO (l.map fO) = some r → seqO (l.map fO') = some r := by
  intro l
  induction l with
  | nil => intro r _ h; simpa using h
  | cons a t ih =>
    intro r hf h
    simp only [map_cons] at h ⊢
    cases ha : fO a with
    | none => simp [seqO, ha] at h
    | some v =>
      simp only [ha, seqO, Option.map_eq_some_iff] at h
      obtain ⟨rest, hrest, rfl⟩ := h
      simp only [hf a (mem_cons_self ..) v ha, seqO, Option.map_eq_some_iff]
      exact ⟨rest, ih rest (fun b hb => hf b (mem_cons_of_mem _ hb)) hrest, rfl⟩

theorem semCallableO_sound (recO : Call → Option Sem) (rec : Call → Sem)
    (h : ∀ c s, recO c = some s → rec c = s) (x : Callable) (s : Sem)
    (hs : semCallableO recO x = some s) : semCallable rec x = s := by
  cases x with
  | stage sp i o => simp only [semCallableO, Option.some.injEq] at hs; simpa [semCallable] using hs
  | pipeline i o cs r =>
    simp only [semCallableO, Option.map_eq_some_iff] at hs
    obtain ⟨l, hl, rfl⟩ := hs
    have := seqO_map_sound (fun p : Key × Call => (recO p.2).map fun s => (p.1, s)) (fun p => (p.1, rec p.2))
      (keyed cs) l (by
        intro a _ v hv
        simp only [Option.map_eq_some_iff] at hv
        obtain ⟨s, hs, rfl⟩ := hv
        simp [h a.2 s hs]) hl
    simp [semCallable, this]

theorem semCallableO_mono (recO recO' : Call → Option Sem)
    (h : ∀ c s, recO c = some s → recO' c = some s) (x : Callable) (s : Sem)
    (hs : semCallableO recO x = some s) : semCallableO recO' x = some s := by
  cases x with
  | stage sp i o => simpa [semCallableO] using hs
  | pipeline i o cs r =>
    simp only [semCallableO, Option.map_eq_some_iff] at hs ⊢
    obtain ⟨l, hl, rfl⟩ := hs
    refine ⟨l, ?_, rfl⟩
    apply seqO_map_mono _ _ (keyed cs) l _ hl
    intro a _ v hv
    simp only [Option.map_eq_some_iff] at hv ⊢
    obtain ⟨s, hs, rfl⟩ := hv
    exact ⟨s, h a.2 s hs, rfl⟩

theorem semCallO_sound : ∀ (n : Nat) (T : Tab) (c : Call) (s : Sem), semCallO n T c = some s → semCall n T c = s
  | 0, _, _, _, h => by simp [semCallO] at h
  | n + 1, T, c, s, h => by
    simp only [semCallO, Option.map_eq_some_iff] at h
    obtain ⟨callee, hc, rfl⟩ := h
    simp only [semCall]
    congr 1
    cases hl : lookupL c.decId T with
    | none => simp only [hl, Option.some.injEq] at hc; simpa using hc
    | some x =>
      simp only [hl] at hc ⊢
      exact semCallableO_sound _ _ (fun c' s' hs' => semCallO_sound n T c' s' hs') x callee hc

theorem semCallO_mono : ∀ (n : Nat) (T : Tab) (c : Call) (s : Sem), semCallO n T c = some s → semCallO (n + 1) T c = some s
  | 0, _, _, _, h => by simp [semCallO] at h
  | n + 1, T, c, s, h => by
    rw [semCallO] at h ⊢
    simp only [Option.map_eq_some_iff] at h ⊢
    obtain ⟨callee, hc, rfl⟩ := h
    refine ⟨callee, ?_, rfl⟩
    cases hl : lookupL c.decId T with
    | none => simpa [hl] using hc
    | some x =>
      simp only [hl] at hc ⊢
      exact semCallableO_mono _ _ (fun c' s' hs' => semCallO_mono n T c' s' hs') x callee hc

theorem semCall_stable (n k : Nat) (T : Tab) (c : Call) (s : Sem) (h : semCallO n T c = some s) :
    semCall (n + k) T c = s := by
  have : semCallO (n + k) T c = some s := by
    induction k with
    | zero => exact h
    | succ k ih => exact semCallO_mono (n + k) T c s ih
  exact semCallO_sound (n + k) T c s this

end Martian.Equiv
