import Martian.FormatExpText
import Proofs.FormatExpParse

/-!
C09, accepted texts: the map the reader builds (`mkMap`, Go's `m[k] = v` in
source order, printed through `sort.Strings`) has strictly ascending keys and
only entries of the source, WHATEVER the order and multiplicity of the keys in
the source.  `bytesLt` is a strict total order.

Core Lean only.
-/

namespace Martian.FormatExp
open Martian.Lexer (Bytes)

theorem bytesLt_cons_iff {x y : UInt8} {a b : Bytes} :
    bytesLt (x :: a) (y :: b) = true ↔ x < y ∨ (x = y ∧ bytesLt a b = true) := by
  simp only [bytesLt, Bool.or_eq_true, decide_eq_true_eq, Bool.and_eq_true, beq_iff_eq]

/-- trichotomy -/
theorem bytesLt_total : ∀ a b : Bytes, bytesLt a b = true ∨ a = b ∨ bytesLt b a = true
  | [], [] => Or.inr (Or.inl rfl)
  | [], _ :: _ => Or.inl rfl
  | _ :: _, [] => Or.inr (Or.inr rfl)
  | x :: a, y :: b => by
    by_cases hxy : x = y
    · subst hxy
      rcases bytesLt_total a b with h | h | h
      · exact Or.inl (bytesLt_cons_iff.mpr (Or.inr ⟨rfl, h⟩))
      · exact Or.inr (Or.inl (by rw [h]))
      · exact Or.inr (Or.inr (bytesLt_cons_iff.mpr (Or.inr ⟨rfl, h⟩)))
    · rcases UInt8.lt_or_lt_of_ne hxy with h | h
      · exact Or.inl (bytesLt_cons_iff.mpr (Or.inl h))
      · exact Or.inr (Or.inr (bytesLt_cons_iff.mpr (Or.inl h)))

theorem bytesLt_trans : ∀ a b c : Bytes, bytesLt a b = true → bytesLt b c = true → bytesLt a c = true
  | _, b, [], _, h2 => by cases b <;> simp [bytesLt] at h2
  | a, [], _ :: _, h1, _ => by cases a <;> simp [bytesLt] at h1
  | [], _ :: _, _ :: _, _, _ => rfl
  | x :: a, y :: b, z :: c, h1, h2 => by
    rw [bytesLt_cons_iff] at h1 h2 ⊢
    rcases h1 with h1 | ⟨rfl, h1⟩
    · rcases h2 with h2 | ⟨rfl, h2⟩
      · exact Or.inl (UInt8.lt_trans h1 h2)
      · exact Or.inl h1
    · rcases h2 with h2 | ⟨rfl, h2⟩
      · exact Or.inl h2
      · exact Or.inr ⟨rfl, bytesLt_trans a b c h1 h2⟩

/-! ## insertKV -/

theorem mem_insertKV (k : Bytes) (v : Exp) (x : Bytes × Exp) : ∀ m : List (Bytes × Exp),
    x ∈ insertKV k v m → x = (k, v) ∨ x ∈ m
  | [], h => by simp [insertKV] at h; exact Or.inl h
  | (k', v') :: r, h => by
    unfold insertKV at h
    split at h
    · simp only [List.mem_cons] at h ⊢
      exact h
    · split at h
      · simp only [List.mem_cons] at h ⊢
        rcases h with h | h
        · exact Or.inl h
        · exact Or.inr (Or.inr h)
      · simp only [List.mem_cons] at h ⊢
        rcases h with h | h
        · exact Or.inr (Or.inl h)
        · rcases mem_insertKV k v x r h with h | h
          · exact Or.inl h
          · exact Or.inr (Or.inr h)

theorem sortedKeys_cons_iff {k : Bytes} {v : Exp} {r : List (Bytes × Exp)} :
    sortedKeys ((k, v) :: r) = true ↔ (∀ x ∈ r, bytesLt k x.1 = true) ∧ sortedKeys r = true := by
  simp only [sortedKeys, Bool.and_eq_true, List.all_eq_true]

theorem sortedKeys_insertKV (k : Bytes) (v : Exp) : ∀ m : List (Bytes × Exp),
    sortedKeys m = true → sortedKeys (insertKV k v m) = true
  | [], _ => by simp [insertKV, sortedKeys]
  | (k', v') :: r, hs => by
    rw [sortedKeys_cons_iff] at hs
    unfold insertKV
    split
    · rename_i hlt
      rw [sortedKeys_cons_iff]
      refine ⟨?_, sortedKeys_cons_iff.mpr hs⟩
      intro x hx
      simp only [List.mem_cons] at hx
      rcases hx with rfl | hx
      · exact hlt
      · exact bytesLt_trans _ _ _ hlt (hs.1 x hx)
    · rename_i hnlt
      split
      · rename_i heq
        subst heq
        exact sortedKeys_cons_iff.mpr hs
      · rename_i hne
        rw [sortedKeys_cons_iff]
        refine ⟨?_, sortedKeys_insertKV k v r hs.2⟩
        intro x hx
        rcases mem_insertKV k v x r hx with rfl | hx
        · rcases bytesLt_total k k' with h | h | h
          · exact absurd h hnlt
          · exact absurd h hne
          · exact h
        · exact hs.1 x hx

/-! ## mkMap -/

theorem foldl_insert_sorted : ∀ (kvs acc : List (Bytes × Exp)), sortedKeys acc = true →
    sortedKeys (kvs.foldl (fun m kv => insertKV kv.1 kv.2 m) acc) = true
  | [], _, h => h
  | kv :: r, acc, h => by
    simp only [List.foldl_cons]
    exact foldl_insert_sorted r _ (sortedKeys_insertKV kv.1 kv.2 acc h)

theorem foldl_insert_mem (x : Bytes × Exp) : ∀ (kvs acc : List (Bytes × Exp)),
    x ∈ kvs.foldl (fun m kv => insertKV kv.1 kv.2 m) acc → x ∈ acc ∨ x ∈ kvs
  | [], _, h => Or.inl h
  | kv :: r, acc, h => by
    simp only [List.foldl_cons] at h
    rcases foldl_insert_mem x r _ h with h | h
    · rcases mem_insertKV kv.1 kv.2 x acc h with h | h
      · exact Or.inr (by rw [h]; simp)
      · exact Or.inl h
    · exact Or.inr (by simp [h])

/-- the keys of a map as read are strictly ascending, whatever the source order -/
theorem sortedKeys_mkMap (kvs : List (Bytes × Exp)) : sortedKeys (mkMap kvs) = true :=
  foldl_insert_sorted kvs [] rfl

/-- and every entry is an entry of the source -/
theorem mem_mkMap {x : Bytes × Exp} {kvs : List (Bytes × Exp)} (h : x ∈ mkMap kvs) : x ∈ kvs := by
  rcases foldl_insert_mem x kvs [] h with h | h
  · cases h
  · exact h

/-! ## `wfRawKV` is a statement about the entries -/

theorem wfRawKV_iff (s : Bool) : ∀ kvs : List (Bytes × Exp),
    wfRawKV s kvs = true ↔ ∀ x ∈ kvs, (!s || isIdent x.1) = true ∧ wfRaw x.2 = true
  | [] => by simp [wfRawKV]
  | (k, v) :: r => by
    rw [wfRawKV]
    simp only [Bool.and_eq_true, wfRawKV_iff s r, List.mem_cons, forall_eq_or_imp]

theorem wfRawKV_mkMap (s : Bool) (kvs : List (Bytes × Exp)) (h : wfRawKV s kvs = true) :
    wfRawKV s (mkMap kvs) = true := by
  rw [wfRawKV_iff] at h ⊢
  intro x hx
  exact h x (mem_mkMap hx)

end Martian.FormatExp
