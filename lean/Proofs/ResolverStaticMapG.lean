/-
C01 — the refinement "two-phase resolver = den" with map calls of STAGES over collections
whose SIZE IS KNOWN AFTER RESOLUTION: array and typed-map literals, written at the call or
handed down through pipeline inputs (`split self.xs` where the enclosing call binds `xs`
to a literal).  Generalises Proofs/ResolverStaticMap.lean (array literals at the call):
the static shape of every map call instance is now a decidable condition on the static
phase itself (`staticProgramOk`), and den's index set is recovered from the value by
inverting the narrowing (`narrow_arr_inv`, `narrow_obj_inv`).
-/
import Proofs.ResolverStaticMap

namespace Proofs.ResolverStatic
open Martian.Dataflow Martian.Resolver Martian.ResolverForks Martian.ResolverStatic Proofs.Dataflow
  Proofs.ResolverForks

/-! ## inversion of narrowing, shapes of literals -/

theorem narrow_arr_inv {st : StructTable} {F : Nat} (hF : NarrowFix st F) (b : String) (m a : Nat)
    (v : J) (ys : List J) (h : narrow st F ⟨b, m, a + 1⟩ v = .arr ys) :
    ∃ xs, v = .arr xs ∧ xs.length = ys.length := by
  cases v with
  | arr xs =>
    rw [narrow_arr hF] at h
    simp only [J.arr.injEq] at h
    exact ⟨xs, rfl, by rw [← h]; simp⟩
  | null => rw [narrow_null hF] at h; cases h
  | dnull => rw [narrow_dnull hF] at h; cases h
  | atom s =>
    have : narrow st F ⟨b, m, a + 1⟩ (.atom s) = .null := by rw [hF]; simp [atBase, mapArr]
    rw [this] at h; cases h
  | obj kvs =>
    have : narrow st F ⟨b, m, a + 1⟩ (.obj kvs) = .null := by rw [hF]; simp [atBase, mapArr]
    rw [this] at h; cases h

theorem narrow_obj_inv {st : StructTable} {F : Nat} (hF : NarrowFix st F) (b : String) (k : Nat)
    (v : J) (L : List (String × J)) (h : narrow st F ⟨b, k + 1, 0⟩ v = .obj L) :
    ∃ kvs, v = .obj kvs ∧ kvs.map (·.1) = L.map (·.1) := by
  cases v with
  | obj kvs =>
    rw [narrow_obj hF] at h
    simp only [J.obj.injEq] at h
    exact ⟨kvs, rfl, by rw [← h]; simp [Function.comp_def]⟩
  | null => rw [narrow_null hF] at h; cases h
  | dnull => rw [narrow_dnull hF] at h; cases h
  | atom s =>
    have : narrow st F ⟨b, k + 1, 0⟩ (.atom s) = .null := by rw [hF]; simp [atBase, mapArr, mapObj]
    rw [this] at h; cases h
  | arr xs =>
    have : narrow st F ⟨b, k + 1, 0⟩ (.arr xs) = .null := by rw [hF]; simp [atBase, mapArr, mapObj]
    rw [this] at h; cases h

theorem evalRTList_length (st : StructTable) (F : Nat) (ρ : Store) (f : ForkAssign) (t : Ty) :
    ∀ (es : List RExp), (evalRTList st F ρ f t es).length = es.length
  | [] => by simp [evalRTList]
  | e :: es => by simp [evalRTList, evalRTList_length st F ρ f t es]

theorem evalRTFields_keys (st : StructTable) (F : Nat) (ρ : Store) (f : ForkAssign) (t : Ty) :
    ∀ (kvs : List (String × RExp)), (evalRTFields st F ρ f t kvs).map (·.1) = kvs.map (·.1)
  | [] => by simp [evalRTFields]
  | (k, e) :: es => by simp [evalRTFields, evalRTFields_keys st F ρ f t es]

theorem filterRFields_keys (st : StructTable) (t : Ty) :
    ∀ (kvs : List (String × RExp)), (filterRFields st t kvs).map (·.1) = kvs.map (·.1)
  | [] => by simp [filterRFields]
  | (k, e) :: es => by simp [filterRFields, filterRFields_keys st t es]

theorem evalRTFields_map (st : StructTable) (F : Nat) (ρ : Store) (f : ForkAssign) (t : Ty)
    {α : Type} (key : α → String) (g : α → RExp) : ∀ (l : List α),
    evalRTFields st F ρ f t (l.map fun a => (key a, g a)) = l.map fun a => (key a, evalRT st F ρ f t (g a))
  | [] => by simp [evalRTFields]
  | a :: l => by simp [evalRTFields, evalRTFields_map st F ρ f t key g l]

theorem HasTyRFields_map (st : StructTable) (t : Ty) {α : Type} (key : α → String) (g : α → RExp) :
    ∀ (l : List α), (∀ a ∈ l, HasTyR st t (g a)) → HasTyRFields st t (l.map fun a => (key a, g a))
  | [], _ => by simp [HasTyRFields]
  | a :: l, h => by
    simp only [List.map_cons, HasTyRFields]
    exact ⟨h a (by simp), HasTyRFields_map st t key g l fun x hx => h x (by simp [hx])⟩

/-- the shape of a resolved split source whose filtered form has a static index set, given its
typing at the collection type the call's mode `isMap` lifts the parameter type to -/
theorem split_shape (st : StructTable) (isMap : Bool) (pty : Ty) (r : RExp) (ixs : Bool × List Idx)
    (hty : HasTyR st (liftSplitTy isMap pty) r)
    (hs : staticIndices (filterR st (liftSplitTy (isMapLit r) pty) r) = some ixs) :
    (isMap = false ∧ ∃ es, r = .arr es ∧ ixs = (false, (List.range es.length).map .i)) ∨
    (isMap = true ∧ ∃ kvs, r = .map kvs ∧ ixs = (true, kvs.map fun kv => .k kv.1)) := by
  cases r with
  | arr es =>
    left
    have hm : isMap = false := by
      cases isMap with
      | false => rfl
      | true => simp [liftSplitTy, HasTyR] at hty
    refine ⟨hm, es, rfl, ?_⟩
    simp only [isMapLit, liftSplitTy, Bool.false_eq_true, if_false, filterR] at hs
    split at hs <;> simp [staticIndices, filterRList_length] at hs <;> exact hs.symm
  | map kvs =>
    right
    have hm : isMap = true := by
      cases isMap with
      | true => rfl
      | false => simp [liftSplitTy, HasTyR] at hty
    refine ⟨hm, kvs, rfl, ?_⟩
    simp only [isMapLit, liftSplitTy, if_true, filterR] at hs
    have c1 : (((0 : Nat) == 0) && (pty.arrDim + 1 == 0)) = false := by simp
    simp only [c1, Bool.false_eq_true, if_false] at hs
    split at hs
    · simp only [staticIndices, Option.some.injEq] at hs
      rw [← hs]
      have := filterRFields_keys st ⟨pty.base, 0, pty.arrDim + 1 - 1⟩ kvs
      simp only [Prod.mk.injEq, true_and]
      have e : ∀ (l : List (String × RExp)), (l.map fun kv => Idx.k kv.1) = (l.map (·.1)).map Idx.k := by
        intro l; simp
      rw [e, e, this]
    · simp only [staticIndices, Option.some.injEq] at hs
      exact hs.symm
  | lit j => simp [isMapLit, liftSplitTy, filterR, staticIndices] at hs
  | ref n sty p => simp [isMapLit, liftSplitTy, filterR, staticIndices] at hs
  | struct kvs =>
    exfalso
    simp only [isMapLit, liftSplitTy, Bool.false_eq_true, if_false, filterR] at hs
    have c1 : (pty.arrDim + 1 == 0 && pty.mapDim == 0) = false := by simp
    have c2 : (isStructBase st { pty with arrDim := pty.arrDim + 1 } && pty.arrDim + 1 == 0) = false := by simp
    simp [c1, c2, staticIndices] at hs
  | split c m e => simp [isMapLit, liftSplitTy, filterR, staticIndices] at hs
  | merge c m e => simp [isMapLit, liftSplitTy, filterR, staticIndices] at hs
  | disabled d v => simp [isMapLit, liftSplitTy, filterR, staticIndices] at hs
  | fork c ix e => simp [isMapLit, liftSplitTy, filterR, staticIndices] at hs

/-! ## well-typed programs with map calls of stages -/

/-- a map call of a STAGE without `disabled`, in array (`isMap = false`) or typed-map mode: every
split binding is the binding of a declared parameter; every binding is assignable to its
parameter (a split binding: at the collection type of the parameter).  The SIZES are not
part of the typing: they are checked on the static phase (`staticProgramOk`). -/
def MappedOkG (st : StructTable) (P : Program) (sT cT : String → Ty) (c : Call) (isMap : Bool) : Prop :=
  c.mapped = true ∧ c.disabled = none ∧
  (∃ sins souts, P.callables.lookup c.callee = some (.stage sins souts)) ∧
  (∃ b ∈ c.binds, b.split = true) ∧
  (∀ b ∈ c.binds, b.split = true →
    ∃ p ∈ P.insOf c.callee, c.binds.find? (fun b' => b'.param == p.name) = some b) ∧
  (isMap = true → ∀ p ∈ P.insOf c.callee, ∀ b, c.binds.find? (fun b => b.param == p.name) = some b →
    b.split = true → p.ty.mapDim = 0) ∧
  ∀ p ∈ P.insOf c.callee, ∀ b, c.binds.find? (fun b => b.param == p.name) = some b →
    HasTy st sT cT (if b.split then liftSplitTy isMap p.ty else p.ty) b.exp

/-- the call is well typed and later bindings see `CALL` at type `ty` -/
def CallOkG (st : StructTable) (P : Program) (sT cT : String → Ty) (c : Call) (ty : Ty) : Prop :=
  (CallOk st P.insOf sT cT c ∧ (∀ b ∈ c.binds, b.split = false) ∧ ty = ⟨c.callee, 0, 0⟩) ∨
  (∃ isMap, MappedOkG st P sT cT c isMap ∧ ty = if isMap then ⟨c.callee, 1, 0⟩ else ⟨c.callee, 0, 1⟩)

/-- the calls of a body, typed in order; `L'` = the types of all calls afterwards -/
def CallsOkG (st : StructTable) (P : Program) (sT : String → Ty) :
    List (String × Ty) → List Call → List (String × Ty) → Prop
  | L, [], L' => L' = L
  | L, c :: cs, L' => ∃ ty, CallOkG st P sT (callTyOf L) c ty ∧ CallsOkG st P sT (L ++ [(c.id, ty)]) cs L'

def PipelineOkG (st : StructTable) (P : Program) (pins outs : List Param)
    (calls : List Call) (ret : List (String × Exp)) : Prop :=
  ∃ L, CallsOkG st P (selfTyOf pins) [] calls L ∧
    ∀ p ∈ outs, ∀ e, ret.lookup p.name = some e → HasTy st (selfTyOf pins) (callTyOf L) p.ty e

structure WellTypedG (P : Program) : Prop where
  structs : StructsOk P.table
  outsOf : ∀ name c, P.callables.lookup name = some c → P.table.lookup name = some c.outs
  pipelines : ∀ name pins outs calls ret,
    P.callables.lookup name = some (.pipeline pins outs calls ret) →
      PipelineOkG P.table P pins outs calls ret
  top : CallOk P.table P.insOf (selfTyOf []) (callTyOf []) P.top ∧ ∀ b ∈ P.top.binds, b.split = false

/-! ## den on a map call whose split values all have the index set `ixs` -/

theorem zip_map_self {α β γ : Type} (l : List α) (g : α → β) (h : α × β → γ) :
    (l.zip (l.map g)).map h = l.map fun a => h (a, g a) := by
  induction l with
  | nil => rfl
  | cons a l ih => simp [ih]

theorem evalCall_mappedG (st : StructTable) (F : Nat) (insOf : String → List Param) (run : Runner)
    (path : List String) (env : Env) (c : Call) (md : Mode) (ixs : List Idx)
    (hm : c.mapped = true) (hd : c.disabled = none) (hex : ∃ b ∈ c.binds, b.split = true)
    (hidx : ∀ v ∈ splitVals st env c, indicesOf v = ixs) (hne : ixs ≠ [])
    (hmode : callMode st env c = md) :
    evalCall st F insOf run path [] env c =
      (liftTy c.callee md,
       collect md ixs (ixs.map fun ix =>
          (run c.callee (path ++ [c.id]) [(c.id, ix)]
            (mkArgs st F (argVals st env (insOf c.callee) c) (some ix))).1),
       ixs.flatMap fun ix =>
          (run c.callee (path ++ [c.id]) [(c.id, ix)]
            (mkArgs st F (argVals st env (insOf c.callee) c) (some ix))).2) := by
  obtain ⟨b0, hb0, hs0⟩ := hex
  have hnev : splitVals st env c ≠ [] := by
    intro e
    have : eval st env b0.exp ∈ splitVals st env c := by
      simp only [splitVals, hd, List.append_nil, List.mem_map, List.mem_filter]
      exact ⟨b0, ⟨hb0, hs0⟩, rfl⟩
    rw [e] at this; cases this
  have hci : callIndices st env c = ixs := by
    unfold callIndices
    cases hsv : splitVals st env c with
    | nil => exact absurd hsv hnev
    | cons v r => exact hidx v (by rw [hsv]; simp)
  have hag : splitsAgree st env c = true := by
    unfold splitsAgree
    cases hsv : splitVals st env c with
    | nil => rfl
    | cons v r =>
      simp only [List.all_eq_true, beq_iff_eq]
      intro w hw
      rw [hidx w (by rw [hsv]; simp [hw]), hidx v (by rw [hsv]; simp)]
  have hnonempty : ixs.isEmpty = false := by
    cases ixs with
    | nil => exact absurd rfl hne
    | cons a l => rfl
  have hnull : ∀ ix, Martian.Dataflow.isTrue (elemAt .null ix) = false := by
    intro ix; cases ix <;> rfl
  simp only [evalCall, hd, hm, hag, hci, hmode, hnonempty, Bool.not_true, Bool.false_eq_true, if_false,
    hnull, List.map_map, Function.comp_def, List.flatMap_map, List.nil_append]

section mapped
variable (st : StructTable) (hst : StructsOk st) (F : Nat) (hF : NarrowFix st F) (ρ : Store)
include hst hF

/-- what the static shape check and the typing say about a map call instance -/
theorem mapped_facts (P : Program) (env : Env) (self sib : RBMap)
    (hrel : EnvRel st F ρ FsT env self sib) (c : Call) (isMap : Bool)
    (hc : MappedOkG st P env.selfTy env.callTy c isMap)
    (hshape : mappedShapeOk st self sib (P.insOf c.callee) c = true) :
    ∃ ixs : List Idx, callIndicesR st self sib (P.insOf c.callee) c = some (isMap, ixs) ∧ ixs ≠ [] ∧
      (∀ p ∈ P.insOf c.callee, ∀ b, c.binds.find? (fun b => b.param == p.name) = some b → b.split = true →
        isMapLit (resolveRefs self sib b.exp) = isMap ∧
        ((isMap = false ∧ ∃ es, resolveRefs self sib b.exp = .arr es ∧ ixs = (List.range es.length).map .i) ∨
         (isMap = true ∧ ∃ kvs, resolveRefs self sib b.exp = .map kvs ∧ ixs = kvs.map fun kv => .k kv.1))) := by
  obtain ⟨_, _, _, ⟨b0, hb0, hs0⟩, hpar, _, hty⟩ := hc
  unfold mappedShapeOk at hshape
  cases hci : callIndicesR st self sib (P.insOf c.callee) c with
  | none => simp [hci] at hshape
  | some ixs =>
    simp only [hci, Bool.and_eq_true, Bool.not_eq_true', splitsStaticB, List.all_eq_true] at hshape
    obtain ⟨hne, hall⟩ := hshape
    have per : ∀ p ∈ P.insOf c.callee, ∀ b, c.binds.find? (fun b => b.param == p.name) = some b →
        b.split = true →
        (isMap = false ∧ ∃ es, resolveRefs self sib b.exp = .arr es ∧ ixs = (false, (List.range es.length).map .i)) ∨
        (isMap = true ∧ ∃ kvs, resolveRefs self sib b.exp = .map kvs ∧ ixs = (true, kvs.map fun kv => .k kv.1)) := by
      intro p hp b hb hs
      have h1 := hall p hp
      simp only [hb, hs, Bool.not_true, Bool.false_or, beq_iff_eq] at h1
      have h2 := hty p hp b hb
      simp only [hs, if_true] at h2
      have h3 := (eval_resolveRefs st hst F hF ρ FsT env self sib hrel [] trivial b.exp _ h2).2
      exact split_shape st isMap p.ty _ ixs h3 h1
    obtain ⟨p0, hp0, hf0⟩ := hpar b0 hb0 hs0
    have hixs1 : ixs.1 = isMap := by
      cases per p0 hp0 b0 hf0 hs0 with
      | inl h => obtain ⟨h1, _, _, h2⟩ := h; rw [h2, h1]
      | inr h => obtain ⟨h1, _, _, h2⟩ := h; rw [h2, h1]
    refine ⟨ixs.2, by rw [← hixs1], ?_, ?_⟩
    · intro e; rw [e] at hne; simp at hne
    · intro p hp b hb hs
      cases per p hp b hb hs with
      | inl h =>
        obtain ⟨h1, es, h2, h3⟩ := h
        exact ⟨by rw [h2, h1]; rfl, Or.inl ⟨h1, es, h2, by rw [h3]⟩⟩
      | inr h =>
        obtain ⟨h1, kvs, h2, h3⟩ := h
        exact ⟨by rw [h2, h1]; rfl, Or.inr ⟨h1, kvs, h2, by rw [h3]⟩⟩

/-- den's value of a split source has the static index set -/
theorem splitVals_indicesG (P : Program) (env : Env) (self sib : RBMap)
    (hrel : EnvRel st F ρ FsT env self sib) (c : Call) (isMap : Bool)
    (hc : MappedOkG st P env.selfTy env.callTy c isMap) (ixs : List Idx)
    (hfacts : ∀ p ∈ P.insOf c.callee, ∀ b, c.binds.find? (fun b => b.param == p.name) = some b → b.split = true →
        isMapLit (resolveRefs self sib b.exp) = isMap ∧
        ((isMap = false ∧ ∃ es, resolveRefs self sib b.exp = .arr es ∧ ixs = (List.range es.length).map .i) ∨
         (isMap = true ∧ ∃ kvs, resolveRefs self sib b.exp = .map kvs ∧ ixs = kvs.map fun kv => .k kv.1))) :
    ∀ v ∈ splitVals st env c, indicesOf v = ixs := by
  obtain ⟨_, hd, _, _, hpar, hmd, hty⟩ := hc
  intro v hv
  simp only [splitVals, hd, List.append_nil, List.mem_map, List.mem_filter] at hv
  obtain ⟨b, ⟨hb, hs⟩, rfl⟩ := hv
  obtain ⟨p, hp, hfb⟩ := hpar b hb hs
  have h2 := hty p hp b hfb
  simp only [hs, if_true] at h2
  have hE := (eval_resolveRefs st hst F hF ρ FsT env self sib hrel [] trivial b.exp _ h2).1
  cases (hfacts p hp b hfb hs).2 with
  | inl h =>
    obtain ⟨h1, es, hr, hi⟩ := h
    subst h1
    rw [hr] at hE
    simp only [liftSplitTy, Bool.false_eq_true, if_false, evalRT, Nat.add_sub_cancel] at hE
    obtain ⟨xs, hx, hl⟩ := narrow_arr_inv hF p.ty.base p.ty.mapDim p.ty.arrDim _ _ hE
    rw [hx, hi]
    simp [indicesOf, hl, evalRTList_length]
  | inr h =>
    obtain ⟨h1, kvs, hr, hi⟩ := h
    subst h1
    have hmz := hmd rfl p hp b hfb hs
    rw [hr] at hE
    have c1 : ((0 : Nat) == 0 && (p.ty.arrDim + 1 != 0)) = true := by simp
    simp only [liftSplitTy, if_true, evalRT, c1, Nat.add_sub_cancel] at hE
    obtain ⟨kvs0, hx, hk⟩ := narrow_obj_inv hF p.ty.base p.ty.arrDim _ _ hE
    rw [hx, hi]
    simp only [indicesOf]
    have e : ∀ {β : Type} (l : List (String × β)), (l.map fun kv => Idx.k kv.1) = (l.map (·.1)).map Idx.k := by
      intro β l; simp
    rw [e, e, hk, evalRTFields_keys]

omit hst hF in
/-- den's mode of the call is the mode of the typing -/
theorem callMode_G (P : Program) (env : Env) (self sib : RBMap) (c : Call) (isMap : Bool)
    (hc : MappedOkG st P env.selfTy env.callTy c isMap) (ixs : List Idx)
    (hfacts : ∀ p ∈ P.insOf c.callee, ∀ b, c.binds.find? (fun b => b.param == p.name) = some b → b.split = true →
        isMapLit (resolveRefs self sib b.exp) = isMap ∧
        ((isMap = false ∧ ∃ es, resolveRefs self sib b.exp = .arr es ∧ ixs = (List.range es.length).map .i) ∨
         (isMap = true ∧ ∃ kvs, resolveRefs self sib b.exp = .map kvs ∧ ixs = kvs.map fun kv => .k kv.1))) :
    callMode st env c = if isMap then .map else .arr := by
  obtain ⟨hm, _, _, ⟨b0, hb0, hs0⟩, hpar, hmd, hty⟩ := hc
  unfold callMode firstSplit
  simp only [hm, if_true]
  cases hf : c.binds.find? (·.split) with
  | none =>
    have := List.find?_eq_none.mp hf b0 hb0
    simp [hs0] at this
  | some b =>
    have hbm := List.mem_of_find?_eq_some hf
    have hbs : b.split = true := by simpa using List.find?_some hf
    obtain ⟨p, hp, hfb⟩ := hpar b hbm hbs
    have h2 := hty p hp b hfb
    simp only [hbs, if_true] at h2
    have hshape := (hfacts p hp b hfb hbs).2
    simp only
    cases he : b.exp with
    | lit j =>
      rw [he] at hshape
      simp [resolveRefs] at hshape
    | arr xs =>
      rw [he] at h2
      cases isMap with
      | false => simp [splitMode]
      | true => simp [liftSplitTy, HasTy] at h2
    | map kvs =>
      rw [he] at h2
      cases isMap with
      | true => simp [splitMode]
      | false => simp [liftSplitTy, HasTy] at h2
    | struct kvs =>
      rw [he] at h2
      cases isMap <;> simp [liftSplitTy, HasTy] at h2
    | self q path =>
      rw [he] at h2
      simp only [HasTy] at h2
      obtain ⟨d1, d2⟩ := h2.2.dims
      cases isMap with
      | false =>
        simp only [liftSplitTy, Bool.false_eq_true, if_false] at d1 d2
        simp [splitMode, d2]
      | true =>
        simp only [liftSplitTy, if_true] at d1 d2
        simp [splitMode, d1, d2]
    | ref q path =>
      rw [he] at h2
      simp only [HasTy] at h2
      obtain ⟨d1, d2⟩ := h2.2.dims
      cases isMap with
      | false =>
        simp only [liftSplitTy, Bool.false_eq_true, if_false] at d1 d2
        simp [splitMode, d2]
      | true =>
        simp only [liftSplitTy, if_true] at d1 d2
        simp [splitMode, d1, d2]

end mapped

section callsG
variable (st : StructTable) (hst : StructsOk st) (F : Nat) (hF : NarrowFix st F) (ρ : Store)
include hst hF

theorem field_narrow_obj (b : String) (a : Nat) (v : J) (s : String) :
    narrow st F ⟨b, 0, a⟩ (v.field s) = (narrow st F ⟨b, a + 1, 0⟩ v).field s := by
  cases v with
  | obj kvs =>
    rw [narrow_obj hF]
    simp only [J.field, lookup_map_snd]
    cases kvs.lookup s <;> simp [narrow_null hF]
  | dnull => simp [J.field, narrow_dnull hF]
  | null => simp [J.field, narrow_null hF]
  | atom x =>
    have : narrow st F ⟨b, a + 1, 0⟩ (.atom x) = .null := by rw [hF]; simp [atBase, mapArr, mapObj]
    simp [J.field, this, narrow_null hF]
  | arr xs =>
    have : narrow st F ⟨b, a + 1, 0⟩ (.arr xs) = .null := by rw [hF]; simp [atBase, mapArr, mapObj]
    simp [J.field, this, narrow_null hF]

/-- the bindings of fork `ix` of a map call of a stage: den's argument record = run-time
evaluation of the resolved inputs in a fork assignment that selects `ix` -/
theorem args_mappedG (P : Program) (env : Env) (self sib : RBMap)
    (hrel : EnvRel st F ρ FsT env self sib) (c : Call) (isMap : Bool)
    (hc : MappedOkG st P env.selfTy env.callTy c isMap) (ixs : List Idx)
    (hfacts : ∀ p ∈ P.insOf c.callee, ∀ b, c.binds.find? (fun b => b.param == p.name) = some b → b.split = true →
        isMapLit (resolveRefs self sib b.exp) = isMap ∧
        ((isMap = false ∧ ∃ es, resolveRefs self sib b.exp = .arr es ∧ ixs = (List.range es.length).map .i) ∨
         (isMap = true ∧ ∃ kvs, resolveRefs self sib b.exp = .map kvs ∧ ixs = kvs.map fun kv => .k kv.1)))
    (ix : Idx) (hix : ix ∈ ixs) (f : ForkAssign) (hf : f.lookup c.id = some ix) :
    mkArgs st F (argVals st env (P.insOf c.callee) c) (some ix)
      = .obj ((resolveBindsM st self sib (P.insOf c.callee) c).map fun kv =>
          (kv.1, evalRT st F ρ f kv.2.ty kv.2.exp)) := by
  obtain ⟨_, _, _, _, _, hmd, hb⟩ := hc
  simp only [mkArgs, argVals, resolveBindsM, List.map_map, J.obj.injEq]
  apply List.map_congr_left
  intro p hp
  simp only [Function.comp_apply]
  cases hfb : c.binds.find? (fun b => b.param == p.name) with
  | none => simp [narrow_null hF, evalRT]
  | some b =>
    simp only [Prod.mk.injEq, true_and]
    have hty := hb p hp b hfb
    cases hs : b.split with
    | false =>
      simp only [hs, Bool.false_eq_true, if_false] at hty ⊢
      exact (eval_resolveExp st hst F hF ρ FsT env self sib hrel f trivial b.exp p.ty hty).1
    | true =>
      simp only [hs, if_true] at hty ⊢
      obtain ⟨hlit, hshape⟩ := hfacts p hp b hfb hs
      have key := (eval_resolveExp st hst F hF ρ FsT env self sib hrel f trivial b.exp _ hty).1
      rw [hlit]
      cases hshape with
      | inl h =>
        obtain ⟨h1, es, _, hi⟩ := h
        subst h1
        rw [hi] at hix
        simp only [List.mem_map] at hix
        obtain ⟨k, _, rfl⟩ := hix
        simp only [liftSplitTy, Bool.false_eq_true, if_false, evalRT, hf, Option.getD_some] at key ⊢
        rw [← key]
        obtain ⟨pb, pm, pa⟩ := p.ty
        simp only [elemArr]
        exact elemAt_narrow_arr st hst F hF pb pm pa _ k
      | inr h =>
        obtain ⟨h1, kvs, _, hi⟩ := h
        subst h1
        rw [hi] at hix
        simp only [List.mem_map] at hix
        obtain ⟨kv, _, rfl⟩ := hix
        have hmz := hmd rfl p hp b hfb hs
        simp only [liftSplitTy, if_true, evalRT, hf, Option.getD_some] at key ⊢
        rw [← key]
        generalize p.ty = T at hmz ⊢
        obtain ⟨pb, pm, pa⟩ := T
        simp only at hmz
        subst hmz
        simp only [elemMap, elemAt]
        exact field_narrow_obj st hst F hF pb pa _ kv.1

omit hst hF in
theorem flatMap_congr_mem {α β : Type} (l : List α) (g h : α → List β) (e : ∀ a ∈ l, g a = h a) :
    l.flatMap g = l.flatMap h := by
  induction l with
  | nil => rfl
  | cons a l ih =>
    simp only [List.flatMap_cons]
    rw [e a (by simp), ih fun x hx => e x (by simp [hx])]

/-- the calls of a pipeline body: plain calls and map calls of stages of statically known size -/
theorem refine_callsG (P : Program) (nm : List String → String) (O : Oracle) (run : Runner)
    (node : String → List String → RBMap → RB × List SNode)
    (ok : String → List String → RBMap → Bool) (path : List String) (self : RBMap)
    (sT : String → Ty)
    (hrun : ∀ callee path args cins, ArgsRelT st F ρ (P.insOf callee) args cins →
      (∀ n ∈ (node callee path cins).2, StoreAtNode nm O ρ n) → ok callee path cins = true →
      GoodT st F ρ callee (run callee path [] args) (node callee path cins))
    (hrunM : ∀ callee path id ix ixs args cins,
      (∃ sins souts, P.callables.lookup callee = some (.stage sins souts)) →
      args = .obj (cins.map fun kv => (kv.1, evalRT st F ρ [(id, ix)] kv.2.ty kv.2.exp)) →
      (∀ n ∈ (node callee path cins).2, StoreAtNode nm O ρ (addFork (id, ixs) n)) →
      GoodFork st F ρ callee id ix (run callee path [(id, ix)] args) (node callee path cins)) :
    ∀ (cs : List Call) (env : Env) (sib : RBMap) (acc : List Inst) (sacc : List SNode)
      (L' : List (String × Ty)),
      EnvRel st F ρ FsT env self sib → env.selfTy = sT → CallsOkG st P sT (typesOf env) cs L' →
      acc = sacc.flatMap (instsOf st F ρ) →
      (∀ n ∈ (staticCalls st P.insOf node path self cs sib []).2, StoreAtNode nm O ρ n) →
      staticCallsOk st P.insOf node ok path self cs sib = true →
      EnvRel st F ρ FsT (evalCalls st F P.insOf run path [] cs env acc).1 self
          (staticCalls st P.insOf node path self cs sib sacc).1 ∧
      (evalCalls st F P.insOf run path [] cs env acc).1.selfTys = env.selfTys ∧
      typesOf (evalCalls st F P.insOf run path [] cs env acc).1 = L' ∧
      (evalCalls st F P.insOf run path [] cs env acc).2
        = (staticCalls st P.insOf node path self cs sib sacc).2.flatMap (instsOf st F ρ) := by
  intro cs
  induction cs with
  | nil =>
    intro env sib acc sacc L' hrel _ hok hacc _ _
    simp only [CallsOkG] at hok
    simp only [evalCalls, staticCalls]
    exact ⟨hrel, trivial, hok.symm, hacc⟩
  | cons c cs ih =>
    intro env sib acc sacc L' hrel hsT hok hacc hstore hshapes
    simp only [CallsOkG] at hok
    obtain ⟨ty, hc, hcs⟩ := hok
    cases hc with
    | inl hplain =>
      obtain ⟨hc, _, hty⟩ := hplain
      have hc' : CallOk st P.insOf env.selfTy env.callTy c := by
        rw [hsT, callTy_typesOf]; exact hc
      have hargs := args_stepT st hst F hF ρ P.insOf env self sib hrel c hc'
      have hm : c.mapped = false := hc.1
      simp only [staticCallsOk, hm, Bool.false_eq_true, if_false, Bool.and_eq_true] at hshapes
      have hsplitL : (staticCalls st P.insOf node path self (c :: cs) sib []).2
          = (node c.callee (path ++ [c.id]) (resolveBinds st self sib (P.insOf c.callee) c)).2 ++
            (staticCalls st P.insOf node path self cs
              (sib ++ [(c.id, (node c.callee (path ++ [c.id]) (resolveBinds st self sib (P.insOf c.callee) c)).1)]) []).2 := by
        simp only [staticCalls, hm, Bool.false_eq_true, if_false]
        rw [staticCalls_acc]
        simp
      have hsub : ∀ n ∈ (node c.callee (path ++ [c.id]) (resolveBinds st self sib (P.insOf c.callee) c)).2,
          StoreAtNode nm O ρ n := fun n hn => hstore n (by rw [hsplitL]; simp [hn])
      have hgood := hrun c.callee (path ++ [c.id]) _ _ hargs hsub hshapes.1
      obtain ⟨g1, g2, g3⟩ := hgood
      simp only [evalCalls, staticCalls, hm, Bool.false_eq_true, if_false]
      rw [evalCall_plain st F P.insOf run path [] env c hc.1 hc.2.1]
      simp only
      have hrel' := envRel_stepT st F ρ env self sib hrel c.id ⟨c.callee, 0, 0⟩ _ _ g1 g2
      exact ih _ _ (acc ++ (run c.callee (path ++ [c.id]) []
          (mkArgs st F (argVals st env (P.insOf c.callee) c) none)).2)
        (sacc ++ (node c.callee (path ++ [c.id]) (resolveBinds st self sib (P.insOf c.callee) c)).2) L'
        hrel' hsT (by rw [← hty]; simpa [typesOf] using hcs) (by rw [hacc, g3, List.flatMap_append])
        (fun n hn => hstore n (by rw [hsplitL]; simp [hn])) hshapes.2
    | inr hmapped =>
      obtain ⟨isMap, hmapped, hty⟩ := hmapped
      have hmapped' : MappedOkG st P env.selfTy env.callTy c isMap := by
        rw [hsT, callTy_typesOf]; exact hmapped
      have hm : c.mapped = true := hmapped'.1
      have hd : c.disabled = none := hmapped'.2.1
      have hstage := hmapped'.2.2.1
      have hex := hmapped'.2.2.2.1
      simp only [staticCallsOk, hm, if_true, Bool.and_eq_true] at hshapes
      obtain ⟨⟨hshape, _⟩, hshapes'⟩ := hshapes
      obtain ⟨ixs, hixs, hne, hfacts⟩ := mapped_facts st hst F hF ρ P env self sib hrel c isMap hmapped' hshape
      have hidx := splitVals_indicesG st hst F hF ρ P env self sib hrel c isMap hmapped' ixs hfacts
      have hmode := callMode_G st P env self sib c isMap hmapped' ixs hfacts
      generalize hr : node c.callee (path ++ [c.id]) (resolveBindsM st self sib (P.insOf c.callee) c) = r
        at hshapes'
      have hsplitL : (staticCalls st P.insOf node path self (c :: cs) sib []).2
          = r.2.map (addFork (c.id, ixs)) ++
            (staticCalls st P.insOf node path self cs
              (sib ++ [(c.id, unrolledOutputs c (isMap, ixs) r.1.exp)]) []).2 := by
        simp only [staticCalls, hm, if_true, hixs, Option.getD_some, hr]
        rw [staticCalls_acc]
        simp [addFork]
      have hsubM : ∀ n0 ∈ r.2, StoreAtNode nm O ρ (addFork (c.id, ixs) n0) :=
        fun n0 hn0 => hstore _ (by rw [hsplitL]; simp; exact Or.inl ⟨n0, hn0, rfl⟩)
      have hfork : ∀ ix ∈ ixs, GoodFork st F ρ c.callee c.id ix
          (run c.callee (path ++ [c.id]) [(c.id, ix)]
            (mkArgs st F (argVals st env (P.insOf c.callee) c) (some ix))) r := by
        intro ix hix
        have ha := args_mappedG st hst F hF ρ P env self sib hrel c isMap hmapped' ixs hfacts ix hix
          [(c.id, ix)] (by simp)
        have := hrunM c.callee (path ++ [c.id]) c.id ix ixs _ _ hstage ha (by rw [hr]; exact hsubM)
        rw [hr] at this
        exact this
      obtain ⟨ix0, hix0⟩ : ∃ ix0, ix0 ∈ ixs := by
        cases ixs with
        | nil => exact absurd rfl hne
        | cons a l => exact ⟨a, by simp⟩
      simp only [evalCalls, staticCalls, hm, if_true, hixs, Option.getD_some, hr]
      rw [evalCall_mappedG st F P.insOf run path env c _ ixs hm hd hex hidx hne hmode]
      simp only
      -- the value of the call and its resolved outputs
      have hvt : ∀ f, collect (if isMap then Mode.map else Mode.arr) ixs (ixs.map fun ix =>
            (run c.callee (path ++ [c.id]) [(c.id, ix)]
              (mkArgs st F (argVals st env (P.insOf c.callee) c) (some ix))).1)
          = evalRT st F ρ f ty (unrolledOutputs c (isMap, ixs) r.1.exp).exp ∧
          HasTyR st ty (unrolledOutputs c (isMap, ixs) r.1.exp).exp ∧
          liftTy c.callee (if isMap then Mode.map else Mode.arr) = ty := by
        intro f
        cases isMap with
        | false =>
          simp only [Bool.false_eq_true, if_false] at hty ⊢
          subst hty
          simp only [unrolledOutputs, Bool.false_eq_true, if_false, collect, evalRT, Nat.add_sub_cancel,
            evalRTList_map, List.map_map, J.arr.injEq, HasTyR, liftTy]
          refine ⟨?_, ⟨by simp, HasTyRList_map st _ _ _ fun ix _ => by
            simp only [HasTyR]; exact (hfork ix0 hix0).2.1⟩, trivial⟩
          apply List.map_congr_left
          intro ix hix
          exact (hfork ix hix).1 (fset f c.id ix) (fset_lookup f c.id ix)
        | true =>
          simp only [if_true] at hty ⊢
          subst hty
          have c1 : ((0 : Nat) == 0 && ((1 : Nat) != 0)) = true := by decide
          simp only [unrolledOutputs, if_true, collect, evalRT, c1, Nat.add_sub_cancel,
            evalRTFields_map, zip_map_self, J.obj.injEq, HasTyR, liftTy]
          refine ⟨?_, ⟨trivial, by simp, HasTyRFields_map st _ _ _ _ fun ix _ => by
            simp only [HasTyR]; exact (hfork ix0 hix0).2.1⟩, trivial⟩
          apply List.map_congr_left
          intro ix hix
          simp only [Prod.mk.injEq, true_and]
          exact (hfork ix hix).1 (fset f c.id ix) (fset_lookup f c.id ix)
      have hlift := (hvt []).2.2
      rw [hlift]
      have hrel' := envRel_stepT st F ρ env self sib hrel c.id ty _
        ⟨(unrolledOutputs c (isMap, ixs) r.1.exp).exp, ty⟩ (fun f => (hvt f).1) (hvt []).2.1
      have hrb : unrolledOutputs c (isMap, ixs) r.1.exp = ⟨(unrolledOutputs c (isMap, ixs) r.1.exp).exp, ty⟩ := by
        cases isMap with
        | false => simp only [Bool.false_eq_true, if_false] at hty; subst hty; simp [unrolledOutputs]
        | true => simp only [if_true] at hty; subst hty; simp [unrolledOutputs]
      have hinst : (ixs.flatMap fun ix =>
            (run c.callee (path ++ [c.id]) [(c.id, ix)]
              (mkArgs st F (argVals st env (P.insOf c.callee) c) (some ix))).2)
          = (r.2.map fun n0 => ({ n0 with forks := (c.id, ixs) :: n0.forks } : SNode)).flatMap
              (instsOf st F ρ) := by
        rw [flatMap_congr_mem ixs _ (fun ix => r.2.map (forkInst st F ρ c.id ix))
          (fun ix hix => (hfork ix hix).2.2.1)]
        cases (hfork ix0 hix0).2.2.2 with
        | inl h0 => simp [h0]
        | inr h0 =>
          obtain ⟨n0, hn0, hf0⟩ := h0
          simp only [hn0, List.map_cons, List.map_nil, List.flatMap_cons, List.flatMap_nil, List.append_nil,
            instsOf, hf0]
          have hfm : ∀ (l : List Idx) (g : Idx → Inst), (l.flatMap fun k => [g k]) = l.map g := by
            intro l g
            induction l with
            | nil => rfl
            | cons a l ihl => simp [ihl]
          rw [hfm]
          apply List.map_congr_left
          intro k _
          rfl
      rw [hrb]
      exact ih _ _ (acc ++ (ixs.flatMap fun ix =>
            (run c.callee (path ++ [c.id]) [(c.id, ix)]
              (mkArgs st F (argVals st env (P.insOf c.callee) c) (some ix))).2))
        (sacc ++ r.2.map fun n0 => ({ n0 with forks := (c.id, ixs) :: n0.forks } : SNode)) L'
        hrel' hsT (by simpa [typesOf] using hcs) (by rw [hacc, hinst, List.flatMap_append])
        (fun n1 hn1 => hstore n1 (by rw [hsplitL, hrb]; exact List.mem_append_right _ hn1))
        (by rw [← hrb]; simpa [hixs] using hshapes')

end callsG

/-! ## the call graph -/

section graphG
variable (P : Program) (hw : WellTypedG P) (F : Nat) (hF : NarrowFix P.table F)
  (nm : List String → String) (O : Oracle) (ρ : Store)
include hw hF

theorem refine_callableG :
    ∀ (fuel : Nat) (callee : String) (path : List String) (args : J) (cins : RBMap),
      ArgsRelT P.table F ρ (P.insOf callee) args cins →
      (∀ n ∈ (staticCallable P nm fuel callee path cins).2, StoreAtNode nm O ρ n) →
      staticCallableOk P nm fuel callee path cins = true →
      GoodT P.table F ρ callee (runCallable P O F fuel callee path [] args)
        (staticCallable P nm fuel callee path cins) := by
  intro fuel
  induction fuel with
  | zero =>
    intro callee path args cins _ _ _
    simp only [runCallable, staticCallable, GoodT, evalRT, List.flatMap_nil]
    exact ⟨fun _ => trivial, HasTyR_null _ _, trivial⟩
  | succ fuel ih =>
    intro callee path args cins hargs hstore hok
    simp only [runCallable, staticCallable] at hstore ⊢
    simp only [staticCallableOk] at hok
    cases hl : P.callables.lookup callee with
    | none =>
      simp only [GoodT, evalRT, List.flatMap_nil]
      exact ⟨fun _ => trivial, HasTyR_null _ _, trivial⟩
    | some cb =>
      cases cb with
      | stage sins souts =>
        simp only [hl] at hstore
        have hs := hstore ⟨path, callee, cins, [], []⟩ (by simp)
        refine ⟨?_, ?_, ?_⟩
        · intro f
          simp only [evalRT, projPath]
          have := hs f
          simp only [List.map_nil] at this
          rw [this]
        · simp only [HasTyR, pathTy]
          exact Sub.refl _
        · obtain ⟨g, hc, ha, _⟩ := hargs
          simp only [List.flatMap_cons, List.flatMap_nil, List.append_nil, instsOf, toInst, runtimeArgs,
            hc, ha [], List.map_map, List.cons.injEq, and_true]
          rfl
      | pipeline pins outs calls ret =>
        simp only [hl] at hstore hok
        have hins : P.insOf callee = pins := by simp [Program.insOf, hl, Callable.ins]
        rw [hins] at hargs
        obtain ⟨L, hcalls, hret⟩ := hw.pipelines callee pins outs calls ret hl
        have htab := hw.outsOf callee _ hl
        simp only [Callable.outs] at htab
        have hn := hw.structs _ _ htab
        have hinit := envRel_initT P.table F ρ pins args cins hargs
        have hcs := refine_callsG P.table hw.structs F hF ρ P nm O (runCallable P O F fuel)
          (staticCallable P nm fuel) (staticCallableOk P nm fuel) path cins (selfTyOf pins) ih
          (fun callee path id ix ixs args cins => refine_stage_fork P F nm O ρ fuel callee path id ix ixs args cins)
          calls ⟨pins, args, []⟩ [] [] [] L hinit rfl (by simpa [typesOf] using hcalls) rfl hstore hok
        obtain ⟨hrel, hself, htypes, hinst⟩ := hcs
        simp only
        generalize evalCalls P.table F P.insOf (runCallable P O F fuel) path [] calls ⟨pins, args, []⟩ [] = R
          at hrel hself htypes hinst
        generalize staticCalls P.table P.insOf (staticCallable P nm fuel) path cins calls [] [] = S
          at hrel hinst
        have hsT : R.1.selfTy = selfTyOf pins := by rw [selfTy_eq, hself]
        have hcT : R.1.callTy = callTyOf L := by rw [callTy_typesOf, htypes]
        have key : ∀ p ∈ outs,
            (∀ f, narrow P.table F p.ty (match ret.lookup p.name with
              | some e => eval P.table R.1 e
              | none => .null)
              = evalRT P.table F ρ f p.ty (match ret.lookup p.name with
                | some e => filterR P.table p.ty (resolveRefs cins S.1 e)
                | none => .lit .null)) ∧
            HasTyR P.table p.ty (match ret.lookup p.name with
                | some e => filterR P.table p.ty (resolveRefs cins S.1 e)
                | none => .lit .null) := by
          intro p hp
          cases he : ret.lookup p.name with
          | none => exact ⟨fun f => by simp [narrow_null hF, evalRT], HasTyR_null _ _⟩
          | some e =>
            have hty := hret p hp e he
            rw [← hsT, ← hcT] at hty
            exact ⟨fun f => (eval_resolveExp P.table hw.structs F hF ρ FsT R.1 cins S.1 hrel f trivial e p.ty hty).1,
              (eval_resolveExp P.table hw.structs F hF ρ FsT R.1 cins S.1 hrel [] trivial e p.ty hty).2⟩
        have c2 : ((0 : Nat) == 0 && (0 : Nat) != 0) = false := by decide
        refine ⟨?_, ?_, hinst⟩
        · intro f
          simp only [evalRT, c2, Bool.false_eq_true, if_false, htab, J.obj.injEq]
          apply List.map_congr_left
          intro p hp
          simp only [Prod.mk.injEq, true_and]
          rw [lookup_evalRTMembers, lookup_map_find, find_name_of_nodup outs hn p hp,
            memberTy_find outs p.name p (find_name_of_nodup outs hn p hp)]
          exact (key p hp).1 f
        · simp only [HasTyR]
          refine ⟨trivial, trivial, outs, htab, ?_, ?_⟩
          · apply HasTyRMembers_of_mem
            intro k e hke _
            simp only [List.mem_map, Prod.mk.injEq] at hke
            obtain ⟨p, hp, hk, he⟩ := hke
            subst hk; subst he
            rw [memberTy_find outs p.name p (find_name_of_nodup outs hn p hp)]
            exact (key p hp).2
          · intro p hp
            rw [lookup_map_find, find_name_of_nodup outs hn p hp]
            rfl

/-- THE REFINEMENT with map calls of stages of statically known size (array / typed-map
literals, at the call or through pipeline inputs) -/
theorem twoPhaseG_eq_den_F (hstore : ∀ n ∈ (staticProgram P nm).2, StoreAtNode nm O ρ n)
    (hok : staticProgramOk P nm = true) :
    runCallable P O F P.fuel P.top.callee [P.top.id] []
        (mkArgs P.table F (argVals P.table ⟨[], .null, []⟩ (P.insOf P.top.callee) P.top) none)
      = ((evalRT P.table F ρ [] ⟨P.top.callee, 0, 0⟩ (staticProgram P nm).1.exp),
         (staticProgram P nm).2.flatMap (instsOf P.table F ρ)) := by
  have henv : EnvRel P.table F ρ FsT ⟨[], .null, []⟩ [] [] := by
    refine ⟨?_, ?_, ?_⟩
    · intro p; simp [Env.selfTy, σexp, HasTyR_null, evalRT, J.field]
    · intro c; simp [Env.callTy, Env.callVal, σexp, HasTyR_null, evalRT]
    · intro c; rfl
  have htop : CallOk P.table P.insOf (Env.selfTy ⟨[], .null, []⟩) (Env.callTy ⟨[], .null, []⟩) P.top := by
    rw [selfTy_eq, callTy_typesOf]
    exact hw.top.1
  have hargs := args_stepT P.table hw.structs F hF ρ P.insOf ⟨[], .null, []⟩ [] [] henv P.top htop
  have := refine_callableG P hw F hF nm O ρ P.fuel P.top.callee [P.top.id] _ _ hargs hstore hok
  obtain ⟨g1, g2, g3⟩ := this
  exact Prod.ext (g1 []) g3

end graphG

end Proofs.ResolverStatic
