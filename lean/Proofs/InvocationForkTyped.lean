/-
C16-H2: the structured cases of `convertToExp` (`LazyArgumentMap`, `MarshalerMap`, `marshallerArray`,
`nil`) agree with the `RawMessage` case on the marshalled JSON of a well-typed value, and the call
built from well-typed resolved arguments is well-typed.
-/
import Proofs.InvocationFork

namespace Martian.InvocationFork
open Martian.Invocation Martian.InvocationText

/-! ### `fix` at the untyped map is the identity -/
mutual
theorem fix_umap : ∀ (e : Exp) (ad : Nat), fix .umap ad 0 e = e
  | .lit _, _ => by simp [fix]
  | .arr xs, ad => by simp [fix, fixList_umap xs (ad - 1)]
  | .map k kvs, ad => by
    by_cases h : ad > 0 <;> simp [fix, mapAction, Base.action0, Base.unknownAction, h]
theorem fixList_umap : ∀ (xs : EList) (ad : Nat), fixList .umap ad 0 xs = xs
  | .nil, _ => by simp [fixList]
  | .cons e r, ad => by simp [fixList, fix_umap e ad, fixList_umap r ad]
end

theorem convert_umap (ad : Nat) (j : J) : convert ⟨.umap, ad, 0⟩ j = ofJ j := by
  simp only [convert]
  cases ofJ j with
  | none => rfl
  | some e => simp [fix_umap]

theorem mapAction_umap (ad : Nat) : mapAction .umap ad 0 = .keep := by
  by_cases h : ad > 0 <;> simp [mapAction, Base.action0, Base.unknownAction, h]

theorem convertLazy_umap (ad : Nat) : ∀ kvs : JKvs,
    convertLazy .umap ad 0 kvs = (ofJKvs kvs).map ofEKvs
  | .nil => rfl
  | .cons k j r => by
    simp only [convertLazy, memberType, mapAction_umap, convert_umap, convertLazy_umap ad r, ofJKvs]
    cases ofJ j <;> cases ofJKvs r <;> simp [ofEKvs]

mutual
theorem convertMV_umap : ∀ (v : MV) (ad : Nat), noVal v = true →
    convertMV .umap ad 0 v = (ofJ (marshal v)).map ofExp
  | .nil, ad, _ => by simp [convertMV, marshal, ofJ, litOk, ofExp]
  | .val e, ad, h => by simp [noVal] at h
  | .raw j, ad, _ => by simp [convertMV, marshal, convert_umap]
  | .lazy kvs, ad, _ => by
    simp only [convertMV, convertLazy_umap, structKind, mapAction_umap, marshal, ofJ]
    cases ofJKvs kvs <;> simp [ofExp]
  | .mmap kvs, ad, h => by
    simp only [convertMV, convertMK_umap kvs ad (by simpa [noVal] using h), structKind, mapAction_umap,
      marshal, ofJ]
    cases ofJKvs (marshalK kvs) <;> simp [ofExp]
  | .marr xs, ad, h => by
    simp only [convertMV, convertML_umap xs (ad - 1) (by simpa [noVal] using h), marshal, ofJ]
    cases ofJList (marshalL xs) <;> simp [ofExp]
theorem convertML_umap : ∀ (xs : MList) (ad : Nat), noValL xs = true →
    convertML .umap ad 0 xs = (ofJList (marshalL xs)).map ofEList
  | .nil, _, _ => rfl
  | .cons v r, ad, h => by
    simp only [noValL, Bool.and_eq_true] at h
    simp only [convertML, convertMV_umap v ad h.1, convertML_umap r ad h.2, marshalL, ofJList]
    cases ofJ (marshal v) <;> cases ofJList (marshalL r) <;> simp [ofEList]
theorem convertMK_umap : ∀ (kvs : MKvs) (ad : Nat), noValK kvs = true →
    convertMK .umap ad 0 kvs = (ofJKvs (marshalK kvs)).map ofEKvs
  | .nil, _, _ => rfl
  | .cons k v r, ad, h => by
    simp only [noValK, Bool.and_eq_true] at h
    simp only [convertMK, memberType, mapAction_umap, convertMV_umap v ad h.1, convertMK_umap r ad h.2,
      marshalK, ofJKvs]
    cases ofJ (marshal v) <;> cases ofJKvs (marshalK r) <;> simp [ofEKvs]
end

/-! ### unfolding `convert` at a collection -/

theorem convert_arr (b : Base) (ad md : Nat) (xs : JList) :
    convert ⟨b, ad, md⟩ (.arr xs) = ((ofJList xs).map (fixList b (ad - 1) md)).map .arr := by
  simp only [convert, ofJ]
  cases ofJList xs <;> simp [fix]

theorem convert_obj_vals (b : Base) (ad md : Nat) (b' : Base) (ad' md' : Nat) (kvs : JKvs)
    (hm : mapAction b ad md = .vals b' ad' md') :
    convert ⟨b, ad, md⟩ (.obj kvs) = ((ofJKvs kvs).map (fixVals b' ad' md')).map (.map false) := by
  simp only [convert, ofJ]
  cases ofJKvs kvs <;> simp [fix, hm]

theorem convert_obj_fields (b : Base) (ad md : Nat) (fs : Fields) (kvs : JKvs)
    (hm : mapAction b ad md = .fields fs) :
    convert ⟨b, ad, md⟩ (.obj kvs) = ((ofJKvs kvs).map (fixFields fs)).map (.map true) := by
  simp only [convert, ofJ]
  cases ofJKvs kvs <;> simp [fix, hm]

/-! ### lazy maps -/

theorem convertLazy_vals (b : Base) (ad md : Nat) (b' : Base) (ad' md' : Nat)
    (hm : mapAction b ad md = .vals b' ad' md') : ∀ kvs : JKvs,
    convertLazy b ad md kvs = ((ofJKvs kvs).map (fixVals b' ad' md')).map ofEKvs
  | .nil => rfl
  | .cons k j r => by
    simp only [convertLazy, memberType, hm, convert, convertLazy_vals b ad md b' ad' md' hm r, ofJKvs]
    cases ofJ j <;> cases ofJKvs r <;> simp [ofEKvs, fixVals]

theorem convertLazy_fields (b : Base) (ad md : Nat) (fs : Fields)
    (hm : mapAction b ad md = .fields fs) : ∀ kvs : JKvs, jWtFields fs kvs = true →
    convertLazy b ad md kvs = ((ofJKvs kvs).map (fixFields fs)).map ofEKvs
  | .nil, _ => rfl
  | .cons k j r, hw => by
    simp only [jWtFields, Bool.and_eq_true] at hw
    have hk : (fs.find k).getD ⟨b, ad, md⟩ = fs.findD k := by
      cases hf : fs.find k with
      | none => simp [hf] at hw
      | some t => simp [Fields.findD, hf]
    simp only [convertLazy, memberType, hm, hk, convert, convertLazy_fields b ad md fs hm r hw.2, ofJKvs]
    cases ofJ j <;> cases ofJKvs r <;> simp [ofEKvs, fixFields]

/-! ### THE STRUCTURED CASES = THE RAW CASE on well-typed values -/
mutual
theorem convertMV_eq_convert : ∀ (v : MV) (b : Base) (ad md : Nat), noVal v = true →
    jWt b ad md (marshal v) = true →
    convertMV b ad md v = (convert ⟨b, ad, md⟩ (marshal v)).map ofExp
  | .nil, b, ad, md, _, _ => by simp [convertMV, marshal, convert, ofJ, litOk, fix, ofExp]
  | .val e, b, ad, md, h, _ => by simp [noVal] at h
  | .raw j, b, ad, md, _, _ => by simp [convertMV, marshal]
  | .lazy kvs, b, ad, md, _, hw => by
    simp only [marshal, jWt, Bool.and_eq_true] at hw
    obtain ⟨_, hw⟩ := hw
    cases hm : mapAction b ad md with
    | vals b' ad' md' =>
      simp only [convertMV, marshal, convertLazy_vals b ad md b' ad' md' hm, convert_obj_vals b ad md b' ad' md' kvs hm,
        structKind, hm]
      cases ofJKvs kvs <;> simp [ofExp]
    | fields fs =>
      simp only [hm] at hw
      simp only [convertMV, marshal, convertLazy_fields b ad md fs hm kvs hw, convert_obj_fields b ad md fs kvs hm,
        structKind, hm]
      cases ofJKvs kvs <;> simp [ofExp]
    | markStruct => simp [hm] at hw
    | keep =>
      simp only [hm] at hw
      cases b <;> simp [Base.isUmap] at hw
      have hmd : md = 0 := by
        by_cases h0 : md > 0
        · simp [mapAction, h0] at hm
        · omega
      subst hmd
      rw [convertMV_umap _ _ (by simp [noVal]), convert_umap]
  | .mmap kvs, b, ad, md, h, hw => by
    have hn : noValK kvs = true := by simpa [noVal] using h
    simp only [marshal, jWt, Bool.and_eq_true] at hw
    obtain ⟨_, hw⟩ := hw
    cases hm : mapAction b ad md with
    | vals b' ad' md' =>
      simp only [hm] at hw
      simp only [convertMV, marshal, convertMK_vals kvs b ad md b' ad' md' hm hn hw,
        convert_obj_vals b ad md b' ad' md' _ hm, structKind, hm]
      cases ofJKvs (marshalK kvs) <;> simp [ofExp]
    | fields fs =>
      simp only [hm] at hw
      simp only [convertMV, marshal, convertMK_fields kvs b ad md fs hm hn hw,
        convert_obj_fields b ad md fs _ hm, structKind, hm]
      cases ofJKvs (marshalK kvs) <;> simp [ofExp]
    | markStruct => simp [hm] at hw
    | keep =>
      simp only [hm] at hw
      cases b <;> simp [Base.isUmap] at hw
      have hmd : md = 0 := by
        by_cases h0 : md > 0
        · simp [mapAction, h0] at hm
        · omega
      subst hmd
      rw [convertMV_umap _ _ (by simpa [noVal] using hn), convert_umap]
  | .marr xs, b, ad, md, h, hw => by
    have hn : noValL xs = true := by simpa [noVal] using h
    simp only [marshal, jWt, Bool.and_eq_true] at hw
    simp only [convertMV, marshal, convertML_eq xs b (ad - 1) md hn hw.2, convert_arr]
    cases ofJList (marshalL xs) <;> simp [ofExp]
theorem convertML_eq : ∀ (xs : MList) (b : Base) (ad md : Nat), noValL xs = true →
    jWtList b ad md (marshalL xs) = true →
    convertML b ad md xs = ((ofJList (marshalL xs)).map (fixList b ad md)).map ofEList
  | .nil, _, _, _, _, _ => rfl
  | .cons v r, b, ad, md, h, hw => by
    simp only [noValL, Bool.and_eq_true] at h
    simp only [marshalL, jWtList, Bool.and_eq_true] at hw
    simp only [convertML, convertMV_eq_convert v b ad md h.1 hw.1, convertML_eq r b ad md h.2 hw.2, marshalL,
      ofJList, convert]
    cases ofJ (marshal v) <;> cases ofJList (marshalL r) <;> simp [ofEList, fixList]
theorem convertMK_vals : ∀ (kvs : MKvs) (b : Base) (ad md : Nat) (b' : Base) (ad' md' : Nat),
    mapAction b ad md = .vals b' ad' md' → noValK kvs = true → jWtVals b' ad' md' (marshalK kvs) = true →
    convertMK b ad md kvs = ((ofJKvs (marshalK kvs)).map (fixVals b' ad' md')).map ofEKvs
  | .nil, _, _, _, _, _, _, _, _, _ => rfl
  | .cons k v r, b, ad, md, b', ad', md', hm, h, hw => by
    simp only [noValK, Bool.and_eq_true] at h
    simp only [marshalK, jWtVals, Bool.and_eq_true] at hw
    simp only [convertMK, memberType, hm, convertMV_eq_convert v b' ad' md' h.1 hw.1,
      convertMK_vals r b ad md b' ad' md' hm h.2 hw.2, marshalK, ofJKvs, convert]
    cases ofJ (marshal v) <;> cases ofJKvs (marshalK r) <;> simp [ofEKvs, fixVals]
theorem convertMK_fields : ∀ (kvs : MKvs) (b : Base) (ad md : Nat) (fs : Fields),
    mapAction b ad md = .fields fs → noValK kvs = true → jWtFields fs (marshalK kvs) = true →
    convertMK b ad md kvs = ((ofJKvs (marshalK kvs)).map (fixFields fs)).map ofEKvs
  | .nil, _, _, _, _, _, _, _ => rfl
  | .cons k v r, b, ad, md, fs, hm, h, hw => by
    simp only [noValK, Bool.and_eq_true] at h
    simp only [marshalK, jWtFields, Bool.and_eq_true] at hw
    have hk : (fs.find k).getD ⟨b, ad, md⟩ = fs.findD k := by
      cases hf : fs.find k with
      | none => simp [hf] at hw
      | some t => simp [Fields.findD, hf]
    simp only [convertMK, memberType, hm, hk, convertMV_eq_convert v _ _ _ h.1 hw.1.2,
      convertMK_fields r b ad md fs hm h.2 hw.2, marshalK, ofJKvs, convert]
    cases ofJ (marshal v) <;> cases ofJKvs (marshalK r) <;> simp [ofEKvs, fixFields]
end

/-! ### integers in range: the conversion succeeds -/

theorem jIntsOk_marshal : ∀ v : MV, noVal v = true → mvIntsOk v = true → jIntsOk (marshal v) = true := by
  intro v
  exact MV.rec
    (motive_1 := fun v => noVal v = true → mvIntsOk v = true → jIntsOk (marshal v) = true)
    (motive_2 := fun xs => noValL xs = true → mvIntsOkL xs = true → jIntsOkList (marshalL xs) = true)
    (motive_3 := fun kvs => noValK kvs = true → mvIntsOkK kvs = true → jIntsOkKvs (marshalK kvs) = true)
    (by intros; rfl)
    (by intro e h; simp [noVal] at h)
    (by intro j _ h; simpa [mvIntsOk, marshal] using h)
    (by intro kvs _ h; simpa [mvIntsOk, marshal, jIntsOk] using h)
    (by intro kvs ih hn h; simpa [marshal, jIntsOk] using ih (by simpa [noVal] using hn) (by simpa [mvIntsOk] using h))
    (by intro xs ih hn h; simpa [marshal, jIntsOk] using ih (by simpa [noVal] using hn) (by simpa [mvIntsOk] using h))
    (by intros; rfl)
    (by
      intro v r ihv ihr hn h
      simp only [noValL, Bool.and_eq_true] at hn
      simp only [mvIntsOkL, Bool.and_eq_true] at h
      simp [marshalL, jIntsOkList, ihv hn.1 h.1, ihr hn.2 h.2])
    (by intros; rfl)
    (by
      intro k v r ihv ihr hn h
      simp only [noValK, Bool.and_eq_true] at hn
      simp only [mvIntsOkK, Bool.and_eq_true] at h
      simp [marshalK, jIntsOkKvs, ihv hn.1 h.1, ihr hn.2 h.2])
    v

/-- a well-typed run-time value with integers in range converts – by whichever case of
`convertToExp` its dynamic type selects – to the expression the raw case gives, and that
expression is well-typed (`wt`: shape and struct-vs-map flags as the compiler demands) -/
theorem convertMV_wt (v : MV) (b : Base) (ad md : Nat) (hn : noVal v = true)
    (hw : jWt b ad md (marshal v) = true) (hi : mvIntsOk v = true) :
    ∃ e, convertMV b ad md v = some (ofExp e) ∧ convert ⟨b, ad, md⟩ (marshal v) = some e ∧
      wt b ad md e = true ∧ splitFreeI (ofExp e) = true := by
  obtain ⟨e0, he0⟩ := ofJ_isSome (marshal v) (jIntsOk_marshal v hn hi)
  refine ⟨fix b ad md e0, ?_, ?_, wt_fix_ofJ _ e0 b ad md he0 hw, splitFreeI_ofExp _⟩
  · rw [convertMV_eq_convert v b ad md hn hw]; simp [convert, he0]
  · simp [convert, he0]

end Martian.InvocationFork
