/-
Encodings between the Go spelling used by the translated definitions
(`Gen.tr_*`, extract/translate*.go) and the hand-written models; lemmas for the
tie theorems (Props/*Tie.lean).  Core Lean only.
-/
import Martian.Sched
import Martian.ForkName
import Martian.ShellQuote
import Gen.Facts

namespace Proofs.Tie
open Martian.Sched

/-! ### C02: sentinel files and states by their Go identifiers -/

/-- the set of sentinels an existence predicate on Go names makes present -/
def ssetOf (p : String → Bool) : SSet :=
  { errors := p "Errors", assert := p "Assert", complete := p "CompleteFile", disabled := p "DisabledFile",
    log := p "LogFile", jobinfo := p "JobInfoFile", queued := p "QueuedLocally" }

def goSentinel (n : String) : Option Sentinel :=
  if n = "Errors" then some .errors else if n = "Assert" then some .assert
  else if n = "CompleteFile" then some .complete else if n = "DisabledFile" then some .disabled
  else if n = "LogFile" then some .log else if n = "JobInfoFile" then some .jobinfo
  else if n = "QueuedLocally" then some .queuedLocally else none

def presentIn (x : SSet) (n : String) : Bool :=
  match goSentinel n with
  | some s => x.has s
  | none => false

/-- `(MetadataState, ok)` as `_getStateNoLock` returns it -/
def goState : Option MState → String × Bool
  | some .failed => ("Failed", true)
  | some .complete => ("Complete", true)
  | some .disabled => ("DisabledState", true)
  | some .running => ("Running", true)
  | some .queued => ("Queued", true)
  | none => ("Waiting", false)

theorem ssetOf_presentIn (x : SSet) : ssetOf (presentIn x) = x := by
  cases x
  simp [ssetOf, presentIn, goSentinel, SSet.has]

end Proofs.Tie

namespace Proofs.Tie
open Martian.ForkName

/-! ### C11: the number of digits `strconv.Itoa` writes -/

theorem itoaAux_len (k : Nat) : ∀ (fuel n : Nat) (acc : Bytes),
    n < 10 ^ (k + 1) → (k = 0 ∨ 10 ^ k ≤ n) → k < fuel →
      (itoaAux fuel n acc).length = acc.length + k + 1 := by
  induction k with
  | zero =>
    intro fuel n acc h _ hf
    obtain ⟨f, rfl⟩ : ∃ f, fuel = f + 1 := ⟨fuel - 1, by omega⟩
    have : n < 10 := by simpa using h
    simp [itoaAux, this]
  | succ k ih =>
    intro fuel n acc h hl hf
    obtain ⟨f, rfl⟩ : ∃ f, fuel = f + 1 := ⟨fuel - 1, by omega⟩
    have hlow : 10 ^ (k + 1) ≤ n := by
      rcases hl with h0 | h0
      · omega
      · exact h0
    have hpos : 1 ≤ 10 ^ k := Nat.pow_pos (by omega)
    have h10 : ¬ n < 10 := by
      have : 10 ≤ 10 ^ (k + 1) := by rw [Nat.pow_succ]; omega
      omega
    have hdiv1 : n / 10 < 10 ^ (k + 1) := by
      rw [Nat.div_lt_iff_lt_mul (by omega)]
      rw [Nat.pow_succ] at h
      omega
    have hdiv2 : 10 ^ k ≤ n / 10 := by
      rw [Nat.le_div_iff_mul_le (by omega)]
      rw [Nat.pow_succ] at hlow
      omega
    have := ih f (n / 10) (digitChar n :: acc) hdiv1 (Or.inr hdiv2) (by omega)
    simp only [itoaAux, h10, if_false]
    rw [this]
    simp only [List.length_cons]
    omega

/-- `(itoa n).length = k + 1` for `10^k ≤ n < 10^(k+1)` (and for `n < 10`, `k = 0`) -/
theorem itoa_len (k n : Nat) (h : n < 10 ^ (k + 1)) (hl : k = 0 ∨ 10 ^ k ≤ n) :
    (itoa n).length = k + 1 := by
  have hk : k < n + 1 := by
    rcases hl with h0 | h0
    · omega
    · have : k < 10 ^ k := Nat.lt_pow_self (by omega)
      omega
  have := itoaAux_len k (n + 1) n [] h hl hk
  simpa [itoa] using this

end Proofs.Tie

namespace Proofs.Tie

/-! ### loops with early return: `List.foldl (fun st x => st.or (body x)) none l` -/

theorem foldl_or_some {α β : Type} (p : α → Option β) (r : β) (l : List α) :
    List.foldl (fun st x => Option.or st (p x)) (some r) l = some r := by
  induction l with
  | nil => rfl
  | cons a l ih => simpa using ih

/-- the scan returns nothing exactly when no element makes the body return -/
theorem foldl_or_isNone {α β : Type} (p : α → Option β) (l : List α) :
    (List.foldl (fun st x => Option.or st (p x)) none l).isNone = l.all (fun x => (p x).isNone) := by
  induction l with
  | nil => rfl
  | cons a l ih =>
    simp only [List.foldl_cons, List.all_cons, Option.none_or]
    cases h : p a with
    | none => simpa using ih
    | some r => rw [foldl_or_some]; simp

/-- what the scan returns was returned by the body for some element -/
theorem foldl_or_mem {α β : Type} (p : α → Option β) (r : β) : ∀ (l : List α),
    List.foldl (fun st x => Option.or st (p x)) none l = some r → ∃ x ∈ l, p x = some r
  | [], h => by simp at h
  | a :: l, h => by
    simp only [List.foldl_cons, Option.none_or] at h
    cases hp : p a with
    | none =>
      rw [hp] at h
      obtain ⟨x, hx, hpx⟩ := foldl_or_mem p r l h
      exact ⟨x, List.mem_cons_of_mem _ hx, hpx⟩
    | some r' =>
      rw [hp, foldl_or_some] at h
      cases h
      exact ⟨a, List.mem_cons_self, hp⟩

/-- a function whose loop body only returns non-nil errors returns `nil` after
the loop exactly when no element made the body return -/
theorem scan_getD_isNone {α β : Type} (p : α → Option (Option β))
    (hp : ∀ x r, p x = some r → r.isSome = true) (l : List α) :
    (Option.getD (List.foldl (fun st x => Option.or st (p x)) none l) (none : Option β)).isNone =
      l.all (fun x => (p x).isNone) := by
  rw [← foldl_or_isNone]
  generalize hst : List.foldl (fun st x => Option.or st (p x)) none l = st
  cases st with
  | none => rfl
  | some r =>
    obtain ⟨x, _, hx⟩ := foldl_or_mem p r l hst
    have := hp x r hx
    cases r with
    | none => simp at this
    | some v => rfl

/-- no `/` and no NUL, as a scan -/
theorem all_no_slash_nul {β : Type} (m1 m2 : β) (l : List UInt8) :
    (l.all fun x => (if x == (47 : UInt8) then some m1 else if x == (0 : UInt8) then some m2
      else (none : Option β)).isNone) = (!l.contains 0x2F && !l.contains 0x00) := by
  induction l with
  | nil => rfl
  | cons a l ih =>
    simp only [List.all_cons, List.contains_cons]
    rw [ih]
    by_cases ha : a = 47
    · subst ha; simp
    · by_cases hb : a = 0
      · subst hb; simp
      · have h47 : ((47 : UInt8) == a) = false := by simpa using fun h => ha h.symm
        have h0 : ((0 : UInt8) == a) = false := by simpa using fun h => hb h.symm
        simp [ha, hb, h47, h0]

end Proofs.Tie
