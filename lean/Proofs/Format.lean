import Martian.Format

namespace Martian.Format

/-- one loop iteration only rearranges the list -/
theorem step_perm (d : Dep) (l : List Nat) (i : Nat) : (step d l i).1.Perm l := by
  unfold step
  split
  · exact List.Perm.refl _
  · rename_i c rest hdrop
    split
    · exact List.Perm.refl _
    · rename_i m _
      have hl : l = l.take i ++ c :: rest := by
        rw [← hdrop]; exact (List.take_append_drop i l).symm
      have hrest : rest = rest.take (m + 1) ++ rest.drop (m + 1) := (List.take_append_drop _ _).symm
      simp only
      conv => rhs; rw [hl]
      apply List.Perm.append_left
      conv => rhs; rw [hrest]
      exact List.perm_middle

theorem loop_perm (d : Dep) : ∀ (f : Nat) (l : List Nat) (i : Nat), (loop d f l i).Perm l := by
  intro f
  induction f with
  | zero => intro l i; exact List.Perm.refl _
  | succ f ih =>
    intro l i
    unfold loop
    split
    · exact (ih _ _).trans (step_perm d l i)
    · exact List.Perm.refl _

theorem topoSort_perm' (n : Nat) (edges : List (Nat × Nat)) : (topoSort n edges).Perm (List.range n) := by
  unfold topoSort
  simp only
  split
  · exact List.Perm.refl _
  · exact loop_perm _ _ _ _

end Martian.Format

namespace Martian.Format

theorem lastDepIdx_none (d : Dep) (c : Nat) : ∀ (rest : List Nat) (i : Nat) (acc : Option Nat),
    (rest.all fun x => !d c x) = true → lastDepIdx d c rest i acc = acc := by
  intro rest
  induction rest with
  | nil => intro i acc _; rfl
  | cons x r ih =>
    intro i acc h
    simp only [List.all_cons, Bool.and_eq_true, Bool.not_eq_true'] at h
    unfold lastDepIdx
    simp only [h.1, Bool.false_eq_true, ↓reduceIte]
    exact ih (i + 1) acc (by simpa using h.2)

/-- on a list whose tail from `i` on is already in dependency order the loop
changes nothing -/
theorem loop_sorted (d : Dep) : ∀ (f : Nat) (l : List Nat) (i : Nat),
    sortedFrom d (l.drop i) = true → loop d f l i = l := by
  intro f
  induction f with
  | zero => intro l i _; rfl
  | succ f ih =>
    intro l i hs
    unfold loop
    split
    · have hstep : step d l i = (l, i + 1) := by
        unfold step
        split
        · rfl
        · rename_i c rest hdrop
          rw [hdrop] at hs
          simp only [sortedFrom, Bool.and_eq_true] at hs
          rw [lastDepIdx_none d c rest 0 none hs.1]
      rw [hstep]
      apply ih
      have : l.drop (i + 1) = (l.drop i).drop 1 := by simp [List.drop_drop]
      rw [this]
      cases hd : l.drop i with
      | nil => simp [sortedFrom]
      | cons c rest =>
        rw [hd] at hs
        simp only [sortedFrom, Bool.and_eq_true] at hs
        simpa using hs.2
    · rfl

end Martian.Format
