/-
C01 — soundness of the decidable type check `wellTypedEB` (the fragment of `wellTypedTB` plus plain
calls with a run-time `disabled` control; every literal null or a scalar).
-/
import Proofs.ResolverStaticTreeCheck
import Proofs.ResolverStaticDis

namespace Proofs.ResolverStatic
open Martian.Dataflow Martian.Resolver Martian.ResolverForks Martian.ResolverStatic Proofs.Dataflow

theorem callCleanB_sound (c : Call) (h : callCleanB c = true) : CallClean c := by
  simp only [callCleanB, Bool.and_eq_true, List.all_eq_true] at h
  refine ⟨h.1, ?_⟩
  intro d hd
  have := h.2
  simp only [hd] at this
  exact this

theorem disabledOkEB_sound (st : StructTable) (n : Nat) (P : Program) (sT cT : String → Ty) (c : Call)
    (h : disabledOkEB st n P sT cT c = true) : DisabledOkE st P sT cT c := by
  simp only [disabledOkEB, Bool.and_eq_true, List.all_eq_true, Bool.not_eq_true'] at h
  obtain ⟨⟨⟨hm, hd⟩, hns⟩, hty⟩ := h
  refine ⟨hm, ?_, hns, ?_⟩
  · cases hc : c.disabled with
    | none => simp [hc] at hd
    | some d =>
      obtain ⟨s, e⟩ := d
      cases s with
      | true => simp [hc] at hd
      | false =>
        simp only [hc] at hd
        exact ⟨e, rfl, hasTyB_sound st n sT cT e _ hd⟩
  · intro p hp b hb
    have := hty p hp
    simp only [hb] at this
    exact hasTyB_sound st n sT cT b.exp _ this

theorem callsOkEB_sound (st : StructTable) (n : Nat) (P : Program) (sT : String → Ty) :
    ∀ (cs : List Call) (L : List (String × Ty)), callsOkEB st n P sT L cs = true → CallsOkE st P sT L cs
  | [], _, _ => trivial
  | c :: cs, L, h => by
    simp only [callsOkEB, Bool.and_eq_true, callOkEB, callOkTB, Bool.or_eq_true, List.all_eq_true,
      Bool.not_eq_true'] at h
    refine ⟨⟨callCleanB_sound c h.1.1, ?_⟩, callsOkEB_sound st n P sT cs _ h.2⟩
    rcases h.1.2 with (h1 | h1) | h1
    · exact Or.inl ⟨callOkB_sound st n P.insOf sT _ c (by rw [← callTyOfB_eq]; exact h1.1), h1.2⟩
    · exact Or.inr (Or.inl (mappedOkTB_sound st n P sT _ c (by rw [← callTyOfB_eq]; exact h1)))
    · exact Or.inr (Or.inr (disabledOkEB_sound st n P sT _ c (by rw [← callTyOfB_eq]; exact h1)))

theorem wellTypedEB_sound (P : Program) (h : wellTypedEB P = true) : WellTypedE P := by
  simp only [wellTypedEB, Bool.and_eq_true, List.all_eq_true, beq_iff_eq, Bool.not_eq_true'] at h
  obtain ⟨⟨⟨⟨⟨h1, h2⟩, h3⟩, h4⟩, h5⟩, h6⟩ := h
  refine ⟨structsOkB_sound _ h1, ?_, ?_, ?_⟩
  · intro name c hl
    exact h2 (name, c) (mem_of_lookup _ _ _ hl)
  · intro name pins outs calls ret hl
    have := h3 (name, _) (mem_of_lookup _ _ _ hl)
    simp only [pipelineOkEB, Bool.and_eq_true, List.all_eq_true] at this
    refine ⟨callsOkEB_sound _ _ _ _ calls [] (by rw [← selfTyOfB_eq]; exact this.1), ?_⟩
    intro p hp e he
    have h7 := this.2 p hp
    simp only [he, Bool.and_eq_true] at h7
    exact ⟨h7.1, hasTyB_sound _ _ _ _ e p.ty h7.2⟩
  · exact ⟨callOkB_sound _ _ _ _ _ _ h4, h5, h6⟩

/-- the instances of the two sides pair up: same key, `≈` arguments -/
theorem zip_map_eraseInst (l : List Inst) :
    ∀ p ∈ l.zip (l.map eraseInst), p.2.key = p.1.key ∧ J.approx p.1.args p.2.args = true := by
  induction l with
  | nil => intro p hp; simp at hp
  | cons a l ih =>
    intro p hp
    simp only [List.map_cons, List.zip_cons_cons, List.mem_cons] at hp
    cases hp with
    | inl h => subst h; exact ⟨rfl, Proofs.Approx.approx_erase _⟩
    | inr h => exact ih p h

end Proofs.ResolverStatic
