import Martian.VdrAll
import Proofs.VdrPath
import Proofs.VdrInv
import Proofs.VdrShrink

/-! The product system is the family of its components: after any global
history every fork is in the state its own projection of the history leads to. -/
namespace Martian.Vdr

theorem grun_eq (fs : List PFork) (evs : List GEv) :
    grun fs evs = fs.map fun f => { f with st := run f.cfg f.st (proj f.id evs) } := by
  induction evs generalizing fs with
  | nil =>
    simp only [grun, List.foldl, proj, run]
    induction fs with
    | nil => rfl
    | cons f r ih => simp only [List.map]; rw [← ih]
  | cons e r ih =>
    have h : grun fs (e :: r) = grun (gstep fs e) r := rfl
    rw [h, ih]
    cases e with
    | nodeDone n =>
      simp only [gstep, List.map_map]
      apply List.map_congr_left
      intro f _
      simp [proj, run]
    | fork id ev =>
      simp only [gstep, List.map_map]
      apply List.map_congr_left
      intro f _
      by_cases hf : f.id = id
      · have : (id == f.id) = true := by simp [hf]
        simp [proj, run, hf]
      · have h1 : (f.id == id) = false := by simpa using hf
        have h2 : (id == f.id) = false := by
          simp only [beq_eq_false_iff_ne, ne_eq]
          exact fun e => hf e.symm
        simp [proj, h1, h2, hf]

theorem mem_proj {id : ForkId} {evs : List GEv} {e : Ev} (h : e ∈ proj id evs) :
    (∃ n, e = .nodeDone n ∧ GEv.nodeDone n ∈ evs) ∨ GEv.fork id e ∈ evs := by
  induction evs with
  | nil => simp [proj] at h
  | cons g r ih =>
    cases g with
    | nodeDone n =>
      simp only [proj, List.mem_cons] at h
      rcases h with rfl | h
      · exact Or.inl ⟨n, rfl, List.mem_cons_self⟩
      · rcases ih h with ⟨m, e1, e2⟩ | h2
        · exact Or.inl ⟨m, e1, List.mem_cons_of_mem _ e2⟩
        · exact Or.inr (List.mem_cons_of_mem _ h2)
    | fork f ev =>
      simp only [proj] at h
      split at h
      · rename_i hf
        have hf' : f = id := by simpa using hf
        rcases List.mem_cons.mp h with rfl | h
        · exact Or.inr (hf' ▸ List.mem_cons_self)
        · rcases ih h with ⟨m, e1, e2⟩ | h2
          · exact Or.inl ⟨m, e1, List.mem_cons_of_mem _ e2⟩
          · exact Or.inr (List.mem_cons_of_mem _ h2)
      · rcases ih h with ⟨m, e1, e2⟩ | h2
        · exact Or.inl ⟨m, e1, List.mem_cons_of_mem _ e2⟩
        · exact Or.inr (List.mem_cons_of_mem _ h2)

/-! ### one disk under all forks -/

theorem inside_trans {a b c : Path} (h1 : pathIsInside a b = true) (h2 : pathIsInside b c = true) :
    pathIsInside a c = true := by
  rw [pathIsInside_iff] at *
  rcases h1 with rfl | h1
  · exact h2
  · rcases h2 with rfl | h2
    · exact Or.inr h1
    · right
      obtain ⟨t, ht⟩ := h2
      obtain ⟨u, hu⟩ := h1
      exact ⟨t ++ '/' :: u, by rw [← hu, ← ht]; simp⟩

theorem inside_comparable {d a b : Path} (h1 : pathIsInside d a = true) (h2 : pathIsInside d b = true) :
    pathIsInside a b = true ∨ pathIsInside b a = true := by
  rw [pathIsInside_iff] at h1 h2
  rcases h1 with rfl | h1
  · exact Or.inl ((pathIsInside_iff _ _).mpr h2)
  · rcases h2 with rfl | h2
    · exact Or.inr ((pathIsInside_iff _ _).mpr (Or.inr h1))
    · have key : ∀ x y : Path, (x ++ ['/']) <+: (y ++ ['/']) → pathIsInside y x = true := by
        intro x y hxy
        rw [pathIsInside_iff]
        obtain ⟨t, ht⟩ := hxy
        by_cases h0 : t = []
        · subst h0
          left
          have := List.append_inj' (by simpa using ht : x ++ ['/'] = y ++ ['/']) rfl
          exact this.1.symm
        · right
          have e : x ++ ['/'] ++ t.dropLast ++ [t.getLast h0] = y ++ ['/'] := by
            rw [← ht, List.append_assoc (x ++ ['/']), List.dropLast_concat_getLast h0]
          have := List.append_inj' e rfl
          exact ⟨t.dropLast, this.1⟩
      rcases List.prefix_or_prefix_of_prefix h1 h2 with h | h
      · exact Or.inr (key a b h)
      · exact Or.inl (key b a h)

/-- where the forks live: every fork's entries lie inside its own directory, the
directories of different forks are not inside one another, fork ids are unique,
nothing has been removed yet -/
structure Layout (dir : ForkId → Path) (fs : List PFork) : Prop where
  own : ∀ f ∈ fs, ∀ d ∈ f.st.disk, pathIsInside d.path (dir f.id) = true
  apart : ∀ f ∈ fs, ∀ q ∈ fs, f.id ≠ q.id →
    pathIsInside (dir f.id) (dir q.id) = false ∧ pathIsInside (dir q.id) (dir f.id) = false
  uniq : ∀ f ∈ fs, ∀ q ∈ fs, f.id = q.id → f = q
  fresh : ∀ f ∈ fs, f.st.removed = []

/-- no path a fork removes has an entry of ANOTHER fork at or below it -/
theorem no_cross_fork_removal {dir : ForkId → Path} {fs : List PFork} (lay : Layout dir fs) (evs : List GEv)
    {f q : PFork} (hf : f ∈ fs) (hq : q ∈ fs) (hne : f.id ≠ q.id) :
    ∀ g ∈ (run f.cfg f.st (proj f.id evs)).removed, ∀ d ∈ q.st.disk, pathIsInside d.path g.path = false := by
  intro g hg d hd
  cases hin : pathIsInside d.path g.path with
  | false => rfl
  | true =>
    exfalso
    have hg0 : g ∈ f.st.disk := by
      rcases (shr_run f.cfg f.st (proj f.id evs)).removed g hg with h | h
      · rw [lay.fresh f hf] at h; cases h
      · exact h
    have h1 := inside_trans hin (lay.own f hf g hg0)
    have h2 := lay.own q hq d hd
    obtain ⟨a1, a2⟩ := lay.apart f hf q hq hne
    rcases inside_comparable h1 h2 with h | h
    · rw [a1] at h; cases h
    · rw [a2] at h; cases h

end Martian.Vdr
