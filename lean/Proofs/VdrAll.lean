import Martian.VdrAll

/-! The product system is the family of its components: after any global
history every fork is in the state its own projection of the history leads to. -/
namespace Martian.Vdr

theorem grun_eq (fs : List PFork) (evs : List GEv) :
    grun fs evs = fs.map fun f => { f with st := run f.cfg f.st (proj f.id evs) } := by
  induction evs generalizing fs with
  | nil =>
    simp only [grun, List.foldl, proj, run]
    induction fs with
    | nil => rfl
    | cons f r ih => simp only [List.map]; rw [← ih]
  | cons e r ih =>
    have h : grun fs (e :: r) = grun (gstep fs e) r := rfl
    rw [h, ih]
    cases e with
    | nodeDone n =>
      simp only [gstep, List.map_map]
      apply List.map_congr_left
      intro f _
      simp [proj, run]
    | fork id ev =>
      simp only [gstep, List.map_map]
      apply List.map_congr_left
      intro f _
      by_cases hf : f.id = id
      · have : (id == f.id) = true := by simp [hf]
        simp [proj, run, hf]
      · have h1 : (f.id == id) = false := by simpa using hf
        have h2 : (id == f.id) = false := by
          simp only [beq_eq_false_iff_ne, ne_eq]
          exact fun e => hf e.symm
        simp [proj, h1, h2, hf]

theorem mem_proj {id : ForkId} {evs : List GEv} {e : Ev} (h : e ∈ proj id evs) :
    (∃ n, e = .nodeDone n ∧ GEv.nodeDone n ∈ evs) ∨ GEv.fork id e ∈ evs := by
  induction evs with
  | nil => simp [proj] at h
  | cons g r ih =>
    cases g with
    | nodeDone n =>
      simp only [proj, List.mem_cons] at h
      rcases h with rfl | h
      · exact Or.inl ⟨n, rfl, List.mem_cons_self⟩
      · rcases ih h with ⟨m, e1, e2⟩ | h2
        · exact Or.inl ⟨m, e1, List.mem_cons_of_mem _ e2⟩
        · exact Or.inr (List.mem_cons_of_mem _ h2)
    | fork f ev =>
      simp only [proj] at h
      split at h
      · rename_i hf
        have hf' : f = id := by simpa using hf
        rcases List.mem_cons.mp h with rfl | h
        · exact Or.inr (hf' ▸ List.mem_cons_self)
        · rcases ih h with ⟨m, e1, e2⟩ | h2
          · exact Or.inl ⟨m, e1, List.mem_cons_of_mem _ e2⟩
          · exact Or.inr (List.mem_cons_of_mem _ h2)
      · rcases ih h with ⟨m, e1, e2⟩ | h2
        · exact Or.inl ⟨m, e1, List.mem_cons_of_mem _ e2⟩
        · exact Or.inr (List.mem_cons_of_mem _ h2)

end Martian.Vdr
