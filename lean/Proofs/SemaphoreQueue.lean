/-
Lemmas for the queue-query reconciliation model (Martian/SemaphoreQueue.lean).
-/
import Martian.SemaphoreQueue

namespace Martian.SemaphoreQueue

/-! ## structure of `run` -/

theorem step_jobs (s : Q) (ev : Ev) : (step s ev).jobs = s.jobs.map (stepJob s ev) := rfl
theorem step_grace (s : Q) (ev : Ev) : (step s ev).grace = s.grace := rfl

theorem run_grace (s : Q) (evs : List Ev) : (run s evs).grace = s.grace := by
  induction evs generalizing s with
  | nil => rfl
  | cons ev evs ih => simp [run, ih, step_grace]

theorem run_jobs (s : Q) (evs : List Ev) : (run s evs).jobs = s.jobs.map (jobRun s evs) := by
  induction evs generalizing s with
  | nil => simp [run, jobRun]
  | cons ev evs ih =>
    simp only [run, ih, step_jobs, List.map_map]
    rfl

theorem run_append (s : Q) (a b : List Ev) : run s (a ++ b) = run (run s a) b := by
  induction a generalizing s with
  | nil => rfl
  | cons ev a ih => simp [run, ih]

theorem jobRun_append (s : Q) (a b : List Ev) (j : Job) :
    jobRun s (a ++ b) j = jobRun (run s a) b (jobRun s a j) := by
  induction a generalizing s j with
  | nil => rfl
  | cons ev a ih => simp [run, jobRun, ih]

theorem jobRun_mem (s : Q) (evs : List Ev) (j : Job) (h : j ∈ s.jobs) :
    jobRun s evs j ∈ (run s evs).jobs := by
  rw [run_jobs]; exact List.mem_map_of_mem h

/-! ## one job, one event -/

theorem alive_ne_notQueued {st : JSt} (h : st.alive = true) : st ≠ .notQueued := by
  cases st <;> simp [JSt.alive] at h ⊢


theorem sync_alive (j : Job) (h : j.st.alive = true) : j.sync = { j with st := j.disk } := by
  simp [Job.sync, h]

theorem sync_not_alive (j : Job) (h : j.st.alive = false) : j.sync = j := by
  simp [Job.sync, h]

theorem endRefresh_none (g t : Nat) (j : Job) (h : j.since = none) : endRefresh g t j = j := by
  simp [endRefresh, h]

theorem endRefresh_lt (g t s0 : Nat) (j : Job) (h : j.since = some s0) (hlt : s0 + g < t) :
    endRefresh g t j =
      if j.st.alive then { j with since := none, st := .notQueued } else { j with since := none } := by
  simp [endRefresh, h, hlt]

theorem endRefresh_ge (g t s0 : Nat) (j : Job) (h : j.since = some s0) (hge : ¬ s0 + g < t) :
    endRefresh g t j = j := by
  simp [endRefresh, h, hge]

/-- `endRefresh (sync j)` by cases, as one statement -/
theorem refresh_cases (g t : Nat) (j : Job) :
    let r := endRefresh g t j.sync
    (r = j.sync ∧ (j.since = none ∨ ∃ s0, j.since = some s0 ∧ ¬ s0 + g < t)) ∨
    (∃ s0, j.since = some s0 ∧ s0 + g < t ∧
      ((j.st.alive = true ∧ j.disk.alive = true ∧ r = { j with since := none, st := .notQueued }) ∨
       (¬ (j.st.alive = true ∧ j.disk.alive = true) ∧ r = { j.sync with since := none }))) := by
  have hsince : j.sync.since = j.since := by
    simp only [Job.sync]; split <;> rfl
  cases hs : j.since with
  | none => exact Or.inl ⟨endRefresh_none g t _ (by rw [hsince, hs]), Or.inl rfl⟩
  | some s0 =>
    by_cases hlt : s0 + g < t
    · right
      refine ⟨s0, rfl, hlt, ?_⟩
      have hr := endRefresh_lt g t s0 j.sync (by rw [hsince, hs]) hlt
      by_cases ha : j.st.alive = true
      · have hsy := sync_alive j ha
        by_cases hda : j.disk.alive = true
        · left
          refine ⟨ha, hda, ?_⟩
          show endRefresh g t j.sync = _
          rw [hr, hsy]; simp [hda]
        · right
          refine ⟨fun h => hda h.2, ?_⟩
          show endRefresh g t j.sync = _
          rw [hr, hsy]; simp [hda]
      · right
        have ha' : j.st.alive = false := by simpa using ha
        have hsy := sync_not_alive j ha'
        refine ⟨fun h => ha h.1, ?_⟩
        show endRefresh g t j.sync = _
        rw [hr, hsy]; simp [ha']
    · exact Or.inl ⟨endRefresh_ge g t s0 _ (by rw [hsince, hs]) hlt, Or.inr ⟨s0, rfl, hlt⟩⟩

theorem sync_st (j : Job) : j.sync.st = j.st ∨ (j.st.alive = true ∧ j.sync.st = j.disk) := by
  simp only [Job.sync]; split
  · rename_i h; exact Or.inr ⟨h, rfl⟩
  · exact Or.inl rfl

theorem stepJob_jobid (s : Q) (ev : Ev) (j : Job) : (stepJob s ev j).jobid = j.jobid := by
  cases ev with
  | issue t => rfl
  | answer t out =>
    simp only [stepJob]
    cases s.active with
    | none => rfl
    | some ids =>
      simp only
      split
      · simp only [failNotRunning]
        repeat' split
        all_goals rfl
      · rfl
  | refresh t =>
    simp only [stepJob, endRefresh, Job.sync]
    repeat' split
    all_goals rfl
  | progress id d =>
    simp only [stepJob]
    split <;> rfl

theorem stepJob_disk_ne (s : Q) (ev : Ev) (j : Job) (h : j.disk ≠ .notQueued) :
    (stepJob s ev j).disk ≠ .notQueued := by
  cases ev with
  | issue t => exact h
  | answer t out =>
    simp only [stepJob]
    cases s.active with
    | none => exact h
    | some ids =>
      simp only
      split
      · simp only [failNotRunning]
        repeat' split
        all_goals exact h
      · exact h
  | refresh t =>
    simp only [stepJob, endRefresh, Job.sync]
    repeat' split
    all_goals exact h
  | progress id d =>
    simp only [stepJob]
    split
    · rename_i hc
      simp only [Bool.and_eq_true, bne_iff_ne, ne_eq] at hc
      exact hc.2
    · exact h

/-- **Safety, one step.**  The only event that turns a job into "failed by
reconciliation" is a `refreshState` at a time `t` with a mark `s0`, `s0 + grace < t`,
while mrp's view AND the job's own files still say Queued/Running. -/
theorem stepJob_notQueued (s : Q) (ev : Ev) (j : Job)
    (h : (stepJob s ev j).st = .notQueued) (h0 : j.st ≠ .notQueued) (hd : j.disk ≠ .notQueued) :
    ∃ t s0, ev = .refresh t ∧ j.since = some s0 ∧ s0 + s.grace < t ∧
      j.st.alive = true ∧ j.disk.alive = true := by
  cases ev with
  | issue t => exact absurd h h0
  | answer t out =>
    exfalso
    simp only [stepJob] at h
    cases hact : s.active with
    | none => rw [hact] at h; exact h0 h
    | some ids =>
      rw [hact] at h
      simp only at h
      split at h
      · simp only [failNotRunning] at h
        repeat' split at h
        all_goals first | exact h0 h | exact hd h
      · exact h0 h
  | refresh t =>
    simp only [stepJob] at h
    rcases refresh_cases s.grace t j with ⟨hr, _⟩ | ⟨s0, hs, hlt, ⟨ha, hda, _⟩ | ⟨_, hr⟩⟩
    · exfalso
      rw [hr] at h
      rcases sync_st j with h' | ⟨_, h'⟩
      · exact h0 (h' ▸ h)
      · exact hd (h' ▸ h)
    · exact ⟨t, s0, rfl, hs, hlt, ha, hda⟩
    · exfalso
      rw [hr] at h
      simp only at h
      rcases sync_st j with h' | ⟨_, h'⟩
      · exact h0 (h' ▸ h)
      · exact hd (h' ▸ h)
  | progress id d =>
    exfalso
    simp only [stepJob] at h
    split at h <;> exact h0 h

/-- a mark is only made by an answer, at the answer's time -/
theorem stepJob_since (s : Q) (ev : Ev) (j : Job) (s0 : Nat)
    (h : (stepJob s ev j).since = some s0) :
    j.since = some s0 ∨ ∃ out, ev = .answer s0 (some out) ∧ j.jobid ∉ out := by
  cases ev with
  | issue t => exact Or.inl h
  | answer t out =>
    simp only [stepJob] at h
    cases hact : s.active with
    | none => rw [hact] at h; exact Or.inl h
    | some ids =>
      rw [hact] at h
      simp only at h
      split at h
      · rename_i hc
        simp only [Bool.and_eq_true, Bool.not_eq_true', List.contains_eq_mem,
          decide_eq_true_eq, decide_eq_false_iff_not] at hc
        cases out with
        | none => simp [Option.getD] at hc
        | some o =>
          simp only [Option.getD] at hc
          simp only [failNotRunning] at h
          repeat' split at h
          all_goals first
            | exact Or.inl h
            | (simp only [Option.some.injEq] at h; subst h; exact Or.inr ⟨o, rfl, hc.2⟩)
      · exact Or.inl h
  | refresh t =>
    simp only [stepJob] at h
    left
    have hsince : j.sync.since = j.since := by
      simp only [Job.sync]; split <;> rfl
    rcases refresh_cases s.grace t j with ⟨hr, _⟩ | ⟨s1, _, _, ⟨_, _, hr⟩ | ⟨_, hr⟩⟩
    · rw [hr, hsince] at h; exact h
    · rw [hr] at h; cases h
    · rw [hr] at h; cases h
  | progress id d =>
    simp only [stepJob] at h
    split at h <;> exact Or.inl h

theorem stepJob_since_none (s : Q) (ev : Ev) (j : Job) (hr : ev.reports j.jobid)
    (hs : j.since = none) : (stepJob s ev j).since = none := by
  cases hq : (stepJob s ev j).since with
  | none => rfl
  | some s0 =>
    exfalso
    rcases stepJob_since s ev j s0 hq with h | ⟨out, rfl, hno⟩
    · rw [hs] at h; cases h
    · exact hno hr

theorem stepJob_keeps_notQueued (s : Q) (ev : Ev) (j : Job) (h : j.st = .notQueued) :
    (stepJob s ev j).st = .notQueued := by
  have hna : j.st.alive = false := by rw [h]; rfl
  cases ev with
  | issue t => exact h
  | answer t out =>
    simp only [stepJob]
    cases s.active with
    | none => exact h
    | some ids =>
      simp only
      split
      · simp only [failNotRunning, hna]
        split
        · exact h
        · simp; exact h
      · exact h
  | refresh t =>
    simp only [stepJob]
    have hsy := sync_not_alive j hna
    rcases refresh_cases s.grace t j with ⟨hr, _⟩ | ⟨s1, _, _, ⟨ha, _, _⟩ | ⟨_, hr⟩⟩
    · rw [hr, hsy]; exact h
    · rw [hna] at ha; cases ha
    · rw [hr, hsy]; exact h
  | progress id d =>
    simp only [stepJob]
    split <;> exact h

/-- a lost job stays in flight (or is failed by reconciliation) -/
theorem stepJob_lost (s : Q) (ev : Ev) (j : Job) (hl : ev.lostFor j.jobid) (hok : j.inFlight) :
    (stepJob s ev j).st = .notQueued ∨ (stepJob s ev j).inFlight := by
  obtain ⟨h1, h2, h3, h4⟩ := hok
  cases ev with
  | issue t => exact Or.inr ⟨h1, h2, h3, h4⟩
  | answer t out =>
    right
    simp only [stepJob]
    cases s.active with
    | none => exact ⟨h1, h2, h3, h4⟩
    | some ids =>
      simp only
      split
      · simp only [failNotRunning, h3, h1, h2, Bool.not_true, Bool.false_eq_true, if_false]
        split <;> exact ⟨h2, h2, rfl, h4⟩
      · exact ⟨h1, h2, h3, h4⟩
  | refresh t =>
    simp only [stepJob]
    have hsy := sync_alive j h1
    rcases refresh_cases s.grace t j with ⟨hr, _⟩ | ⟨s1, _, _, ⟨_, _, hr⟩ | ⟨hn, _⟩⟩
    · rw [hr, hsy]; exact Or.inr ⟨h2, h2, h3, h4⟩
    · rw [hr]; exact Or.inl rfl
    · exact absurd ⟨h1, h2⟩ hn
  | progress id d =>
    right
    simp only [Ev.lostFor] at hl
    have : (j.jobid == id) = false := by
      simp only [beq_eq_false_iff_ne, ne_eq]; exact fun e => hl e.symm
    simp only [stepJob, this, Bool.false_and, Bool.false_eq_true, if_false]
    exact ⟨h1, h2, h3, h4⟩

/-- the mark of a lost job stays until it is failed -/
theorem stepJob_mark (s : Q) (ev : Ev) (j : Job) (hok : j.inFlight) (s0 : Nat)
    (hm : j.since = some s0) :
    (stepJob s ev j).st = .notQueued ∨ (stepJob s ev j).since = some s0 := by
  obtain ⟨h1, h2, h3, h4⟩ := hok
  cases ev with
  | issue t => exact Or.inr hm
  | answer t out =>
    right
    simp only [stepJob]
    cases s.active with
    | none => exact hm
    | some ids =>
      simp only
      split
      · simp [failNotRunning, h3, h1, h2, hm]
      · exact hm
  | refresh t =>
    simp only [stepJob]
    have hsy := sync_alive j h1
    rcases refresh_cases s.grace t j with ⟨hr, _⟩ | ⟨s1, _, _, ⟨_, _, hr⟩ | ⟨hn, _⟩⟩
    · rw [hr, hsy]; exact Or.inr hm
    · rw [hr]; exact Or.inl rfl
    · exact absurd ⟨h1, h2⟩ hn
  | progress id d =>
    right
    simp only [stepJob]
    split <;> exact hm

/-- an answer that omits a queried in-flight job marks it (unless marked already) -/
theorem stepJob_answer_marks (s : Q) (ids out : List String) (t : Nat) (j : Job)
    (hact : s.active = some ids) (hin : j.jobid ∈ ids) (hout : j.jobid ∉ out) (hok : j.inFlight) :
    ∃ s0, (stepJob s (.answer t (some out)) j).since = some s0 ∧ (s0 = t ∨ j.since = some s0) := by
  obtain ⟨h1, h2, h3, h4⟩ := hok
  have hc : (ids.contains j.jobid && !(out.contains j.jobid)) = true := by
    simp [hin, hout]
  simp only [stepJob, hact, Option.getD, hc, if_true, failNotRunning, h3, h1, h2,
    Bool.not_true, Bool.false_eq_true, if_false]
  cases hs : j.since with
  | none => exact ⟨t, by simp, Or.inl rfl⟩
  | some s0 => exact ⟨s0, by simp [hs], Or.inr rfl⟩

/-- a `refreshState` later than mark + grace fails the job -/
theorem stepJob_refresh_fails (s : Q) (t s0 : Nat) (j : Job) (hok : j.inFlight)
    (hm : j.since = some s0) (hlt : s0 + s.grace < t) :
    (stepJob s (.refresh t) j).st = .notQueued := by
  obtain ⟨h1, h2, h3, h4⟩ := hok
  simp only [stepJob]
  rcases refresh_cases s.grace t j with ⟨_, hc⟩ | ⟨s1, _, _, ⟨_, _, hr⟩ | ⟨hn, _⟩⟩
  · rcases hc with hc | ⟨s1, hc, hge⟩
    · rw [hm] at hc; cases hc
    · rw [hm] at hc; cases hc; exact absurd hlt hge
  · rw [hr]
  · exact absurd ⟨h1, h2⟩ hn

/-! ## the query in flight -/

theorem stepActive_notAnswer (s : Q) (ev : Ev) (ids : List String) (h : s.active = some ids)
    (hn : ev.notAnswer) : (step s ev).active = some ids := by
  cases ev with
  | issue t => simp [step, stepActive, h]
  | answer t out => exact absurd hn (by simp [Ev.notAnswer])
  | refresh t => exact h
  | progress id d => exact h

theorem run_active_noAnswer (s : Q) (evs : List Ev) (ids : List String) (h : s.active = some ids)
    (hn : noAnswer evs) : (run s evs).active = some ids := by
  induction evs generalizing s with
  | nil => exact h
  | cons ev evs ih =>
    simp only [run]
    exact ih (step s ev) (stepActive_notAnswer s ev ids h (hn ev (by simp)))
      (fun e he => hn e (by simp [he]))

theorem mem_queryIds (jobs : List Job) (j : Job) (hj : j ∈ jobs) (hok : j.inFlight) :
    j.jobid ∈ queryIds jobs := by
  obtain ⟨h1, _, h3, h4⟩ := hok
  simp only [queryIds, List.mem_map, List.mem_filter]
  exact ⟨j, ⟨hj, by simp [h1, h3, h4]⟩, rfl⟩

/-- **The query is issued**: no query in flight, the rate limit has passed and
some job is in flight ⇒ `queryQueue` starts a query about (among others) that job. -/
theorem issue_effective (s : Q) (t : Nat) (j : Job) (hj : j ∈ s.jobs) (hok : j.inFlight)
    (hact : s.active = none) (hrate : rateLimited s t = false) :
    ∃ ids, (step s (.issue t)).active = some ids ∧ j.jobid ∈ ids := by
  have hm := mem_queryIds s.jobs j hj hok
  have hne : (queryIds s.jobs).isEmpty = false := by
    cases hq : queryIds s.jobs with
    | nil => rw [hq] at hm; cases hm
    | cons a l => rfl
  exact ⟨queryIds s.jobs, by simp [step, stepActive, hact, hrate, hne], hm⟩

/-! ## runs -/

theorem jobRun_jobid (s : Q) (evs : List Ev) (j : Job) : (jobRun s evs j).jobid = j.jobid := by
  induction evs generalizing s j with
  | nil => rfl
  | cons ev evs ih => simp [jobRun, ih, stepJob_jobid]

theorem jobRun_keeps_notQueued (s : Q) (evs : List Ev) (j : Job) (h : j.st = .notQueued) :
    (jobRun s evs j).st = .notQueued := by
  induction evs generalizing s j with
  | nil => exact h
  | cons ev evs ih => exact ih _ _ (stepJob_keeps_notQueued s ev j h)

theorem jobRun_lost (s : Q) (evs : List Ev) (j : Job) (hl : Lost j.jobid evs) (hok : j.inFlight) :
    (jobRun s evs j).st = .notQueued ∨ (jobRun s evs j).inFlight := by
  induction evs generalizing s j with
  | nil => exact Or.inr hok
  | cons ev evs ih =>
    simp only [jobRun]
    rcases stepJob_lost s ev j (hl ev (by simp)) hok with h | h
    · exact Or.inl (jobRun_keeps_notQueued _ _ _ h)
    · exact ih _ _ (by rw [stepJob_jobid]; exact fun e he => hl e (by simp [he])) h

theorem jobRun_mark (s : Q) (evs : List Ev) (j : Job) (hl : Lost j.jobid evs) (hok : j.inFlight)
    (s0 : Nat) (hm : j.since = some s0) :
    (jobRun s evs j).st = .notQueued ∨ ((jobRun s evs j).inFlight ∧ (jobRun s evs j).since = some s0) := by
  induction evs generalizing s j with
  | nil => exact Or.inr ⟨hok, hm⟩
  | cons ev evs ih =>
    simp only [jobRun]
    rcases stepJob_lost s ev j (hl ev (by simp)) hok with h | h
    · exact Or.inl (jobRun_keeps_notQueued _ _ _ h)
    · rcases stepJob_mark s ev j hok s0 hm with h' | h'
      · exact Or.inl (jobRun_keeps_notQueued _ _ _ h')
      · exact ih _ _ (by rw [stepJob_jobid]; exact fun e he => hl e (by simp [he])) h h'

theorem jobRun_marks_by (s : Q) (evs : List Ev) (j : Job) (t : Nat) (hby : answersBy t evs)
    (h0 : ∀ s0, j.since = some s0 → s0 ≤ t) :
    ∀ s0, (jobRun s evs j).since = some s0 → s0 ≤ t := by
  induction evs generalizing s j with
  | nil => exact h0
  | cons ev evs ih =>
    simp only [jobRun]
    apply ih _ _ (fun e he => hby e (by simp [he]))
    intro s0 hs
    rcases stepJob_since s ev j s0 hs with h | ⟨out, rfl, _⟩
    · exact h0 s0 h
    · have := hby (.answer s0 (some out)) (by simp)
      exact this

theorem noAnswer_answersBy (t : Nat) (evs : List Ev) (h : noAnswer evs) : answersBy t evs := by
  intro ev he
  have := h ev he
  cases ev <;> simp_all [Ev.notAnswer, Ev.answerBy]

/-- **Safety over a run**: while every successful answer names the job it is
never marked, hence never failed by reconciliation. -/
theorem jobRun_reported (s : Q) (evs : List Ev) (j : Job) (hr : Reported j.jobid evs)
    (hs : j.since = none) (hd : j.disk ≠ .notQueued) (h0 : j.st ≠ .notQueued) :
    (jobRun s evs j).since = none ∧ (jobRun s evs j).st ≠ .notQueued := by
  induction evs generalizing s j with
  | nil => exact ⟨hs, h0⟩
  | cons ev evs ih =>
    simp only [jobRun]
    apply ih
    · rw [stepJob_jobid]; exact fun e he => hr e (by simp [he])
    · exact stepJob_since_none s ev j (hr ev (by simp)) hs
    · exact stepJob_disk_ne s ev j hd
    · intro hq
      obtain ⟨t, s0, _, hsome, _⟩ := stepJob_notQueued s ev j hq h0 hd
      rw [hs] at hsome; cases hsome

theorem Lost.of_append_left {id : String} {a b : List Ev} (h : Lost id (a ++ b)) : Lost id a :=
  fun e he => h e (List.mem_append_left _ he)
theorem Lost.of_append_right {id : String} {a b : List Ev} (h : Lost id (a ++ b)) : Lost id b :=
  fun e he => h e (List.mem_append_right _ he)
theorem Lost.of_cons {id : String} {e : Ev} {a : List Ev} (h : Lost id (e :: a)) : Lost id a :=
  fun e' he => h e' (List.mem_cons_of_mem _ he)

/-- **Liveness of the reconciliation.**  See `Props.C12.lost_job_eventually_failed`. -/
theorem lost_job_failed (s : Q) (j : Job) (pre mid1 mid2 : List Ev) (t1 t2 t3 : Nat)
    (out : List String) (hj : j ∈ s.jobs) (hok : j.inFlight)
    (hl : Lost j.jobid (pre ++ (Ev.issue t1 :: (mid1 ++ (Ev.answer t2 (some out) :: mid2)))))
    (hact : (run s pre).active = none) (hrate : rateLimited (run s pre) t1 = false)
    (hmid : noAnswer mid1) (hby : answersBy t2 pre) (h0 : ∀ s0, j.since = some s0 → s0 ≤ t2)
    (ht : t2 + s.grace < t3) :
    (jobRun s (pre ++ (Ev.issue t1 :: (mid1 ++ (Ev.answer t2 (some out) :: (mid2 ++ [Ev.refresh t3]))))) j).st
      = .notQueued := by
  have hlpre := hl.of_append_left
  have hl2 := hl.of_append_right.of_cons
  have hlmid1 := hl2.of_append_left
  have hl3 := hl2.of_append_right
  have hlans : (Ev.answer t2 (some out)).lostFor j.jobid := hl3 _ (by simp)
  have hlmid2 := hl3.of_cons
  rw [jobRun_append]
  -- up to the query
  have hid1 : (jobRun s pre j).jobid = j.jobid := jobRun_jobid s pre j
  rcases jobRun_lost s pre j hlpre hok with h | hok1
  · exact jobRun_keeps_notQueued _ _ _ h
  have hm1 := jobRun_marks_by s pre j t2 hby h0
  obtain ⟨ids, hids, hin⟩ := issue_effective (run s pre) t1 _ (jobRun_mem s pre j hj) hok1 hact hrate
  -- the issue step
  simp only [jobRun, stepJob]
  rw [jobRun_append]
  -- while the query is in flight
  have hact3 := run_active_noAnswer _ mid1 ids hids hmid
  have hid3 : (jobRun (step (run s pre) (.issue t1)) mid1 (jobRun s pre j)).jobid = j.jobid := by
    rw [jobRun_jobid, hid1]
  rcases jobRun_lost (step (run s pre) (.issue t1)) mid1 _ (by rw [hid1]; exact hlmid1) hok1 with h | hok3
  · exact jobRun_keeps_notQueued _ _ _ h
  have hm3 := jobRun_marks_by (step (run s pre) (.issue t1)) mid1 _ t2
    (noAnswer_answersBy t2 mid1 hmid) hm1
  -- the answer
  simp only [jobRun]
  rw [jobRun_append]
  have hout : (jobRun (step (run s pre) (.issue t1)) mid1 (jobRun s pre j)).jobid ∉ out := by
    rw [hid3]; exact hlans
  obtain ⟨s0, hmark, hs0⟩ := stepJob_answer_marks _ ids out t2 _ hact3 (by rw [hid3, ← hid1]; exact hin) hout hok3
  have hs0le : s0 ≤ t2 := by
    rcases hs0 with rfl | h
    · exact Nat.le_refl _
    · exact hm3 s0 h
  rcases stepJob_lost _ (.answer t2 (some out)) _ (by rw [hid3]; exact hlans) hok3 with h | hok4
  · exact jobRun_keeps_notQueued _ _ _ (jobRun_keeps_notQueued _ _ _ h)
  -- until the refresh
  rcases jobRun_mark _ mid2 _ (by rw [stepJob_jobid, hid3]; exact hlmid2) hok4 s0 hmark with h | ⟨hok5, hm5⟩
  · exact jobRun_keeps_notQueued _ _ _ h
  simp only [jobRun]
  apply stepJob_refresh_fails _ t3 s0 _ hok5 hm5
  simp only [run_grace, step_grace]
  omega

end Martian.SemaphoreQueue
