import Martian.JobTemplate
import Proofs.ShellReplace
import Proofs.ShellJob

/-! `jobScript` (byte level) = `renderScript` (segment level) for well-formed templates (C18). -/
namespace Martian.JobTemplate
open Martian.ShellQuote

theorem natDigitsAux_ne_nil : ∀ (f n : Nat) (acc : Bytes), acc ≠ [] → natDigitsAux f n acc ≠ []
  | 0, _, _, h => by simpa [natDigitsAux] using h
  | f + 1, n, acc, _ => by
    unfold natDigitsAux
    split
    · simp
    · exact natDigitsAux_ne_nil f _ _ (by simp)

theorem natDigits_ne_nil (n : Nat) : natDigits n ≠ [] := by
  unfold natDigits natDigitsAux
  split
  · simp
  · exact natDigitsAux_ne_nil _ _ _ (by simp)

theorem quote_ne_nil' (tbl : EscTable) (s : Bytes) : quote tbl s ≠ [] := by simp [quote]

theorem formatArgs_ne_nil (tbl : EscTable) (envs : List (Bytes × Bytes)) (cmd : Bytes)
    (argv : List Bytes) : formatArgs tbl envs cmd argv ≠ [] := by
  intro h
  have := formatArgsOrdered_ne_nil tbl (sortEnvs tbl envs) cmd argv
  unfold formatArgs at h
  rw [h] at this
  cases this

theorem param_names (tbl : EscTable) (j : JobIn) :
    (params tbl j).map (·.1) = paramSpec.map (·.1) := by
  simp [params, paramSpec]

theorem param_names_nodup : (paramSpec.map (·.1)).Nodup := by decide

theorem valsOf_self : ∀ (ps : List (String × Kind × Bytes)), (ps.map (·.1)).Nodup →
    ∀ p ∈ ps, valsOf ps p.1 = p.2.2
  | [], _, p, hp => by cases hp
  | q :: qs, hnd, p, hp => by
    simp only [List.map_cons, List.nodup_cons] at hnd
    rcases List.mem_cons.mp hp with rfl | hp
    · simp [valsOf]
    · have hne : (q.1 == p.1) = false := by
        apply Bool.eq_false_iff.mpr
        intro e
        exact hnd.1 (by rw [eq_of_beq e]; exact List.mem_map.mpr ⟨p, hp, rfl⟩)
      have ih := valsOf_self qs hnd.2 p hp
      simp only [valsOf, List.find?_cons, hne] at ih ⊢
      exact ih

/-- the pairs `jobScript` hands to the replacer, in terms of the key table -/
theorem job_pairs (tbl : EscTable) (j : JobIn) :
    (params tbl j).map (fun p => (varKey p.1, p.2.2))
      = paramKeys.map fun nk => (nk.2, valsOf (params tbl j) nk.1) := by
  have hk : paramKeys = (params tbl j).map fun p => (p.1, varKey p.1) := by
    have h1 : paramKeys = (paramSpec.map (·.1)).map fun n => (n, varKey n) := by
      simp [paramKeys, List.map_map, Function.comp_def]
    have h2 : ((params tbl j).map fun p => (p.1, varKey p.1))
        = ((params tbl j).map (·.1)).map fun n => (n, varKey n) := by
      simp [List.map_map, Function.comp_def]
    rw [h1, h2, param_names]
  rw [hk, List.map_map]
  apply List.map_congr_left
  intro p hp
  have hnd : ((params tbl j).map (·.1)).Nodup := by rw [param_names]; exact param_names_nodup
  simp [Function.comp_def, valsOf_self _ hnd p hp]

/-- every parameter but the raw ones has a non-empty value -/
theorem job_vals_ne (tbl : EscTable) (j : JobIn) :
    ∀ nk ∈ paramKeys, nk.1 ∉ maybeEmptyParams → valsOf (params tbl j) nk.1 ≠ [] := by
  intro nk hnk hme
  simp only [paramKeys, paramSpec, params, List.map_cons, List.map_nil, List.mem_cons,
    List.not_mem_nil, or_false] at hnk
  rcases hnk with h | h | h | h | h | h | h | h | h | h | h | h | h | h | h | h | h | h | h | h | h | h | h | h
  all_goals subst h
  all_goals first
    | exact absurd (by decide) hme
    | exact natDigits_ne_nil _
    | exact quote_ne_nil' _ _
    | exact formatArgs_ne_nil _ _ _ _

theorem jobScript_eq_render {tbl : EscTable} (ls : List SegLine)
    (hwf : wfTemplate paramKeys maybeEmptyParams ls = true) (j : JobIn)
    (hT : j.tmpl = templateTextK paramKeys ls) :
    jobScript tbl j = renderScript (valsOf (params tbl j)) ls := by
  have S : Setting paramKeys maybeEmptyParams ls (valsOf (params tbl j)) :=
    ⟨hwf, job_vals_ne tbl j⟩
  have := S.replace_eq_render
  unfold pairsOf at this
  unfold jobScript
  rw [job_pairs, hT]
  exact this

end Martian.JobTemplate
