import Proofs.SchedFail

/-! The completion chain UNDER FAILURES (default reset mode): in every reachable state a
failed chunk of a stage fork means the join directory is still empty, a failed split means
the join directory is empty and no chunk has been submitted — the side conditions of
`FailedBlock` (Proofs/SchedFail.lean) are consequences of reachability. -/
namespace Martian.Sched

/-! ### how a job ends -/

/-- per object (not the fork's own metadata): a live job has recorded no outcome; an object whose
directory says complete carries no `_assert` and no `_errors` that mrp has not seen (a job ends
once; later `_errors` are mrp's own); `_errors` unknown to mrp were written by a submitted job -/
structure EndObj (s : State) (o : Obj) : Prop where
  a0 : o ∈ s.alive → (s.m o).disk.has .jobinfo = true
  a : o ∈ s.alive → (s.m o).disk.has .complete = false ∧ (s.m o).disk.has .assert = false ∧
    ((s.m o).disk.has .errors = true → (s.m o).seen.has .errors = true)
  b : (s.m o).disk.has .complete = true → (s.m o).disk.has .assert = false ∧
    ((s.m o).disk.has .errors = true → (s.m o).seen.has .errors = true)
  c : (s.m o).disk.has .errors = true →
    (s.m o).seen.has .errors = true ∨ (s.m o).disk.has .jobinfo = true

def EndInv (s : State) : Prop := ∀ o : Obj, o.r ≠ .fork → EndObj s o

theorem mem_alive_apply {s : State} {e : Ev} {o : Obj} (h : o ∈ (apply s e).alive) :
    e = .launch o ∨ (o ∈ s.alive ∧ (∀ x, e ≠ .jobend o x) ∧ e ≠ .silentfail o ∧
      e ≠ .killed o ∧ e ≠ .reset o) := by
  rw [apply_alive] at h
  cases e <;> simp only [] at h <;>
    try (exact Or.inr ⟨h, by intro x; simp, by simp, by simp, by simp⟩)
  case launch o' =>
    simp only [List.mem_cons, List.mem_filter, bne_iff_ne, ne_eq] at h
    rcases h with h | h
    · left; rw [h]
    · right; exact ⟨h.1, by intro x; simp, by simp, by simp, by simp⟩
  case jobend o' x =>
    simp only [List.mem_filter, bne_iff_ne, ne_eq] at h
    right; refine ⟨h.1, ?_, by simp, by simp, by simp⟩
    intro x' he; cases he; exact h.2 rfl
  case silentfail o' =>
    simp only [List.mem_filter, bne_iff_ne, ne_eq] at h
    right; refine ⟨h.1, by intro x; simp, ?_, by simp, by simp⟩
    intro he; cases he; exact h.2 rfl
  case killed o' =>
    simp only [List.mem_filter, bne_iff_ne, ne_eq] at h
    right; refine ⟨h.1, by intro x; simp, by simp, ?_, by simp⟩
    intro he; cases he; exact h.2 rfl
  case reset o' =>
    simp only [List.mem_filter, bne_iff_ne, ne_eq] at h
    right; refine ⟨h.1, by intro x; simp, by simp, by simp, ?_⟩
    intro he; cases he; exact h.2 rfl

theorem mrpWriteOk_assert (s : State) (o : Obj) : mrpWriteOk s o .assert = false := by
  unfold mrpWriteOk; cases o.r <;> rfl

/-- mrp writes `_complete` into split / join only as a stub of a non-splitting stage that has no
state yet -/
theorem mrpWriteOk_complete_stub {s : State} {o : Obj} (hr : o.r ≠ .fork)
    (h : mrpWriteOk s o .complete = true) :
    s.st o = none ∧ jobObj (s.kind o.n) o.r = false := by
  unfold mrpWriteOk at h
  cases hro : o.r <;> simp only [hro, Bool.and_eq_true, beq_iff_eq] at h
  · have e : o = ⟨o.n, o.f, .split⟩ := by cases o; simp_all
    refine ⟨?_, by simp [jobObj, h.1.1.2]⟩
    rw [e]; exact forkState_ready_split h.2
  · simp at h
  · refine ⟨by simpa using h.1.1.2, by simp [jobObj, h.1.1.1.1.1.2]⟩
  · exact absurd hro hr

theorem W_puts (s : State) (o : Obj) (x : Sentinel) :
    ((apply s (.W o x)).m o).seen.has x = true := by
  rw [apply_m]; simp [put, has_add]

theorem silentfail_puts (s : State) (o : Obj) :
    ((apply s (.silentfail o)).m o).seen.has .errors = true := by
  rw [apply_m]; simp [put, has_add]

theorem endInv_step {s : State} {e : Ev} (hobj : ObjsInv s) (hrole : RoleInv s)
    (h : EndInv s) (hen : enabled s e = true) : EndInv (apply s e) := by
  intro o hr
  have hp := h o hr
  by_cases hreset : e = .reset o
  · subst hreset
    have hm : (apply s (.reset o)).m o = {} := by rw [apply_m]; simp
    have hna : o ∉ (apply s (.reset o)).alive := by
      intro hmem
      rcases mem_alive_apply hmem with h' | h'
      · cases h'
      · exact h'.2.2.2.2 rfl
    constructor
    · intro h'; exact absurd h' hna
    · intro h'; exact absurd h' hna
    · rw [hm]; simp
    · rw [hm]; simp
  by_cases hl : e = .launch o
  · subst hl
    obtain ⟨_, hjob, hst⟩ := launchOk_facts (en_launch hen)
    obtain ⟨hji, hcomp⟩ := st_none_disk hobj hrole hst
    have hsn := metaState_none hst
    have hass : (s.m o).disk.has .assert = false := by
      cases hx : (s.m o).disk.has .assert
      · rfl
      · have := (hobj o).kk hjob (Or.inr (Or.inr hx)); rw [hji] at this; cases this
    have herr : (s.m o).disk.has .errors = false := by
      cases hx : (s.m o).disk.has .errors
      · rfl
      · rcases hp.c hx with h' | h'
        · rw [hsn.1] at h'; cases h'
        · rw [hji] at h'; cases h'
    have hm : (apply s (.launch o)).m o = put .queuedLocally (put .jobinfo (s.m o)) := by
      rw [apply_m]; simp
    constructor
    · intro _; rw [hm]; simp [put, has_add]
    · intro _; rw [hm]; simp [put, has_add, hcomp, hass, herr]
    · rw [hm]; simp [put, has_add, hcomp]
    · rw [hm]; simp [put, has_add, herr]
  -- every other event
  have dmono : ∀ y, y ≠ Sentinel.queuedLocally → (s.m o).disk.has y = true →
      ((apply s e).m o).disk.has y = true := fun y hy => disk_mono hreset hy
  have smono : ∀ y, y ≠ Sentinel.queuedLocally → (s.m o).seen.has y = true →
      ((apply s e).m o).seen.has y = true := fun y hy => seen_mono hobj hreset hy
  have alive_pre : o ∈ (apply s e).alive → o ∈ s.alive ∧ (∀ x, e ≠ .jobend o x) ∧
      e ≠ .silentfail o := by
    intro hmem
    rcases mem_alive_apply hmem with h' | h'
    · exact absurd h' hl
    · exact ⟨h'.1, h'.2.1, h'.2.2.1⟩
  -- new `_errors`: seen at once, or the job's own
  have new_errors : (s.m o).disk.has .errors = false → ((apply s e).m o).disk.has .errors = true →
      (e = .W o .errors ∨ e = .silentfail o) ∨ e = .jobend o .errors := by
    intro h0 h1
    rcases disk_origin hen h0 h1 with ⟨he, _⟩ | he | ⟨_, he⟩ | ⟨_, he⟩ | ⟨he, _⟩
    · exact Or.inl (Or.inl he)
    · exact Or.inr he
    · rcases he with he | he <;> cases he
    · cases he
    · exact Or.inl (Or.inr he)
  have new_assert : (s.m o).disk.has .assert = false → ((apply s e).m o).disk.has .assert = true →
      e = .jobend o .assert := by
    intro h0 h1
    rcases disk_origin hen h0 h1 with ⟨_, hw⟩ | he | ⟨_, he⟩ | ⟨_, he⟩ | ⟨_, he⟩
    · rw [mrpWriteOk_assert] at hw; cases hw
    · exact he
    · rcases he with he | he <;> cases he
    · cases he
    · cases he
  constructor
  · -- a0
    intro hmem
    exact dmono _ (by simp) (hp.a0 (alive_pre hmem).1)
  · -- a
    intro hmem
    obtain ⟨hal, hnj, hns⟩ := alive_pre hmem
    obtain ⟨hc, hass, herr⟩ := hp.a hal
    refine ⟨?_, ?_, ?_⟩
    · cases hx : ((apply s e).m o).disk.has .complete
      · rfl
      · rcases complete_origin hen hc hx with he | ⟨_, hw⟩
        · exact absurd he (hnj _)
        · have hst := (mrpWriteOk_complete_stub hr hw).1
          have := (st_none_disk hobj hrole hst).1
          rw [hp.a0 hal] at this; cases this
    · cases hx : ((apply s e).m o).disk.has .assert
      · rfl
      · exact absurd (new_assert hass hx) (hnj _)
    · intro hx
      cases h0 : (s.m o).disk.has .errors
      · rcases new_errors h0 hx with (he | he) | he
        · subst he; exact W_puts _ _ _
        · exact absurd he hns
        · exact absurd he (hnj _)
      · exact smono _ (by simp) (herr h0)
  · -- b
    intro hx
    cases hc0 : (s.m o).disk.has .complete
    · -- `_complete` is new
      rcases complete_origin hen hc0 hx with he | ⟨he, hw⟩
      · subst he
        obtain ⟨_, _, _, _, _, _, hal⟩ := en_jobend' hen
        obtain ⟨_, hass, herr⟩ := hp.a hal
        have hm : (apply s (.jobend o .complete)).m o = toDisk .complete (s.m o) := by
          rw [apply_m]; simp
        rw [hm]
        refine ⟨by simp [toDisk, has_add, hass], ?_⟩
        intro h'
        have : (s.m o).disk.has .errors = true := by simpa [toDisk, has_add] using h'
        simpa [toDisk] using herr this
      · subst he
        obtain ⟨hst, hnj⟩ := mrpWriteOk_complete_stub hr hw
        have hsn := metaState_none hst
        have hsub := ((hrole o).nj hnj).2.2.2
        have hass : (s.m o).disk.has .assert = false := by
          cases hx' : (s.m o).disk.has .assert
          · rfl
          · have := hsub _ hx'; rw [hsn.2.1] at this; cases this
        have herr : (s.m o).disk.has .errors = false := by
          cases hx' : (s.m o).disk.has .errors
          · rfl
          · have := hsub _ hx'; rw [hsn.1] at this; cases this
        have hm : (apply s (.W o .complete)).m o = put .complete (s.m o) := by
          rw [apply_m]; simp
        rw [hm]
        exact ⟨by simp [put, has_add, hass], by simp [put, has_add, herr]⟩
    · obtain ⟨hass, herr⟩ := hp.b hc0
      refine ⟨?_, ?_⟩
      · cases hx' : ((apply s e).m o).disk.has .assert
        · rfl
        · have he := new_assert hass hx'
          subst he
          have := (en_jobend hen).2.2.2.2.1
          rw [hc0] at this; cases this
      · intro hx'
        cases h0 : (s.m o).disk.has .errors
        · rcases new_errors h0 hx' with (he | he) | he
          · subst he; exact W_puts _ _ _
          · subst he; exact silentfail_puts _ _
          · subst he
            have := (en_jobend hen).2.2.2.2.1
            rw [hc0] at this; cases this
        · exact smono _ (by simp) (herr h0)
  · -- c
    intro hx
    cases h0 : (s.m o).disk.has .errors
    · rcases new_errors h0 hx with (he | he) | he
      · subst he; exact Or.inl (W_puts _ _ _)
      · subst he; exact Or.inl (silentfail_puts _ _)
      · subst he
        exact Or.inr (dmono _ (by simp) (en_jobend hen).2.2.1)
    · rcases hp.c h0 with h' | h'
      · exact Or.inl (smono _ (by simp) h')
      · exact Or.inr (dmono _ (by simp) h')

theorem endInv_init (g : List NodeInfo) : EndInv (init g) := by
  intro o _
  have hm : (init g).m o = {} := rfl
  have ha : (init g).alive = [] := rfl
  constructor <;> simp [hm, ha]

theorem reach_endInv {g : List NodeInfo} {s : State} (h : Reach g s) : EndInv s := by
  induction h with
  | init => exact endInv_init _
  | step hr hen ih => exact endInv_step (reach_objsInv hr) (reach_roleInv hr) ih hen

/-! ### the completion chain under failures -/

/-- the directory says complete and nothing else -/
def ObjOK (s : State) (o : Obj) : Prop :=
  (s.m o).disk.has .complete = true ∧ (s.m o).disk.has .errors = false ∧
    (s.m o).disk.has .assert = false

theorem objOK_of_st_complete {s : State} (hobj : ObjsInv s) (hend : EndInv s) {o : Obj}
    (hr : o.r ≠ .fork) (h : s.st o = some .complete) : ObjOK s o := by
  obtain ⟨he, _, hc⟩ := metaState_complete h
  have hd := (hobj o).sub _ hc
  obtain ⟨hass, herr⟩ := (hend o hr).b hd
  refine ⟨hd, ?_, hass⟩
  cases hx : (s.m o).disk.has .errors
  · rfl
  · have := herr hx; rw [he] at this; cases this

/-- such an object stays so as long as mrp itself cannot fail it -/
theorem objOK_step {s : State} {e : Ev} (hobj : ObjsInv s) (hrole : RoleInv s) (hend : EndInv s)
    (hfull : s.full = false) (hen : enabled s e = true) {o : Obj} (hr : o.r ≠ .fork)
    (hok : ObjOK s o) (hnw : mrpWriteOk s o .errors = false) : ObjOK (apply s e) o := by
  obtain ⟨hc, herr, hass⟩ := hok
  have hne : e ≠ .reset o := by
    intro he; subst he
    rw [complete_not_resettable hobj hrole hfull ⟨herr, hass⟩ hc] at hen; cases hen
  refine ⟨disk_mono hne (by simp) hc, ?_, ?_⟩
  · cases hx : ((apply s e).m o).disk.has .errors
    · rfl
    · rcases disk_origin hen herr hx with ⟨_, hw⟩ | he | ⟨_, he⟩ | ⟨_, he⟩ | ⟨he, _⟩
      · rw [hnw] at hw; cases hw
      · subst he; have := (en_jobend hen).2.2.2.2.1; rw [hc] at this; cases this
      · rcases he with he | he <;> cases he
      · cases he
      · subst he
        have hal := (en_silentfail' hen).2.2.2
        have := ((hend o hr).a hal).1; rw [hc] at this; cases this
  · cases hx : ((apply s e).m o).disk.has .assert
    · rfl
    · rcases disk_origin hen hass hx with ⟨_, hw⟩ | he | ⟨_, he⟩ | ⟨_, he⟩ | ⟨_, he⟩
      · rw [mrpWriteOk_assert] at hw; cases hw
      · subst he; have := (en_jobend hen).2.2.2.2.1; rw [hc] at this; cases this
      · rcases he with he | he <;> cases he
      · cases he
      · cases he

theorem st_join_of_nonempty {s : State} (hobj : ObjsInv s) (hrole : RoleInv s) {n f : Nat}
    (h : ¬ joinEmpty s n f) : s.st ⟨n, f, .join⟩ ≠ none :=
  fun hst => h (st_none_disk hobj hrole hst)

theorem no_chunk_errors {s : State} {n f : Nat} (hj : s.st ⟨n, f, .join⟩ ≠ none) (i : Nat) :
    mrpWriteOk s ⟨n, f, .chunk i⟩ .errors = false := by
  cases h : mrpWriteOk s ⟨n, f, .chunk i⟩ .errors
  · rfl
  · unfold mrpWriteOk at h
    simp only [Bool.and_eq_true, beq_iff_eq] at h
    exact absurd h.2 hj

theorem no_split_errors {s : State} (hobj : ObjsInv s) (hrole : RoleInv s) {n f : Nat}
    (hk0 : ∀ i, (s.m ⟨n, f, .chunk i⟩).disk.has .jobinfo = true → i < s.nch n f)
    (hp : ¬ joinEmpty s n f ∨ ∃ i, (s.m ⟨n, f, .chunk i⟩).disk.has .jobinfo = true) :
    mrpWriteOk s ⟨n, f, .split⟩ .errors = false := by
  cases h : mrpWriteOk s ⟨n, f, .split⟩ .errors
  · rfl
  · unfold mrpWriteOk at h
    simp only [Bool.and_eq_true, beq_iff_eq, List.all_eq_true, List.mem_range,
      Bool.not_eq_true'] at h
    rcases hp with hp | ⟨i, hi⟩
    · exact absurd h.1.2 (st_join_of_nonempty hobj hrole hp)
    · have := h.2 i (hk0 i hi)
      have hi' : (s.m ⟨n, f, .chunk i⟩).disk.jobinfo = true := by simpa [SSet.has] using hi
      rw [hi'] at this; cases this

theorem join_fill_origin {s : State} {e : Ev} {n f : Nat} (hen : enabled s e = true)
    (h : joinEmpty s n f) (h' : ¬ joinEmpty (apply s e) n f) :
    e = .launch ⟨n, f, .join⟩ ∨
      (e = .W ⟨n, f, .join⟩ .complete ∧ mrpWriteOk s ⟨n, f, .join⟩ .complete = true) := by
  obtain ⟨hj, hc⟩ := h
  cases hx : ((apply s e).m ⟨n, f, .join⟩).disk.has .jobinfo
  · cases hy : ((apply s e).m ⟨n, f, .join⟩).disk.has .complete
    · exact absurd ⟨hx, hy⟩ h'
    · rcases complete_origin hen hc hy with he | he
      · subst he; have := (en_jobend hen).2.2.1; rw [hj] at this; cases this
      · exact Or.inr he
  · rcases disk_origin hen hj hx with ⟨_, hw⟩ | he | ⟨he, _⟩ | ⟨_, he⟩ | ⟨_, he⟩
    · rw [mrpWriteOk_jobinfo] at hw; cases hw
    · subst he; have := (en_jobend hen).2.1; simp at this
    · exact Or.inl he
    · cases he
    · cases he

theorem launch_join_facts {s : State} {n f : Nat} (h : launchOk s ⟨n, f, .join⟩ = true) :
    (s.nch n f = 0 → s.st ⟨n, f, .split⟩ = some .complete) ∧
    (s.nch n f ≠ 0 → allChunksComplete s n f = true) := by
  unfold launchOk at h
  simp only [Bool.and_eq_true, beq_iff_eq] at h
  have hg := h.2.2
  constructor
  · intro hz; simpa [hz] using hg
  · intro hz; simpa [hz] using hg

theorem stub_join_facts {s : State} {n f : Nat}
    (h : mrpWriteOk s ⟨n, f, .join⟩ .complete = true) :
    0 < s.nch n f ∧ allChunksComplete s n f = true := by
  unfold mrpWriteOk at h
  simp only [Bool.and_eq_true, decide_eq_true_eq] at h
  exact ⟨h.1.2, h.2⟩

/-- what the guards of `mkchunks` say -/
theorem en_mkchunks {s : State} {n f k : Nat} (hen : enabled s (.mkchunks n f k) = true) :
    (s.nch n f = 0 ∧ s.st ⟨n, f, .join⟩ = none) ∨
    ((∀ i, i < s.nch n f → i < k ∨ (s.m ⟨n, f, .chunk i⟩).disk = {}) ∧
      (k ≤ s.nch n f ∨ joinEmpty s n f)) := by
  simp only [enabled, guards, List.all_cons, List.all_nil, Bool.and_true, Bool.and_eq_true,
    Bool.or_eq_true, bne_iff_ne, ne_eq, beq_iff_eq, decide_eq_true_eq, List.all_eq_true,
    List.mem_range, Bool.not_eq_true'] at hen
  obtain ⟨_, _, _, hg, hload⟩ := hen
  rcases hload with hp | ⟨hdrop, hgrow⟩
  · rcases hg with hg | hg
    · exact absurd hp hg
    · exact Or.inl ⟨hg.1.1.1.1.1, hg.2⟩
  · refine Or.inr ⟨hdrop, ?_⟩
    rcases hgrow with h | h
    · exact Or.inl h
    · exact Or.inr ⟨by simpa [SSet.has] using h.1, by simpa [SSet.has] using h.2⟩

/-- the completion chain, whatever fails: only chunks in range have anything in their directory; once the join has been
submitted (or stubbed) every chunk in range is complete and nothing else; once a chunk or the join
has been submitted the split is complete and nothing else -/
structure ChainF (s : State) : Prop where
  k0 : ∀ n f i y, (s.m ⟨n, f, .chunk i⟩).disk.has y = true → i < s.nch n f
  k1 : ∀ n f, ¬ joinEmpty s n f → ∀ i, i < s.nch n f → ObjOK s ⟨n, f, .chunk i⟩
  k2 : ∀ n f, (¬ joinEmpty s n f ∨ ∃ i, (s.m ⟨n, f, .chunk i⟩).disk.has .jobinfo = true) →
    ObjOK s ⟨n, f, .split⟩

theorem chainF_init (g : List NodeInfo) : ChainF (init g) := by
  have hm : ∀ o, (init g).m o = {} := fun o => rfl
  constructor
  · intro n f i y h; simp [hm] at h
  · intro n f h; exact absurd (by simp [joinEmpty, hm]) h
  · intro n f h
    rcases h with h | ⟨i, h⟩
    · exact absurd (by simp [joinEmpty, hm]) h
    · simp [hm] at h

theorem chainF_step {s : State} {e : Ev} (hobj : ObjsInv s) (hrole : RoleInv s) (hend : EndInv s)
    (hfull : s.full = false) (h : ChainF s) (hen : enabled s e = true) : ChainF (apply s e) := by
  -- a submitted chunk was submitted before, or is being submitted now
  have chunk_ji : ∀ n f i, ((apply s e).m ⟨n, f, .chunk i⟩).disk.has .jobinfo = true →
      (s.m ⟨n, f, .chunk i⟩).disk.has .jobinfo = true ∨ e = .launch ⟨n, f, .chunk i⟩ := by
    intro n f i hj
    cases hc : (s.m ⟨n, f, .chunk i⟩).disk.has .jobinfo
    · rcases disk_origin hen hc hj with ⟨_, hw⟩ | he | ⟨he, _⟩ | ⟨_, he⟩ | ⟨_, he⟩
      · rw [mrpWriteOk_jobinfo] at hw; cases hw
      · subst he; have := (en_jobend hen).2.1; simp at this
      · exact Or.inr he
      · cases he
      · cases he
    · exact Or.inl rfl
  -- the chunk count does not grow while the join exists
  have nch_le : ∀ n f, ¬ joinEmpty s n f → (apply s e).nch n f ≤ s.nch n f := by
    intro n f hje
    rw [apply_nch]
    cases e <;> simp only [] <;> try exact Nat.le_refl _
    case mkchunks n' f' k =>
      split
      · rename_i heq
        simp only [Prod.mk.injEq] at heq
        obtain ⟨rfl, rfl⟩ := heq
        rcases en_mkchunks hen with ⟨_, hj⟩ | ⟨_, hg⟩
        · exact absurd hj (st_join_of_nonempty hobj hrole hje)
        · rcases hg with hg | hg
          · exact hg
          · exact absurd hg hje
      · exact Nat.le_refl _
  -- the split is complete at the events that submit a chunk or fill the join directory
  have split_ok_at_fill : ∀ n f, joinEmpty s n f → ¬ joinEmpty (apply s e) n f →
      (∀ i, (s.m ⟨n, f, .chunk i⟩).disk.has .jobinfo = false) → ObjOK s ⟨n, f, .split⟩ := by
    intro n f hje hje' hnc
    have chunk0 : 0 < s.nch n f → allChunksComplete s n f = true → False := by
      intro hz hacc
      have hc := allChunksComplete_iff.mp hacc 0 hz
      have h1 := (hobj _).sub _ (metaState_complete hc).2.2
      have := (hobj ⟨n, f, .chunk 0⟩).kk rfl (Or.inr (Or.inl h1))
      rw [hnc 0] at this; cases this
    rcases join_fill_origin hen hje hje' with he | ⟨he, hw⟩
    · subst he
      obtain ⟨hz, hnz⟩ := launch_join_facts (en_launch hen)
      by_cases h0 : s.nch n f = 0
      · exact objOK_of_st_complete hobj hend (by simp) (hz h0)
      · exact absurd (hnz h0) (fun hacc => chunk0 (by omega) hacc)
    · obtain ⟨hz, hacc⟩ := stub_join_facts hw
      exact absurd hacc (fun hacc => chunk0 hz hacc)
  constructor
  · -- k0
    intro n f i y hj
    have hpre : (s.m ⟨n, f, .chunk i⟩).disk.has y = true → i < (apply s e).nch n f := by
      intro hc
      have hi := h.k0 n f i y hc
      rw [apply_nch]
      cases e <;> simp only [] <;> try exact hi
      case mkchunks n' f' k =>
        split
        · rename_i heq
          simp only [Prod.mk.injEq] at heq
          obtain ⟨rfl, rfl⟩ := heq
          rcases en_mkchunks hen with ⟨hz, _⟩ | ⟨hdrop, _⟩
          · omega
          · rcases hdrop i hi with h' | h'
            · exact h'
            · rw [h'] at hc; simp at hc
        · exact hi
    cases hc : (s.m ⟨n, f, .chunk i⟩).disk.has y
    · have hin : ∀ o : Obj, o = ⟨n, f, .chunk i⟩ → s.hasObj o = true → i < s.nch n f := by
        intro o ho hh; subst ho
        simp only [State.hasObj, Bool.and_eq_true, decide_eq_true_eq] at hh
        exact hh.2
      rcases disk_origin hen hc hj with ⟨he, _⟩ | he | ⟨he, _⟩ | ⟨he, _⟩ | ⟨he, _⟩
      · subst he; rw [apply_nch]; exact hin _ rfl (en_W hen).2.1
      · subst he; rw [apply_nch]; exact h.k0 _ _ _ _ (en_jobend hen).2.2.1
      · subst he; rw [apply_nch]
        have hl := en_launch hen
        unfold launchOk at hl
        simp only [Bool.and_eq_true] at hl
        exact hin _ rfl hl.1.1.1.1.2
      · subst he; rw [apply_nch]; exact h.k0 _ _ _ _ (en_joblog hen).2
      · subst he; rw [apply_nch]; exact h.k0 _ _ _ _ (en_silentfail hen).2.2
    · exact hpre hc
  · -- k1
    intro n f hje' i hi
    by_cases hje : joinEmpty s n f
    · -- the join directory is being filled now
      have hm : (apply s e).m ⟨n, f, .chunk i⟩ = s.m ⟨n, f, .chunk i⟩ ∧
          (apply s e).nch n f = s.nch n f ∧
          (0 < s.nch n f → allChunksComplete s n f = true) := by
        rcases join_fill_origin hen hje hje' with he | ⟨he, hw⟩
        · subst he
          refine ⟨by rw [apply_m]; simp, by rw [apply_nch], fun hz => ?_⟩
          exact (launch_join_facts (en_launch hen)).2 (by omega)
        · subst he
          exact ⟨by rw [apply_m]; simp, by rw [apply_nch], fun _ => (stub_join_facts hw).2⟩
      obtain ⟨hm1, hm2, hm3⟩ := hm
      rw [hm2] at hi
      have hc := allChunksComplete_iff.mp (hm3 (by omega)) i hi
      have := objOK_of_st_complete hobj hend (o := ⟨n, f, .chunk i⟩) (by simp) hc
      unfold ObjOK at this ⊢
      rw [hm1]; exact this
    · have hi0 : i < s.nch n f := Nat.lt_of_lt_of_le hi (nch_le n f hje)
      exact objOK_step hobj hrole hend hfull hen (by simp) (h.k1 n f hje i hi0)
        (no_chunk_errors (st_join_of_nonempty hobj hrole hje) i)
  · -- k2
    intro n f hp'
    by_cases hp : ¬ joinEmpty s n f ∨ ∃ i, (s.m ⟨n, f, .chunk i⟩).disk.has .jobinfo = true
    · exact objOK_step hobj hrole hend hfull hen (by simp) (h.k2 n f hp)
        (no_split_errors hobj hrole (fun i hi => h.k0 n f i _ hi) hp)
    · have hje : joinEmpty s n f := Classical.byContradiction fun hx => hp (Or.inl hx)
      have hnc : ∀ i, (s.m ⟨n, f, .chunk i⟩).disk.has .jobinfo = false := by
        intro i
        cases hx : (s.m ⟨n, f, .chunk i⟩).disk.has .jobinfo
        · rfl
        · exact absurd (Or.inr ⟨i, hx⟩) hp
      -- the split's directory is not touched by the event that makes the premise true
      have key : ObjOK s ⟨n, f, .split⟩ ∧
          (apply s e).m ⟨n, f, .split⟩ = s.m ⟨n, f, .split⟩ := by
        by_cases hje' : joinEmpty (apply s e) n f
        · rcases hp' with hx | ⟨i, hi⟩
          · exact absurd hje' hx
          · rcases chunk_ji n f i hi with hc | he
            · rw [hnc i] at hc; cases hc
            · subst he
              have hl := en_launch hen
              unfold launchOk at hl
              simp only [Bool.and_eq_true, beq_iff_eq] at hl
              exact ⟨objOK_of_st_complete hobj hend (by simp) hl.2.1.2,
                by rw [apply_m]; simp⟩
        · refine ⟨split_ok_at_fill n f hje hje' hnc, ?_⟩
          rcases join_fill_origin hen hje hje' with he | ⟨he, _⟩
          · subst he; rw [apply_m]; simp
          · subst he; rw [apply_m]; simp
      unfold ObjOK at key ⊢
      rw [key.2]; exact key.1

theorem reach_chainF {g : List NodeInfo} {s : State} (h : Reach g s) : ChainF s := by
  induction h with
  | init => exact chainF_init _
  | step hr hen ih =>
    exact chainF_step (reach_objsInv hr) (reach_roleInv hr) (reach_endInv hr) (reach_full hr) ih hen

/-- the precondition of `failed_job_never_reports_success` holds in every reachable state: a job
object of an unfinished stage fork that is seen failed — the join, a chunk, the split —
satisfies `FailedBlock` -/
theorem failedBlock_of_reach {g : List NodeInfo} {s : State} (hr : Reach g s) {n f : Nat} {r : Role}
    (hk : s.kind n ≠ .pipeline) (hrole : r ≠ .fork)
    (hfail : s.st ⟨n, f, r⟩ = some .failed) (hopen : fmDone s n f = false) :
    FailedBlock s n f ⟨n, f, r⟩ := by
  have hobj := reach_objsInv hr
  have hch := reach_chainF hr
  have hbad : ¬ ObjOK s ⟨n, f, r⟩ := by
    intro hok
    rcases metaState_failed.mp hfail with h' | h'
    · have := (hobj _).sub _ h'; rw [hok.2.1] at this; cases this
    · have := (hobj _).sub _ h'; rw [hok.2.2] at this; cases this
  refine ⟨hk, hfail, hopen, ?_⟩
  cases r with
  | fork => exact absurd rfl hrole
  | join => exact .join
  | chunk i =>
    have hi : i < s.nch n f := by
      rcases metaState_failed.mp hfail with h' | h'
      · exact hch.k0 n f i _ ((hobj _).sub _ h')
      · exact hch.k0 n f i _ ((hobj _).sub _ h')
    refine .chunk i hi ?_
    apply Classical.byContradiction
    intro hje
    exact hbad (hch.k1 n f hje i hi)
  | split =>
    have hje : joinEmpty s n f := by
      apply Classical.byContradiction
      intro hje
      exact hbad (hch.k2 n f (Or.inl hje))
    refine .split hje ?_
    intro i
    cases hx : (s.m ⟨n, f, .chunk i⟩).disk.has .jobinfo
    · rfl
    · exact absurd (hch.k2 n f (Or.inr ⟨i, hx⟩)) hbad

end Martian.Sched
